------------------------------ MODULE ChanOps ------------------------------
(* The public operations of channels.Channels (channels/channels.go) as sequences of FSM events, *)
(* the two caches of channels/caches.go, and the set of trajectories the go-statemachine queue   *)
(* allows for one operation (where the cleanup handler's CleanupComplete lands in the queue).     *)
EXTENDS FSM, Integers

SimpleOps == {"Open","Accept","ChannelOpened","TransferInitiated","Restart","CompleteCleanupOnRestart",
              "PauseInitiator","PauseResponder","ResumeInitiator","ResumeResponder","Complete","FinishTransfer",
              "ResponderCompletes","ResponderBeginsFinalization","BeginFinalizing","Cancel"}
ErrOps    == {"Error","Disconnected","RequestCancelled","SendDataError","ReceiveDataError"}
DataOps   == {"DataSent","DataQueued","DataReceived"}
Ops       == SimpleOps \cup ErrOps \cup DataOps \cup {"NewVoucher","NewVoucherResult","SetDataLimit","SetRequiresFinalization"}

OpEvent(op) == IF op = "ChannelOpened" THEN "Opened" ELSE op
ProgEvent(op) == CASE op = "DataSent" -> "DataSentProgress" [] op = "DataQueued" -> "DataQueuedProgress" [] OTHER -> "DataReceivedProgress"
IdxOf(r, op) == CASE op = "DataSent" -> r.sIdx [] op = "DataQueued" -> r.qIdx [] OTHER -> r.rIdx
TotOf(r, op) == CASE op = "DataQueued" -> r.queued [] OTHER -> r.received
Limited(op)  == op \in {"DataQueued","DataReceived"}      \* DataSent passes no readProgress function

(* cache of one channel: index high-water marks per data op (lazily seeded from the durable record), *)
(* and ONE progress entry per channel (limit, running total) shared by DataQueued and DataReceived.   *)
FreshCache == [iset |-> [o \in DataOps |-> FALSE], idx |-> [o \in DataOps |-> 0], pset |-> FALSE, plim |-> 0, ptot |-> 0]

(* DataOp(op, a, r, c): a = [delta, index, unique]; r = durable record at the time of the call (the   *)
(* lazy seeding reads it through GetByID, i.e. after a flush).  Result: events, return class, cache'. *)
DataOp(op, a, r, c) ==
  LET cur  == IF c.iset[op] THEN c.idx[op] ELSE IdxOf(r, op)
      c1   == IF a.unique THEN [c EXCEPT !.iset[op] = TRUE, !.idx[op] = IF a.index > cur THEN a.index ELSE cur] ELSE c
      prog == a.unique /\ a.index > cur
      lim  == IF c1.pset THEN c1.plim ELSE r.limit
      tot0 == IF c1.pset THEN c1.ptot ELSE TotOf(r, op)
      chk  == prog /\ Limited(op)
      c2   == IF chk THEN [c1 EXCEPT !.pset = TRUE, !.plim = lim, !.ptot = tot0 + a.delta] ELSE c1
      pause == chk /\ lim # 0 /\ tot0 + a.delta >= lim
      evs  == (IF prog THEN << <<ProgEvent(op), a.delta>> >> ELSE << >>) \o << <<op, a.index>> >>
              \o (IF pause THEN << <<"DataLimitExceeded", 0>> >> ELSE << >>)
  IN [evs |-> evs, ret |-> IF pause THEN "pause" ELSE "nil", cache |-> c2]

(* OpResult(op, a, r, c): a is the argument record of the harness: [delta,index,unique,limit,flag,err,v] *)
OpResult(op, a, r, c) ==
  CASE op \in DataOps -> DataOp(op, a, r, c)
    [] op \in SimpleOps -> [evs |-> << <<OpEvent(op), 0>> >>, ret |-> "nil", cache |-> c]
    [] op \in ErrOps -> [evs |-> << <<op, a.err>> >>, ret |-> "nil", cache |-> c]
    [] op \in {"NewVoucher","NewVoucherResult"} -> [evs |-> << <<op, a.v>> >>, ret |-> "nil", cache |-> c]
    [] op = "SetDataLimit" -> [evs |-> << <<op, a.limit>> >>, ret |-> "nil",
                               cache |-> IF c.pset THEN [c EXCEPT !.plim = a.limit] ELSE c]
    [] op = "SetRequiresFinalization" -> [evs |-> << <<op, a.flag>> >>, ret |-> "nil", cache |-> c]

InsAt(s, i, x) == SubSeq(s, 1, i-1) \o <<x>> \o SubSeq(s, i, Len(s))

EmptyTraj == [puts |-> << >>, anns |-> << >>, cleanups |-> 0]
ConsT(o, e, t) == [puts |-> <<o.rec>> \o t.puts, anns |-> <<e>> \o t.anns,
                  cleanups |-> t.cleanups + (IF o.handler THEN 1 ELSE 0)]

(* Traj(r, q): every trajectory the queue semantics allows when the events q are sent in order by one *)
(* caller: an applied event whose status has an entry func (and that is not ToJustRecord) runs the     *)
(* cleanup handler, whose CleanupComplete enters the queue anywhere behind the current event.          *)
RECURSIVE Traj(_, _)
Traj(r, q) ==
  IF q = << >> THEN {EmptyTraj}
  ELSE LET e == Head(q)[1]  a == Head(q)[2]  rest == Tail(q)  o == Apply(r, e, a) IN
    IF o.kind = "term" THEN {EmptyTraj}
    ELSE IF o.kind = "invalid" THEN Traj(r, rest)
    ELSE IF o.final THEN {ConsT(o, e, EmptyTraj)}
    ELSE LET nexts == IF o.handler THEN {InsAt(rest, i, <<"CleanupComplete", 0>>) : i \in 1..(Len(rest)+1)} ELSE {rest}
         IN UNION {{ConsT(o, e, t) : t \in Traj(o.rec, q2)} : q2 \in nexts}

LastRec(r, t) == IF t.puts = << >> THEN r ELSE t.puts[Len(t.puts)]

(* The synchronous abstraction used by Mgr/Sys: CleanupComplete directly behind its cause. *)
RECURSIVE RunSync(_, _)
RunSync(r, q) ==
  IF q = << >> THEN EmptyTraj
  ELSE LET e == Head(q)[1]  a == Head(q)[2]  rest == Tail(q)  o == Apply(r, e, a) IN
    IF o.kind = "term" THEN EmptyTraj
    ELSE IF o.kind = "invalid" THEN RunSync(r, rest)
    ELSE IF o.final THEN ConsT(o, e, EmptyTraj)
    ELSE ConsT(o, e, RunSync(o.rec, IF o.handler THEN << <<"CleanupComplete", 0>> >> \o rest ELSE rest))
=============================================================================

----------------------------- MODULE IdsJudge -----------------------------
(* C18 on histories of concurrent opens on a real manager (harness idsx): per caller the sequence of issued  *)
(* transfer ids with call start/end sequence numbers; ids are given as strings of decimal digits compared    *)
(* through their rank (TLC integers are 32-bit; the harness ranks the 64-bit ids and reports rank + flags).  *)
EXTENDS Naturals, Sequences, FiniteSets, TLC, Json, SequencesExt
CONSTANTS ObsFile, OutFile
Cases == ndJsonDeserialize(ObsFile)
(* each call: [g, k, rank, start, end, life, err] ; rank = position of the id among all ids of the case (equal ids get equal rank) *)
Rules(c) ==
  LET calls == c.calls  N == Len(calls) IN
  (IF c.errors = 0 THEN {} ELSE {"C18.openFailed"})
  \cup (IF c.distinctIds = c.n THEN {} ELSE {"C18.unique"})
  \cup (IF \A s \in 1..Len(c.perCaller) : \A i \in 2..Len(c.perCaller[s]) : c.perCaller[s][i-1] < c.perCaller[s][i] THEN {} ELSE {"C18.increasingPerCaller"})
  \cup (IF \A i, j \in 1..N : calls[i].end < calls[j].start => calls[i].rank < calls[j].rank THEN {} ELSE {"C18.increasingRealTime"})
  \cup (IF c.maxLife1 < c.minLife2 THEN {} ELSE {"C18.laterLifeAbove"})
  \cup (IF c.aboveSeed THEN {} ELSE {"C18.aboveSeed"})
  \cup (IF c.distinctChannels = c.n THEN {} ELSE {"C18.distinctChannels"})
Verdicts == UNION {{[case |-> Cases[n].case, i |-> 0, rule |-> r, status |-> "", op |-> "ids"] : r \in Rules(Cases[n])} : n \in 1..Len(Cases)}
ASSUME ndJsonSerialize(OutFile, SetToSeq(Verdicts))
ASSUME PrintT(<<"@@judged", Len(Cases)>>)
=============================================================================

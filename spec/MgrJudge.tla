----------------------------- MODULE MgrJudge -----------------------------
(* Judge of observations recorded from the REAL manager (harness/mgrx): for every step the expected    *)
(* outcome Mgr!Handle is compared with what the code did (conformance, "conf" = drift) and the formulas *)
(* of C02 C04 C05 C08 C09 C10 C11 C18 C19 are evaluated on the OBSERVED values.                          *)
EXTENDS Mgr, Json, SequencesExt

CONSTANTS ObsFile, OutFile
Cases == ndJsonDeserialize(ObsFile)

Sends(net) == SelectSeq(net, LAMBDA n : n.what = "send")
NetCore(net) == [i \in 1..Len(SelectSeq(net, LAMBDA n : n.what # "unprotect")) |->
                   LET n == SelectSeq(net, LAMBDA x : x.what # "unprotect")[i] IN [what |-> n.what, to |-> n.to, msg |-> n.msg, ok |-> n.ok]]
TrOf(tr, c) == SelectSeq(tr, LAMBDA t : t.call = c)
TrCore(tr) == LET s == SelectSeq(tr, LAMBDA t : t.call \notin {"cleanup"}) IN
              [i \in 1..Len(s) |-> [call |-> s[i].call, msg |-> s[i].msg, sender |-> s[i].sender, hasChan |-> s[i].hasChan, skip |-> s[i].skip, ok |-> s[i].ok]]
TrExpCore(tr) == SelectSeq(tr, LAMBDA t : t.call # "cleanup")
Methods(val) == [i \in 1..Len(val) |-> [method |-> val[i].method]]
Counters(r) == <<r.queued, r.sent, r.received, r.qIdx, r.sIdx, r.rIdx>>
Has(seq, P(_)) == \E i \in 1..Len(seq) : P(seq[i])

IdentFromStim(s, self) ==   \* identity a NEW request implies
  [self |-> self, initiator |-> s.from, responder |-> self, sender |-> IF s.msg.pull THEN self ELSE s.from,
   recipient |-> IF s.msg.pull THEN s.from ELSE self, tid |-> s.msg.tid, base |-> s.msg.base, sel |-> s.msg.sel]

(* the response the responder produced for a request: returned to the transport, sent on the network, or riding in the transport open *)
ReplyOf(st) ==
  IF st.reply.kind # "none" THEN st.reply
  ELSE LET rs == SelectSeq(Sends(st.net), LAMBDA n : ~n.msg.isReq /\ n.msg.kind \in {"New","Restart","VoucherResult","Complete"})
           os == SelectSeq(TrOf(st.tr, "open") \o TrOf(st.tr, "resume"), LAMBDA t : ~t.msg.isReq /\ t.msg.kind \in {"New","Restart","VoucherResult","Complete"})
       IN IF Len(rs) > 0 THEN rs[1].msg ELSE IF Len(os) > 0 THEN os[1].msg ELSE NoMsg

StepRules(st, self, types, cache) ==
  LET s == st.stim  T == st.t  has == T.hasPre  pre == T.pre  post == T.post
      id == IF has \/ T.hasPost THEN T.ident ELSE IdentFromStim(s, self)
      exp == Handle(s, self, has, id, pre, types, cache)
      base0 == IF has THEN pre ELSE [ZeroRec("Requested") EXCEPT !.vouchers = IF s.kind \in {"OpenPush","OpenPull"} THEN <<s.msg.v>> ELSE <<s.msg.v>>]
      expRec == After(base0, exp.evs)
      traj == RunSync(base0, exp.evs)
      k == s.kind  m == s.msg  script == s.val
      isReqStim == k \in {"RecvRequest","OnRequestReceived"}
      isRespStim == k \in {"RecvResponse","OnResponseReceived"}
      netPath == k \in {"RecvRequest","RecvResponse"}
      reply == ReplyOf(st)
      consulted == Len(st.val) >= 1
      valOK == consulted /\ ~script.err /\ script.accepted
      term == has /\ pre.status \in Terminal
      pull == IF has THEN IsPullId(id) ELSE m.pull
      amInit == id.initiator = self
      cleanupN == Len(TrOf(st.tr, "cleanup"))
      unprotN == Len(SelectSeq(st.net, LAMBDA n : n.what = "unprotect"))
      sends == Sends(st.net)
      othersSame == \A i \in 1..Len(st.others) : st.others[i].same /\ st.others[i].hasPre /\ st.others[i].hasPost /\ st.others[i].ann = << >>
      trOthers == \A i \in 1..Len(st.tr) : \A j \in 1..Len(st.others) : st.tr[i].chid # st.others[j].chid
      applied(e) == \E i \in 1..Len(T.ann) : T.ann[i] = e
      stayAfter == LRP(script, pre, pull)
  IN
  (IF st.err # "" THEN {"harness"} ELSE {})
  \cup (IF exp.ret = "unmodelled" \/ (has /\ pre.status \in Terminal \cup Cleanup) THEN {} ELSE
        (IF /\ (st.panic = "" \/ exp.mayPanic)
            /\ (st.panic # "" \/
                 (/\ st.ret = exp.ret
                  /\ ((has \/ exp.creates) => (T.hasPost /\ (post = expRec \/ (k = "Close" /\ s.sendFail # << >> /\ [post EXCEPT !.msg = ""] = [expRec EXCEPT !.msg = ""]))))
                  /\ ((~has /\ ~exp.creates) => ~T.hasPost)
                  /\ NetCore(st.net) = exp.net
                  /\ TrCore(st.tr) = TrExpCore(exp.tr)
                  /\ Methods(st.val) = exp.val
                  /\ st.reply = exp.reply))
         THEN {} ELSE {"conf"}))
  (* ---------------- C02 (manager level) ---------------- *)
  \cup (IF term => (T.same /\ T.ann = << >>) THEN {} ELSE {"C02.final"})
  \cup (IF (term /\ T.hasPost) => (LET v == T.postView IN
             /\ v.status = pre.status /\ v.ip = pre.ip /\ v.rpView = (pre.rp \/ pre.status = "Finalizing")
             /\ v.queued = pre.queued /\ v.sent = pre.sent /\ v.received = pre.received /\ v.qIdx = pre.qIdx /\ v.sIdx = pre.sIdx /\ v.rIdx = pre.rIdx
             /\ v.limit = pre.limit /\ v.reqFin = pre.reqFin /\ v.vouchers = pre.vouchers /\ v.results = pre.results)
        THEN {} ELSE {"C02.viewFinal"})       \* what a query of a terminal channel returns is still what its record says
  \cup (IF (term /\ k = "Restart") => (st.ret = "nil" /\ st.net = << >> /\ st.tr = << >> /\ st.val = << >>) THEN {} ELSE {"C02.restartNoop"})
  \cup (IF (term /\ isReqStim /\ m.kind = "Restart") => (~reply.accepted /\ ~applied("Restart")) THEN {} ELSE {"C02.restartRefused"})
  \cup (IF (term /\ k = "Close") => st.ret = "nil" THEN {} ELSE {"C02.closeOk"})
  \cup (IF (term /\ k = "RecvRestartExisting") => (st.net = << >> /\ st.tr = << >> /\ st.val = << >>) THEN {} ELSE {"C02.restartExistingRefused"})
  (* ---------------- C04 ---------------- *)
  \cup (IF st.panic = "" THEN {} ELSE {"C04.noPanic"})
  \cup (IF ((isReqStim /\ m.kind \in {"New","Restart"}) \/ k = "Restart")
           => \A i \in 1..Len(st.val) : st.val[i].vtype = VType(IF m.kind = "New" \/ ~has \/ pre.vouchers = << >> THEN m.v ELSE pre.vouchers[1])
        THEN {} ELSE {"C04.rightValidator"})
  \cup (IF (isReqStim /\ m.kind \in {"New","Restart"})
           => (((~has /\ T.hasPost) \/ Has(TrOf(st.tr, "open"), LAMBDA t : t.ok) \/ reply.accepted \/ applied("Restart")) => valOK)
        THEN {} ELSE {"C04.validated"})
  \cup (IF (isReqStim /\ m.kind \in {"New","Restart"} /\ ~valOK)
           => /\ ~reply.accepted
              /\ (m.kind = "New" /\ ~has => ~T.hasPost)
              \* (when the refusal itself cannot be sent the handler returns that error first; a channel that exists is failed and its cleanup closes the transport)
              /\ (netPath /\ st.panic = "" /\ (\A i \in 1..Len(sends) : sends[i].ok) => Len(TrOf(st.tr, "close")) >= 1)
        THEN {} ELSE {"C04.refused"})
  \cup (IF (isReqStim /\ m.kind = "Restart" /\ has /\ ~term /\ consulted /\ ~script.err /\ ~script.accepted)
           => (post.status \in {"Failing","Failed"} /\ post.msg = "rejected")
        THEN {} ELSE {"C04.rejectedRestartFails"})
  (* a restart request that is in order (from the initiator, original base CID and voucher) for a channel whose voucher type has NO registered validator   *)
  (* (e.g. after a process restart that did not register it again) cannot be validated: like any refused re-validation it fails the channel               *)
  \cup (IF (isReqStim /\ m.kind = "Restart" /\ has /\ ~term /\ st.panic = "" /\ ~amInit /\ s.from = id.initiator /\ m.base = id.base
             /\ Len(pre.vouchers) >= 1 /\ m.v = pre.vouchers[1] /\ VType(pre.vouchers[1]) \notin types /\ pre.status \notin Cleanup)
           => (post.status \in {"Failing","Failed"} /\ ~reply.accepted)
        THEN {} ELSE {"C04.unvalidatableRestartFails"})
  \cup (IF (isReqStim /\ m.kind = "Restart" /\ has /\ ~term /\ consulted /\ script.err)
           => (post.status \in {"Failing","Failed"})
        THEN {} ELSE {"C04.errorRestartFails"})
  \cup (IF (isReqStim /\ m.kind \in {"New","Restart"} /\ reply.accepted /\ valOK)
           => /\ reply.v = script.vres
              /\ reply.paused = (IF m.kind = "New" THEN script.force ELSE LRP(script, pre, pull))
              /\ (T.hasPost => (post.limit = script.limit /\ post.reqFin = script.reqFin))
        THEN {} ELSE {"C04.faithful"})
  (* every new / restart request that arrives on the network gets an answer: a response message, or (accepted push) the transport request that carries it *)
  \cup (IF (isReqStim /\ netPath /\ m.kind \in {"New","Restart"} /\ st.panic = "")
           => (Has(sends, LAMBDA n : ~n.msg.isReq /\ n.msg.kind = m.kind /\ n.msg.tid = m.tid /\ n.to = s.from)
               \/ Has(TrOf(st.tr, "open"), LAMBDA t : ~t.msg.isReq /\ t.msg.kind = m.kind /\ t.msg.tid = m.tid))
        THEN {} ELSE {"C04.answered"})
  (* an accepting validation update tells the initiator exactly the validator's word: accepted, its voucher result, and paused iff the request stays paused *)
  \cup (IF (k = "UpdateValidation" /\ has /\ ~term /\ ~amInit /\ script.accepted /\ ~script.err /\ st.ret = "nil" /\ s.sendFail = << >> /\ pre.status \notin Cleanup)
           => (reply.kind \in {"VoucherResult", "Complete"} /\ reply.accepted /\ reply.v = script.vres /\ reply.paused = stayAfter /\ reply.tid = id.tid
               /\ (reply.kind = "Complete") = (pre.status = "Finalizing"))
        THEN {} ELSE {"C04.faithfulUpdate"})
  \cup (IF (k = "UpdateValidation" /\ has /\ ~term /\ ~amInit /\ ~script.accepted)
           => (post.status \in {"Failing","Failed"} /\ post.msg = "rejected" /\ (s.sendFail = << >> => Len(TrOf(st.tr, "close")) >= 1) /\ ~reply.accepted)
        THEN {} ELSE {"C04.rejectedUpdateFails"})
  (* ---------------- C05 ---------------- *)
  \cup (IF othersSame /\ trOthers THEN {} ELSE {"C05.nonInterference"})
  \cup (IF (k = "RecvRestartExisting" /\ (st.net # << >> \/ st.tr # << >> \/ (T.hasPost /\ ~T.same)))
           => (has /\ id.initiator = self /\ OtherOf(id) = s.from /\ pre.status \notin Terminal)
        THEN {} ELSE {"C05.restartExistingHonoured"})
  \cup (IF (isReqStim /\ m.kind = "Restart" /\ (applied("Restart") \/ reply.accepted))
           => (has /\ s.from = id.initiator /\ pre.status \notin Terminal /\ m.base = id.base /\ Len(pre.vouchers) >= 1 /\ m.v = pre.vouchers[1])
        THEN {} ELSE {"C05.restartHonoured"})
  \cup (IF /\ (k = "SendVoucher" /\ st.ret = "nil") => amInit
           /\ (k \in {"SendVoucherResult","UpdateValidation"} /\ st.ret = "nil" /\ has) => ~amInit
           /\ (k = "SendVoucher" /\ has /\ ~amInit) => (T.same /\ st.net = << >>)
           /\ (k \in {"SendVoucherResult","UpdateValidation"} /\ has /\ amInit) => (T.same /\ st.net = << >> /\ st.tr = << >>)
        THEN {} ELSE {"C05.localRoles"})
  \cup (IF ((isReqStim \/ isRespStim) /\ has /\ ~(IF m.isReq THEN s.from = id.initiator /\ self = id.responder ELSE s.from = id.responder /\ self = id.initiator))
           => T.same
        THEN {} ELSE {"C05.entitled"})
  (* ---------------- C18 ---------------- *)
  \cup (IF (isReqStim /\ m.kind = "New" /\ has) => (T.same /\ T.ann = << >> /\ ~reply.accepted) THEN {} ELSE {"C18.dupCreate"})
  (* ---------------- C10 ---------------- *)
  \cup (IF (k \in {"Restart","RecvRestartExisting"} \/ (isReqStim /\ m.kind = "Restart") \/ (isRespStim /\ m.kind = "Restart"))
           => /\ (has => (T.hasPost /\ T.ident = id /\ Counters(post) = Counters(pre) /\ (Len(pre.vouchers) >= 1 => (Len(post.vouchers) >= 1 /\ post.vouchers[1] = pre.vouchers[1]))))
              /\ (~has => ~T.hasPost)
              /\ othersSame
        THEN {} ELSE {"C10.identity"})
  \cup (IF ((k = "Restart" \/ (k = "RecvRestartExisting" /\ OtherOf(id) = s.from)) /\ has /\ amInit /\ pre.status \notin Terminal \cup Cleanup)
           => LET want == RestartReqMsg(id, pre) IN
              IF IsPullId(id)
              THEN Has(TrOf(st.tr, "open"), LAMBDA t : t.msg = want /\ t.hasChan /\ t.skip = pre.rIdx /\ t.sender = OtherOf(id)) /\ sends = << >>
              ELSE Has(sends, LAMBDA n : n.msg = want /\ n.to = OtherOf(id)) /\ TrOf(st.tr, "open") = << >>
        THEN {} ELSE {"C10.reissue"})
  \cup (IF (k = "Restart" /\ has /\ ~amInit /\ pre.status \notin Terminal \cup Cleanup /\ st.panic = "")
           => /\ Has(st.val, LAMBDA v : v.method = "restart")
              /\ (IF ~script.err /\ script.accepted
                  THEN Has(sends, LAMBDA n : n.msg.kind = "RestartExisting" /\ n.msg.ri = id.initiator /\ n.msg.rr = id.responder /\ n.msg.rt = id.tid /\ n.to = id.initiator)
                  ELSE sends = << >> /\ st.ret # "nil")
              /\ TrOf(st.tr, "open") = << >> /\ T.same
        THEN {} ELSE {"C10.askInitiator"})
  \cup (IF (isReqStim /\ m.kind = "Restart" /\ (applied("Restart") \/ Has(TrOf(st.tr, "open"), LAMBDA t : t.ok)))
           => Has(st.val, LAMBDA v : v.method = "restart")
        THEN {} ELSE {"C10.revalidate"})
  \cup (IF \A i \in 1..Len(st.tr) : (st.tr[i].call = "open" /\ st.tr[i].hasChan) => (has /\ st.tr[i].skip = pre.rIdx /\ post.rIdx = pre.rIdx)
        THEN {} ELSE {"C10.skip"})
  \cup (IF (isRespStim /\ m.kind = "Restart" /\ ~m.accepted /\ has /\ ~term) => post.status \in {"Failing","Failed"} THEN {} ELSE {"C10.rejected"})
  \cup (IF (k = "Restart" /\ has /\ pre.status \in Cleanup)
           => (sends = << >> /\ TrCore(st.tr) = << >> /\ st.val = << >> /\ applied("CompleteCleanupOnRestart") /\ post.status = TerminalOf(pre.status) /\ cleanupN = 1)
        THEN {} ELSE {"C10.cleaningUp"})
  (* ---------------- C08 (manager level) ---------------- *)
  \cup (IF (k = "OnDataReceived" /\ st.ret = "pause") => Has(sends, LAMBDA n : n.to = id.initiator /\ n.msg.kind = "Update" /\ ~n.msg.isReq /\ n.msg.paused /\ n.msg.tid = id.tid)
        THEN {} ELSE {"C08.tellInitiator"})
  \cup (IF (k = "OnDataQueued" /\ st.ret = "pause") => (st.reply.kind = "Update" /\ ~st.reply.isReq /\ st.reply.paused /\ st.reply.tid = id.tid)
        THEN {} ELSE {"C08.tellInitiator"})
  \cup (IF (k \in {"OnDataQueued","OnDataReceived"} /\ has /\ ~term) => ((st.ret \in {"pause"}) = (exp.ret = "pause") \/ (st.ret = "other" /\ exp.ret = "other")) THEN {} ELSE {"C08.pauseAt"})
  (* a block report that crosses the limit never returns "carry on": the transport hears the pause signal, or an error when the pause could not be announced *)
  \cup (IF (k \in {"OnDataQueued","OnDataReceived"} /\ has /\ ~term /\ applied("DataLimitExceeded")) => st.ret \in {"pause","other"} THEN {} ELSE {"C08.limitStopsTransport"})
  \cup (IF (k = "UpdateValidation" /\ has /\ ~term /\ ~amInit /\ script.accepted /\ st.ret = "nil" /\ pre.status \notin Cleanup)
           => /\ (~stayAfter /\ RespPausedView(pre) /\ pre.status \notin InFinalization)
                   => (Has(TrOf(st.tr, "resume"), LAMBDA t : ~t.msg.paused /\ t.msg.accepted) /\ (Dest("ResumeResponder", pre.status) # "INV" => ~post.rp) /\ post.limit = script.limit)
              /\ stayAfter => ((Dest("PauseResponder", pre.status) # "INV" => RespPausedView(post)) /\ TrOf(st.tr, "resume") = << >> /\ reply.paused)
              /\ post.limit = script.limit
        THEN {} ELSE {"C08.resumeRule"})
  (* ---------------- C03 (manager level): a responder awaiting finalization is released only by an update that no longer requires it ---------------- *)
  \cup (IF ((k = "UpdateValidation" \/ (isReqStim /\ m.kind = "Restart" /\ valOK)) /\ has /\ ~amInit /\ pre.status = "Finalizing" /\ script.accepted /\ ~script.err /\ script.reqFin)
           => (post.status = "Finalizing" /\ T.postView.rpView /\ (reply.kind # "none" => reply.paused))
        THEN {} ELSE {"C03.finalizingHolds"})
  \cup (IF (k = "UpdateValidation" /\ has /\ ~amInit /\ pre.status = "Finalizing" /\ script.accepted /\ ~script.reqFin /\ ~script.force
             /\ ~(script.limit # 0 /\ (IF pull THEN pre.queued ELSE pre.received) >= script.limit) /\ st.ret = "nil")
           => (post.status = "Completed" /\ reply.kind = "Complete" /\ ~reply.paused)
        THEN {} ELSE {"C03.finalizingRelease"})
  (* whatever else happens to a responder that is holding for finalization (a repeated transport completion, a restart, a      *)
  (* voucher, any message): it neither completes nor tells the initiator an un-paused Complete - only the application's own      *)
  (* validation update (no longer requiring finalization) or resume does                                                        *)
  \cup (IF (has /\ ~amInit /\ pre.status = "Finalizing" /\ pre.reqFin /\ st.panic = ""
             /\ (post.status \in {"Completing","Completed"} \/ Has(sends, LAMBDA n : n.msg.kind = "Complete" /\ ~n.msg.paused /\ n.msg.accepted)
                  \/ (reply.kind = "Complete" /\ ~reply.paused /\ reply.accepted)))
           => ((k = "UpdateValidation" /\ script.accepted /\ ~script.reqFin) \/ k = "Resume"
               \/ (isReqStim /\ m.kind = "Restart" /\ valOK /\ ~script.reqFin))        \* the re-validation of a restart request is a validation decision too
        THEN {} ELSE {"C03.finalizingOnlyReleased"})
  \cup (IF (k = "OnChannelCompleted" /\ has /\ ~amInit /\ s.args.err = "" /\ s.sendFail = << >> /\ pre.status \in {"Ongoing","Queued"})
           => (IF pre.reqFin THEN post.status = "Finalizing" /\ Has(sends, LAMBDA n : n.msg.kind = "Complete" /\ n.msg.paused)
                             ELSE post.status = "Completed" /\ Has(sends, LAMBDA n : n.msg.kind = "Complete" /\ ~n.msg.paused))
        THEN {} ELSE {"C03.responderCompletion"})
  \cup (IF (isRespStim /\ m.kind = "Complete" /\ has /\ amInit /\ ~term /\ pre.status \in {"Ongoing","TransferFinished"})
           => (IF m.paused THEN post.status \in {"ResponderFinalizing","ResponderFinalizingTransferFinished"}
                          ELSE (IF pre.status = "TransferFinished" THEN post.status = "Completed" ELSE post.status = "ResponderCompleted"))
        THEN {} ELSE {"C03.completeMessage"})
  (* ... and from every other status of the initiator: an accepted Complete counts as exactly the signal the transition table gives it - the responder's   *)
  (* final word if un-paused, the start of its finalization if paused - and a refused one fails the channel                                                 *)
  \cup (IF (isRespStim /\ m.kind = "Complete" /\ has /\ amInit /\ ~term /\ pre.status \notin Cleanup /\ st.panic = "")
           => (IF m.accepted
               THEN post.status = After(pre, (IF m.v # "" THEN << <<"NewVoucherResult", m.v>> >> ELSE << >>)
                                             \o << <<IF m.paused THEN "ResponderBeginsFinalization" ELSE "ResponderCompletes", 0>> >>).status
               ELSE post.status \in {"Failing", "Failed"})
        THEN {} ELSE {"C03.completeSignal"})
  (* ---------------- C01 (manager level): a responder whose channel has failed or was cancelled never reports success ---------------- *)
  \cup (IF (has /\ ~amInit /\ pre.status \in {"Failing","Failed","Cancelling","Cancelled"} /\ st.panic = "")
           => /\ ~Has(sends, LAMBDA n : n.msg.kind = "Complete" /\ n.msg.accepted)
              /\ ~(reply.kind = "Complete" /\ reply.accepted)
        THEN {} ELSE {"C01.noCompleteFromDead"})
  (* the final word and the responder's own completion go together: whenever a responder hands an accepted, un-paused Complete to the network *)
  (* (or returns it to the transport), its channel is completing - it never tells the initiator "done" while it stays open itself               *)
  \cup (IF (has /\ ~amInit /\ ~term /\ st.panic = ""
             /\ ( (\E i \in 1..Len(sends) : (sends[i].ok /\ sends[i].msg.kind = "Complete" /\ sends[i].msg.accepted /\ ~sends[i].msg.paused))
                  \/ (st.reply.kind = "Complete" /\ st.reply.accepted /\ ~st.reply.paused)          \* returned to the transport (graphsync extension)
                  \/ (\E i \in 1..Len(st.tr) : (st.tr[i].call = "resume" /\ st.tr[i].msg.kind = "Complete" /\ st.tr[i].msg.accepted /\ ~st.tr[i].msg.paused)) ))
           => post.status \in {"Completing", "Completed"}
        THEN {} ELSE {"C01.finalMeansCompleting"})
  (* ... and the other way round: when the transport reports the transfer finished, the responder's channel moves on (completes, or holds for finalization)  *)
  (* only after the Complete message - accepted, paused exactly when it holds - has been handed to the network                                                *)
  \cup (IF (k = "OnChannelCompleted" /\ has /\ ~amInit /\ ~term /\ st.panic = "" /\ pre.status \notin {"Completing","Completed","Finalizing"} \cup Cleanup
             /\ post.status \in {"Completing","Completed","Finalizing"})
           => (\E i \in 1..Len(sends) : (sends[i].ok /\ sends[i].msg.kind = "Complete" /\ sends[i].msg.accepted /\ sends[i].to = id.initiator
                                           /\ sends[i].msg.paused = (post.status = "Finalizing")))
        THEN {} ELSE {"C01.tellsBeforeCompleting"})
  (* ---------------- C09 (manager level) ---------------- *)
  \cup (IF (k = "Close" /\ has /\ ~term)
           => /\ st.ret = "nil" /\ Len(TrOf(st.tr, "close")) = 1
              /\ Has(sends, LAMBDA n : n.to = OtherOf(id) /\ n.msg = CancelMsg(id) /\ (s.sendFail = << >> => n.ok))
              /\ post.status = "Cancelled"
        THEN {} ELSE {"C09.close"})
  \cup (IF (k = "CloseErr" /\ has /\ ~term)
           => /\ st.ret = "nil" /\ Len(TrOf(st.tr, "close")) = 1
              /\ Has(sends, LAMBDA n : n.to = OtherOf(id) /\ n.msg = CancelMsg(id))
              /\ post.status = "Failed" /\ post.msg = s.args.err
        THEN {} ELSE {"C09.closeWithError"})
  \cup (IF (has /\ ~term /\ post.status \in Terminal /\ pre.status \notin Cleanup /\ ~(isReqStim /\ m.kind = "Cancel"))
           => (cleanupN = 1 /\ unprotN = 1)
        THEN {} ELSE {"C09.exactlyOnce"})
  \cup (IF (has /\ ~term /\ post.status \in Cleanup /\ pre.status \notin Cleanup) => FALSE THEN {} ELSE {"C09.settles"})
  (* ---------------- C11 (manager level) ---------------- *)
  \cup (IF (k = "Pause" /\ has /\ ~term /\ s.sendFail = << >>)
           => /\ Len(TrOf(st.tr, "pause")) = 1
              /\ Has(sends, LAMBDA n : n.to = OtherParty(id) /\ n.msg = PauseMsg(id, TRUE))
              /\ (Dest(IF amInit THEN "PauseInitiator" ELSE "PauseResponder", pre.status) # "INV" => (IF amInit THEN post.ip /\ post.rp = pre.rp ELSE post.rp /\ post.ip = pre.ip))
        THEN {} ELSE {"C11.localPause"})
  \cup (IF (k = "Resume" /\ has /\ ~term)
           => /\ Has(TrOf(st.tr, "resume"), LAMBDA t : t.msg = PauseMsg(id, FALSE))
              /\ (Dest(IF amInit THEN "ResumeInitiator" ELSE "ResumeResponder", pre.status) \notin {"INV","Completing"} => (IF amInit THEN ~post.ip /\ post.rp = pre.rp ELSE ~post.rp /\ post.ip = pre.ip))
        THEN {} ELSE {"C11.localResume"})
  \cup (IF ((isReqStim \/ isRespStim) /\ ~m.paused /\ has /\ ~term /\ T.hasPost /\ T.postView.selfPaused /\ post.status \notin Cleanup \cup Terminal
             \* the counterparty says "not paused": an Update either way, or (to the initiator) an accepting answer that is not the final Complete
             /\ (m.kind = "Update" \/ (isRespStim /\ amInit /\ m.kind \in {"New","Restart","VoucherResult"} /\ m.accepted)))
           => (IF netPath THEN Len(TrOf(st.tr, "pause")) >= 1 ELSE st.ret = "pause")
        THEN {} ELSE {"C11.stayPaused"})
  \cup (IF ((isReqStim \/ isRespStim) /\ m.kind = "Update" /\ has /\ ~term)
           => (IF m.isReq THEN post.rp = pre.rp ELSE post.ip = pre.ip)
        THEN {} ELSE {"C11.otherFlagOnly"})
  (* the responder's own resume by way of a validation update is a local resume like any other: it is applied to the transport and announced there,     *)
  (* whatever the OTHER party's flag says, and it leaves that flag alone                                                                               *)
  \cup (IF (k = "UpdateValidation" /\ has /\ ~term /\ ~amInit /\ script.accepted /\ ~script.err /\ st.ret = "nil" /\ pre.status \notin Cleanup \cup InFinalization
             /\ RespPausedView(pre) /\ ~stayAfter)
           => (Has(TrOf(st.tr, "resume"), LAMBDA t : ~t.msg.paused /\ t.msg.accepted) /\ post.ip = pre.ip)
        THEN {} ELSE {"C11.validationResume"})
  (* the answer to an accepted restart (or new) request announces the responder's OWN pause state as recorded by that step - the initiator's view follows it *)
  \cup (IF (isReqStim /\ m.kind \in {"New","Restart"} /\ T.hasPost /\ valOK /\ ~term /\ ~amInit /\ reply.kind \in {"New","Restart"} /\ reply.accepted /\ st.ret \in {"nil","pause"}
            /\ (has => (Dest("PauseResponder", pre.status) # "INV" /\ Dest("ResumeResponder", pre.status) # "INV" /\ pre.status \notin Cleanup)))
           => reply.paused = RespPausedView(post)
        THEN {} ELSE {"C11.answerAnnouncesPause"})
  (* ---------------- C07 (manager level): every block report reaches the channel - the index follows the highest position, unique or not ---------------- *)
  \cup (IF (k \in {"OnDataQueued","OnDataSent","OnDataReceived"} /\ has /\ ~term /\ st.panic = "")
           => LET ev == CASE k = "OnDataQueued" -> "DataQueued" [] k = "OnDataSent" -> "DataSent" [] OTHER -> "DataReceived"
                  pi == CASE k = "OnDataQueued" -> pre.qIdx [] k = "OnDataSent" -> pre.sIdx [] OTHER -> pre.rIdx
                  qi == CASE k = "OnDataQueued" -> post.qIdx [] k = "OnDataSent" -> post.sIdx [] OTHER -> post.rIdx
                  pt == CASE k = "OnDataQueued" -> pre.queued [] k = "OnDataSent" -> pre.sent [] OTHER -> pre.received
                  qt == CASE k = "OnDataQueued" -> post.queued [] k = "OnDataSent" -> post.sent [] OTHER -> post.received
              IN /\ (Dest(ev, pre.status) # "INV" => qi = (IF s.args.index > pi THEN s.args.index ELSE pi))
                 /\ (~s.args.unique => qt = pt)
                 /\ qt >= pt
        THEN {} ELSE {"C07.reportReachesChannel"})
  (* ---------------- C19 (manager level record rules) ---------------- *)
  \cup (IF (k = "SendVoucher" /\ has /\ ~term /\ amInit)
           => (IF s.sendFail = << >> THEN post.vouchers = Append(pre.vouchers, m.v) ELSE post.vouchers = pre.vouchers) /\ post.results = pre.results
        THEN {} ELSE {"C19.recordAfterSend"})
  \cup (IF (k = "SendVoucherResult" /\ has /\ ~term /\ ~amInit)
           => (IF s.sendFail = << >> THEN post.results = Append(pre.results, m.v) ELSE post.results = pre.results) /\ post.vouchers = pre.vouchers
        THEN {} ELSE {"C19.recordAfterSend"})
  (* ... judged on what was REALLY handed to the network: an entry that appears in the log was sent to the counterparty, successfully, in this call *)
  \cup (IF (k = "SendVoucher" /\ has /\ ~term /\ Len(post.vouchers) > Len(pre.vouchers))
           => (\E i \in 1..Len(sends) : (sends[i].ok /\ sends[i].msg.isReq /\ sends[i].msg.kind = "Voucher" /\ sends[i].msg.v = m.v /\ sends[i].msg.tid = id.tid /\ sends[i].to = OtherOf(id)))
        THEN {} ELSE {"C19.sentBeforeRecorded"})
  \cup (IF (k = "SendVoucherResult" /\ has /\ ~term /\ Len(post.results) > Len(pre.results))
           => (\E i \in 1..Len(sends) : (sends[i].ok /\ ~sends[i].msg.isReq /\ sends[i].msg.kind \in {"VoucherResult","Complete"} /\ sends[i].msg.v = m.v /\ sends[i].msg.tid = id.tid /\ sends[i].to = OtherOf(id)))
        THEN {} ELSE {"C19.sentBeforeRecorded"})
  \cup (IF (isReqStim /\ m.kind = "Voucher" /\ has /\ ~term) => (post.vouchers = Append(pre.vouchers, m.v) /\ post.results = pre.results) THEN {} ELSE {"C19.recordReceived"})
  \cup (IF (isRespStim /\ has /\ ~term /\ m.kind \in {"New","Restart","VoucherResult","Complete"})
           => (post.results = (IF m.v # "" THEN Append(pre.results, m.v) ELSE pre.results) /\ post.vouchers = pre.vouchers)
        THEN {} ELSE {"C19.recordReceived"})
  \cup (IF (k = "UpdateValidation" /\ has /\ ~term /\ ~amInit /\ st.panic = "")
           => post.results = (IF script.vres # "" THEN Append(pre.results, script.vres) ELSE pre.results)
        THEN {} ELSE {"C19.recordValidation"})
  \cup (IF (isReqStim /\ m.kind \in {"New","Restart"} /\ T.hasPost /\ valOK /\ ~term /\ (m.kind = "Restart" => applied("Restart")) /\ (m.kind = "New" => ~has))
           => post.results = (IF script.vres # "" THEN Append(base0.results, script.vres) ELSE base0.results)
        THEN {} ELSE {"C19.recordValidation"})
  \cup (IF (T.hasPost => T.postView.panics = << >>) THEN {} ELSE {"C19.total"})

RECURSIVE JudgeSteps(_, _, _, _, _, _)
JudgeSteps(cid, self, steps, i, types, cm) ==
  IF i > Len(steps) THEN {}
  ELSE LET st == steps[i] IN
    IF st.stim.kind = "reopen" THEN JudgeSteps(cid, self, steps, i + 1, IF st.stim.rereg THEN types ELSE << >>, << >>)
    ELSE
      LET known == {j \in 1..Len(cm) : cm[j][1] = st.target}
          cache == IF known = {} THEN FreshCache ELSE cm[CHOOSE j \in known : TRUE][2]
          tset == {types[j] : j \in 1..Len(types)}
          id == IF st.t.hasPre \/ st.t.hasPost THEN st.t.ident ELSE IdentFromStim(st.stim, self)
          exp == Handle(st.stim, self, st.t.hasPre, id, st.t.pre, tset, cache)
          cm2 == SelectSeq(cm, LAMBDA x : x[1] # st.target) \o << <<st.target, exp.cache>> >>
          bad == StepRules(st, self, tset, cache)
      IN {[case |-> cid, i |-> i, rule |-> r, status |-> IF st.t.hasPre THEN st.t.pre.status ELSE "none", op |-> st.stim.kind, mkind |-> st.stim.msg.kind] : r \in bad}
         \cup JudgeSteps(cid, self, steps, i + 1, types, cm2)

Verdicts == UNION {JudgeSteps(Cases[n].case, Cases[n].self, Cases[n].steps, 1, Cases[n].types, << >>) : n \in 1..Len(Cases)}

ASSUME ndJsonSerialize(OutFile, SetToSeq(Verdicts))
ASSUME PrintT(<<"@@judged", Len(Cases)>>)
=============================================================================

-------------------------------- MODULE Chan --------------------------------
(* One node's channel engine: channels.Channels on top of go-statemachine, at the granularity of the   *)
(* code's own critical sections.  Per channel: the durable record (the only copy of the state), the     *)
(* pending-event queue of the machine's run loop, the busy flag of the current stage, the progress of   *)
(* the asynchronous state-entry handler (cleanupConnection), the "machine terminated" flag, the two      *)
(* caches; per node: the FIFO notification queue and what the subscriber has been told.                  *)
(*                                                                                                      *)
(* Deliberate, named deviations from an idealised FSM (all are what the code does):                     *)
(*  - ToNoChange rows re-run the cleanup handler when taken in a cleanup status (Plan, d = "NC");         *)
(*  - FromAny().To(X) rows apply in cleanup statuses too;                                                *)
(*  - CleanupComplete is an ordinary queued event, appended behind whatever arrived meanwhile (HTrigger);*)
(*  - a machine that reached a finality status shuts down, clearing its queue (Plan, "term"/final);      *)
(*  - the notification of an event is queued BEFORE the record is written (Plan -> Persist split);       *)
(*  - a flush (GetSync's nil event) cleared by the terminal transition returns the pre-terminal record.  *)
EXTENDS ChanOps

CONSTANTS Chans,        \* channel names
          InitChans,    \* the channels this node initiated (the others it responds to)
          EnvOps,       \* operations the environment (manager) may issue
          MaxOps,       \* bound on the number of environment operations
          MaxQ,         \* bound on queue length
          DataArgs,     \* names of the block reports the data ops use (table DArg)
          Crashes,      \* max number of crash+reopen
          EnvGuard      \* "any" | "quietEnding": no operation races with an ending (assumption under which C09 holds; see DESIGN F4/F5)

VARIABLES store, q, busy, hpc, closed, cache, notifQ, pend, pset, delivered, env, nops, crashes, hist

vars == <<store, q, busy, hpc, closed, cache, notifQ, pend, pset, delivered, env, nops, crashes, hist>>

RoleOf == [c \in Chans |-> IF c \in InitChans THEN "init" ELSE "resp"]
(* block reports: name -> [delta, index, unique] *)
DArg(n) == CASE n = "b1" -> [delta |-> 2, index |-> 1, unique |-> TRUE]
             [] n = "b2" -> [delta |-> 1, index |-> 2, unique |-> TRUE]
             [] n = "b3" -> [delta |-> 2, index |-> 3, unique |-> TRUE]
             [] n = "b4" -> [delta |-> 3, index |-> 4, unique |-> TRUE]
             [] n = "d2" -> [delta |-> 1, index |-> 2, unique |-> FALSE]
             [] n = "d3" -> [delta |-> 2, index |-> 3, unique |-> FALSE]
ZeroArgs == [delta |-> 0, index |-> 0, unique |-> FALSE, limit |-> 0, flag |-> FALSE, err |-> "", v |-> ""]

(* history (not part of the implementation state): what has been applied / seen per channel *)
Hist0 == [applied |-> 0, endings |-> 0, sawFinish |-> FALSE, sawResp |-> FALSE, accepted |-> FALSE, ended |-> FALSE, reruns |-> 0]

Init ==
  /\ store = [c \in Chans |-> ZeroRec("Requested")]
  /\ q = [c \in Chans |-> << >>]
  /\ busy = [c \in Chans |-> FALSE]
  /\ hpc = [c \in Chans |-> "idle"]
  /\ closed = [c \in Chans |-> FALSE]
  /\ cache = [c \in Chans |-> FreshCache]
  /\ notifQ = << >>
  /\ pend = [c \in Chans |-> ZeroRec("Requested")]  \* record planned but not yet written (valid iff pset)
  /\ pset = [c \in Chans |-> FALSE]
  /\ delivered = [c \in Chans |-> << >>]
  /\ env = [c \in Chans |-> [cleanups |-> 0, unprotects |-> 0]]
  /\ nops = 0 /\ crashes = 0
  /\ hist = [c \in Chans |-> Hist0]

(* ---- environment: one operation of the public API ---------------------------------------------------- *)
EndingStarted(c) == \/ store[c].status \in Cleanup \cup Terminal \/ pset[c] \/ busy[c]
                    \/ \E i \in 1..Len(q[c]) : q[c][i][1] \in {"Cancel","Error","Complete","CleanupComplete"}
                    \/ (\E i \in 1..Len(q[c]) : q[c][i][1] \in {"FinishTransfer","ResponderCompletes","ResumeResponder"})
RoleOK(c, op) ==
  /\ IF RoleOf[c] = "init"
     THEN op \notin {"Complete","BeginFinalizing","SetDataLimit","SetRequiresFinalization"}
     ELSE op \notin {"FinishTransfer","ResponderCompletes","ResponderBeginsFinalization"}
  /\ (EnvGuard = "quietEnding" => ~EndingStarted(c))

ArgsFor(op) ==
  CASE op \in DataOps -> {[ZeroArgs EXCEPT !.delta = DArg(d).delta, !.index = DArg(d).index, !.unique = DArg(d).unique] : d \in DataArgs}
    [] op \in ErrOps -> {[ZeroArgs EXCEPT !.err = "e1"]}
    [] op = "NewVoucher" -> {[ZeroArgs EXCEPT !.v = "v1"]}
    [] op = "NewVoucherResult" -> {[ZeroArgs EXCEPT !.v = "r1"]}
    [] op = "SetDataLimit" -> {[ZeroArgs EXCEPT !.limit = 3]}
    [] op = "SetRequiresFinalization" -> {[ZeroArgs EXCEPT !.flag = TRUE]}
    [] OTHER -> {ZeroArgs}

Quiet(c) == q[c] = << >> /\ ~busy[c] /\ ~pset[c]

DoOp(c, op, a) ==
  /\ nops < MaxOps /\ op \in EnvOps /\ RoleOK(c, op)
  /\ Len(q[c]) < MaxQ
  /\ (op \in DataOps => Quiet(c) \/ cache[c].iset[op])       \* lazy seeding flushes the queue first
  /\ LET res == OpResult(op, a, store[c], cache[c]) IN
       /\ cache' = [cache EXCEPT ![c] = res.cache]
       /\ q' = [q EXCEPT ![c] = IF closed[c] THEN @ ELSE @ \o res.evs]
  /\ nops' = nops + 1
  /\ UNCHANGED <<store, busy, hpc, closed, notifQ, pend, pset, delivered, env, crashes, hist>>

(* ---- the run loop: one event per stage --------------------------------------------------------------- *)
HistAfter(h, e, r0, r1, o) ==
  [h EXCEPT !.applied = @ + 1,
            !.endings = @ + (IF Dest(e, r0.status) \in Cleanup THEN 1 ELSE 0),   \* an explicit To(cleanup status) row, re-entry included
            !.sawFinish = @ \/ e = "FinishTransfer",
            !.sawResp = @ \/ e = "ResponderCompletes",
            !.accepted = @ \/ e = "Accept",
            !.ended = @ \/ e \in {"Cancel","Error"},
            \* CompleteCleanupOnRestart exists to run the cleanup of a cleaning-up channel AGAIN (after a process restart the first
            \* run may not have happened); any other stay-and-re-run row taken in a cleanup status is NOT counted here
            !.reruns = @ + (IF e = "CompleteCleanupOnRestart" /\ r0.status \in Cleanup /\ o.handler THEN 1 ELSE 0)]

Plan(c) ==
  /\ ~busy[c] /\ ~closed[c] /\ q[c] # << >> /\ ~pset[c]
  /\ LET e == Head(q[c])[1]  a == Head(q[c])[2]  o == Apply(store[c], e, a) IN
       CASE o.kind = "term" ->
              /\ closed' = [closed EXCEPT ![c] = TRUE] /\ q' = [q EXCEPT ![c] = << >>]
              /\ UNCHANGED <<store, busy, hpc, notifQ, pend, pset, hist>>
         [] o.kind = "invalid" ->
              /\ q' = [q EXCEPT ![c] = Tail(@)]
              /\ UNCHANGED <<store, busy, hpc, closed, notifQ, pend, pset, hist>>
         [] OTHER ->   \* applied: notification queued now, record written by Persist
              /\ notifQ' = Append(notifQ, [c |-> c, ev |-> e, rec |-> o.rec])
              /\ pend' = [pend EXCEPT ![c] = o.rec] /\ pset' = [pset EXCEPT ![c] = TRUE]
              /\ busy' = [busy EXCEPT ![c] = TRUE]
              /\ hpc' = [hpc EXCEPT ![c] = IF o.final THEN "final" ELSE IF o.handler THEN "cleanup" ELSE "none"]
              /\ q' = [q EXCEPT ![c] = IF o.final THEN << >> ELSE Tail(@)]
              /\ hist' = [hist EXCEPT ![c] = HistAfter(@, e, store[c], o.rec, o)]
              /\ UNCHANGED <<store, closed>>
  /\ UNCHANGED <<cache, delivered, env, nops, crashes>>

Persist(c) ==
  /\ pset[c]
  /\ store' = [store EXCEPT ![c] = pend[c]]
  /\ pset' = [pset EXCEPT ![c] = FALSE] /\ UNCHANGED pend
  /\ IF hpc[c] = "final" THEN closed' = [closed EXCEPT ![c] = TRUE] /\ busy' = [busy EXCEPT ![c] = FALSE] /\ hpc' = [hpc EXCEPT ![c] = "idle"]
     ELSE IF hpc[c] = "none" THEN busy' = [busy EXCEPT ![c] = FALSE] /\ hpc' = [hpc EXCEPT ![c] = "idle"] /\ UNCHANGED closed
     ELSE UNCHANGED <<busy, hpc, closed>>
  /\ UNCHANGED <<q, cache, notifQ, delivered, env, nops, crashes, hist>>

HCleanup(c) ==
  /\ hpc[c] = "cleanup" /\ ~pset[c]
  /\ env' = [env EXCEPT ![c].cleanups = @ + 1] /\ hpc' = [hpc EXCEPT ![c] = "unprotect"]
  /\ UNCHANGED <<store, q, busy, closed, cache, notifQ, pend, pset, delivered, nops, crashes, hist>>
HUnprotect(c) ==
  /\ hpc[c] = "unprotect"
  /\ env' = [env EXCEPT ![c].unprotects = @ + 1] /\ hpc' = [hpc EXCEPT ![c] = "trigger"]
  /\ UNCHANGED <<store, q, busy, closed, cache, notifQ, pend, pset, delivered, nops, crashes, hist>>
HTrigger(c) ==
  /\ hpc[c] = "trigger"
  /\ q' = [q EXCEPT ![c] = Append(@, <<"CleanupComplete", 0>>)]
  /\ hpc' = [hpc EXCEPT ![c] = "idle"] /\ busy' = [busy EXCEPT ![c] = FALSE]
  /\ UNCHANGED <<store, closed, cache, notifQ, pend, pset, delivered, env, nops, crashes, hist>>

Notify ==
  /\ notifQ # << >>
  /\ LET n == Head(notifQ) IN delivered' = [delivered EXCEPT ![n.c] = Append(@, [ev |-> n.ev, rec |-> n.rec])]
  /\ notifQ' = Tail(notifQ)
  /\ UNCHANGED <<store, q, busy, hpc, closed, cache, pend, pset, env, nops, crashes, hist>>

(* process crash: everything but the datastore is lost; reopen = fresh machines and caches *)
Crash ==
  /\ crashes < Crashes
  /\ crashes' = crashes + 1
  /\ q' = [c \in Chans |-> << >>] /\ busy' = [c \in Chans |-> FALSE] /\ hpc' = [c \in Chans |-> "idle"]
  /\ closed' = [c \in Chans |-> FALSE] /\ cache' = [c \in Chans |-> FreshCache] /\ notifQ' = << >>
  /\ pset' = [c \in Chans |-> FALSE]
  /\ UNCHANGED <<store, pend, delivered, env, nops, hist>>

Next ==
  \/ \E c \in Chans, op \in EnvOps : \E a \in ArgsFor(op) : DoOp(c, op, a)
  \/ \E c \in Chans : Plan(c) \/ Persist(c) \/ HCleanup(c) \/ HUnprotect(c) \/ HTrigger(c)
  \/ Notify
  \/ Crash

Fair == /\ \A c \in Chans : WF_vars(Plan(c)) /\ WF_vars(Persist(c)) /\ WF_vars(HCleanup(c)) /\ WF_vars(HUnprotect(c)) /\ WF_vars(HTrigger(c))
        /\ WF_vars(Notify)
Spec == Init /\ [][Next]_vars /\ Fair

(* ---- properties --------------------------------------------------------------------------------------- *)
TypeOK == \A c \in Chans : store[c].status \in Status /\ Len(q[c]) <= MaxQ + 2

(* C02: terminal records never change; nothing is announced for a channel after its terminal record was written *)
C02_Final == [][\A c \in Chans : store[c].status \in Terminal => store'[c] = store[c]]_vars
C02_Silent == [][\A c \in Chans : store[c].status \in Terminal =>
                   Len(SelectSeq(notifQ', LAMBDA n : n.c = c)) <= Len(SelectSeq(notifQ, LAMBDA n : n.c = c))]_vars

(* C03: an accepted initiator channel that was not cancelled/failed completes only with both signals *)
C03_OnlyBoth == \A c \in Chans :
   (RoleOf[c] = "init" /\ hist[c].accepted /\ ~hist[c].ended /\ store[c].status \in {"Completing","Completed"})
      => (hist[c].sawFinish /\ hist[c].sawResp)
C03_Bookkeeping == [][\A c \in Chans : (~pset[c] /\ pset'[c]) =>
      LET e == Head(q[c])[1] IN
        /\ (e \in BookkeepingEvents /\ ~(e = "ResumeResponder" /\ store[c].status = "Finalizing")) => pend'[c].status = store[c].status
        /\ (e \in LifecycleEvents \cup {"Error"}) =>
              <<pend'[c].queued, pend'[c].sent, pend'[c].received, pend'[c].qIdx, pend'[c].sIdx, pend'[c].rIdx,
                pend'[c].ip, pend'[c].rp, pend'[c].vouchers, pend'[c].results, pend'[c].limit, pend'[c].reqFin>>
            = <<store[c].queued, store[c].sent, store[c].received, store[c].qIdx, store[c].sIdx, store[c].rIdx,
                store[c].ip, store[c].rp, store[c].vouchers, store[c].results, store[c].limit, store[c].reqFin>>]_vars
C03_Finalizing == \A c \in Chans : store[c].status = "Finalizing" => RespPausedView(store[c])

(* C09: one cleanup + one unprotect per ending (plus one per explicit clean-up-again request, CompleteCleanupOnRestart) *)
(* once terminal; never terminal without cleanup                                                                      *)
C09_ExactlyOnce == \A c \in Chans : store[c].status \in Terminal =>
                      (env[c].cleanups = hist[c].endings + hist[c].reruns /\ env[c].unprotects = env[c].cleanups)
C09_NeverWithout == \A c \in Chans : (store[c].status \in Terminal /\ crashes = 0) => env[c].cleanups >= 1
C09_Settles == \A c \in Chans : [](store[c].status \in Cleanup /\ nops = MaxOps /\ crashes = Crashes => <>(store[c].status \in Terminal))

(* C11: a pause event changes only its own party's flag *)
C11_OwnFlagOnly == [][\A c \in Chans : (~pset[c] /\ pset'[c]) =>
      LET e == Head(q[c])[1] IN
        /\ e \in {"PauseInitiator","ResumeInitiator"} => pend'[c].rp = store[c].rp
        /\ e \in {"PauseResponder","ResumeResponder","DataLimitExceeded"} => pend'[c].ip = store[c].ip
        /\ e \notin PauseEvents => (pend'[c].ip = store[c].ip /\ pend'[c].rp = store[c].rp)]_vars

(* C17: the subscriber is told each applied event once, in order, with the resulting record *)
C17_InOrder == \A c \in Chans : Len(delivered[c]) <= hist[c].applied
C17_Complete == \A c \in Chans : <>[](crashes > 0 \/ Len(delivered[c]) = hist[c].applied)
ArgOf(e, p, n) ==
  CASE e = "DataReceived" -> n.rIdx [] e = "DataSent" -> n.sIdx [] e = "DataQueued" -> n.qIdx
    [] e = "DataReceivedProgress" -> n.received - p.received [] e = "DataSentProgress" -> n.sent - p.sent [] e = "DataQueuedProgress" -> n.queued - p.queued
    [] e = "SetDataLimit" -> n.limit [] e = "SetRequiresFinalization" -> n.reqFin
    [] e \in ErrNotice \cup {"Error"} -> n.msg
    [] e = "NewVoucher" -> (IF n.vouchers = << >> THEN "" ELSE n.vouchers[Len(n.vouchers)])
    [] e = "NewVoucherResult" -> (IF n.results = << >> THEN "" ELSE n.results[Len(n.results)])
    [] OTHER -> 0
C17_Snapshots == \A c \in Chans : \A i \in 1..Len(delivered[c]) :
      (i > 1 /\ crashes = 0) => LET p == delivered[c][i-1].rec  n == delivered[c][i] IN
                 (Apply(p, n.ev, ArgOf(n.ev, p, n.rec)).kind = "applied" /\ Apply(p, n.ev, ArgOf(n.ev, p, n.rec)).rec = n.rec)

(* C06: the durable record only changes by Persist of a planned record, so a crash between any two steps *)
(* leaves a state that was current once (a prefix of the applied events); statuses stay well-formed.       *)
C06_Prefix == \A c \in Chans : store[c].status \in Status /\ (pset[c] => pend[c].status \in Status)
C06_OnlyPersistWrites == [][\A c \in Chans : store'[c] # store[c] => (pset[c] /\ store'[c] = pend[c])]_vars

(* C19: voucher logs are append-only *)
C19_AppendOnly == [][\A c \in Chans : /\ Len(store'[c].vouchers) >= Len(store[c].vouchers)
                                      /\ SubSeq(store'[c].vouchers, 1, Len(store[c].vouchers)) = store[c].vouchers
                                      /\ Len(store'[c].results) >= Len(store[c].results)
                                      /\ SubSeq(store'[c].results, 1, Len(store[c].results)) = store[c].results]_vars

(* C07: totals and indexes never decrease *)
C07_Monotone == [][\A c \in Chans : /\ store'[c].queued >= store[c].queued /\ store'[c].sent >= store[c].sent
                                    /\ store'[c].received >= store[c].received /\ store'[c].qIdx >= store[c].qIdx
                                    /\ store'[c].sIdx >= store[c].sIdx /\ store'[c].rIdx >= store[c].rIdx]_vars

Constr == nops <= MaxOps
=============================================================================

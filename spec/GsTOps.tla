------------------------------- MODULE GsTOps -------------------------------
(* The graphsync transport adapter (transport/graphsync.Transport) as a pure step function:           *)
(*   Step(s, a) = [s, out, gsc, hook, ret, opret]                                                      *)
(* s   : adapter + fake-graphsync state (record, see S0)                                               *)
(* a   : one action of the script alphabet (record, see A0): a Transport method, a graphsync           *)
(*       callback/hook/listener for ANY request id, or an environment step (gs.Cancel returns, the      *)
(*       1 s cap elapses, the consumer of an outgoing request sees the request end)                     *)
(* out : EventsHandler calls made during the step     [call, c, x, n, src]                             *)
(* gsc : GraphExchange calls made during the step      [call, r, c, x, n]                               *)
(* hook: hook actions taken during the step            [a, c, x, n]                                     *)
(* ret : result class of the step's own call ; opret : result class of a parked OpenChannel that        *)
(*       finished during this step ("" if none)                                                         *)
(* Used by GsT.tla (state machine, properties, model checking, generation of behaviours) and by          *)
(* GsTJudge.tla (expected values for observations recorded from the real adapter).                      *)
(*                                                                                                      *)
(* Granularity: every Transport method and every callback is atomic, except OpenChannel on a channel   *)
(* with a live request, which parks (holding the channel lock) until gs.Cancel has returned and the     *)
(* old request completed or 1 s elapsed.  Actions that need the lock of a channel whose OpenChannel is  *)
(* parked are not enabled (they would block on ch.lk).                                                  *)
EXTENDS Integers, Sequences, FiniteSets, TLC

Self == "S"
Peers == {"P", "Q"}
Tids == {1, 2}
Pool == <<"r1", "r2", "r3", "r4">>          \* request ids in allocation order; any other id is unknown
PoolSet == {Pool[i] : i \in 1..Len(Pool)}
RespN == 2000                                \* transfer id of the scripted handler reply message
BlkIdx == 7

NoChid == [init |-> "", resp |-> "", tid |-> 0]
Chid(i, r, t) == [init |-> i, resp |-> r, tid |-> t]
AllChids == {Chid(Self, p, t) : p \in Peers, t \in Tids} \cup {Chid(p, Self, t) : p \in Peers, t \in Tids}
Other(c) == IF c.init = Self THEN c.resp ELSE c.init
(* channel id implied by a data-transfer message of kind k ("req"/"resp") with transfer id t arriving from
   (or being sent to) the graphsync-authenticated peer p *)
Implied(p, k, t) == IF k = "req" THEN Chid(p, Self, t) ELSE Chid(Self, p, t)
(* kind of the message OpenChannel carries for channel c: we initiated (pull) -> request, else (push) -> response *)
OpenKind(c) == IF c.init = Self THEN "req" ELSE "resp"
(* channel id the outgoing-request hook derives from the message we send to p *)
OutImplied(p, k, t) == IF k = "req" THEN Chid(Self, p, t) ELSE Chid(p, Self, t)

DtZero == [tracked |-> FALSE, isOpen |-> FALSE, req |-> "none", reqCancelled |-> FALSE, xferStarted |-> FALSE,
           pending |-> << >>, store |-> FALSE, compReq |-> "none"]
NoMap == [c |-> NoChid, sending |-> FALSE]
NoCons == [c |-> NoChid, st |-> "none"]      \* consumer goroutine of an outgoing request: none | run | done
NoOpn == [active |-> FALSE, c |-> NoChid, k |-> -1, pc |-> "", cret |-> "", creq |-> "", comp |-> "none"]

S0 == [dt |-> [c \in AllChids |-> DtZero],
       rm |-> [r \in PoolSet |-> NoMap],
       cons |-> [r \in PoolSet |-> NoCons],
       ever |-> [r \in PoolSet |-> NoChid],   \* ghost: the channel a request was created for
       opts |-> {}, paused |-> {}, nreq |-> 0, opn |-> NoOpn, shut |-> FALSE]

A0 == [op |-> "", c |-> NoChid, p |-> "", r |-> "", ext |-> "", tid |-> 0, slot |-> "", wire |-> 0, st |-> "",
       hret |-> "nil", hmsg |-> "none", cret |-> "", k |-> -1, m |-> 0]

Mapped(s, r) == r \in PoolSet /\ s.rm[r].c # NoChid
Owner(s, r) == s.rm[r].c
Locked(s, c) == s.opn.active /\ s.opn.c = c
NextReq(s) == Pool[s.nreq + 1]

H(call, c, x, n) == [call |-> call, c |-> c, x |-> x, n |-> n, src |-> "cb"]
HB(call, c, x, n) == [call |-> call, c |-> c, x |-> x, n |-> n, src |-> "bg"]
G(call, r, c, x, n) == [call |-> call, r |-> r, c |-> c, x |-> x, n |-> n]
K(a, c, x, n) == [a |-> a, c |-> c, x |-> x, n |-> n]
If(b, q) == IF b THEN q ELSE << >>

Res(s, out, gsc, hook, ret) == [s |-> s, out |-> out, gsc |-> gsc, hook |-> hook, ret |-> ret, opret |-> ""]
Nothing(s, ret) == Res(s, << >>, << >>, << >>, ret)

(* ---- OpenChannel ------------------------------------------------------------------------------------ *)
(* gs.Request + outgoing-request hook + "opened" + consumer spawned; the channel lock is released *)
DoRequest(s, c, k) ==
  LET r == NextReq(s)
      d == s.dt[c]
      s2 == [s EXCEPT !.dt[c] = [d EXCEPT !.tracked = TRUE, !.isOpen = TRUE, !.req = r, !.compReq = r],
                      !.rm[r] = [c |-> c, sending |-> FALSE],
                      !.cons[r] = [c |-> c, st |-> "run"],
                      !.ever[r] = c, !.nreq = @ + 1, !.opn = NoOpn]
  IN [s |-> s2,
      out |-> <<H("OnChannelOpened", OutImplied(Other(c), OpenKind(c), c.tid), "", 0)>>,
      gsc |-> <<G("Request", r, NoChid, IF k >= 0 THEN "dt+dnsfb" ELSE "dt", k)>>,
      hook |-> If(d.store, <<K("UsePersistenceOption", c, "opt", 0)>>) \o <<K("MaxLinks", NoChid, "", 0)>>]

(* progress of a parked OpenChannel *)
Advance(s) ==
  LET o == s.opn
      none == [s |-> s, out |-> << >>, gsc |-> << >>, hook |-> << >>, opret |-> ""] IN
  IF ~o.active THEN none
  ELSE IF ~(o.pc = "werr" \/ (o.comp # "none" /\ s.cons[o.comp].st = "done")) THEN none
  ELSE IF o.cret = "pending" THEN [none EXCEPT !.s = [s EXCEPT !.opn.pc = "werr"]]
  ELSE IF o.cret = "err" THEN [none EXCEPT !.s = [s EXCEPT !.opn = NoOpn], !.opret = "gs"]
  ELSE DoRequest(s, o.c, o.k) @@ [opret |-> "nil"]

OpenStart(s, a) ==
  LET c == a.c
      d0 == s.dt[c]
      d == [d0 EXCEPT !.tracked = TRUE]
      st == [s EXCEPT !.dt[c] = d] IN
  IF d.req = "none"
  THEN LET e == DoRequest(st, c, a.k) IN Res(e.s, e.out, e.gsc, e.hook, "nil")
  ELSE
    LET nocancel == d.reqCancelled       \* cancel(): already cancelled by the requester -> errch <- nil, nothing sent
        s1 == [st EXCEPT !.dt[c].req = IF nocancel THEN @ ELSE "none",
                         !.opn = [active |-> TRUE, c |-> c, k |-> a.k, pc |-> "wait",
                                  cret |-> IF nocancel THEN "ok" ELSE "pending",
                                  creq |-> IF nocancel THEN "" ELSE d.req, comp |-> d.compReq]]
        g1 == If(~nocancel, <<G("Cancel", d.req, NoChid, "gate", 0)>>)
        e == Advance(s1)
    IN [s |-> e.s, out |-> e.out, gsc |-> g1 \o e.gsc, hook |-> e.hook,
        ret |-> IF e.opret = "" THEN "parked" ELSE e.opret, opret |-> ""]

(* ---- the other Transport methods -------------------------------------------------------------------- *)
CloseOp(s, a) ==
  LET c == a.c  d == s.dt[c] IN
  IF ~d.tracked THEN Nothing(s, "notfound")
  ELSE IF d.req = "none" THEN Nothing(s, "hang")             \* F2: select on a nil channel (conformance accepts "nil")
  ELSE IF d.reqCancelled THEN Nothing(s, "nil")
  ELSE Res([s EXCEPT !.dt[c].req = "none"], << >>, <<G("Cancel", d.req, NoChid, a.cret, 0)>>, << >>,
           IF a.cret = "err" THEN "gs" ELSE "nil")

PauseOp(s, a) ==
  LET c == a.c  d == s.dt[c] IN
  IF ~d.tracked THEN Nothing(s, "notfound")
  ELSE IF d.req = "none" \/ d.reqCancelled THEN Nothing(s, "nil")
  ELSE Res([s EXCEPT !.paused = @ \cup {d.req}], << >>, <<G("Pause", d.req, NoChid, "", 0)>>, << >>, "nil")

ResumeOp(s, a) ==
  LET c == a.c  d == s.dt[c] IN
  IF ~d.tracked THEN Nothing(s, "notfound")
  ELSE IF d.req = "none" THEN Nothing(s, "nil")
  ELSE IF d.reqCancelled THEN Nothing([s EXCEPT !.dt[c].pending = @ \o If(a.m # 0, <<a.m>>)], "nil")
  ELSE Res([s EXCEPT !.dt[c].xferStarted = TRUE, !.paused = @ \ {d.req}], << >>,
           <<G("Unpause", d.req, NoChid, IF a.m # 0 THEN "dt" ELSE "", a.m)>>, << >>, "nil")

CleanupOp(s, a) ==
  LET c == a.c  d == s.dt[c] IN
  IF ~d.tracked THEN Nothing(s, "nil")
  ELSE Res([s EXCEPT !.dt[c] = DtZero, !.opts = @ \ {c},
                     !.rm = [r \in PoolSet |-> IF s.rm[r].c = c THEN NoMap ELSE s.rm[r]]],
           << >>, If(d.store, <<G("UnregisterPersistenceOption", "", c, "opt", 0)>>), << >>, "nil")

UseStoreOp(s, a) ==
  LET c == a.c IN
  IF c \in s.opts
  THEN Res([s EXCEPT !.dt[c].tracked = TRUE], << >>, <<G("RegisterPersistenceOption", "", c, "opt", 0)>>, << >>, "dupopt")
  ELSE Res([s EXCEPT !.dt[c].tracked = TRUE, !.dt[c].store = TRUE, !.opts = @ \cup {c}], << >>,
           <<G("RegisterPersistenceOption", "", c, "opt", 0)>>, << >>, "nil")

LiveChans(s) == {c \in AllChids : s.dt[c].tracked /\ s.dt[c].req # "none" /\ ~s.dt[c].reqCancelled}
RECURSIVE SeqOfSet(_)
SeqOfSet(S) == IF S = {} THEN << >> ELSE LET x == CHOOSE y \in S : TRUE IN <<x>> \o SeqOfSet(S \ {x})

ShutdownOp(s, a) ==
  LET live == LiveChans(s)
      cs == SeqOfSet(live) IN
  Res([s EXCEPT !.dt = [c \in AllChids |-> IF c \in live THEN [s.dt[c] EXCEPT !.req = "none"] ELSE s.dt[c]], !.shut = TRUE],
      << >>, [i \in 1..Len(cs) |-> G("Cancel", s.dt[cs[i]].req, NoChid, "ok", 0)], << >>, "nil")

(* ---- environment steps --------------------------------------------------------------------------------- *)
WithAdvance(e) ==
  LET v == Advance(e.s) IN
  [s |-> v.s, out |-> e.out \o v.out, gsc |-> e.gsc \o v.gsc, hook |-> e.hook \o v.hook, ret |-> e.ret, opret |-> v.opret]

CancelRetOp(s, a) == WithAdvance(Nothing([s EXCEPT !.opn.cret = IF a.cret = "err" THEN "err" ELSE "ok"], "nil"))
TickOp(s, a) == WithAdvance(Nothing([s EXCEPT !.opn.pc = "werr"], "nil"))

ConsumeOp(s, a) ==
  LET c == s.cons[a.r].c
      out == CASE a.st = "clientCancelled" -> <<HB("OnRequestCancelled", c, "", 0)>>
               [] a.st = "respCancelled" -> << >>
               [] a.st = "other" -> <<HB("OnChannelCompleted", c, "err", 0)>>
               [] OTHER -> <<HB("OnChannelCompleted", c, "ok", 0)>>
  IN WithAdvance(Res([s EXCEPT !.cons[a.r].st = "done"], out, << >>, << >>, "nil"))

(* ---- graphsync callbacks ----------------------------------------------------------------------------- *)
RespMsg(a) == a.ext = "req" /\ a.hmsg = "resp"      \* only OnRequestReceived can return a reply message
RecvCall(a) == IF a.ext = "req" THEN "OnRequestReceived" ELSE "OnResponseReceived"

InReqOp(s, a) ==
  IF a.ext = "none" THEN Nothing(s, "nil")
  ELSE IF a.ext = "malformed" THEN Res(s, << >>, << >>, <<K("TerminateWithError", NoChid, "other", 0)>>, "nil")
  ELSE
    LET c == Implied(a.p, a.ext, a.tid)
        d == [s.dt[c] EXCEPT !.tracked = TRUE]
        r == a.r
        out == <<H(RecvCall(a), c, a.ext, a.tid)>>
        h1 == If(RespMsg(a), <<K("SendExtensionData", NoChid, "inreq", RespN), K("SendExtensionData", NoChid, "dt", RespN)>>)
    IN IF a.hret = "err"
       THEN Res([s EXCEPT !.dt[c] = d, !.nreq = @ + 1], out, << >>, h1 \o <<K("TerminateWithError", NoChid, "handler", 0)>>, "nil")
       ELSE
         LET p1 == a.hret = "pause"
             p2 == d.isOpen /\ ~d.xferStarted /\ ~p1
             h2 == If(p1, <<K("PauseResponse", NoChid, "", 0)>>) \o If(p2, <<K("PauseResponse", NoChid, "", 0)>>)
                   \o <<K("AugmentContext", NoChid, "", 0)>>
             h3 == If(d.reqCancelled, [i \in 1..Len(d.pending) |-> K("SendExtensionData", NoChid, "dt", d.pending[i])])
             h4 == If(d.store, <<K("UsePersistenceOption", c, "opt", 0)>>) \o <<K("MaxLinks", NoChid, "", 0), K("ValidateRequest", NoChid, "", 0)>>
             d2 == [d EXCEPT !.xferStarted = IF p1 \/ p2 THEN @ ELSE TRUE,
                             !.reqCancelled = FALSE,
                             !.pending = IF d.reqCancelled THEN << >> ELSE @,
                             !.req = r, !.isOpen = TRUE]
         IN Res([s EXCEPT !.dt[c] = d2, !.rm[r] = [c |-> c, sending |-> TRUE], !.ever[r] = c, !.nreq = @ + 1],
                out, << >>, h1 \o h2 \o h3 \o h4, "nil")

(* lookup callbacks *)
Lookup(s, a, f(_)) == IF Mapped(s, a.r) THEN f(Owner(s, a.r)) ELSE Nothing(s, "nil")

ProcessingOp(s, a) == Lookup(s, a, LAMBDA c : Res(s, <<H("OnTransferInitiated", c, "", 0)>>, << >>, << >>, "nil"))

WireX(a) == IF a.wire # 0 THEN "t" ELSE "f"
InBlockOp(s, a) ==
  Lookup(s, a, LAMBDA c : Res(s, <<H("OnDataReceived", c, WireX(a), BlkIdx)>>, << >>,
                              CASE a.hret = "err" -> <<K("TerminateWithError", NoChid, "handler", 0)>>
                                [] a.hret = "pause" -> <<K("PauseRequest", NoChid, "", 0)>>
                                [] OTHER -> << >>, "nil"))
OutBlockOp(s, a) ==
  IF a.wire = 0 THEN Nothing(s, "nil")
  ELSE Lookup(s, a, LAMBDA c : Res(s, <<H("OnDataQueued", c, "t", BlkIdx)>>, << >>,
                                   IF a.hret = "err" THEN <<K("TerminateWithError", NoChid, "handler", 0)>>
                                   ELSE If(a.hret = "pause", <<K("PauseResponse", NoChid, "", 0)>>)
                                        \o If(a.hmsg = "resp", <<K("SendExtensionData", NoChid, "outblk", RespN), K("SendExtensionData", NoChid, "dt", RespN)>>),
                                   "nil"))
BlockSentOp(s, a) ==
  IF a.wire = 0 THEN Nothing(s, "nil")
  ELSE Lookup(s, a, LAMBDA c : Res(s, <<H("OnDataSent", c, "t", BlkIdx)>>, << >>, << >>, "nil"))

CompletedOp(s, a) ==
  IF a.st = "cancelled" THEN Nothing(s, "nil")
  ELSE Lookup(s, a, LAMBDA c : Res(s, <<H("OnChannelCompleted", c, IF a.st = "full" THEN "ok" ELSE "err", 0)>>, << >>, << >>, "nil"))

(* processExtension: [found, out, reply, err] *)
PE(c, a, found) ==
  IF ~found \/ a.ext = "none" THEN [out |-> << >>, reply |-> FALSE, err |-> "nil"]
  ELSE IF a.ext = "malformed" THEN [out |-> << >>, reply |-> FALSE, err |-> "other"]
  ELSE IF Implied(a.p, a.ext, a.tid) # c THEN [out |-> << >>, reply |-> FALSE, err |-> "role"]
  ELSE [out |-> <<H(RecvCall(a), c, a.ext, a.tid)>>, reply |-> RespMsg(a),
        err |-> CASE a.hret = "err" -> "handler" [] a.hret = "pause" -> "pause" [] OTHER -> "nil"]

ReqUpdatedOp(s, a) ==
  Lookup(s, a, LAMBDA c :
    LET e == PE(c, a, TRUE) IN
    Res(s, e.out, << >>, If(e.reply, <<K("SendExtensionData", NoChid, "dt", RespN)>>)
                         \o If(e.err \notin {"nil", "pause"}, <<K("TerminateWithError", NoChid, e.err, 0)>>), "nil"))

InRespOp(s, a) ==
  Lookup(s, a, LAMBDA c :
    LET e1 == PE(c, a, a.slot \in {"dt", "inreq", "both"})
        e2 == PE(c, a, a.slot \in {"outblk", "both"}) IN
    Res(s, e1.out \o e2.out, << >>,
        If(e1.reply, <<K("UpdateRequestWithExtensions", NoChid, "dt", RespN)>>)
        \o If(e1.err # "nil", <<K("TerminateWithError", NoChid, e1.err, 0)>>)
        \o If(e2.err # "nil", <<K("TerminateWithError", NoChid, e2.err, 0)>>), "nil"))

ReqCancelledOp(s, a) ==
  Lookup(s, a, LAMBDA c : IF s.dt[c].tracked THEN Nothing([s EXCEPT !.dt[c].reqCancelled = TRUE], "nil") ELSE Nothing(s, "nil"))

SendErrOp(s, a) == Lookup(s, a, LAMBDA c : Res(s, <<H("OnSendDataError", c, "", 0)>>, << >>, << >>, "nil"))

RecvErrOp(s, a) ==
  LET hit == SelectSeq(Pool, LAMBDA r : Mapped(s, r) /\ a.p \in {s.rm[r].c.init, s.rm[r].c.resp}) IN
  Res(s, [i \in 1..Len(hit) |-> H("OnReceiveDataError", s.rm[hit[i]].c, "", 0)], << >>, << >>, "nil")

Callbacks == {"OutReqHook", "InReq", "Processing", "InBlock", "OutBlock", "BlockSent", "Completed", "ReqUpdated", "InResp",
              "ReqCancelled", "SendErr", "RecvErr"}
Methods == {"Open", "Close", "Pause", "Resume", "Cleanup", "UseStore", "Shutdown"}
EnvSteps == {"CancelRet", "Tick", "Consume"}
LookupOps == {"Processing", "InBlock", "OutBlock", "BlockSent", "Completed", "ReqUpdated", "InResp", "ReqCancelled", "SendErr"}

(* enabledness (everything else could block on a channel lock - whichever channel: the replays must not depend on the
   adapter agreeing with the model about which channel a call belongs to -, or is not something graphsync / the manager does) *)
Enabled(s, a) ==
  LET free == ~s.opn.active IN      \* no OpenChannel is parked holding a channel lock: scripts take a channel lock only then
  CASE a.op = "Open" -> free /\ ~s.shut /\ s.nreq < Len(Pool) /\ a.c \in AllChids
    [] a.op \in {"Close", "Pause", "Resume", "Cleanup"} -> a.c \in AllChids /\ free
    [] a.op = "UseStore" -> a.c \in AllChids
    [] a.op = "Shutdown" -> free
    [] a.op = "CancelRet" -> s.opn.active /\ s.opn.cret = "pending" /\ s.opn.creq = a.r
    [] a.op = "Tick" -> s.opn.active /\ s.opn.pc = "wait"
    [] a.op = "Consume" -> a.r \in PoolSet /\ s.cons[a.r].st = "run"
    [] a.op = "OutReqHook" -> a.ext \in {"none", "malformed"} /\ a.r \notin PoolSet
    [] a.op = "InReq" -> IF a.ext \in {"req", "resp"}
                         THEN free /\ s.nreq < Len(Pool) /\ a.r = NextReq(s)
                         ELSE a.r \notin PoolSet
    [] a.op = "ReqCancelled" -> free
    [] a.op \in Callbacks -> TRUE
    [] OTHER -> FALSE

Step(s, a) ==
  IF s.shut /\ a.op \in Callbacks THEN Nothing(s, "nohook")        \* hooks are unregistered: graphsync has nothing to call
  ELSE
  CASE a.op = "Open" -> OpenStart(s, a)
    [] a.op = "Close" -> CloseOp(s, a)
    [] a.op = "Pause" -> PauseOp(s, a)
    [] a.op = "Resume" -> ResumeOp(s, a)
    [] a.op = "Cleanup" -> CleanupOp(s, a)
    [] a.op = "UseStore" -> UseStoreOp(s, a)
    [] a.op = "Shutdown" -> ShutdownOp(s, a)
    [] a.op = "CancelRet" -> CancelRetOp(s, a)
    [] a.op = "Tick" -> TickOp(s, a)
    [] a.op = "Consume" -> ConsumeOp(s, a)
    [] a.op = "OutReqHook" -> Nothing(s, "nil")
    [] a.op = "InReq" -> InReqOp(s, a)
    [] a.op = "Processing" -> ProcessingOp(s, a)
    [] a.op = "InBlock" -> InBlockOp(s, a)
    [] a.op = "OutBlock" -> OutBlockOp(s, a)
    [] a.op = "BlockSent" -> BlockSentOp(s, a)
    [] a.op = "Completed" -> CompletedOp(s, a)
    [] a.op = "ReqUpdated" -> ReqUpdatedOp(s, a)
    [] a.op = "InResp" -> InRespOp(s, a)
    [] a.op = "ReqCancelled" -> ReqCancelledOp(s, a)
    [] a.op = "SendErr" -> SendErrOp(s, a)
    [] a.op = "RecvErr" -> RecvErrOp(s, a)

(* ---- the property formulas, on the values of ONE step (pre-state s, action a, what happened: out/gsc/hook, options
        registered afterwards).  GsT.tla evaluates them on the model's own step, GsTJudge.tla on what the real adapter did. ---- *)
Chids(out) == {out[i].c : i \in 1..Len(out)}
CallsOf(gsc, names) == SelectSeq(gsc, LAMBDA g : g.call \in names)
CbOut(out) == SelectSeq(out, LAMBDA o : o.src = "cb")
BgOut(out) == SelectSeq(out, LAMBDA o : o.src = "bg")

(* the channel a step's handler calls must name *)
Routed(s, a, out) ==
  CASE a.op \in LookupOps -> Mapped(s, a.r) => Chids(out) \subseteq {Owner(s, a.r)}
    [] a.op = "InReq" -> a.ext \in {"req", "resp"} => Chids(out) \subseteq {Implied(a.p, a.ext, a.tid)}
    [] a.op = "Open" -> Chids(out) \subseteq {a.c}
    [] a.op \in {"CancelRet", "Tick"} -> Chids(CbOut(out)) \subseteq {s.opn.c}
    [] a.op = "Consume" -> Chids(BgOut(out)) \subseteq {s.cons[a.r].c} /\ Chids(CbOut(out)) \subseteq {s.opn.c}
    [] a.op = "RecvErr" -> \A c \in Chids(out) : a.p \in {c.init, c.resp} /\ \E r \in PoolSet : Mapped(s, r) /\ Owner(s, r) = c
    [] OTHER -> out = << >>
Silent(s, a, out) ==
  /\ (a.op \in LookupOps /\ ~Mapped(s, a.r) /\ (a.r \notin PoolSet \/ s.ever[a.r] = NoChid)) => out = << >>
  /\ (a.op \in {"InReq", "OutReqHook"} /\ a.ext \in {"none", "malformed"}) => out = << >>
  /\ (a.op \in Methods \ {"Open"}) => out = << >>
AfterCleanup(s, a, out) ==
  (a.op \in LookupOps /\ a.r \in PoolSet /\ s.ever[a.r] # NoChid /\ ~Mapped(s, a.r)) => out = << >>
AfterCleanupConsumer(s, a, out) ==
  (a.op = "Consume" /\ ~Mapped(s, a.r)) => BgOut(out) = << >>
WireOnly(s, a, out) == (a.op \in {"OutBlock", "BlockSent"} /\ a.wire = 0) => out = << >>
CurrentReq(s, a, gsc) ==
  LET acts == CallsOf(gsc, {"Pause", "Unpause", "Cancel"}) IN
  CASE a.op \in {"Pause", "Resume", "Close", "Open"} ->
         LET d == s.dt[a.c]
             want == CASE a.op = "Pause" -> "Pause" [] a.op = "Resume" -> "Unpause" [] OTHER -> "Cancel" IN
         /\ \A i \in 1..Len(acts) : acts[i].call = want /\ acts[i].r = d.req /\ d.tracked
         /\ (d.req = "none" \/ ~d.tracked) => acts = << >>
         /\ Len(acts) <= 1
    [] a.op = "Shutdown" -> \A i \in 1..Len(acts) : acts[i].call = "Cancel" /\ \E c \in AllChids : s.dt[c].tracked /\ s.dt[c].req = acts[i].r
    [] OTHER -> acts = << >>
CompletedOnce(s, a, out) ==
  (a.op = "Completed" /\ ~s.shut) =>
     IF a.st = "cancelled" \/ ~Mapped(s, a.r) THEN out = << >>
     ELSE Len(out) = 1 /\ out[1].call = "OnChannelCompleted" /\ out[1].x = (IF a.st = "full" THEN "ok" ELSE "err")
RoleCheck(s, a, out, hook) ==
  (a.op \in {"ReqUpdated", "InResp"} /\ ~s.shut /\ Mapped(s, a.r) /\ a.ext \in {"req", "resp"} /\ Implied(a.p, a.ext, a.tid) # Owner(s, a.r)
      /\ (a.op = "InResp" => a.slot \in {"dt", "inreq", "outblk", "both"}))
   => (out = << >> /\ \E i \in 1..Len(hook) : hook[i].a = "TerminateWithError")
(* opts = persistence options registered after the step; want = UseStore(c) happened and Cleanup(c) has not *)
StoreLifetime(want, opts, hook, a, s) ==
  /\ opts = want
  /\ \A i \in 1..Len(hook) : hook[i].a = "UsePersistenceOption" => hook[i].c \in want
=============================================================================

----------------------------- MODULE ChanTrace -----------------------------
(* Trace specification for Chan.tla: validates executions RECORDED FROM THE REAL CODE (the repository's own test     *)
(* suite and the real two-node graphsync runs, built with -tags verif) as behaviours of the channel-engine model.    *)
(*                                                                                                                   *)
(* Lines (channels/verifhook_on.go; one process-wide sequence number taken under the sink's mutex):                  *)
(*   create      CreateNew wrote the initial record                                     -> TraceReset (synthesised)  *)
(*   send        an event is ABOUT to be handed to the channel's state machine (logged before StateGroup.Send, so    *)
(*               the line precedes every effect of the event); the enqueue itself is the silent step Enq             *)
(*   notify      Channels.dispatch announces an applied event with the resulting state   -> Chan!Notify              *)
(*   sent        that StateGroup.Send has returned: the goroutine's event is queued (orders non-overlapping sends)   *)
(*   hcleanup / hunprotect   the cleanup handler called CleanupChannel / Unprotect          -> Chan!HCleanup / HUnprotect *)
(* Silent (unlogged) steps: Enq, Chan!Plan, Chan!Persist, Chan!HTrigger - each is enabled only by what the logged lines put in *)
(* flight, so the trace spec is finite.  One channel per case (Chans = {"c"}); cases of many channels / instances    *)
(* are concatenated, separated by reset lines.  Acceptance: the cursor reaches the end (high-water mark in TLC        *)
(* register 1, compared by the POSTCONDITION).  The channel-level properties are evaluated on every state of every    *)
(* accepted behaviour: T_C02_Final, T_C07_Monotone, T_C19_AppendOnly (action properties), C09_ExactlyOnce,            *)
(* C09_NeverWithout, T_C09_Counts (state invariants - bound to the REAL CleanupChannel / Unprotect calls).            *)
EXTENDS Chan, Json

CONSTANTS TraceFile, NotifyFile
Trace == ndJsonDeserialize(TraceFile)
NotifyAll == ndJsonDeserialize(NotifyFile)     \* the notify lines of Trace, in order (written by the same tool that wrote Trace)

VARIABLES nbase,    \* number of notify lines before the current case (reset line field nb)
          ncase,    \* number of notify lines of the current case (reset line field nn)
          l,        \* cursor: next line to consume
          intent    \* events announced by send lines that are not yet in the machine's queue: sequence of <<gid, ev, arg>>;
                    \* a goroutine's Send returns before its next send line is logged, so at most one entry per goroutine
tvars == <<vars, l, intent, nbase, ncase>>
c0 == "c"

Line == Trace[l]
(* Partial-order reduction by hand: the run loop's silent steps (Plan, Persist) commute with the consumption of every  *)
(* line (a line only adds an intent, checks an intent, pops the HEAD of the notification queue or moves the handler,    *)
(* which is disabled while a record is pending), so lines are consumed only when the run loop has nothing to do; the     *)
(* real nondeterminism - the order in which overlapping Sends and the handler's Trigger reach the queue - stays.         *)
LoopIdle == ~pset[c0] /\ (busy[c0] \/ closed[c0] \/ q[c0] = << >>)
IsEvent(k) == l <= Len(Trace) /\ Trace[l].kind = k /\ l' = l + 1 /\ LoopIdle

ArgOfLine(ln) ==
  CASE ArgKind(ln.ev) \in {"idx", "delta", "limit"} -> ln.n
    [] ArgKind(ln.ev) = "bool" -> ln.flag
    [] ArgKind(ln.ev) \in {"err", "voucher", "result"} -> ln.arg
    [] OTHER -> 0

FreshStore(ln) == [ZeroRec("Requested") EXCEPT !.vouchers = <<"?">>]

TraceInit ==
  /\ Init
  /\ l = 1 /\ intent = << >> /\ nbase = 0 /\ ncase = 0
  /\ TLCSet(1, 1)

(* a new case starts: everything the previous channel left behind is forgotten *)
TraceReset ==
  /\ IsEvent("reset")
  /\ store' = [c \in Chans |-> FreshStore(Line)]
  /\ q' = [c \in Chans |-> << >>] /\ busy' = [c \in Chans |-> FALSE] /\ hpc' = [c \in Chans |-> "idle"]
  /\ closed' = [c \in Chans |-> FALSE] /\ cache' = [c \in Chans |-> FreshCache] /\ notifQ' = << >>
  /\ pend' = [c \in Chans |-> ZeroRec("Requested")] /\ pset' = [c \in Chans |-> FALSE]
  /\ delivered' = [c \in Chans |-> << >>]
  /\ env' = [c \in Chans |-> [cleanups |-> 0, unprotects |-> 0]]
  /\ hist' = [c \in Chans |-> Hist0]
  /\ intent' = << >> /\ nbase' = Line.nb /\ ncase' = Line.nn
  /\ UNCHANGED <<nops, crashes>>

TraceSend ==
  /\ IsEvent("send")
  /\ \A i \in 1..Len(intent) : intent[i][1] # Line.gid        \* the goroutine's previous event is already queued (or refused)
  /\ intent' = Append(intent, <<Line.gid, Line.ev, ArgOfLine(Line)>>)
  /\ UNCHANGED <<vars, nbase, ncase>>

RemoveAt(s, i) == SubSeq(s, 1, i - 1) \o SubSeq(s, i + 1, Len(s))
(* silent: StateGroup.Send puts the event into the machine's queue (or is refused by a machine that has shut down) *)
Enq ==
  /\ \E i \in 1..Len(intent) :
       /\ intent' = RemoveAt(intent, i)
       /\ q' = [q EXCEPT ![c0] = IF closed[c0] THEN @ ELSE Append(@, <<intent[i][2], intent[i][3]>>)]
  /\ UNCHANGED <<store, busy, hpc, closed, cache, notifQ, pend, pset, delivered, env, nops, crashes, hist, l, nbase, ncase>>

LastOr(s) == IF s = << >> THEN "" ELSE s[Len(s)]
Matches(r, ln) ==
  /\ r.status = ln.status /\ r.ip = ln.ip /\ RespPausedView(r) = ln.rpView
  /\ r.queued = ln.queued /\ r.sent = ln.sent /\ r.received = ln.received
  /\ r.qIdx = ln.qIdx /\ r.sIdx = ln.sIdx /\ r.rIdx = ln.rIdx
  /\ r.limit = ln.limit /\ r.reqFin = ln.reqFin
  /\ Len(r.vouchers) = ln.nv /\ Len(r.results) = ln.nr
  /\ r.msg = ln.msg
  /\ (Len(r.vouchers) > 1 => LastOr(r.vouchers) = ln.lastV)
  /\ LastOr(r.results) = ln.lastR

TraceNotify ==
  /\ IsEvent("notify")
  /\ notifQ # << >> /\ Head(notifQ).ev = Line.ev /\ Matches(Head(notifQ).rec, Line)
  (* Chan!Notify, except that only the latest delivery is kept (the full log only makes states big) *)
  /\ delivered' = [delivered EXCEPT ![c0] = << [ev |-> Head(notifQ).ev, rec |-> Head(notifQ).rec] >>]
  /\ notifQ' = Tail(notifQ)
  /\ UNCHANGED <<store, q, busy, hpc, closed, cache, pend, pset, env, nops, crashes, hist>>
  /\ UNCHANGED <<intent, nbase, ncase>>
(* The cleanup handler's REAL calls.  Where the model's handler stands at that point the line is its step; a call the   *)
(* model does not expect (a handler run the transition table does not ask for) is still COUNTED, so that it is the       *)
(* property (C09_ExactlyOnce: cleanups = unprotects = endings once terminal) that decides, not a mere mismatch.          *)
TraceHCleanup ==
  /\ IsEvent("hcleanup")
  /\ IF hpc[c0] = "cleanup" THEN HCleanup(c0)
     ELSE /\ env' = [env EXCEPT ![c0].cleanups = @ + 1]
          /\ UNCHANGED <<store, q, busy, hpc, closed, cache, notifQ, pend, pset, delivered, nops, crashes, hist>>
  /\ UNCHANGED <<intent, nbase, ncase>>
TraceHUnprotect ==
  /\ IsEvent("hunprotect")
  /\ IF hpc[c0] = "unprotect" THEN HUnprotect(c0)
     ELSE /\ env' = [env EXCEPT ![c0].unprotects = @ + 1]
          /\ UNCHANGED <<store, q, busy, hpc, closed, cache, notifQ, pend, pset, delivered, nops, crashes, hist>>
  /\ UNCHANGED <<intent, nbase, ncase>>
(* the goroutine's StateGroup.Send has returned: its event is in the queue (or was refused by a machine that shut down) *)
TraceSent ==
  /\ IsEvent("sent")
  /\ \A i \in 1..Len(intent) : intent[i][1] # Line.gid
  /\ UNCHANGED <<vars, intent, nbase, ncase>>

(* Look-ahead (a constraint, not a guess): announcements are made in the order in which events were applied (one FIFO    *)
(* notifier) - exactly what TraceNotify demands of the head of notifQ.  So the j-th event the run loop applies in this    *)
(* case must be the one the case's j-th notify line announces; checking that when the event is planned, instead of when    *)
(* the cursor reaches the line, prunes a wrong guess of the enqueue order at once.  Events applied after the last          *)
(* announcement the case recorded (the instance stopped first) are unconstrained.                                          *)
PlanAhead ==
  /\ Plan(c0)
  /\ (hist'[c0].applied > hist[c0].applied /\ hist'[c0].applied <= ncase) =>
        LET ln == NotifyAll[nbase + hist'[c0].applied] IN ln.ev = Head(q[c0])[1] /\ Matches(pend'[c0], ln)
Silent == \/ Enq
          \/ (PlanAhead /\ UNCHANGED <<l, intent, nbase, ncase>>)
          \/ (Persist(c0) /\ UNCHANGED <<l, intent, nbase, ncase>>)
          \/ (HTrigger(c0) /\ UNCHANGED <<l, intent, nbase, ncase>>)       \* the handler's Trigger(CleanupComplete): queued some time after Unprotect returned

TraceNext == TraceReset \/ TraceSend \/ TraceSent \/ TraceNotify \/ TraceHCleanup \/ TraceHUnprotect \/ Silent
TraceSpec == TraceInit /\ [][TraceNext]_tvars

(* high-water mark of the cursor *)
Mark == (IF l > TLCGet(1) THEN TLCSet(1, l) ELSE TRUE)
TraceAccepted == TLCGet(1) = Len(Trace) + 1
Reached == PrintT(<<"@@reached", TLCGet(1), Len(Trace)>>)
Post == Reached /\ TraceAccepted
(* search control: with the depth-first state queue TLC can stop at the first behaviour that consumes the whole trace;  *)
(* "NotDone is violated" then MEANS accepted (every state on that behaviour has passed the invariants and properties).   *)
NotDone == l <= Len(Trace)

(* ---- properties on the observed behaviours (a reset step starts a new channel and is exempt) -------------------- *)
NoReset == ~(l' = l + 1 /\ l <= Len(Trace) /\ Trace[l].kind = "reset")
T_C02_Final == [][NoReset => (store[c0].status \in Terminal => store'[c0] = store[c0])]_tvars
T_C07_Monotone == [][NoReset => (/\ store'[c0].queued >= store[c0].queued /\ store'[c0].sent >= store[c0].sent
                                 /\ store'[c0].received >= store[c0].received /\ store'[c0].qIdx >= store[c0].qIdx
                                 /\ store'[c0].sIdx >= store[c0].sIdx /\ store'[c0].rIdx >= store[c0].rIdx)]_tvars
T_C19_AppendOnly == [][NoReset => (/\ Len(store'[c0].vouchers) >= Len(store[c0].vouchers)
                                   /\ SubSeq(store'[c0].vouchers, 1, Len(store[c0].vouchers)) = store[c0].vouchers
                                   /\ Len(store'[c0].results) >= Len(store[c0].results)
                                   /\ SubSeq(store'[c0].results, 1, Len(store[c0].results)) = store[c0].results)]_tvars
(* the real CleanupChannel / Unprotect calls never run ahead of the endings that were applied *)
T_C09_Counts == env[c0].cleanups <= hist[c0].endings + hist[c0].reruns /\ env[c0].unprotects <= env[c0].cleanups
=============================================================================

------------------------------ MODULE MgrTab ------------------------------
(* Tabulates manager-level cases: (role, status, record variant) x stimulus, per property family.      *)
(* self = "A", counterparty "B", stranger "X".  Replayed by harness/mgrx, judged by MgrJudge.           *)
EXTENDS Mgr, Json, SequencesExt

CONSTANTS OutFile, Family, Roles, Statuses

ZeroArgs == [delta |-> 0, index |-> 0, unique |-> FALSE, limit |-> 0, flag |-> FALSE, err |-> "", v |-> ""]
IdentOf(role, tid) ==
  CASE role = "initPush" -> [self |-> "A", initiator |-> "A", responder |-> "B", sender |-> "A", recipient |-> "B", tid |-> tid, base |-> "base", sel |-> "s"]
    [] role = "initPull" -> [self |-> "A", initiator |-> "A", responder |-> "B", sender |-> "B", recipient |-> "A", tid |-> tid, base |-> "base", sel |-> "s"]
    [] role = "respPush" -> [self |-> "A", initiator |-> "B", responder |-> "A", sender |-> "B", recipient |-> "A", tid |-> tid, base |-> "base", sel |-> "s"]
    [] role = "respPull" -> [self |-> "A", initiator |-> "B", responder |-> "A", sender |-> "A", recipient |-> "B", tid |-> tid, base |-> "base", sel |-> "s"]

Var(s, v) ==
  CASE v = "zero" -> ZeroRec(s)
    [] v = "prog" -> [ZeroRec(s) EXCEPT !.queued = 5, !.sent = 3, !.received = 4, !.qIdx = 3, !.sIdx = 2, !.rIdx = 3, !.limit = 7, !.results = <<"r0">>, !.vouchers = <<"v0","v3">>]
    [] v = "rp"   -> [ZeroRec(s) EXCEPT !.rp = TRUE, !.queued = 7, !.received = 7, !.qIdx = 3, !.rIdx = 3, !.limit = 7, !.reqFin = TRUE]
    [] v = "ip"   -> [ZeroRec(s) EXCEPT !.ip = TRUE, !.queued = 2, !.received = 2, !.qIdx = 1, !.rIdx = 1]
    [] v = "both" -> [ZeroRec(s) EXCEPT !.ip = TRUE, !.rp = TRUE]
    [] v = "mixed" -> [ZeroRec(s) EXCEPT !.vouchers = <<"v0","v1@vtB">>, !.received = 2, !.rIdx = 1]   \* a later voucher of another type

Res(acc, err, vres, force, limit, reqFin) == [err |-> err, accepted |-> acc, vres |-> vres, force |-> force, limit |-> limit, reqFin |-> reqFin]
AcceptRes == Res(TRUE, FALSE, "", FALSE, 0, FALSE)
ValSet == {Res(a, e, vr, f, l, rf) : a \in BOOLEAN, e \in BOOLEAN, vr \in {"", "r1"}, f \in BOOLEAN, l \in {0, 5}, rf \in BOOLEAN}
ValFew == {AcceptRes, Res(FALSE, FALSE, "r1", FALSE, 0, FALSE), Res(TRUE, TRUE, "", FALSE, 0, FALSE), Res(TRUE, FALSE, "r1", TRUE, 9, TRUE),
           Res(FALSE, FALSE, "", TRUE, 0, FALSE), Res(FALSE, FALSE, "", FALSE, 5, FALSE),
           Res(TRUE, FALSE, "r0", FALSE, 0, FALSE),                                              \* a voucher result equal to the latest one of the "prog" records: recorded again        \* rejections that also carry a pause condition (forced / limit already reached)
           Res(TRUE, FALSE, "", FALSE, 5, FALSE), Res(TRUE, FALSE, "", FALSE, 9, FALSE), Res(TRUE, FALSE, "r3", FALSE, 0, TRUE),
           Res(TRUE, FALSE, "", FALSE, 9, TRUE)}

Stim0 == [kind |-> "", c |-> "c1", from |-> "B", to |-> "B", msg |-> NoMsg, val |-> AcceptRes, sendFail |-> << >>, openFail |-> FALSE, args |-> ZeroArgs, rereg |-> TRUE]
St(k) == [Stim0 EXCEPT !.kind = k]
WithFail(S) == S \cup {[s EXCEPT !.sendFail = <<TRUE>>] : s \in S}

ReqNew(tid, pull, v, sel) == [Req("New", tid) EXCEPT !.pull = pull, !.v = v, !.base = "base", !.sel = sel]
ReqRestart(tid, pull, v, base) == [Req("Restart", tid) EXCEPT !.pull = pull, !.v = v, !.base = base, !.sel = "s"]
AllReqs(tid, pull) == {ReqNew(tid, pull, "v0", "s"), ReqRestart(tid, pull, "v0", "base"), Req("Cancel", tid), [Req("Voucher", tid) EXCEPT !.v = "v4"],
                       [Req("Voucher", tid) EXCEPT !.v = "v4@vtB"],    \* a later voucher of ANOTHER type than the one the channel was opened with: recorded like any other
                       [Req("Voucher", tid) EXCEPT !.v = "v3"],        \* the same voucher as the latest one of the "prog" records: recorded again (each exactly once per message)
                       [Req("Update", tid) EXCEPT !.paused = TRUE], Req("Update", tid)}
AllResps(tid) == {Resp("New", tid, TRUE, FALSE, ""), Resp("New", tid, FALSE, FALSE, "r1"), Resp("Restart", tid, TRUE, FALSE, ""), Resp("Restart", tid, FALSE, FALSE, ""),
                  Resp("VoucherResult", tid, TRUE, FALSE, "r1"), Resp("VoucherResult", tid, FALSE, FALSE, "r1"),
                  Resp("VoucherResult", tid, TRUE, FALSE, "r0"),       \* repeats the latest result of the "prog" records: still one more entry
 Resp("Complete", tid, TRUE, FALSE, ""), Resp("Complete", tid, TRUE, TRUE, "r3"),
                  Resp("Update", tid, FALSE, TRUE, ""), Resp("Update", tid, FALSE, FALSE, ""), Resp("Cancel", tid, FALSE, FALSE, "")}
RecvAll(from, tid, pull) == {[St("RecvRequest") EXCEPT !.from = from, !.msg = m] : m \in AllReqs(tid, pull)}
                            \cup {[St("RecvResponse") EXCEPT !.from = from, !.msg = m] : m \in AllResps(tid)}
ViaTransport(S) == {[s EXCEPT !.kind = IF s.kind = "RecvRequest" THEN "OnRequestReceived" ELSE "OnResponseReceived"] : s \in {x \in S : x.kind \in {"RecvRequest","RecvResponse"}}}
RestartEx(from, ri, rr, rt) == [St("RecvRestartExisting") EXCEPT !.from = from, !.msg = [Req("RestartExisting", 0) EXCEPT !.ri = ri, !.rr = rr, !.rt = rt]]

DataStims == {[St(k) EXCEPT !.args = [ZeroArgs EXCEPT !.delta = d[1], !.index = d[2], !.unique = d[3]]] :
                k \in {"OnDataQueued","OnDataSent","OnDataReceived"}, d \in {<<2, 9, TRUE>>, <<3, 9, TRUE>>, <<5, 9, TRUE>>, <<2, 3, TRUE>>, <<2, 9, FALSE>>}}
CallbackStims == DataStims \cup {St("OnChannelOpened"), St("OnTransferInitiated"), St("OnChannelCompleted"), [St("OnChannelCompleted") EXCEPT !.args.err = "e1"],
                  [St("OnChannelCompleted") EXCEPT !.sendFail = <<TRUE>>]}
                  \cup {[d EXCEPT !.sendFail = <<TRUE>>] : d \in {x \in DataStims : x.kind = "OnDataReceived"}}     \* the pause notice of a limit crossing cannot be sent
                  \cup {[St(k) EXCEPT !.args.err = "e1"] : k \in {"OnRequestCancelled","OnRequestDisconnected","OnSendDataError","OnReceiveDataError"}}
ApiStims == WithFail({[St("SendVoucher") EXCEPT !.msg.v = "v4"], [St("SendVoucherResult") EXCEPT !.msg.v = "r4"], St("Pause"), St("Close"), [St("CloseErr") EXCEPT !.args.err = "e1"]})
            \cup {St("Resume")}
            \cup {[St("Close") EXCEPT !.openFail = TRUE], [St("CloseErr") EXCEPT !.args.err = "e1", !.openFail = TRUE]}   \* the transport does not know the channel: close still cancels
            \cup WithFail({[St("UpdateValidation") EXCEPT !.val = v] : v \in ValFew})
            \cup WithFail({[St("Restart") EXCEPT !.val = v] : v \in {AcceptRes, Res(FALSE, FALSE, "", FALSE, 0, FALSE), Res(TRUE, TRUE, "", FALSE, 0, FALSE)}})
            \cup {[St("Restart") EXCEPT !.openFail = TRUE]}

(* stimuli on an existing channel c1 = (role, tid 1) *)
StimsFor(role) ==
  LET pull == role \in {"initPull","respPull"}  amInit == role \in {"initPush","initPull"} IN
  CASE Family = "all" -> ApiStims \cup CallbackStims \cup RecvAll("B", 1, pull) \cup ViaTransport(RecvAll("B", 1, pull))
                         \cup {[St(kk) EXCEPT !.from = "B", !.msg = ReqNew(1, pull, "v0", "s"), !.val = vv] : kk \in {"RecvRequest","OnRequestReceived"}, vv \in ValFew}   \* duplicate new-requests under every validator answer
                         \cup {RestartEx("B", IdentOf(role, 1).initiator, IdentOf(role, 1).responder, 1)}
    [] Family = "c05" -> RecvAll("B", 1, pull) \cup RecvAll("X", 1, pull) \cup RecvAll("A", 1, pull) \cup RecvAll("B", 2, pull)
                         \cup ViaTransport(RecvAll("X", 1, pull)) \cup ViaTransport(RecvAll("B", 1, pull))
                         \cup {RestartEx(f, i, r, t) : f \in {"B","X","A"}, i \in {"A","B"}, r \in {"A","B","X"}, t \in {1, 2}}
                         \cup (IF amInit THEN {[St("RecvRequest") EXCEPT !.from = f, !.msg = ReqRestart(1, pull, "v0", "base")] : f \in {"B","X"}}
                               ELSE {[St(kk) EXCEPT !.from = f, !.msg = ReqRestart(1, pl, v, b)] : kk \in {"RecvRequest","OnRequestReceived"}, f \in {"B","X"}, pl \in BOOLEAN,
                                        v \in {"v0","v1","v3","v0@vtB"}, b \in {"base","other","base#cbor"}})      \* "base#cbor": the same digest under another codec - not the original base CID
                         \cup {[St("SendVoucher") EXCEPT !.msg.v = "v4"], [St("SendVoucherResult") EXCEPT !.msg.v = "r4"], St("UpdateValidation")}
    [] Family = "c04" -> {[St(k) EXCEPT !.from = "B", !.msg = ReqRestart(1, pull, "v0", "base"), !.val = v] : k \in {"RecvRequest","OnRequestReceived"}, v \in ValSet}
                         \cup {[St("UpdateValidation") EXCEPT !.val = v] : v \in ValSet}
    [] OTHER -> {}

ExistingCases == UNION {
   {[role |-> ro, status |-> s, var |-> v, stim |-> st, types |-> ty, kind |-> "existing"] :
       s \in Statuses, v \in (IF Family = "c04" THEN {"zero","prog","mixed"} ELSE IF Family = "all" THEN {"zero","prog","rp","ip","both"} ELSE {"zero","prog","rp","ip"}), st \in StimsFor(ro),
       ty \in IF Family = "c04" THEN {<<"vt">>, << >>, <<"vt","vtB">>} ELSE {<<"vt">>}}
   : ro \in (IF Family = "c04" THEN Roles \cap {"respPush","respPull"} ELSE Roles)}
ValidExisting(c) == /\ ((c.stim.kind \in {"Close","CloseErr"} /\ c.stim.openFail) => c.var = "zero")       \* closes with an unknowing transport: one record variant is enough
                    /\ (c.types # <<"vt">> => c.stim.val \in ValFew)
                    /\ ((c.var = "mixed") <=> (c.types = <<"vt","vtB">>))

(* stimuli with no channel: new requests under every validator outcome / registry / path *)
NewCases == IF Family \in {"c04","all"} THEN
   {[role |-> "none", status |-> "Requested", var |-> "zero", types |-> ty, kind |-> "fresh",
     stim |-> [St(k) EXCEPT !.from = "B", !.msg = ReqNew(1, pl, v, sl), !.val = vl]] :
      k \in {"RecvRequest","OnRequestReceived"}, pl \in BOOLEAN, v \in {"v0", "", "v0@vtB"}, sl \in {"s", ""}, vl \in ValSet, ty \in {<<"vt">>, << >>, <<"vtB">>}}
   ELSE {}

CaseSet == {c \in ExistingCases : ValidExisting(c)} \cup NewCases
CaseSeq == SetToSeq(CaseSet)
CaseOf(n) == LET c == CaseSeq[n] IN
  [case |-> "m" \o ToString(n), self |-> "A", types |-> c.types,
   chans |-> IF c.kind = "fresh" THEN << >> ELSE << [name |-> "c1", ident |-> IdentOf(c.role, 1), rec |-> Var(c.status, c.var)] >>,
   steps |-> << c.stim >>]
=============================================================================

------------------------------ MODULE FSMTab ------------------------------
(* Tabulates the one-operation cases ("cells"): every status x pause flags x record variant x every  *)
(* public channel operation with representative arguments, for the four roles.  The real code is      *)
(* driven through each cell by harness/chanx and ChanJudge evaluates the observations.                *)
EXTENDS ChanOps, Json, SequencesExt

CONSTANTS OutFile, Roles, Variants, FlagSets

ZeroArgs == [delta |-> 0, index |-> 0, unique |-> FALSE, limit |-> 0, flag |-> FALSE, err |-> "", v |-> ""]

BusyRec(s) == [status |-> s, ip |-> FALSE, rp |-> FALSE, queued |-> 5, sent |-> 3, received |-> 4,
               qIdx |-> 3, sIdx |-> 2, rIdx |-> 3, limit |-> 7, reqFin |-> TRUE, msg |-> "m0",
               vouchers |-> <<"v0","v3">>, results |-> <<"r0","r3">>]
PreRec(s, ip, rp, var) == [(IF var = "zero" THEN ZeroRec(s) ELSE BusyRec(s)) EXCEPT !.ip = ip, !.rp = rp]

DataArgs == {[ZeroArgs EXCEPT !.delta = d[1], !.index = d[2], !.unique = d[3]] :
               d \in {<<2, 9, TRUE>>, <<3, 9, TRUE>>, <<2, 3, TRUE>>, <<2, 1, TRUE>>, <<2, 9, FALSE>>}}
ArgsOf(op) ==
  CASE op \in DataOps -> DataArgs
    [] op \in ErrOps -> {[ZeroArgs EXCEPT !.err = "e1"]}
    [] op = "NewVoucher" -> {[ZeroArgs EXCEPT !.v = "v4"]}
    [] op = "NewVoucherResult" -> {[ZeroArgs EXCEPT !.v = "r4"]}
    [] op = "SetDataLimit" -> {[ZeroArgs EXCEPT !.limit = 0], [ZeroArgs EXCEPT !.limit = 9]}
    [] op = "SetRequiresFinalization" -> {[ZeroArgs EXCEPT !.flag = TRUE], [ZeroArgs EXCEPT !.flag = FALSE]}
    [] OTHER -> {ZeroArgs}

(* roles: self is always "A"; the other party "B" *)
IdentOf(role) ==
  CASE role = "initPush" -> [self |-> "A", initiator |-> "A", responder |-> "B", sender |-> "A", recipient |-> "B", tid |-> 0, base |-> "base", sel |-> "s"]
    [] role = "initPull" -> [self |-> "A", initiator |-> "A", responder |-> "B", sender |-> "B", recipient |-> "A", tid |-> 0, base |-> "base", sel |-> "s"]
    [] role = "respPush" -> [self |-> "A", initiator |-> "B", responder |-> "A", sender |-> "B", recipient |-> "A", tid |-> 0, base |-> "base", sel |-> "s"]
    [] role = "respPull" -> [self |-> "A", initiator |-> "B", responder |-> "A", sender |-> "A", recipient |-> "B", tid |-> 0, base |-> "base", sel |-> "s"]

Cells == {[role |-> ro, rec |-> PreRec(s, f \in {"tf","tt"}, f \in {"ft","tt"}, var), op |-> op, args |-> a] :
            ro \in Roles, s \in Status, f \in FlagSets, var \in Variants, op \in Ops, a \in UNION {ArgsOf(o) : o \in Ops}}
Valid(c) == c.args \in ArgsOf(c.op)
CellSeq == SetToSeq({c \in Cells : Valid(c)})
CaseOf(n) == LET c == CellSeq[n] IN
   [case |-> "cell" \o ToString(n),
    chans |-> << [name |-> "c1", ident |-> [IdentOf(c.role) EXCEPT !.tid = n], rec |-> c.rec] >>,
    steps |-> << [c |-> "c1", op |-> c.op, args |-> c.args] >>]

ASSUME ndJsonSerialize(OutFile, [n \in 1..Len(CellSeq) |-> CaseOf(n)])
ASSUME PrintT(<<"@@cells", Len(CellSeq)>>)
=============================================================================

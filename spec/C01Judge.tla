----------------------------- MODULE C01Judge -----------------------------
(* C01 (and the two-party parts of C03/C07/C08) on observations of REAL two-node transfers (harness gsx):    *)
(* both managers' subscriber streams (merged by a global sequence number), final states, and a DAG walk of    *)
(* the receiver's actual block store taken (a) at the instant the initiator's subscriber sees Completed and   *)
(* (b) at quiescence.                                                                                          *)
EXTENDS FSM, Json, SequencesExt
CONSTANTS ObsFile, OutFile
Cases == ndJsonDeserialize(ObsFile)

HasEv(log, e) == \E i \in 1..Len(log) : log[i].ev = e
FirstIdx(log, P(_)) == IF \E i \in 1..Len(log) : P(log[i]) THEN CHOOSE i \in 1..Len(log) : P(log[i]) /\ \A j \in 1..(i-1) : ~P(log[j]) ELSE 0

Rules(c) ==
  LET I == c.i  R == c.r  fI == c.finalI  fR == c.finalR  s == c.scn
      accepted == HasEv(I, "Accept")
      iDone == fI.status = "Completed"
      senderQ == IF s.pull THEN fR.queued ELSE fI.queued
      recvR == IF s.pull THEN fI.received ELSE fR.received
      atDone == FirstIdx(I, LAMBDA e : e.status = "Completed")
      rOwnEnd == HasEv(R, "Cancel")                         \* the responder's application cancelled (no scenario does)
      bounced == s.bounceSide # ""
  IN
  (IF c.err = "" THEN {} ELSE {"harness"})
  \cup (IF (iDone /\ accepted) => (c.hasAll /\ c.bytesEqual /\ (atDone > 0 => (I[atDone].checked /\ I[atDone].hasAll))) THEN {} ELSE {"C01.receiverHoldsData"})
  \cup (IF (iDone /\ accepted /\ ~rOwnEnd) => (c.hasR /\ fR.status \in {"Completing","Completed"} /\ (c.quiesced => fR.status = "Completed")) THEN {} ELSE {"C01.responderSettles"})
  \cup (IF (iDone /\ accepted) => (HasEv(R, "Complete") \/ (HasEv(R, "BeginFinalizing") /\ HasEv(R, "ResumeResponder"))) THEN {} ELSE {"C01.sentFinalComplete"})
  \cup (IF (iDone /\ accepted /\ ~bounced) => (recvR = c.uniqueBytes /\ senderQ = c.uniqueBytes) THEN {} ELSE {"C01.totals"})
  \cup (IF (iDone /\ accepted /\ bounced) => (recvR = c.uniqueBytes /\ senderQ = c.uniqueBytes) THEN {} ELSE {"C01.totalsAfterRestart"})
  \cup (IF (iDone /\ ~accepted) => (s.pull /\ ~c.hasR) THEN {} ELSE {"C01.localOnly"})
  (* C03 at system level: the initiator turns Completing only after both signals were applied *)
  \cup (IF (iDone /\ accepted) => (HasEv(I, "FinishTransfer") /\ HasEv(I, "ResponderCompletes")) THEN {} ELSE {"C03.onlyBoth"})
  \cup (IF \A k \in 1..Len(R) : R[k].status = "Finalizing" => R[k].rp THEN {} ELSE {"C03.finalizingPaused"})
  (* C07/C08 at system level: totals monotone on both sides; no progress between a limit pause and the next SetDataLimit on the responder *)
  \cup (IF \A k \in 2..Len(I) : I[k].queued >= I[k-1].queued /\ I[k].received >= I[k-1].received /\ I[k].sent >= I[k-1].sent THEN {} ELSE {"C07.monotone"})
  \cup (IF \A k \in 2..Len(R) : R[k].queued >= R[k-1].queued /\ R[k].received >= R[k-1].received /\ R[k].sent >= R[k-1].sent THEN {} ELSE {"C07.monotone"})
  \cup (IF recvR <= c.uniqueBytes /\ senderQ <= c.uniqueBytes THEN {} ELSE {"C07.noDoubleCount"})
  (* C10 at system level: a restart never changes identity or loses recorded progress *)
  \cup (IF \A k \in 2..Len(I) : I[k].ev = "Restart" => (I[k].queued = I[k-1].queued /\ I[k].received = I[k-1].received) THEN {} ELSE {"C10.identity"})

Verdicts == UNION {{[case |-> Cases[n].case, i |-> 0, rule |-> r, status |-> Cases[n].finalI.status, op |-> IF Cases[n].scn.pull THEN "pull" ELSE "push"] : r \in Rules(Cases[n])} : n \in 1..Len(Cases)}
ASSUME ndJsonSerialize(OutFile, SetToSeq(Verdicts))
ASSUME PrintT(<<"@@judged", Len(Cases)>>)
=============================================================================

----------------------------- MODULE C06Judge -----------------------------
(* C06 on observations of harness chanx/TestCrash: a history is run on the real channel engine over a   *)
(* recording datastore; the store is reopened as of EVERY write boundary k.  For a channel c let j be   *)
(* the number of applied-event writes to c contained in image k.  Then a fresh engine must present       *)
(* exactly what was observable after the j-th applied event of c: the subscriber snapshot taken at that   *)
(* time (in memory, before encoding) must equal the accessor view after decoding from disk, field by      *)
(* field; the channels listed are exactly those created; a query answered during the run equals the       *)
(* image at that point; and a channel persisted while cleaning up finishes cleanup when restarted.        *)
EXTENDS ChanOps, Json, SequencesExt

CONSTANTS ObsFile, OutFile
Cases == ndJsonDeserialize(ObsFile)

Fields(v) == <<v.status, v.ip, v.rpView, v.both, v.selfPaused, v.queued, v.sent, v.received, v.qIdx, v.sIdx, v.rIdx, v.limit, v.reqFin, v.msg,
               v.vouchers, v.results, v.self, v.other, v.sender, v.recipient, v.chidI, v.chidR, v.chidT, v.tid, v.base, v.sel, v.isPull, v.first, v.lastV, v.lastR, v.stages>>
SeedFields(v) == <<v.status, v.ip, v.queued, v.sent, v.received, v.qIdx, v.sIdx, v.rIdx, v.limit, v.reqFin, v.msg, v.vouchers, v.results>>
RecFields2(r) == <<r.status, r.ip, r.queued, r.sent, r.received, r.qIdx, r.sIdx, r.rIdx, r.limit, r.reqFin, r.msg, r.vouchers, r.results>>
HistOf(c, chid) == c.hist[CHOOSE i \in 1..Len(c.hist) : c.hist[i].chid = chid]

ImageRules(c, im) ==
  (IF im.err = "" THEN {} ELSE {"C06.reopens"})
  \cup (IF im.listed = c.created THEN {} ELSE {"C06.listed"})
  \cup UNION {
        LET ic == im.chans[n]  hs == HistOf(c, ic.chid) IN
        (IF ic.j <= Len(hs.anns) THEN {} ELSE {"C06.prefix"})
        \cup (IF ic.j = 0 THEN (IF SeedFields(ic.view) = RecFields2(hs.seed) THEN {} ELSE {"C06.prefix"})
              ELSE IF ic.j <= Len(hs.anns) THEN (IF Fields(ic.view) = Fields(hs.anns[ic.j]) THEN {} ELSE {"C06.accessors"}) ELSE {})
        \cup (IF ic.view.panics = << >> THEN {} ELSE {"C06.accessors"})
        \cup (IF ic.raw.status \in Cleanup => (ic.resumed /\ ic.resumeStatus = TerminalOf(ic.raw.status) /\ ic.resumeClean = 1 /\ ic.resumeUnprot = 1)
              THEN {} ELSE {"C06.cleanupResumes"})
        : n \in 1..Len(im.chans)}

(* a state returned by a query (the post view of a step, obtained through GetByID) is already durable: it is what the image at that write count presents *)
QueryRules(c) ==
  UNION {LET st == c.steps[i]  k == c.stepW[i]
             im == c.images[k + 1]
             cands == {n \in 1..Len(im.chans) : im.chans[n].chid = st.c}
         IN IF st.err # "" THEN {"harness"}
            ELSE IF \A n \in cands : Fields(im.chans[n].view) = Fields(st.postView) THEN {} ELSE {"C06.durableQuery"}
         : i \in 1..Len(c.steps)}

CaseVerdicts(c) == {[case |-> c.case, i |-> im.k, rule |-> r, status |-> "", op |-> "image"] : im \in {c.images[x] : x \in 1..Len(c.images)}, r \in {"C06.reopens","C06.listed","C06.prefix","C06.accessors","C06.cleanupResumes"}}
Bad(c) == (IF c.createErr # "" THEN {[case |-> c.case, i |-> 0, rule |-> "C06.createdDurable", status |-> "", op |-> "create"]} ELSE {}) \cup UNION {{[case |-> c.case, i |-> c.images[x].k, rule |-> r, status |-> "", op |-> "image"] : r \in ImageRules(c, c.images[x])} : x \in 1..Len(c.images)}
          \cup {[case |-> c.case, i |-> 0, rule |-> r, status |-> "", op |-> "query"] : r \in QueryRules(c)}
Verdicts == UNION {Bad(Cases[n]) : n \in 1..Len(Cases)}
NImages == LET RECURSIVE Sum(_) Sum(n) == IF n = 0 THEN 0 ELSE Len(Cases[n].images) + Sum(n-1) IN Sum(Len(Cases))
ASSUME ndJsonSerialize(OutFile, SetToSeq(Verdicts))
ASSUME PrintT(<<"@@judged", Len(Cases)>>)
ASSUME PrintT(<<"@@images", NImages>>)
=============================================================================

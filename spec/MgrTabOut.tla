----------------------------- MODULE MgrTabOut -----------------------------
(* writes the case table of MgrTab to OutFile *)
EXTENDS MgrTab
ASSUME ndJsonSerialize(OutFile, [n \in 1..Len(CaseSeq) |-> CaseOf(n)])
ASSUME PrintT(<<"@@cells", Len(CaseSeq)>>)
=============================================================================

-------------------------------- MODULE Lock --------------------------------
(* Locking structure of the library for ONE channel, transcribed from the source: which locks / waits each  *)
(* code path takes and in which order.  Resources:                                                          *)
(*   chLk  : dtChannel.lk of the graphsync adapter (held by gsReqRecdHook across the call into the manager;  *)
(*           taken by CloseChannel / PauseChannel / ResumeChannel / CleanupChannel)                           *)
(*   stage : the channel's state machine is running a stage (busy) - GetByID (GetSync) waits for the queue   *)
(*           to drain, i.e. for every earlier event AND its cleanup handler                                   *)
(*   subLk : pubsub subscribersLk, read-held by the notifier while subscriber callbacks run                   *)
(*   mapLk : Transport.dtChannelsLk, the adapter's channel map: taken briefly by trackDTChannel (UseStore /   *)
(*           MaxLinks called by the manager from INSIDE the hook, i.e. under chLk) and by CleanupChannel to   *)
(*           delete the entry - which releases it BEFORE taking chLk.  CleanupHoldsMap = TRUE is the refuted   *)
(*           variant (map lock held across dtChannel.cleanup): lock order mapLk -> chLk against the hook's     *)
(*           chLk -> mapLk; NoMapCycle fails for it (cfg lock-map-neg) and holds for the code's order.         *)
(* Processes: the graphsync incoming-request hook (with a request / response / cancel message), an API       *)
(* caller, the network receiver (remote cancel), the FSM (plans events, runs the cleanup handler, which       *)
(* calls transport.CleanupChannel -> chLk), the notifier with a subscriber that calls back into the API.      *)
(* TLC's deadlock check finds states where processes wait on each other forever; EveryCallReturns is the      *)
(* liveness form.  Paths can be switched off (constants) to state the assumption under which none exists.     *)
EXTENDS Naturals, Sequences, FiniteSets, TLC

CONSTANTS HookMsgs,       \* subset of {"update","cancel","new"}: messages the hook may carry
          ApiCalls,       \* subset of {"close","pause","state"}
          RemoteCancel,   \* BOOLEAN: a cancel request may arrive over the network
          SubCalls,       \* subset of {"state","close"}: what the subscriber does inside the callback
          CleanupHoldsMap,\* BOOLEAN: refuted variant - CleanupChannel keeps the map lock while it takes the channel lock
          OpenPath        \* "off" | "async" | "sync": Transport.OpenChannel holds chLk across gs.Request and waits there for the outgoing-request hook
                          \* (which graphsync runs on its request loop) to report the request opened.  When the events handler REFUSES the request
                          \* the hook must release the channel: "async" = the code (tell the opener, release from another goroutine),
                          \* "sync" = the refuted variant (F17: CleanupChannel called from the hook itself -> chLk, held by the opener)

VARIABLES chLk, mapLk, q, busy, hpc, hook, api, net, notif, sub, status, opn
vars == <<chLk, mapLk, q, busy, hpc, hook, api, net, notif, sub, status, opn>>

Init == /\ chLk = "free" /\ mapLk = "free" /\ q = << >> /\ busy = FALSE /\ hpc = "idle"
        /\ hook = [pc |-> "idle", msg |-> "none"] /\ api = [pc |-> "idle", call |-> "none"]
        /\ net = "idle" /\ notif = 0 /\ sub = [pc |-> "idle", call |-> "none"] /\ status = "live"
        /\ opn = [pc |-> "idle", ohook |-> "idle", clean |-> "idle"]

Quiet == q = << >> /\ ~busy

(* ---- graphsync incoming request hook: lock ch.lk, call the manager, unlock ---- *)
HookStart(m) == /\ hook.pc = "idle" /\ m \in HookMsgs /\ chLk = "free"
                /\ chLk' = "hook" /\ hook' = [pc |-> "inMgr", msg |-> m]
                /\ UNCHANGED <<mapLk, q, busy, hpc, api, net, notif, sub, status, opn>>
(* update: Send(Pause/Resume) then GetByID (flush) ; new: events then GetByID ; cancel: transport.CleanupChannel (needs ch.lk!) then Cancel *)
HookSend == /\ hook.pc = "inMgr" /\ hook.msg \in {"update","new"}
            /\ (hook.msg = "new" => mapLk = "free")          \* ApplyOptions -> UseStore -> trackDTChannel: dtChannelsLk, under chLk
            /\ q' = Append(q, "evt") /\ hook' = [hook EXCEPT !.pc = "flush"]
            /\ UNCHANGED <<mapLk, chLk, busy, hpc, api, net, notif, sub, status, opn>>
HookFlush == /\ hook.pc = "flush" /\ Quiet
             /\ hook' = [hook EXCEPT !.pc = "unlock"]
             /\ UNCHANGED <<mapLk, chLk, q, busy, hpc, api, net, notif, sub, status, opn>>
HookCancelCleanup == /\ hook.pc = "inMgr" /\ hook.msg = "cancel" /\ chLk = "free"     \* never enabled: the hook itself holds chLk
                     /\ hook' = [hook EXCEPT !.pc = "unlock"]
                     /\ UNCHANGED <<mapLk, chLk, q, busy, hpc, api, net, notif, sub, status, opn>>
HookUnlock == /\ hook.pc = "unlock" /\ chLk' = "free" /\ hook' = [pc |-> "done", msg |-> hook.msg]
              /\ UNCHANGED <<mapLk, q, busy, hpc, api, net, notif, sub, status, opn>>

(* ---- API caller ---- *)
ApiStart(c) == /\ api.pc = "idle" /\ c \in ApiCalls /\ api' = [pc |-> "flush", call |-> c]
               /\ UNCHANGED <<mapLk, chLk, q, busy, hpc, hook, net, notif, sub, status, opn>>
ApiFlush == /\ api.pc = "flush" /\ Quiet            \* GetByID at the start of Close / ChannelState
            /\ api' = [api EXCEPT !.pc = IF api.call = "state" THEN "done" ELSE "lock"]
            /\ UNCHANGED <<mapLk, chLk, q, busy, hpc, hook, net, notif, sub, status, opn>>
ApiLock == /\ api.pc = "lock" /\ chLk = "free" /\ chLk' = "api" /\ api' = [api EXCEPT !.pc = "unlock"]
           /\ UNCHANGED <<mapLk, q, busy, hpc, hook, net, notif, sub, status, opn>>
ApiUnlock == /\ api.pc = "unlock" /\ chLk' = "free"
             /\ q' = IF api.call = "close" THEN Append(q, "cancel") ELSE Append(q, "evt")
             /\ api' = [api EXCEPT !.pc = "done"]
             /\ UNCHANGED <<mapLk, busy, hpc, hook, net, notif, sub, status, opn>>

(* ---- network receiver: cancel request -> transport.CleanupChannel (ch.lk) -> Cancel event ---- *)
NetCancelMap == /\ RemoteCancel /\ net = "idle" /\ mapLk = "free" /\ net' = "map"       \* CleanupChannel: delete the map entry under dtChannelsLk
                /\ mapLk' = IF CleanupHoldsMap THEN "net" ELSE "free"
                /\ UNCHANGED <<chLk, q, busy, hpc, hook, api, notif, sub, status, opn>>
NetCancelLock == /\ net = "map" /\ chLk = "free" /\ chLk' = "net" /\ net' = "held"
                 /\ UNCHANGED <<mapLk, q, busy, hpc, hook, api, notif, sub, status, opn>>
NetCancelSend == /\ net = "held" /\ chLk' = "free" /\ q' = Append(q, "cancel") /\ net' = "done"
                 /\ mapLk' = IF mapLk = "net" THEN "free" ELSE mapLk
                 /\ UNCHANGED <<busy, hpc, hook, api, notif, sub, status, opn>>

(* ---- the channel's state machine ---- *)
Plan == /\ ~busy /\ q # << >>
        /\ LET e == Head(q) IN
             /\ q' = Tail(q)
             /\ IF status = "done" THEN UNCHANGED <<mapLk, busy, hpc, status, notif>>
                ELSE /\ notif' = notif + 1
                     /\ IF e = "cancel" THEN busy' = TRUE /\ hpc' = "cleanup" /\ status' = "cleaning"
                        ELSE IF e = "cc" THEN status' = "done" /\ UNCHANGED <<mapLk, busy, hpc>>
                        ELSE UNCHANGED <<mapLk, busy, hpc, status, opn>>
        /\ UNCHANGED <<mapLk, chLk, hook, api, net, sub, opn>>
HandlerMap == /\ hpc = "cleanup" /\ mapLk = "free" /\ hpc' = "map"                          \* env.CleanupChannel -> transport.CleanupChannel: map entry
              /\ mapLk' = IF CleanupHoldsMap THEN "fsm" ELSE "free"
              /\ UNCHANGED <<chLk, q, busy, hook, api, net, notif, sub, status, opn>>
HandlerCleanup == /\ hpc = "map" /\ chLk = "free" /\ chLk' = "fsm" /\ hpc' = "held"         \* ... then dtChannel.cleanup -> ch.lk
                  /\ UNCHANGED <<mapLk, q, busy, hook, api, net, notif, sub, status, opn>>
HandlerDone == /\ hpc = "held" /\ chLk' = "free" /\ hpc' = "idle" /\ busy' = FALSE /\ q' = Append(q, "cc")
               /\ mapLk' = IF mapLk = "fsm" THEN "free" ELSE mapLk
               /\ UNCHANGED <<hook, api, net, notif, sub, status, opn>>

(* ---- Transport.OpenChannel and the outgoing-request hook ---- *)
(* opener: lock chLk, gs.Request (the hook runs while the opener waits), then "opened" -> unlock, or "refused" -> unlock with an error *)
OpenStart == /\ OpenPath # "off" /\ opn.pc = "idle" /\ chLk = "free" /\ chLk' = "open"
             /\ opn' = [opn EXCEPT !.pc = "inRequest", !.ohook = "handler"]
             /\ UNCHANGED <<mapLk, q, busy, hpc, hook, api, net, notif, sub, status>>
OutHookAccept == /\ opn.ohook = "handler" /\ opn' = [opn EXCEPT !.ohook = "done", !.pc = "opened"]          \* OnChannelOpened ok: gsReqOpened signals the opener
                 /\ UNCHANGED <<chLk, mapLk, q, busy, hpc, hook, api, net, notif, sub, status>>
OutHookRefuse == /\ opn.ohook = "handler"                                                                   \* OnChannelOpened returns an error
                 /\ opn' = IF OpenPath = "sync" THEN [opn EXCEPT !.ohook = "cleanupMap"]                     \* refuted: t.CleanupChannel(chid) from the hook
                            ELSE [opn EXCEPT !.ohook = "done", !.pc = "refused", !.clean = "map"]             \* code: tell the opener, go t.CleanupChannel(chid)
                 /\ UNCHANGED <<chLk, mapLk, q, busy, hpc, hook, api, net, notif, sub, status>>
OutHookCleanupMap == /\ opn.ohook = "cleanupMap" /\ mapLk = "free" /\ opn' = [opn EXCEPT !.ohook = "cleanupLock"]
                     /\ UNCHANGED <<chLk, mapLk, q, busy, hpc, hook, api, net, notif, sub, status>>
OutHookCleanupLock == /\ opn.ohook = "cleanupLock" /\ chLk = "free" /\ opn' = [opn EXCEPT !.ohook = "done"]   \* never enabled: the opener holds chLk and waits for this hook
                      /\ UNCHANGED <<chLk, mapLk, q, busy, hpc, hook, api, net, notif, sub, status>>
OpenReturn == /\ opn.pc \in {"opened", "refused"} /\ chLk' = "free" /\ opn' = [opn EXCEPT !.pc = "done"]
              /\ UNCHANGED <<mapLk, q, busy, hpc, hook, api, net, notif, sub, status>>
AsyncCleanupMap == /\ opn.clean = "map" /\ mapLk = "free" /\ opn' = [opn EXCEPT !.clean = "lock"]
                   /\ UNCHANGED <<chLk, mapLk, q, busy, hpc, hook, api, net, notif, sub, status>>
AsyncCleanupLock == /\ opn.clean = "lock" /\ chLk = "free" /\ opn' = [opn EXCEPT !.clean = "done"]            \* lock + unlock in one step
                    /\ UNCHANGED <<chLk, mapLk, q, busy, hpc, hook, api, net, notif, sub, status>>

(* ---- notifier + a subscriber that calls back into the API from inside the callback ---- *)
SubStart(c) == /\ notif > 0 /\ sub.pc = "idle" /\ c \in SubCalls /\ notif' = notif - 1 /\ sub' = [pc |-> "flush", call |-> c]
               /\ UNCHANGED <<mapLk, chLk, q, busy, hpc, hook, api, net, status, opn>>
SubSkip == /\ notif > 0 /\ sub.pc = "idle" /\ notif' = notif - 1 /\ UNCHANGED <<mapLk, chLk, q, busy, hpc, hook, api, net, sub, status, opn>>
SubFlush == /\ sub.pc = "flush" /\ Quiet
            /\ sub' = [sub EXCEPT !.pc = IF sub.call = "state" THEN "idle" ELSE "lock"]
            /\ UNCHANGED <<mapLk, chLk, q, busy, hpc, hook, api, net, notif, status, opn>>
SubLock == /\ sub.pc = "lock" /\ chLk = "free" /\ chLk' = "sub" /\ sub' = [sub EXCEPT !.pc = "unlock"]
           /\ UNCHANGED <<mapLk, q, busy, hpc, hook, api, net, notif, status, opn>>
SubUnlock == /\ sub.pc = "unlock" /\ chLk' = "free" /\ q' = Append(q, "cancel") /\ sub' = [pc |-> "idle", call |-> "none"]
             /\ UNCHANGED <<mapLk, busy, hpc, hook, api, net, notif, status, opn>>

Next == \/ \E m \in HookMsgs : HookStart(m)
        \/ HookSend \/ HookFlush \/ HookCancelCleanup \/ HookUnlock
        \/ \E c \in ApiCalls : ApiStart(c)
        \/ ApiFlush \/ ApiLock \/ ApiUnlock
        \/ NetCancelMap \/ NetCancelLock \/ NetCancelSend
        \/ Plan \/ HandlerMap \/ HandlerCleanup \/ HandlerDone
        \/ \E c \in SubCalls : SubStart(c)
        \/ SubSkip \/ SubFlush \/ SubLock \/ SubUnlock
        \/ OpenStart \/ OutHookAccept \/ OutHookRefuse \/ OutHookCleanupMap \/ OutHookCleanupLock \/ OpenReturn \/ AsyncCleanupMap \/ AsyncCleanupLock
Spec == Init /\ [][Next]_vars /\ WF_vars(Next)

(* lock-order cycle between the channel lock and the map lock: the hook (holding chLk) needs mapLk while a cleanup  *)
(* (holding mapLk) needs chLk.  Unreachable with the code's order (CleanupChannel drops mapLk first).              *)
NoMapCycle == ~(hook.pc = "inMgr" /\ hook.msg = "new" /\ chLk = "hook" /\ mapLk # "free")
Started == hook.pc \notin {"idle","done"} \/ api.pc \notin {"idle","done"} \/ net \in {"map", "held"} \/ sub.pc # "idle" \/ busy
           \/ opn.pc \notin {"idle","done"} \/ opn.ohook \notin {"idle","done"} \/ opn.clean \notin {"idle","done"}
(* a state in which some call has started and nothing can move = a deadlock of the library *)
NoStuckCall == Started => ENABLED Next
EveryCallReturns == /\ (hook.pc = "inMgr") ~> (hook.pc = "done")
                    /\ (api.pc = "flush") ~> (api.pc = "done")
                    /\ busy ~> ~busy
                    /\ (opn.pc = "inRequest") ~> (opn.pc = "done")
Bound == Len(q) <= 4 /\ notif <= 3
=============================================================================

-------------------------------- MODULE Lock --------------------------------
(* Locking structure of the library for ONE channel, transcribed from the source: which locks / waits each  *)
(* code path takes and in which order.  Resources:                                                          *)
(*   chLk  : dtChannel.lk of the graphsync adapter (held by gsReqRecdHook across the call into the manager;  *)
(*           taken by CloseChannel / PauseChannel / ResumeChannel / CleanupChannel)                           *)
(*   stage : the channel's state machine is running a stage (busy) - GetByID (GetSync) waits for the queue   *)
(*           to drain, i.e. for every earlier event AND its cleanup handler                                   *)
(*   subLk : pubsub subscribersLk, read-held by the notifier while subscriber callbacks run                   *)
(* Processes: the graphsync incoming-request hook (with a request / response / cancel message), an API       *)
(* caller, the network receiver (remote cancel), the FSM (plans events, runs the cleanup handler, which       *)
(* calls transport.CleanupChannel -> chLk), the notifier with a subscriber that calls back into the API.      *)
(* TLC's deadlock check finds states where processes wait on each other forever; EveryCallReturns is the      *)
(* liveness form.  Paths can be switched off (constants) to state the assumption under which none exists.     *)
EXTENDS Naturals, Sequences, FiniteSets, TLC

CONSTANTS HookMsgs,       \* subset of {"update","cancel","new"}: messages the hook may carry
          ApiCalls,       \* subset of {"close","pause","state"}
          RemoteCancel,   \* BOOLEAN: a cancel request may arrive over the network
          SubCalls        \* subset of {"state","close"}: what the subscriber does inside the callback

VARIABLES chLk, q, busy, hpc, hook, api, net, notif, sub, status
vars == <<chLk, q, busy, hpc, hook, api, net, notif, sub, status>>

Init == /\ chLk = "free" /\ q = << >> /\ busy = FALSE /\ hpc = "idle"
        /\ hook = [pc |-> "idle", msg |-> "none"] /\ api = [pc |-> "idle", call |-> "none"]
        /\ net = "idle" /\ notif = 0 /\ sub = [pc |-> "idle", call |-> "none"] /\ status = "live"

Quiet == q = << >> /\ ~busy

(* ---- graphsync incoming request hook: lock ch.lk, call the manager, unlock ---- *)
HookStart(m) == /\ hook.pc = "idle" /\ m \in HookMsgs /\ chLk = "free"
                /\ chLk' = "hook" /\ hook' = [pc |-> "inMgr", msg |-> m]
                /\ UNCHANGED <<q, busy, hpc, api, net, notif, sub, status>>
(* update: Send(Pause/Resume) then GetByID (flush) ; new: events then GetByID ; cancel: transport.CleanupChannel (needs ch.lk!) then Cancel *)
HookSend == /\ hook.pc = "inMgr" /\ hook.msg \in {"update","new"}
            /\ q' = Append(q, "evt") /\ hook' = [hook EXCEPT !.pc = "flush"]
            /\ UNCHANGED <<chLk, busy, hpc, api, net, notif, sub, status>>
HookFlush == /\ hook.pc = "flush" /\ Quiet
             /\ hook' = [hook EXCEPT !.pc = "unlock"]
             /\ UNCHANGED <<chLk, q, busy, hpc, api, net, notif, sub, status>>
HookCancelCleanup == /\ hook.pc = "inMgr" /\ hook.msg = "cancel" /\ chLk = "free"     \* never enabled: the hook itself holds chLk
                     /\ hook' = [hook EXCEPT !.pc = "unlock"]
                     /\ UNCHANGED <<chLk, q, busy, hpc, api, net, notif, sub, status>>
HookUnlock == /\ hook.pc = "unlock" /\ chLk' = "free" /\ hook' = [pc |-> "done", msg |-> hook.msg]
              /\ UNCHANGED <<q, busy, hpc, api, net, notif, sub, status>>

(* ---- API caller ---- *)
ApiStart(c) == /\ api.pc = "idle" /\ c \in ApiCalls /\ api' = [pc |-> "flush", call |-> c]
               /\ UNCHANGED <<chLk, q, busy, hpc, hook, net, notif, sub, status>>
ApiFlush == /\ api.pc = "flush" /\ Quiet            \* GetByID at the start of Close / ChannelState
            /\ api' = [api EXCEPT !.pc = IF api.call = "state" THEN "done" ELSE "lock"]
            /\ UNCHANGED <<chLk, q, busy, hpc, hook, net, notif, sub, status>>
ApiLock == /\ api.pc = "lock" /\ chLk = "free" /\ chLk' = "api" /\ api' = [api EXCEPT !.pc = "unlock"]
           /\ UNCHANGED <<q, busy, hpc, hook, net, notif, sub, status>>
ApiUnlock == /\ api.pc = "unlock" /\ chLk' = "free"
             /\ q' = IF api.call = "close" THEN Append(q, "cancel") ELSE Append(q, "evt")
             /\ api' = [api EXCEPT !.pc = "done"]
             /\ UNCHANGED <<busy, hpc, hook, net, notif, sub, status>>

(* ---- network receiver: cancel request -> transport.CleanupChannel (ch.lk) -> Cancel event ---- *)
NetCancelLock == /\ RemoteCancel /\ net = "idle" /\ chLk = "free" /\ chLk' = "net" /\ net' = "held"
                 /\ UNCHANGED <<q, busy, hpc, hook, api, notif, sub, status>>
NetCancelSend == /\ net = "held" /\ chLk' = "free" /\ q' = Append(q, "cancel") /\ net' = "done"
                 /\ UNCHANGED <<busy, hpc, hook, api, notif, sub, status>>

(* ---- the channel's state machine ---- *)
Plan == /\ ~busy /\ q # << >>
        /\ LET e == Head(q) IN
             /\ q' = Tail(q)
             /\ IF status = "done" THEN UNCHANGED <<busy, hpc, status, notif>>
                ELSE /\ notif' = notif + 1
                     /\ IF e = "cancel" THEN busy' = TRUE /\ hpc' = "cleanup" /\ status' = "cleaning"
                        ELSE IF e = "cc" THEN status' = "done" /\ UNCHANGED <<busy, hpc>>
                        ELSE UNCHANGED <<busy, hpc, status>>
        /\ UNCHANGED <<chLk, hook, api, net, sub>>
HandlerCleanup == /\ hpc = "cleanup" /\ chLk = "free" /\ chLk' = "fsm" /\ hpc' = "held"     \* env.CleanupChannel -> transport.CleanupChannel -> ch.lk
                  /\ UNCHANGED <<q, busy, hook, api, net, notif, sub, status>>
HandlerDone == /\ hpc = "held" /\ chLk' = "free" /\ hpc' = "idle" /\ busy' = FALSE /\ q' = Append(q, "cc")
               /\ UNCHANGED <<hook, api, net, notif, sub, status>>

(* ---- notifier + a subscriber that calls back into the API from inside the callback ---- *)
SubStart(c) == /\ notif > 0 /\ sub.pc = "idle" /\ c \in SubCalls /\ notif' = notif - 1 /\ sub' = [pc |-> "flush", call |-> c]
               /\ UNCHANGED <<chLk, q, busy, hpc, hook, api, net, status>>
SubSkip == /\ notif > 0 /\ sub.pc = "idle" /\ notif' = notif - 1 /\ UNCHANGED <<chLk, q, busy, hpc, hook, api, net, sub, status>>
SubFlush == /\ sub.pc = "flush" /\ Quiet
            /\ sub' = [sub EXCEPT !.pc = IF sub.call = "state" THEN "idle" ELSE "lock"]
            /\ UNCHANGED <<chLk, q, busy, hpc, hook, api, net, notif, status>>
SubLock == /\ sub.pc = "lock" /\ chLk = "free" /\ chLk' = "sub" /\ sub' = [sub EXCEPT !.pc = "unlock"]
           /\ UNCHANGED <<q, busy, hpc, hook, api, net, notif, status>>
SubUnlock == /\ sub.pc = "unlock" /\ chLk' = "free" /\ q' = Append(q, "cancel") /\ sub' = [pc |-> "idle", call |-> "none"]
             /\ UNCHANGED <<busy, hpc, hook, api, net, notif, status>>

Next == \/ \E m \in HookMsgs : HookStart(m)
        \/ HookSend \/ HookFlush \/ HookCancelCleanup \/ HookUnlock
        \/ \E c \in ApiCalls : ApiStart(c)
        \/ ApiFlush \/ ApiLock \/ ApiUnlock
        \/ NetCancelLock \/ NetCancelSend
        \/ Plan \/ HandlerCleanup \/ HandlerDone
        \/ \E c \in SubCalls : SubStart(c)
        \/ SubSkip \/ SubFlush \/ SubLock \/ SubUnlock
Spec == Init /\ [][Next]_vars /\ WF_vars(Next)

Started == hook.pc \notin {"idle","done"} \/ api.pc \notin {"idle","done"} \/ net = "held" \/ sub.pc # "idle" \/ busy
(* a state in which some call has started and nothing can move = a deadlock of the library *)
NoStuckCall == Started => ENABLED Next
EveryCallReturns == /\ (hook.pc = "inMgr") ~> (hook.pc = "done")
                    /\ (api.pc = "flush") ~> (api.pc = "done")
                    /\ busy ~> ~busy
Bound == Len(q) <= 4 /\ notif <= 3
=============================================================================

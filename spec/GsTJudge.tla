------------------------------ MODULE GsTJudge ------------------------------
(* Judge of observations recorded from the real transport/graphsync.Transport (harness gstx).             *)
(* Sequential replays (ObsFile): one case per line [case, steps: <<[a, ret, opret, out, gsc, hook, opts]>>];*)
(* the script is folded through GsTOps!Step to obtain the pre-state of every step (which request belongs    *)
(* to which channel, what the current request of a channel is, which stores should be registered), then     *)
(*   conf  : the real adapter's handler calls / graphsync calls / hook actions / result equal the model's   *)
(*           (reported as drift)                                                                             *)
(*   rules : the C16 formulas of GsTOps evaluated on the OBSERVED handler-call log, graphsync call log and  *)
(*           hook actions: C16.routed .silent .afterCleanup .wireOnly .currentReq .completedOnce .roleCheck  *)
(*           .storeLifetime, and separately C16.afterCleanup.consumer (suspect F11: executeGsRequest         *)
(*           reporting after CleanupChannel).                                                                *)
(* Storms (StormFile, may be empty): concurrent invocations with global sequence numbers; rules that are     *)
(* sound under concurrency (see StormRules).                                                                 *)
EXTENDS GsTOps, Json, SequencesExt

CONSTANTS ObsFile, StormFile, OutFile

Cases == ndJsonDeserialize(ObsFile)
Storms == ndJsonDeserialize(StormFile)

PO(o) == [call |-> o.call, c |-> o.c, x |-> o.x, n |-> o.n, src |-> o.src]
PG(g) == [call |-> g.call, r |-> g.r, c |-> g.c, x |-> g.x, n |-> g.n]
PH(h) == [a |-> h.a, c |-> h.c, x |-> h.x, n |-> h.n]
Outs(o) == [i \in 1..Len(o.out) |-> PO(o.out[i])]
Gscs(o) == [i \in 1..Len(o.gsc) |-> PG(o.gsc[i])]
Hooks(o) == [i \in 1..Len(o.hook) |-> PH(o.hook[i])]
RangeOf(q) == {q[i] : i \in 1..Len(q)}
SameBag(p, q) == Len(p) = Len(q) /\ \A x \in RangeOf(p) \cup RangeOf(q) :
                    Cardinality({i \in 1..Len(p) : p[i] = x}) = Cardinality({i \in 1..Len(q) : q[i] = x})

Conf(o, e) ==
  LET a == o.a
      eq(p, q) == IF a.op \in {"RecvErr", "Shutdown"} THEN SameBag(p, q) ELSE p = q IN
  /\ eq(Outs(o), e.out) /\ eq(Gscs(o), e.gsc) /\ Hooks(o) = e.hook
  /\ (o.ret = e.ret \/ (e.ret = "hang" /\ o.ret = "nil"))
  /\ o.opret = e.opret
  /\ RangeOf(o.opts) = e.s.opts

StepRules(s, o, want) ==
  LET a == o.a  out == Outs(o)  gsc == Gscs(o)  hook == Hooks(o) IN
     (IF Routed(s, a, out) THEN {} ELSE {"C16.routed"})
  \cup (IF Silent(s, a, out) THEN {} ELSE {"C16.silent"})
  \cup (IF AfterCleanup(s, a, out) THEN {} ELSE {"C16.afterCleanup"})
  \cup (IF AfterCleanupConsumer(s, a, out) THEN {} ELSE {"C16.afterCleanup.consumer"})
  \cup (IF WireOnly(s, a, out) THEN {} ELSE {"C16.wireOnly"})
  \cup (IF CurrentReq(s, a, gsc) THEN {} ELSE {"C16.currentReq"})
  \cup (IF CompletedOnce(s, a, out) THEN {} ELSE {"C16.completedOnce"})
  \cup (IF RoleCheck(s, a, out, hook) THEN {} ELSE {"C16.roleCheck"})
  \cup (IF StoreLifetime(want, RangeOf(o.opts), hook, a, s) THEN {} ELSE {"C16.storeLifetime"})

Row(cid, i, o, rule) == [case |-> cid, i |-> i, rule |-> rule, op |-> o.a.op, st |-> o.a.st, ext |-> o.a.ext, ret |-> o.ret]

RECURSIVE JudgeSteps(_, _, _, _, _)
JudgeSteps(cid, steps, i, s, want) ==
  IF i > Len(steps) THEN {}
  ELSE LET o == steps[i]  a == o.a IN
    IF o.err # "" THEN {Row(cid, i, o, "harness")}
    ELSE IF ~Enabled(s, a) THEN {Row(cid, i, o, "script")}
    ELSE
      LET e == Step(s, a)
          want2 == CASE a.op = "UseStore" -> want \cup {a.c} [] a.op = "Cleanup" -> want \ {a.c} [] OTHER -> want
          bad == (IF Conf(o, e) THEN {} ELSE {"conf"}) \cup StepRules(s, o, want2)
      IN {Row(cid, i, o, r) : r \in bad} \cup JudgeSteps(cid, steps, i + 1, e.s, want2)

SeqVerdicts == UNION {JudgeSteps(Cases[n].case, Cases[n].steps, 1, S0, {}) : n \in 1..Len(Cases)}

(* ---- storms ------------------------------------------------------------------------------------------------
   A storm = [case, invs: <<inv>>, out, gsc, hook] with one global sequence (seq) over invocation starts/ends and all
   logged calls.  inv = [id, a, t0, t1, ret, owner, pre] where
     owner = the channel the request a.r was created for (NoChid if never / not by a data-transfer request): static,
             request ids are never reused;
     pre   = for Transport methods, issued sequentially per channel by the channel's own goroutine together with every
             event that changes that channel's adapter state: [req, reqCancelled, tracked, store] expected by the
             generator's fold of GsTOps!Step over that channel's own events.
   Rules (sound for any interleaving):
     routed        handler calls of a lookup callback name owner; of InReq the implied id (authenticated peer)
     silent        callbacks for ids without owner, requests without/with malformed extension: no handler call
     afterCleanup  callback started after a Cleanup(owner) ended that started after the request's creation ended: silent
     wireOnly, completedOnce (at most one, none for cancelled, exactly one if the mapping certainly exists), roleCheck
     currentReq    Pause/Unpause/Cancel issued by a method name pre.req and are absent when there is none
     storeLifetime registered options at the end = channels with UseStore and no later Cleanup (per owner goroutine)   *)
OutOf(sm, id) == SelectSeq(sm.out, LAMBDA o : o.inv = id)
GscOf(sm, id) == SelectSeq(sm.gsc, LAMBDA g : g.inv = id)
HookOf(sm, id) == SelectSeq(sm.hook, LAMBDA h : h.inv = id)

CleanedBefore(sm, v) ==     \* a Cleanup of v's owner that lies entirely between the creation of v's request and v's start
  \E j \in 1..Len(sm.invs) : LET u == sm.invs[j] IN
      u.a.op = "Cleanup" /\ u.a.c = v.owner /\ u.t1 < v.t0 /\ v.born >= 0 /\ v.born < u.t0
CertainlyMapped(sm, v) ==   \* created before v started and no Cleanup of the owner started before v ended
  /\ v.owner # NoChid /\ v.born >= 0 /\ v.born < v.t0
  /\ ~\E j \in 1..Len(sm.invs) : sm.invs[j].a.op = "Cleanup" /\ sm.invs[j].a.c = v.owner /\ sm.invs[j].t0 < v.t1

StormInvRules(sm, v) ==
  LET a == v.a
      out == OutOf(sm, v.id)
      cbout == SelectSeq(out, LAMBDA o : o.src = "cb")
      gsc == GscOf(sm, v.id)
      hook == HookOf(sm, v.id)
      cs == {cbout[i].c : i \in 1..Len(cbout)}
      acts == SelectSeq(gsc, LAMBDA g : g.call \in {"Pause", "Unpause", "Cancel"}) IN
     (IF CASE a.op \in LookupOps -> cs \subseteq {v.owner} /\ (v.owner = NoChid => cbout = << >>)
           [] a.op = "InReq" -> (a.ext \in {"req", "resp"} => cs \subseteq {Implied(a.p, a.ext, a.tid)})
           [] a.op = "Open" -> cs \subseteq {a.c}
           [] a.op = "RecvErr" -> \A c \in cs : a.p \in {c.init, c.resp}
           [] OTHER -> cbout = << >>
      THEN {} ELSE {"C16.routed"})
  \cup (IF ((a.op \in LookupOps /\ v.owner = NoChid) \/ (a.op \in {"InReq", "OutReqHook"} /\ a.ext \in {"none", "malformed"})) => cbout = << >>
        THEN {} ELSE {"C16.silent"})
  \cup (IF (a.op \in LookupOps /\ v.owner # NoChid /\ CleanedBefore(sm, v)) => cbout = << >> THEN {} ELSE {"C16.afterCleanup"})
  \cup (IF (a.op \in {"OutBlock", "BlockSent"} /\ a.wire = 0) => cbout = << >> THEN {} ELSE {"C16.wireOnly"})
  \cup (IF a.op = "Completed" =>
             /\ (a.st = "cancelled" => cbout = << >>)
             /\ Len(cbout) <= 1
             /\ \A i \in 1..Len(cbout) : cbout[i].call = "OnChannelCompleted" /\ cbout[i].x = (IF a.st = "full" THEN "ok" ELSE "err")
             /\ ((a.st # "cancelled" /\ CertainlyMapped(sm, v) /\ v.ret # "nohook") => Len(cbout) = 1)
        THEN {} ELSE {"C16.completedOnce"})
  \cup (IF (a.op \in {"ReqUpdated", "InResp"} /\ v.owner # NoChid /\ a.ext \in {"req", "resp"} /\ Implied(a.p, a.ext, a.tid) # v.owner) => cbout = << >>
        THEN {} ELSE {"C16.roleCheck"})
  \cup (IF a.op \in {"Pause", "Resume", "Close", "Open"} =>
             LET want == CASE a.op = "Pause" -> "Pause" [] a.op = "Resume" -> "Unpause" [] OTHER -> "Cancel" IN
             /\ \A i \in 1..Len(acts) : acts[i].call = want /\ acts[i].r = v.pre.req /\ v.pre.tracked
             /\ ((v.pre.req = "none" \/ ~v.pre.tracked) => acts = << >>)
             /\ Len(acts) <= 1
        THEN {} ELSE {"C16.currentReq"})
  \cup (IF a.op \in Callbacks => acts = << >> THEN {} ELSE {"C16.currentReq"})

StormVerdicts(sm) ==
  UNION {{[case |-> sm.case, i |-> sm.invs[k].id, rule |-> r, op |-> sm.invs[k].a.op, st |-> sm.invs[k].a.st, ext |-> sm.invs[k].a.ext, ret |-> sm.invs[k].ret] :
             r \in StormInvRules(sm, sm.invs[k])} : k \in 1..Len(sm.invs)}
  \cup (IF RangeOf(sm.opts) = RangeOf(sm.wantOpts) THEN {} ELSE {[case |-> sm.case, i |-> 0, rule |-> "C16.storeLifetime", op |-> "end", st |-> "", ext |-> "", ret |-> ""]})
  \cup {[case |-> sm.case, i |-> sm.out[k].seq, rule |-> "C16.afterCleanup.consumer", op |-> "Consume", st |-> sm.out[k].call, ext |-> "", ret |-> ""] :
           k \in {j \in 1..Len(sm.out) : sm.out[j].src = "bg" /\ sm.out[j].late}}
  \cup (IF sm.err = "" THEN {} ELSE {[case |-> sm.case, i |-> 0, rule |-> "harness", op |-> "", st |-> "", ext |-> "", ret |-> sm.err]})

AllStormVerdicts == UNION {StormVerdicts(Storms[n]) : n \in 1..Len(Storms)}

ASSUME ndJsonSerialize(OutFile, SetToSeq(SeqVerdicts \cup AllStormVerdicts))
ASSUME PrintT(<<"@@judged", Len(Cases), Len(Storms)>>)
=============================================================================

------------------------------ MODULE GsTJudge ------------------------------
(* Judge of observations recorded from the real transport/graphsync.Transport (harness gstx).             *)
(* Sequential replays (ObsFile): one case per line [case, steps: <<[a, ret, opret, out, gsc, hook, opts]>>];*)
(* the script is folded through GsTOps!Step to obtain the pre-state of every step (which request belongs    *)
(* to which channel, what the current request of a channel is, which stores should be registered), then     *)
(*   conf  : the real adapter's handler calls / graphsync calls / hook actions / result equal the model's   *)
(*           (reported as drift)                                                                             *)
(*   rules : the C16 formulas of GsTOps evaluated on the OBSERVED handler-call log, graphsync call log and  *)
(*           hook actions: C16.routed .silent .afterCleanup .wireOnly .currentReq .completedOnce .roleCheck  *)
(*           .storeLifetime, and separately C16.afterCleanup.consumer (suspect F11: executeGsRequest         *)
(*           reporting after CleanupChannel).                                                                *)
(* Storms (StormFile, may be empty): concurrent invocations with global sequence numbers; rules that are     *)
(* sound under concurrency (see StormRules).                                                                 *)
EXTENDS GsTOps, Json, SequencesExt

CONSTANTS ObsFile, StormFile, OutFile

Cases == ndJsonDeserialize(ObsFile)
Storms == ndJsonDeserialize(StormFile)

PO(o) == [call |-> o.call, c |-> o.c, x |-> o.x, n |-> o.n, src |-> o.src]
PG(g) == [call |-> g.call, r |-> g.r, c |-> g.c, x |-> g.x, n |-> g.n]
PH(h) == [a |-> h.a, c |-> h.c, x |-> h.x, n |-> h.n]
Outs(o) == [i \in 1..Len(o.out) |-> PO(o.out[i])]
Gscs(o) == [i \in 1..Len(o.gsc) |-> PG(o.gsc[i])]
Hooks(o) == [i \in 1..Len(o.hook) |-> PH(o.hook[i])]
RangeOf(q) == {q[i] : i \in 1..Len(q)}
SameBag(p, q) == Len(p) = Len(q) /\ \A x \in RangeOf(p) \cup RangeOf(q) :
                    Cardinality({i \in 1..Len(p) : p[i] = x}) = Cardinality({i \in 1..Len(q) : q[i] = x})

Conf(o, e) ==
  LET a == o.a
      eq(p, q) == IF a.op \in {"RecvErr", "Shutdown"} THEN SameBag(p, q) ELSE p = q IN
  /\ eq(Outs(o), e.out) /\ eq(Gscs(o), e.gsc) /\ Hooks(o) = e.hook
  /\ (o.ret = e.ret \/ (e.ret = "hang" /\ o.ret = "nil"))
  /\ o.opret = e.opret
  /\ RangeOf(o.opts) = e.s.opts

StepRules(s, o, want) ==
  LET a == o.a  out == Outs(o)  gsc == Gscs(o)  hook == Hooks(o) IN
     (IF Routed(s, a, out) THEN {} ELSE {"C16.routed"})
  \cup (IF Silent(s, a, out) THEN {} ELSE {"C16.silent"})
  \cup (IF AfterCleanup(s, a, out) THEN {} ELSE {"C16.afterCleanup"})
  \cup (IF AfterCleanupConsumer(s, a, out) THEN {} ELSE {"C16.afterCleanup.consumer"})
  \cup (IF WireOnly(s, a, out) THEN {} ELSE {"C16.wireOnly"})
  \cup (IF CurrentReq(s, a, gsc) THEN {} ELSE {"C16.currentReq"})
  \cup (IF CompletedOnce(s, a, out) THEN {} ELSE {"C16.completedOnce"})
  \cup (IF RoleCheck(s, a, out, hook) THEN {} ELSE {"C16.roleCheck"})
  \cup (IF StoreLifetime(want, RangeOf(o.opts), hook, a, s) THEN {} ELSE {"C16.storeLifetime"})

Row(cid, i, o, rule) == [case |-> cid, i |-> i, rule |-> rule, op |-> o.a.op, st |-> o.a.st, ext |-> o.a.ext, ret |-> o.ret]

RECURSIVE JudgeSteps(_, _, _, _, _)
JudgeSteps(cid, steps, i, s, want) ==
  IF i > Len(steps) THEN {}
  ELSE LET o == steps[i]  a == o.a IN
    IF o.err # "" THEN {Row(cid, i, o, "harness")}
    ELSE IF ~Enabled(s, a) THEN {Row(cid, i, o, "script")}
    ELSE
      LET e == Step(s, a)
          want2 == CASE a.op = "UseStore" -> want \cup {a.c} [] a.op = "Cleanup" -> want \ {a.c} [] OTHER -> want
          bad == (IF Conf(o, e) THEN {} ELSE {"conf"}) \cup StepRules(s, o, want2)
      IN {Row(cid, i, o, r) : r \in bad} \cup JudgeSteps(cid, steps, i + 1, e.s, want2)

SeqVerdicts == UNION {JudgeSteps(Cases[n].case, Cases[n].steps, 1, S0, {}) : n \in 1..Len(Cases)}

(* ---- storms ------------------------------------------------------------------------------------------------
   A storm = [case, err, chans: <<[c, steps]>>, noise: <<inv>>, bg: <<handler call>>, opts] with one global sequence
   over invocation starts (t0) / ends (t1) and all logged calls (seq).
   chans[j].steps : the channel's OWN calls, issued sequentially by one goroutine: every Transport method on it, its
                    incoming requests, requester-cancelled notices and request ends - i.e. everything that changes the
                    adapter's state of that channel; request ids are local to the channel (the k-th is Pool[k]).  They are
                    judged exactly like a sequential replay (fold through Step, conf + all rules); OpenChannel on a live
                    request is one call here (the fake ends a cancelled request at once): StepX composes the model's steps.
   noise          : every other callback, from other goroutines, for request ids of all channels; inv = [id, a, t0, t1,
                    ret, owner, born, out, hook]: owner = channel the request was created for (NoChid: never created),
                    born = end of the creating step.  Rules that hold for every interleaving:
                      routed / silent / wireOnly / roleCheck / completedOnce as in GsTOps, with "mapped" weakened to
                      "certainly mapped" (created before the callback started, no Cleanup started before it ended);
                      afterCleanup: started after a Cleanup(owner) ended that began after the creation ended => silent.
   bg             : handler calls made on goroutines of the adapter (executeGsRequest): C16.afterCleanup.consumer when the
                    call comes after a Cleanup of its channel ended and no OpenChannel on it began since.               *)
EnvA(op, r, x) == [A0 EXCEPT !.op = op, !.r = r, !.cret = IF op = "CancelRet" THEN x ELSE "", !.st = IF op = "Consume" THEN x ELSE ""]
Cat(e, f) == [s |-> f.s, out |-> e.out \o f.out, gsc |-> e.gsc \o f.gsc, hook |-> e.hook \o f.hook,
              ret |-> IF f.opret # "" THEN f.opret ELSE e.ret, opret |-> ""]
RECURSIVE Settle(_, _)
Settle(e, n) ==
  LET o == e.s.opn IN
  IF ~o.active \/ n = 0 THEN e
  ELSE IF o.cret = "pending" /\ e.s.cons[o.creq].st = "run" THEN Settle(Cat(e, Step(e.s, EnvA("Consume", o.creq, "clientCancelled"))), n - 1)
  ELSE IF o.cret = "pending" THEN Settle(Cat(e, Step(e.s, EnvA("CancelRet", o.creq, "ok"))), n - 1)
  ELSE Settle(Cat(e, Step(e.s, EnvA("Tick", "", ""))), n - 1)
StepX(s, a) ==
  LET e == Step(s, a) IN
  IF a.op = "Open" /\ e.ret = "parked" THEN Settle(e, 4)
  ELSE IF a.op = "Close" /\ e.gsc # << >> /\ e.s.cons[e.gsc[1].r].st = "run"       \* the storm's fake ends a cancelled request at once
       THEN Cat(e, Step(e.s, EnvA("Consume", e.gsc[1].r, "clientCancelled")))
  ELSE e

NoMode(q) == [i \in 1..Len(q) |-> IF q[i].call = "Cancel" THEN [q[i] EXCEPT !.x = ""] ELSE q[i]]   \* how the fake answers gs.Cancel
ConfX(o, e) ==
  /\ Outs(o) = CbOut(e.out) /\ NoMode(Gscs(o)) = NoMode(e.gsc) /\ Hooks(o) = e.hook
  /\ (o.ret = e.ret \/ (e.ret = "hang" /\ o.ret = "nil"))
  /\ RangeOf(o.opts) = e.s.opts

RECURSIVE JudgeChan(_, _, _, _, _)
JudgeChan(cid, steps, i, s, want) ==
  IF i > Len(steps) THEN {}
  ELSE LET o == steps[i]  a == o.a IN
    IF ~Enabled(s, a)
    THEN (IF o.ret = "noreq" THEN {} ELSE {Row(cid, o.id, o, "conf")})      \* ending a request that is not running: no-op; running although the model says not: drift
         \cup JudgeChan(cid, steps, i + 1, s, want)
    ELSE
      LET e == StepX(s, a)
          want2 == CASE a.op = "UseStore" -> want \cup {a.c} [] a.op = "Cleanup" -> want \ {a.c} [] OTHER -> want
          bad == (IF ConfX(o, e) THEN {} ELSE {"conf"}) \cup (StepRules(s, o, want2) \ {"C16.afterCleanup.consumer"})
      IN {Row(cid, o.id, o, r) : r \in bad} \cup JudgeChan(cid, steps, i + 1, e.s, want2)

OwnSteps(sm) == UNION {{sm.chans[j].steps[k] : k \in 1..Len(sm.chans[j].steps)} : j \in 1..Len(sm.chans)}
Cleanups(sm, c) == {u \in OwnSteps(sm) : u.a.op = "Cleanup" /\ u.a.c = c}
Opens(sm, c) == {u \in OwnSteps(sm) : u.a.op = "Open" /\ u.a.c = c}

CleanedBefore(sm, v) == \E u \in Cleanups(sm, v.owner) : u.t1 < v.t0 /\ v.born >= 0 /\ v.born < u.t0
CertainlyMapped(sm, v) == /\ v.owner # NoChid /\ v.born >= 0 /\ v.born < v.t0
                          /\ ~\E u \in Cleanups(sm, v.owner) : u.t0 < v.t1

NoiseRules(sm, v) ==
  LET a == v.a
      out == Outs(v)
      hook == Hooks(v)
      cs == {out[i].c : i \in 1..Len(out)} IN
     (IF CASE a.op \in LookupOps -> cs \subseteq {v.owner} /\ (v.owner = NoChid => out = << >>)
           [] a.op = "RecvErr" -> \A c \in cs : a.p \in {c.init, c.resp}
           [] OTHER -> out = << >>
      THEN {} ELSE {"C16.routed"})
  \cup (IF ((a.op \in LookupOps /\ v.owner = NoChid) \/ (a.op \in {"InReq", "OutReqHook"} /\ a.ext \in {"none", "malformed"})) => out = << >>
        THEN {} ELSE {"C16.silent"})
  \cup (IF (a.op \in LookupOps /\ v.owner # NoChid /\ CleanedBefore(sm, v)) => out = << >> THEN {} ELSE {"C16.afterCleanup"})
  \cup (IF (a.op \in {"OutBlock", "BlockSent"} /\ a.wire = 0) => out = << >> THEN {} ELSE {"C16.wireOnly"})
  \cup (IF a.op = "Completed" =>
             /\ (a.st = "cancelled" => out = << >>)
             /\ Len(out) <= 1
             /\ \A i \in 1..Len(out) : out[i].call = "OnChannelCompleted" /\ out[i].x = (IF a.st = "full" THEN "ok" ELSE "err")
             /\ ((a.st # "cancelled" /\ CertainlyMapped(sm, v) /\ v.ret # "nohook") => Len(out) = 1)
        THEN {} ELSE {"C16.completedOnce"})
  \cup (IF (a.op \in {"ReqUpdated", "InResp"} /\ v.owner # NoChid /\ a.ext \in {"req", "resp"} /\ Implied(a.p, a.ext, a.tid) # v.owner) => out = << >>
        THEN {} ELSE {"C16.roleCheck"})
  \cup (IF v.gsc = << >> THEN {} ELSE {"C16.currentReq"})

LateBg(sm, o) == \E u \in Cleanups(sm, o.c) : u.t1 < o.seq /\ ~\E w \in Opens(sm, o.c) : w.t0 > u.t1 /\ w.t0 < o.seq

StormVerdicts(sm) ==
  IF sm.err # "" THEN {[case |-> sm.case, i |-> 0, rule |-> "harness", op |-> "", st |-> "", ext |-> "", ret |-> sm.err]}
  ELSE
       UNION {JudgeChan(sm.case, sm.chans[j].steps, 1, S0, {}) : j \in 1..Len(sm.chans)}
  \cup UNION {{Row(sm.case, sm.noise[k].id, sm.noise[k], r) : r \in NoiseRules(sm, sm.noise[k])} : k \in 1..Len(sm.noise)}
  \cup {[case |-> sm.case, i |-> sm.bg[k].seq, rule |-> "C16.afterCleanup.consumer", op |-> "Consume", st |-> sm.bg[k].call, ext |-> "", ret |-> ""] :
           k \in {j \in 1..Len(sm.bg) : LateBg(sm, sm.bg[j])}}

AllStormVerdicts == UNION {StormVerdicts(Storms[n]) : n \in 1..Len(Storms)}

ASSUME ndJsonSerialize(OutFile, SetToSeq(SeqVerdicts \cup AllStormVerdicts))
ASSUME PrintT(<<"@@judged", Len(Cases), Len(Storms)>>)
=============================================================================

-------------------------------- MODULE GsT --------------------------------
(* The graphsync transport adapter as a state machine over GsTOps!Step, for                              *)
(*  (a) exhaustive model checking of the C16 formulas (cfg gst-*.cfg; `last`/`hist` are outside the VIEW,  *)
(*      the formulas are action properties over the pre-state and the outputs of the step),               *)
(*  (b) generation of behaviours for replay on the real adapter (-simulate, Dump prints "@@case"),         *)
(*  (c) the model-level search for the consumer-after-cleanup behaviour F11 (CexConsumer prints "@@cex").  *)
(* State (st): dt[c] = [tracked, isOpen, req, reqCancelled, xferStarted, pending, store, compReq],         *)
(* rm[r] = [c, sending] (requestIDToChannelID), cons[r] (consumer goroutine of an outgoing request),        *)
(* opts (registered persistence options), paused, nreq, opn (a parked OpenChannel), shut.                  *)
(* `last` = the outputs of the last step: EventsHandler calls (out), GraphExchange calls (gsc), hook actions.*)
EXTENDS GsTOps, Json

CONSTANTS OutKind, OutTid,   \* the channel we request data on: "pull" -> (S,P,OutTid) | "push" -> (P,S,OutTid)
          InKind, InTid,     \* the channel we serve data on:   "pull" -> (P,S,InTid)  | "push" -> (S,P,InTid)
          MaxReq,            \* bound on graphsync requests in total (<= 4)
          MaxPend,           \* bound on queued resume messages
          Ops,               \* operations to draw from
          InPeers,           \* authenticated peers of updates / responses / network errors
          ReqPeers,          \* authenticated peers of incoming requests (each one adds two possible channels)
          ReqTids,           \* transfer ids carried by incoming requests
          UpdTids,           \* transfer ids carried by request updates / responses
          AllH,              \* BOOLEAN: every (handler result, handler message) pair, or three representative ones
          Exts, Slots, HRets, HMsgs, Ks, KNil, Ms, CRets, LastErrs, Stats,   \* KNil: OpenChannel without channel state (k = -1)
          Pick,              \* BOOLEAN (simulation only): draw ONE random parameter tuple per step instead of enumerating all
          Record,            \* BOOLEAN: keep the script in hist
          Len0               \* behaviours of this length are printed (simulation), 0 = never

VARIABLES st, stored, last, hist, done
vars == <<st, stored, last, hist, done>>
View == <<[st EXCEPT !.paused = {}], stored, done>>       \* nothing reads the paused set

HPs == {hm \in HRets \X HMsgs : AllH \/ ((hm[1] = "err") = (hm[2] = "resp"))}
HPL == {hm \in HPs : AllH \/ hm[1] # "pause"}      \* for callbacks on which a handler's ErrPause only selects a hook action

C1 == IF OutKind = "pull" THEN Chid(Self, "P", OutTid) ELSE Chid("P", Self, OutTid)
C2 == IF InKind = "pull" THEN Chid("P", Self, InTid) ELSE Chid(Self, "P", InTid)

Last0 == [a |-> A0, out |-> << >>, gsc |-> << >>, hook |-> << >>, ret |-> "", opret |-> ""]
Init == st = S0 /\ stored = {} /\ last = Last0 /\ hist = << >> /\ done = FALSE

Targets == {C1, C2} \cup {c \in AllChids : st.dt[c].tracked}
Known == {Pool[i] : i \in 1..st.nreq} \cup {"rX"}

ActsOf(op) ==
  CASE op = "Open" -> {[A0 EXCEPT !.op = op, !.c = C1, !.k = k, !.cret = "gate"] : k \in Ks \cup (IF KNil THEN {-1} ELSE {})}
    [] op = "Close" -> {[A0 EXCEPT !.op = op, !.c = c, !.cret = x] : c \in Targets, x \in CRets}
    [] op \in {"Pause", "Cleanup"} -> {[A0 EXCEPT !.op = op, !.c = c] : c \in Targets}
    [] op = "Resume" -> {[A0 EXCEPT !.op = op, !.c = c, !.m = m] : c \in {t \in Targets : Len(st.dt[t].pending) < MaxPend}, m \in Ms}
    [] op = "UseStore" -> {[A0 EXCEPT !.op = op, !.c = c] : c \in {C1, C2}}
    [] op = "Shutdown" -> {[A0 EXCEPT !.op = op]}
    [] op = "CancelRet" -> {[A0 EXCEPT !.op = op, !.r = st.opn.creq, !.cret = x] : x \in CRets}
    [] op = "Tick" -> {[A0 EXCEPT !.op = op]}
    [] op = "Consume" -> {[A0 EXCEPT !.op = op, !.r = r, !.st = e] : r \in PoolSet, e \in LastErrs}
    [] op = "OutReqHook" -> {[A0 EXCEPT !.op = op, !.p = "P", !.r = "rX", !.ext = x] : x \in {"none", "malformed"} \cap Exts}
    [] op = "InReq" -> {[A0 EXCEPT !.op = op, !.p = p, !.r = IF st.nreq < Len(Pool) THEN NextReq(st) ELSE "rX", !.ext = x, !.tid = t, !.hret = hm[1], !.hmsg = hm[2]] :
                           p \in ReqPeers, x \in {"req", "resp"} \cap Exts, t \in ReqTids, hm \in HPs}
                       \cup {[A0 EXCEPT !.op = op, !.p = "P", !.r = "rX", !.ext = x] : x \in {"none", "malformed"} \cap Exts}
    [] op = "Processing" -> {[A0 EXCEPT !.op = op, !.p = "P", !.r = r, !.slot = x] : r \in Known, x \in {"in", "out"}}
    [] op = "InBlock" -> {[A0 EXCEPT !.op = op, !.p = "P", !.r = r, !.wire = w, !.hret = h] : r \in Known, w \in {0, 5}, h \in {hm[1] : hm \in HPL}}
    [] op = "OutBlock" -> {[A0 EXCEPT !.op = op, !.p = "P", !.r = r, !.wire = w, !.hret = hm[1], !.hmsg = hm[2]] : r \in Known, w \in {0, 5}, hm \in HPL}
    [] op = "BlockSent" -> {[A0 EXCEPT !.op = op, !.p = "P", !.r = r, !.wire = w] : r \in Known, w \in {0, 5}}
    [] op = "Completed" -> {[A0 EXCEPT !.op = op, !.p = "P", !.r = r, !.st = x] : r \in Known, x \in Stats}
    [] op = "ReqUpdated" -> {[A0 EXCEPT !.op = op, !.p = p, !.r = r, !.ext = x, !.tid = t, !.hret = hm[1], !.hmsg = hm[2]] :
                               p \in InPeers, r \in Known, x \in Exts, t \in UpdTids, hm \in HPL}
    [] op = "InResp" -> {[A0 EXCEPT !.op = op, !.p = p, !.r = r, !.ext = x, !.tid = t, !.slot = sl, !.hret = hm[1], !.hmsg = hm[2]] :
                               p \in InPeers, r \in Known, x \in Exts, t \in UpdTids, sl \in Slots, hm \in HPL}
    [] op \in {"ReqCancelled", "SendErr"} -> {[A0 EXCEPT !.op = op, !.p = "P", !.r = r] : r \in Known}
    [] op = "RecvErr" -> {[A0 EXCEPT !.op = op, !.p = p] : p \in InPeers}

Do(a) ==
  /\ ~done /\ Enabled(st, a)
  /\ (a.op \in {"Open", "InReq"} /\ a.r \in PoolSet \cup {""} => st.nreq < MaxReq)
  /\ (Len0 > 0 => Len(hist) < Len0)
  /\ LET e == Step(st, a) IN
       /\ st' = e.s
       /\ last' = [a |-> a, out |-> e.out, gsc |-> e.gsc, hook |-> e.hook, ret |-> e.ret, opret |-> e.opret]
       /\ stored' = CASE a.op = "UseStore" -> stored \cup {a.c} [] a.op = "Cleanup" -> stored \ {a.c} [] OTHER -> stored
  /\ hist' = IF Record THEN Append(hist, a) ELSE hist
  /\ UNCHANGED done

Act(op) == /\ op \in Ops
           /\ IF Pick THEN ActsOf(op) # {} /\ (\E a \in {RandomElement(ActsOf(op))} : Do(a))
              ELSE \E a \in ActsOf(op) : Do(a)

Dump == /\ ~done /\ Len0 > 0 /\ Len(hist) = Len0
        /\ PrintT(<<"@@case", ToJson([c1 |-> C1, c2 |-> C2, steps |-> hist])>>)
        /\ done' = TRUE /\ UNCHANGED <<st, stored, last, hist>>

Next == \/ Act("Open") \/ Act("Close") \/ Act("Pause") \/ Act("Resume") \/ Act("Cleanup") \/ Act("UseStore") \/ Act("Shutdown")
        \/ Act("CancelRet") \/ Act("Tick") \/ Act("Consume")
        \/ Act("OutReqHook") \/ Act("InReq") \/ Act("Processing") \/ Act("InBlock") \/ Act("OutBlock") \/ Act("BlockSent")
        \/ Act("Completed") \/ Act("ReqUpdated") \/ Act("InResp") \/ Act("ReqCancelled") \/ Act("SendErr") \/ Act("RecvErr")
        \/ Dump
Spec == Init /\ [][Next]_vars

(* ---- properties (C16 "F.") ----------------------------------------------------------------------------- *)
TypeOK == /\ st.nreq \in 0..Len(Pool)
          /\ \A r \in PoolSet : st.rm[r].c # NoChid => st.dt[st.rm[r].c].tracked     \* no mapping outlives its channel
          /\ \A c \in AllChids : st.dt[c].req # "none" => st.dt[c].tracked
          /\ \A c \in AllChids : Len(st.dt[c].pending) <= MaxPend

C16_Routed        == [][Routed(st, last'.a, last'.out)]_vars
C16_Silent        == [][Silent(st, last'.a, last'.out)]_vars
C16_AfterCleanup  == [][AfterCleanup(st, last'.a, last'.out)]_vars
C16_WireOnly      == [][WireOnly(st, last'.a, last'.out)]_vars
C16_CurrentReq    == [][CurrentReq(st, last'.a, last'.gsc)]_vars
C16_CompletedOnce == [][CompletedOnce(st, last'.a, last'.out)]_vars
C16_RoleCheck     == [][RoleCheck(st, last'.a, last'.out, last'.hook)]_vars
C16_StoreLifetime == [][StoreLifetime(stored', st'.opts, last'.hook, last'.a, st)]_vars
(* mappings die with their channel: after Cleanup(c) nothing refers to c *)
C16_MapCleared == [][last'.a.op = "Cleanup" => \A r \in PoolSet : st'.rm[r].c # last'.a.c]_vars
(* C10 (GsT part) *)
C10_CancelFirst == [][\A i \in 1..Len(last'.gsc) : last'.gsc[i].call = "Request" =>
                        (last'.a.op = "Open" => st.dt[last'.a.c].req = "none" \/ st.dt[last'.a.c].reqCancelled)
                        /\ (last'.a.op # "Open" => st.opn.active /\ (st.opn.cret # "pending" \/ last'.a.op = "CancelRet")
                                                       /\ (last'.a.op \in {"Tick", "Consume"} \/ st.opn.pc = "werr"
                                                           \/ (st.opn.comp # "none" /\ st.cons[st.opn.comp].st = "done")))]_vars
C10_PendingOnce == [][(last'.a.op = "InReq" /\ ~st.shut /\ last'.a.ext \in {"req", "resp"} /\ last'.a.hret # "err") =>
                        LET c == Implied(last'.a.p, last'.a.ext, last'.a.tid)
                            sent == SelectSeq(last'.hook, LAMBDA h : h.a = "SendExtensionData" /\ h.x = "dt" /\ h.n # RespN) IN
                        /\ st'.dt[c].pending = << >> \/ ~st.dt[c].reqCancelled
                        /\ st.dt[c].reqCancelled => [i \in 1..Len(sent) |-> sent[i].n] = st.dt[c].pending
                        /\ ~st.dt[c].reqCancelled => sent = << >>]_vars
(* F11 at model level: the consumer of an outgoing request reports for a channel whose mapping is gone.      *)
(* Expected to be violated; the printed script is replayed on the real adapter.                              *)
CexConsumer == [][AfterCleanupConsumer(st, last'.a, last'.out) \/ (PrintT(<<"@@cex", ToJson([c1 |-> C1, c2 |-> C2, steps |-> hist'])>>) /\ FALSE)]_vars
=============================================================================

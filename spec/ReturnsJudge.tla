---------------------------- MODULE ReturnsJudge ----------------------------
(* "Every call returns": observations [case, rule, returned, ...] of calls issued on the real code under a real-time      *)
(* watchdog (library mutexes are involved, so not in a synctest bubble).  A call that had not returned when the watchdog  *)
(* fired violates the rule the harness names for it (C20.everyCallReturns, C09.closeReturns, ...).                         *)
EXTENDS Naturals, Sequences, FiniteSets, TLC, Json, SequencesExt
CONSTANTS ObsFile, OutFile
Cases == ndJsonDeserialize(ObsFile)
Verdicts == {[case |-> Cases[i].case, rule |-> IF Cases[i].err # "" THEN "harness" ELSE Cases[i].rule, i |-> i, status |-> "", op |-> Cases[i].scenario]
               : i \in {j \in 1..Len(Cases) : Cases[j].err # "" \/ ~Cases[j].returned}}
ASSUME ndJsonSerialize(OutFile, SetToSeq(Verdicts))
ASSUME PrintT(<<"@@judged", Len(Cases)>>)
=============================================================================

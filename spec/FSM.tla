------------------------------- MODULE FSM -------------------------------
(* Vocabulary of go-data-transfer and the channel state machine's transition relation   *)
(* (channels/channels_fsm.go + go-statemachine/fsm planner) as constant-level operators. *)
(* Everything here is a pure function, so TLC can tabulate it and the real code can be   *)
(* compared with it cell by cell; the stateful modules (Chan, Mgr, Sys, ...) EXTEND it.   *)
EXTENDS Naturals, Sequences, FiniteSets, TLC

Status == {"Requested","Ongoing","TransferFinished","ResponderCompleted","Finalizing","Completing",
           "Completed","Failing","Failed","Cancelling","Cancelled","InitiatorPaused","ResponderPaused",
           "BothPaused","ResponderFinalizing","ResponderFinalizingTransferFinished","ChannelNotFoundError",
           "Queued","AwaitingAcceptance"}

Terminal      == {"Completed","Failed","Cancelled"}                 \* ChannelFinalityStates
Cleanup       == {"Cancelling","Failing","Completing"}              \* states with an entry func
TerminalOf(s) == CASE s = "Cancelling" -> "Cancelled" [] s = "Failing" -> "Failed" [] s = "Completing" -> "Completed" [] OTHER -> s
NotAccepted   == {"Requested","AwaitingAcceptance","Cancelled","Cancelling","Failed","Failing","ChannelNotFoundError"}
InFinalization == {"Finalizing","Completed","Completing"}
TransferComplete == {"TransferFinished","ResponderFinalizingTransferFinished","Finalizing","Completed","Completing",
                     "Failing","Failed","Cancelling","Cancelled","ChannelNotFoundError"}
Transferring  == {"Ongoing","ResponderCompleted","ResponderFinalizing","AwaitingAcceptance"}
PauseStates   == {"Ongoing","Requested","Queued","AwaitingAcceptance"}
Deprecated    == {"InitiatorPaused","ResponderPaused","BothPaused","ChannelNotFoundError"}

Event == {"Open","Accept","Restart","DataReceived","DataSent","Cancel","Error","CleanupComplete","NewVoucher",
          "NewVoucherResult","PauseInitiator","ResumeInitiator","PauseResponder","ResumeResponder","FinishTransfer",
          "ResponderCompletes","ResponderBeginsFinalization","BeginFinalizing","Disconnected","Complete",
          "CompleteCleanupOnRestart","DataQueued","DataQueuedProgress","DataSentProgress","DataReceivedProgress",
          "RequestTimedOut","SendDataError","ReceiveDataError","TransferRequestQueued","RequestCancelled","Opened",
          "SetDataLimit","SetRequiresFinalization","DataLimitExceeded","TransferInitiated","SendMessageError"}

NoRowEvents   == {"RequestTimedOut","TransferRequestQueued","SendMessageError"}
ErrNotice     == {"Disconnected","SendDataError","ReceiveDataError","RequestCancelled"}
IndexEvents   == {"DataReceived","DataSent","DataQueued"}
ProgressEvents== {"DataReceivedProgress","DataSentProgress","DataQueuedProgress"}
PauseEvents   == {"PauseInitiator","ResumeInitiator","PauseResponder","ResumeResponder","DataLimitExceeded"}
(* C03's classes. Bookkeeping = "data, pause, voucher, limit, network-error notices"; the one pause *)
(* event that is also a lifecycle step is ResumeResponder out of Finalizing.                        *)
BookkeepingEvents == IndexEvents \cup ProgressEvents \cup PauseEvents \cup ErrNotice
                     \cup {"NewVoucher","NewVoucherResult","SetDataLimit","SetRequiresFinalization"}
LifecycleEvents == {"Open","Accept","TransferInitiated","Restart","Opened","Cancel","FinishTransfer",
                    "ResponderBeginsFinalization","ResponderCompletes","BeginFinalizing","Complete",
                    "CleanupComplete","CompleteCleanupOnRestart"}
ArgKind(e) == CASE e \in IndexEvents -> "idx" [] e \in ProgressEvents -> "delta" [] e = "SetDataLimit" -> "limit"
                [] e = "SetRequiresFinalization" -> "bool" [] e \in ErrNotice \cup {"Error"} -> "err"
                [] e = "NewVoucher" -> "voucher" [] e = "NewVoucherResult" -> "result" [] OTHER -> "none"

(* Dest(e,s): a status = move there (its entry func runs if it has one); "NC" = stay and re-run   *)
(* the entry func (ToNoChange); "REC" = stay, no entry func (ToJustRecord); "INV" = no row: the  *)
(* event is logged and dropped, not applied, not announced. A specific From overrides FromAny.   *)
Dest(e, s) ==
  CASE e = "Open"   -> IF s \in Cleanup THEN "REC" ELSE "Requested"
    [] e = "Accept" -> IF s = "Requested" THEN "Queued" ELSE IF s = "AwaitingAcceptance" THEN "Ongoing" ELSE "INV"
    [] e = "TransferInitiated" -> IF s = "Requested" THEN "AwaitingAcceptance" ELSE IF s = "Queued" THEN "Ongoing"
                                  ELSE IF s = "Ongoing" THEN "REC" ELSE "INV"
    [] e \in {"Restart","Opened","SetDataLimit","SetRequiresFinalization"} -> "REC"
    [] e = "Cancel" -> "Cancelling"
    [] e = "Error"  -> "Failing"
    [] e = "DataReceived" -> "REC"
    [] e \in ProgressEvents -> IF s \in Transferring THEN "NC" ELSE "INV"
    [] e \in {"DataSent","DataQueued"} -> IF s \in Transferring \cup {"TransferFinished"} THEN "NC" ELSE "INV"
    [] e \in ErrNotice -> "REC"
    [] e \in {"NewVoucher","NewVoucherResult"} -> "REC"
    [] e = "CompleteCleanupOnRestart" -> "NC"
    [] e = "PauseInitiator" -> IF s \in PauseStates THEN "REC" ELSE "INV"
    [] e = "PauseResponder" -> IF s \in PauseStates \cup {"TransferFinished"} THEN "REC" ELSE "INV"
    [] e = "DataLimitExceeded" -> IF s \in PauseStates \cup {"ResponderCompleted","ResponderFinalizing"} THEN "REC" ELSE "INV"
    [] e = "ResumeInitiator" -> IF s \in PauseStates \cup {"ResponderCompleted","ResponderFinalizing"} THEN "REC" ELSE "INV"
    [] e = "ResumeResponder" -> IF s \in PauseStates \cup {"TransferFinished"} THEN "REC"
                                ELSE IF s = "Finalizing" THEN "Completing" ELSE "INV"
    [] e = "FinishTransfer" -> IF s \in Cleanup THEN "REC"
                               ELSE IF s = "ResponderCompleted" THEN "Completing"
                               ELSE IF s = "ResponderFinalizing" THEN "ResponderFinalizingTransferFinished"
                               ELSE IF s = "AwaitingAcceptance" THEN "Completing" ELSE "TransferFinished"
    [] e = "ResponderBeginsFinalization" ->
                               IF s \in Cleanup \cup {"ResponderFinalizing","ResponderFinalizingTransferFinished"} THEN "REC"
                               ELSE IF s = "TransferFinished" THEN "ResponderFinalizingTransferFinished" ELSE "ResponderFinalizing"
    [] e = "ResponderCompletes" -> IF s \in Cleanup THEN "REC"
                               ELSE IF s \in {"TransferFinished","ResponderFinalizingTransferFinished"} THEN "Completing"
                               ELSE "ResponderCompleted"
    [] e = "BeginFinalizing" -> IF s \in Cleanup THEN "REC" ELSE "Finalizing"
    [] e = "Complete" -> "Completing"
    [] e = "CleanupComplete" -> IF s \in Cleanup THEN TerminalOf(s) ELSE "INV"
    [] OTHER -> "INV"

MaxN(a, b) == IF a >= b THEN a ELSE b

(* The abstract channel record (the mutable part; identity fields are carried separately). *)
RecFields == {"status","ip","rp","queued","sent","received","qIdx","sIdx","rIdx","limit","reqFin","msg","vouchers","results"}

Act(e, r, a) ==
  CASE e = "DataReceived" -> [r EXCEPT !.rIdx = MaxN(@, a)]
    [] e = "DataSent"     -> [r EXCEPT !.sIdx = MaxN(@, a)]
    [] e = "DataQueued"   -> [r EXCEPT !.qIdx = MaxN(@, a)]
    [] e = "DataReceivedProgress" -> [r EXCEPT !.received = @ + a]
    [] e = "DataSentProgress"     -> [r EXCEPT !.sent = @ + a]
    [] e = "DataQueuedProgress"   -> [r EXCEPT !.queued = @ + a]
    [] e = "SetDataLimit" -> [r EXCEPT !.limit = a]
    [] e = "SetRequiresFinalization" -> [r EXCEPT !.reqFin = a]
    [] e \in ErrNotice \cup {"Error"} -> [r EXCEPT !.msg = a]
    [] e \in {"Restart","Opened"} -> [r EXCEPT !.msg = ""]
    [] e = "NewVoucher" -> [r EXCEPT !.vouchers = Append(@, a)]
    [] e = "NewVoucherResult" -> [r EXCEPT !.results = Append(@, a)]
    [] e = "PauseInitiator"  -> [r EXCEPT !.ip = TRUE]
    [] e = "ResumeInitiator" -> [r EXCEPT !.ip = FALSE]
    [] e \in {"PauseResponder","DataLimitExceeded"} -> [r EXCEPT !.rp = TRUE]
    [] e = "ResumeResponder" -> [r EXCEPT !.rp = FALSE]
    [] OTHER -> r

(* Apply(r,e,a) = outcome of the planner for the event at the head of the queue.                   *)
(*  kind: "term"    machine already in a finality state: nothing applied, machine shuts down         *)
(*        "invalid" no row: dropped                                                                *)
(*        "applied" record updated + persisted + announced; handler = does the entry func run       *)
Apply(r, e, a) ==
  IF r.status \in Terminal THEN [kind |-> "term", rec |-> r, handler |-> FALSE, final |-> TRUE]
  ELSE LET d == Dest(e, r.status) IN
    IF d = "INV" THEN [kind |-> "invalid", rec |-> r, handler |-> FALSE, final |-> FALSE]
    ELSE LET r1 == Act(e, r, a)
             r2 == IF d \in {"NC","REC"} THEN r1 ELSE [r1 EXCEPT !.status = d]
         IN [kind |-> "applied", rec |-> r2,
             handler |-> (d # "REC" /\ r2.status \in Cleanup),
             final |-> (r2.status \in Terminal)]

(* Derived views (channels/channel_state.go) *)
RespPausedView(r) == r.rp \/ r.status = "Finalizing"
InitPausedView(r) == r.ip
BothPausedView(r) == InitPausedView(r) /\ RespPausedView(r)
SelfPausedView(r, selfIsInitiator) == IF selfIsInitiator THEN InitPausedView(r) ELSE RespPausedView(r)

ZeroRec(s) == [status |-> s, ip |-> FALSE, rp |-> FALSE, queued |-> 0, sent |-> 0, received |-> 0,
               qIdx |-> 0, sIdx |-> 0, rIdx |-> 0, limit |-> 0, reqFin |-> FALSE, msg |-> "",
               vouchers |-> <<"v0">>, results |-> <<>>]
=============================================================================

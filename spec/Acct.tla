-------------------------------- MODULE Acct --------------------------------
(* Transfer accounting under concurrent reporters (channels/caches.go + fireProgressEvent), one channel, *)
(* one direction.  Each report (pos, size, unique) is a process:                                          *)
(*   cas   : unique /\ pos > hw  -> hw := pos, advanced        (blockIndexCache.updateIfGreater: CAS loop)  *)
(*   add   : advanced            -> tot := tot + size ; pause := limit # 0 /\ tot >= limit (progressCache)  *)
(*   sendP : advanced            -> queue the Progress(size) event                                         *)
(*   sendI :                     -> queue the index event Data*(pos)                                       *)
(*   sendL : pause               -> queue DataLimitExceeded ; return ErrPause                              *)
(* and the channel's run loop applies queued events one at a time to the durable record.                   *)
EXTENDS Naturals, Sequences, FiniteSets, TLC

CONSTANTS Reports,    \* set of report ids
          Limit       \* data limit (0 = none)

(* report table: id -> [pos, size, unique] ; sizes are a function of the position *)
Pos(r) == CASE r \in {"a1","b1","n1"} -> 1 [] r \in {"a2","b2","n2"} -> 2 [] r \in {"a3","b3"} -> 3 [] OTHER -> 4
Size(r) == Pos(r) + 1
Uniq(r) == r \notin {"n1","n2"}

VARIABLES hw, tot, pc, adv, pause, q, total, idx, rp, ret
vars == <<hw, tot, pc, adv, pause, q, total, idx, rp, ret>>

Init == /\ hw = 0 /\ tot = 0 /\ pc = [r \in Reports |-> "cas"] /\ adv = {} /\ pause = {} /\ q = << >>
        /\ total = 0 /\ idx = 0 /\ rp = FALSE /\ ret = [r \in Reports |-> "none"]

Cas(r) == /\ pc[r] = "cas"
          /\ IF Uniq(r) /\ Pos(r) > hw
             THEN hw' = Pos(r) /\ adv' = adv \cup {r} /\ pc' = [pc EXCEPT ![r] = "add"]
             ELSE UNCHANGED <<hw, adv>> /\ pc' = [pc EXCEPT ![r] = "sendI"]
          /\ UNCHANGED <<tot, pause, q, total, idx, rp, ret>>
Add(r) == /\ pc[r] = "add"
          /\ tot' = tot + Size(r)
          /\ pause' = IF Limit # 0 /\ tot + Size(r) >= Limit THEN pause \cup {r} ELSE pause
          /\ pc' = [pc EXCEPT ![r] = "sendP"]
          /\ UNCHANGED <<hw, adv, q, total, idx, rp, ret>>
SendP(r) == /\ pc[r] = "sendP" /\ q' = Append(q, <<"prog", Size(r)>>) /\ pc' = [pc EXCEPT ![r] = "sendI"]
            /\ UNCHANGED <<hw, tot, adv, pause, total, idx, rp, ret>>
SendI(r) == /\ pc[r] = "sendI" /\ q' = Append(q, <<"idx", Pos(r)>>)
            /\ pc' = [pc EXCEPT ![r] = IF r \in pause THEN "sendL" ELSE "done"]
            /\ ret' = [ret EXCEPT ![r] = IF r \in pause THEN ret[r] ELSE "nil"]
            /\ UNCHANGED <<hw, tot, adv, pause, total, idx, rp>>
SendL(r) == /\ pc[r] = "sendL" /\ q' = Append(q, <<"dle", 0>>) /\ pc' = [pc EXCEPT ![r] = "done"]
            /\ ret' = [ret EXCEPT ![r] = "pause"]
            /\ UNCHANGED <<hw, tot, adv, pause, total, idx, rp>>
Plan == /\ q # << >>
        /\ LET e == Head(q) IN
             /\ total' = IF e[1] = "prog" THEN total + e[2] ELSE total
             /\ idx' = IF e[1] = "idx" /\ e[2] > idx THEN e[2] ELSE idx
             /\ rp' = (rp \/ e[1] = "dle")
        /\ q' = Tail(q)
        /\ UNCHANGED <<hw, tot, pc, adv, pause, ret>>

Next == (\E r \in Reports : Cas(r) \/ Add(r) \/ SendP(r) \/ SendI(r) \/ SendL(r)) \/ Plan
Spec == Init /\ [][Next]_vars /\ WF_vars(Plan) /\ \A r \in Reports : WF_vars(Cas(r) \/ Add(r) \/ SendP(r) \/ SendI(r) \/ SendL(r))

RECURSIVE SumSizes(_)
SumSizes(S) == IF S = {} THEN 0 ELSE LET x == CHOOSE x \in S : TRUE IN Size(x) + SumSizes(S \ {x})
Quiescent == q = << >> /\ \A r \in Reports : pc[r] = "done"

Once == \A r1, r2 \in adv : r1 # r2 => Pos(r1) # Pos(r2)
Bytes == Quiescent => total = SumSizes(adv)
Index == Quiescent => idx = (CHOOSE m \in {Pos(r) : r \in Reports} : \A r \in Reports : Pos(r) <= m)
NoGain == \A r \in adv : Uniq(r)
CacheAgrees == Quiescent => tot = total
Monotone == [][total' >= total /\ idx' >= idx]_vars
PauseIff == Quiescent => ((\E r \in Reports : ret[r] = "pause") <=> (Limit # 0 /\ total >= Limit))
PauseFx == Quiescent => ((\E r \in Reports : ret[r] = "pause") => rp)
NoEarlyPause == \A r \in Reports : ret[r] = "pause" => (Limit # 0 /\ tot >= Limit)
Settles == <>Quiescent
=============================================================================

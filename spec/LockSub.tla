------------------------------ MODULE LockSub ------------------------------
(* Lock structure around event delivery: the manager's pubsub lock ps (read-held by Publish while ALL subscriber callbacks run, write-taken by   *)
(* subscribe / unsubscribe) and the per-transfer subscription table's lock tab (ChannelSubscriptions.subscriptionsLk: read-held while the table's *)
(* entry is called, write-taken to delete the entry of a terminated channel, to add an entry, and by Stop).  A third lock, rl, is the channel      *)
(* monitor's restartLk: taken by the monitor's own subscriber callback on data events (under ps-read) and by its restart loop.                      *)
(*   StopVariant  = "code": ChannelSubscriptions.Stop unsubscribes from the pubsub WITHOUT holding tab;  "holdsTab": refuted variant (tab write    *)
(*                  lock held across the unsubscribe): ps-read -> tab against tab -> ps-write.                                                     *)
(*   GiveUpVariant = "code": the monitor's restart loop has released rl when it shuts down (unsubscribes: ps-write); "holdsRl": refuted variant    *)
(*                  (rl held across closeChannelAndShutdown): ps-read -> rl against rl -> ps-write.                                                *)
(* Readers-writer locks: r = number of readers, w = writer present.  TLC's deadlock check / NoStuck finds the cycles.                              *)
EXTENDS Naturals, TLC
CONSTANTS StopVariant, GiveUpVariant, Events       \* Events: how many events the notifier publishes
VARIABLES psR, psW, tabR, tabW, rl, npc, nleft, spc, mpc
vars == <<psR, psW, tabR, tabW, rl, npc, nleft, spc, mpc>>
Init == psR = 0 /\ psW = FALSE /\ tabR = 0 /\ tabW = FALSE /\ rl = "free" /\ npc = "idle" /\ nleft = Events /\ spc = "idle" /\ mpc = "idle"

(* notifier: Publish = ps.RLock ; [per-transfer table: tab.RLock, call, tab.RUnlock, (terminal: tab.Lock, delete, tab.Unlock)] ; [monitor callback: rl.Lock/Unlock] ; ps.RUnlock *)
NPublish == npc = "idle" /\ nleft > 0 /\ ~psW /\ psR' = psR + 1 /\ npc' = "tabR" /\ nleft' = nleft - 1 /\ UNCHANGED <<psW, tabR, tabW, rl, spc, mpc>>
NTabR    == npc = "tabR" /\ ~tabW /\ tabR' = tabR + 1 /\ npc' = "called" /\ UNCHANGED <<psR, psW, tabW, rl, nleft, spc, mpc>>
NCalled  == npc = "called" /\ tabR' = tabR - 1 /\ npc' = "tabW" /\ UNCHANGED <<psR, psW, tabW, rl, nleft, spc, mpc>>
NTabW    == npc = "tabW" /\ ~tabW /\ tabR = 0 /\ npc' = "mon" /\ UNCHANGED <<psR, psW, tabR, tabW, rl, nleft, spc, mpc>>     \* lock + delete + unlock
NMon     == npc = "mon" /\ rl = "free" /\ npc' = "unlock" /\ UNCHANGED <<psR, psW, tabR, tabW, rl, nleft, spc, mpc>>          \* resetConsecutiveRestarts: lock + unlock
NUnlock  == npc = "unlock" /\ psR' = psR - 1 /\ npc' = "idle" /\ UNCHANGED <<psW, tabR, tabW, rl, nleft, spc, mpc>>

(* Manager.Stop -> ChannelSubscriptions.Stop *)
SStart == spc = "idle" /\ (IF StopVariant = "holdsTab" THEN ~tabW /\ tabR = 0 /\ tabW' = TRUE ELSE UNCHANGED tabW) /\ spc' = "unsub" /\ UNCHANGED <<psR, psW, tabR, rl, npc, nleft, mpc>>
SUnsub == spc = "unsub" /\ ~psW /\ psR = 0 /\ spc' = "done" /\ tabW' = FALSE /\ UNCHANGED <<psR, psW, tabR, rl, npc, nleft, mpc>>   \* ps.Lock + remove + Unlock (+ release tab)

(* the monitor's restart loop gives up: (refuted: rl still held) Shutdown -> unsubscribe (ps write) *)
MStart == mpc = "idle" /\ rl = "free" /\ rl' = (IF GiveUpVariant = "holdsRl" THEN "mon" ELSE "free") /\ mpc' = "unsub" /\ UNCHANGED <<psR, psW, tabR, tabW, npc, nleft, spc>>
MUnsub == mpc = "unsub" /\ ~psW /\ psR = 0 /\ mpc' = "done" /\ rl' = "free" /\ UNCHANGED <<psR, psW, tabR, tabW, npc, nleft, spc>>

Next == NPublish \/ NTabR \/ NCalled \/ NTabW \/ NMon \/ NUnlock \/ SStart \/ SUnsub \/ MStart \/ MUnsub
Spec == Init /\ [][Next]_vars /\ WF_vars(Next)
Busy == npc # "idle" \/ spc = "unsub" \/ mpc = "unsub"
NoStuck == Busy => ENABLED Next
AllReturn == (spc = "unsub" ~> spc = "done") /\ (mpc = "unsub" ~> mpc = "done") /\ (npc = "tabR" ~> npc = "idle")
=============================================================================

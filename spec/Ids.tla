-------------------------------- MODULE Ids --------------------------------
(* Transfer-id generation (impl/timecounter.go): a counter seeded with the clock, incremented atomically.   *)
(* N concurrent callers of next(); two manager lifetimes on the same node.  The atomic step is what the     *)
(* code does (atomic.AddUint64); NonAtomic = TRUE gives the read-then-write variant, which TLC refutes       *)
(* (used only to show that Unique is not vacuous).                                                          *)
EXTENDS Naturals, Sequences, FiniteSets, TLC

CONSTANTS Callers, CallsPer, Seed1, Elapsed, NonAtomic

VARIABLES counter, pc, tmp, issued, life, done
vars == <<counter, pc, tmp, issued, life, done>>

Init == /\ counter = Seed1 /\ pc = [c \in Callers |-> "idle"] /\ tmp = [c \in Callers |-> 0]
        /\ issued = [c \in Callers |-> << >>] /\ life = 1 /\ done = [c \in Callers |-> 0]

Next1(c) == /\ ~NonAtomic /\ pc[c] = "idle" /\ done[c] < CallsPer
            /\ counter' = counter + 1
            /\ issued' = [issued EXCEPT ![c] = Append(@, [id |-> counter + 1, life |-> life])]
            /\ done' = [done EXCEPT ![c] = @ + 1]
            /\ UNCHANGED <<pc, tmp, life>>
Read(c)  == /\ NonAtomic /\ pc[c] = "idle" /\ done[c] < CallsPer
            /\ tmp' = [tmp EXCEPT ![c] = counter] /\ pc' = [pc EXCEPT ![c] = "write"]
            /\ UNCHANGED <<counter, issued, life, done>>
Write(c) == /\ pc[c] = "write"
            /\ counter' = tmp[c] + 1
            /\ issued' = [issued EXCEPT ![c] = Append(@, [id |-> tmp[c] + 1, life |-> life])]
            /\ done' = [done EXCEPT ![c] = @ + 1] /\ pc' = [pc EXCEPT ![c] = "idle"]
            /\ UNCHANGED <<tmp, life>>
(* the manager is stopped and a new one created later on the same node: the clock has advanced by Elapsed, *)
(* and fewer than Elapsed ids were issued meanwhile (one id per nanosecond would be needed to catch up)    *)
Restart == /\ life = 1 /\ \A c \in Callers : pc[c] = "idle"
           /\ counter - Seed1 < Elapsed
           /\ counter' = Seed1 + Elapsed /\ life' = 2
           /\ done' = [c \in Callers |-> 0]
           /\ UNCHANGED <<pc, tmp, issued>>
Next == (\E c \in Callers : Next1(c) \/ Read(c) \/ Write(c)) \/ Restart
Spec == Init /\ [][Next]_vars

All == UNION {{issued[c][i] : i \in 1..Len(issued[c])} : c \in Callers}
Unique == \A c1, c2 \in Callers : \A i \in 1..Len(issued[c1]) : \A j \in 1..Len(issued[c2]) :
             (c1 # c2 \/ i # j) => issued[c1][i].id # issued[c2][j].id
IncreasingPerCaller == \A c \in Callers : \A i \in 1..Len(issued[c]) : i > 1 => issued[c][i].id > issued[c][i-1].id
AboveSeed == \A x \in All : x.id > Seed1
LaterLifeAbove == \A x, y \in All : (x.life = 1 /\ y.life = 2) => y.id > x.id
Dense == Cardinality({x.id : x \in All}) = Cardinality(All)
=============================================================================

-------------------------------- MODULE Wire --------------------------------
(* C12 - wire format.  Constant-level algebra of the data-transfer messages (message/message1_1prime):  *)
(*   * every public constructor with classes of arguments (Calls), the abstract message it builds (Msg),  *)
(*   * the observable projection Obs(m) and the kind classification (Preds / PrimaryKinds / ExactlyOneKind),*)
(*   * the acceptance rule of ValidationResultResponse,                                                   *)
(*   * Layout(m): the abstract DAG-CBOR tree of the envelope {IsRq, Request, Response} and of the request  *)
(*     / response maps with the field names of schema.ipldsch, in canonical (length-then-bytewise) order,  *)
(*   * the table of envelope shapes with the decoder verdict (missing body => error).                      *)
(* TLC checks the algebraic facts over the whole table (one state per row + ASSUMEs) and tabulates       *)
(* (call, Obs, Layout) to ndjson; harness/wirex replays every row on the real code and WireJudge judges.  *)
(* Numbers that do not fit TLC's 32-bit integers are SYMBOLIC strings ("2^63", "2^64-1", decimal).        *)
(* Text/bytes contents and CIDs are hex strings (they include multibyte and non-UTF-8 content).           *)
EXTENDS Naturals, Sequences, FiniteSets, TLC, Json, SequencesExt

CONSTANTS OutFile, DictFile, EnvFile,   \* output files ("" = do not write: used when WireJudge extends this module)
          Ids,        \* transfer id classes (symbolic)
          Vals,       \* selector / voucher value classes
          TypeIds,    \* voucher type identifier classes (names in TextHex)
          Bases,      \* base cid names (in CidHex)
          Peers,      \* peer id classes of the restart channel id (names in PeerHex)
          Stride, Offset   \* rows n with n % Stride = Offset are checked and tabulated (1, 0 = the whole table)

VARIABLE i

----------------------------------------------------------------------------
(* ---- concrete content behind the symbolic names -------------------------------------------------- *)
TextHex == [tEmpty |-> "", tAscii |-> "46616b65445454797065", tMulti |-> "d0b2d0b0d183d187d0b5d1802fc3a9e29c93"]
PeerHex == [pEmpty |-> "", pAscii |-> "313244334b6f6f575065657241", pRaw |-> "002408011220fffe80c328"]   \* pRaw is not UTF-8
CidHex  == [cidA |-> "01551220000102030405060708090a0b0c0d0e0f101112131415161718191a1b1c1d1e1f",           \* CIDv1 raw sha2-256
            cidB |-> "1220f0e0d0c0b0a090807060504030201000112233445566778899aabbccddeeff01",                   \* CIDv0
            cidL |-> "017112208877665544332211008877665544332211008877665544332211008877665544"]                 \* CIDv1 dag-cbor

(* message/types/message_types.go: append-only numbering *)
TypeNo == [New |-> "0", Update |-> "1", Cancel |-> "2", Complete |-> "3", Voucher |-> "4", VoucherResult |-> "5",
           Restart |-> "6", RestartExisting |-> "7"]
Types == DOMAIN TypeNo

(* bytes of every map key that occurs (to order keys the DAG-CBOR way; harness verifies the table) *)
KB == [IsRq |-> <<73,115,82,113>>, Request |-> <<82,101,113,117,101,115,116>>, Response |-> <<82,101,115,112,111,110,115,101>>,
       BCid |-> <<66,67,105,100>>, Type |-> <<84,121,112,101>>, Paus |-> <<80,97,117,115>>, Part |-> <<80,97,114,116>>,
       Pull |-> <<80,117,108,108>>, Stor |-> <<83,116,111,114>>, Vouch |-> <<86,111,117,99,104>>, VTyp |-> <<86,84,121,112>>,
       XferID |-> <<88,102,101,114,73,68>>, RestartChannel |-> <<82,101,115,116,97,114,116,67,104,97,110,110,101,108>>,
       Acpt |-> <<65,99,112,116>>, VRes |-> <<86,82,101,115>>, Extra |-> <<69,120,116,114,97>>,
       zz |-> <<122,122>>, a |-> <<97>>, outer |-> <<111,117,116,101,114>>, k |-> <<107>>, bb |-> <<98,98>>, c |-> <<99>>]

----------------------------------------------------------------------------
(* ---- abstract DAG-CBOR trees (uniform record shape) --------------------------------------------- *)
Leaf(t, s)  == [t |-> t, s |-> s, kv |-> << >>, items |-> << >>]
NullN       == Leaf("null", "")
BoolN(b)    == Leaf(IF b THEN "true" ELSE "false", "")
UintN(s)    == Leaf("uint", s)
NintN(s)    == Leaf("nint", s)             \* the value -s
FloatN(h)   == Leaf("float", h)            \* hex of the IEEE-754 binary64
TextN(h)    == Leaf("text", h)
BytesN(h)   == Leaf("bytes", h)
LinkN(c)    == Leaf("link", CidHex[c])
ListN(its)  == [t |-> "list", s |-> "", kv |-> << >>, items |-> its]
KV(k, v)    == [k |-> k, v |-> v]
MapRaw(kvs) == [t |-> "map", s |-> "", kv |-> kvs, items |-> << >>]     \* entries in the given order

LexLess(x, y) == \E j \in 1..Len(x) : (\A h \in 1..(j-1) : x[h] = y[h]) /\ x[j] < y[j]
CanonLess(p, q) == LET x == KB[p] y == KB[q] IN Len(x) < Len(y) \/ (Len(x) = Len(y) /\ LexLess(x, y))
KeyRank == [q \in DOMAIN KB |-> Cardinality({p \in DOMAIN KB : CanonLess(p, q)})]     \* position of a key in the canonical order (computed once)
CMap(kvs) == MapRaw(SortSeq(kvs, LAMBDA e, f : KeyRank[e.k] < KeyRank[f.k]))    \* canonical DAG-CBOR order

RECURSIVE Canon(_)
Canon(n) == CASE n.t = "map"  -> CMap([j \in 1..Len(n.kv) |-> KV(n.kv[j].k, Canon(n.kv[j].v))])
              [] n.t = "list" -> ListN([j \in 1..Len(n.items) |-> Canon(n.items[j])])
              [] OTHER -> n

RECURSIVE IsCanonical(_)
IsCanonical(n) == CASE n.t = "map"  -> /\ \A j \in 1..(Len(n.kv)-1) : KeyRank[n.kv[j].k] < KeyRank[n.kv[j+1].k]
                                       /\ \A j \in 1..Len(n.kv) : IsCanonical(n.kv[j].v)
                    [] n.t = "list" -> \A j \in 1..Len(n.items) : IsCanonical(n.items[j])
                    [] OTHER -> TRUE

(* value classes for selector / voucher / voucher result: trees in INSERTION order (as the caller builds them) *)
ValTree == [str    |-> TextN("68656c6c6f20e4b896e7958c"),
            int    |-> UintN("2^63-1"),
            negint |-> NintN("2^63"),
            float  |-> FloatN("3ff8000000000000"),
            bytes  |-> BytesN("00ff10"),
            list   |-> ListN(<<TextN("61"), UintN("24"), NullN, BoolN(TRUE), ListN(<< >>), NintN("1")>>),
            map2   |-> MapRaw(<<KV("zz", UintN("1")), KV("a", NintN("2"))>>),                       \* non-canonical order
            nested |-> MapRaw(<<KV("outer", MapRaw(<<KV("bb", ListN(<<UintN("256")>>)), KV("a", BytesN("")), KV("c", MapRaw(<< >>))>>)),
                                KV("k", BoolN(FALSE))>>),
            link   |-> LinkN("cidL")]
RealVals == DOMAIN ValTree
NoVal == {"absent", "null"}            \* Go nil / ipld.Null : both travel as CBOR null ("null means none")
Norm(v) == IF v \in NoVal THEN "null" ELSE v
ValLayout(v) == IF v \in NoVal THEN NullN ELSE Canon(ValTree[v])

----------------------------------------------------------------------------
(* ---- messages ------------------------------------------------------------------------------------ *)
ZeroChan == [i |-> "pEmpty", r |-> "pEmpty", id |-> "0"]
M0 == [isRq |-> TRUE, type |-> "New", paus |-> FALSE, part |-> FALSE, pull |-> FALSE, acpt |-> FALSE,
       base |-> "none", sel |-> "absent", v |-> "absent", vt |-> "tEmpty", id |-> "0", rc |-> ZeroChan]

(* constructor arguments, uniform record; a nil *TypedVoucher is (v = "absent", vt = "tEmpty") *)
A0 == [id |-> "0", restart |-> FALSE, pull |-> FALSE, paused |-> FALSE, accepted |-> FALSE, err |-> FALSE, mt |-> "New",
       v |-> "absent", vt |-> "tEmpty", base |-> "none", sel |-> "absent", ri |-> "pEmpty", rr |-> "pEmpty"]
Call(c, a) == [ctor |-> c, a |-> a]

ValTypes == {"New", "Restart", "VoucherResult", "Complete"}     \* message types the library passes to ValidationResultResponse
Vouchers == {<<v, t>> : v \in Vals, t \in TypeIds}

Calls ==
  {Call("NewRequest", [A0 EXCEPT !.id = id, !.restart = r, !.pull = p, !.v = vv[1], !.vt = vv[2], !.base = b, !.sel = s]) :
       id \in Ids, r \in BOOLEAN, p \in BOOLEAN, vv \in Vouchers, b \in Bases, s \in Vals}
  \cup {Call("NewRequest", [A0 EXCEPT !.id = id, !.restart = r, !.base = "undef", !.sel = "str"]) : id \in Ids, r \in BOOLEAN}
  \cup {Call("UpdateRequest", [A0 EXCEPT !.id = id, !.paused = p]) : id \in Ids, p \in BOOLEAN}
  \cup {Call("CancelRequest", [A0 EXCEPT !.id = id]) : id \in Ids}
  \cup {Call("VoucherRequest", [A0 EXCEPT !.id = id, !.v = vv[1], !.vt = vv[2]]) : id \in Ids, vv \in Vouchers}
  \cup {Call("RestartExistingChannelRequest", [A0 EXCEPT !.id = id, !.ri = x, !.rr = y]) : id \in Ids, x \in Peers, y \in Peers}
  \cup {Call(c, [A0 EXCEPT !.id = id, !.accepted = ac, !.paused = p, !.v = vv[1], !.vt = vv[2]]) :
       c \in {"NewResponse", "RestartResponse", "VoucherResultResponse", "CompleteResponse"},
       id \in Ids, ac \in BOOLEAN, p \in BOOLEAN, vv \in Vouchers}
  \cup {Call("ValidationResultResponse", [A0 EXCEPT !.mt = mt, !.id = id, !.accepted = ac, !.err = e, !.paused = p, !.v = vv[1], !.vt = vv[2]]) :
       mt \in ValTypes, id \in Ids, ac \in BOOLEAN, e \in BOOLEAN, p \in BOOLEAN, vv \in Vouchers}
  \cup {Call("UpdateResponse", [A0 EXCEPT !.id = id, !.paused = p]) : id \in Ids, p \in BOOLEAN}
  \cup {Call("CancelResponse", [A0 EXCEPT !.id = id]) : id \in Ids}

CtorFails(c) == c.ctor = "NewRequest" /\ c.a.base = "undef"      \* "base CID must be defined"

RespOf(type, a, acpt) == [M0 EXCEPT !.isRq = FALSE, !.type = type, !.acpt = acpt, !.paus = a.paused, !.id = a.id, !.v = a.v, !.vt = a.vt]
Msg(c) == LET a == c.a IN
  CASE c.ctor = "NewRequest"     -> [M0 EXCEPT !.type = IF a.restart THEN "Restart" ELSE "New", !.pull = a.pull, !.v = a.v, !.vt = a.vt,
                                              !.base = a.base, !.sel = a.sel, !.id = a.id]
    [] c.ctor = "UpdateRequest"  -> [M0 EXCEPT !.type = "Update", !.paus = a.paused, !.id = a.id]
    [] c.ctor = "CancelRequest"  -> [M0 EXCEPT !.type = "Cancel", !.id = a.id]
    [] c.ctor = "VoucherRequest" -> [M0 EXCEPT !.type = "Voucher", !.v = a.v, !.vt = a.vt, !.id = a.id]
    [] c.ctor = "RestartExistingChannelRequest" -> [M0 EXCEPT !.type = "RestartExisting", !.rc = [i |-> a.ri, r |-> a.rr, id |-> a.id]]
    [] c.ctor = "NewResponse"           -> RespOf("New", a, a.accepted)
    [] c.ctor = "RestartResponse"       -> RespOf("Restart", a, a.accepted)
    [] c.ctor = "VoucherResultResponse" -> RespOf("VoucherResult", a, a.accepted)
    [] c.ctor = "CompleteResponse"      -> RespOf("Complete", a, a.accepted)
    [] c.ctor = "ValidationResultResponse" -> RespOf(a.mt, a, (~a.err) /\ a.accepted)
    [] c.ctor = "UpdateResponse"        -> [M0 EXCEPT !.isRq = FALSE, !.type = "Update", !.paus = a.paused, !.id = a.id]
    [] c.ctor = "CancelResponse"        -> [M0 EXCEPT !.isRq = FALSE, !.type = "Cancel", !.id = a.id]

(* ---- kind predicates as the code defines them (transfer_request.go / transfer_response.go, the Is-methods) ---- *)
Preds(m) == IF m.isRq
  THEN {p \in {"New", "Restart", "Update", "Cancel", "RestartExisting"} : m.type = p}
       \cup (IF m.type \in {"Voucher", "New"} THEN {"Voucher"} ELSE {})
  ELSE {p \in {"New", "Restart", "Update", "Cancel", "Complete"} : m.type = p}
       \cup (IF m.type \in {"VoucherResult", "New", "Complete", "Restart"} THEN {"ValidationResult"} ELSE {})

(* the classification: IsVoucher is also true of a New request, IsValidationResult of New/Complete/Restart responses *)
PrimaryKinds(isRq, ps) == IF isRq
  THEN (ps \cap {"New", "Restart", "Update", "Cancel", "RestartExisting"})
       \cup (IF "Voucher" \in ps /\ "New" \notin ps THEN {"Voucher"} ELSE {})
  ELSE (ps \cap {"New", "Restart", "Update", "Cancel", "Complete"})
       \cup (IF "ValidationResult" \in ps /\ ps \cap {"New", "Complete", "Restart"} = {} THEN {"VoucherResult"} ELSE {})
Kind(m) == m.type
ExactlyOneKind(m) == PrimaryKinds(m.isRq, Preds(m)) = {Kind(m)}

(* ---- the observable projection ---- *)
Obs(m) == [isRq |-> m.isRq, kind |-> Kind(m), preds |-> Preds(m), id |-> m.id, pull |-> m.pull, part |-> m.part, paus |-> m.paus,
           acpt |-> m.acpt, base |-> m.base, sel |-> Norm(m.sel), v |-> Norm(m.v), vt |-> m.vt,
           rcOk |-> (m.isRq /\ m.type = "RestartExisting"), rc |-> m.rc]

(* ---- layout: schema.ipldsch with its renames; every field is always present, nullable ones as null ---- *)
ReqMap(m) == CMap(<<
   KV("BCid", IF m.base = "none" THEN NullN ELSE LinkN(m.base)),
   KV("Type", UintN(TypeNo[m.type])), KV("Paus", BoolN(m.paus)), KV("Part", BoolN(m.part)), KV("Pull", BoolN(m.pull)),
   KV("Stor", ValLayout(m.sel)), KV("Vouch", ValLayout(m.v)), KV("VTyp", TextN(TextHex[m.vt])), KV("XferID", UintN(m.id)),
   KV("RestartChannel", ListN(<<TextN(PeerHex[m.rc.i]), TextN(PeerHex[m.rc.r]), UintN(m.rc.id)>>)) >>)        \* ChannelID: tuple
RespMap(m) == CMap(<<
   KV("Type", UintN(TypeNo[m.type])), KV("Acpt", BoolN(m.acpt)), KV("Paus", BoolN(m.paus)), KV("XferID", UintN(m.id)),
   KV("VRes", ValLayout(m.v)), KV("VTyp", TextN(TextHex[m.vt])) >>)
Layout(m) == CMap(<< KV("IsRq", BoolN(m.isRq)),
                     KV("Request", IF m.isRq THEN ReqMap(m) ELSE NullN),
                     KV("Response", IF m.isRq THEN NullN ELSE RespMap(m)) >>)

Keys(n) == {n.kv[j].k : j \in 1..Len(n.kv)}
Field(n, k) == n.kv[CHOOSE j \in 1..Len(n.kv) : n.kv[j].k = k].v
ReqKeys  == {"BCid", "Type", "Paus", "Part", "Pull", "Stor", "Vouch", "VTyp", "XferID", "RestartChannel"}
RespKeys == {"Type", "Acpt", "Paus", "XferID", "VRes", "VTyp"}
LayoutShapeOK(m) == LET e == Layout(m) IN
  /\ e.t = "map" /\ Len(e.kv) = 3 /\ Keys(e) = {"IsRq", "Request", "Response"}
  /\ Field(e, "IsRq") = BoolN(m.isRq)
  /\ (IF m.isRq THEN Field(e, "Response") = NullN /\ Keys(Field(e, "Request")) = ReqKeys /\ Len(Field(e, "Request").kv) = 10
               ELSE Field(e, "Request") = NullN /\ Keys(Field(e, "Response")) = RespKeys /\ Len(Field(e, "Response").kv) = 6)

----------------------------------------------------------------------------
(* ---- envelope shapes and the decoder verdict ------------------------------------------------------ *)
BodyForms == {"null", "map", "absent", "list", "empty"}
EnvShapes == [isRq : {"true", "false", "absent", "uint"}, rq : BodyForms, rs : BodyForms, extra : BOOLEAN]
WellFormed(s) == ~s.extra /\ s.isRq \in {"true", "false"} /\ s.rq \in {"null", "map"} /\ s.rs \in {"null", "map"}
MissingBody(s) == WellFormed(s) /\ ((s.isRq = "true" /\ s.rq = "null") \/ (s.isRq = "false" /\ s.rs = "null"))
EnvVerdict(s) == IF ~WellFormed(s) \/ MissingBody(s) THEN "error" ELSE IF s.isRq = "true" THEN "request" ELSE "response"
RepReq  == [M0 EXCEPT !.type = "Update", !.paus = TRUE, !.id = "1"]
RepResp == [M0 EXCEPT !.isRq = FALSE, !.type = "Update", !.paus = TRUE, !.id = "1"]
BodyTree(f, isReq) == CASE f = "null" -> NullN [] f = "map" -> (IF isReq THEN ReqMap(RepReq) ELSE RespMap(RepResp))
                        [] f = "list" -> ListN(<< >>) [] f = "empty" -> MapRaw(<< >>)
EnvLayout(s) == CMap(
   (IF s.isRq = "absent" THEN << >> ELSE <<KV("IsRq", IF s.isRq = "uint" THEN UintN("1") ELSE BoolN(s.isRq = "true"))>>)
   \o (IF s.rq = "absent" THEN << >> ELSE <<KV("Request", BodyTree(s.rq, TRUE))>>)
   \o (IF s.rs = "absent" THEN << >> ELSE <<KV("Response", BodyTree(s.rs, FALSE))>>)
   \o (IF s.extra THEN <<KV("Extra", NullN)>> ELSE << >>))
EnvSeq == SetToSeq(EnvShapes)
EnvRow(n) == [case |-> "e" \o ToString(n), shape |-> EnvSeq[n], verdict |-> EnvVerdict(EnvSeq[n]), missing |-> MissingBody(EnvSeq[n]),
              layout |-> EnvLayout(EnvSeq[n])]

----------------------------------------------------------------------------
(* ---- the table ------------------------------------------------------------------------------------ *)
CallSeq == SetToSeq(Calls)
N == Len(CallSeq)
Row(n) == LET c == CallSeq[n] IN
  IF CtorFails(c) THEN [case |-> "r" \o ToString(n), ctor |-> c.ctor, a |-> c.a, fails |-> TRUE, obs |-> Obs(M0), layout |-> NullN]
  ELSE [case |-> "r" \o ToString(n), ctor |-> c.ctor, a |-> c.a, fails |-> FALSE, obs |-> Obs(Msg(c)), layout |-> Layout(Msg(c))]

Sampled == {n \in 1..N : n % Stride = Offset}
SampleSeq == SetToSeq(Sampled)
Good == {c \in {CallSeq[n] : n \in Sampled} : ~CtorFails(c)}

(* algebraic facts over the table (the sampled part of it when Stride > 1; wire-full.cfg: all of it) *)
ASSUME \A t \in Types : \E n \in 0..7 : TypeNo[t] = ToString(n)
ASSUME Cardinality({TypeNo[t] : t \in Types}) = Cardinality(Types)
ASSUME \A v \in Vals : v \in NoVal \cup RealVals
ASSUME \A k \in DOMAIN KB : Len(KB[k]) = Len(k)
ASSUME \A p, q \in DOMAIN KB : (KeyRank[p] < KeyRank[q]) = CanonLess(p, q)                   \* the order is total on the keys used
ASSUME \A v \in RealVals : IsCanonical(Canon(ValTree[v]))
ASSUME ~IsCanonical(ValTree["map2"]) /\ ~IsCanonical(ValTree["nested"])          \* the classes really exercise re-ordering
(* encoding is a function of the observable projection and the projection is recoverable from the bytes *)
LayoutObs == {<<Layout(Msg(c)), Obs(Msg(c))>> : c \in Good}
ASSUME Cardinality({p[1] : p \in LayoutObs}) = Cardinality(LayoutObs) /\ Cardinality({p[2] : p \in LayoutObs}) = Cardinality(LayoutObs)
(* envelope verdicts *)
ASSUME \A s \in EnvShapes : MissingBody(s) => EnvVerdict(s) = "error"
ASSUME \A s \in EnvShapes : (EnvVerdict(s) = "request" => s.rq = "map") /\ (EnvVerdict(s) = "response" => s.rs = "map")
ASSUME \A s \in EnvShapes : IsCanonical(EnvLayout(s))
ASSUME \A c \in Good : EnvVerdict([isRq |-> IF Msg(c).isRq THEN "true" ELSE "false", rq |-> IF Msg(c).isRq THEN "map" ELSE "null",
                                   rs |-> IF Msg(c).isRq THEN "null" ELSE "map", extra |-> FALSE]) # "error"

ASSUME OutFile = "" \/ ndJsonSerialize(OutFile, [j \in 1..Len(SampleSeq) |-> Row(SampleSeq[j])])
ASSUME EnvFile = "" \/ ndJsonSerialize(EnvFile, [n \in 1..Len(EnvSeq) |-> EnvRow(n)])
ASSUME DictFile = "" \/ ndJsonSerialize(DictFile, << [vals |-> ValTree, text |-> TextHex, peers |-> PeerHex, cids |-> CidHex, kb |-> KB, typeNo |-> TypeNo] >>)
ASSUME PrintT(<<"@@rows", Len(SampleSeq), "@@of", N, "@@envs", Len(EnvSeq)>>)

(* one state per row: per-row facts are invariants *)
Init == i \in Sampled
Next == UNCHANGED i
Spec == Init /\ [][Next]_i

TheCall == CallSeq[i]
TheMsg == Msg(TheCall)
TypeOK == /\ TheCall.ctor \in {"NewRequest", "UpdateRequest", "CancelRequest", "VoucherRequest", "RestartExistingChannelRequest", "NewResponse",
                               "RestartResponse", "VoucherResultResponse", "CompleteResponse", "ValidationResultResponse", "UpdateResponse", "CancelResponse"}
          /\ (CtorFails(TheCall) \/ (TheMsg.type \in Types /\ TheMsg.id \in Ids))
OneKind == CtorFails(TheCall) \/ ExactlyOneKind(TheMsg)
AcceptRule == (TheCall.ctor = "ValidationResultResponse") => (Obs(TheMsg).acpt = ((~TheCall.a.err) /\ TheCall.a.accepted))
AcceptOnlyVerdicts == (~CtorFails(TheCall) /\ Obs(TheMsg).acpt) => (~TheMsg.isRq /\ "ValidationResult" \in Preds(TheMsg))
CanonicalLayout == CtorFails(TheCall) \/ IsCanonical(Layout(TheMsg))
SchemaShape == CtorFails(TheCall) \/ LayoutShapeOK(TheMsg)
NullMeansNone == CtorFails(TheCall) \/ (Obs(TheMsg).sel \notin {"absent"} /\ Obs(TheMsg).v \notin {"absent"})
=============================================================================

----------------------------- MODULE ChanJudge -----------------------------
(* Judge of observations recorded from the real channels.Channels (harness chanx).                    *)
(* Input: ndjson, one case per line: [case, steps: <<StepObs>>] where a StepObs carries the persisted  *)
(* record before the operation (pre), every record written during it (puts), the notifications the    *)
(* subscriber got (ann: event name + accessor view), the environment calls, the return class and the  *)
(* accessor view after quiescence.  For every step TLC evaluates                                      *)
(*   conf  : the observation is one of the trajectories ChanOps!Traj allows (conformance / drift)      *)
(*   rules : the property formulas of C02 C03 C07 C08 C09 C11 C17 C19 on the OBSERVED values           *)
(* and writes the failed (case, step, rule) triples to OutFile.                                        *)
EXTENDS ChanOps, Json, SequencesExt

CONSTANTS ObsFile, OutFile
Cases == ndJsonDeserialize(ObsFile)

EvNames(ann) == [i \in 1..Len(ann) |-> ann[i].ev]
CountEnv(env, call, c) == Cardinality({i \in 1..Len(env) : env[i].call = call /\ env[i].chid = c})

Counters(r) == <<r.queued, r.sent, r.received, r.qIdx, r.sIdx, r.rIdx>>
Flags(r)    == <<r.ip, r.rp>>
Logs(r)     == <<r.vouchers, r.results>>

(* the raw record inside an accessor view (rp raw is not visible through the accessors) *)
ViewMatches(v, r) ==
  /\ v.status = r.status /\ v.ip = r.ip /\ v.rpView = (r.rp \/ r.status = "Finalizing")
  /\ v.queued = r.queued /\ v.sent = r.sent /\ v.received = r.received
  /\ v.qIdx = r.qIdx /\ v.sIdx = r.sIdx /\ v.rIdx = r.rIdx
  /\ v.limit = r.limit /\ v.reqFin = r.reqFin /\ v.msg = r.msg
  /\ v.vouchers = r.vouchers /\ v.results = r.results

ViewsConsistent(v, id) ==
  /\ v.both = (v.ip /\ v.rpView)
  /\ v.selfPaused = (IF id.self = id.initiator THEN v.ip ELSE v.rpView)
  /\ v.isPull = (id.initiator = id.recipient)
  /\ v.chidI = id.initiator /\ v.chidR = id.responder /\ v.chidT = id.tid
  /\ v.other = (IF id.sender = id.self THEN id.recipient ELSE id.sender)
  /\ v.self = id.self /\ v.sender = id.sender /\ v.recipient = id.recipient /\ v.tid = id.tid
  /\ v.first = (IF Len(v.vouchers) = 0 THEN "" ELSE v.vouchers[1])
  /\ v.lastV = (IF Len(v.vouchers) = 0 THEN "" ELSE v.vouchers[Len(v.vouchers)])
  /\ v.lastR = (IF Len(v.results) = 0 THEN "" ELSE v.results[Len(v.results)])

(* p = <<pre>> \o puts : the successive persisted records ; ev[i] = event that produced p[i+1] *)
StepRules(st, cache) ==
  LET pre  == st.pre
      p    == <<pre>> \o st.puts
      ev   == EvNames(st.ann)
      k    == Len(st.puts)
      res  == OpResult(st.op, st.args, pre, cache)
      trajs == Traj(pre, res.evs)
      cl   == CountEnv(st.env, "cleanup", st.c)
      up   == CountEnv(st.env, "unprotect", st.c)
      term == pre.status \in Terminal
      aligned == Len(ev) = k
      Pairs == IF aligned THEN 1..k ELSE {}
      entered == {i \in 1..k : p[i+1].status \in Cleanup /\ p[i].status # p[i+1].status}
      isInit == st.ident.self = st.ident.initiator
      advanced == st.op \in DataOps /\ \E i \in Pairs : ev[i] = ProgEvent(st.op)
      hw == IF cache.iset[st.op] THEN cache.idx[st.op] ELSE IdxOf(pre, st.op)
  IN
  (* ---- conformance with the specification (drift when only this fails) ---- *)
  (IF \E t \in trajs : t.puts = st.puts /\ t.anns = ev /\ t.cleanups = cl /\ up = cl
        /\ (term \/ st.ret = res.ret) /\ st.post = LastRec(pre, t)
   THEN {} ELSE {"conf"})
  \cup (IF aligned THEN {} ELSE {"C17.onePerApplied"})
  \cup (IF \A i \in Pairs : ViewMatches(st.ann[i].view, p[i+1]) THEN {} ELSE {"C17.snapshot"})
  \cup (IF \A i \in Pairs : Dest(ev[i], p[i].status) # "INV" /\ p[i].status \notin Terminal THEN {} ELSE {"C17.noInvalid"})
  (* ---- C02 ---- *)
  \cup (IF term => (k = 0 /\ st.ann = << >> /\ st.post = pre /\ st.env = << >> /\ st.ret \in {"nil","terminated","pause"}
                    /\ (st.op = "Cancel" => st.ret = "nil"))
        THEN {} ELSE {"C02.final"})
  \cup (IF \A i \in 1..k : p[i].status \in Terminal => FALSE THEN {} ELSE {"C02.noWriteAfterTerminal"})
  (* what a QUERY of a terminal channel returns after the operation is still what its (unchanged) record says: no accessor moves *)
  \cup (IF term => ViewMatches(st.postView, pre) THEN {} ELSE {"C02.viewFinal"})
  (* ---- C03 ---- *)
  \cup (IF \A i \in Pairs : (ev[i] \in BookkeepingEvents /\ ~(ev[i] = "ResumeResponder" /\ p[i].status = "Finalizing"))
                              => p[i+1].status = p[i].status
        THEN {} ELSE {"C03.bookkeeping"})
  \cup (IF \A i \in Pairs : ev[i] \in LifecycleEvents \cup {"Error"}
                              => Counters(p[i+1]) = Counters(p[i]) /\ Flags(p[i+1]) = Flags(p[i]) /\ Logs(p[i+1]) = Logs(p[i])
                                 /\ p[i+1].limit = p[i].limit /\ p[i+1].reqFin = p[i].reqFin
        THEN {} ELSE {"C03.lifecycle"})
  \cup (IF \A i \in Pairs : (p[i+1].status = "Completing" /\ p[i].status # "Completing" /\ isInit /\ p[i].status \notin Deprecated)
                              => \/ (ev[i] = "FinishTransfer" /\ p[i].status \in {"ResponderCompleted","AwaitingAcceptance"})
                                 \/ (ev[i] = "ResponderCompletes" /\ p[i].status \in {"TransferFinished","ResponderFinalizingTransferFinished"})
                                 \/ ev[i] \in {"Complete","ResumeResponder"}      \* responder-only events, role-inconsistent on an initiator
        THEN {} ELSE {"C03.onlyBoth"})
  \cup (IF \A i \in Pairs : /\ (ev[i] = "FinishTransfer" /\ p[i].status = "ResponderCompleted") => p[i+1].status = "Completing"
                            /\ (ev[i] = "ResponderCompletes" /\ p[i].status \in {"TransferFinished","ResponderFinalizingTransferFinished"}) => p[i+1].status = "Completing"
                            /\ (ev[i] = "FinishTransfer" /\ p[i].status \in {"Ongoing","Queued","Requested"}) => p[i+1].status = "TransferFinished"
                            /\ (ev[i] = "ResponderCompletes" /\ p[i].status \in {"Ongoing","Queued","Requested","AwaitingAcceptance"}) => p[i+1].status = "ResponderCompleted"
                            /\ (ev[i] = "ResponderBeginsFinalization" /\ p[i].status \notin Cleanup) => p[i+1].status \in {"ResponderFinalizing","ResponderFinalizingTransferFinished"}
                            /\ (ev[i] = "FinishTransfer" /\ p[i].status = "ResponderFinalizing") => p[i+1].status = "ResponderFinalizingTransferFinished"
                            /\ (ev[i] = "CleanupComplete") => (p[i].status \in Cleanup /\ p[i+1].status = TerminalOf(p[i].status))
        THEN {} ELSE {"C03.bothEnough"})
  \cup (IF \A i \in Pairs : (p[i].status = "Finalizing" /\ p[i+1].status # "Finalizing")
                              => (ev[i] \in {"ResumeResponder","Cancel","Error","Open","FinishTransfer","ResponderCompletes","ResponderBeginsFinalization","Complete"}
                                  /\ (ev[i] = "ResumeResponder" => p[i+1].status = "Completing"))
        THEN {} ELSE {"C03.finalizing"})
  \cup (IF \A i \in Pairs : (p[i].status = "Finalizing" /\ ev[i] = "ResumeResponder") => (p[i+1].status = "Completing" /\ ~p[i+1].rp)
        THEN {} ELSE {"C03.finalizingRelease"})
  \cup (IF \A i \in Pairs : p[i+1].status = "Finalizing" => st.ann[i].view.rpView THEN {} ELSE {"C03.finalizingPaused"})
  (* ---- C11 ---- *)
  \cup (IF \A i \in Pairs : /\ ev[i] \in {"PauseInitiator","ResumeInitiator"} => p[i+1].rp = p[i].rp
                            /\ ev[i] \in {"PauseResponder","ResumeResponder","DataLimitExceeded"} => p[i+1].ip = p[i].ip
                            /\ ev[i] \notin PauseEvents => Flags(p[i+1]) = Flags(p[i])
        THEN {} ELSE {"C11.ownFlagOnly"})
  \cup (IF \A i \in Pairs : /\ ev[i] = "PauseInitiator" => p[i+1].ip
                            /\ ev[i] = "ResumeInitiator" => ~p[i+1].ip
                            /\ ev[i] \in {"PauseResponder","DataLimitExceeded"} => p[i+1].rp
                            /\ ev[i] = "ResumeResponder" => ~p[i+1].rp
        THEN {} ELSE {"C11.follows"})
  \cup (IF (st.op \in {"PauseInitiator","ResumeInitiator","PauseResponder","ResumeResponder"} /\ ~term)
           => (IF Dest(st.op, pre.status) = "INV" THEN (k = 0 /\ st.post = pre) ELSE k >= 1)
        THEN {} ELSE {"C11.ignoredWhereMeaningless"})
  \cup (IF ViewsConsistent(st.postView, st.ident) /\ ViewMatches(st.postView, st.post)
           /\ \A i \in Pairs : ViewsConsistent(st.ann[i].view, st.ident)
        THEN {} ELSE {"C19.views"})
  \cup (IF st.postView.panics = << >> /\ \A i \in 1..Len(st.ann) : st.ann[i].view.panics = << >> THEN {} ELSE {"C19.total"})
  \cup (IF \A i \in 1..k : IsPrefix(p[i].vouchers, p[i+1].vouchers) /\ IsPrefix(p[i].results, p[i+1].results)
                           /\ Len(p[i+1].vouchers) <= Len(p[i].vouchers) + 1 /\ Len(p[i+1].results) <= Len(p[i].results) + 1
        THEN {} ELSE {"C19.appendOnly"})
  \cup (IF (st.op = "NewVoucher" /\ ~term) => (k >= 1 /\ p[2].vouchers = Append(pre.vouchers, st.args.v) /\ p[2].results = pre.results) THEN {} ELSE {"C19.recordVoucher"})
  \cup (IF (st.op = "NewVoucherResult" /\ ~term) => (k >= 1 /\ p[2].results = Append(pre.results, st.args.v) /\ p[2].vouchers = pre.vouchers) THEN {} ELSE {"C19.recordResult"})
  \cup (IF st.identOK THEN {} ELSE {"C19.identity"})
  (* ---- C09 : one cleanup + one unprotect per entry into a cleanup status, then the terminal status ---- *)
  \cup (IF (entered # {} /\ pre.status \notin Cleanup) => (cl = Cardinality(entered) /\ up = cl) THEN {} ELSE {"C09.exactlyOnce"})
  \cup (IF (entered # {}) => st.post.status \in Terminal THEN {} ELSE {"C09.settles"})
  \cup (IF (st.post.status \in Terminal /\ ~term /\ pre.status \notin Cleanup) => cl >= 1 THEN {} ELSE {"C09.neverWithout"})
  \cup (IF \A i \in Pairs : p[i].status \in Cleanup => p[i+1].status \in Cleanup \cup {TerminalOf(p[i].status)} THEN {} ELSE {"C09.staysInCleanup"})
  \cup (IF \A j \in 1..Len(st.env) : st.env[j].call = "unprotect" => st.env[j].peer = (IF st.ident.self = st.ident.initiator THEN st.ident.responder ELSE st.ident.initiator)
        THEN {} ELSE {"C09.unprotectPeer"})
  (* ---- C07 ---- *)
  \cup (IF \A i \in 1..k : /\ p[i+1].queued >= p[i].queued /\ p[i+1].sent >= p[i].sent /\ p[i+1].received >= p[i].received
                           /\ p[i+1].qIdx >= p[i].qIdx /\ p[i+1].sIdx >= p[i].sIdx /\ p[i+1].rIdx >= p[i].rIdx
        THEN {} ELSE {"C07.monotone"})
  \cup (IF (st.op \in DataOps /\ (~st.args.unique \/ st.args.index <= hw))
           => (st.post.queued = pre.queued /\ st.post.sent = pre.sent /\ st.post.received = pre.received)
        THEN {} ELSE {"C07.noGain"})
  \cup (IF (st.op \in DataOps /\ st.args.unique /\ st.args.index > hw /\ pre.status \in Transferring)
           => /\ st.post.queued = pre.queued + (IF st.op = "DataQueued" THEN st.args.delta ELSE 0)
              /\ st.post.sent = pre.sent + (IF st.op = "DataSent" THEN st.args.delta ELSE 0)
              /\ st.post.received = pre.received + (IF st.op = "DataReceived" THEN st.args.delta ELSE 0)
        THEN {} ELSE {"C07.bytes"})
  \cup (IF (st.op \in DataOps /\ (pre.status \in Transferring \/ (st.op = "DataReceived" /\ ~term) \/ (pre.status = "TransferFinished" /\ st.op # "DataReceived")))
           => IdxOf(st.post, st.op) = MaxN(IdxOf(pre, st.op), st.args.index)
        THEN {} ELSE {"C07.index"})
  \cup (IF st.op \notin DataOps => Counters(st.post) = Counters(pre) THEN {} ELSE {"C07.onlyReports"})
  (* ---- C08 (channel level) ---- *)
  \cup (IF (st.op \in DataOps /\ ~term) => (st.ret = "pause") = (res.ret = "pause") THEN {} ELSE {"C08.pauseAt"})
  \cup (IF (st.op \in DataOps /\ st.ret = "pause" /\ ~term /\ Dest("DataLimitExceeded", IF k = 0 THEN pre.status ELSE p[k].status) # "INV")
           => (\E i \in Pairs : ev[i] = "DataLimitExceeded" /\ p[i+1].rp)
        THEN {} ELSE {"C08.pauseFx"})
  \cup (IF (st.op = "SetDataLimit" /\ ~term) => (st.post.limit = st.args.limit) THEN {} ELSE {"C08.setLimit"})

RECURSIVE JudgeSteps(_, _, _, _)
JudgeSteps(cid, steps, i, cm) ==
  IF i > Len(steps) THEN {}
  ELSE LET st == steps[i] IN
    IF st.op = "reopen" THEN JudgeSteps(cid, steps, i + 1, << >>)
    ELSE
      LET known == {j \in 1..Len(cm) : cm[j][1] = st.c}
          cache == IF known = {} THEN FreshCache ELSE cm[CHOOSE j \in known : TRUE][2]
          res   == OpResult(st.op, st.args, st.pre, cache)
          cm2   == SelectSeq(cm, LAMBDA x : x[1] # st.c) \o << <<st.c, res.cache>> >>
          bad   == IF st.err # "" THEN {"harness"} ELSE StepRules(st, cache)
      IN {[case |-> cid, i |-> i, rule |-> r, status |-> st.pre.status, op |-> st.op] : r \in bad}
         \cup JudgeSteps(cid, steps, i + 1, cm2)

Verdicts == UNION {JudgeSteps(Cases[n].case, Cases[n].steps, 1, << >>) : n \in 1..Len(Cases)}

ASSUME ndJsonSerialize(OutFile, SetToSeq(Verdicts))
ASSUME PrintT(<<"@@judged", Len(Cases)>>)
=============================================================================

------------------------------- MODULE NetOps -------------------------------
(* Pure operators for the libp2p network adapter (network/libp2p_impl.go), shared by the process model  *)
(* Net.tla (model checking, export of behaviours) and the judge NetJudge.tla (evaluation of            *)
(* observations recorded from the real code).                                                            *)
(*                                                                                                       *)
(* OUTBOUND  SendMessage = openStream ; MessageForProtocol ; msgToStream ; Reset | Close                 *)
(*   A state is a record, a step is labelled by an event.  Events of the code:                           *)
(*     "call"     first host.NewStream call (no ctx check precedes it)                                   *)
(*     "timer"    time.After(d) fired in the backoff select: next host.NewStream call                     *)
(*     "ctxdone"  ctx.Done() taken in the backoff select: return ctx.Err()                               *)
(*   events of the environment:                                                                          *)
(*     "cancel"                      the caller's context is cancelled (any time before the return)      *)
(*     "ret:ok" "ret:fail" "ret:hang" "ret:ctx"   outcome of the NewStream call in flight                *)
(*            (hang = blocks until its context ends: openStreamTimeout or cancellation;                  *)
(*             ctx  = called with an already cancelled context: fails at once - libp2p's contract)       *)
(*     "conv:ok" "conv:bad"          the opened stream speaks / does not speak a known protocol          *)
(*     "write:ok" "write:fail0" "write:failMid"   stream write: all bytes, error at once, error midway   *)
(*     "reset:ok" "reset:fail"  "close:ok" "close:fail"                                                  *)
(*   bug (a field of the state, "none" for the reference semantics) switches on model-level mutants     *)
(*   used as vacuity controls of the invariants of Net.tla.                                              *)
EXTENDS Naturals, Sequences, FiniteSets, TLC

MaxOf(a, b) == IF a >= b THEN a ELSE b
MinOf(a, b) == IF a <= b THEN a ELSE b

OutEvents == {"cancel", "call", "ret:ok", "ret:fail", "ret:hang", "ret:ctx", "timer", "ctxdone",
              "conv:ok", "conv:bad", "write:ok", "write:fail0", "write:failMid",
              "reset:ok", "reset:fail", "close:ok", "close:fail"}
EnvChoice == OutEvents \ {"call", "timer", "ctxdone"}

OutInit(max, bug) ==
  [pc |-> "init", max |-> max, bug |-> bug,
   b |-> 0,                    \* backoff.Attempt()
   n |-> 0,                    \* host.NewStream calls made
   cancelled |-> FALSE, cancelAt |-> "none", cancelK |-> 0,   \* where the cancellation fell: pc and n at that time
   entryCancelled |-> FALSE,   \* the call in flight was made with a cancelled context
   outs |-> << >>,             \* outcome of every NewStream call
   opened |-> FALSE, conv |-> "none", write |-> "none", reset |-> "none", close |-> "none",
   ret |-> "none",             \* nil | exhausted | ctx | conv | write | reset | close
   delivered |-> 0,            \* complete messages handed to the stream that the peer will see
   callsAfterCancel |-> 0,     \* NewStream calls started while cancelled (other than the very first call)
   callsAfterOpen |-> 0]

OutEnabled(s, e) ==
  CASE e = "cancel"  -> ~s.cancelled /\ s.pc # "done"
    [] e = "call"    -> s.pc = "init"
    [] e \in {"ret:ok", "ret:fail", "ret:hang"} -> s.pc = "attempt" /\ ~s.entryCancelled
    [] e = "ret:ctx" -> s.pc = "attempt" /\ s.entryCancelled
    [] e = "timer"   -> s.pc = "wait" /\ (~s.cancelled \/ s.bug = "ignoreCtx")
    [] e = "ctxdone" -> s.pc = "wait" /\ s.cancelled /\ s.bug # "ignoreCtx"
    [] e \in {"conv:ok", "conv:bad"} -> s.pc = "conv"
    [] e \in {"write:ok", "write:fail0", "write:failMid"} -> s.pc = "write"
    [] e \in {"reset:ok", "reset:fail"} -> s.pc = "reset"
    [] e \in {"close:ok", "close:fail"} -> s.pc = "close"
    [] OTHER -> FALSE

Exhausted(s) == IF s.bug = "offByOne" THEN s.b + 1 > s.max ELSE s.b + 1 >= s.max

Outcome(e) == CASE e = "ret:ok" -> "ok" [] e = "ret:fail" -> "fail" [] e = "ret:hang" -> "hang" [] OTHER -> "ctx"

OutStep(s, e) ==
  CASE e = "cancel" -> [s EXCEPT !.cancelled = TRUE, !.cancelAt = s.pc, !.cancelK = s.n]
    [] e \in {"call", "timer"} ->
         [s EXCEPT !.pc = "attempt", !.n = s.n + 1, !.entryCancelled = s.cancelled,
                   !.callsAfterCancel = s.callsAfterCancel + (IF s.cancelled /\ e = "timer" THEN 1 ELSE 0),
                   !.callsAfterOpen = s.callsAfterOpen + (IF s.opened THEN 1 ELSE 0)]
    [] e = "ret:ok" ->
         IF s.bug = "retryAfterOk" /\ s.b = 0 /\ s.max > 1
         THEN [s EXCEPT !.outs = Append(s.outs, "ok"), !.opened = TRUE, !.b = 1, !.pc = "wait"]
         ELSE [s EXCEPT !.outs = Append(s.outs, "ok"), !.opened = TRUE, !.pc = "conv"]
    [] e \in {"ret:fail", "ret:hang", "ret:ctx"} ->
         IF Exhausted(s)
         THEN [s EXCEPT !.outs = Append(s.outs, Outcome(e)), !.pc = "done", !.ret = "exhausted"]
         ELSE [s EXCEPT !.outs = Append(s.outs, Outcome(e)), !.b = s.b + 1, !.pc = "wait"]
    [] e = "ctxdone"  -> [s EXCEPT !.pc = "done", !.ret = "ctx"]
    [] e = "conv:ok"  -> [s EXCEPT !.conv = "ok", !.pc = "write"]
    [] e = "conv:bad" -> [s EXCEPT !.conv = "bad", !.pc = "done", !.ret = "conv"]      \* NB the stream is neither reset nor closed
    [] e = "write:ok" -> [s EXCEPT !.write = "ok", !.delivered = s.delivered + 1, !.pc = "close"]
    [] e \in {"write:fail0", "write:failMid"} ->
         IF s.bug = "noReset"
         THEN [s EXCEPT !.write = (IF e = "write:fail0" THEN "fail0" ELSE "failMid"), !.pc = "done", !.ret = "write"]
         ELSE [s EXCEPT !.write = (IF e = "write:fail0" THEN "fail0" ELSE "failMid"), !.pc = "reset"]
    [] e = "reset:ok"   -> [s EXCEPT !.reset = "ok", !.pc = "done", !.ret = "write"]
    [] e = "reset:fail" -> [s EXCEPT !.reset = "fail", !.pc = "done", !.ret = "reset"]
    [] e = "close:ok"   -> [s EXCEPT !.close = "ok", !.pc = "done", !.ret = "nil"]
    [] e = "close:fail" -> [s EXCEPT !.close = "fail", !.pc = "done", !.ret = "close"]

RECURSIVE OutRunFrom(_, _, _)
OutRunFrom(s, evs, i) ==
  IF i > Len(evs) THEN s
  ELSE IF ~OutEnabled(s, evs[i]) THEN [s EXCEPT !.pc = "badscript"]
  ELSE OutRunFrom(OutStep(s, evs[i]), evs, i + 1)
OutRun(max, evs) == OutRunFrom(OutInit(max, "none"), evs, 1)

Cap(max) == MaxOf(1, max)

(* ---- the property formulas of C15 (outbound) on a state of the model ---- *)
OutCapOK(s)       == s.n <= Cap(s.max)
OutSuccessIffOK(s) == s.pc = "done" =>
                        ((s.ret = "nil") <=> (s.opened /\ s.conv = "ok" /\ s.write = "ok" /\ s.close = "ok"))
OutOnceOK(s)      == /\ s.delivered <= 1
                     /\ s.callsAfterOpen = 0
                     /\ Cardinality({i \in 1..Len(s.outs) : s.outs[i] = "ok"}) <= 1
                     /\ (s.pc = "done" /\ s.ret = "nil") => s.delivered = 1
OutPromptOK(s)    == /\ s.callsAfterCancel = 0
                     /\ (s.pc = "done" /\ s.cancelAt = "wait") => (s.ret = "ctx" /\ s.n = s.cancelK)
                     /\ (s.pc = "done" /\ s.cancelAt = "init") => (s.ret \in {"ctx", "exhausted"} /\ s.n = 1)
                     /\ (s.pc = "done" /\ s.cancelAt = "attempt" /\ ~s.opened) => (s.ret \in {"ctx", "exhausted"} /\ s.n = s.cancelK)
OutWriteFailOK(s) == (s.pc = "done" /\ s.write \in {"fail0", "failMid"}) =>
                        (s.reset # "none" /\ s.ret \in {"write", "reset"} /\ s.close = "none")

(* ------------------------------------------------------------------------------------------------- *)
(* INBOUND  handleNewStream(s): one stream from the authenticated peer carrying messages and then a   *)
(* terminator.  Events: "enter", a message shape, a terminator.                                        *)
ReqShapes  == {"reqNew", "reqRestart", "reqUpdate", "reqPause", "reqCancel", "reqVoucher"}
RespShapes == {"respNew", "respRestart", "respUpdate", "respCancel", "respComplete", "respVoucherResult"}
RxShapes   == {"rx"}
AllShapes  == ReqShapes \cup RespShapes \cup RxShapes
Kind3(shape) == IF shape \in RxShapes THEN "restart" ELSE IF shape \in ReqShapes THEN "request" ELSE "response"

QuietTerms == {"eof", "ueofHalf", "ueof1"}           \* clean end, end in the middle of a message
BadTerms   == {"garbageFF", "garbage1c",              \* not CBOR
               "shapeInt", "shapeList", "shapeEmptyMap", "shapeBadKey",   \* CBOR, not a transfer message
               "noBodyReq", "noBodyResp", "crossReq", "crossResp"}        \* envelope without the body it announces
AllTerms   == QuietTerms \cup BadTerms

InInit(peer, nilrecv, bug) ==
  [pc |-> "entry", peer |-> peer, nilrecv |-> nilrecv, bug |-> bug, i |-> 0, items |-> << >>, term |-> "none",
   calls |-> << >>,        \* handler calls: [h, peer, shape, idx]
   resets |-> 0, errs |-> 0, closes |-> 0]

InEnabled(s, e) ==
  CASE e = "enter" -> s.pc = "entry"
    [] e \in AllShapes \cup AllTerms -> s.pc = "read"
    [] OTHER -> FALSE

InStep(s, e) ==
  CASE e = "enter" -> IF s.nilrecv THEN [s EXCEPT !.pc = "done", !.resets = 1, !.closes = 1] ELSE [s EXCEPT !.pc = "read"]
    [] e \in AllShapes ->
         [s EXCEPT !.i = s.i + 1, !.items = Append(s.items, e),
                   !.calls = Append(s.calls, [h |-> (IF s.bug = "wrongHandler" /\ e = "rx" THEN "request" ELSE Kind3(e)),
                                              peer |-> (IF s.bug = "peerFromMsg" /\ e = "rx" THEN "M1" ELSE s.peer),
                                              shape |-> e, idx |-> s.i + 1])]
    [] e \in QuietTerms -> [s EXCEPT !.term = e, !.pc = "done", !.closes = 1]
    [] e \in BadTerms ->
         [s EXCEPT !.term = e, !.pc = "done", !.resets = 1, !.errs = 1, !.closes = 1,
                   !.calls = IF s.bug = "handlerOnBad" THEN Append(s.calls, [h |-> "request", peer |-> s.peer, shape |-> "nil", idx |-> s.i + 1]) ELSE s.calls]

RECURSIVE InRunFrom(_, _, _)
InRunFrom(s, evs, i) ==
  IF i > Len(evs) THEN s
  ELSE IF ~InEnabled(s, evs[i]) THEN [s EXCEPT !.pc = "badscript"]
  ELSE InRunFrom(InStep(s, evs[i]), evs, i + 1)
InRun(peer, nilrecv, evs) == InRunFrom(InInit(peer, nilrecv, "none"), evs, 1)

ExpectedCalls(peer, items) == [k \in 1..Len(items) |-> [h |-> Kind3(items[k]), peer |-> peer, shape |-> items[k], idx |-> k]]

(* ---- the property formulas of C15 (inbound) on a state of the model ---- *)
InDispatchOK(s)  == /\ \A k \in 1..Len(s.calls) : k <= Len(s.items) /\ s.calls[k] = ExpectedCalls(s.peer, s.items)[k]
                    /\ s.pc = "done" => Len(s.calls) = Len(s.items)
InMalformedOK(s) == /\ (s.pc = "done" /\ s.term \in BadTerms) => (s.resets >= 1 /\ s.errs = 1 /\ Len(s.calls) = Len(s.items))
                    /\ (s.pc = "done" /\ s.nilrecv) => (s.resets >= 1 /\ s.calls = << >> /\ s.errs = 0)
                    /\ s.term \notin BadTerms => s.errs = 0
=============================================================================

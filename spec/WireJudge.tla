----------------------------- MODULE WireJudge -----------------------------
(* Judge of the observations recorded by harness/wirex from the real message package (property C12).    *)
(* Input : ObsFile    - one row per replayed constructor call: the call (ctor, a), the distinct observable *)
(*                      projections seen (os) and which of them was seen on the constructed message (o0),  *)
(*                      after ToNet/FromNet (net), ToIPLD/FromIPLD (ipld), ToExtensionData/GetTransferData  *)
(*                      (ext) and after decoding re-orderings of the same tree (perm); the flags "bytes ==  *)
(*                      independent rendering of Layout(m)"; counters of the hostile-bytes neighbourhood.   *)
(*         EnvObsFile - one row per envelope shape: outcome class of both decoders + its neighbourhood.     *)
(* For every row TLC evaluates                                                                             *)
(*   conf  : the full observation equals the specification's (auxiliary predicates, constructor error,     *)
(*           decoder verdict on malformed envelopes) - reported as drift                                   *)
(*   C12.* : the property's formulas on the OBSERVED values                                                 *)
(* and writes the failed (case, rule, ...) rows to VerdictFile.                                            *)
EXTENDS Wire

CONSTANTS ObsFile, EnvObsFile, VerdictFile
Rows == ndJsonDeserialize(ObsFile)
Envs == ndJsonDeserialize(EnvObsFile)

SetOf(q) == {q[j] : j \in 1..Len(q)}
NormObs(x) == IF x = "none" THEN "null" ELSE x           \* an accessor error and an IPLD null both mean "none"
KindsOf(o) == PrimaryKinds(o.isRq, SetOf(o.preds))

(* the fields the property names: kind, id, flags, base, selector, voucher(/result), type id, restart channel id *)
PropEq(o, e) ==
  /\ o.isRq = e.isRq /\ KindsOf(o) = {e.kind}
  /\ o.id = e.id
  /\ o.pull = e.pull /\ o.part = e.part /\ o.paus = e.paus /\ o.acpt = e.acpt
  /\ o.base = e.base /\ NormObs(o.sel) = e.sel /\ NormObs(o.v) = e.v /\ o.vt = e.vt
  /\ (e.rcOk => (o.rcOk /\ o.rc.i = e.rc.i /\ o.rc.r = e.rc.r /\ o.rc.id = e.rc.id))
(* everything observed, including the auxiliary predicates (IsVoucher, IsValidationResult) and accessor errors *)
FullEq(o, e) == PropEq(o, e) /\ SetOf(o.preds) = e.preds /\ o.rcOk = e.rcOk
                /\ (~e.rcOk => (o.rc.i = "pEmpty" /\ o.rc.r = "pEmpty" /\ o.rc.id = "0"))

PathOK(r, p, e)   == p.err = "" /\ p.o > 0 /\ PropEq(r.os[p.o], e)
PathFull(r, p, e) == p.o > 0 => FullEq(r.os[p.o], e)

RowRules(r) ==
  LET c == [ctor |-> r.ctor, a |-> r.a]
      e == Obs(Msg(c))
      paths == <<r.net, r.ipld, r.ext>>
  IN
  IF CtorFails(c) THEN (IF r.ctorErr /\ r.panics = << >> THEN {} ELSE {"conf"})
  ELSE
  (IF ~r.ctorErr /\ r.o0 > 0 /\ FullEq(r.os[r.o0], e) /\ \A j \in 1..3 : PathFull(r, paths[j], e) THEN {} ELSE {"conf"})
  \cup (IF ~r.ctorErr /\ r.o0 > 0 /\ PropEq(r.os[r.o0], e) /\ \A j \in 1..3 : PathOK(r, paths[j], e) THEN {} ELSE {"C12.lossless"})
  \cup (IF r.layoutEq /\ r.ipldLayoutEq /\ r.extLayoutEq THEN {} ELSE {"C12.layout"})
  \cup (IF r.perm.n > 0 /\ r.perm.errs = << >> /\ \A j \in 1..Len(r.perm.o) : PropEq(r.os[r.perm.o[j]], e) THEN {} ELSE {"C12.keyOrder"})
  \cup (IF /\ \A j \in 1..Len(r.os) : Cardinality(KindsOf(r.os[j])) = 1
           /\ (r.o0 > 0 => KindsOf(r.os[r.o0]) = {Kind(Msg(c))})
        THEN {} ELSE {"C12.oneKind"})
  \cup (IF \A j \in 1..Len(r.os) : r.os[j].acpt = (IF r.ctor = "ValidationResultResponse" THEN (~r.a.err) /\ r.a.accepted ELSE e.acpt)
        THEN {} ELSE {"C12.accepted"})
  \cup (IF r.panics = << >> /\ r.hostile.panic = 0 THEN {} ELSE {"C12.noPanic"})
  \cup (IF r.hostile.missing = 0 /\ \A j \in 1..3 : paths[j].err # "missing body" THEN {} ELSE {"C12.noMissingBody"})

EnvRules(x) ==
  LET s == x.shape
      classes == {x.net, x.ipld}
  IN
  (IF classes = {EnvVerdict(s)} THEN {} ELSE {"conf"})
  \cup (IF "panic" \notin classes /\ x.hostile.panic = 0 THEN {} ELSE {"C12.noPanic"})
  \cup (IF "missing" \notin classes /\ x.hostile.missing = 0 /\ (MissingBody(s) => classes \cap {"request", "response"} = {})
        THEN {} ELSE {"C12.noMissingBody"})

ShapeName(s) == "IsRq=" \o s.isRq \o ",Request=" \o s.rq \o ",Response=" \o s.rs \o (IF s.extra THEN ",extra" ELSE "")
Verdicts ==
  UNION {{[case |-> Rows[n].case, rule |-> ru, ctor |-> Rows[n].ctor, what |-> Kind(Msg([ctor |-> Rows[n].ctor, a |-> Rows[n].a]))] :
            ru \in RowRules(Rows[n])} : n \in 1..Len(Rows)}
  \cup UNION {{[case |-> Envs[n].case, rule |-> ru, ctor |-> "envelope", what |-> ShapeName(Envs[n].shape)] :
            ru \in EnvRules(Envs[n])} : n \in 1..Len(Envs)}

ASSUME ndJsonSerialize(VerdictFile, SetToSeq(Verdicts))
ASSUME PrintT(<<"@@judged", Len(Rows), Len(Envs)>>)

JInit == i = 0
JNext == UNCHANGED i
=============================================================================

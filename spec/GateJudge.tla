----------------------------- MODULE GateJudge -----------------------------
(* Judge of the gated replays (harness chanx/TestGated) of ChanGate.tla schedules.  One case per line:            *)
(*   exp : the schedule with the model's durable record before every step, final record, endings, cleanups ...     *)
(*   obs : what the real engine did: persisted record before every step, return classes, final record and view,    *)
(*         CleanupChannel / Unprotect calls, announcements (event, status), a handler still parked at the end       *)
(* conf   : the real engine followed the model step by step (drift when only this fails)                            *)
(* C09.*  : the property on the OBSERVED values - every ending cleaned up exactly once (calls counted on the        *)
(*          environment double), the channel settled in the terminal status of its ending, a channel that is         *)
(*          cleaning up never returns to an ordinary status, no handler left behind                                  *)
(* C02.*  : nothing is announced after the terminal announcement; C03.*: bookkeeping announcements keep the status  *)
EXTENDS ChanOps, Json, SequencesExt

CONSTANTS ObsFile, OutFile
Cases == ndJsonDeserialize(ObsFile)

St(c, i) == c.obs.anns[i].status
Ev(c, i) == c.obs.anns[i].ev
NA(c) == Len(c.obs.anns)
Prev(c, i) == IF i = 1 THEN "Requested" ELSE St(c, i-1)
(* an ending = an announced event whose row leads INTO a cleanup status (re-entry by a repeated ending event included);   *)
(* a rerun = the explicit clean-up-again request (CompleteCleanupOnRestart) taken in a cleanup status                      *)
Entered(c) == {i \in 1..NA(c) : Dest(Ev(c, i), Prev(c, i)) \in Cleanup}
Reruns(c) == {i \in 1..NA(c) : Ev(c, i) = "CompleteCleanupOnRestart" /\ Prev(c, i) \in Cleanup}
InCleanup(c) == {i \in 1..NA(c) : St(c, i) \in Cleanup}
FirstCleanup(c) == IF InCleanup(c) = {} THEN 0 ELSE CHOOSE i \in InCleanup(c) : \A j \in InCleanup(c) : i <= j
LastCleanup(c) == IF InCleanup(c) = {} THEN 0 ELSE CHOOSE i \in InCleanup(c) : \A j \in InCleanup(c) : i >= j

Rules(c) ==
  LET o == c.obs  e == c.exp
      ok == ~o.fatal
      fc == FirstCleanup(c)
  IN
  (IF o.err = "" /\ o.got = e.before /\ o.final = e.final /\ o.cleanups = e.cleanups /\ o.unprotects = e.unprotects
         /\ NA(c) = e.applied /\ o.parked = ""
   THEN {} ELSE {"conf"})
  \cup (IF ok => (o.final.status \in Terminal => (o.cleanups = Cardinality(Entered(c)) + Cardinality(Reruns(c)) /\ o.unprotects = o.cleanups)) THEN {} ELSE {"C09.exactlyOnce"})
  \cup (IF ok => (o.final.status \in Terminal => o.cleanups >= 1) THEN {} ELSE {"C09.neverWithout"})
  \cup (IF ok => (fc > 0 => o.final.status = TerminalOf(St(c, LastCleanup(c)))) THEN {} ELSE {"C09.settles"})
  \cup (IF ok => (fc > 0 => \A i \in (fc+1)..NA(c) :
                     /\ St(c, i) \in Cleanup \cup Terminal
                     /\ (St(c, i) # St(c, i-1) => Ev(c, i) \in {"Cancel","Error","Complete","CleanupComplete"})) THEN {} ELSE {"C09.staysInCleanup"})
  \cup (IF (ok /\ o.err = "") => o.parked = "" THEN {} ELSE {"C09.handlerFinishes"})
  \cup (IF ok THEN {} ELSE {"harness"})
  \cup (IF ok => \A i \in 1..NA(c) : St(c, i) \in Terminal => i = NA(c) THEN {} ELSE {"C02.silent"})
  \cup (IF ok => (o.final.status \in Terminal => o.finalView.status = o.final.status) THEN {} ELSE {"C02.final"})
  \cup (IF ok => \A i \in 2..NA(c) : (Ev(c, i) \in BookkeepingEvents /\ ~(Ev(c, i) = "ResumeResponder" /\ St(c, i-1) = "Finalizing")) => St(c, i) = St(c, i-1)
        THEN {} ELSE {"C03.bookkeeping"})

Verdicts == UNION {{[case |-> c.case, rule |-> r, status |-> c.obs.final.status, op |-> c.exp.final.status, i |-> 0] : r \in Rules(c)} : c \in {Cases[i] : i \in 1..Len(Cases)}}
ASSUME ndJsonSerialize(OutFile, SetToSeq(Verdicts))
ASSUME PrintT(<<"@@judged", Len(Cases)>>)
=============================================================================

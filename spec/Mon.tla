-------------------------------- MODULE Mon --------------------------------
(* The channel monitor (channelmonitor/channelmonitor.go) for ONE monitored channel, in discrete time.    *)
(*                                                                                                        *)
(* Every goroutine of the code is a process with its own program counter / pending counter:                *)
(*   subscriber callback       Deliver (atomic: it only spawns goroutines, stops a timer or resets a count) *)
(*   accept-timer goroutine    apc  : none | wait | close | doclose | done  (select on ctx.Done / timer.C)  *)
(*   `go watchForResponderComplete`   cgo (spawned, timer not yet created), cw (waiting, by deadline),      *)
(*                             cclose (took the timer branch, about to call closeChannelAndShutdown),      *)
(*                             cdoclose (won Shutdown(), about to call CloseDataTransferChannelWithError)  *)
(*   `go restartChannelDebounced`     dbgo (spawned, debouncer not yet called) ; dbArmed/dbDl = AfterFunc   *)
(*   AfterFunc -> restartChannel()    rcalls (entered, restartLk not yet taken)                            *)
(*   the restartChannel loop   lp[s].pc : idle | count | connect | connWait | restart | rsWait | backoff |  *)
(*                             loop | close | doclose | dead   with restartLk state inFlight (restartedAt  *)
(*                             # 0),                                                                       *)
(*                             queued (restartQueued), consec (consecutiveRestarts)                        *)
(*   `go mc.Shutdown()`        shgo : ITS OWN process (window between "seen terminal" and "shut")           *)
(*   `go mc.onShutdown(chid)`  delgo (delete from Monitor.channels)                                        *)
(* shutdownLk "first shutdown wins": shut (cancel == nil, ctx cancelled), unsubgo (ctx cancelled, unsub()    *)
(* not yet called: goroutines woken by ctx.Done() run in this window), subd (still subscribed).             *)
(*                                                                                                        *)
(* Time: `now` advances by Tick only when no process can take a step (maximal progress: goroutines are     *)
(* infinitely fast compared with a tick - exactly the semantics of testing/synctest, where the fake clock  *)
(* moves only when every goroutine is durably blocked).  Timers, debounce, backoff and call latencies are   *)
(* absolute deadlines on the grid.  All races the code has therefore show up as SAME-INSTANT interleavings. *)
(*                                                                                                        *)
(* Environment: events (code, status) at any instant (after an event with a cleanup/terminal status only    *)
(* such events follow: C02), the external mc.Shutdown() the manager issues when it cannot send the          *)
(* request ("Shut"), outcome (ok/fail, at most MaxFails failures) and latency of every ConnectTo /          *)
(* RestartDataTransferChannel call.  The double honours ctx: a call entered with a cancelled context        *)
(* returns an error at once ("ctx"), a call waiting out its latency returns an error when ctx ends.         *)
(*                                                                                                        *)
(* The configuration is part of the state (chosen in Init from CfgSpace) so that one TLC run quantifies     *)
(* over all configurations.                                                                               *)
EXTENDS Integers, Sequences, FiniteSets, TLC, Json

CONSTANTS EnSet,      \* subset of BOOLEAN : monitoring enabled (cfg # nil)
          MaxSet,     \* values of MaxConsecutiveRestarts
          AccSet,     \* values of AcceptTimeout   (ticks; 0 = disabled)
          CmpSet,     \* values of CompleteTimeout (ticks; 0 = disabled)
          DebSet,     \* values of RestartDebounce
          BofSet,     \* values of RestartBackoff
          HzSet,      \* values of the time horizon
          Lats,       \* latencies of ConnectTo / Restart calls
          MaxEvents,  \* bound on environment events
          MaxFails,   \* bound on failing call outcomes
          Codes,      \* event codes the environment uses (plus "Shut" = external mc.Shutdown())
          Stats,      \* statuses the environment uses
          Record,     \* BOOLEAN: keep the merged history h.log (simulation, counterexample dump, trace validation)
          Thin,       \* simulation only: an environment event is offered with probability 1/Thin (1 = always)
          Bug,        \* "none", or the name of a seeded defect (to show that the properties are falsifiable)
          CexBy       \* which closer ForgetsStrictDump looks for: "accept" | "complete" | "restarts" | "any"

VARIABLES cfg, now, nev, nfail, finSent,
          shut, subd, listed, unsubgo, delgo, shgo,
          atimer, apc, cgo, cw, cclose, cdoclose,
          dbgo, dbArmed, dbDl,
          rcalls, inFlight, queued, consec, lp,
          h

mvars == <<shut, subd, listed, unsubgo, delgo, shgo, atimer, apc, cgo, cw, cclose, cdoclose, dbgo, dbArmed, dbDl, rcalls, inFlight, queued, consec, lp>>
vars  == <<cfg, now, nev, nfail, finSent, shut, subd, listed, unsubgo, delgo, shgo, atimer, apc, cgo, cw, cclose, cdoclose,
           dbgo, dbArmed, dbDl, rcalls, inFlight, queued, consec, lp, h>>

Slots     == {1, 2}          \* a second loop slot exists only so that OneAtATime is a statement, not a tautology
ErrCodes  == {"SendDataError", "ReceiveDataError"}
DataCodes == {"DataSent", "DataReceived"}
FinStats  == {"Completing", "Failing", "Cancelling", "Completed", "Failed", "Cancelled"}
WaitPcs   == {"connWait", "rsWait", "backoff"}

CfgSpace == [en : EnSet, max : MaxSet, acc : AccSet, cmp : CmpSet, deb : DebSet, bof : BofSet, hz : HzSet]

MinS(S) == CHOOSE x \in S : \A y \in S : x <= y
Idle    == [pc |-> "idle", ret |-> 0, res |-> ""]
Entry(call, res, lat, code, st) == [call |-> call, t |-> now, res |-> res, lat |-> lat, code |-> code, st |-> st]
LogApp(l, e) == IF Record THEN Append(l, e) ELSE l

H0 == [closes |-> 0, closeBy |-> "", closeAt |-> -1, seen |-> FALSE, seenAt |-> -1, accAt |-> -1,
       shutBy |-> "", shutAt |-> -1, cas |-> FALSE, att |-> 0, reqd |-> 0, cdl |-> {}, dumped |-> FALSE, log |-> << >>]

InitWith(c) ==
  /\ cfg = c
  /\ now = 0 /\ nev = 0 /\ nfail = 0 /\ finSent = FALSE
  /\ shut = FALSE /\ subd = cfg.en /\ listed = cfg.en /\ unsubgo = 0 /\ delgo = 0 /\ shgo = 0
  /\ atimer = (IF cfg.en /\ cfg.acc > 0 THEN "armed" ELSE "off")
  /\ apc = (IF cfg.en /\ cfg.acc > 0 THEN "wait" ELSE "none")
  /\ cgo = 0 /\ cw = << >> /\ cclose = 0 /\ cdoclose = 0
  /\ dbgo = 0 /\ dbArmed = FALSE /\ dbDl = 0
  /\ rcalls = 0 /\ inFlight = FALSE /\ queued = FALSE /\ consec = 0
  /\ lp = [s \in Slots |-> Idle]
  /\ h = [H0 EXCEPT !.log = IF Record /\ cfg.en THEN << [call |-> "subscribe", t |-> 0, res |-> "", lat |-> 0, code |-> "", st |-> ""] >> ELSE << >>]

Init == \E c \in CfgSpace : InitWith(c)

(* ---- mc.Shutdown() and closeChannelAndShutdown ------------------------------------------------------ *)
UnsubE == Entry("unsub", "", 0, "", "")
(* mc.Shutdown() by `by` (shutdownLk): the first one cancels the context (cancel = nil) and then - a separate step,
   UnsubStep, because goroutines woken by ctx.Done() can run in between - unsubscribes and spawns onShutdown *)
DoShutdown(by, hh) ==
  IF ~shut
  THEN /\ shut' = TRUE /\ unsubgo' = 1
       /\ h' = [hh EXCEPT !.shutBy = by, !.shutAt = now]
  ELSE /\ UNCHANGED <<shut, unsubgo>> /\ h' = hh
UnsubStep ==
  /\ unsubgo = 1 /\ unsubgo' = 0
  /\ subd' = (IF Bug = "noUnsub" THEN subd ELSE FALSE)
  /\ delgo' = delgo + 1
  /\ h' = [h EXCEPT !.log = LogApp(@, UnsubE)]
  /\ UNCHANGED <<cfg, now, nev, nfail, finSent, shut, listed, shgo, atimer, apc, cgo, cw, cclose, cdoclose, dbgo, dbArmed, dbDl, rcalls, inFlight, queued, consec, lp>>
(* closeChannelAndShutdown(err) is two steps: Shutdown() (shutdownLk), and - only for the first shutdown - the
   CloseDataTransferChannelWithError call, after the lock was released *)
WinsShutdown == ~shut \/ Bug = "secondClose"
CloseCall(reason) ==
  h' = [h EXCEPT !.closes = @ + 1, !.closeBy = reason, !.closeAt = now, !.cas = (@ \/ h.seen),
                 !.log = LogApp(@, Entry("close", reason, 0, "", ""))]

(* ---- environment ------------------------------------------------------------------------------------ *)
Offered(x) == Thin = 1 \/ RandomElement(1..(Thin + 0 * x)) = 1   \* (a parameter, so that TLC does not evaluate it once and for all)

(* the subscriber callback, run on the environment's (notifier) goroutine *)
Deliver(c, st, hh) ==
  IF st \in FinStats
  THEN /\ shgo' = shgo + 1                                                   \* go mc.Shutdown()
       /\ h' = [hh EXCEPT !.seen = TRUE, !.seenAt = (IF hh.seen THEN @ ELSE now)]
       /\ UNCHANGED <<shut, subd, listed, unsubgo, delgo, atimer, apc, cgo, cw, cclose, cdoclose, dbgo, dbArmed, dbDl, rcalls, inFlight, queued, consec, lp>>
  ELSE CASE c = "Accept" ->
              /\ atimer' = (IF atimer = "armed" /\ Bug # "noCancelAccept" THEN "stopped" ELSE atimer)   \* timer.Stop()
              /\ h' = [hh EXCEPT !.accAt = (IF @ = -1 THEN now ELSE @)]
              /\ UNCHANGED <<shut, subd, listed, unsubgo, delgo, shgo, apc, cgo, cw, cclose, cdoclose, dbgo, dbArmed, dbDl, rcalls, inFlight, queued, consec, lp>>
         [] c \in ErrCodes ->
              /\ dbgo' = dbgo + 1 /\ h' = hh                                   \* go mc.restartChannelDebounced(err)
              /\ UNCHANGED <<shut, subd, listed, unsubgo, delgo, shgo, atimer, apc, cgo, cw, cclose, cdoclose, dbArmed, dbDl, rcalls, inFlight, queued, consec, lp>>
         [] c = "FinishTransfer" ->
              /\ (IF cfg.cmp > 0 THEN cgo' = cgo + 1 /\ h' = [hh EXCEPT !.cdl = @ \cup {now + cfg.cmp}]   \* go mc.watchForResponderComplete()
                  ELSE cgo' = cgo /\ h' = hh)
              /\ UNCHANGED <<shut, subd, listed, unsubgo, delgo, shgo, atimer, apc, cw, cclose, cdoclose, dbgo, dbArmed, dbDl, rcalls, inFlight, queued, consec, lp>>
         [] c \in DataCodes ->
              /\ consec' = (IF Bug = "noReset" THEN consec ELSE 0)             \* resetConsecutiveRestarts (restartLk)
              /\ h' = [hh EXCEPT !.att = 0]
              /\ UNCHANGED <<shut, subd, listed, unsubgo, delgo, shgo, atimer, apc, cgo, cw, cclose, cdoclose, dbgo, dbArmed, dbDl, rcalls, inFlight, queued, lp>>
         [] OTHER -> h' = hh /\ UNCHANGED mvars

EnvFree == ~(unsubgo = 1 /\ h.shutBy = "ext")     \* the environment's goroutine is not inside its own mc.Shutdown()
EnvEvent(c, st) ==
  /\ ~h.dumped /\ EnvFree /\ nev < MaxEvents /\ c \in Codes \ {"Shut"} /\ st \in Stats /\ (finSent => st \in FinStats)
  /\ (subd \/ Record)            \* an event nobody is subscribed to changes nothing: not explored, but recorded in histories
  /\ Offered(nev)
  /\ nev' = nev + 1 /\ finSent' = (finSent \/ st \in FinStats)
  /\ LET hh == [h EXCEPT !.log = LogApp(@, Entry("ev", IF subd THEN "d" ELSE "n", 0, c, st))] IN
       IF subd THEN Deliver(c, st, hh) ELSE (h' = hh /\ UNCHANGED mvars)
  /\ UNCHANGED <<cfg, now, nfail>>

(* the manager calls mc.Shutdown() itself when the request could not be sent *)
EnvShut ==
  /\ ~h.dumped /\ EnvFree /\ nev < MaxEvents /\ "Shut" \in Codes /\ cfg.en /\ Offered(nev)
  /\ nev' = nev + 1
  /\ DoShutdown("ext", [h EXCEPT !.log = LogApp(@, Entry("ev", "d", 0, "Shut", ""))])
  /\ UNCHANGED <<cfg, now, nfail, finSent, subd, listed, delgo, shgo, atimer, apc, cgo, cw, cclose, cdoclose, dbgo, dbArmed, dbDl, rcalls, inFlight, queued, consec, lp>>

(* ---- `go mc.Shutdown()` and `go mc.onShutdown(chid)` -------------------------------------------------- *)
ShutdownG ==
  /\ shgo > 0 /\ shgo' = shgo - 1
  /\ DoShutdown("fin", h)
  /\ UNCHANGED <<cfg, now, nev, nfail, finSent, subd, listed, delgo, atimer, apc, cgo, cw, cclose, cdoclose, dbgo, dbArmed, dbDl, rcalls, inFlight, queued, consec, lp>>
DeleteG ==
  /\ delgo > 0 /\ delgo' = delgo - 1 /\ listed' = FALSE
  /\ UNCHANGED <<cfg, now, nev, nfail, finSent, shut, subd, unsubgo, shgo, atimer, apc, cgo, cw, cclose, cdoclose, dbgo, dbArmed, dbDl, rcalls, inFlight, queued, consec, lp, h>>

(* ---- accept timer goroutine ---------------------------------------------------------------------------- *)
AcceptCtx ==      \* case <-mc.ctx.Done()
  /\ apc = "wait" /\ shut /\ apc' = "done"
  /\ UNCHANGED <<cfg, now, nev, nfail, finSent, shut, subd, listed, unsubgo, delgo, shgo, atimer, cgo, cw, cclose, cdoclose, dbgo, dbArmed, dbDl, rcalls, inFlight, queued, consec, lp, h>>
AcceptFire ==     \* case <-timer.C
  /\ apc = "wait" /\ atimer = "armed" /\ now >= cfg.acc /\ apc' = "close"
  /\ UNCHANGED <<cfg, now, nev, nfail, finSent, shut, subd, listed, unsubgo, delgo, shgo, atimer, cgo, cw, cclose, cdoclose, dbgo, dbArmed, dbDl, rcalls, inFlight, queued, consec, lp, h>>
AcceptClose ==    \* closeChannelAndShutdown: mc.Shutdown()
  /\ apc = "close" /\ apc' = (IF WinsShutdown THEN "doclose" ELSE "done") /\ DoShutdown("accept", h)
  /\ UNCHANGED <<cfg, now, nev, nfail, finSent, subd, listed, delgo, shgo, atimer, cgo, cw, cclose, cdoclose, dbgo, dbArmed, dbDl, rcalls, inFlight, queued, consec, lp>>
AcceptDoClose ==  \* ... then mgr.CloseDataTransferChannelWithError
  /\ apc = "doclose" /\ unsubgo = 0 /\ apc' = "done" /\ CloseCall("accept")
  /\ UNCHANGED <<cfg, now, nev, nfail, finSent, shut, subd, listed, unsubgo, delgo, shgo, atimer, cgo, cw, cclose, cdoclose, dbgo, dbArmed, dbDl, rcalls, inFlight, queued, consec, lp>>

(* ---- complete timer goroutines ------------------------------------------------------------------------- *)
RemoveAt(s, i) == SubSeq(s, 1, i - 1) \o SubSeq(s, i + 1, Len(s))
CompleteStart ==  \* the spawned goroutine creates its timer
  /\ cgo > 0 /\ cgo' = cgo - 1 /\ cw' = Append(cw, now + cfg.cmp)
  /\ UNCHANGED <<cfg, now, nev, nfail, finSent, shut, subd, listed, unsubgo, delgo, shgo, atimer, apc, cclose, cdoclose, dbgo, dbArmed, dbDl, rcalls, inFlight, queued, consec, lp, h>>
CompleteCtx(i) ==
  /\ i \in 1..Len(cw) /\ shut /\ cw' = RemoveAt(cw, i)
  /\ UNCHANGED <<cfg, now, nev, nfail, finSent, shut, subd, listed, unsubgo, delgo, shgo, atimer, apc, cgo, cclose, cdoclose, dbgo, dbArmed, dbDl, rcalls, inFlight, queued, consec, lp, h>>
CompleteFire(i) ==
  /\ i \in 1..Len(cw) /\ now >= cw[i] /\ cw' = RemoveAt(cw, i) /\ cclose' = cclose + 1
  /\ UNCHANGED <<cfg, now, nev, nfail, finSent, shut, subd, listed, unsubgo, delgo, shgo, atimer, apc, cgo, cdoclose, dbgo, dbArmed, dbDl, rcalls, inFlight, queued, consec, lp, h>>
CompleteClose ==
  /\ cclose > 0 /\ cclose' = cclose - 1 /\ cdoclose' = (IF WinsShutdown THEN cdoclose + 1 ELSE cdoclose) /\ DoShutdown("complete", h)
  /\ UNCHANGED <<cfg, now, nev, nfail, finSent, subd, listed, delgo, shgo, atimer, apc, cgo, cw, dbgo, dbArmed, dbDl, rcalls, inFlight, queued, consec, lp>>
CompleteDoClose ==
  /\ cdoclose > 0 /\ unsubgo = 0 /\ cdoclose' = cdoclose - 1 /\ CloseCall("complete")
  /\ UNCHANGED <<cfg, now, nev, nfail, finSent, shut, subd, listed, unsubgo, delgo, shgo, atimer, apc, cgo, cw, cclose, dbgo, dbArmed, dbDl, rcalls, inFlight, queued, consec, lp>>

(* ---- debounce (bep/debounce: Stop the pending AfterFunc, arm a new one) ---------------------------------- *)
DebounceCall ==
  /\ dbgo > 0 /\ dbgo' = dbgo - 1 /\ dbArmed' = TRUE /\ dbDl' = now + cfg.deb
  /\ UNCHANGED <<cfg, now, nev, nfail, finSent, shut, subd, listed, unsubgo, delgo, shgo, atimer, apc, cgo, cw, cclose, cdoclose, rcalls, inFlight, queued, consec, lp, h>>
DebounceFire ==
  /\ dbArmed /\ now >= dbDl /\ dbArmed' = FALSE /\ rcalls' = rcalls + 1
  /\ UNCHANGED <<cfg, now, nev, nfail, finSent, shut, subd, listed, unsubgo, delgo, shgo, atimer, apc, cgo, cw, cclose, cdoclose, dbgo, dbDl, inFlight, queued, consec, lp, h>>

(* ---- restartChannel ------------------------------------------------------------------------------------ *)
FreeSlot == IF lp[1].pc = "idle" THEN 1 ELSE 2
REnter ==         \* restartLk: in flight -> queue, else become the loop
  /\ rcalls > 0 /\ rcalls' = rcalls - 1
  /\ IF ~inFlight \/ (Bug = "noGuard" /\ lp[FreeSlot].pc = "idle")
     THEN /\ inFlight' = TRUE /\ lp' = [lp EXCEPT ![FreeSlot] = [Idle EXCEPT !.pc = "count"]]
          /\ UNCHANGED <<queued, h>>
     ELSE /\ queued' = (IF Bug = "lostQueue" THEN queued ELSE TRUE)
          /\ h' = [h EXCEPT !.reqd = 1]
          /\ UNCHANGED <<inFlight, lp>>
  /\ UNCHANGED <<cfg, now, nev, nfail, finSent, shut, subd, listed, unsubgo, delgo, shgo, atimer, apc, cgo, cw, cclose, cdoclose, dbgo, dbArmed, dbDl, consec>>

Exceeds(n) == IF Bug = "geBound" THEN n >= cfg.max ELSE n > cfg.max
LCount(s) ==      \* doRestartChannel: restartLk { consecutiveRestarts++ } ; compare with the bound
  /\ lp[s].pc = "count"
  /\ consec' = consec + 1
  /\ IF Exceeds(consec + 1)
     THEN lp' = [lp EXCEPT ![s].pc = "close"] /\ h' = h
     ELSE lp' = [lp EXCEPT ![s].pc = "connect"] /\ h' = [h EXCEPT !.att = @ + 1]
  /\ UNCHANGED <<cfg, now, nev, nfail, finSent, shut, subd, listed, unsubgo, delgo, shgo, atimer, apc, cgo, cw, cclose, cdoclose, dbgo, dbArmed, dbDl, rcalls, inFlight, queued>>

(* a call of the monitor API: entered with a dead ctx -> error at once; else outcome and latency are the environment's *)
LCall(s, from, call, wpc) ==
  /\ lp[s].pc = from
  /\ IF shut
     THEN /\ lp' = [lp EXCEPT ![s].pc = "count"] /\ nfail' = nfail
          /\ h' = [h EXCEPT !.log = LogApp(@, Entry(call, "ctx", 0, "", ""))]
     ELSE \E r \in {"ok", "fail"}, l \in Lats :
          /\ (r = "fail" => nfail < MaxFails)
          /\ nfail' = (IF r = "fail" THEN nfail + 1 ELSE nfail)
          /\ lp' = [lp EXCEPT ![s] = [pc |-> wpc, ret |-> now + l, res |-> r]]
          /\ h' = [h EXCEPT !.log = LogApp(@, Entry(call, r, l, "", ""))]
  /\ UNCHANGED <<cfg, now, nev, finSent, shut, subd, listed, unsubgo, delgo, shgo, atimer, apc, cgo, cw, cclose, cdoclose, dbgo, dbArmed, dbDl, rcalls, inFlight, queued, consec>>
LConnect(s) == LCall(s, "connect", "connect", "connWait")
LRestart(s) == LCall(s, "restart", "restart", "rsWait")

LRet(s, wpc, oknext) ==   \* the call returns: latency elapsed (scripted outcome) or ctx ended (error)
  /\ lp[s].pc = wpc
  /\ \/ /\ now >= lp[s].ret
        /\ lp' = [lp EXCEPT ![s] = IF lp[s].res = "ok" THEN oknext ELSE [Idle EXCEPT !.pc = "count"]]
     \/ /\ shut
        /\ lp' = [lp EXCEPT ![s] = [Idle EXCEPT !.pc = "count"]]
  /\ UNCHANGED <<cfg, now, nev, nfail, finSent, shut, subd, listed, unsubgo, delgo, shgo, atimer, apc, cgo, cw, cclose, cdoclose, dbgo, dbArmed, dbDl, rcalls, inFlight, queued, consec, h>>
LConnRet(s) == LRet(s, "connWait", [Idle EXCEPT !.pc = "restart"])
LRsRet(s)   == LRet(s, "rsWait", IF cfg.bof > 0 THEN [pc |-> "backoff", ret |-> now + cfg.bof, res |-> ""] ELSE [Idle EXCEPT !.pc = "loop"])
LBackoff(s) ==
  /\ lp[s].pc = "backoff" /\ (now >= lp[s].ret \/ shut)
  /\ lp' = [lp EXCEPT ![s] = [Idle EXCEPT !.pc = "loop"]]
  /\ UNCHANGED <<cfg, now, nev, nfail, finSent, shut, subd, listed, unsubgo, delgo, shgo, atimer, apc, cgo, cw, cclose, cdoclose, dbgo, dbArmed, dbDl, rcalls, inFlight, queued, consec, h>>
LLoop(s) ==       \* restartLk { queued ? again : restartedAt = 0 }
  /\ lp[s].pc = "loop"
  /\ IF queued
     THEN /\ queued' = FALSE /\ lp' = [lp EXCEPT ![s].pc = "count"] /\ inFlight' = inFlight
          /\ h' = [h EXCEPT !.reqd = 0]
     ELSE /\ inFlight' = FALSE /\ lp' = [lp EXCEPT ![s] = Idle] /\ queued' = queued
          /\ h' = [h EXCEPT !.reqd = 0, !.log = LogApp(@, Entry("rcomplete", "", 0, "", ""))]
  /\ UNCHANGED <<cfg, now, nev, nfail, finSent, shut, subd, listed, unsubgo, delgo, shgo, atimer, apc, cgo, cw, cclose, cdoclose, dbgo, dbArmed, dbDl, rcalls, consec>>
LClose(s) ==      \* closeChannelAndShutdown(err) ; return (restartedAt stays set)
  /\ lp[s].pc = "close" /\ lp' = [lp EXCEPT ![s].pc = (IF WinsShutdown THEN "doclose" ELSE "dead")] /\ DoShutdown("restarts", h)
  /\ UNCHANGED <<cfg, now, nev, nfail, finSent, subd, listed, delgo, shgo, atimer, apc, cgo, cw, cclose, cdoclose, dbgo, dbArmed, dbDl, rcalls, inFlight, queued, consec>>
LDoClose(s) ==
  /\ lp[s].pc = "doclose" /\ unsubgo = 0 /\ lp' = [lp EXCEPT ![s].pc = "dead"] /\ CloseCall("restarts")
  /\ UNCHANGED <<cfg, now, nev, nfail, finSent, shut, subd, listed, unsubgo, delgo, shgo, atimer, apc, cgo, cw, cclose, cdoclose, dbgo, dbArmed, dbDl, rcalls, inFlight, queued, consec>>

Looper(s) == LCount(s) \/ LConnect(s) \/ LConnRet(s) \/ LRestart(s) \/ LRsRet(s) \/ LBackoff(s) \/ LLoop(s) \/ LClose(s) \/ LDoClose(s)

(* ---- time ---------------------------------------------------------------------------------------------- *)
LooperReady(s) == \/ lp[s].pc \in {"count", "connect", "restart", "loop", "close", "doclose"}
                  \/ (lp[s].pc \in WaitPcs /\ (now >= lp[s].ret \/ shut))
Busy == \/ shgo > 0 \/ unsubgo > 0 \/ delgo > 0 \/ cgo > 0 \/ cclose > 0 \/ cdoclose > 0 \/ dbgo > 0
        \/ (rcalls > 0 /\ (inFlight \/ lp[FreeSlot].pc = "idle"))
        \/ apc \in {"close", "doclose"} \/ (apc = "wait" /\ (shut \/ (atimer = "armed" /\ now >= cfg.acc)))
        \/ (\E i \in 1..Len(cw) : shut \/ now >= cw[i])
        \/ (dbArmed /\ now >= dbDl)
        \/ (\E s \in Slots : LooperReady(s))
(* pending deadlines (used by the trace validator to jump) *)
Deadlines == (IF apc = "wait" /\ atimer = "armed" THEN {cfg.acc} ELSE {})
             \cup {cw[i] : i \in 1..Len(cw)}
             \cup (IF dbArmed THEN {dbDl} ELSE {})
             \cup {lp[s].ret : s \in {x \in Slots : lp[x].pc \in WaitPcs}}
Tick ==
  /\ ~Busy /\ now < cfg.hz /\ now' = now + 1
  /\ UNCHANGED <<cfg, nev, nfail, finSent, shut, subd, listed, unsubgo, delgo, shgo, atimer, apc, cgo, cw, cclose, cdoclose, dbgo, dbArmed, dbDl, rcalls, inFlight, queued, consec, lp, h>>

(* ---- dump of a simulated behaviour as a replay case ------------------------------------------------------ *)
CaseOf == [cfg |-> cfg, log |-> h.log,
           expect |-> [closes |-> h.closes, closeBy |-> h.closeBy, closeAt |-> h.closeAt, unsub |-> ~subd, listed |-> listed]]
Dump ==
  /\ Record /\ ~h.dumped /\ now = cfg.hz /\ ~Busy
  /\ PrintT(<<"@@case", ToJson(CaseOf)>>)
  /\ h' = [h EXCEPT !.dumped = TRUE]
  /\ UNCHANGED <<cfg, now, nev, nfail, finSent, shut, subd, listed, unsubgo, delgo, shgo, atimer, apc, cgo, cw, cclose, cdoclose, dbgo, dbArmed, dbDl, rcalls, inFlight, queued, consec, lp>>

Internal == \/ ShutdownG \/ UnsubStep \/ DeleteG \/ AcceptCtx \/ AcceptFire \/ AcceptClose \/ AcceptDoClose
            \/ CompleteStart \/ (\E i \in 1..Len(cw) : CompleteCtx(i) \/ CompleteFire(i)) \/ CompleteClose \/ CompleteDoClose
            \/ DebounceCall \/ DebounceFire \/ REnter
            \/ (\E s \in Slots : Looper(s))
Env == (\E c \in Codes, st \in Stats : EnvEvent(c, st)) \/ EnvShut
Next == Internal \/ Env \/ Tick \/ Dump
Spec == Init /\ [][Next]_vars /\ WF_vars(Internal) /\ WF_vars(Tick)

(* ---- properties (C14) ------------------------------------------------------------------------------------ *)
TypeOK ==
  /\ cfg \in CfgSpace /\ now \in 0..cfg.hz /\ nev \in 0..MaxEvents /\ nfail \in 0..MaxFails
  /\ shut \in BOOLEAN /\ subd \in BOOLEAN /\ listed \in BOOLEAN /\ inFlight \in BOOLEAN /\ queued \in BOOLEAN
  /\ atimer \in {"off", "armed", "stopped"} /\ apc \in {"none", "wait", "close", "doclose", "done"}
  /\ \A s \in Slots : lp[s].pc \in {"idle", "count", "connect", "connWait", "restart", "rsWait", "backoff", "loop", "close", "doclose", "dead"}
  /\ consec \in 0..(cfg.max + 1 + MaxEvents)

(* at most one restart loop exists (dead loops included: restartedAt stays set after the channel was closed) *)
OneAtATime == Cardinality({s \in Slots : lp[s].pc # "idle"}) <= 1
(* a request during an attempt is remembered; the loop ends only when nothing is queued, and a queued request
   starts exactly one further attempt *)
QueuedOnce ==
  /\ (queued => inFlight)
  /\ (h.reqd = 1 => (queued \/ \E s \in Slots : lp[s].pc = "dead"))
QueuedOnceStep ==
  [][\A s \in Slots : (lp[s].pc = "loop" /\ lp'[s].pc # "loop") =>
        (IF h.reqd = 1 THEN lp'[s].pc = "count" /\ ~queued' ELSE lp'[s].pc = "idle" /\ ~inFlight')]_vars
(* attempts decided since the last data progress never exceed the bound; a loop gives up only with the bound used up *)
Bounded == h.att <= cfg.max
BoundedStep ==
  [][\A s \in Slots : (lp[s].pc = "count" /\ lp'[s].pc = "close") => h.att = cfg.max]_vars
CloseOnce == h.closes <= 1
ShutOther(d, by) == shut /\ h.shutAt <= d /\ h.shutBy # by
AcceptTO ==
  /\ (h.closeBy = "accept") => (cfg.acc > 0 /\ h.closeAt = cfg.acc /\ ~(h.accAt # -1 /\ h.accAt < cfg.acc))
  /\ (cfg.en /\ cfg.acc > 0 /\ now > cfg.acc /\ ~(h.accAt # -1 /\ h.accAt <= cfg.acc) /\ ~ShutOther(cfg.acc, "accept"))
        => (h.closeBy = "accept" /\ h.closeAt = cfg.acc)
CompleteTO ==
  /\ (h.closeBy = "complete") => (cfg.cmp > 0 /\ h.cdl # {} /\ h.closeAt = MinS(h.cdl))
  /\ (cfg.cmp > 0 /\ h.cdl # {} /\ now > MinS(h.cdl) /\ ~ShutOther(MinS(h.cdl), "complete"))
        => (h.closeBy = "complete" /\ h.closeAt = MinS(h.cdl))
(* once the monitor has seen a cleanup/terminal status, by the next instant it is shut, unsubscribed and forgotten;
   a shut monitor never closes; a closed channel is forgotten too *)
Forgets ==
  /\ (h.seen /\ now > h.seenAt) => (shut /\ ~subd /\ ~listed)
  /\ (h.closes > 0 /\ now > h.closeAt) => (~subd /\ ~listed)
(* the channel is closed only by the goroutine whose Shutdown() came first, at that very instant *)
ForgetsStep == [][h'.closes > h.closes => (shut /\ h.shutBy = h'.closeBy /\ h.shutAt = now)]_vars
(* the strict reading: no close once the subscriber HAS SEEN the cleanup/terminal status.  Expected to FAIL on the
   model (F6: `go mc.Shutdown()` window); ForgetsStrictDump prints the counterexample as a replay case. *)
ForgetsStrict == [][h.seen => h'.closes = h.closes]_vars
ForgetsStrictInv  == ~h.cas
ForgetsStrictDump == (h.cas /\ (CexBy = "any" \/ h.closeBy = CexBy)) => (PrintT(<<"@@cex", ToJson(CaseOf)>>) /\ FALSE)
Disabled == ~cfg.en => (/\ h.log = << >> /\ h.closes = 0 /\ ~subd /\ ~listed /\ ~shut /\ shgo = 0 /\ unsubgo = 0 /\ delgo = 0
                        /\ cgo = 0 /\ cclose = 0 /\ cdoclose = 0 /\ dbgo = 0 /\ rcalls = 0 /\ ~dbArmed /\ apc = "none" /\ \A s \in Slots : lp[s].pc = "idle")

(* liveness (bounded time: a wait that ends beyond the horizon excuses) *)
AtHz == now = cfg.hz
L_Forgets == h.seen ~> (~subd /\ ~listed)
L_Queued  == queued ~> (~queued \/ shut \/ AtHz)
L_GiveUp  == (\E s \in Slots : lp[s].pc = "close") ~> shut
L_Request == (rcalls > 0 /\ ~inFlight /\ ~shut) ~> (inFlight \/ shut)
=============================================================================

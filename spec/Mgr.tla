-------------------------------- MODULE Mgr --------------------------------
(* One node's manager (impl/): what each stimulus - API call, inbound libp2p message, transport       *)
(* callback - does, as a pure function of the addressed channel's record, the authenticated sender,    *)
(* the validator's answer and the outcomes of the sends it attempts:                                   *)
(*    Handle(s, self, has, id, r, cache) = [evs, creates, net, tr, val, reply, ret, cache]              *)
(* evs   : FSM events sent to the addressed channel, in order (applied with ChanOps!RunSync: the code   *)
(*         flushes with GetByID at the start of every handler, so the queue is empty at handler start)  *)
(* net   : SendMessage / Protect calls in order;  tr : transport calls in order (cleanup counted apart) *)
(* val   : validator consultations;  reply : message returned to the transport;  ret : return class     *)
(* Channel ids are always built from the authenticated sender (never from message content), except the  *)
(* restart-existing request whose embedded id is checked against the stored channel.                    *)
EXTENDS ChanOps

NoMsg == [isReq |-> FALSE, kind |-> "none", tid |-> 0, pull |-> FALSE, paused |-> FALSE, accepted |-> FALSE,
          v |-> "", base |-> "", sel |-> "", ri |-> "", rr |-> "", rt |-> 0]
Req(kind, tid) == [NoMsg EXCEPT !.isReq = TRUE, !.kind = kind, !.tid = tid]
Resp(kind, tid, acc, paused, v) == [NoMsg EXCEPT !.kind = kind, !.tid = tid, !.accepted = acc, !.paused = paused, !.v = v]

(* voucher names carry their type: "v1" has type "vt", "v1@vtB" type "vtB" (harness/kit.Voucher) *)
AltTyped == {"v0@vtB","v1@vtB","v2@vtB","v3@vtB","v4@vtB"}
VType(v) == IF v \in AltTyped THEN "vtB" ELSE "vt"

IsPullId(id) == id.initiator = id.recipient
OtherOf(id)  == IF id.sender = id.self THEN id.recipient ELSE id.sender
OtherParty(id) == IF id.initiator = id.self THEN id.responder ELSE id.initiator

(* ValidationResult.LeaveRequestPaused *)
LRP(res, r, pull) == \/ res.force \/ (res.reqFin /\ r.status \in InFinalization)
                     \/ (res.limit # 0 /\ (IF pull THEN r.queued ELSE r.received) >= res.limit)

(* recordAcceptedValidationEvents(chst = r, result) *)
AcceptedEvs(res, r, pull) ==
     (IF res.vres # "" THEN << <<"NewVoucherResult", res.vres>> >> ELSE << >>)
  \o (IF res.limit # r.limit THEN << <<"SetDataLimit", res.limit>> >> ELSE << >>)
  \o (IF res.reqFin # r.reqFin THEN << <<"SetRequiresFinalization", res.reqFin>> >> ELSE << >>)
  \o (IF LRP(res, r, pull) THEN (IF RespPausedView(r) THEN << >> ELSE << <<"PauseResponder", 0>> >>)
                           ELSE (IF RespPausedView(r) THEN << <<"ResumeResponder", 0>> >> ELSE << >>))
RejectedEvs(res) == (IF res.vres # "" THEN << <<"NewVoucherResult", res.vres>> >> ELSE << >>) \o << <<"Error", "rejected">> >>

VRR(kind, tid, res, err, paused) == Resp(kind, tid, (~err) /\ res.accepted, paused, res.vres)
ZeroRes == [err |-> FALSE, accepted |-> FALSE, vres |-> "", force |-> FALSE, limit |-> 0, reqFin |-> FALSE]
ReqError(res, err, stay) == IF err THEN "other" ELSE IF ~res.accepted THEN "rejected" ELSE IF stay THEN "pause" ELSE "nil"

Send(to, m, ok) == [what |-> "send", to |-> to, msg |-> m, ok |-> ok]
Protect(to)     == [what |-> "protect", to |-> to, msg |-> NoMsg, ok |-> TRUE]
TOpen(m, sender, hasChan, skip, ok) == [call |-> "open", msg |-> m, sender |-> sender, hasChan |-> hasChan, skip |-> skip, ok |-> ok]
TCall(c)        == [call |-> c, msg |-> NoMsg, sender |-> "", hasChan |-> FALSE, skip |-> 0, ok |-> TRUE]
TResume(m)      == [call |-> "resume", msg |-> m, sender |-> "", hasChan |-> FALSE, skip |-> 0, ok |-> TRUE]

Out0(cache) == [evs |-> << >>, creates |-> FALSE, net |-> << >>, tr |-> << >>, val |-> << >>, reply |-> NoMsg, ret |-> "nil",
                cache |-> cache, mayPanic |-> FALSE]

SendOK(s, k) == ~(k <= Len(s.sendFail) /\ s.sendFail[k])       \* outcome of the k-th SendMessage of this step

(* ---- status after a prefix of events (the handlers read the state again in the middle) ---- *)
After(r, evs) == LastRec(r, RunSync(r, evs))

(* ---- inbound request (network or transport path) : OnRequestReceived ---- *)
NewRequest(s, self, has, id, r, types, cache) ==
  LET m == s.msg  res == s.val
      bad == m.sel = "" \/ m.v = "" \/ VType(m.v) \notin types
  IN IF bad THEN [Out0(cache) EXCEPT !.reply = VRR("New", m.tid, ZeroRes, TRUE, FALSE), !.ret = "other"]
     ELSE LET vc == << [method |-> IF m.pull THEN "pull" ELSE "push"] >> IN
       IF res.err \/ ~res.accepted
       THEN [Out0(cache) EXCEPT !.val = vc, !.reply = VRR("New", m.tid, res, res.err, res.force), !.ret = ReqError(res, res.err, res.force)]
       ELSE IF has   \* duplicate: CreateNew fails, existing channel untouched
       THEN [Out0(cache) EXCEPT !.val = vc, !.reply = VRR("New", m.tid, res, TRUE, res.force), !.ret = "other"]
       ELSE LET q0 == [ZeroRec("Queued") EXCEPT !.vouchers = <<m.v>>]
            IN [Out0(cache) EXCEPT !.val = vc, !.creates = TRUE,
                  !.evs = << <<"Open", 0>>, <<"Accept", 0>> >> \o AcceptedEvs(res, q0, m.pull),
                  !.net = << Protect(s.from) >>,
                  !.reply = VRR("New", m.tid, res, FALSE, res.force), !.ret = ReqError(res, FALSE, res.force)]

RestartRequest(s, self, has, id, r, types, cache) ==
  LET m == s.msg  res == s.val
      fail == [Out0(cache) EXCEPT !.reply = VRR("Restart", m.tid, ZeroRes, TRUE, FALSE), !.ret = "other"]
  IN IF ~has THEN [fail EXCEPT !.ret = "notfound"]
     ELSE IF r.status \in Terminal \/ id.initiator # s.from \/ m.base # id.base \/ r.vouchers = << >> THEN fail
     ELSE IF m.v # r.vouchers[1] THEN fail
     ELSE IF VType(r.vouchers[1]) \notin types THEN [fail EXCEPT !.evs = << <<"Error", "err">> >>]
     ELSE LET vc == << [method |-> "restart"] >>
              pull == IsPullId(id)
              stay == LRP(res, r, pull)
          IN IF res.err THEN [Out0(cache) EXCEPT !.val = vc, !.evs = << <<"Error", "err">> >>, !.reply = VRR("Restart", m.tid, res, TRUE, stay), !.ret = "other"]
             ELSE IF ~res.accepted THEN [Out0(cache) EXCEPT !.val = vc, !.evs = RejectedEvs(res),
                                           !.reply = VRR("Restart", m.tid, res, FALSE, stay), !.ret = "rejected"]
             ELSE [Out0(cache) EXCEPT !.val = vc, !.evs = << <<"Restart", 0>> >> \o AcceptedEvs(res, r, pull),
                     !.net = << Protect(s.from) >>,
                     !.reply = VRR("Restart", m.tid, res, FALSE, stay), !.ret = ReqError(res, FALSE, res.force)]

OnRequest(s, self, has, id, r, types, cache) ==
  LET m == s.msg IN
  CASE m.kind = "Restart" -> RestartRequest(s, self, has, id, r, types, cache)
    [] m.kind = "New" -> NewRequest(s, self, has, id, r, types, cache)
    [] m.kind = "Cancel" -> [Out0(cache) EXCEPT !.tr = << TCall("cleanup") >>, !.evs = IF has THEN << <<"Cancel", 0>> >> ELSE << >>,
                               !.ret = IF has THEN "nil" ELSE "notfound"]
    [] m.kind = "Voucher" -> [Out0(cache) EXCEPT !.evs = IF has THEN << <<"NewVoucher", m.v>> >> ELSE << >>, !.ret = IF has THEN "nil" ELSE "notfound"]
    [] m.kind = "Update" ->
         IF ~has THEN [Out0(cache) EXCEPT !.ret = "notfound"]
         ELSE IF m.paused THEN [Out0(cache) EXCEPT !.evs = << <<"PauseInitiator", 0>> >>]
         ELSE LET evs == << <<"ResumeInitiator", 0>> >> IN
              [Out0(cache) EXCEPT !.evs = evs, !.ret = IF RespPausedView(After(r, evs)) THEN "pause" ELSE "nil"]
    [] OTHER -> [Out0(cache) EXCEPT !.ret = "unmodelled"]

(* receiver.receiveRequest : what the network path does with (response, err) *)
RecvRequest(s, self, has, id, r, types, cache) ==
  LET o == OnRequest(s, self, has, id, r, types, cache)
      m == s.msg
      rr == IF has THEN After(r, o.evs) ELSE (IF o.creates THEN After(ZeroRec("Requested"), o.evs) ELSE r)
      viaOpen == o.reply.kind \in {"New","Restart"} /\ o.reply.accepted /\ ~m.pull
      sendOk == SendOK(s, 1)
      step1 == IF o.reply.kind = "none" THEN [tr |-> << >>, net |-> << >>, stop |-> FALSE]
               ELSE IF viaOpen THEN [tr |-> << TOpen(o.reply, s.from, o.reply.kind = "Restart", IF o.reply.kind = "Restart" THEN rr.rIdx ELSE 0, ~s.openFail) >>,
                                     net |-> << >>, stop |-> s.openFail]
               ELSE [tr |-> << >>, net |-> << Send(s.from, o.reply, sendOk) >>, stop |-> ~sendOk]
      step2 == IF step1.stop THEN << >> ELSE IF o.ret = "pause" THEN << TCall("pause") >> ELSE IF o.ret # "nil" THEN << TCall("close") >> ELSE << >>
  IN [o EXCEPT !.net = o.net \o step1.net, !.tr = o.tr \o step1.tr \o step2, !.reply = NoMsg, !.ret = "nil"]

(* ---- inbound response ---- *)
OnResponse(s, self, has, id, r, cache) ==
  LET m == s.msg
      nf == [Out0(cache) EXCEPT !.ret = "notfound"]
      vr == IF m.v # "" THEN << <<"NewVoucherResult", m.v>> >> ELSE << >>
      isVR == m.kind \in {"New","Restart","VoucherResult","Complete"}
  IN IF ~has THEN nf
     ELSE IF m.kind = "Cancel" THEN [Out0(cache) EXCEPT !.evs = << <<"Cancel", 0>> >>]
     ELSE IF isVR /\ ~m.accepted THEN [Out0(cache) EXCEPT !.evs = vr \o << <<"Error", "rejected">> >>]
     ELSE LET pre == (IF isVR THEN vr ELSE << >>)
                     \o (IF m.kind = "New" THEN << <<"Accept", 0>> >> ELSE << >>)
                     \o (IF m.kind = "Restart" THEN << <<"Restart", 0>> >> ELSE << >>)
          IN IF m.kind = "Complete" THEN [Out0(cache) EXCEPT !.evs = pre \o << <<IF m.paused THEN "ResponderBeginsFinalization" ELSE "ResponderCompletes", 0>> >>]
             ELSE IF m.paused THEN [Out0(cache) EXCEPT !.evs = pre \o << <<"PauseResponder", 0>> >>]
             ELSE LET evs == pre \o << <<"ResumeResponder", 0>> >> IN
                  [Out0(cache) EXCEPT !.evs = evs, !.ret = IF After(r, evs).ip THEN "pause" ELSE "nil"]

RecvResponse(s, self, has, id, r, cache) ==
  LET o == OnResponse(s, self, has, id, r, cache) IN
  [o EXCEPT !.tr = IF o.ret = "pause" THEN << TCall("pause") >> ELSE IF o.ret # "nil" THEN << TCall("close") >> ELSE << >>, !.ret = "nil"]

(* ---- restart: the two "created" flavours ---- *)
RestartReqMsg(id, r) == [Req("Restart", id.tid) EXCEPT !.pull = IsPullId(id), !.v = IF r.vouchers = << >> THEN "" ELSE r.vouchers[1], !.base = id.base, !.sel = id.sel]
OpenRestart(s, id, r, cache) ==
  IF IsPullId(id)
  THEN [Out0(cache) EXCEPT !.net = << Protect(OtherOf(id)) >>, !.tr = << TOpen(RestartReqMsg(id, r), OtherOf(id), TRUE, r.rIdx, ~s.openFail) >>,
                           !.ret = IF s.openFail THEN "other" ELSE "nil"]
  ELSE [Out0(cache) EXCEPT !.net = << Protect(OtherOf(id)), Send(OtherOf(id), RestartReqMsg(id, r), SendOK(s, 1)) >>,
                           !.ret = IF SendOK(s, 1) THEN "nil" ELSE "other"]

RecvRestartExisting(s, self, has, id, r, cache) ==
  IF ~has \/ id.initiator # self \/ OtherOf(id) # s.from \/ r.status \in Terminal THEN Out0(cache)
  ELSE [OpenRestart(s, id, r, cache) EXCEPT !.ret = "nil"]

ApiRestart(s, self, has, id, r, types, cache) ==
  IF ~has THEN [Out0(cache) EXCEPT !.ret = "other"]
  ELSE IF r.status \in Terminal THEN Out0(cache)
  ELSE IF r.status \in Cleanup THEN [Out0(cache) EXCEPT !.evs = << <<"CompleteCleanupOnRestart", 0>> >>]
  ELSE IF id.initiator = self THEN OpenRestart(s, id, r, cache)
  ELSE IF r.vouchers = << >> \/ VType(r.vouchers[1]) \notin types THEN [Out0(cache) EXCEPT !.ret = "other"]
  ELSE LET vc == << [method |-> "restart"] >> IN
       IF s.val.err THEN [Out0(cache) EXCEPT !.val = vc, !.ret = "other"]
       ELSE IF ~s.val.accepted THEN [Out0(cache) EXCEPT !.val = vc, !.ret = "rejected"]
       ELSE [Out0(cache) EXCEPT !.val = vc, !.net = << Send(OtherOf(id), [Req("RestartExisting", 0) EXCEPT !.ri = id.initiator, !.rr = id.responder, !.rt = id.tid], SendOK(s, 1)) >>,
                                !.ret = IF SendOK(s, 1) THEN "nil" ELSE "other"]

(* ---- the other API calls ---- *)
CancelMsg(id) == IF id.initiator = id.self THEN Req("Cancel", id.tid) ELSE Resp("Cancel", id.tid, FALSE, FALSE, "")
PauseMsg(id, p) == IF id.initiator = id.self THEN [Req("Update", id.tid) EXCEPT !.paused = p] ELSE Resp("Update", id.tid, FALSE, p, "")

Api(s, self, has, id, r, types, cache) ==
  LET k == s.kind  nf == [Out0(cache) EXCEPT !.ret = "notfound"]  ok1 == SendOK(s, 1)  amInit == has /\ id.initiator = self IN
  CASE k = "Restart" -> ApiRestart(s, self, has, id, r, types, cache)
    [] k = "SendVoucher" ->
         IF ~has THEN nf ELSE IF ~amInit THEN [Out0(cache) EXCEPT !.ret = "other"]
         ELSE LET mm == [Req("Voucher", id.tid) EXCEPT !.v = s.msg.v] IN
              IF ok1 THEN [Out0(cache) EXCEPT !.net = << Send(OtherOf(id), mm, TRUE) >>, !.evs = << <<"NewVoucher", s.msg.v>> >>]
              ELSE [Out0(cache) EXCEPT !.net = << Send(OtherOf(id), mm, FALSE) >>, !.evs = << <<"Disconnected", "err">> >>, !.ret = "other"]
    [] k = "SendVoucherResult" ->
         IF ~has THEN nf ELSE IF amInit THEN [Out0(cache) EXCEPT !.ret = "other"]
         ELSE LET mm == Resp(IF r.status \in InFinalization THEN "Complete" ELSE "VoucherResult", id.tid, r.status \notin NotAccepted, RespPausedView(r), s.msg.v) IN
              IF ok1 THEN [Out0(cache) EXCEPT !.net = << Send(OtherOf(id), mm, TRUE) >>, !.evs = << <<"NewVoucherResult", s.msg.v>> >>]
              ELSE [Out0(cache) EXCEPT !.net = << Send(OtherOf(id), mm, FALSE) >>, !.evs = << <<"Disconnected", "err">> >>, !.ret = "other"]
    [] k = "UpdateValidation" ->
         IF has /\ amInit THEN [Out0(cache) EXCEPT !.ret = "other"]
         ELSE IF ~has THEN [nf EXCEPT !.mayPanic = TRUE]
         ELSE LET res == s.val  pull == IsPullId(id)
                  evs == IF res.accepted THEN AcceptedEvs(res, r, pull) ELSE RejectedEvs(res)
                  stay == LRP(res, r, pull)
                  resp == VRR(IF r.status = "Finalizing" THEN "Complete" ELSE "VoucherResult", id.tid, res, FALSE, stay)
              IN IF res.accepted /\ ~stay /\ RespPausedView(r) /\ r.status \notin InFinalization
                 THEN [Out0(cache) EXCEPT !.evs = evs, !.tr = << TResume(resp) >>]
                 ELSE IF ~ok1 THEN [Out0(cache) EXCEPT !.evs = evs, !.net = << Send(id.initiator, resp, FALSE) >>, !.ret = "other"]
                 ELSE [Out0(cache) EXCEPT !.evs = evs, !.net = << Send(id.initiator, resp, TRUE) >>,
                         !.tr = IF ~res.accepted THEN << TCall("close") >>
                                ELSE IF stay /\ ~RespPausedView(r) /\ r.status \notin InFinalization THEN << TCall("pause") >> ELSE << >>]
    [] k = "Close" ->
         IF ~has THEN nf
         ELSE [Out0(cache) EXCEPT !.tr = << [TCall("close") EXCEPT !.ok = ~s.openFail] >>, !.net = << Send(OtherOf(id), CancelMsg(id), ok1) >>,
                 !.evs = IF ok1 THEN << <<"Cancel", 0>> >> ELSE << <<"Cancel", 0>> >>]      \* the failed send's Disconnected races with Cancel; a transport that
                                                                                             \* does not know the channel (close fails) changes nothing else
    [] k = "CloseErr" ->
         IF ~has THEN nf
         ELSE [Out0(cache) EXCEPT !.tr = << [TCall("close") EXCEPT !.ok = ~s.openFail] >>, !.net = << Send(OtherOf(id), CancelMsg(id), ok1) >>, !.evs = << <<"Error", s.args.err>> >>]
    [] k = "Pause" ->
         IF ok1 THEN [Out0(cache) EXCEPT !.tr = << TCall("pause") >>, !.net = << Send(OtherParty(id), PauseMsg(id, TRUE), TRUE) >>,
                        !.evs = IF has THEN << <<IF id.initiator = self THEN "PauseInitiator" ELSE "PauseResponder", 0>> >> ELSE << >>,
                        !.ret = IF has THEN "nil" ELSE "notfound"]
         ELSE [Out0(cache) EXCEPT !.tr = << TCall("pause") >>, !.net = << Send(OtherParty(id), PauseMsg(id, TRUE), FALSE) >>,
                        !.evs = IF has THEN << <<"Disconnected", "err">> >> ELSE << >>, !.ret = "other"]
    [] k = "Resume" ->
         [Out0(cache) EXCEPT !.tr = << TResume(PauseMsg(id, FALSE)) >>,
                        !.evs = IF has THEN << <<IF id.initiator = self THEN "ResumeInitiator" ELSE "ResumeResponder", 0>> >> ELSE << >>,
                        !.ret = IF has THEN "nil" ELSE "notfound"]

(* ---- transport callbacks ---- *)
Callback(s, self, has, id, r, cache) ==
  LET k == s.kind  nf == [Out0(cache) EXCEPT !.ret = "notfound"] IN
  IF ~has THEN nf ELSE
  CASE k = "OnChannelOpened" -> [Out0(cache) EXCEPT !.evs = << <<"Opened", 0>> >>]
    [] k = "OnTransferInitiated" -> [Out0(cache) EXCEPT !.evs = << <<"TransferInitiated", 0>> >>]
    [] k \in {"OnDataQueued","OnDataSent","OnDataReceived"} ->
         LET op == CASE k = "OnDataQueued" -> "DataQueued" [] k = "OnDataSent" -> "DataSent" [] OTHER -> "DataReceived"
             d == DataOp(op, s.args, r, cache)
             upd == Resp("Update", id.tid, FALSE, TRUE, "")
         IN IF d.ret # "pause" THEN [Out0(d.cache) EXCEPT !.evs = d.evs]
            ELSE IF k = "OnDataQueued" THEN [Out0(d.cache) EXCEPT !.evs = d.evs, !.reply = upd, !.ret = "pause"]
            ELSE [Out0(d.cache) EXCEPT !.evs = d.evs, !.net = << Send(id.initiator, upd, SendOK(s, 1)) >>, !.ret = IF SendOK(s, 1) THEN "pause" ELSE "other"]
    [] k = "OnChannelCompleted" ->
         IF s.args.err # "" THEN (IF r.status \in {"Failing","Failed"} THEN Out0(cache) ELSE [Out0(cache) EXCEPT !.evs = << <<"Error", "err">> >>])
         ELSE IF id.initiator = self THEN [Out0(cache) EXCEPT !.evs = << <<"FinishTransfer", 0>> >>]
         \* a responder whose channel already failed or was cancelled (e.g. by the late error of a superseded transport request)
         \* does not tell the initiator that the transfer completed
         ELSE IF r.status \in {"Failing","Failed","Cancelling","Cancelled"} THEN Out0(cache)
         ELSE LET mm == Resp("Complete", id.tid, TRUE, r.reqFin, "") IN
              IF SendOK(s, 1) THEN [Out0(cache) EXCEPT !.net = << Send(id.initiator, mm, TRUE) >>,
                                      !.evs = << <<IF r.reqFin THEN "BeginFinalizing" ELSE "Complete", 0>> >>]
              ELSE [Out0(cache) EXCEPT !.net = << Send(id.initiator, mm, FALSE) >>, !.evs = << <<"Disconnected", "err">> >>]
    [] k = "OnRequestCancelled" -> [Out0(cache) EXCEPT !.evs = << <<"RequestCancelled", s.args.err>> >>]
    [] k = "OnRequestDisconnected" -> [Out0(cache) EXCEPT !.evs = << <<"Disconnected", s.args.err>> >>]
    [] k = "OnSendDataError" -> [Out0(cache) EXCEPT !.evs = << <<"SendDataError", s.args.err>> >>]
    [] k = "OnReceiveDataError" -> [Out0(cache) EXCEPT !.evs = << <<"ReceiveDataError", s.args.err>> >>]

ApiKinds == {"SendVoucher","SendVoucherResult","UpdateValidation","Close","CloseErr","Pause","Resume","Restart"}
CallbackKinds == {"OnChannelOpened","OnTransferInitiated","OnDataQueued","OnDataSent","OnDataReceived","OnChannelCompleted",
                  "OnRequestCancelled","OnRequestDisconnected","OnSendDataError","OnReceiveDataError"}

Handle0(s, self, has, id, r, types, cache) ==
  CASE s.kind = "RecvRequest" -> RecvRequest(s, self, has, id, r, types, cache)
    [] s.kind = "OnRequestReceived" -> OnRequest(s, self, has, id, r, types, cache)
    [] s.kind = "RecvResponse" -> RecvResponse(s, self, has, id, r, cache)
    [] s.kind = "OnResponseReceived" -> OnResponse(s, self, has, id, r, cache)
    [] s.kind = "RecvRestartExisting" -> RecvRestartExisting(s, self, has, id, r, cache)
    [] s.kind \in ApiKinds -> Api(s, self, has, id, r, types, cache)
    [] s.kind \in CallbackKinds -> Callback(s, self, has, id, r, cache)
    [] OTHER -> [Out0(cache) EXCEPT !.ret = "unmodelled"]

(* channels.SetDataLimit also updates the progress cache's limit (if the entry exists) *)
WithLimitCache(o) ==
  LET idxs == {i \in 1..Len(o.evs) : o.evs[i][1] = "SetDataLimit"} IN
  IF idxs = {} \/ ~o.cache.pset THEN o
  ELSE [o EXCEPT !.cache.plim = o.evs[CHOOSE i \in idxs : \A j \in idxs : j <= i][2]]

Handle(s, self, has, id, r, types, cache) == WithLimitCache(Handle0(s, self, has, id, r, types, cache))
=============================================================================

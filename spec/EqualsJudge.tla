----------------------------- MODULE EqualsJudge -----------------------------
(* Scenario observations [case, rule, scenario, left, right, err]: the rule named by the harness demands left = right (two numbers read from  *)
(* the real code at the points the scenario defines, e.g. "blocks the sender is told to skip" and "blocks recorded as received").            *)
EXTENDS Naturals, Sequences, FiniteSets, TLC, Json, SequencesExt
CONSTANTS ObsFile, OutFile
Cases == ndJsonDeserialize(ObsFile)
Verdicts == {[case |-> Cases[i].case, rule |-> IF Cases[i].err # "" THEN "harness" ELSE Cases[i].rule, i |-> i, status |-> "", op |-> Cases[i].scenario]
               : i \in {j \in 1..Len(Cases) : Cases[j].err # "" \/ Cases[j].left # Cases[j].right}}
ASSUME ndJsonSerialize(OutFile, SetToSeq(Verdicts))
ASSUME PrintT(<<"@@judged", Len(Cases)>>)
=============================================================================

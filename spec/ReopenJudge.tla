----------------------------- MODULE ReopenJudge -----------------------------
(* C10, transport-adapter part, on observations of gstx/TestReopen (the REAL graphsync adapter over a fake      *)
(* GraphExchange, virtual time):                                                                                *)
(*  reopen-*  : OpenChannel on a channel with a live request - the old request is cancelled BEFORE the new one   *)
(*              is issued, the new request waits for the old one's end or 1 s, and it tells the sender to skip    *)
(*              exactly the number of blocks recorded as received (do-not-send-first-blocks = k, none for k = 0); *)
(*  pending-* : messages passed to ResumeChannel while the requester was away are delivered exactly once, in      *)
(*              order, on its next request, and not again on later ones.                                          *)
EXTENDS Naturals, Sequences, FiniteSets, TLC, Json, SequencesExt
CONSTANTS ObsFile, OutFile
Cases == ndJsonDeserialize(ObsFile)
F(s, k) == IF k \in DOMAIN s THEN s[k] ELSE << >>
RECURSIVE Flat(_, _)
Flat(steps, k) == IF steps = << >> THEN << >> ELSE F(Head(steps), k) \o Flat(Tail(steps), k)
IsReopen(c) == \E i \in 1..Len(c.steps) : c.steps[i].a.op = "Open" /\ c.steps[i].a.k >= 0
Rules(c) ==
  LET gsc == Flat(c.steps, "gsc")
      hooks == Flat(c.steps, "hook")
      reqs == SelectSeq(gsc, LAMBDA g : g.call = "Request")
      cancels == SelectSeq(gsc, LAMBDA g : g.call = "Cancel")
      k == (CHOOSE i \in 1..Len(c.steps) : c.steps[i].a.op = "Open" /\ c.steps[i].a.k >= 0)
      kval == c.steps[k].a.k
      queued == LET rs == SelectSeq(c.steps, LAMBDA s : s.a.op = "Resume" /\ s.a.m # 0 /\ ~\E j \in 1..Len(F(s, "gsc")) : F(s, "gsc")[j].call = "Unpause")
                IN [i \in 1..Len(rs) |-> rs[i].a.m]
      delivered == LET hs == SelectSeq(hooks, LAMBDA h : h.a = "SendExtensionData" /\ h.x = "dt") IN [i \in 1..Len(hs) |-> hs[i].n]
  IN IF IsReopen(c)
     THEN (IF Len(reqs) <= 2 /\ (Len(reqs) = 2 => (Len(cancels) >= 1 /\ cancels[1].r = reqs[1].r /\ cancels[1].seq < reqs[2].seq)) THEN {} ELSE {"C10.cancelFirst"})
          (* the previous request could not be cancelled (gs.Cancel returned an error other than not-found): it may still be live, no second request is started *)
          \cup (IF (\E i \in 1..Len(c.steps) : c.steps[i].a.op = "CancelRet" /\ c.steps[i].a.cret = "err") => Len(reqs) <= 1 THEN {} ELSE {"C10.noRequestWhileOldLive"})
          \cup (IF Len(reqs) = 2 => ((reqs[2].x = "dt+dnsfb" /\ reqs[2].n = kval) \/ (kval = 0 /\ reqs[2].x = "dt")) THEN {} ELSE {"C10.skip"})
          \cup (IF Len(reqs) = 2 => reqs[2].t - reqs[1].t <= 1000 THEN {} ELSE {"C10.reopenWaitBounded"})
     ELSE (IF delivered = queued THEN {} ELSE {"C10.pendingOnce"})
Verdicts == UNION {{[case |-> Cases[n].case, i |-> 0, rule |-> r, status |-> "", op |-> IF IsReopen(Cases[n]) THEN "reopen" ELSE "pending"] : r \in Rules(Cases[n])} : n \in 1..Len(Cases)}
ASSUME ndJsonSerialize(OutFile, SetToSeq(Verdicts))
ASSUME PrintT(<<"@@judged", Len(Cases)>>)
=============================================================================

----------------------------- MODULE C17Judge -----------------------------
(* C17 on observations of harness mgrx/TestSubs: a real manager, several channels, a reference subscriber    *)
(* active for the whole run, global subscribers with subscription windows, per-transfer subscribers.         *)
(* Ground truth of "applied events" = the datastore's write log per channel (one write per applied event).   *)
EXTENDS FSM, Json, SequencesExt

CONSTANTS ObsFile, OutFile
Cases == ndJsonDeserialize(ObsFile)

Of(seq, chid) == SelectSeq(seq, LAMBDA e : e.chid = chid)
ViewMatches(v, r) ==
  /\ v.status = r.status /\ v.ip = r.ip /\ v.rpView = (r.rp \/ r.status = "Finalizing")
  /\ v.queued = r.queued /\ v.sent = r.sent /\ v.received = r.received /\ v.qIdx = r.qIdx /\ v.sIdx = r.sIdx /\ v.rIdx = r.rIdx
  /\ v.limit = r.limit /\ v.reqFin = r.reqFin /\ v.vouchers = r.vouchers /\ v.results = r.results
Strip(e) == [chid |-> e.chid, ev |-> e.ev, view |-> e.view]
Sub(seq, a, b) == SubSeq(seq, a + 1, b)

Rules(c) ==
  (IF c.err = "" THEN {} ELSE {"harness"})
  (* every applied event announced exactly once, in order, with the record that event produced *)
  \cup UNION {LET rc == Of(c.ref, c.puts[n].chid)  ps == c.puts[n].puts IN
              (IF Len(rc) = Len(ps) THEN {} ELSE {"C17.onePerApplied"})
              \cup (IF \A i \in 1..(IF Len(rc) < Len(ps) THEN Len(rc) ELSE Len(ps)) : ViewMatches(rc[i].view, ps[i]) THEN {} ELSE {"C17.snapshot"})
              \cup (IF \A i \in 1..Len(ps) : i > 1 => ps[i-1].status \notin Terminal THEN {} ELSE {"C17.noneAfterTerminal"})
              : n \in 1..Len(c.puts)}
  \cup (IF \A i \in 1..Len(c.ref) : \E n \in 1..Len(c.puts) : c.puts[n].chid = c.ref[i].chid THEN {} ELSE {"C17.noInvalid"})
  (* every subscriber sees exactly the reference log restricted to its window / channel *)
  \cup UNION {LET s == c.subs[k] IN
              IF s.kind = "global"
              THEN (IF s.entries = Sub(c.ref, s.a, IF s.b < 0 THEN Len(c.ref) ELSE s.b) THEN {} ELSE
                       (IF s.b >= 0 /\ Len(s.entries) > s.b - s.a THEN {"C17.afterUnsub"} ELSE {"C17.exactlyOnceInOrder"}))
              ELSE (IF s.entries = Of(c.ref, s.chid) THEN {} ELSE {"C17.perTransfer"})
              : k \in 1..Len(c.subs)}

Verdicts == UNION {{[case |-> Cases[n].case, i |-> 0, rule |-> r, status |-> "", op |-> "subs"] : r \in Rules(Cases[n])} : n \in 1..Len(Cases)}
ASSUME ndJsonSerialize(OutFile, SetToSeq(Verdicts))
ASSUME PrintT(<<"@@judged", Len(Cases)>>)
=============================================================================

----------------------------- MODULE C07Judge -----------------------------
(* C07/C08 on observations of free-running concurrent block reports (harness chanx/TestConcurrent).       *)
(* Block sizes are a function of the position (size = delta of the report), different positions have       *)
(* different sizes, so the multiset of announced progress deltas identifies the positions counted.          *)
EXTENDS Naturals, Sequences, FiniteSets, TLC, Json, SequencesExt

CONSTANTS ObsFile, OutFile
Cases == ndJsonDeserialize(ObsFile)

ProgEv(op) == CASE op = "DataSent" -> "DataSentProgress" [] op = "DataQueued" -> "DataQueuedProgress" [] OTHER -> "DataReceivedProgress"
Tot(r, op) == CASE op = "DataSent" -> r.sent [] op = "DataQueued" -> r.queued [] OTHER -> r.received
Idx(r, op) == CASE op = "DataSent" -> r.sIdx [] op = "DataQueued" -> r.qIdx [] OTHER -> r.rIdx
RECURSIVE SumSeq(_)
SumSeq(s) == IF s = << >> THEN 0 ELSE Head(s) + SumSeq(Tail(s))
MaxOf(S, d) == IF S = {} THEN d ELSE CHOOSE m \in S : \A x \in S : x <= m

Rules(c) ==
  LET op == c.calls[1].op
      anns == c.anns
      views == <<[queued |-> c.pre.queued, sent |-> c.pre.sent, received |-> c.pre.received, qIdx |-> c.pre.qIdx, sIdx |-> c.pre.sIdx, rIdx |-> c.pre.rIdx]>>
               \o [i \in 1..Len(anns) |-> [queued |-> anns[i].queued, sent |-> anns[i].sent, received |-> anns[i].received, qIdx |-> anns[i].qIdx, sIdx |-> anns[i].sIdx, rIdx |-> anns[i].rIdx]]
      progIdx == {i \in 1..Len(anns) : anns[i].ev = ProgEv(op)}
      deltas == [i \in progIdx |-> Tot(views[i+1], op) - Tot(views[i], op)]
      uniqPos == {c.calls[i].index : i \in {j \in 1..Len(c.calls) : c.calls[j].unique}}
      allPos == {c.calls[i].index : i \in 1..Len(c.calls)}
      sizeOf == [p \in allPos |-> (CHOOSE i \in 1..Len(c.calls) : c.calls[i].index = p) ]
      SizeAt(p) == c.calls[sizeOf[p]].delta
      counted == {p \in uniqPos : \E i \in progIdx : deltas[i] = SizeAt(p)}
      gained == Tot(c.post, op) - Tot(c.pre, op)
      hw0 == Idx(c.pre, op)
      maxU == MaxOf({p \in uniqPos : p > hw0}, 0)
      pauses == {i \in 1..Len(c.calls) : c.calls[i].ret = "pause"}
      lim == c.pre.limit
      limited == op \in {"DataQueued","DataReceived"}
  IN
  (IF c.err = "" THEN {} ELSE {"harness"})
  \cup (IF \A i, j \in progIdx : i # j => deltas[i] # deltas[j] THEN {} ELSE {"C07.once"})                       \* each position counted at most once
  \cup (IF \A i \in progIdx : \E p \in uniqPos : deltas[i] = SizeAt(p) /\ p > hw0 THEN {} ELSE {"C07.noGain"})     \* only unique reports above the seed mark count
  \cup (IF gained = SumSeq([k \in 1..Cardinality(progIdx) |-> deltas[CHOOSE i \in progIdx : Cardinality({x \in progIdx : x < i}) = k - 1]]) THEN {} ELSE {"C07.bytes"})
  \cup (IF (maxU # 0 /\ \A p \in allPos \ uniqPos : p < maxU) => maxU \in counted THEN {} ELSE {"C07.bytes"})   \* the highest position advances the mark (unless a non-unique report at or above it was applied first and seeded the cache)
  \cup (IF Idx(c.post, op) = MaxOf(allPos \cup {hw0}, hw0) THEN {} ELSE {"C07.index"})
  \cup (IF \A i \in 1..Len(anns) : /\ views[i+1].queued >= views[i].queued /\ views[i+1].sent >= views[i].sent /\ views[i+1].received >= views[i].received
                                   /\ views[i+1].qIdx >= views[i].qIdx /\ views[i+1].sIdx >= views[i].sIdx /\ views[i+1].rIdx >= views[i].rIdx
        THEN {} ELSE {"C07.monotone"})
  \cup (IF (pauses # {}) <=> (limited /\ lim # 0 /\ Tot(c.post, op) >= lim /\ gained > 0) THEN {} ELSE {"C08.pauseAt"})
  \cup (IF (pauses # {}) => (c.post.rp /\ \E i \in 1..Len(anns) : anns[i].ev = "DataLimitExceeded") THEN {} ELSE {"C08.pauseFx"})
  \cup (IF \A i \in pauses : c.calls[i].unique THEN {} ELSE {"C08.pauseAt"})

Verdicts == UNION {{[case |-> Cases[n].case, i |-> 0, rule |-> r, status |-> Cases[n].pre.status, op |-> Cases[n].calls[1].op] : r \in Rules(Cases[n])} : n \in 1..Len(Cases)}
ASSUME ndJsonSerialize(OutFile, SetToSeq(Verdicts))
ASSUME PrintT(<<"@@judged", Len(Cases)>>)
=============================================================================

------------------------------ MODULE NetJudge ------------------------------
(* Judge of observations recorded from the REAL libp2p adapter (harness netx), property C15.             *)
(* Input: ndjson, one observation per replayed case.  An observation carries the script of the case      *)
(* (ev: the event sequence exported by Net.tla, plus its parameters) and what the real code did:         *)
(*   out: host.NewStream call log with virtual timestamps (ms), instant of cancellation, instant and     *)
(*        class of the return of SendMessage, the operations on the stream double, what was written      *)
(*        (decoded) and what the peer's real adapter dispatched from those bytes, panics;                *)
(*   in : handler calls of the recording Receiver (which, authenticated peer, decoded shape, transfer    *)
(*        id, byte-identity), ReceiveError calls, reset/close of the stream, panics.                     *)
(* For every observation TLC evaluates                                                                   *)
(*   conf  : the observation equals the outcome of NetOps!OutRun / InRun on the script (drift)           *)
(*   rules : the formulas of C15 on the OBSERVED values only                                             *)
(* and writes the failed (case, rule) pairs to OutFile.                                                  *)
EXTENDS NetOps, Json, SequencesExt

CONSTANTS ObsFile, OutFile
Cases == ndJsonDeserialize(ObsFile)

DtProto == "/fil/datatransfer/1.2.0"
(* virtual-time parameters of harness/netx (ms) *)
MinD == 1000
MaxD == 8000
OpenTO == 3000
SendTO == 7000
Lat == 200
CtxDL == 3600000

RECURSIVE Pow2(_)
Pow2(n) == IF n <= 0 THEN 1 ELSE IF n >= 10 THEN 1024 ELSE 2 * Pow2(n - 1)

OpsNamed(o, name) == {i \in 1..Len(o.ops) : o.ops[i].op = name}
OkNews(o)  == {i \in 1..Len(o.news) : o.news[i].res = "ok"}
WFail(o)   == \E i \in OpsNamed(o, "w") : ~o.ops[i].ok
WOk(o)     == OpsNamed(o, "w") # {} /\ ~WFail(o)
CloseOk(o) == OpsNamed(o, "close") # {} /\ \A i \in OpsNamed(o, "close") : o.ops[i].ok
LastT1(o)  == IF Len(o.news) = 0 THEN 0 ELSE o.news[Len(o.news)].t1

(* ------------------------------- outbound rules ------------------------------- *)
RCap(o) == Len(o.news) <= Cap(o.max)

RSuccessIff(o) == /\ o.panics = << >>
                  /\ (o.ret = "nil") <=> (OkNews(o) # {} /\ WOk(o) /\ CloseOk(o) /\ OpsNamed(o, "reset") = {})

ROnce(o) == /\ Cardinality(OkNews(o)) <= 1
            /\ OkNews(o) # {} => Len(o.news) \in OkNews(o)                 \* no NewStream call after a successful one
            /\ o.streams = Cardinality(OkNews(o))
            /\ o.wrote.msgs <= 1
            /\ \A i \in 1..Len(o.news) : o.news[i].peer = "B" /\ o.news[i].protos = <<DtProto>>
            /\ o.ret = "nil" =>
                 /\ o.wrote.msgs = 1 /\ o.wrote.same /\ o.wrote.trailing = 0
                 /\ Len(o.delivered) = 1 /\ o.delivErrs = 0
                 /\ o.delivered[1] = [h |-> Kind3(o.msg), peer |-> "A", shape |-> o.msg, tid |-> 7, same |-> TRUE]

(* cancellation at virtual instant tCancel: no NewStream call starts after it (a call with an already    *)
(* cancelled context can only be the very first one: the code does not look at ctx before it), and when  *)
(* no stream had been opened SendMessage returns an error at that very instant, or - cancellation while  *)
(* a NewStream call is in flight - at the instant that call returns.                                     *)
RPrompt(o) == /\ \A i \in 1..Len(o.news) : o.news[i].ctxDone => i = 1
              /\ o.tCancel >= 0 =>
                   /\ \A i \in 1..Len(o.news) : o.news[i].t0 <= o.tCancel
                   /\ OkNews(o) = {} => (o.ret # "nil" /\ o.tRet = MaxOf(o.tCancel, LastT1(o)))

RWriteFail(o) == WFail(o) =>
                   /\ o.ret # "nil"
                   /\ OpsNamed(o, "reset") # {}
                   /\ \A c \in OpsNamed(o, "close") : \E r \in OpsNamed(o, "reset") : r < c

(* conformance with the model: outcome, call count, per-call outcome, timing of attempts and backoff waits, deadlines *)
AttemptDur(o, s, i) ==
  LET c == o.news[i] out == s.outs[i] IN
  CASE out \in {"ok", "fail"} -> c.t1 - c.t0 = Lat
    [] out = "ctx" -> c.t1 = c.t0 /\ c.ctxDone
    [] out = "hang" -> IF s.cancelAt = "attempt" /\ s.cancelK = i THEN c.t1 = o.tCancel /\ c.t1 - c.t0 = Lat \div 2
                       ELSE c.t1 - c.t0 = OpenTO
    [] OTHER -> FALSE
GapOK(o, i) == LET g == o.news[i + 1].t0 - o.news[i].t1 IN g >= MinD /\ g <= MinOf(MaxD, MinD * Pow2(i - 1))
WdlOK(o, s) ==
  LET w == OpsNamed(o, "wdl") IN
  IF s.write = "none" THEN w = {}
  ELSE /\ Cardinality(w) = 2
       /\ \E a, b \in w : a < b /\ o.ops[b].t = -1
                           /\ o.ops[a].t = (IF o.dl THEN CtxDL ELSE LastT1(o) + SendTO)
                           /\ \A x \in OpsNamed(o, "w") : a < x /\ x < b
OutConf(o, s) ==
  /\ s.pc = "done"
  /\ o.ret = s.ret
  /\ Len(o.news) = s.n /\ Len(s.outs) = s.n
  /\ \A i \in 1..Len(o.news) : o.news[i].script = s.outs[i] /\ (o.news[i].res = "ok") = (s.outs[i] = "ok") /\ AttemptDur(o, s, i)
  /\ \A i \in 1..(Len(o.news) - 1) : GapOK(o, i)
  /\ (o.tCancel >= 0) = s.cancelled
  /\ s.cancelAt = "wait" => o.tCancel = o.news[s.cancelK].t1 + MinD \div 2
  /\ o.resets = (IF s.reset = "none" THEN 0 ELSE 1)
  /\ o.closes = (IF s.close = "none" THEN 0 ELSE 1)
  /\ o.wrote.msgs = s.delivered
  /\ (s.write = "failMid" => o.wrote.bytes = 5) /\ (s.write = "fail0" => o.wrote.bytes = 0)
  /\ WdlOK(o, s)
  /\ Len(o.delivered) = (IF s.ret = "nil" THEN 1 ELSE 0)

OutVerdict(o) ==
  LET s == OutRun(o.max, o.ev) IN
  (IF OutConf(o, s) THEN {} ELSE {"conf"})
  \cup (IF RCap(o) THEN {} ELSE {"C15.cap"})
  \cup (IF RSuccessIff(o) THEN {} ELSE {"C15.successIff"})
  \cup (IF ROnce(o) THEN {} ELSE {"C15.once"})
  \cup (IF RPrompt(o) THEN {} ELSE {"C15.prompt"})
  \cup (IF RWriteFail(o) THEN {} ELSE {"C15.writeFail"})

(* ------------------------------- inbound rules ------------------------------- *)
CallOK(o, k) == o.calls[k] = [h |-> Kind3(o.items[k]), peer |-> o.peer, shape |-> o.items[k], tid |-> k, same |-> TRUE]

(* every message of the stream is handed, once and in order, to the handler of its kind with the authenticated peer *)
RDispatch(o) == IF o.nilrecv THEN o.calls = << >>
                ELSE /\ Len(o.calls) = Len(o.items)
                     /\ \A k \in 1..Len(o.calls) : k <= Len(o.items) /\ CallOK(o, k)

RMalformed(o) == /\ o.panics = << >>
                 /\ \A k \in 1..Len(o.calls) : o.calls[k].tid \in 1..Len(o.items) /\ o.calls[k].shape # "nil"   \* nothing beyond the well-formed messages reaches a handler
                 /\ Len(o.calls) <= Len(o.items)
                 /\ (o.term \in BadTerms /\ ~o.nilrecv) => (o.resets >= 1 /\ Len(o.errs) = 1)
                 /\ o.nilrecv => (o.resets >= 1 /\ o.calls = << >>)

InConf(o, s) ==
  /\ s.pc = "done"
  /\ o.handlerSet
  /\ Len(o.calls) = Len(s.calls)
  /\ o.resets = s.resets /\ Len(o.errs) = s.errs /\ o.closes = s.closes

InVerdict(o) ==
  LET s == InRun(o.peer, o.nilrecv, o.ev) IN
  (IF InConf(o, s) THEN {} ELSE {"conf"})
  \cup (IF RDispatch(o) THEN {} ELSE {"C15.dispatch"})
  \cup (IF RMalformed(o) THEN {} ELSE {"C15.malformed"})

VerdictOf(o) == IF o.err # "" THEN {"harness"} ELSE IF o.kind = "out" THEN OutVerdict(o) ELSE InVerdict(o)

Verdicts == UNION {{[case |-> Cases[n].case, rule |-> r] : r \in VerdictOf(Cases[n])} : n \in 1..Len(Cases)}

ASSUME ndJsonSerialize(OutFile, SetToSeq(Verdicts))
ASSUME PrintT(<<"@@judged", Len(Cases)>>)
=============================================================================

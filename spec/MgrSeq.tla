------------------------------ MODULE MgrSeq ------------------------------
(* One node's manager with ONE channel slot, as a state machine over Mgr!Handle (synchronous engine       *)
(* abstraction): the environment issues stimuli (API calls, messages from the counterparty B or a stranger *)
(* X, transport callbacks) with every validator outcome and send outcome; TLC checks the manager-level     *)
(* formulas of C02 C04 C05 C08 C09 C10 C11 C18 C19 on every reachable (state, stimulus, outcome), and in    *)
(* -simulate mode prints stimulus histories (PrintT "@@case") that harness/mgrx replays on the real manager. *)
EXTENDS MgrTab

CONSTANTS Role, MaxSteps, DumpLen

VARIABLES has, rec, cache, h, last, done
vars == <<has, rec, cache, h, last, done>>

Id == IdentOf(Role, 1)
Types == {"vt"}
StimSet == StimsFor(Role) \cup (IF Role \in {"respPush","respPull"}
             THEN {[St(k) EXCEPT !.from = "B", !.msg = ReqNew(1, Role = "respPull", "v0", "s"), !.val = v] : k \in {"RecvRequest","OnRequestReceived"}, v \in ValFew}
             ELSE {})

(* the channel id a stimulus addresses is built from the authenticated sender (and, for restart-existing, embedded) *)
Addresses(s) ==
  CASE s.kind \in {"RecvRequest","OnRequestReceived"} -> (s.from = Id.initiator /\ Id.responder = "A" /\ s.msg.tid = Id.tid)
    [] s.kind \in {"RecvResponse","OnResponseReceived"} -> (s.from = Id.responder /\ Id.initiator = "A" /\ s.msg.tid = Id.tid)
    [] s.kind = "RecvRestartExisting" -> (s.msg.ri = Id.initiator /\ s.msg.rr = Id.responder /\ s.msg.rt = Id.tid)
    [] OTHER -> TRUE

Init == /\ has = (Role \in {"initPush","initPull"}) /\ rec = ZeroRec("Requested") /\ cache = FreshCache /\ h = << >> /\ done = FALSE
        /\ last = [s |-> Stim0, o |-> Out0(FreshCache), pre |-> ZeroRec("Requested"), had |-> FALSE]

Do(s) ==
  /\ ~done /\ Len(h) < MaxSteps
  /\ (has \/ s.kind \in {"RecvRequest","OnRequestReceived","RecvResponse","OnResponseReceived","RecvRestartExisting"})
  /\ LET addressed == Addresses(s)
         hasEff == has /\ addressed
         o == Handle(s, "A", hasEff, Id, rec, Types, cache)
         base == IF hasEff THEN rec ELSE [ZeroRec("Requested") EXCEPT !.vouchers = <<s.msg.v>>]
         mine == addressed /\ (hasEff \/ (o.creates /\ ~has))          \* a channel created under another id is not c1
     IN /\ o.ret # "unmodelled"
        /\ has' = (has \/ (addressed /\ o.creates))
        /\ rec' = IF mine THEN After(base, o.evs) ELSE rec
        /\ cache' = IF addressed THEN o.cache ELSE cache
        /\ last' = [s |-> s, o |-> o, pre |-> rec, had |-> has]
  /\ h' = Append(h, s) /\ UNCHANGED done

Dump == /\ ~done /\ Len(h) = DumpLen
        /\ PrintT(<<"@@case", ToJson([self |-> "A", types |-> <<"vt">>,
                     chans |-> IF Role \in {"initPush","initPull"} THEN << [name |-> "c1", ident |-> Id, rec |-> ZeroRec("Requested")] >> ELSE << >>,
                     steps |-> h])>>)
        /\ done' = TRUE /\ UNCHANGED <<has, rec, cache, h, last>>

Next == (\E s \in StimSet : Do(s)) \/ (DumpLen > 0 /\ Dump)
Spec == Init /\ [][Next]_vars

(* ---- manager-level properties on the model: every reachable (pre, stimulus, outcome) ---- *)
S == last.s   O == last.o   P == last.pre   Had == last.had
IsReqS == S.kind \in {"RecvRequest","OnRequestReceived"}
ValOK == Len(O.val) >= 1 /\ ~S.val.err /\ S.val.accepted
ReplyM == IF O.reply.kind # "none" THEN O.reply
          ELSE IF \E i \in 1..Len(O.net) : O.net[i].what = "send" /\ ~O.net[i].msg.isReq /\ O.net[i].msg.kind \in {"New","Restart","VoucherResult","Complete"}
               THEN O.net[CHOOSE i \in 1..Len(O.net) : O.net[i].what = "send" /\ ~O.net[i].msg.isReq /\ O.net[i].msg.kind \in {"New","Restart","VoucherResult","Complete"}].msg
          ELSE IF \E i \in 1..Len(O.tr) : O.tr[i].call \in {"open","resume"} /\ ~O.tr[i].msg.isReq THEN O.tr[CHOOSE i \in 1..Len(O.tr) : O.tr[i].call \in {"open","resume"} /\ ~O.tr[i].msg.isReq].msg
          ELSE NoMsg
Opened == \E i \in 1..Len(O.tr) : O.tr[i].call = "open" /\ O.tr[i].ok

M_C04_Validated == (IsReqS /\ S.msg.kind \in {"New","Restart"}) => ((O.creates \/ Opened \/ ReplyM.accepted) => ValOK)
M_C04_Refused == (IsReqS /\ S.msg.kind \in {"New","Restart"} /\ ~ValOK) => (~ReplyM.accepted /\ ~O.creates)
M_C04_Faithful == (IsReqS /\ S.msg.kind \in {"New","Restart"} /\ ReplyM.accepted) => (ReplyM.v = S.val.vres)
M_C02_Final == (Had /\ P.status \in Terminal) => rec = P
M_C05_Entitled == ((IsReqS \/ S.kind \in {"RecvResponse","OnResponseReceived","RecvRestartExisting"}) /\ Had /\ ~Addresses(S)) => rec = P
M_C18_Dup == (IsReqS /\ S.msg.kind = "New" /\ Had /\ Addresses(S)) => (rec = P /\ ~ReplyM.accepted)
M_C10_Identity == (S.kind = "Restart" /\ Had) => (<<rec.queued, rec.sent, rec.received, rec.qIdx, rec.sIdx, rec.rIdx>> = <<P.queued, P.sent, P.received, P.qIdx, P.sIdx, P.rIdx>>)
M_C10_Skip == \A i \in 1..Len(O.tr) : (O.tr[i].call = "open" /\ O.tr[i].hasChan) => O.tr[i].skip = P.rIdx
M_C09_Close == (S.kind = "Close" /\ Had /\ P.status \notin Terminal) => rec.status = "Cancelled"
M_C11_Own == (S.kind \in {"Pause","Resume"} /\ Had) => (IF Id.initiator = "A" THEN rec.rp = P.rp ELSE rec.ip = P.ip)
M_C19_Append == Had => (Len(rec.vouchers) >= Len(P.vouchers) /\ Len(rec.results) >= Len(P.results))
Constr == Len(h) <= MaxSteps
View == <<has, rec, cache, last, Len(h), done>>
=============================================================================

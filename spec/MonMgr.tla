------------------------------- MODULE MonMgr -------------------------------
(* The channel monitor COMPOSED WITH THE MANAGER it supervises (channelmonitor.Monitor inside impl.manager), for one    *)
(* channel this node initiated.  Mon.tla studies the monitor alone against an environment that implements its five-      *)
(* method API; here that API is the real manager, whose RestartDataTransferChannel RE-ENTERS the monitor                  *)
(* (openPushRestartChannel / openPullRestartChannel call AddPushChannel / AddPullChannel again and shut down the monitor  *)
(* they get back - nil for a channel that is already monitored - when the restart request cannot be sent), whose          *)
(* CloseDataTransferChannelWithError closes the transport, tries to tell the peer and fails the channel, and whose event   *)
(* stream feeds the monitor's subscriber.                                                                                  *)
(*                                                                                                                        *)
(* A scenario is sequential (the harness lets virtual time run to quiescence between stimuli - testing/synctest), so the    *)
(* composition is a function: Run(scn) = what an observer of the network double, the transport double and the channel       *)
(* sees.  The interleavings of timers, debounce and goroutines are Mon.tla's subject.                                        *)
(*   kind "restart" : the channel is accepted and transferring; stimuli "err" (the transport reports a send/receive error)  *)
(*                    and "data" (a block is sent/received) arrive one at a time; script = outcome of the successive         *)
(*                    attempts to hand the restart request to the peer (push: SendMessage, pull: Transport.OpenChannel).     *)
(*   kind "accept"  : the request is answered (or not) before the accept timeout.                                            *)
(*   kind "complete": the transfer finishes locally; the responder's Complete arrives (or not) before the complete timeout.  *)
(* Mode "gen" tabulates the scenarios with their expected outcome; Mode "judge" evaluates conformance and the C14 formulas   *)
(* on what the REAL manager + REAL monitor did (harness mgrx/TestMonMgr).                                                    *)
EXTENDS Naturals, Sequences, FiniteSets, TLC, Json, SequencesExt

CONSTANTS Mode, ObsFile, OutFile

Dirs == {"push", "pull"}
Maxes == {1, 2, 3}
RECURSIVE SeqsUpTo(_, _)
SeqsUpTo(S, n) == IF n = 0 THEN {<< >>} ELSE LET P == SeqsUpTo(S, n - 1) IN P \cup {Append(p, x) : p \in {q \in P : Len(q) = n - 1}, x \in S}
StimSeqs == {s \in SeqsUpTo({"err", "data"}, 3) : \E i \in 1..Len(s) : s[i] = "err"}
Scripts == {s \in SeqsUpTo(BOOLEAN, 4) : Len(s) = 4}          \* TRUE = this attempt to reach the peer fails

(* ---- the restart cycle the monitor runs for one "err" stimulus ---- *)
(* st = [consec, script, sends, closed]: consecutive restarts without data, remaining outcomes, outcomes of the restart  *)
(* requests handed to the network/transport so far, closed with error?                                                     *)
RECURSIVE Attempt(_, _)
Attempt(st, max) ==
  IF st.consec + 1 > max
  THEN [st EXCEPT !.consec = @ + 1, !.closed = TRUE]                 \* doRestartChannel gives up: closeChannelAndShutdown
  ELSE LET fail == IF st.script = << >> THEN FALSE ELSE Head(st.script)
           rest == IF st.script = << >> THEN << >> ELSE Tail(st.script)
           s1 == [st EXCEPT !.consec = @ + 1, !.script = rest, !.sends = Append(@, ~fail)]
       IN IF fail THEN Attempt(s1, max) ELSE s1                        \* "restart failed, trying again" | restart completed

RECURSIVE RunStims(_, _, _)
RunStims(st, stims, max) ==
  IF stims = << >> \/ st.closed THEN st
  ELSE IF Head(stims) = "data" THEN RunStims([st EXCEPT !.consec = 0], Tail(stims), max)
  ELSE RunStims(Attempt(st, max), Tail(stims), max)

St0(script) == [consec |-> 0, script |-> script, sends |-> << >>, closed |-> FALSE]

Expected(scn) ==
  CASE scn.kind = "restart" ->
         LET r == RunStims(St0(scn.script), scn.stims, scn.max) IN
         [restarts |-> r.sends, closed |-> r.closed, final |-> IF r.closed THEN "Failed" ELSE "Ongoing", monitored |-> ~r.closed]
    [] scn.kind = "accept" ->
         \* the accept arrives at instant scn.at (0 = never, 99 = at once: before the call that opened the channel has returned - the
         \* responder answers faster than SendMessage / OpenChannel come back); the timeout is scn.timeout (0 = disabled)
         LET late == scn.timeout > 0 /\ scn.at # 99 /\ (scn.at = 0 \/ scn.at > scn.timeout) IN
         [restarts |-> << >>, closed |-> late, final |-> IF late THEN "Failed" ELSE IF scn.at = 0 THEN "Requested" ELSE "Queued", monitored |-> ~late]
    [] scn.kind = "complete" ->
         LET late == scn.timeout > 0 /\ (scn.at = 0 \/ scn.at > scn.timeout) IN
         [restarts |-> << >>, closed |-> late, final |-> IF late THEN "Failed" ELSE IF scn.at = 0 THEN "TransferFinished" ELSE "Completed", monitored |-> (~late /\ scn.at = 0)]

Scenarios ==
  {[kind |-> "restart", dir |-> d, max |-> m, stims |-> s, script |-> sc, timeout |-> 0, at |-> 0] : d \in Dirs, m \in Maxes, s \in StimSeqs, sc \in Scripts}
  \cup {[kind |-> k, dir |-> d, max |-> 2, stims |-> << >>, script |-> << >>, timeout |-> t, at |-> a] : k \in {"accept", "complete"}, d \in Dirs, t \in {0, 5}, a \in {0, 3, 8}}
  \cup {[kind |-> "accept", dir |-> d, max |-> 2, stims |-> << >>, script |-> << >>, timeout |-> t, at |-> 99] : d \in Dirs, t \in {0, 5}}

GenRows == {[scn |-> s, exp |-> Expected(s)] : s \in Scenarios}

(* ---- judge ---- *)
Obs == IF Mode = "judge" THEN ndJsonDeserialize(ObsFile) ELSE << >>
TrueCount(s) == Cardinality({i \in 1..Len(s) : s[i]})
(* longest run of restart requests with no data stimulus in between is bounded by max: the harness reports, per "err"      *)
(* stimulus, how many restart requests were made (perErr), and which stimuli were data                                      *)
RECURSIVE RunsOK(_, _, _, _)
RunsOK(stims, perErr, acc, max) ==
  IF stims = << >> THEN TRUE
  ELSE IF Head(stims) = "data" THEN RunsOK(Tail(stims), perErr, 0, max)
  ELSE LET n == IF perErr = << >> THEN 0 ELSE Head(perErr) IN
       acc + n <= max /\ RunsOK(Tail(stims), IF perErr = << >> THEN << >> ELSE Tail(perErr), acc + n, max)

Rules(o) ==
  LET scn == o.scn  e == Expected(scn) IN
  (IF o.err = "" /\ o.restarts = e.restarts /\ o.closed = e.closed /\ o.final = e.final /\ o.monitored = e.monitored THEN {} ELSE {"conf"})
  \cup (IF o.err = "" THEN {} ELSE {"harness"})
  (* closed with an error at most once in total *)
  \cup (IF o.errorEvents <= 1 /\ o.cancelMsgs <= 1 THEN {} ELSE {"C14.closeOnce"})
  (* no more than the configured number of consecutive attempts without data progress *)
  \cup (IF scn.kind = "restart" => RunsOK(scn.stims, o.perErr, 0, scn.max) THEN {} ELSE {"C14.bounded"})
  (* a restart request that could not be handed over is tried again (until the bound) *)
  \cup (IF (scn.kind = "restart" /\ o.err = "") => (\A i \in 1..Len(o.restarts) : (~o.restarts[i] /\ i < Len(e.restarts)) => Len(o.restarts) > i) THEN {} ELSE {"C14.retried"})
  (* when reconnecting or restarting fails persistently the channel is closed with an error - not left alive and forgotten *)
  \cup (IF (o.err = "" /\ e.closed) => (o.closed /\ o.final \in {"Failing", "Failed"} /\ o.errorEvents = 1 /\ o.cancelMsgs = 1 /\ o.transportCloses >= 1) THEN {} ELSE {"C14.givesUp"})
  (* ... and never otherwise; the timeouts close exactly when the awaited event did not arrive in time, never when disabled *)
  \cup (IF (o.err = "" /\ ~e.closed) => (~o.closed /\ o.errorEvents = 0 /\ o.cancelMsgs = 0) THEN {} ELSE {"C14.noSpuriousClose"})
  (* a channel that is alive and was not given up stays monitored (a later error still restarts it); once the monitor has  *)
  (* seen it cleaning up or terminal, or has given up, nothing is restarted any more                                       *)
  \cup (IF o.err = "" => (o.monitored = e.monitored) THEN {} ELSE {"C14.monitoredIffAlive"})

Verdicts == UNION {{[case |-> Obs[i].case, rule |-> r, kind |-> Obs[i].scn.kind, dir |-> Obs[i].scn.dir] : r \in Rules(Obs[i])} : i \in 1..Len(Obs)}

ASSUME Mode = "gen" => ndJsonSerialize(OutFile, SetToSeq(GenRows))
ASSUME Mode = "judge" => ndJsonSerialize(OutFile, SetToSeq(Verdicts))
ASSUME Mode = "judge" => PrintT(<<"@@judged", Len(Obs)>>)
ASSUME Mode = "gen" => PrintT(<<"@@generated", Cardinality(GenRows)>>)
=============================================================================

------------------------------ MODULE AcctInd ------------------------------
(* Inductive invariant for the accounting of Acct.tla, discharged by Apalache (SMT): block positions and sizes are        *)
(* ARBITRARY integers (the one place where TLC's small constants hide arithmetic); the number of concurrent reports is    *)
(* fixed (N = 4) and every interleaving of their steps with the run loop is covered by induction:                          *)
(*     Init => IndInv           IndInv /\ Next => IndInv'           IndInv => Once /\ CacheBytes /\ DurableBytes            *)
(* The pending-event queue is abstracted to the SET of reports whose progress event is queued (byte totals do not depend   *)
(* on the order in which progress events are applied); limits / pauses are Acct.tla's business.                              *)
EXTENDS Integers, FiniteSets, Apalache

CONSTANTS
  \* @type: Set(Int);
  R,
  \* @type: Int -> Int;
  pos,
  \* @type: Int -> Int;
  size,
  \* @type: Int -> Bool;
  uniq

VARIABLES
  \* @type: Int;
  hw,
  \* @type: Int;
  tot,
  \* @type: Int -> Str;
  pc,
  \* @type: Set(Int);
  adv,
  \* @type: Set(Int);
  qP,
  \* @type: Int;
  total

CInit == /\ R = 1..4
         /\ pos \in [R -> Int] /\ \A r \in R : pos[r] >= 1
         /\ size \in [R -> Int] /\ \A r \in R : size[r] >= 0
         /\ uniq \in [R -> BOOLEAN]

PCs == {"cas", "add", "sendP", "sendI", "done"}

\* @type: (Set(Int)) => Int;
Sum(S) == ApaFoldSet(LAMBDA acc, r : acc + size[r], 0, S)

Init == /\ hw = 0 /\ tot = 0 /\ pc = [r \in R |-> "cas"] /\ adv = {} /\ qP = {} /\ total = 0

Cas(r) == /\ pc[r] = "cas"
          /\ IF uniq[r] /\ pos[r] > hw
             THEN hw' = pos[r] /\ adv' = adv \cup {r} /\ pc' = [pc EXCEPT ![r] = "add"]
             ELSE UNCHANGED <<hw, adv>> /\ pc' = [pc EXCEPT ![r] = "sendI"]
          /\ UNCHANGED <<tot, qP, total>>
Add(r) == /\ pc[r] = "add" /\ tot' = tot + size[r] /\ pc' = [pc EXCEPT ![r] = "sendP"]
          /\ UNCHANGED <<hw, adv, qP, total>>
SendP(r) == /\ pc[r] = "sendP" /\ qP' = qP \cup {r} /\ pc' = [pc EXCEPT ![r] = "sendI"]
            /\ UNCHANGED <<hw, tot, adv, total>>
SendI(r) == /\ pc[r] = "sendI" /\ pc' = [pc EXCEPT ![r] = "done"]
            /\ UNCHANGED <<hw, tot, adv, qP, total>>
Plan(r) == /\ r \in qP /\ qP' = qP \ {r} /\ total' = total + size[r]
           /\ UNCHANGED <<hw, tot, pc, adv>>
Next == \E r \in R : Cas(r) \/ Add(r) \/ SendP(r) \/ SendI(r) \/ Plan(r)

PastAdd == {r \in adv : pc[r] # "add"}
Applied == {r \in adv : pc[r] \in {"sendI", "done"} /\ r \notin qP}

IndInv ==
  /\ pc \in [R -> PCs] /\ adv \subseteq R /\ qP \subseteq R
  /\ \A r \in adv : uniq[r] /\ pos[r] <= hw /\ pc[r] # "cas"
  /\ \A r \in R \ adv : pc[r] \in {"cas", "sendI", "done"}
  /\ \A r1, r2 \in adv : r1 # r2 => pos[r1] # pos[r2]
  /\ (hw = 0 /\ adv = {}) \/ (\E r \in adv : pos[r] = hw)
  /\ \A r \in qP : r \in adv /\ pc[r] \in {"sendI", "done"}
  /\ tot = Sum(PastAdd)
  /\ total = Sum(Applied)
IndInit == /\ hw \in Int /\ tot \in Int /\ total \in Int
           /\ pc \in [R -> PCs] /\ adv \in SUBSET R /\ qP \in SUBSET R
           /\ IndInv

Quiescent == qP = {} /\ \A r \in R : pc[r] = "done"
Once == \A r1, r2 \in adv : r1 # r2 => pos[r1] # pos[r2]
Props == /\ Once
         /\ (\A r \in adv : pc[r] # "add") => tot = Sum(adv)          \* cache total = sum of the reports that advanced the high-water mark
         /\ Quiescent => (total = Sum(adv) /\ total = tot)            \* durable total agrees at quiescence
         /\ total <= tot
=============================================================================

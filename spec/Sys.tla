-------------------------------- MODULE Sys --------------------------------
(* Two nodes - initiator "A" and responder "B" - each running the manager of Mgr.tla, connected by        *)
(*   net : the bag of in-flight libp2p messages (every SendMessage opens its own stream: unordered), and     *)
(*   gs  : an abstract graphsync request (the contract of the transport adapter as GsT.tla states it):       *)
(*         the requester is the data RECEIVER's side that opened the transport channel (pull: A, push: B),    *)
(*         the request carries a data-transfer message as extension, extensions flow both ways, blocks flow   *)
(*         responder -> requester one index at a time, either side can pause, completion is reported to both. *)
(* One transfer of NBlocks blocks.  The scenario starts right after A's Open call returned: A holds the       *)
(* channel in Requested, the New request is in flight (push: on the network; pull: inside the graphsync        *)
(* request).  Every step is ONE stimulus on ONE real manager (history h), so harness/mgrx can replay a         *)
(* behaviour on two real managers with no link logic of its own.                                               *)
EXTENDS MgrTab

CONSTANTS Dir,          \* "push" | "pull"
          NBlocks,      \* number of blocks (block i has size BSize(i); block DupIdx duplicates an earlier one)
          LimitsId,     \* names the sequence of data limits the responder's validator grants (0 = unlimited): "none" | "l2" | "l2_4" | "l3"
          ReqFin,       \* BOOLEAN responder requires finalization
          MaxPauses,    \* application pause/resume pairs allowed per side
          MaxRestarts,  \* application-level restarts (RestartDataTransferChannel on either node) allowed
          MaxCloses,    \* application-level closes (CloseDataTransferChannel on either node) allowed
          MaxBounces,   \* process bounces (a node's process stops and starts again over the same datastore, at a quiescent point)
          MaxVouchers,  \* further vouchers the initiator's application sends / voucher results the responder's application sends (each)
          OldEnds,      \* ways in which a transport request SUPERSEDED by a restart may still report its end, late, to either side:
                        \*   subset of {"cancelled" (OnRequestCancelled), "error" (OnChannelCompleted with an error), "silent"}
          MaxSendFails, \* SendMessage calls (either node, any step) that FAIL: the message is not delivered and the manager sees the error
          MaxSkip,      \* ... each after at most MaxSkip successful sends (counted over both nodes)
          MaxLen,       \* history bound
          DumpAtEnd     \* BOOLEAN: print the history when the run is over (simulation)

VARIABLES ch, net, gs, todo, lim, pauses, restarts, closes, vsent, bounces, h, done,
          sfails,       \* failed sends so far
          failIn        \* oracle: number of sending steps that still succeed before the next failing one (chosen ahead, so that every use of a
                        \* step's stimulus - Handle, Ret, Reply - agrees on whether its first SendMessage fails)
vars == <<ch, net, gs, todo, lim, pauses, restarts, closes, vsent, bounces, h, done, sfails, failIn>>
FailNow == sfails < MaxSendFails /\ failIn = 0

Limits == CASE LimitsId = "l2" -> <<2, 0>> [] LimitsId = "l3" -> <<3, 0>> [] LimitsId = "l2_4" -> <<2, 4, 0>> [] OTHER -> << >>
Pull == Dir = "pull"
IdA == IdentOf(IF Pull THEN "initPull" ELSE "initPush", 1)
IdB == [self |-> "B", initiator |-> "A", responder |-> "B", sender |-> IdA.sender, recipient |-> IdA.recipient, tid |-> 1, base |-> "base", sel |-> "s"]
IdOf(n) == IF n = "A" THEN IdA ELSE IdB
Other(n) == IF n = "A" THEN "B" ELSE "A"
Rq == IF Pull THEN "A" ELSE "B"          \* graphsync requester = data receiver
Rs == Other(Rq)                          \* graphsync responder = data sender
BSize(i) == 1 + (i % 2)
DupIdx == 3                              \* block 3 repeats block 1 (not unique: no progress, no bytes on the wire)
Uniq(i) == i # DupIdx
RECURSIVE SumTo(_)
SumTo(i) == IF i = 0 THEN 0 ELSE (IF Uniq(i) THEN BSize(i) ELSE 0) + SumTo(i - 1)
UniqueBytes == SumTo(NBlocks)

NewReq == ReqNew(1, Pull, "v0", "s")
Val0 == Res(TRUE, FALSE, "", FALSE, IF Len(Limits) > 0 THEN Limits[1] ELSE 0, ReqFin)
ValAt(k) == Res(TRUE, FALSE, "", FALSE, IF k <= Len(Limits) THEN Limits[k] ELSE 0, ReqFin)

NoGs == [st |-> "none", arrived |-> FALSE, ext |-> NoMsg, toRq |-> << >>, toRs |-> << >>, next |-> 1, rqPaused |-> FALSE, rsPaused |-> FALSE,
         doneRq |-> FALSE, doneRs |-> FALSE, opens |-> 0, initd |-> {},
         old |-> {}]      \* nodes to which the end of a request superseded by a restart has not been reported yet

Init ==
  /\ ch = [n \in {"A","B"} |-> [has |-> n = "A", rec |-> ZeroRec("Requested"), cache |-> FreshCache]]
  /\ net = IF Pull THEN << >> ELSE << [to |-> "B", msg |-> NewReq] >>
  /\ gs = IF Pull THEN [NoGs EXCEPT !.st = "open", !.ext = NewReq, !.opens = 1] ELSE NoGs
  /\ todo = IF Pull THEN << [node |-> "A", kind |-> "OnChannelOpened", i |-> 0] >> ELSE << >>
  /\ lim = 1 /\ pauses = [n \in {"A","B"} |-> 0] /\ restarts = 0 /\ closes = 0 /\ vsent = [n \in {"A","B"} |-> 0] /\ bounces = 0 /\ h = << >> /\ done = FALSE
  /\ sfails = 0 /\ failIn \in (IF MaxSendFails > 0 THEN 0..MaxSkip ELSE {0})

(* ---- one stimulus on node n: apply Mgr!Handle, route its outputs ---- *)
StimOf(n, kind, from, msg, val, args) == [Stim0 EXCEPT !.kind = kind, !.c = "c1", !.from = from, !.msg = msg, !.val = val, !.args = args,
                                                      !.sendFail = IF FailNow THEN <<TRUE>> ELSE << >>]
NoFail == UNCHANGED <<sfails, failIn>>

ApplyTr(g, n, tr) ==      \* effect of node n's transport calls on the link, in order
  LET F[i \in 0..Len(tr)] ==
        IF i = 0 THEN g ELSE
        LET p == F[i-1]  t == tr[i] IN
        CASE t.call = "open"   -> [NoGs EXCEPT !.st = "open", !.ext = t.msg, !.opens = p.opens + 1, !.next = t.skip + 1,
                                               \* a request that was still live is superseded: its end is reported later, if at all
                                               !.old = IF OldEnds # {} /\ p.st = "open" THEN p.old \cup {Rq} \cup (IF p.arrived THEN {Rs} ELSE {}) ELSE p.old]
          [] t.call = "pause"  -> IF n = Rq THEN [p EXCEPT !.rqPaused = TRUE] ELSE [p EXCEPT !.rsPaused = TRUE]
          [] t.call = "resume" -> IF n = Rq THEN [p EXCEPT !.rqPaused = FALSE, !.toRs = Append(@, t.msg)]
                                             ELSE [p EXCEPT !.rsPaused = FALSE, !.toRq = Append(@, t.msg)]
          [] t.call = "close"  -> IF p.st \in {"open"} THEN [p EXCEPT !.st = "cancelled"] ELSE p
          [] OTHER -> p
  IN F[Len(tr)]
OpensIn(tr) == Len(SelectSeq(tr, LAMBDA t : t.call = "open"))
SendsIn(netOut) == LET s == SelectSeq(netOut, LAMBDA x : x.what = "send" /\ x.ok) IN      \* a failed send delivers nothing
  [i \in 1..Len(s) |-> [to |-> s[i].to, msg |-> s[i].msg]]

(* Do(n, s, g0): node n handles stimulus s; g0 = link state to start from (already updated by the caller) *)
Do(n, s, g0, net0, todo0) ==
  LET c == ch[n]
      o == Handle(s, n, c.has, IdOf(n), c.rec, {"vt"}, c.cache)
      base == IF c.has THEN c.rec ELSE [ZeroRec("Requested") EXCEPT !.vouchers = <<s.msg.v>>]
      rec2 == IF c.has \/ o.creates THEN After(base, o.evs) ELSE c.rec
  IN /\ o.ret # "unmodelled"
     /\ ch' = [ch EXCEPT ![n] = [has |-> c.has \/ o.creates, rec |-> rec2, cache |-> o.cache]]
     /\ net' = net0 \o SendsIn(o.net)
     /\ gs' = ApplyTr(g0, n, o.tr)
     /\ todo' = todo0 \o [i \in 1..OpensIn(o.tr) |-> [node |-> n, kind |-> "OnChannelOpened", i |-> 0]]
     /\ h' = Append(h, [node |-> n, stim |-> s])
     \* the oracle counts steps that really send; a step that sends nothing leaves it alone (its sendFail script is then without effect)
     /\ LET sent == \E k \in 1..Len(o.net) : o.net[k].what = "send" IN
          /\ sfails' = sfails + (IF FailNow /\ sent THEN 1 ELSE 0)
          /\ failIn' \in (IF sfails' >= MaxSendFails THEN {0}
                          ELSE IF FailNow /\ sent THEN 0..MaxSkip
                          ELSE IF sent THEN {failIn - 1} ELSE {failIn})

Ret(n, s) == Handle(s, n, ch[n].has, IdOf(n), ch[n].rec, {"vt"}, ch[n].cache).ret
Reply(n, s) == Handle(s, n, ch[n].has, IdOf(n), ch[n].rec, {"vt"}, ch[n].cache).reply
Live == ~done /\ Len(h) < MaxLen

(* ---- network ---- *)
NetDeliver(i) ==
  /\ Live /\ i \in 1..Len(net)
  /\ LET m == net[i]
         s == StimOf(m.to, IF m.msg.kind = "RestartExisting" THEN "RecvRestartExisting" ELSE IF m.msg.isReq THEN "RecvRequest" ELSE "RecvResponse",
                     Other(m.to), m.msg, IF lim = 1 THEN Val0 ELSE ValAt(lim), ZeroArgs)
         rest == SubSeq(net, 1, i-1) \o SubSeq(net, i+1, Len(net))
     IN Do(m.to, s, gs, rest, todo)
  /\ UNCHANGED <<lim, pauses, restarts, closes, vsent, bounces, done>>

(* ---- follow-up callbacks the adapter makes on its own (OnChannelOpened after OpenChannel) ---- *)
Todo ==
  /\ Live /\ todo # << >>
  /\ Head(todo).kind = "OnChannelOpened"
  /\ LET t == Head(todo) IN Do(t.node, StimOf(t.node, t.kind, Other(t.node), NoMsg, Val0, ZeroArgs), gs, net, Tail(todo))
  /\ UNCHANGED <<lim, pauses, restarts, closes, vsent, bounces, done>>

(* ---- graphsync: the request reaches the responder side ---- *)
GsArrive ==
  /\ Live /\ gs.st = "open" /\ ~gs.arrived /\ todo = << >>
  /\ LET s == StimOf(Rs, IF gs.ext.isReq THEN "OnRequestReceived" ELSE "OnResponseReceived", Rq, gs.ext, IF lim = 1 THEN Val0 ELSE ValAt(lim), ZeroArgs)
         r == Ret(Rs, s)  rep == Reply(Rs, s)
         g1 == [gs EXCEPT !.arrived = TRUE,
                          !.toRq = IF rep.kind # "none" THEN Append(@, rep) ELSE @,
                          !.rsPaused = (r = "pause"),
                          !.st = IF r \in {"nil","pause"} THEN "open" ELSE "done"]
     IN Do(Rs, s, g1, net, todo)
  /\ UNCHANGED <<lim, pauses, restarts, closes, vsent, bounces, done>>
GsInitiated(n) ==      \* the transport reports that the request started processing (once per side and request)
  /\ Live /\ gs.st = "open" /\ gs.arrived /\ ch[n].has /\ n \notin gs.initd /\ todo = << >>
  /\ Do(n, StimOf(n, "OnTransferInitiated", Other(n), NoMsg, Val0, ZeroArgs), [gs EXCEPT !.initd = @ \cup {n}], net, todo)
  /\ UNCHANGED <<lim, pauses, restarts, closes, vsent, bounces, done>>
GsToRq ==
  /\ Live /\ gs.st \in {"open","done"} /\ gs.toRq # << >>
  /\ LET m == Head(gs.toRq)
         s == StimOf(Rq, IF m.isReq THEN "OnRequestReceived" ELSE "OnResponseReceived", Rs, m, ValAt(lim), ZeroArgs)
         g1 == [gs EXCEPT !.toRq = Tail(@), !.rqPaused = (@ \/ Ret(Rq, s) = "pause")]
     IN Do(Rq, s, g1, net, todo)
  /\ UNCHANGED <<lim, pauses, restarts, closes, vsent, bounces, done>>
GsToRs ==
  /\ Live /\ gs.st = "open" /\ gs.arrived /\ gs.toRs # << >>
  /\ LET m == Head(gs.toRs)
         s == StimOf(Rs, IF m.isReq THEN "OnRequestReceived" ELSE "OnResponseReceived", Rq, m, ValAt(lim), ZeroArgs)
         g1 == [gs EXCEPT !.toRs = Tail(@), !.rsPaused = (@ \/ Ret(Rs, s) = "pause")]
     IN Do(Rs, s, g1, net, todo)
  /\ UNCHANGED <<lim, pauses, restarts, closes, vsent, bounces, done>>

(* ---- one block: queued (+sent if on the wire) at the sender, received at the receiver; three history steps ---- *)
BArgs(i) == [ZeroArgs EXCEPT !.delta = BSize(i), !.index = i, !.unique = Uniq(i)]
CanFlow == gs.st = "open" /\ gs.arrived /\ gs.initd = {"A","B"} /\ ~gs.rqPaused /\ ~gs.rsPaused /\ gs.toRq = << >> /\ gs.toRs = << >> /\ todo = << >>
GsQueue ==
  /\ Live /\ CanFlow /\ gs.next <= NBlocks /\ ch[Rs].has /\ ch[Rq].has
  /\ LET i == gs.next
         s == StimOf(Rs, "OnDataQueued", Rq, NoMsg, Val0, BArgs(i))
         r == Ret(Rs, s)  rep == Reply(Rs, s)
         g1 == [gs EXCEPT !.next = i + 1, !.rsPaused = (r = "pause"), !.toRq = IF rep.kind # "none" THEN Append(@, rep) ELSE @]
     IN Do(Rs, s, g1, net, << [node |-> Rs, kind |-> "OnDataSent", i |-> i], [node |-> Rq, kind |-> "OnDataReceived", i |-> i] >>)
  /\ UNCHANGED <<lim, pauses, restarts, closes, vsent, bounces, done>>
BlockTodo ==
  /\ Live /\ todo # << >> /\ Head(todo).kind \in {"OnDataSent","OnDataReceived"}
  /\ LET t == Head(todo)
         s == StimOf(t.node, t.kind, Other(t.node), NoMsg, Val0, BArgs(t.i))
         g1 == IF t.kind = "OnDataReceived" /\ Ret(t.node, s) \in {"pause","other"} THEN [gs EXCEPT !.rqPaused = TRUE] ELSE gs
     IN (IF t.kind = "OnDataSent" /\ ~Uniq(t.i)
         THEN UNCHANGED <<ch, net, gs, h>> /\ todo' = Tail(todo) /\ NoFail      \* nothing on the wire: no sent accounting
         ELSE Do(t.node, s, g1, net, Tail(todo)))
  /\ UNCHANGED <<lim, pauses, restarts, closes, vsent, bounces, done>>

(* ---- completion is reported to both sides, in either order ---- *)
GsComplete(n) ==
  /\ Live /\ CanFlow /\ gs.next > NBlocks /\ ch[n].has
  /\ (IF n = Rq THEN ~gs.doneRq ELSE ~gs.doneRs)
  /\ LET g1 == IF n = Rq THEN [gs EXCEPT !.doneRq = TRUE] ELSE [gs EXCEPT !.doneRs = TRUE] IN
       Do(n, StimOf(n, "OnChannelCompleted", Other(n), NoMsg, Val0, ZeroArgs), g1, net, todo)
  /\ UNCHANGED <<lim, pauses, restarts, closes, vsent, bounces, done>>

(* ---- the responder's application: re-validates when paused by a limit, releases finalization ---- *)
AppValidate ==
  /\ Live /\ ch["B"].has /\ RespPausedView(ch["B"].rec) /\ ch["B"].rec.status \notin Terminal \cup Cleanup
  /\ todo = << >> /\ pauses["B"] % 2 = 0
  /\ (ch["B"].rec.status = "Finalizing" \/ lim <= Len(Limits))
  /\ LET fin == ch["B"].rec.status = "Finalizing"
         v == IF fin THEN Res(TRUE, FALSE, "", FALSE, ch["B"].rec.limit, FALSE) ELSE ValAt(lim + 1)
     IN Do("B", StimOf("B", "UpdateValidation", "A", NoMsg, v, ZeroArgs), gs, net, todo)
        /\ lim' = IF fin THEN lim ELSE lim + 1
  /\ UNCHANGED <<pauses, restarts, closes, vsent, bounces, done>>
AppPause(n) ==
  /\ Live /\ ch[n].has /\ pauses[n] < 2 * MaxPauses /\ todo = << >> /\ ch[n].rec.status \in PauseStates
  /\ Do(n, StimOf(n, IF pauses[n] % 2 = 0 THEN "Pause" ELSE "Resume", Other(n), NoMsg, Val0, ZeroArgs), gs, net, todo)
  /\ pauses' = [pauses EXCEPT ![n] = @ + 1]
  /\ UNCHANGED <<lim, restarts, closes, vsent, bounces, done>>

(* either application restarts the channel: the creator re-issues the request (push: Restart request on the network;  *)
(* pull: a new graphsync request that skips the blocks already received), the receiver of the channel asks the       *)
(* creator to do so (restart-existing message)                                                                        *)
AppRestart(n) ==
  /\ Live /\ ch[n].has /\ restarts < MaxRestarts /\ todo = << >> /\ ch[n].rec.status \notin Terminal
  /\ Do(n, StimOf(n, "Restart", Other(n), NoMsg, ValAt(lim), ZeroArgs), gs, net, todo)
  /\ restarts' = restarts + 1
  /\ UNCHANGED <<lim, pauses, closes, vsent, bounces, done>>

(* the request a restart superseded ends late: the adapter reports it to the manager like the end of any request *)
ErrArgs == [ZeroArgs EXCEPT !.err = "e1"]
GsOldEnd(n, how) ==
  /\ Live /\ n \in gs.old /\ how \in OldEnds /\ ch[n].has /\ todo = << >>
  /\ LET g1 == [gs EXCEPT !.old = @ \ {n}] IN
      (CASE how = "cancelled" -> Do(n, StimOf(n, "OnRequestCancelled", Other(n), NoMsg, Val0, ErrArgs), g1, net, todo)
         [] how = "error"     -> Do(n, StimOf(n, "OnChannelCompleted", Other(n), NoMsg, Val0, ErrArgs), g1, net, todo)
         [] OTHER             -> (gs' = g1 /\ UNCHANGED <<ch, net, todo, h>> /\ NoFail))
  /\ UNCHANGED <<lim, pauses, restarts, closes, vsent, bounces, done>>

(* either application closes (cancels) the channel *)
AppClose(n) ==
  /\ Live /\ ch[n].has /\ closes < MaxCloses /\ todo = << >> /\ ch[n].rec.status \notin Terminal
  /\ Do(n, StimOf(n, "Close", Other(n), NoMsg, Val0, ZeroArgs), gs, net, todo)
  /\ closes' = closes + 1
  /\ UNCHANGED <<lim, pauses, restarts, vsent, bounces, done>>

(* a node's process stops and starts again over the same datastore (quiescent: nothing of the manager is in flight): its caches are   *)
(* gone (they are re-seeded lazily from the durable record), messages on their way to it are lost, the live transport request ends -   *)
(* nothing is reported to the bounced node, the other side hears of it late (OldEnds) or not at all. Nothing restarts by itself: an      *)
(* application restart (AppRestart, on either node) heals the transfer.                                                                  *)
Bounce(n) ==
  /\ Live /\ ch[n].has /\ bounces < MaxBounces /\ todo = << >> /\ ch[n].rec.status \notin Terminal \cup Cleanup
  /\ ch' = [ch EXCEPT ![n].cache = FreshCache]
  /\ net' = SelectSeq(net, LAMBDA m : m.to # n)
  /\ gs' = IF gs.st = "open"
            THEN [NoGs EXCEPT !.opens = gs.opens,
                              !.old = (gs.old \ {n}) \cup (IF OldEnds # {} /\ (Other(n) = Rq \/ gs.arrived) THEN {Other(n)} ELSE {})]
            ELSE [gs EXCEPT !.old = @ \ {n}, !.toRq = IF n = Rq THEN << >> ELSE @, !.toRs = IF n = Rs THEN << >> ELSE @]
  /\ h' = Append(h, [node |-> n, stim |-> [StimOf(n, "reopen", Other(n), NoMsg, Val0, ZeroArgs) EXCEPT !.sendFail = << >>]])
  /\ bounces' = bounces + 1 /\ NoFail
  /\ UNCHANGED <<todo, lim, pauses, restarts, closes, vsent, done>>

(* the applications exchange further vouchers: the initiator sends a voucher (a Voucher request on the network), the responder a voucher  *)
(* result (a VoucherResult response - or a Complete carrying it once the channel is in a finalization status)                             *)
VName(k) == CASE k = 1 -> "v1" [] k = 2 -> "v3" [] OTHER -> "v4"
RName(k) == CASE k = 1 -> "r1" [] k = 2 -> "r3" [] OTHER -> "r4"
AppVoucher ==
  /\ Live /\ vsent["A"] < MaxVouchers /\ todo = << >> /\ ch["A"].rec.status \notin Terminal \cup Cleanup
  /\ Do("A", StimOf("A", "SendVoucher", "B", [NoMsg EXCEPT !.v = VName(vsent["A"] + 1)], Val0, ZeroArgs), gs, net, todo)
  /\ vsent' = [vsent EXCEPT !["A"] = @ + 1]
  /\ UNCHANGED <<lim, pauses, restarts, closes, bounces, done>>
AppVoucherResult ==
  /\ Live /\ ch["B"].has /\ vsent["B"] < MaxVouchers /\ todo = << >> /\ ch["B"].rec.status \notin Terminal \cup Cleanup
  /\ Do("B", StimOf("B", "SendVoucherResult", "A", [NoMsg EXCEPT !.v = RName(vsent["B"] + 1)], Val0, ZeroArgs), gs, net, todo)
  /\ vsent' = [vsent EXCEPT !["B"] = @ + 1]
  /\ UNCHANGED <<lim, pauses, restarts, closes, bounces, done>>

Quiescent == net = << >> /\ todo = << >> /\ gs.toRq = << >> /\ gs.toRs = << >>
Dump == /\ DumpAtEnd /\ ~done /\ (Len(h) = MaxLen \/ (Quiescent /\ ch["A"].rec.status \in Terminal /\ (~ch["B"].has \/ ch["B"].rec.status \in Terminal)))
        /\ PrintT(<<"@@case", ToJson([dir |-> Dir, nblocks |-> NBlocks, uniqueBytes |-> UniqueBytes, steps |-> h,
                                       expA |-> ch["A"].rec, expB |-> ch["B"].rec, hasB |-> ch["B"].has])>>)
        /\ done' = TRUE /\ UNCHANGED <<ch, net, gs, todo, lim, pauses, restarts, closes, vsent, bounces, h, sfails, failIn>>

Next == \/ \E i \in 1..Len(net) : NetDeliver(i)
        \/ Todo \/ GsArrive \/ GsToRq \/ GsToRs \/ GsQueue \/ BlockTodo
        \/ \E n \in {"A","B"} : GsInitiated(n) \/ GsComplete(n) \/ AppPause(n) \/ AppRestart(n) \/ AppClose(n)
        \/ \E n \in {"A","B"}, how \in OldEnds : GsOldEnd(n, how)
        \/ (\E n \in {"A","B"} : Bounce(n))
        \/ AppValidate \/ AppVoucher \/ AppVoucherResult \/ Dump
Spec == Init /\ [][Next]_vars

(* ---- C01 and friends on the two-node model ---- *)
Accepted == \E i \in 1..Len(h) : h[i].node = "A" /\ h[i].stim.kind \in {"RecvResponse","OnResponseReceived"} /\ h[i].stim.msg.kind = "New" /\ h[i].stim.msg.accepted
RecvdAll == \A i \in 1..NBlocks : \E k \in 1..Len(h) : h[k].node = Rq /\ h[k].stim.kind = "OnDataReceived" /\ h[k].stim.args.index = i
SentFinal == \E k \in 1..Len(h) : h[k].node = "B" /\ (h[k].stim.kind = "OnChannelCompleted" \/ h[k].stim.kind = "UpdateValidation")
BAppEnded == \E k \in 1..Len(h) : h[k].node = "B" /\ h[k].stim.kind \in {"Close","CloseErr"}       \* "unless its own application cancels or fails it meanwhile"
C01_Delivered == (ch["A"].rec.status = "Completed" /\ Accepted) =>
                   /\ ch["B"].has /\ (ch["B"].rec.status \in {"Completing","Completed"} \/ BAppEnded) /\ SentFinal
                   /\ RecvdAll
                   /\ ch[Rq].rec.received = UniqueBytes /\ ch[Rs].rec.queued = UniqueBytes
SawFinishA == \E k \in 1..Len(h) : h[k].node = "A" /\ h[k].stim.kind = "OnChannelCompleted"
SawFinalA == \E k \in 1..Len(h) : h[k].node = "A" /\ h[k].stim.msg.kind = "Complete" /\ ~h[k].stim.msg.paused
C03_OnlyBoth == (ch["A"].rec.status \in {"Completing","Completed"} /\ Accepted) => (SawFinishA /\ SawFinalA)
C08_NoProgressWhilePaused == (ch["B"].has /\ ch["B"].rec.rp /\ ch["B"].rec.status \in Transferring /\ (gs.rqPaused \/ gs.rsPaused)) => ~ENABLED GsQueue
C11_CrossView == (Quiescent /\ ch["B"].has /\ ch["A"].rec.status \in PauseStates /\ ch["B"].rec.status \in PauseStates) =>
                   (ch["A"].rec.ip = ch["B"].rec.ip)
(* C19 between the two ends: every voucher the responder has recorded was sent (and recorded) by the initiator, every result the  *)
(* initiator has recorded was sent (and recorded) by the responder, in the same order; the first voucher is the one of the request  *)
IsSubSeq(a, b) == \E f \in [1..Len(a) -> 1..Len(b)] : (\A i \in 1..Len(a) : a[i] = b[f[i]]) /\ (\A i, j \in 1..Len(a) : i < j => f[i] < f[j])
C19_CrossLogs == ch["B"].has =>
                   /\ IsSubSeq(ch["B"].rec.vouchers, ch["A"].rec.vouchers)
                   /\ IsSubSeq(ch["A"].rec.results, ch["B"].rec.results)
                   /\ ch["A"].rec.vouchers[1] = "v0" /\ ch["B"].rec.vouchers[1] = "v0"
Constr == Len(h) <= MaxLen
View == <<ch, net, gs, todo, lim, pauses, restarts, closes, vsent, bounces, done, sfails, failIn, Accepted, RecvdAll, SentFinal, SawFinishA, SawFinalA, BAppEnded>>
=============================================================================

------------------------------ MODULE ChanSeq ------------------------------
(* Synchronous abstraction of one channel (every operation followed by quiescence), used to generate   *)
(* operation histories with TLC -simulate; each behaviour is printed as one JSON case for harness chanx  *)
(* (PrintT line "@@case").  Mgr/Sys use the same abstraction.                                            *)
EXTENDS ChanOps, Json

CONSTANTS Role,       \* "initPush" | "initPull" | "respPush" | "respPull"
          Len0,       \* history length at which the behaviour is printed
          OpsAllowed, \* operations to draw from
          Reopen      \* BOOLEAN: allow "reopen" steps (fresh caches, state from the datastore)

VARIABLES rec, cache, h, done
vars == <<rec, cache, h, done>>

ZeroArgs == [delta |-> 0, index |-> 0, unique |-> FALSE, limit |-> 0, flag |-> FALSE, err |-> "", v |-> ""]
IsInit == Role \in {"initPush","initPull"}
Ident == CASE Role = "initPush" -> [self |-> "A", initiator |-> "A", responder |-> "B", sender |-> "A", recipient |-> "B", tid |-> 1, base |-> "base", sel |-> "s"]
           [] Role = "initPull" -> [self |-> "A", initiator |-> "A", responder |-> "B", sender |-> "B", recipient |-> "A", tid |-> 1, base |-> "base", sel |-> "s"]
           [] Role = "respPush" -> [self |-> "A", initiator |-> "B", responder |-> "A", sender |-> "B", recipient |-> "A", tid |-> 1, base |-> "base", sel |-> "s"]
           [] Role = "respPull" -> [self |-> "A", initiator |-> "B", responder |-> "A", sender |-> "A", recipient |-> "B", tid |-> 1, base |-> "base", sel |-> "s"]

RoleOK(op) == IF IsInit THEN op \notin {"Complete","BeginFinalizing","SetDataLimit","SetRequiresFinalization"}
              ELSE op \notin {"FinishTransfer","ResponderCompletes","ResponderBeginsFinalization"}
Sends == Ident.sender = "A"
DirOK(op) == op \in DataOps => IF Sends THEN op \in {"DataQueued","DataSent"} ELSE op = "DataReceived"

ArgsFor(op) ==
  CASE op \in DataOps -> {[ZeroArgs EXCEPT !.delta = d, !.index = i, !.unique = u] : d \in {1, 2, 3}, i \in 1..5, u \in BOOLEAN}
    [] op \in ErrOps -> {[ZeroArgs EXCEPT !.err = e] : e \in {"e1","e2"}}
    [] op = "NewVoucher" -> {[ZeroArgs EXCEPT !.v = x] : x \in {"v1","v3","v4","v6"}}
    [] op = "NewVoucherResult" -> {[ZeroArgs EXCEPT !.v = x] : x \in {"r1","r3","r5","r6"}}
    [] op = "SetDataLimit" -> {[ZeroArgs EXCEPT !.limit = l] : l \in {0, 3, 6}}
    [] op = "SetRequiresFinalization" -> {[ZeroArgs EXCEPT !.flag = b] : b \in BOOLEAN}
    [] OTHER -> {ZeroArgs}

Init == rec = ZeroRec("Requested") /\ cache = FreshCache /\ h = << >> /\ done = FALSE

Step(op, a) ==
  /\ ~done /\ Len(h) < Len0 /\ op \in OpsAllowed /\ RoleOK(op) /\ DirOK(op)
  /\ LET res == OpResult(op, a, rec, cache)
         t   == RunSync(rec, res.evs)
     IN /\ rec' = LastRec(rec, t)
        /\ cache' = res.cache
  /\ h' = Append(h, [c |-> "c1", op |-> op, args |-> a])
  /\ UNCHANGED done

DoReopen == /\ Reopen /\ ~done /\ Len(h) < Len0 /\ Len(h) > 0 /\ h[Len(h)].op # "reopen"
            /\ cache' = FreshCache /\ h' = Append(h, [c |-> "c1", op |-> "reopen", args |-> ZeroArgs])
            /\ UNCHANGED <<rec, done>>

Dump == /\ ~done /\ Len(h) = Len0
        /\ PrintT(<<"@@case", ToJson([chans |-> << [name |-> "c1", ident |-> Ident, rec |-> ZeroRec("Requested")] >>, steps |-> h])>>)
        /\ done' = TRUE /\ UNCHANGED <<rec, cache, h>>

Next == (\E op \in OpsAllowed : \E a \in ArgsFor(op) : Step(op, a)) \/ DoReopen \/ Dump
Spec == Init /\ [][Next]_vars
=============================================================================

----------------------------- MODULE FSMProofs -----------------------------
(* Machine-checked (TLAPS) facts about the transition relation of FSM.tla, for ALL records, events and arguments -   *)
(* no bounds: they follow from the definitions alone.                                                                 *)
EXTENDS FSM, TLAPS

(* C02: the planner applies nothing to a channel whose status is final *)
THEOREM TerminalAbsorbing == \A r, e, a : r.status \in Terminal => (Apply(r, e, a).rec = r /\ Apply(r, e, a).kind = "term")
  BY DEF Apply

(* C09: from a cleanup status every row either stays (record-only / re-run), is invalid, or leads to a cleanup or terminal status - *)
(* never back to an ordinary status; and CleanupComplete leads to the terminal status of that ending                                   *)
THEOREM StaysInCleanup == \A e \in Event, s \in Cleanup : Dest(e, s) \in Cleanup \cup Terminal \cup {"NC", "REC", "INV"}
  BY DEF Dest, Event, Cleanup, Terminal, TerminalOf, ProgressEvents, ErrNotice, PauseStates, Transferring
THEOREM CleanupCompletes == \A s \in Cleanup : Dest("CleanupComplete", s) = TerminalOf(s) /\ TerminalOf(s) \in Terminal
  BY DEF Dest, Cleanup, Terminal, TerminalOf, ProgressEvents, ErrNotice

(* C03: bookkeeping events never name a destination status, except ResumeResponder out of Finalizing *)
THEOREM BookkeepingKeepsStatus ==
  \A e \in BookkeepingEvents, s \in Status : (e # "ResumeResponder" \/ s # "Finalizing") => Dest(e, s) \in {"NC", "REC", "INV"}
  BY DEF Dest, BookkeepingEvents, IndexEvents, ProgressEvents, PauseEvents, ErrNotice, Status, Transferring, PauseStates, Cleanup

(* ---- the action function, for every record of the right shape ---- *)
RecT == [status : Status, ip : BOOLEAN, rp : BOOLEAN, queued : Nat, sent : Nat, received : Nat, qIdx : Nat, sIdx : Nat, rIdx : Nat,
         limit : Nat, reqFin : BOOLEAN, msg : STRING, vouchers : Seq(STRING), results : Seq(STRING)]

(* C11: a pause event changes only its own party's flag; no other event touches a pause flag *)
THEOREM OwnFlagOnly ==
  \A r \in RecT, a \in Nat, e \in Event :
     /\ e \in {"PauseInitiator", "ResumeInitiator"} => Act(e, r, a).rp = r.rp
     /\ e \in {"PauseResponder", "ResumeResponder", "DataLimitExceeded"} => Act(e, r, a).ip = r.ip
     /\ e \notin PauseEvents => (Act(e, r, a).ip = r.ip /\ Act(e, r, a).rp = r.rp)
  BY DEF Act, RecT, Event, PauseEvents, ErrNotice

(* C07: totals and indexes never decrease, whatever the event and its (natural) argument *)
THEOREM Monotone ==
  \A r \in RecT, a \in Nat, e \in Event :
     LET n == Act(e, r, a) IN
     /\ n.queued >= r.queued /\ n.sent >= r.sent /\ n.received >= r.received
     /\ n.qIdx >= r.qIdx /\ n.sIdx >= r.sIdx /\ n.rIdx >= r.rIdx
  BY DEF Act, RecT, Event, MaxN, ErrNotice

(* C03: lifecycle events change neither counters, pause flags, limit, finalization flag nor the voucher logs *)
THEOREM LifecycleKeepsBooks ==
  \A r \in RecT, a \in Nat, e \in LifecycleEvents \cup {"Error"} :
     LET n == Act(e, r, a) IN
     /\ n.queued = r.queued /\ n.sent = r.sent /\ n.received = r.received /\ n.qIdx = r.qIdx /\ n.sIdx = r.sIdx /\ n.rIdx = r.rIdx
     /\ n.ip = r.ip /\ n.rp = r.rp /\ n.limit = r.limit /\ n.reqFin = r.reqFin /\ n.vouchers = r.vouchers /\ n.results = r.results
  BY DEF Act, RecT, LifecycleEvents, ErrNotice

(* C19: the voucher logs only grow, and only at the end *)
THEOREM AppendOnly ==
  \A r \in RecT, a \in STRING, e \in Event :
     LET n == Act(e, r, a) IN
     /\ (n.vouchers = r.vouchers \/ n.vouchers = Append(r.vouchers, a))
     /\ (n.results = r.results \/ n.results = Append(r.results, a))
  BY DEF Act, RecT, Event, ErrNotice
=============================================================================

------------------------------ MODULE ChanGate ------------------------------
(* Schedules of Chan.tla in which operations RACE WITH THE ASYNCHRONOUS CLEANUP HANDLER, generated for gated replay on *)
(* the real channel engine (harness chanx/TestGated).                                                                   *)
(*                                                                                                                      *)
(* The real engine lets a test hold the handler goroutine at three points (tag-guarded gate in channels.cleanupConnection *)
(* and the blocking ChannelEnvironment double): g1 before env.CleanupChannel, g2 before env.Unprotect, g3 before the      *)
(* handler queues CleanupComplete.  Those are exactly the model's hpc values "cleanup", "unprotect", "trigger"; releasing *)
(* a gate is the model step HCleanup / HUnprotect / HTrigger.  An operation issued while the handler is parked is queued   *)
(* behind the running stage (go-statemachine keeps reading its inbox while busy) - the model's DoOp with busy[c].          *)
(* What the harness cannot control is the run loop itself (Plan / Persist / Notify run as soon as they can), so the         *)
(* generated schedules give those steps priority: an operation or a release happens only when the loop has nothing to do.  *)
(* That loses no queue order: every order of {operations, CleanupComplete} in the queue is produced by choosing at which    *)
(* gate an operation is issued.                                                                                             *)
(*                                                                                                                      *)
(* A schedule is the sequence sched of [k = "op", op, args, at] | [k = "rel", gate], with the model's durable record       *)
(* after each step (exp) - compared with the real datastore record after the same step - and the expected outcome.         *)
EXTENDS Chan, Json

CONSTANTS GRole,     \* "initPush" | "initPull" | "respPush" | "respPull" (identity used by the harness)
          GLen,      \* schedule length at which the behaviour is printed
          PreStatus  \* the status the channel is first brought to by the operations PathTo(PreStatus), each run to quiescence

VARIABLES sched, exp, gdone
gvars == <<vars, sched, exp, gdone>>

c1 == "c1"
(* a shortest operation path from Requested to each non-cleanup, non-terminal status of the role *)
PathTo(s) ==
  CASE s = "Requested" -> << >>
    [] s = "Queued" -> <<"Accept">>
    [] s = "AwaitingAcceptance" -> <<"TransferInitiated">>
    [] s = "Ongoing" -> <<"Accept","TransferInitiated">>
    [] s = "TransferFinished" -> <<"Accept","TransferInitiated","FinishTransfer">>
    [] s = "ResponderCompleted" -> <<"Accept","TransferInitiated","ResponderCompletes">>
    [] s = "ResponderFinalizing" -> <<"Accept","TransferInitiated","ResponderBeginsFinalization">>
    [] s = "ResponderFinalizingTransferFinished" -> <<"Accept","TransferInitiated","ResponderBeginsFinalization","FinishTransfer">>
    [] s = "Finalizing" -> <<"Accept","TransferInitiated","BeginFinalizing">>
Pre == PathTo(PreStatus)
LoopIdle == ~pset[c1] /\ (busy[c1] \/ closed[c1] \/ q[c1] = << >>) /\ notifQ = << >>
Phase == CASE hpc[c1] = "cleanup" -> "g1" [] hpc[c1] = "unprotect" -> "g2" [] hpc[c1] = "trigger" -> "g3" [] OTHER -> "quiet"
Parked == hpc[c1] \in {"cleanup","unprotect","trigger"}
Settled == LoopIdle /\ ~Parked /\ ~busy[c1] /\ q[c1] = << >>

GIdent == CASE GRole = "initPush" -> [self |-> "A", initiator |-> "A", responder |-> "B", sender |-> "A", recipient |-> "B", tid |-> 1, base |-> "base", sel |-> "s"]
            [] GRole = "initPull" -> [self |-> "A", initiator |-> "A", responder |-> "B", sender |-> "B", recipient |-> "A", tid |-> 1, base |-> "base", sel |-> "s"]
            [] GRole = "respPush" -> [self |-> "A", initiator |-> "B", responder |-> "A", sender |-> "B", recipient |-> "A", tid |-> 1, base |-> "base", sel |-> "s"]
            [] GRole = "respPull" -> [self |-> "A", initiator |-> "B", responder |-> "A", sender |-> "A", recipient |-> "B", tid |-> 1, base |-> "base", sel |-> "s"]
GSends == GIdent.sender = "A"
GDirOK(op) == op \in DataOps => IF GSends THEN op \in {"DataQueued","DataSent"} ELSE op = "DataReceived"

GInit == Init /\ sched = << >> /\ exp = << >> /\ gdone = FALSE

(* the Pre operations, one at a time, each followed by quiescence (no gate is held during the prefix) *)
InPrefix == Len(sched) < Len(Pre)
GPre ==
  /\ ~gdone /\ InPrefix /\ Settled
  /\ LET op == Pre[Len(sched) + 1] IN
       /\ DoOp(c1, op, IF op \in ErrOps THEN [ZeroArgs EXCEPT !.err = "e1"] ELSE ZeroArgs)
       /\ sched' = Append(sched, [k |-> "op", op |-> op, args |-> IF op \in ErrOps THEN [ZeroArgs EXCEPT !.err = "e1"] ELSE ZeroArgs, at |-> "quiet", gate |-> ""])
  /\ exp' = Append(exp, store[c1]) /\ UNCHANGED gdone

GOp(op, a) ==
  /\ ~gdone /\ ~InPrefix /\ Len(sched) < GLen /\ LoopIdle /\ (Parked \/ Settled) /\ GDirOK(op)
  /\ DoOp(c1, op, a)
  /\ sched' = Append(sched, [k |-> "op", op |-> op, args |-> a, at |-> Phase, gate |-> ""])
  /\ exp' = Append(exp, store[c1]) /\ UNCHANGED gdone

GRel ==
  /\ ~gdone /\ LoopIdle /\ Parked
  /\ (HCleanup(c1) \/ HUnprotect(c1) \/ HTrigger(c1))
  /\ sched' = Append(sched, [k |-> "rel", op |-> "", args |-> ZeroArgs, at |-> Phase, gate |-> Phase])
  /\ exp' = Append(exp, store[c1]) /\ UNCHANGED gdone

(* the run loop and the notifier run whenever they can *)
GLoop ==
  /\ ~gdone /\ ~LoopIdle
  /\ (Plan(c1) \/ Persist(c1) \/ Notify)
  /\ UNCHANGED <<sched, exp, gdone>>

(* printed when the schedule is long enough (or the machine has shut down) and everything has settled; exp[i] is the    *)
(* durable record BEFORE step i, so the record after step i is exp[i+1] and the last one is final                       *)
GDump ==
  /\ ~gdone /\ Settled /\ ~InPrefix /\ (Len(sched) >= GLen \/ closed[c1])
  /\ PrintT(<<"@@case", ToJson([role |-> GRole, ident |-> GIdent, steps |-> sched, before |-> exp, final |-> store[c1],
                                 endings |-> hist[c1].endings, cleanups |-> env[c1].cleanups, unprotects |-> env[c1].unprotects,
                                 applied |-> hist[c1].applied, closed |-> closed[c1]])>>)
  /\ gdone' = TRUE /\ UNCHANGED <<vars, sched, exp>>

GNext == \/ GPre
         \/ \E op \in EnvOps : \E a \in ArgsFor(op) : GOp(op, a)
         \/ GRel \/ GLoop \/ GDump
GSpec == GInit /\ [][GNext]_gvars

(* model-level sanity of the generator itself (checked exhaustively for small GLen in the thorough tier) *)
G_C09_ExactlyOnce == C09_ExactlyOnce
G_C09_Settles == (Settled /\ hist[c1].endings > 0) => store[c1].status \in Terminal
GConstr == Len(sched) <= GLen + 3 * (GLen + 1)
=============================================================================

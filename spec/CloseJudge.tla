----------------------------- MODULE CloseJudge -----------------------------
(* C09 "closing never hangs" on observations of gstx/TestClose: the REAL Transport.CloseChannel under virtual   *)
(* time in every transport request state x gs.Cancel outcome.  And C10's adapter part on gstx/TestReopen.        *)
EXTENDS Naturals, Sequences, FiniteSets, TLC, Json, SequencesExt
CONSTANTS ObsFile, OutFile
Cases == ndJsonDeserialize(ObsFile)
IsClose(c) == "state" \in DOMAIN c
Rules(c) ==
  IF IsClose(c)
  THEN (IF c.returned /\ c.at_ms <= c.latency_ms + 1000 THEN {} ELSE {"C09.closeReturns"})
       \cup (IF (c.state \in {"trackedNoReq","cancelledByUs","requesterCancelled","untracked"}) => c.cancels = << >> THEN {} ELSE {"C09.closeNoSpuriousCancel"})
       \cup (IF (c.state = "open") => Len(c.cancels) = 1 THEN {} ELSE {"C09.closeCancelsCurrent"})
  ELSE {}
Verdicts == UNION {{[case |-> Cases[n].case, i |-> 0, rule |-> r, status |-> IF IsClose(Cases[n]) THEN Cases[n].state ELSE "", op |-> IF IsClose(Cases[n]) THEN Cases[n].cancel ELSE ""] : r \in Rules(Cases[n])} : n \in 1..Len(Cases)}
ASSUME ndJsonSerialize(OutFile, SetToSeq(Verdicts))
ASSUME PrintT(<<"@@judged", Len(Cases)>>)
=============================================================================

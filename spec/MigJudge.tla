----------------------------- MODULE MigJudge -----------------------------
(* Judge of the observations recorded by harness/migx from the real code (C13).                        *)
(* Input: ndjson, one store per line: [case, size, restarts, version, life, chan: PathObs, mgr: PathObs] *)
(* where a PathObs (one for the real channels.New+Start, one for the real manager) carries              *)
(*   pre    : the operations attempted before / during / after a failed migration (return class, writes)  *)
(*   starts : every Start (open attempts, reopens) with the outcome and the OnReady listener call logs     *)
(*   chans  : for every seeded v2 record r2 the accessor view, the raw /3/ record, the stage logs         *)
(*   live   : operations sent to migrated channels (kit.StepObs) next to the same operation on a native   *)
(*            twin channel holding the same record; "reopen" markers                                      *)
(*   persist, idem : view differences across stop+reopen; byte differences caused by a further Start      *)
(* For each TLC evaluates conf (observed == Migrate(r2), refusal classes, ChanOps!Traj; reported as drift) *)
(* and the rules C13.fieldsPreserved .statusMap .flags .stages .live .idempotent .refusedUntilReady        *)
(* .readyOnce on the OBSERVED values, and writes the failed rows to OutFile.                               *)
EXTENDS Mig

CONSTANTS ObsFile, OutFile
Cases == ndJsonDeserialize(ObsFile)

(* Mig declares variables; the judge only evaluates ASSUMEs, the behaviour part is a single idle state *)
JInit == Init
JNext == UNCHANGED vars

EvNamesOf(ann) == [i \in 1..Len(ann) |-> ann[i].ev]
SeqAll(s, P(_)) == \A i \in 1..Len(s) : P(s[i])

IdentOf(v) == [self |-> v.self, initiator |-> v.initiator, responder |-> v.responder, sender |-> v.sender,
               recipient |-> v.recipient, tid |-> v.tid, base |-> v.base, sel |-> v.sel]

(* fields that must be carried over unchanged, read from an accessor view / a raw record *)
Carried(x) == <<x.queued, x.sent, x.received, x.qIdx, x.sIdx, x.rIdx, x.limit, x.reqFin, x.msg, x.vouchers, x.results>>

ChanRules(ch) ==
  LET r2 == ch.r2   exp == Migrate(r2)   v == ch.view   raw == ch.raw   log == StageLog(r2.stages)
      there == ch.found /\ ch.hasRaw
  IN
  (IF there /\ ch.listed THEN {} ELSE {"C13.fieldsPreserved"})
  \cup (IF there => /\ IdentOf(v) = ch.ident /\ ch.rawIdent = ch.ident
                    /\ v.chidI = ch.ident.initiator /\ v.chidR = ch.ident.responder /\ v.chidT = ch.ident.tid
                    /\ Carried(v) = Carried(exp) /\ Carried(raw) = Carried(exp)
                    /\ ch.viewTotal = exp.totalSize /\ ch.rawExtra.totalSize = exp.totalSize
                    /\ v.panics = << >>
        THEN {} ELSE {"C13.fieldsPreserved"})
  \cup (IF there => (v.status = exp.status /\ raw.status = exp.status) THEN {} ELSE {"C13.statusMap"})
  \cup (IF there => /\ raw.ip = exp.ip /\ raw.rp = exp.rp
                    /\ v.ip = exp.ip /\ v.rpView = (exp.rp \/ exp.status = "Finalizing") /\ v.both = (v.ip /\ v.rpView)
        THEN {} ELSE {"C13.flags"})
  \cup (IF there => /\ ch.viewStages = log /\ ch.rawExtra.stages = log
                    /\ ch.rawExtra.stagesNil = (r2.stages = "none") /\ ch.stagePanic = ""
        THEN {} ELSE {"C13.stages"})
  \cup (IF there => (raw = Core(exp) /\ Cardinality({ch.rawExtra.fields[i] : i \in 1..Len(ch.rawExtra.fields)}) = 24) THEN {} ELSE {"conf"})

(* first record the engine must write for the event sequence q on record r (none when nothing applies) *)
RECURSIVE FirstPut(_, _)
FirstPut(r, q) ==
  IF q = << >> THEN << >>
  ELSE LET o == Apply(r, Head(q)[1], Head(q)[2]) IN
    IF o.kind = "term" THEN << >> ELSE IF o.kind = "invalid" THEN FirstPut(r, Tail(q)) ELSE << o.rec >>

(* go-statestore does not write a record whose bytes did not change; with an absent stage log (no   *)
(* AddLog) an event that changes no field therefore leaves no Put.  Writes are compared modulo such  *)
(* no-change records.  (Notifications are C17's business and not compared here.)                     *)
RECURSIVE Norm(_, _)
Norm(prev, puts) == IF puts = << >> THEN << >>
                    ELSE IF Head(puts) = prev THEN Norm(prev, Tail(puts)) ELSE <<Head(puts)>> \o Norm(Head(puts), Tail(puts))

LiveStepRules(st, cache) ==
  LET res == OpResult(st.op, st.args, st.pre, cache)
      fp  == FirstPut(st.pre, res.evs)
      tw  == st.twin
      np  == Norm(st.pre, st.puts)
      cl  == Cardinality({i \in 1..Len(st.env) : st.env[i].call = "cleanup"})
      up  == Cardinality({i \in 1..Len(st.env) : st.env[i].call = "unprotect"})
      term == st.pre.status \in Terminal
  IN
  (* accepted per FSM!Apply, and exactly like a natively created channel holding the same record (the error   *)
  (* returned for an already terminal channel depends on whether its machine was loaded before: not compared) *)
  (IF /\ (IF fp = << >> THEN np = << >> ELSE IF fp[1] = st.pre THEN TRUE ELSE (np # << >> /\ np[1] = fp[1]))
      /\ (term \/ st.ret = tw.ret) /\ np = Norm(st.pre, tw.puts) /\ st.post = tw.post /\ Len(st.env) = tw.nenv
      /\ st.postView.panics = << >> /\ st.identOK
   THEN {} ELSE {"C13.live"})
  \cup (IF \E t \in Traj(st.pre, res.evs) : Norm(st.pre, t.puts) = np /\ t.cleanups = cl /\ up = cl
             /\ (term \/ st.ret = res.ret) /\ st.post = LastRec(st.pre, t)
        THEN {} ELSE {"conf"})

RECURSIVE LiveRules(_, _, _)
LiveRules(steps, i, cm) ==
  IF i > Len(steps) THEN {}
  ELSE LET st == steps[i] IN
    IF st.op = "reopen" THEN LiveRules(steps, i + 1, << >>)
    ELSE
      LET known == {j \in 1..Len(cm) : cm[j][1] = st.c}
          cache == IF known = {} THEN FreshCache ELSE cm[CHOOSE j \in known : TRUE][2]
          res   == OpResult(st.op, st.args, st.pre, cache)
          cm2   == SelectSeq(cm, LAMBDA x : x[1] # st.c) \o << <<st.c, res.cache>> >>
          bad   == IF st.err # "" THEN {"harness"} ELSE LiveStepRules(st, cache)
      IN {[rule |-> r, status |-> st.pre.status, op |-> st.op, phase |-> "ready"] : r \in bad} \cup LiveRules(steps, i + 1, cm2)

Row(r, s, o, ph) == [rule |-> r, status |-> s, op |-> o, phase |-> ph]

PathRules(c, p) ==
  IF p.err # "" THEN {Row("harness", "", "", "")}
  ELSE
    (* ---- every stored channel presented, fields / status / flags / stages ---- *)
    UNION {{Row(r, p.chans[i].r2.status, "", "ready") : r \in ChanRules(p.chans[i])} : i \in 1..Len(p.chans)}
    \cup (IF p.nListed = c.size /\ Len(p.chans) = c.size THEN {} ELSE {Row("C13.fieldsPreserved", "", "InProgress", "ready")})
    \cup (IF p.left2 = 0 /\ p.ver = "3" THEN {} ELSE {Row("conf", "", "store", "ready")})
    (* ---- live ---- *)
    \cup LiveRules(p.live, 1, << >>)
    \cup {Row("C13.live", "", "reopen", "ready") : i \in {j \in 1..Len(p.persist) : p.persist[j].diff # << >>}}
    (* ---- idempotent ---- *)
    \cup {Row("C13.idempotent", "", p.idem[i].kind, "ready") :
            i \in {j \in 1..Len(p.idem) : ~(p.idem[j].ret = "nil" /\ p.idem[j].changed = << >> /\ p.idem[j].writes3 = 0)}}
    (* ---- refused until ready ---- *)
    \cup {Row("C13.refusedUntilReady", "", p.pre[i].op, p.pre[i].phase) :
            i \in {j \in 1..Len(p.pre) : ~(p.pre[j].ret # "nil" /\ ~p.pre[j].presented
                                          \* writes to the store during the refused call are the call's own - except after a start whose context ended
                                          \* mid-migration: the migration it left behind may still be writing while the call is refused
                                          /\ (p.pre[j].writes = 0 \/ (p.pre[j].phase = "failed" /\ \E k \in 1..Len(p.starts) : p.starts[k].fault = "ctxCancel")))}}
    \cup {Row("conf", "", p.pre[i].op, p.pre[i].phase) :
            i \in {j \in 1..Len(p.pre) : p.pre[j].ret # RefusalClass(p.pre[j].op, p.pre[j].phase)}}
    (* ---- ready announced once, with the outcome, to the listeners registered before Start ---- *)
    \cup {Row("C13.readyOnce", "", p.starts[i].kind, p.starts[i].fault) :
            i \in {j \in 1..Len(p.starts) :
                     LET s == p.starts[j]
                         \* an interrupted start (context ended mid-migration) announces whatever REALLY happened: the store is usable afterwards or it is not
                         want == IF s.fault = "none" THEN "nil" ELSE IF s.fault = "ctxCancel" THEN s.probe ELSE "err" IN
                     ~(/\ s.ret = want
                       /\ SeqAll(s.listeners, LAMBDA l : l.before => (l.calls = 1 /\ l.errs = <<want>>)))}}
    \cup {Row("conf", "", "late-or-hold", p.starts[i].kind) :
            i \in {j \in 1..Len(p.starts) :
                     LET s == p.starts[j] IN
                     ~(/\ SeqAll(s.listeners, LAMBDA l : ~l.before => l.calls = 0)
                       /\ ((s.attempt = 1 /\ s.kind = "open") => s.held = c.life.hold))}}
    \cup (IF Len(p.starts) >= 1 /\ p.starts[1].fault = c.life.fault THEN {} ELSE {Row("harness", "", "starts", "")})

CaseVerdicts(c) ==
  {[case |-> c.case, api |-> "chan"] @@ r : r \in PathRules(c, c.chan)} \cup {[case |-> c.case, api |-> "mgr"] @@ r : r \in PathRules(c, c.mgr)}

Verdicts == UNION {CaseVerdicts(Cases[n]) : n \in 1..Len(Cases)}

ASSUME ndJsonSerialize(OutFile, SetToSeq(Verdicts))
ASSUME PrintT(<<"@@judged", Len(Cases)>>)
=============================================================================

----------------------------- MODULE TraceJudge -----------------------------
(* Trace validation of the REPOSITORY'S OWN TEST SUITE: the suite is run with -tags verif, the hook in           *)
(* channels.dispatch records every announced event with the resulting state (accessor view); per channel the     *)
(* consecutive announcements are consecutive applied events, so each pair (p, e, n) is one transition of the      *)
(* channel state machine and is judged against FSM.tla (conformance) and the transition-level formulas of         *)
(* C02 C03 C07 C11 C17 C19.                                                                                        *)
EXTENDS FSM, Json, SequencesExt
CONSTANTS ObsFile, OutFile
Cases == ndJsonDeserialize(ObsFile)      \* one case per (process, channel): [case, lines]
Cnt(l) == <<l.queued, l.sent, l.received, l.qIdx, l.sIdx, l.rIdx>>
PairRules(p, n) ==
  LET e == n.ev  d == Dest(e, p.status)
      amInit == n.self = n.initiator
      exp == IF d \in {"NC","REC"} THEN p.status ELSE d
      fin == p.status = "Finalizing" \/ n.status = "Finalizing"
  IN (IF p.status \in Terminal THEN {"C02.final"} ELSE {})
     \cup (IF d = "INV" /\ p.status \notin Terminal THEN {"C17.noInvalid"} ELSE {})
     \cup (IF d # "INV" /\ p.status \notin Terminal /\ n.status # exp THEN {"conf"} ELSE {})
     \cup (IF (e \in BookkeepingEvents /\ ~(e = "ResumeResponder" /\ p.status = "Finalizing")) => n.status = p.status THEN {} ELSE {"C03.bookkeeping"})
     \cup (IF (e \in LifecycleEvents \cup {"Error"}) => (Cnt(n) = Cnt(p) /\ n.ip = p.ip /\ (fin \/ n.rpView = p.rpView) /\ n.nv = p.nv /\ n.nr = p.nr /\ n.limit = p.limit /\ n.reqFin = p.reqFin)
           THEN {} ELSE {"C03.lifecycle"})
     \cup (IF (amInit /\ n.status = "Completing" /\ p.status # "Completing" /\ p.status \notin Deprecated)
              => \/ (e = "FinishTransfer" /\ p.status \in {"ResponderCompleted","AwaitingAcceptance"})
                 \/ (e = "ResponderCompletes" /\ p.status \in {"TransferFinished","ResponderFinalizingTransferFinished"})
                 \/ e \in {"Complete","ResumeResponder"}        \* responder-only events (role-inconsistent on an initiator; unit tests do that)
           THEN {} ELSE {"C03.onlyBoth"})
     \cup (IF n.status = "Finalizing" => n.rpView THEN {} ELSE {"C03.finalizingPaused"})
     \cup (IF /\ (e \in {"PauseInitiator","ResumeInitiator"} => (fin \/ n.rpView = p.rpView))
              /\ (e \in {"PauseResponder","ResumeResponder","DataLimitExceeded"} => n.ip = p.ip)
              /\ (e \notin PauseEvents => (n.ip = p.ip /\ (fin \/ n.rpView = p.rpView)))
           THEN {} ELSE {"C11.ownFlagOnly"})
     \cup (IF /\ (e = "PauseInitiator" => n.ip) /\ (e = "ResumeInitiator" => ~n.ip)
              /\ (e \in {"PauseResponder","DataLimitExceeded"} => n.rpView) /\ ((e = "ResumeResponder" /\ n.status # "Finalizing") => ~n.rpView)
           THEN {} ELSE {"C11.follows"})
     \cup (IF \A i \in 1..6 : Cnt(n)[i] >= Cnt(p)[i] THEN {} ELSE {"C07.monotone"})
     \cup (IF e \notin IndexEvents \cup ProgressEvents => Cnt(n) = Cnt(p) THEN {} ELSE {"C07.onlyReports"})
     \cup (IF /\ n.nv = p.nv + (IF e = "NewVoucher" THEN 1 ELSE 0) /\ n.nr = p.nr + (IF e = "NewVoucherResult" THEN 1 ELSE 0) THEN {} ELSE {"C19.appendOnly"})
CaseRules(c) == UNION {{[case |-> c.case, i |-> i, rule |-> r, status |-> c.lines[i-1].status, op |-> c.lines[i].ev] : r \in PairRules(c.lines[i-1], c.lines[i])} : i \in 2..Len(c.lines)}
Verdicts == UNION {CaseRules(Cases[n]) : n \in 1..Len(Cases)}
NPairs == LET RECURSIVE S(_) S(n) == IF n = 0 THEN 0 ELSE (Len(Cases[n].lines) - 1) + S(n-1) IN S(Len(Cases))
ASSUME ndJsonSerialize(OutFile, SetToSeq(Verdicts))
ASSUME PrintT(<<"@@judged", Len(Cases)>>)
ASSUME PrintT(<<"@@pairs", NPairs>>)
=============================================================================

------------------------------ MODULE GsTPair ------------------------------
(* Atomicity assumption of GsT.tla, checked on the real adapter.                                            *)
(* GsTOps!Step treats every Transport method and every graphsync callback as ONE atomic step.  The code     *)
(* gets that atomicity from dtChannel.lk: the incoming-request hook holds it from before it calls the        *)
(* events handler until it has registered the request, and every Transport method on that channel takes it.  *)
(* This module (a) tabulates overlap scenarios  pre ; (H || X) ; post  where H is an incoming-request hook    *)
(* whose events handler is held at a gate and X is a Transport method on the channel H belongs to, issued     *)
(* while H is inside the handler, and (b) judges what the REAL adapter did: the observed outputs of H, X and   *)
(* the probing callbacks `post` must satisfy the C16 formulas of GsTOps under one of the two sequential        *)
(* orders  pre;H;X;post  /  pre;X;H;post  (linearizability against the step function).  For X = Cleanup the   *)
(* request was announced (OnRequestReceived recorded) before CleanupChannel was invoked, so it belongs to the  *)
(* channel's pre-cleanup life: only pre;H;X;post is admissible - "callbacks for a channel after its cleanup     *)
(* produce no channel event".                                                                                  *)
(* Mode = "gen": writes the scenarios to OutFile.   Mode = "judge": reads ObsFile, writes verdict rows.        *)
EXTENDS GsTOps, Json, SequencesExt

CONSTANTS Mode, ObsFile, OutFile

(* ---- scenarios ------------------------------------------------------------------------------------------ *)
InReqA(ext, r, hret, hmsg) == [A0 EXCEPT !.op = "InReq", !.p = "P", !.r = r, !.ext = ext, !.tid = 1, !.hret = hret, !.hmsg = hmsg]
ChanOf(ext) == Implied("P", ext, 1)
On(op, c) == [A0 EXCEPT !.op = op, !.c = c]
Probe(op, r) == [A0 EXCEPT !.op = op, !.p = "P", !.r = r]

Pres(ext) ==
  LET c == ChanOf(ext) IN
  { << >>,
    << On("UseStore", c) >>,
    << InReqA(ext, "r1", "nil", "none") >>,
    << On("UseStore", c), InReqA(ext, "r1", "nil", "none") >>,
    << InReqA(ext, "r1", "nil", "none"), Probe("ReqCancelled", "r1") >>,
    << InReqA(ext, "r1", "nil", "none"), Probe("ReqCancelled", "r1"), [On("Resume", c) EXCEPT !.m = 1001] >> }
NReq(pre) == Cardinality({i \in 1..Len(pre) : pre[i].op = "InReq"})
Xs(c) == { On("Cleanup", c), [On("Close", c) EXCEPT !.cret = "ok"], On("Pause", c), On("Resume", c), [On("Resume", c) EXCEPT !.m = 1002], On("UseStore", c) }
Posts(r, r0) ==
  << [Probe("Processing", r) EXCEPT !.slot = "in"], [Probe("OutBlock", r) EXCEPT !.wire = 5], [Probe("BlockSent", r) EXCEPT !.wire = 5],
     Probe("SendErr", r), [Probe("Completed", r) EXCEPT !.st = "full"] >>
  \o (IF r0 = "" THEN << >> ELSE << [Probe("BlockSent", r0) EXCEPT !.wire = 5] >>)

Scenarios ==
  { [ext |-> ext, pre |-> pre, h |-> InReqA(ext, Pool[NReq(pre) + 1], hm[1], hm[2]), reenter |-> re, x |-> x,
     post |-> Posts(Pool[NReq(pre) + 1], IF NReq(pre) > 0 THEN "r1" ELSE "")] :
      ext \in {"req", "resp"}, pre \in Pres("req") \cup Pres("resp"), hm \in {<<"nil", "none">>, <<"pause", "none">>, <<"nil", "resp">>},
      re \in {"none", "UseStore", "UseStoreEarly"}, x \in Xs(ChanOf("req")) \cup Xs(ChanOf("resp")) }
Valid(sc) == /\ sc.pre \in Pres(sc.ext) /\ sc.x \in Xs(ChanOf(sc.ext))
             /\ (sc.h.hmsg = "resp" => sc.ext = "req")
ScenSeq == SetToSeq({sc \in Scenarios : Valid(sc)})
CaseOf(n) == LET sc == ScenSeq[n] IN
  [case |-> "pair" \o ToString(n), c |-> ChanOf(sc.ext), pre |-> sc.pre, h |-> sc.h, reenter |-> sc.reenter, x |-> sc.x, post |-> sc.post]

(* ---- the two sequential orders ----------------------------------------------------------------------------- *)
(* the hook with a handler that re-enters the transport (UseStore on the hook's own channel, as the manager's   *)
(* transport configurers do): the handler runs before the hook reads the channel's options                      *)
HookStep(s, h, re) ==
  IF re \in {"UseStore", "UseStoreEarly"}
  THEN LET u == Step(s, On("UseStore", Implied(h.p, h.ext, h.tid)))  e == Step(u.s, h) IN
       [e EXCEPT !.gsc = u.gsc \o e.gsc]
  ELSE Step(s, h)
WantAfter(want, a, re) ==
  LET w1 == IF a.op = "InReq" /\ re \in {"UseStore", "UseStoreEarly"} THEN want \cup {Implied(a.p, a.ext, a.tid)} ELSE want IN
  CASE a.op = "UseStore" -> w1 \cup {a.c} [] a.op = "Cleanup" -> w1 \ {a.c} [] OTHER -> w1

RECURSIVE Fold(_, _, _, _)
Fold(s, want, steps, i) == IF i > Len(steps) THEN [s |-> s, want |-> want]
                           ELSE Fold(Step(s, steps[i]).s, WantAfter(want, steps[i], "none"), steps, i + 1)

PO(o) == [call |-> o.call, c |-> o.c, x |-> o.x, n |-> o.n, src |-> o.src]
PG(g) == [call |-> g.call, r |-> g.r, c |-> g.c, x |-> g.x, n |-> g.n]
PH(h) == [a |-> h.a, c |-> h.c, x |-> h.x, n |-> h.n]
Outs(o) == [i \in 1..Len(o.out) |-> PO(o.out[i])]
Gscs(o) == [i \in 1..Len(o.gsc) |-> PG(o.gsc[i])]
Hooks(o) == [i \in 1..Len(o.hook) |-> PH(o.hook[i])]
RangeOf(q) == {q[i] : i \in 1..Len(q)}
NoMode(q) == [i \in 1..Len(q) |-> IF q[i].call = "Cancel" THEN [q[i] EXCEPT !.x = ""] ELSE q[i]]

(* rules of one observed step o against pre-state s; opts are only known after both concurrent calls returned *)
Rules(s, o, want2, optsKnown) ==
  LET a == o.a  out == Outs(o)  gsc == Gscs(o)  hook == Hooks(o) IN
     (IF Routed(s, a, out) THEN {} ELSE {"C16.routed"})
  \cup (IF Silent(s, a, out) THEN {} ELSE {"C16.silent"})
  \cup (IF AfterCleanup(s, a, out) THEN {} ELSE {"C16.afterCleanup"})
  \cup (IF WireOnly(s, a, out) THEN {} ELSE {"C16.wireOnly"})
  \cup (IF CurrentReq(s, a, SelectSeq(gsc, LAMBDA g : g.call # "RegisterPersistenceOption")) THEN {} ELSE {"C16.currentReq"})
  \cup (IF CompletedOnce(s, a, out) THEN {} ELSE {"C16.completedOnce"})
  \cup (IF StoreLifetime(want2, IF optsKnown THEN RangeOf(o.opts) ELSE want2, hook, a, s) THEN {} ELSE {"C16.storeLifetime"})
ConfOf(o, e, optsKnown) ==
  /\ Outs(o) = e.out /\ NoMode(Gscs(o)) = NoMode(e.gsc) /\ Hooks(o) = e.hook
  /\ (o.ret = e.ret \/ (e.ret = "hang" /\ o.ret = "nil"))
  /\ (optsKnown => RangeOf(o.opts) = e.s.opts)

RECURSIVE PostRules(_, _, _, _), PostConf(_, _, _)
PostRules(s, want, steps, i) ==
  IF i > Len(steps) THEN {}
  ELSE LET o == steps[i]  e == Step(s, o.a) IN Rules(s, o, want, TRUE) \cup PostRules(e.s, want, steps, i + 1)
PostConf(s, steps, i) ==
  IF i > Len(steps) THEN TRUE
  ELSE LET o == steps[i]  e == Step(s, o.a) IN ConfOf(o, e, TRUE) /\ PostConf(e.s, steps, i + 1)

(* order "HX" or "XH": [rules, conf] *)
Eval(ob, order) ==
  LET p == Fold(S0, {}, [i \in 1..Len(ob.pre) |-> ob.pre[i].a], 1)
      hFirst == order = "HX"
      e1 == IF hFirst THEN HookStep(p.s, ob.h.a, ob.reenter) ELSE Step(p.s, ob.x.a)
      w1 == IF hFirst THEN WantAfter(p.want, ob.h.a, ob.reenter) ELSE WantAfter(p.want, ob.x.a, "none")
      e2 == IF hFirst THEN Step(e1.s, ob.x.a) ELSE HookStep(e1.s, ob.h.a, ob.reenter)
      w2 == IF hFirst THEN WantAfter(w1, ob.x.a, "none") ELSE WantAfter(w1, ob.h.a, ob.reenter)
      o1 == IF hFirst THEN ob.h ELSE ob.x
      o2 == IF hFirst THEN ob.x ELSE ob.h
      (* the handler's own UseStore call is part of H's graphsync log; the model's HookStep puts it first *)
  IN [rules |-> Rules(p.s, o1, w1, FALSE) \cup Rules(e1.s, [o2 EXCEPT !.opts = ob.opts], w2, TRUE) \cup PostRules(e2.s, w2, ob.post, 1),
      conf |-> ConfOf(o1, e1, FALSE) /\ ConfOf([o2 EXCEPT !.opts = ob.opts], e2, TRUE) /\ PostConf(e2.s, ob.post, 1)]

Orders(ob) == IF ob.overlap /\ ob.x.a.op = "Cleanup" THEN {"HX"} ELSE {"HX", "XH"}

Row(ob, rule) == [case |-> ob.case, rule |-> rule, op |-> ob.x.a.op, ext |-> ob.h.a.ext, pre |-> Len(ob.pre), reenter |-> ob.reenter, hret |-> ob.h.a.hret]
Verdict(ob) ==
  IF ob.err # "" THEN {Row(ob, "harness")}
  ELSE IF ob.stuck # "" THEN {Row(ob, "C20.everyCallReturns")}
  ELSE
    LET ev == [o \in Orders(ob) |-> Eval(ob, o)]
        good == {o \in Orders(ob) : ev[o].rules = {}}
        common == {r \in UNION {ev[o].rules : o \in Orders(ob)} : \A o \in Orders(ob) : r \in ev[o].rules}
    IN (IF good # {} THEN {} ELSE IF common # {} THEN {Row(ob, r) : r \in common} ELSE {Row(ob, "C16.linearizable")})
       \cup (IF \E o \in Orders(ob) : ev[o].conf THEN {} ELSE {Row(ob, "conf")})
       \cup (IF ob.overlap THEN {} ELSE {Row(ob, "nooverlap")})

Obs == ndJsonDeserialize(ObsFile)
ASSUME IF Mode = "gen"
       THEN ndJsonSerialize(OutFile, [n \in 1..Len(ScenSeq) |-> CaseOf(n)]) /\ PrintT(<<"@@generated", Len(ScenSeq)>>)
       ELSE ndJsonSerialize(OutFile, SetToSeq(UNION {Verdict(Obs[n]) : n \in 1..Len(Obs)})) /\ PrintT(<<"@@judged", Len(Obs)>>)
=============================================================================

-------------------------------- MODULE Net --------------------------------
(* Process model of the libp2p network adapter of go-data-transfer (network/libp2p_impl.go), C15.        *)
(*                                                                                                       *)
(* OutSpec : one SendMessage call.  The code's steps (NewStream call, backoff select, conversion,        *)
(*           deadline+write, reset, close) alternate with the environment's choices (per-attempt         *)
(*           NewStream outcome, write/reset/close outcome); the caller's context may be cancelled at     *)
(*           ANY step (before the first call, while a NewStream call is in flight, during a backoff      *)
(*           wait, during conversion/write/reset/close).  The jittered backoff wait is the abstract      *)
(*           state pc = "wait": it is left either by "timer" or by "ctxdone".                            *)
(* InSpec  : one inbound stream handled by handleNewStream: <= MaxMsgs messages then a terminator.       *)
(*                                                                                                       *)
(* The transition functions live in NetOps (shared with the judge).  The history h is the sequence of    *)
(* events, so the reachable states form the tree of behaviour prefixes; every complete behaviour is      *)
(* printed once as a replay case ("@@case") by the Dump action when DumpCases = TRUE.                    *)
EXTENDS NetOps, Json

CONSTANTS MaxAttempts,   \* configured attempt cap (RetryParameters attempts)
          Bug,           \* "none", or a model-level mutant (vacuity control of the invariants)
          OutMsgs,       \* message shapes SendMessage is called with
          Deadlines,     \* subset of BOOLEAN: the caller's context carries a deadline
          Shapes, Terms, MaxMsgs, Peers, Chunks, NilRecv,   \* inbound
          DumpCases

VARIABLES st, h, par, dumped
vars == <<st, h, par, dumped>>

(* ------------------------------------ outbound ------------------------------------ *)
OutInitP == /\ st = OutInit(MaxAttempts, Bug)
            /\ h = << >>
            /\ par \in [msg : OutMsgs, dl : Deadlines]
            /\ dumped = FALSE

OutDo(e) == /\ st.pc # "done" /\ OutEnabled(st, e)
            /\ st' = OutStep(st, e) /\ h' = Append(h, e) /\ UNCHANGED <<par, dumped>>

OutCase == [kind |-> "out", max |-> st.max, msg |-> par.msg, dl |-> par.dl, ev |-> h,
            outs |-> st.outs, cancelAt |-> st.cancelAt, cancelK |-> st.cancelK,
            conv |-> st.conv, write |-> st.write, reset |-> st.reset, close |-> st.close,
            exp |-> [ret |-> st.ret, n |-> st.n, delivered |-> st.delivered]]

OutDump == /\ DumpCases /\ st.pc = "done" /\ ~dumped
           /\ PrintT(<<"@@case", ToJson(OutCase)>>)
           /\ dumped' = TRUE /\ UNCHANGED <<st, h, par>>

OutCode == \E e \in {"call", "timer", "ctxdone"} : OutDo(e)
OutEnv  == \E e \in EnvChoice \ {"cancel"} : OutDo(e)
OutCancel == OutDo("cancel")
OutNext == OutCode \/ OutEnv \/ OutCancel \/ OutDump
(* fairness: the code takes its steps and every call on the environment returns; cancellation is optional *)
OutSpec == OutInitP /\ [][OutNext]_vars /\ WF_vars(OutCode \/ OutEnv)

Inv_Cap        == OutCapOK(st)
Inv_SuccessIff == OutSuccessIffOK(st)
Inv_Once       == OutOnceOK(st)
Inv_Prompt     == OutPromptOK(st)
Inv_WriteFail  == OutWriteFailOK(st)
Inv_OutType    == /\ st.pc \in {"init", "attempt", "wait", "conv", "write", "reset", "close", "done"}
                  /\ st.b <= st.n /\ Len(st.outs) <= st.n /\ st.n <= Len(st.outs) + 1
                  /\ (st.pc = "done") = (st.ret # "none")
(* an opened stream is never followed by another NewStream call; the attempt counter only grows *)
Act_NoRetryAfterOpen == [][st.opened => st'.n = st.n]_vars
(* a cancellation seen in the backoff wait ends the call in the next step of the code *)
Act_CancelInWait == [][(st.pc = "wait" /\ st.cancelled /\ st'.pc # "wait") => (st'.pc = "done" /\ st'.ret = "ctx")]_vars
Live_Returns == <>(st.pc = "done")

(* ------------------------------------ inbound ------------------------------------ *)
InInitP == /\ par \in [peer : Peers, chunk : Chunks, nilrecv : NilRecv]
           /\ st = InInit(par.peer, par.nilrecv, Bug)
           /\ h = << >>
           /\ dumped = FALSE

InDo(e) == /\ st.pc # "done" /\ InEnabled(st, e)
           /\ (e \in AllShapes => (e \in Shapes /\ st.i < MaxMsgs))
           /\ (e \in AllTerms => e \in Terms)
           /\ st' = InStep(st, e) /\ h' = Append(h, e) /\ UNCHANGED <<par, dumped>>

InCase == [kind |-> "in", peer |-> par.peer, chunk |-> par.chunk, nilrecv |-> par.nilrecv, ev |-> h,
           items |-> st.items, term |-> st.term,
           exp |-> [calls |-> Len(st.calls), resets |-> st.resets, errs |-> st.errs, closes |-> st.closes]]

InDump == /\ DumpCases /\ st.pc = "done" /\ ~dumped
          /\ PrintT(<<"@@case", ToJson(InCase)>>)
          /\ dumped' = TRUE /\ UNCHANGED <<st, h, par>>

InStepAny == \E e \in {"enter"} \cup Shapes \cup Terms : InDo(e)
InNext == InStepAny \/ InDump
InSpec == InInitP /\ [][InNext]_vars /\ WF_vars(InStepAny)

Inv_Dispatch  == InDispatchOK(st)
Inv_Malformed == InMalformedOK(st)
Inv_InType    == st.pc \in {"entry", "read", "done"} /\ st.i <= MaxMsgs /\ st.closes <= 1 /\ st.resets <= 1
Act_OncePerMessage == [][Len(st'.calls) <= Len(st.calls) + 1 /\ (Len(st'.calls) = Len(st.calls) + 1 => st'.i = st.i + 1)]_vars
Live_Handled == <>(st.pc = "done")
=============================================================================

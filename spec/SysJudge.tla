----------------------------- MODULE SysJudge -----------------------------
(* Two-node replays of Sys.tla behaviours on two REAL managers (harness mgrx/TestSys): conformance of the     *)
(* final records with the model (drift) and the two-party formulas of C01/C03 on the OBSERVED values.          *)
EXTENDS FSM, Json, SequencesExt
CONSTANTS ObsFile, OutFile
Cases == ndJsonDeserialize(ObsFile)
Rules(c) ==
  LET st == c.steps
      pull == c.dir = "pull"
      rq == IF pull THEN "A" ELSE "B"
      accepted == \E i \in 1..Len(st) : st[i].node = "A" /\ st[i].obs.stim.msg.kind = "New" /\ st[i].obs.stim.msg.accepted /\ ~st[i].obs.stim.msg.isReq
      recvAll == \A b \in 1..c.nblocks : \E i \in 1..Len(st) : st[i].node = rq /\ st[i].obs.stim.kind = "OnDataReceived" /\ st[i].obs.stim.args.index = b /\ st[i].obs.ret \in {"nil","pause"}
      sentNet == \E i \in 1..Len(st) : (st[i].node = "B" /\ (\E k \in 1..Len(st[i].obs.net) :
                       (st[i].obs.net[k].what = "send" /\ st[i].obs.net[k].ok /\ st[i].obs.net[k].msg.kind = "Complete" /\ ~st[i].obs.net[k].msg.paused)))
      sentTr == \E i \in 1..Len(st) : (st[i].node = "B" /\ (\E k \in 1..Len(st[i].obs.tr) :
                       (st[i].obs.tr[k].call = "resume" /\ st[i].obs.tr[k].msg.kind = "Complete" /\ ~st[i].obs.tr[k].msg.paused)))
      sentFinal == sentNet \/ sentTr
      fA == c.finalA  fB == c.finalB
      recvd == IF pull THEN fA.received ELSE fB.received
      queued == IF pull THEN fB.queued ELSE fA.queued
      CloseFailed(n) == \E i \in 1..Len(st) : st[i].node = n /\ st[i].obs.stim.kind = "Close" /\ st[i].obs.stim.sendFail # << >>
      Same(n, f, e) == IF CloseFailed(n) THEN [f EXCEPT !.msg = ""] = [e EXCEPT !.msg = ""] ELSE f = e
  IN
  (IF \A i \in 1..Len(st) : st[i].obs.err = "" /\ st[i].obs.panic = "" THEN {} ELSE {"harness"})
  \* a Close whose Cancel message cannot be sent: the failed send's Disconnected (which records the error text) races with Cancel - the text is not determined
  \cup (IF Same("A", fA, c.expA) /\ c.hasB = c.expHasB /\ (c.hasB => Same("B", fB, c.expB)) THEN {} ELSE {"conf"})
  \cup (IF (fA.status = "Completed" /\ accepted) => (c.hasB /\ fB.status \in {"Completing","Completed"}) THEN {} ELSE {"C01.responderSettles"})
  \cup (IF (fA.status = "Completed" /\ accepted) => sentFinal THEN {} ELSE {"C01.sentFinalComplete"})
  \cup (IF (fA.status = "Completed" /\ accepted) => recvAll THEN {} ELSE {"C01.receiverHoldsData"})
  \cup (IF (fA.status = "Completed" /\ accepted) => (recvd = c.uniqueBytes /\ queued = c.uniqueBytes) THEN {} ELSE {"C01.totals"})
  \cup (IF (fA.status \in {"Completing","Completed"} /\ accepted) =>
             (/\ \E i \in 1..Len(st) : st[i].node = "A" /\ st[i].obs.stim.kind = "OnChannelCompleted" /\ st[i].obs.stim.args.err = ""
              /\ \E i \in 1..Len(st) : st[i].node = "A" /\ st[i].obs.stim.msg.kind = "Complete" /\ ~st[i].obs.stim.msg.paused)
        THEN {} ELSE {"C03.onlyBoth"})
Verdicts == UNION {{[case |-> Cases[n].case, i |-> 0, rule |-> r, status |-> Cases[n].finalA.status, op |-> Cases[n].dir] : r \in Rules(Cases[n])} : n \in 1..Len(Cases)}
ASSUME ndJsonSerialize(OutFile, SetToSeq(Verdicts))
ASSUME PrintT(<<"@@judged", Len(Cases)>>)
=============================================================================

----------------------------- MODULE LockJudge -----------------------------
(* C20 on observations of harness lockx: replays of Lock.tla deadlock traces on the real manager + real         *)
(* transport adapter, and model-driven concurrent stress rounds on a real manager.                               *)
EXTENDS Naturals, Sequences, FiniteSets, TLC, Json, SequencesExt
CONSTANTS ObsFile, OutFile
Cases == ndJsonDeserialize(ObsFile)
IsReplay(c) == "scenario" \in DOMAIN c
Rules(c) ==
  IF IsReplay(c)
  THEN (IF c.returned THEN {} ELSE {"C20.everyCallReturns"})
  ELSE (IF c.notReturned = << >> THEN {} ELSE {"C20.everyCallReturns"})
       \cup (IF c.stopReturned THEN {} ELSE {"C20.stopReturns"})
       \cup (IF c.parked = << >> THEN {} ELSE {"C20.noGoroutineOnLibraryLock"})
       \cup (IF c.panics = << >> THEN {} ELSE {"C20.noPanic"})
Verdicts == UNION {{[case |-> Cases[n].case, i |-> 0, rule |-> r, status |-> "", op |-> IF IsReplay(Cases[n]) THEN Cases[n].scenario ELSE "stress"] : r \in Rules(Cases[n])} : n \in 1..Len(Cases)}
ASSUME ndJsonSerialize(OutFile, SetToSeq(Verdicts))
ASSUME PrintT(<<"@@judged", Len(Cases)>>)
=============================================================================

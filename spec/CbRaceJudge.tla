----------------------------- MODULE CbRaceJudge -----------------------------
(* C08 "an accepting update resumes the channel" at the transport: after a re-validation that lifts the limit   *)
(* the channel state says the responder is not paused; the last instruction the graphsync request received must   *)
(* then not be a pause.  Observations: lockx/TestCallbackRace (real manager + real adapter; the re-validation is    *)
(* issued after the block hook returned, or from inside the DataLimitExceeded subscriber callback).                *)
EXTENDS Naturals, Sequences, FiniteSets, TLC, Json, SequencesExt
CONSTANTS ObsFile, OutFile
Cases == ndJsonDeserialize(ObsFile)
Rules(c) == (IF c.err = "" THEN {} ELSE {"harness"})
            \cup (IF \E i \in 1..Len(c.order) : c.order[i] = "pauseRequest" THEN {} ELSE {"C08.pauseFx"})
            \cup (IF ~c.rpView => ~c.transportPaused THEN {} ELSE {"C08.resumeReachesTransport"})
Verdicts == UNION {{[case |-> Cases[n].case, i |-> 0, rule |-> r, status |-> "", op |-> Cases[n].mode] : r \in Rules(Cases[n])} : n \in 1..Len(Cases)}
ASSUME ndJsonSerialize(OutFile, SetToSeq(Verdicts))
ASSUME PrintT(<<"@@judged", Len(Cases)>>)
=============================================================================

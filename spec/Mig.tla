-------------------------------- MODULE Mig --------------------------------
(* C13 - datastore schema migration v2 -> v3 (channels/internal/migrations/migrations.go,             *)
(* go-ds-versioning migratedFsm + runner, channels.New/Start, impl.Start/OnReady).                      *)
(*                                                                                                      *)
(* Part A (constant level): the abstract version-2 record, Migrate(r2) as a function, the concrete      *)
(*   content of the three stage-log classes, the error class each refused operation reports, and the    *)
(*   tabulation of the migration cases (TabFile) and of the lifecycle schedules (LifeFile) for replay.  *)
(* Part B (behaviour): the lifecycle of one process after another on one persistent store:              *)
(*   phase in {"new","starting","ready","failed"}, actions RegisterListener, Start, MigrationDone,       *)
(*   Announce, Op, Restart, with the properties OpsRefusedUntilReady, ReadyOnce, Idempotent, Live.      *)
EXTENDS ChanOps, Json, SequencesExt

CONSTANTS TabFile, LifeFile,                        \* "" = do not tabulate
          CounterClasses, LimitVals, FinVals, VoucherLens, ResultLens, StageClasses, MsgClasses, PeerClasses,
          MChans, MListeners, MStatuses, MEvents, MaxRestarts, MaxOps      \* lifecycle model

(* ------------------------------------------------------------------------------------------------ *)
(* Part A                                                                                           *)
(* ------------------------------------------------------------------------------------------------ *)
PausedStatuses == {"InitiatorPaused","ResponderPaused","BothPaused"}

(* A version-2 record has every field of the version-3 record except the two pause flags.            *)
V2Fields == (RecFields \ {"ip","rp"}) \cup {"stages","totalSize"}
V3Fields == RecFields \cup {"stages","totalSize"}

(* migrations.go MigrateChannelState2To3: every field copied; the three deprecated statuses become   *)
(* Ongoing and are the only source of TRUE pause flags.                                               *)
Migrate(r2) ==
  [status   |-> IF r2.status \in PausedStatuses THEN "Ongoing" ELSE r2.status,
   ip       |-> r2.status \in {"InitiatorPaused","BothPaused"},
   rp       |-> r2.status \in {"ResponderPaused","BothPaused"},
   queued   |-> r2.queued,  sent |-> r2.sent,  received |-> r2.received,
   qIdx     |-> r2.qIdx,    sIdx |-> r2.sIdx,  rIdx |-> r2.rIdx,
   limit    |-> r2.limit,   reqFin |-> r2.reqFin, msg |-> r2.msg,
   vouchers |-> r2.vouchers, results |-> r2.results,
   stages   |-> r2.stages,  totalSize |-> r2.totalSize]

Core(r) == [f \in RecFields |-> r[f]]          \* the part FSM!Apply talks about

(* concrete stage logs (datatransfer.ChannelStages): class -> <<stage>>; timestamps are unix nanos    *)
StageNames == <<"Requested","Ongoing","TransferFinished">>
Stg(i) == [name |-> StageNames[i], desc |-> "d" \o ToString(i), created |-> 1000 + i, updated |-> 2000 + i,
           logs |-> IF i = 2 THEN << >>
                    ELSE IF i = 1 THEN << [log |-> "opened", updated |-> 3001] >>
                    ELSE << [log |-> "sent 3", updated |-> 3003], [log |-> "done", updated |-> 3004] >>]
StageLog(c) == CASE c = "none" -> << >> [] c = "one" -> << Stg(1) >> [] OTHER -> << Stg(1), Stg(2), Stg(3) >>

V2Rec(s, cc, lim, fin, nv, nr, sc, mc) ==
  LET z == cc = "zero" IN
  [status |-> s, queued |-> IF z THEN 0 ELSE 5, sent |-> IF z THEN 0 ELSE 3, received |-> IF z THEN 0 ELSE 4,
   qIdx |-> IF z THEN 0 ELSE 6, sIdx |-> IF z THEN 0 ELSE 2, rIdx |-> IF z THEN 0 ELSE 8,
   limit |-> lim, reqFin |-> fin, msg |-> IF mc = "empty" THEN "" ELSE "m1 text",
   vouchers |-> SubSeq(<<"v3","v4">>, 1, nv), results |-> SubSeq(<<"r3","r5">>, 1, nr),
   stages |-> sc, totalSize |-> IF z THEN 0 ELSE 9]

(* identities: self is "A"; the other party is "B", or "N" whose peer id is not valid UTF-8 *)
MigRoles == <<"initPush","initPull","respPush","respPull">>
IdentFor(role, o, n) ==
  CASE role = "initPush" -> [self |-> "A", initiator |-> "A", responder |-> o, sender |-> "A", recipient |-> o, tid |-> n, base |-> "base", sel |-> "s"]
    [] role = "initPull" -> [self |-> "A", initiator |-> "A", responder |-> o, sender |-> o, recipient |-> "A", tid |-> n, base |-> "b2", sel |-> "q"]
    [] role = "respPush" -> [self |-> "A", initiator |-> o, responder |-> "A", sender |-> o, recipient |-> "A", tid |-> n, base |-> "base", sel |-> "q"]
    [] role = "respPull" -> [self |-> "A", initiator |-> o, responder |-> "A", sender |-> "A", recipient |-> o, tid |-> n, base |-> "b2", sel |-> "s"]

TabRows == {[r2 |-> V2Rec(s, cc, lim, fin, nv, nr, sc, mc), pc |-> pc] :
              s \in Status, cc \in CounterClasses, lim \in LimitVals, fin \in FinVals, nv \in VoucherLens,
              nr \in ResultLens, sc \in StageClasses, mc \in MsgClasses, pc \in PeerClasses}
TabSeq == SetToSeq(TabRows)
RowOf(n) == LET w == TabSeq[n] IN
  [id |-> n, ident |-> IdentFor(MigRoles[(n % 4) + 1], IF w.pc = "nonutf8" THEN "N" ELSE "B", n),
   r2 |-> w.r2, stageLog |-> StageLog(w.r2.stages), expect |-> Migrate(w.r2)]

(* lifecycle schedules replayed on every store: listeners registered before Start, listeners         *)
(* registered after readiness, whether the migration is held at the datastore gate, injected fault.   *)
LifeRows == {[listeners |-> k, late |-> l, hold |-> h, fault |-> f] :
               k \in 0..3, l \in 0..1, h \in BOOLEAN, f \in {"none","queryErr","badRecord"}}
            \cup {[listeners |-> k, late |-> l, hold |-> TRUE, fault |-> "ctxCancel"] : k \in 0..3, l \in 0..1}   \* the start context ends while the migration is in flight

(* error class a refused operation reports (conformance only; the property is "refused, untouched").  *)
(* channels.GetByID swallows the gate's error into ErrNotFound; everything else passes it through.    *)
ViaGetByID == {"GetByID","ChannelState","TransferChannelStatus","SendVoucher","SendVoucherResult","UpdateValidationStatus",
               "CloseDataTransferChannel","RestartDataTransferChannel","OnChannelCompleted"}
RefusalClass(op, ph) == IF op \in ViaGetByID THEN "notfound" ELSE IF ph = "failed" THEN "migerr" ELSE "notready"

ASSUME (TabFile = "") \/ ndJsonSerialize(TabFile, [n \in 1..Len(TabSeq) |-> RowOf(n)])
ASSUME (TabFile = "") \/ PrintT(<<"@@rows", Len(TabSeq)>>)
ASSUME (LifeFile = "") \/ ndJsonSerialize(LifeFile, SetToSeq(LifeRows))

(* ------------------------------------------------------------------------------------------------ *)
(* Part B: lifecycle                                                                                *)
(* ------------------------------------------------------------------------------------------------ *)
VARIABLES phase,      \* of the current process
          outcome,    \* "none" | "ok" | "err": result of this process's migration run
          ver,        \* "2" | "3": /versions/current
          in2, in3,   \* channels that have a record under /2/, /3/
          rec3,       \* [MChans -> v3 record] (meaningful for c \in in3)
          orig,       \* [MChans -> v2 record] what was stored under /2/ in the beginning (history)
          hist,       \* [MChans -> sequence of <<event,arg>> applied since migration] (history)
          regd,       \* listeners subscribed in this process
          before,     \* those subscribed before Start
          calls,      \* [MListeners -> sequence of outcomes received in this process]
          announced,  \* the ready event was published in this process
          lastOp,     \* [phase, res] of the most recent channel operation, or NoOp
          nops, restarts
vars == <<phase, outcome, ver, in2, in3, rec3, orig, hist, regd, before, calls, announced, lastOp, nops, restarts>>

NoOp == [phase |-> "none", res |-> "none"]
ModelV2(s) == V2Rec(s, "busy", 7, TRUE, 1, 0, "one", "empty")
ArgOf(e) == CASE ArgKind(e) \in {"idx","delta","limit"} -> 9 [] ArgKind(e) = "bool" -> TRUE [] ArgKind(e) = "err" -> "e1"
              [] ArgKind(e) = "voucher" -> "v4" [] ArgKind(e) = "result" -> "r4" [] OTHER -> 0

Init == /\ phase = "new" /\ outcome = "none" /\ ver = "2" /\ in3 = {} /\ in2 \in SUBSET MChans
        /\ orig \in [MChans -> {ModelV2(s) : s \in MStatuses}]
        /\ rec3 = [c \in MChans |-> Migrate(orig[c])]      \* placeholder until c \in in3
        /\ hist = [c \in MChans |-> << >>]
        /\ regd = {} /\ before = {} /\ calls = [l \in MListeners |-> << >>] /\ announced = FALSE
        /\ lastOp = NoOp /\ nops = 0 /\ restarts = 0

RegisterListener(l) ==
  /\ l \notin regd
  /\ regd' = regd \cup {l}
  /\ before' = IF phase = "new" THEN before \cup {l} ELSE before
  /\ UNCHANGED <<phase, outcome, ver, in2, in3, rec3, orig, hist, calls, announced, lastOp, nops, restarts>>

Start ==
  /\ phase = "new" /\ phase' = "starting"
  /\ UNCHANGED <<outcome, ver, in2, in3, rec3, orig, hist, regd, before, calls, announced, lastOp, nops, restarts>>

(* runner.Migrate -> migrate.To: every record under /2/ is transformed and moved to /3/, the version *)
(* key is rewritten; on an already migrated store there is nothing to move.  "err": the run failed  *)
(* and the store is left as it was.                                                                   *)
MigrationDone(res) ==
  /\ phase = "starting"
  /\ IF res = "ok"
     THEN /\ phase' = "ready" /\ outcome' = "ok" /\ ver' = "3"
          /\ in3' = in3 \cup in2 /\ in2' = {}
          /\ rec3' = [c \in MChans |-> IF c \in in2 THEN Migrate(orig[c]) ELSE rec3[c]]
     ELSE /\ phase' = "failed" /\ outcome' = "err" /\ UNCHANGED <<ver, in2, in3, rec3>>
  /\ UNCHANGED <<orig, hist, regd, before, calls, announced, lastOp, nops, restarts>>

(* impl.Start's goroutine: readySub.Publish(err) reaches whoever is subscribed at that moment *)
Announce ==
  /\ phase \in {"ready","failed"} /\ ~announced
  /\ announced' = TRUE
  /\ calls' = [l \in MListeners |-> IF l \in regd THEN Append(calls[l], outcome) ELSE calls[l]]
  /\ UNCHANGED <<phase, outcome, ver, in2, in3, rec3, orig, hist, regd, before, lastOp, nops, restarts>>

(* a channel operation (any method of channels.Channels / the manager that reaches the state machines) *)
Op(c, e) ==
  /\ nops < MaxOps /\ nops' = nops + 1
  /\ IF phase # "ready"
     THEN /\ lastOp' = [phase |-> phase, res |-> "refused"] /\ UNCHANGED <<rec3, hist>>
     ELSE IF c \notin in3
     THEN /\ lastOp' = [phase |-> phase, res |-> "notfound"] /\ UNCHANGED <<rec3, hist>>
     ELSE LET o == Apply(rec3[c], e, ArgOf(e)) IN
          /\ lastOp' = [phase |-> phase, res |-> o.kind]
          /\ rec3' = [rec3 EXCEPT ![c] = o.rec]
          /\ hist' = IF o.kind = "applied" THEN [hist EXCEPT ![c] = Append(@, <<e, ArgOf(e)>>)] ELSE hist
  /\ UNCHANGED <<phase, outcome, ver, in2, in3, orig, regd, before, calls, announced, restarts>>

(* the process ends and a new one opens the same store *)
Restart ==
  /\ phase \in {"ready","failed"} /\ announced /\ restarts < MaxRestarts
  /\ restarts' = restarts + 1
  /\ phase' = "new" /\ outcome' = "none" /\ regd' = {} /\ before' = {} /\ announced' = FALSE
  /\ calls' = [l \in MListeners |-> << >>] /\ lastOp' = NoOp
  /\ UNCHANGED <<ver, in2, in3, rec3, orig, hist, nops>>

Next == \/ \E l \in MListeners : RegisterListener(l)
        \/ Start \/ MigrationDone("ok") \/ MigrationDone("err") \/ Announce \/ Restart
        \/ \E c \in MChans, e \in MEvents : Op(c, e)
Spec == Init /\ [][Next]_vars /\ WF_vars(MigrationDone("ok") \/ MigrationDone("err")) /\ WF_vars(Announce)

Store == <<ver, in2, in3, rec3>>
RECURSIVE Fold(_, _)
Fold(r, h) == IF h = << >> THEN r ELSE Fold(Apply(r, Head(h)[1], Head(h)[2]).rec, Tail(h))

TypeOK == /\ phase \in {"new","starting","ready","failed"} /\ outcome \in {"none","ok","err"} /\ ver \in {"2","3"}
          /\ in2 \subseteq MChans /\ in3 \subseteq MChans /\ in2 \cap in3 = {}
          /\ (phase = "ready" => in2 = {} /\ ver = "3")
(* no operation takes effect (or reports anything but a refusal) unless the process is ready *)
OpsRefusedUntilReady == lastOp.phase \notin {"none","ready"} => lastOp.res = "refused"
StoreOnlyWhenReady == [][(phase # "ready" /\ ~(phase = "starting" /\ phase' = "ready")) => Store' = Store]_vars
(* each listener registered before Start is called exactly once, with the outcome *)
ReadyOnce == /\ \A l \in MListeners : Len(calls[l]) <= 1
             /\ announced => \A l \in before : calls[l] = <<outcome>>
             /\ ~announced => \A l \in MListeners : calls[l] = << >>
ReadyEventually == (phase = "starting") ~> announced
(* Start on an already migrated store changes nothing under /3/ *)
Idempotent == [][(phase = "starting" /\ ver = "3") => <<in3, rec3>>' = <<in3, rec3>>]_vars
(* what is under /3/ is always the migrated original with the applied events folded in per FSM!Apply, *)
(* across any number of restarts; records still under /2/ are the untouched originals                  *)
Live == \A c \in in3 : rec3[c] = Fold(Migrate(orig[c]), hist[c])
MigratedIsV3 == \A c \in in3 : DOMAIN rec3[c] = V3Fields /\ rec3[c].status \notin PausedStatuses
=============================================================================

------------------------------ MODULE MonJudge ------------------------------
(* Judge of observations recorded from the real channelmonitor.Monitor (harness monx).                     *)
(* Input (ndjson, one case per line):                                                                       *)
(*   cfg    [en, max, acc, cmp, deb, bof, hz]            the configuration, in ticks                         *)
(*   events <<[t, code, st, fin, delivered, inj, s0, s1]>> environment steps as they happened (s0/s1: global *)
(*          sequence numbers before/after the subscriber callback)                                          *)
(*   log    <<[call, t, t1, res, out, lat, s0, s1, ov]>>  calls on the monitor-API double                    *)
(*   mlog   the merged history in the format of Mon!h.log                                                   *)
(*   end    [unsub, listed, addNil, subs, unsubs, now]                                                      *)
(* Part 1 (ASSUME, constant level): the C14 formulas evaluated on the OBSERVED values, computed from the     *)
(*   call log and the event times.  Where two things happen at the same virtual instant and their order is    *)
(*   not observable, a rule only fires if it fails under every order (strict / non-strict comparisons).       *)
(* Part 2 (behaviour spec JSpec): trace validation - the observed merged history must be a behaviour of Mon  *)
(*   for the case's configuration (conformance; a failure is drift, not a verdict).                         *)
EXTENDS Mon, SequencesExt

CONSTANTS ObsFile, OutFile
Cases == ndJsonDeserialize(ObsFile)

Idx(s) == 1..Len(s)
MaxS(S) == CHOOSE x \in S : \A y \in S : x >= y

DelFin(c)       == {i \in Idx(c.events) : c.events[i].delivered /\ c.events[i].fin}
DelLive(c, cs)  == {i \in Idx(c.events) : c.events[i].delivered /\ ~c.events[i].fin /\ c.events[i].code \in cs}
Shuts(c)        == {i \in Idx(c.events) : c.events[i].code = "Shut"}
Calls(c, names) == {i \in Idx(c.log) : c.log[i].call \in names}
Closes(c)       == Calls(c, {"close"})
(* the environment made the monitor shut down strictly before / not later than instant d *)
StopLt(c, d) == (\E i \in DelFin(c) \cup Shuts(c) : c.events[i].t < d)
StopLe(c, d) == (\E i \in DelFin(c) \cup Shuts(c) : c.events[i].t <= d)
(* a close for another reason not later than d *)
ClosedLe(c, d, own) == \E j \in Closes(c) : c.log[j].t <= d /\ c.log[j].res \notin own
ClosedLt(c, d) == \E j \in Closes(c) : c.log[j].t < d

(* ---- C14.closeOnce ------------------------------------------------------------------------------------------ *)
RCloseOnce(c) == IF Cardinality(Closes(c)) > 1 THEN {"secondClose"} ELSE {}

(* ---- C14.acceptTO : closed by the accept timeout exactly when no Accept arrived in time ------------------------- *)
RAccept(c) ==
  LET A     == c.cfg.acc
      ac    == {j \in Closes(c) : c.log[j].res = "accept"}
      accLt == \E i \in DelLive(c, {"Accept"}) : c.events[i].t < A
      accLe == \E i \in DelLive(c, {"Accept"}) : c.events[i].t <= A
  IN (IF A = 0 /\ ac # {} THEN {"firedThoughDisabled"} ELSE {})
     \cup (IF A > 0 /\ (\E j \in ac : c.log[j].t # A \/ accLt \/ StopLt(c, A)) THEN {"firedWrongly"} ELSE {})
     \cup (IF c.cfg.en /\ A > 0 /\ c.end.now > A /\ ~accLe /\ ~StopLe(c, A) /\ ~ClosedLe(c, A, {"accept", "other"})
              /\ ~(\E j \in Closes(c) : c.log[j].t = A /\ c.log[j].res \in {"accept", "other"})
           THEN {"notFired"} ELSE {})

(* ---- C14.completeTO : from every FinishTransfer seen, unless a cleanup/terminal status arrives in time ----------- *)
RComplete(c) ==
  LET C  == c.cfg.cmp
      DL == {c.events[i].t + C : i \in DelLive(c, {"FinishTransfer"})}
      cc == {j \in Closes(c) : c.log[j].res = "complete"}
      d  == MinS(DL)
  IN (IF C = 0 /\ cc # {} THEN {"firedThoughDisabled"} ELSE {})
     \cup (IF C > 0 /\ (\E j \in cc : DL = {} \/ c.log[j].t # d \/ StopLt(c, c.log[j].t)) THEN {"firedWrongly"} ELSE {})
     \cup (IF c.cfg.en /\ C > 0 /\ DL # {} /\ c.end.now > d /\ ~StopLe(c, d) /\ ~ClosedLe(c, d, {"complete", "other"})
              /\ ~(\E j \in Closes(c) : c.log[j].t = d /\ c.log[j].res \in {"complete", "other"})
           THEN {"notFired"} ELSE {})

(* ---- C14.forgets ---------------------------------------------------------------------------------------------- *)
RForgets(c) ==
  LET cl  == Closes(c)
      fin == DelFin(c)
      gone == \/ \E i \in fin \cup Shuts(c) : c.events[i].t < c.end.now
              \/ \E j \in cl : c.log[j].t < c.end.now
  IN (IF \E j \in cl, i \in fin : c.events[i].s1 < c.log[j].s0 /\ c.events[i].t = c.log[j].t THEN {"closeAfterSeen.sameInstant"} ELSE {})
     \cup (IF \E j \in cl, i \in fin : c.events[i].s1 < c.log[j].s0 /\ c.events[i].t < c.log[j].t THEN {"closeAfterSeen.later"} ELSE {})
     \cup (IF \E j \in cl, i \in Shuts(c) : c.events[i].s1 < c.log[j].s0 THEN {"closeAfterShutdown"} ELSE {})
     \cup (IF c.cfg.en /\ gone /\ ~c.end.unsub THEN {"stillSubscribed"} ELSE {})
     \cup (IF c.cfg.en /\ gone /\ c.end.listed THEN {"stillListed"} ELSE {})

(* ---- C14.disabled ---------------------------------------------------------------------------------------------- *)
RDisabled(c) == IF ~c.cfg.en /\ (~c.end.addNil \/ c.log # << >> \/ c.panic # "") THEN {"acted"} ELSE {}

(* ---- C14.oneAtATime -------------------------------------------------------------------------------------------- *)
ROne(c) ==
  LET A == Calls(c, {"connect", "restart"})
      B == c.cfg.bof
  IN (IF (\E i \in A : c.log[i].ov > 0) \/ (\E i, j \in A : i < j /\ c.log[j].s0 < c.log[i].s1) THEN {"overlap"} ELSE {})
     \cup (IF B > 0 /\ (\E i, j \in A : /\ i < j /\ c.log[i].call = "restart" /\ c.log[i].out = "ok" /\ c.log[j].call = "connect"
                                         /\ c.log[j].t < c.log[i].t1 + B /\ c.log[j].res # "ctx")
           THEN {"duringBackoff"} ELSE {})

(* ---- C14.bounded ----------------------------------------------------------------------------------------------- *)
RBounded(c) ==
  LET Cn == Calls(c, {"connect"})
      A  == Calls(c, {"connect", "restart"})
      Dt == {c.events[i].t : i \in DelLive(c, DataCodes)}
      M  == c.cfg.max
      SureWin(k, x)  == ~\E d \in Dt : c.log[k].t <= d /\ d <= x     \* certainly no data progress between attempt k and instant x
      MaybeWin(k, x) == ~\E d \in Dt : c.log[k].t < d /\ d < x
      Nxt(i) == {j \in Calls(c, {"connect", "restart", "close"}) : j > i}
      Pursued(i) == Nxt(i) # {} /\ LET n == MinS(Nxt(i)) IN
                       /\ c.log[n].t = c.log[i].t1
                       /\ (c.log[n].call = "connect" \/ (c.log[n].call = "close" /\ c.log[n].res \in {"restarts", "other"}))
  IN (IF c.runaway \/ (\E j \in Cn : Cardinality({k \in Cn : k <= j /\ SureWin(k, c.log[j].t)}) > M) THEN {"tooManyAttempts"} ELSE {})
     \cup (IF \E i \in A : /\ c.log[i].out = "fail" /\ ~StopLe(c, c.log[i].t1)
                           /\ ~(\E j \in Closes(c) : c.log[j].s0 < c.log[i].s1 \/ c.log[j].t = c.log[i].t1)   \* a close (by any closer) before the attempt returned, or at
                                                                                                      \* the SAME instant as its return (goroutine order within an instant is not determined): the monitor is shut, nothing to pursue
                           /\ ~Pursued(i)
           THEN {"failureNotPursued"} ELSE {})
     \cup (IF \E j \in Closes(c) : /\ c.log[j].res = "restarts"
                                   /\ LET x  == c.log[j].t
                                          lo == Cardinality({k \in Cn : k < j /\ SureWin(k, x)})
                                          hi == Cardinality({k \in Cn : k < j /\ MaybeWin(k, x)})
                                      IN ~(lo <= M /\ M <= hi)
           THEN {"gaveUpWrongly"} ELSE {})

(* ---- C14.queuedOnce --------------------------------------------------------------------------------------------- *)
RQueued(c) ==
  LET E  == DelLive(c, ErrCodes)
      D  == c.cfg.deb
      B  == c.cfg.bof
      Cn == Calls(c, {"connect"})
      A  == Calls(c, {"connect", "restart"})
      R  == {i \in Calls(c, {"restart"}) : c.log[i].out = "ok"}           \* successful attempts
      tE(i) == c.events[i].t
      Sure == {i \in E : \A j \in E : j > i => tE(j) > tE(i) + D}          \* its debounce timer certainly fires, at tE(i) + D
      Poss == {i \in E : \A j \in E : j > i => tE(j) >= tE(i) + D}
      rT(i) == tE(i) + D
      F(i)  == c.log[i].t1 + B                                             \* the attempt is in flight until here
      PrevR(i) == IF {k \in R : k < i} = {} THEN 0 ELSE MaxS({k \in R : k < i})
      First(i) == LET S == {k \in Cn : k > PrevR(i) /\ k < i} IN IF S = {} THEN i ELSE MinS(S)   \* first connect of the chain that ended with attempt i
      P(i)  == c.log[First(i)].t
      Ks(i) == {e \in Sure : P(i) < rT(e) /\ rT(e) < F(i)}
      Kp(i) == {e \in Poss : P(i) <= rT(e) /\ rT(e) <= F(i)}
      OwnStart(i) == (PrevR(i) = 0 \/ P(i) > F(PrevR(i))) /\ (\E e \in Poss : rT(e) = P(i))
      After(i) == {k \in Calls(c, {"connect", "close"}) : k > i}
      Alive(x) == ~StopLe(c, x) /\ ~ClosedLe(c, x, {})
      Lost(i) == /\ Ks(i) # {} /\ Alive(F(i)) /\ F(i) < c.end.now
                 /\ ~(After(i) # {} /\ LET n == MinS(After(i)) IN
                        c.log[n].t = F(i) /\ (c.log[n].call = "connect" \/ c.log[n].res \in {"restarts", "other"}))
      Spurious(i) == /\ After(i) # {} /\ LET n == MinS(After(i)) IN c.log[n].t = F(i) /\ c.log[n].call = "connect" /\ c.log[n].res # "ctx"
                     /\ Cardinality(Kp(i)) < 1 + (IF OwnStart(i) THEN 1 ELSE 0)
      InFlightMaybe(x) == \/ \E k \in A : c.log[k].t <= x /\ x <= (IF c.log[k].call = "restart" /\ c.log[k].out = "ok" THEN F(k) ELSE c.log[k].t1)
                          \/ \E j \in Closes(c) : c.log[j].res = "restarts" /\ c.log[j].t <= x
      NotServed(e) == /\ ~StopLe(c, rT(e)) /\ ~ClosedLt(c, rT(e)) /\ rT(e) < c.end.now /\ ~InFlightMaybe(rT(e))
                      /\ ~(\E k \in Calls(c, {"connect", "close"}) : c.log[k].t = rT(e))
      ChainStart(k) == k \in Cn /\ c.log[k].res # "ctx"
                       /\ (\A q \in A : q < k => (\E i \in R : q <= i /\ i < k))       \* nothing but completed chains before it
                       /\ (\A i \in R : i < k => c.log[k].t > F(i))
      Unrequested(k) == ChainStart(k) /\ ~(\E e \in Poss : rT(e) = c.log[k].t)
  IN (IF \E i \in R : Lost(i) THEN {"queuedRestartLost"} ELSE {})
     \cup (IF \E i \in R : Spurious(i) THEN {"restartNotRequested"} ELSE {})
     \cup (IF \E e \in Sure : NotServed(e) THEN {"requestNotServed"} ELSE {})
     \cup (IF \E k \in Cn : Unrequested(k) THEN {"attemptNotRequested"} ELSE {})

Rules(c) ==
  IF c.err # "" THEN {[rule |-> "harness", sub |-> "error"]}
  ELSE {[rule |-> "C14.oneAtATime", sub |-> s] : s \in ROne(c)}
       \cup {[rule |-> "C14.queuedOnce", sub |-> s] : s \in RQueued(c)}
       \cup {[rule |-> "C14.bounded", sub |-> s] : s \in RBounded(c)}
       \cup {[rule |-> "C14.closeOnce", sub |-> s] : s \in RCloseOnce(c)}
       \cup {[rule |-> "C14.acceptTO", sub |-> s] : s \in RAccept(c)}
       \cup {[rule |-> "C14.completeTO", sub |-> s] : s \in RComplete(c)}
       \cup {[rule |-> "C14.forgets", sub |-> s] : s \in RForgets(c)}
       \cup {[rule |-> "C14.disabled", sub |-> s] : s \in RDisabled(c)}
       \cup (IF c.cfg.en /\ c.panic # "" THEN {[rule |-> "C14.panic", sub |-> "panic"]} ELSE {})

Verdicts == LET cs == Cases IN UNION {{[case |-> cs[n].case, rule |-> r.rule, sub |-> r.sub] : r \in Rules(cs[n])} : n \in Idx(cs)}

ASSUME ndJsonSerialize(OutFile, SetToSeq(Verdicts))
ASSUME PrintT(<<"@@judged", Len(Cases)>>)

(* ---- Part 2: trace validation against Mon ------------------------------------------------------------------------ *)
VARIABLE jc      \* the case being validated (the file is read once, in JInit)
jvars == <<jc, cfg, now, nev, nfail, finSent, shut, subd, listed, unsubgo, delgo, shgo, atimer, apc, cgo, cw, cclose, cdoclose,
           dbgo, dbArmed, dbDl, rcalls, inFlight, queued, consec, lp, h>>

ML == jc.mlog
Validatable(c) == c.err = "" /\ c.panic = "" /\ ~c.runaway

JInit == LET cs == Cases IN
           \E n \in Idx(cs) : /\ Validatable(cs[n])
                              /\ jc = [case |-> cs[n].case, mlog |-> cs[n].mlog, unsub |-> cs[n].end.unsub, listed |-> cs[n].end.listed]
                              /\ InitWith(cs[n].cfg)

(* time jumps to the next instant at which something can happen *)
JTick ==
  /\ ~Busy /\ now < cfg.hz /\ ~h.dumped
  /\ (Len(h.log) < Len(ML) => ML[Len(h.log) + 1].t > now)
  /\ now' = MinS({d \in Deadlines : d > now} \cup (IF Len(h.log) < Len(ML) THEN {ML[Len(h.log) + 1].t} ELSE {}) \cup {cfg.hz})
  /\ UNCHANGED <<jc, cfg, nev, nfail, finSent, shut, subd, listed, unsubgo, delgo, shgo, atimer, apc, cgo, cw, cclose, cdoclose,
                 dbgo, dbArmed, dbDl, rcalls, inFlight, queued, consec, lp, h>>

(* the only environment step worth trying is the next one of the observed history *)
JEnv == /\ Len(h.log) < Len(ML)
        /\ LET nx == ML[Len(h.log) + 1] IN
             /\ nx.call = "ev" /\ nx.t = now
             /\ (IF nx.code = "Shut" THEN EnvShut ELSE EnvEvent(nx.code, nx.st))
JStep == /\ ~h.dumped /\ (Internal \/ JEnv) /\ UNCHANGED jc
         /\ Len(h'.log) <= Len(ML) /\ h'.log = SubSeq(ML, 1, Len(h'.log))

JAccept ==
  /\ ~h.dumped /\ Len(h.log) = Len(ML) /\ now = cfg.hz /\ ~Busy
  /\ (cfg.en => (subd = ~jc.unsub /\ listed = jc.listed))
  /\ PrintT(<<"@@conf", jc.case>>)
  /\ h' = [h EXCEPT !.dumped = TRUE]
  /\ UNCHANGED <<jc, cfg, now, nev, nfail, finSent, shut, subd, listed, unsubgo, delgo, shgo, atimer, apc, cgo, cw, cclose, cdoclose,
                 dbgo, dbArmed, dbDl, rcalls, inFlight, queued, consec, lp>>

JNext == JStep \/ JTick \/ JAccept
JSpec == JInit /\ [][JNext]_jvars
=============================================================================

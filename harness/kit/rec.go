// Package kit holds the doubles, the projection from real objects to the abstract records of the
// TLA+ specifications, and the record seeding used by all conformance harnesses.
package kit

import (
	"bytes"
	"encoding/hex"
	"fmt"
	"sort"
	"strconv"
	"strings"
	"sync"

	datatransfer "github.com/filecoin-project/go-data-transfer/v2"
	"github.com/ipfs/go-cid"
	ipld "github.com/ipld/go-ipld-prime"
	"github.com/ipld/go-ipld-prime/codec/dagcbor"
	"github.com/ipld/go-ipld-prime/datamodel"
	"github.com/ipld/go-ipld-prime/fluent/qp"
	"github.com/ipld/go-ipld-prime/node/basicnode"
	"github.com/ipld/go-ipld-prime/node/bindnode"
	"github.com/ipld/go-ipld-prime/schema"
	peer "github.com/libp2p/go-libp2p/core/peer"
)

// Rec is the abstract channel record of spec/FSM.tla (raw, i.e. as persisted).
type Rec struct {
	Status   string   `json:"status"`
	Ip       bool     `json:"ip"`
	Rp       bool     `json:"rp"`
	Queued   uint64   `json:"queued"`
	Sent     uint64   `json:"sent"`
	Received uint64   `json:"received"`
	QIdx     int64    `json:"qIdx"`
	SIdx     int64    `json:"sIdx"`
	RIdx     int64    `json:"rIdx"`
	Limit    uint64   `json:"limit"`
	ReqFin   bool     `json:"reqFin"`
	Msg      string   `json:"msg"`
	Vouchers []string `json:"vouchers"`
	Results  []string `json:"results"`
}

// Ident is the immutable identity part of a channel.
type Ident struct {
	Self      string `json:"self"`
	Initiator string `json:"initiator"`
	Responder string `json:"responder"`
	Sender    string `json:"sender"`
	Recipient string `json:"recipient"`
	Tid       uint64 `json:"tid"`
	Base      string `json:"base"`
	Sel       string `json:"sel"`
}

// View is what the public ChannelState accessors report (projection of §4.1 of DESIGN.md).
type View struct {
	Rec
	Ident
	RpView     bool     `json:"rpView"`
	Both       bool     `json:"both"`
	SelfPaused bool     `json:"selfPaused"`
	IsPull     bool     `json:"isPull"`
	ChidI      string   `json:"chidI"`
	ChidR      string   `json:"chidR"`
	ChidT      uint64   `json:"chidT"`
	Other      string   `json:"other"`
	First      string   `json:"first"`
	LastV      string   `json:"lastV"`
	LastR      string   `json:"lastR"`
	Panics     []string `json:"panics"`
	Stages     int      `json:"stages"`
}

var statusByName = map[string]datatransfer.Status{}

func init() {
	for s, n := range datatransfer.Statuses {
		statusByName[n] = s
	}
}

func StatusName(s datatransfer.Status) string {
	if n, ok := datatransfer.Statuses[s]; ok {
		return n
	}
	return fmt.Sprintf("?%d", uint64(s))
}
func StatusOf(n string) datatransfer.Status { return statusByName[n] }

var eventByName = map[string]datatransfer.EventCode{}

func init() {
	for c, n := range datatransfer.Events {
		eventByName[n] = c
	}
}
func EventName(c datatransfer.EventCode) string {
	if n, ok := datatransfer.Events[c]; ok {
		return n
	}
	return fmt.Sprintf("?%d", int(c))
}

// ---- peers ---------------------------------------------------------------

var nameMu sync.RWMutex
var peerNames = map[peer.ID]string{}

// Peer returns the model peer called name ("A","B","X",...). Raw, short ids: the channel engine and
// the manager treat peer ids as opaque strings.
func Peer(name string) peer.ID {
	if name == "" {
		return peer.ID("")
	}
	p := peer.ID("peer" + name)
	nameMu.Lock()
	peerNames[p] = name
	nameMu.Unlock()
	return p
}

func RegisterPeer(p peer.ID, name string) { nameMu.Lock(); peerNames[p] = name; nameMu.Unlock() }

func PeerName(p peer.ID) string {
	if p == "" {
		return ""
	}
	nameMu.RLock()
	n, ok := peerNames[p]
	nameMu.RUnlock()
	if ok {
		return n
	}
	return "?" + p.String()
}

// ---- vouchers --------------------------------------------------------------

// Voucher builds the model voucher / voucher result called name. Names: v0..v9, r0..r9, optional
// "@type" suffix to override the type identifier. The IPLD value depends on the digit so that maps
// with non-canonical key order, lists, ints and bytes all occur.
func Voucher(name string) datatransfer.TypedVoucher {
	base, typ := name, ""
	if i := strings.IndexByte(name, '@'); i >= 0 {
		base, typ = name[:i], name[i+1:]
	}
	if typ == "" {
		if strings.HasPrefix(base, "r") {
			typ = "rt"
		} else {
			typ = "vt"
		}
	}
	var n datamodel.Node
	d := 0
	if len(base) > 1 {
		d = int(base[len(base)-1] - '0')
	}
	switch d % 7 {
	case 6:
		// a schema-typed node whose representation (tuple) differs from its type-level (map) form
		n = bindnode.Wrap(&typedVoucher{A: base, B: 7}, typedVoucherType)
	case 3:
		n, _ = qp.BuildMap(basicnode.Prototype.Any, 3, func(ma datamodel.MapAssembler) {
			qp.MapEntry(ma, "zz", qp.String(base))
			qp.MapEntry(ma, "b", qp.Int(1))
			qp.MapEntry(ma, "aaa", qp.Bool(true))
		})
	case 4:
		n, _ = qp.BuildList(basicnode.Prototype.Any, 2, func(la datamodel.ListAssembler) {
			qp.ListEntry(la, qp.String(base))
			qp.ListEntry(la, qp.Int(-7))
		})
	case 5:
		n = basicnode.NewBytes([]byte(base))
	default:
		n = basicnode.NewString(base)
	}
	return datatransfer.TypedVoucher{Type: datatransfer.TypeIdentifier(typ), Voucher: n}
}

type typedVoucher struct {
	A string
	B int64
}

var typedVoucherType = func() schema.Type {
	ts, err := ipld.LoadSchemaBytes([]byte("type TV struct { A String  B Int } representation tuple"))
	if err != nil {
		panic(err)
	}
	return ts.TypeByName("TV")
}()

var voucherNames = map[string]string{}

func voucherKey(t datatransfer.TypeIdentifier, n datamodel.Node) string {
	if n == nil {
		return string(t) + "|nil"
	}
	if tn, ok := n.(schema.TypedNode); ok {
		n = tn.Representation() // what is (and must be) persisted and sent
	}
	var buf bytes.Buffer
	if err := dagcbor.Encode(n, &buf); err != nil {
		return string(t) + "|err:" + err.Error()
	}
	return string(t) + "|" + hex.EncodeToString(buf.Bytes())
}

func init() {
	for _, p := range []string{"v", "r"} {
		for i := 0; i < 10; i++ {
			name := fmt.Sprintf("%s%d", p, i)
			tv := Voucher(name)
			voucherNames[voucherKey(tv.Type, tv.Voucher)] = name
			for _, ty := range []string{"vtB", "rtB"} {
				tv2 := Voucher(name + "@" + ty)
				voucherNames[voucherKey(tv2.Type, tv2.Voucher)] = name + "@" + ty
			}
		}
	}
}

// VoucherName maps a typed voucher back to its model name (or a canonical rendering).
func VoucherName(tv datatransfer.TypedVoucher) string {
	if tv.Voucher == nil && tv.Type == "" {
		return ""
	}
	k := voucherKey(tv.Type, tv.Voucher)
	if n, ok := voucherNames[k]; ok {
		return n
	}
	return "?" + k
}

func voucherNameFromNode(typ string, n datamodel.Node) string {
	k := voucherKey(datatransfer.TypeIdentifier(typ), n)
	if nm, ok := voucherNames[k]; ok {
		return nm
	}
	return "?" + k
}

// ---- CIDs / selectors ----------------------------------------------------------

var cidNames = map[string]string{}

func Cid(name string) cid.Cid {
	// identity-multihash raw cids: "bafkqaaa" is the empty identity cid; build distinct ones.
	// "x#cbor" is the SAME digest as "x" under another codec (dag-cbor instead of raw): a different CID that hashes the same bytes
	codec, base := uint64(cid.Raw), name
	if strings.HasSuffix(name, "#cbor") {
		codec, base = uint64(cid.DagCBOR), strings.TrimSuffix(name, "#cbor")
	}
	c, err := cid.V1Builder{Codec: codec, MhType: 0x00}.Sum([]byte("cid-" + base))
	if err != nil {
		panic(err)
	}
	nameMu.Lock()
	cidNames[c.String()] = name
	nameMu.Unlock()
	return c
}
func CidName(c cid.Cid) string {
	if !c.Defined() {
		return ""
	}
	nameMu.RLock()
	n, ok := cidNames[c.String()]
	nameMu.RUnlock()
	if ok {
		return n
	}
	return "?" + c.String()
}

func Selector(name string) datamodel.Node { return basicnode.NewString("sel-" + name) }
func SelectorName(n datamodel.Node) string {
	if n == nil {
		return ""
	}
	if n.Kind() == datamodel.Kind_String {
		s, _ := n.AsString()
		if strings.HasPrefix(s, "sel-") {
			return s[4:]
		}
	}
	var buf bytes.Buffer
	_ = dagcbor.Encode(n, &buf)
	return "?" + hex.EncodeToString(buf.Bytes())
}

// ---- raw records (decoded from datastore bytes, independent of channels/internal) ---------------

func nodeOf(b []byte) (datamodel.Node, error) {
	nb := basicnode.Prototype.Any.NewBuilder()
	if err := dagcbor.Decode(nb, bytes.NewReader(b)); err != nil {
		return nil, err
	}
	return nb.Build(), nil
}

func mustField(n datamodel.Node, k string) datamodel.Node {
	f, err := n.LookupByString(k)
	if err != nil {
		panic(fmt.Sprintf("record has no field %s", k))
	}
	return f
}
func fInt(n datamodel.Node, k string) int64   { v, _ := mustField(n, k).AsInt(); return v }
func fBool(n datamodel.Node, k string) bool   { v, _ := mustField(n, k).AsBool(); return v }
func fStr(n datamodel.Node, k string) string  { v, _ := mustField(n, k).AsString(); return v }
func fUint(n datamodel.Node, k string) uint64 { return uint64(fInt(n, k)) }

// RawFromBytes decodes a persisted v3 channel record.
func RawFromBytes(b []byte) (rec Rec, id Ident, stages int, err error) {
	defer func() {
		if r := recover(); r != nil {
			err = fmt.Errorf("decode record: %v", r)
		}
	}()
	n, err := nodeOf(b)
	if err != nil {
		return
	}
	rec.Status = StatusName(datatransfer.Status(fInt(n, "Status")))
	rec.Ip, rec.Rp = fBool(n, "InitiatorPaused"), fBool(n, "ResponderPaused")
	rec.Queued, rec.Sent, rec.Received = fUint(n, "Queued"), fUint(n, "Sent"), fUint(n, "Received")
	rec.QIdx, rec.SIdx, rec.RIdx = fInt(n, "QueuedBlocksTotal"), fInt(n, "SentBlocksTotal"), fInt(n, "ReceivedBlocksTotal")
	rec.Limit, rec.ReqFin, rec.Msg = fUint(n, "DataLimit"), fBool(n, "RequiresFinalization"), ShortMsg(fStr(n, "Message"))
	rec.Vouchers, rec.Results = []string{}, []string{}
	vs := mustField(n, "Vouchers")
	for it := vs.ListIterator(); it != nil && !it.Done(); {
		_, e, _ := it.Next()
		rec.Vouchers = append(rec.Vouchers, voucherNameFromNode(fStr(e, "Type"), mustField(e, "Voucher")))
	}
	rs := mustField(n, "VoucherResults")
	for it := rs.ListIterator(); it != nil && !it.Done(); {
		_, e, _ := it.Next()
		rec.Results = append(rec.Results, voucherNameFromNode(fStr(e, "Type"), mustField(e, "VoucherResult")))
	}
	id.Self = PeerName(peer.ID(fStr(n, "SelfPeer")))
	id.Initiator, id.Responder = PeerName(peer.ID(fStr(n, "Initiator"))), PeerName(peer.ID(fStr(n, "Responder")))
	id.Sender, id.Recipient = PeerName(peer.ID(fStr(n, "Sender"))), PeerName(peer.ID(fStr(n, "Recipient")))
	id.Tid = fUint(n, "TransferID")
	if l, e := mustField(n, "BaseCid").AsLink(); e == nil {
		nameMu.RLock()
		id.Base = cidNames[l.String()]
		nameMu.RUnlock()
		if id.Base == "" {
			id.Base = "?" + l.String()
		}
	}
	id.Sel = SelectorName(mustField(n, "Selector"))
	st := mustField(n, "Stages")
	if st.Kind() == datamodel.Kind_List && st.Length() > 0 {
		inner, _ := st.LookupByIndex(0)
		if inner != nil && inner.Kind() == datamodel.Kind_List {
			stages = int(inner.Length())
		}
	}
	return
}

// EditRecord re-encodes a persisted record with the mutable fields replaced by rec (and, if
// id != nil, the identity fields too). Every other field (Stages, TotalSize, ...) is kept.
func EditRecord(b []byte, rec Rec, id *Ident) ([]byte, error) {
	n, err := nodeOf(b)
	if err != nil {
		return nil, err
	}
	repl := map[string]func(datamodel.NodeAssembler) error{}
	setI := func(k string, v int64) { repl[k] = func(na datamodel.NodeAssembler) error { return na.AssignInt(v) } }
	setB := func(k string, v bool) { repl[k] = func(na datamodel.NodeAssembler) error { return na.AssignBool(v) } }
	setS := func(k string, v string) {
		repl[k] = func(na datamodel.NodeAssembler) error { return na.AssignString(v) }
	}
	setI("Status", int64(StatusOf(rec.Status)))
	setB("InitiatorPaused", rec.Ip)
	setB("ResponderPaused", rec.Rp)
	setI("Queued", int64(rec.Queued))
	setI("Sent", int64(rec.Sent))
	setI("Received", int64(rec.Received))
	setI("QueuedBlocksTotal", rec.QIdx)
	setI("SentBlocksTotal", rec.SIdx)
	setI("ReceivedBlocksTotal", rec.RIdx)
	setI("DataLimit", int64(rec.Limit))
	setB("RequiresFinalization", rec.ReqFin)
	setS("Message", rec.Msg)
	vlist := func(names []string, valKey string) func(datamodel.NodeAssembler) error {
		return func(na datamodel.NodeAssembler) error {
			la, err := na.BeginList(int64(len(names)))
			if err != nil {
				return err
			}
			for _, nm := range names {
				tv := Voucher(nm)
				ma, err := la.AssembleValue().BeginMap(2)
				if err != nil {
					return err
				}
				if err := ma.AssembleKey().AssignString("Type"); err != nil {
					return err
				}
				if err := ma.AssembleValue().AssignString(string(tv.Type)); err != nil {
					return err
				}
				if err := ma.AssembleKey().AssignString(valKey); err != nil {
					return err
				}
				if err := ma.AssembleValue().AssignNode(tv.Voucher); err != nil {
					return err
				}
				if err := ma.Finish(); err != nil {
					return err
				}
			}
			return la.Finish()
		}
	}
	repl["Vouchers"] = vlist(rec.Vouchers, "Voucher")
	repl["VoucherResults"] = vlist(rec.Results, "VoucherResult")
	if id != nil {
		setS("SelfPeer", string(Peer(id.Self)))
		setS("Initiator", string(Peer(id.Initiator)))
		setS("Responder", string(Peer(id.Responder)))
		setS("Sender", string(Peer(id.Sender)))
		setS("Recipient", string(Peer(id.Recipient)))
		setI("TransferID", int64(id.Tid))
	}
	nb := basicnode.Prototype.Map.NewBuilder()
	ma, err := nb.BeginMap(n.Length())
	if err != nil {
		return nil, err
	}
	keys := []string{}
	for it := n.MapIterator(); !it.Done(); {
		k, _, _ := it.Next()
		ks, _ := k.AsString()
		keys = append(keys, ks)
	}
	sort.Strings(keys)
	for _, ks := range keys {
		if err := ma.AssembleKey().AssignString(ks); err != nil {
			return nil, err
		}
		if f, ok := repl[ks]; ok {
			if err := f(ma.AssembleValue()); err != nil {
				return nil, err
			}
		} else {
			v, _ := n.LookupByString(ks)
			if err := ma.AssembleValue().AssignNode(v); err != nil {
				return nil, err
			}
		}
	}
	if err := ma.Finish(); err != nil {
		return nil, err
	}
	var buf bytes.Buffer
	if err := dagcbor.Encode(nb.Build(), &buf); err != nil {
		return nil, err
	}
	return buf.Bytes(), nil
}

// ---- projection through the public accessors ----------------------------------------------------

func try(name string, panics *[]string, f func()) {
	defer func() {
		if r := recover(); r != nil {
			*panics = append(*panics, fmt.Sprintf("%s: %v", name, r))
		}
	}()
	f()
}

// Project calls every accessor of the ChannelState interface under recover().
func Project(st datatransfer.ChannelState) View {
	v := View{Panics: []string{}}
	v.Vouchers, v.Results = []string{}, []string{}
	p := &v.Panics
	try("Status", p, func() { v.Status = StatusName(st.Status()) })
	try("InitiatorPaused", p, func() { v.Ip = st.InitiatorPaused() })
	try("ResponderPaused", p, func() { v.RpView = st.ResponderPaused(); v.Rp = v.RpView })
	try("BothPaused", p, func() { v.Both = st.BothPaused() })
	try("SelfPaused", p, func() { v.SelfPaused = st.SelfPaused() })
	try("Queued", p, func() { v.Queued = st.Queued() })
	try("Sent", p, func() { v.Sent = st.Sent() })
	try("Received", p, func() { v.Received = st.Received() })
	try("QueuedCidsTotal", p, func() { v.QIdx = st.QueuedCidsTotal() })
	try("SentCidsTotal", p, func() { v.SIdx = st.SentCidsTotal() })
	try("ReceivedCidsTotal", p, func() { v.RIdx = st.ReceivedCidsTotal() })
	try("DataLimit", p, func() { v.Limit = st.DataLimit() })
	try("RequiresFinalization", p, func() { v.ReqFin = st.RequiresFinalization() })
	try("Message", p, func() { v.Msg = ShortMsg(st.Message()) })
	try("Vouchers", p, func() {
		for _, tv := range st.Vouchers() {
			v.Vouchers = append(v.Vouchers, VoucherName(tv))
		}
	})
	try("VoucherResults", p, func() {
		for _, tv := range st.VoucherResults() {
			v.Results = append(v.Results, VoucherName(tv))
		}
	})
	try("Voucher", p, func() { v.First = VoucherName(st.Voucher()) })
	try("LastVoucher", p, func() { v.LastV = VoucherName(st.LastVoucher()) })
	try("LastVoucherResult", p, func() { v.LastR = VoucherName(st.LastVoucherResult()) })
	try("SelfPeer", p, func() { v.Self = PeerName(st.SelfPeer()) })
	try("OtherPeer", p, func() { v.Other = PeerName(st.OtherPeer()) })
	try("Sender", p, func() { v.Sender = PeerName(st.Sender()) })
	try("Recipient", p, func() { v.Recipient = PeerName(st.Recipient()) })
	try("IsPull", p, func() { v.IsPull = st.IsPull() })
	try("ChannelID", p, func() {
		c := st.ChannelID()
		v.ChidI, v.ChidR, v.ChidT = PeerName(c.Initiator), PeerName(c.Responder), uint64(c.ID)
		v.Initiator, v.Responder = v.ChidI, v.ChidR
	})
	try("TransferID", p, func() { v.Tid = uint64(st.TransferID()) })
	try("BaseCID", p, func() { v.Base = CidName(st.BaseCID()) })
	try("Selector", p, func() { v.Sel = SelectorName(st.Selector()) })
	try("TotalSize", p, func() { _ = st.TotalSize() })
	try("Stages", p, func() {
		s := st.Stages()
		if s != nil {
			v.Stages = len(s.Stages)
		}
	})
	return v
}

// Long texts (codec boundary inputs): an operation argument "@long:N" stands for a text of N bytes; wherever a message
// is projected for the judges, a text longer than 300 bytes is shown as "@long:<its length>".
func ExpandText(s string) string {
	if strings.HasPrefix(s, "@long:") {
		if n, err := strconv.Atoi(s[len("@long:"):]); err == nil && n >= 0 && n <= 1<<22 {
			return strings.Repeat("x", n)
		}
	}
	return s
}
func ShortMsg(s string) string {
	if len(s) > 300 {
		return "@long:" + strconv.Itoa(len(s))
	}
	return s
}

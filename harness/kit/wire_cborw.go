package kit

// Minimal, independent CBOR writer used by the C12 (wire format) check to render the abstract DAG-CBOR
// layout tabulated by spec/Wire.tla into expected bytes.  It deliberately shares no code with the library
// under test, go-ipld-prime's codecs or refmt: heads are written by hand (RFC 8949 §3, shortest form),
// map entries are written in exactly the order the tree lists them.

import (
	"encoding/hex"
	"fmt"
	"strconv"
	"strings"
)

// WNode is a node of the abstract tree: t in null,true,false,uint,nint,float,bytes,text,list,map,link.
//
//	uint: s = magnitude ("7", "2^63", "2^64-1")      nint: s = n for the value -n (n >= 1)
//	bytes/text: s = hex of the content                link: s = hex of the binary CID (without the 0x00 prefix)
//	float: s = hex of the IEEE-754 binary64
//	list: items                                       map: kv (key = plain text, in the order to be written)
type WNode struct {
	T     string  `json:"t"`
	S     string  `json:"s"`
	KV    []WKV   `json:"kv"`
	Items []WNode `json:"items"`
}

// WKV is one map entry.
type WKV struct {
	K string `json:"k"`
	V WNode  `json:"v"`
}

// WireUint parses the symbolic unsigned numbers of the specification: decimal, "2^k", "2^k-1".
func WireUint(s string) (uint64, error) {
	if !strings.HasPrefix(s, "2^") {
		return strconv.ParseUint(s, 10, 64)
	}
	e, minus := s[2:], uint64(0)
	if strings.HasSuffix(e, "-1") {
		e, minus = e[:len(e)-2], 1
	}
	k, err := strconv.Atoi(e)
	if err != nil || k < 0 || k > 64 || (k == 64 && minus == 0) {
		return 0, fmt.Errorf("bad symbolic uint %q", s)
	}
	if k == 64 {
		return ^uint64(0), nil
	}
	return uint64(1)<<uint(k) - minus, nil
}

func cborHead(b []byte, major byte, n uint64) []byte {
	m := major << 5
	switch {
	case n < 24:
		return append(b, m|byte(n))
	case n < 1<<8:
		return append(b, m|24, byte(n))
	case n < 1<<16:
		return append(b, m|25, byte(n>>8), byte(n))
	case n < 1<<32:
		return append(b, m|26, byte(n>>24), byte(n>>16), byte(n>>8), byte(n))
	}
	return append(b, m|27, byte(n>>56), byte(n>>48), byte(n>>40), byte(n>>32), byte(n>>24), byte(n>>16), byte(n>>8), byte(n))
}

// WireAppend appends the CBOR encoding of n to b.
func WireAppend(b []byte, n WNode) ([]byte, error) {
	switch n.T {
	case "null":
		return append(b, 0xf6), nil
	case "true":
		return append(b, 0xf5), nil
	case "false":
		return append(b, 0xf4), nil
	case "uint":
		u, err := WireUint(n.S)
		return cborHead(b, 0, u), err
	case "nint":
		u, err := WireUint(n.S)
		if err != nil || u == 0 {
			return b, fmt.Errorf("bad nint %q", n.S)
		}
		return cborHead(b, 1, u-1), nil
	case "bytes", "text", "link", "float":
		c, err := hex.DecodeString(n.S)
		if err != nil || (n.T == "float" && len(c) != 8) {
			return b, fmt.Errorf("bad %s content %q", n.T, n.S)
		}
		switch n.T {
		case "float": // DAG-CBOR: always binary64
			b = append(b, 0xfb)
		case "bytes":
			b = cborHead(b, 2, uint64(len(c)))
		case "text":
			b = cborHead(b, 3, uint64(len(c)))
		default: // tag 42, byte string = 0x00 (identity multibase) + binary cid
			b = cborHead(cborHead(b, 6, 42), 2, uint64(len(c)+1))
			b = append(b, 0)
		}
		return append(b, c...), nil
	case "list":
		b = cborHead(b, 4, uint64(len(n.Items)))
		for _, it := range n.Items {
			var err error
			if b, err = WireAppend(b, it); err != nil {
				return b, err
			}
		}
		return b, nil
	case "map":
		b = cborHead(b, 5, uint64(len(n.KV)))
		for _, e := range n.KV {
			var err error
			b = append(cborHead(b, 3, uint64(len(e.K))), e.K...)
			if b, err = WireAppend(b, e.V); err != nil {
				return b, err
			}
		}
		return b, nil
	}
	return b, fmt.Errorf("unknown node type %q", n.T)
}

// WireRender renders the tree to bytes.
func WireRender(n WNode) ([]byte, error) { return WireAppend(nil, n) }

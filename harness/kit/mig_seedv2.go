package kit

// Helpers for C13 (datastore schema migration v2 -> v3): version-2 channel records built FIELD BY FIELD
// from the abstract record of spec/Mig.tla and the field names of migrations.ChannelStateV2 with
// go-ipld-prime basicnode + dagcbor (no library-produced template, no migrations_cbor_gen.go), a gate /
// fault datastore wrapper, an un-started ChanNode, and the structural stage-log projections.

import (
	"bytes"
	"context"
	"encoding/hex"
	"errors"
	"fmt"
	"strings"
	"sync"

	datatransfer "github.com/filecoin-project/go-data-transfer/v2"
	"github.com/filecoin-project/go-data-transfer/v2/channels"
	versioning "github.com/filecoin-project/go-ds-versioning/pkg"
	"github.com/ipfs/go-datastore"
	"github.com/ipfs/go-datastore/query"
	"github.com/ipld/go-ipld-prime/codec/dagcbor"
	"github.com/ipld/go-ipld-prime/datamodel"
	cidlink "github.com/ipld/go-ipld-prime/linking/cid"
	"github.com/ipld/go-ipld-prime/node/basicnode"
	peer "github.com/libp2p/go-libp2p/core/peer"
)

// V2Rec is the abstract version-2 record of spec/Mig.tla (no pause flags; stage-log class; total size).
type V2Rec struct {
	Status    string   `json:"status"`
	Queued    uint64   `json:"queued"`
	Sent      uint64   `json:"sent"`
	Received  uint64   `json:"received"`
	QIdx      int64    `json:"qIdx"`
	SIdx      int64    `json:"sIdx"`
	RIdx      int64    `json:"rIdx"`
	Limit     uint64   `json:"limit"`
	ReqFin    bool     `json:"reqFin"`
	Msg       string   `json:"msg"`
	Vouchers  []string `json:"vouchers"`
	Results   []string `json:"results"`
	Stages    string   `json:"stages"` // none | one | three
	TotalSize uint64   `json:"totalSize"`
}

type MigLog struct {
	Log     string `json:"log"`
	Updated int64  `json:"updated"`
}
type MigStage struct {
	Name    string   `json:"name"`
	Desc    string   `json:"desc"`
	Created int64    `json:"created"`
	Updated int64    `json:"updated"`
	Logs    []MigLog `json:"logs"`
}

// MigPeer is kit.Peer except for the model peer "N", whose id is not valid UTF-8.
func MigPeer(name string) peer.ID {
	if name == "N" {
		p := peer.ID("\xffpeer\xfe\x80N")
		RegisterPeer(p, "N")
		return p
	}
	return Peer(name)
}

func MigChid(id Ident) datatransfer.ChannelID {
	return datatransfer.ChannelID{Initiator: MigPeer(id.Initiator), Responder: MigPeer(id.Responder), ID: datatransfer.TransferID(id.Tid)}
}

func V2Key(chid datatransfer.ChannelID) string { return "/2/" + chid.String() }

const VersionKey = "/versions/current"

// MigSelector: "q" is a map-valued selector (shape of the explore-all selector), anything else kit.Selector.
func MigSelector(name string) datamodel.Node {
	if name != "q" {
		return Selector(name)
	}
	nb := basicnode.Prototype.Map.NewBuilder()
	ma, _ := nb.BeginMap(1)
	_ = ma.AssembleKey().AssignString("R")
	inner, _ := ma.AssembleValue().BeginMap(2)
	_ = inner.AssembleKey().AssignString("l")
	lim, _ := inner.AssembleValue().BeginMap(1)
	_ = lim.AssembleKey().AssignString("none")
	em, _ := lim.AssembleValue().BeginMap(0)
	_ = em.Finish()
	_ = lim.Finish()
	_ = inner.AssembleKey().AssignString(":>")
	seq, _ := inner.AssembleValue().BeginMap(1)
	_ = seq.AssembleKey().AssignString("a")
	all, _ := seq.AssembleValue().BeginMap(1)
	_ = all.AssembleKey().AssignString(">")
	edge, _ := all.AssembleValue().BeginMap(1)
	_ = edge.AssembleKey().AssignString("@")
	em2, _ := edge.AssembleValue().BeginMap(0)
	_ = em2.Finish()
	_ = edge.Finish()
	_ = all.Finish()
	_ = seq.Finish()
	_ = inner.Finish()
	_ = ma.Finish()
	return nb.Build()
}

var migSelQ string

func init() {
	var buf bytes.Buffer
	_ = dagcbor.Encode(MigSelector("q"), &buf)
	migSelQ = "?" + hex.EncodeToString(buf.Bytes())
}

// MigSelName post-processes kit.SelectorName's rendering.
func MigSelName(s string) string {
	if s == migSelQ {
		return "q"
	}
	return s
}

type migKV struct {
	k string
	f func(datamodel.NodeAssembler) error
}

func migBuildMap(na datamodel.NodeAssembler, ents []migKV) error {
	ma, err := na.BeginMap(int64(len(ents)))
	if err != nil {
		return err
	}
	for _, e := range ents {
		if err := ma.AssembleKey().AssignString(e.k); err != nil {
			return err
		}
		if err := e.f(ma.AssembleValue()); err != nil {
			return fmt.Errorf("field %s: %w", e.k, err)
		}
	}
	return ma.Finish()
}

func migInt(v int64) func(datamodel.NodeAssembler) error {
	return func(na datamodel.NodeAssembler) error { return na.AssignInt(v) }
}
func migStr(v string) func(datamodel.NodeAssembler) error {
	return func(na datamodel.NodeAssembler) error { return na.AssignString(v) }
}
func migBool(v bool) func(datamodel.NodeAssembler) error {
	return func(na datamodel.NodeAssembler) error { return na.AssignBool(v) }
}
func migNode(n datamodel.Node) func(datamodel.NodeAssembler) error {
	return func(na datamodel.NodeAssembler) error { return na.AssignNode(n) }
}

func migVouchers(names []string, valKey string) func(datamodel.NodeAssembler) error {
	return func(na datamodel.NodeAssembler) error {
		la, err := na.BeginList(int64(len(names)))
		if err != nil {
			return err
		}
		for _, nm := range names {
			tv := Voucher(nm)
			if err := migBuildMap(la.AssembleValue(), []migKV{{"Type", migStr(string(tv.Type))}, {valKey, migNode(tv.Voucher)}}); err != nil {
				return err
			}
		}
		return la.Finish()
	}
}

// tuple encodings of datatransfer.ChannelStages / ChannelStage / Log (types_cbor_gen.go is tuple-encoded):
// ChannelStages = [ [stage...] ] ; stage = [Name, Description, CreatedTime(ns), UpdatedTime(ns), [log...]] ; log = [Log, UpdatedTime(ns)]
func migStages(class string, stages []MigStage) func(datamodel.NodeAssembler) error {
	return func(na datamodel.NodeAssembler) error {
		if class == "none" {
			return na.AssignNull()
		}
		outer, err := na.BeginList(1)
		if err != nil {
			return err
		}
		la, err := outer.AssembleValue().BeginList(int64(len(stages)))
		if err != nil {
			return err
		}
		for _, s := range stages {
			sa, err := la.AssembleValue().BeginList(5)
			if err != nil {
				return err
			}
			_ = sa.AssembleValue().AssignString(s.Name)
			_ = sa.AssembleValue().AssignString(s.Desc)
			_ = sa.AssembleValue().AssignInt(s.Created)
			_ = sa.AssembleValue().AssignInt(s.Updated)
			ll, err := sa.AssembleValue().BeginList(int64(len(s.Logs)))
			if err != nil {
				return err
			}
			for _, l := range s.Logs {
				lg, err := ll.AssembleValue().BeginList(2)
				if err != nil {
					return err
				}
				_ = lg.AssembleValue().AssignString(l.Log)
				_ = lg.AssembleValue().AssignInt(l.Updated)
				if err := lg.Finish(); err != nil {
					return err
				}
			}
			if err := ll.Finish(); err != nil {
				return err
			}
			if err := sa.Finish(); err != nil {
				return err
			}
		}
		if err := la.Finish(); err != nil {
			return err
		}
		return outer.Finish()
	}
}

// BuildV2Record encodes one migrations.ChannelStateV2 record (map encoding, the struct's field names).
func BuildV2Record(id Ident, r V2Rec, stages []MigStage) ([]byte, error) {
	ents := []migKV{
		{"SelfPeer", migStr(string(MigPeer(id.Self)))},
		{"TransferID", migInt(int64(id.Tid))},
		{"Initiator", migStr(string(MigPeer(id.Initiator)))},
		{"Responder", migStr(string(MigPeer(id.Responder)))},
		{"BaseCid", func(na datamodel.NodeAssembler) error { return na.AssignLink(cidlink.Link{Cid: Cid(id.Base)}) }},
		{"Selector", migNode(MigSelector(id.Sel))},
		{"Sender", migStr(string(MigPeer(id.Sender)))},
		{"Recipient", migStr(string(MigPeer(id.Recipient)))},
		{"TotalSize", migInt(int64(r.TotalSize))},
		{"Status", migInt(PublishedStatusCode[r.Status])},
		{"Queued", migInt(int64(r.Queued))},
		{"Sent", migInt(int64(r.Sent))},
		{"Received", migInt(int64(r.Received))},
		{"Message", migStr(r.Msg)},
		{"Vouchers", migVouchers(r.Vouchers, "Voucher")},
		{"VoucherResults", migVouchers(r.Results, "VoucherResult")},
		{"ReceivedBlocksTotal", migInt(r.RIdx)},
		{"QueuedBlocksTotal", migInt(r.QIdx)},
		{"SentBlocksTotal", migInt(r.SIdx)},
		{"DataLimit", migInt(int64(r.Limit))},
		{"RequiresFinalization", migBool(r.ReqFin)},
		{"Stages", migStages(r.Stages, stages)},
	}
	if _, ok := PublishedStatusCode[r.Status]; !ok {
		return nil, fmt.Errorf("unknown status %q", r.Status)
	}
	nb := basicnode.Prototype.Map.NewBuilder()
	if err := migBuildMap(nb, ents); err != nil {
		return nil, err
	}
	var buf bytes.Buffer
	if err := dagcbor.Encode(nb.Build(), &buf); err != nil {
		return nil, err
	}
	return buf.Bytes(), nil
}

// ---- stage logs, structurally ------------------------------------------------------------------

// StagesOfState projects the stage log through the public accessor.
func StagesOfState(st datatransfer.ChannelState) (out []MigStage, panicked string) {
	out = []MigStage{}
	defer func() {
		if r := recover(); r != nil {
			panicked = fmt.Sprint(r)
		}
	}()
	s := st.Stages()
	if s == nil {
		return
	}
	for _, g := range s.Stages {
		if g == nil {
			out = append(out, MigStage{Name: "<nil>", Logs: []MigLog{}})
			continue
		}
		m := MigStage{Name: g.Name, Desc: g.Description, Created: g.CreatedTime.Time().UnixNano(), Updated: g.UpdatedTime.Time().UnixNano(), Logs: []MigLog{}}
		for _, l := range g.Logs {
			if l == nil {
				m.Logs = append(m.Logs, MigLog{Log: "<nil>"})
				continue
			}
			m.Logs = append(m.Logs, MigLog{Log: l.Log, Updated: l.UpdatedTime.Time().UnixNano()})
		}
		out = append(out, m)
	}
	return
}

// RawExtra decodes what kit.RawFromBytes leaves out of a persisted v3 record: the stage log
// (structurally; absent = CBOR null), TotalSize, and the sorted field names.
type RawExtra struct {
	Stages    []MigStage `json:"stages"`
	StagesNil bool       `json:"stagesNil"`
	TotalSize uint64     `json:"totalSize"`
	Fields    []string   `json:"fields"`
}

func RawExtraFromBytes(b []byte) (x RawExtra, err error) {
	x.Stages, x.Fields = []MigStage{}, []string{}
	defer func() {
		if r := recover(); r != nil {
			err = fmt.Errorf("decode record extras: %v", r)
		}
	}()
	n, err := nodeOf(b)
	if err != nil {
		return
	}
	for it := n.MapIterator(); !it.Done(); {
		k, _, _ := it.Next()
		ks, _ := k.AsString()
		x.Fields = append(x.Fields, ks)
	}
	x.TotalSize = fUint(n, "TotalSize")
	st := mustField(n, "Stages")
	if st.IsNull() {
		x.StagesNil = true
		return
	}
	inner, e := st.LookupByIndex(0)
	if e != nil {
		panic(e)
	}
	for it := inner.ListIterator(); !it.Done(); {
		_, g, _ := it.Next()
		at := func(i int64) datamodel.Node { v, e := g.LookupByIndex(i); _ = e; return v }
		m := MigStage{Logs: []MigLog{}}
		m.Name, _ = at(0).AsString()
		m.Desc, _ = at(1).AsString()
		m.Created, _ = at(2).AsInt()
		m.Updated, _ = at(3).AsInt()
		for lt := at(4).ListIterator(); !lt.Done(); {
			_, l, _ := lt.Next()
			var ml MigLog
			a, _ := l.LookupByIndex(0)
			ml.Log, _ = a.AsString()
			u, _ := l.LookupByIndex(1)
			ml.Updated, _ = u.AsInt()
			m.Logs = append(m.Logs, ml)
		}
		x.Stages = append(x.Stages, m)
	}
	return
}

// ---- gate / fault datastore ---------------------------------------------------------------------

// GateDS wraps a RecDS. After Arm(), the next Query parks until Release() (so a migration can be held
// in the middle of Start); FailQuery, if set, is returned by every Query after Arm().
type GateDS struct {
	*RecDS
	mu        sync.Mutex
	armed     bool
	hold      bool
	held      bool
	FailQuery error
	Arrived   chan struct{}
	release   chan struct{}
	Queries   int // number of Query calls seen (any phase)
}

func NewGateDS(rec *RecDS) *GateDS {
	return &GateDS{RecDS: rec, Arrived: make(chan struct{}), release: make(chan struct{})}
}

// Arm is called immediately before Start; hold = park the first Query after this point.
func (g *GateDS) Arm(hold bool) { g.mu.Lock(); g.armed, g.hold = true, hold; g.mu.Unlock() }
func (g *GateDS) Release()      { close(g.release) }
func (g *GateDS) NQueries() int { g.mu.Lock(); defer g.mu.Unlock(); return g.Queries }

func (g *GateDS) Query(ctx context.Context, q query.Query) (query.Results, error) {
	g.mu.Lock()
	g.Queries++
	park := g.armed && g.hold && !g.held
	if park {
		g.held = true
	}
	fail := g.FailQuery
	armed := g.armed
	g.mu.Unlock()
	if park {
		close(g.Arrived)
		<-g.release
	}
	if armed && fail != nil {
		return nil, fail
	}
	return g.RecDS.Query(ctx, q)
}

func (g *GateDS) Batch(ctx context.Context) (datastore.Batch, error) {
	return datastore.NewBasicBatch(g), nil
}

var _ datastore.Batching = (*GateDS)(nil)

// NewChanNodeOn builds a ChanNode whose real channels.Channels sits on ds (a wrapper of rec) and is NOT started.
func NewChanNodeOn(self string, rec *RecDS, ds datastore.Batching) (*ChanNode, error) {
	n := &ChanNode{Self: self, DS: rec, Env: &Env{Self: Peer(self)}}
	ch, err := channels.New(ds, n.notify, n.Env, Peer(self))
	if err != nil {
		return nil, err
	}
	n.Ch = ch
	return n, nil
}

// MigErrClass: nil | notready | migerr | notfound | other:<text>
func MigErrClass(err error) string {
	if err == nil {
		return "nil"
	}
	if errors.Is(err, versioning.ErrMigrationsNotRun) {
		return "notready"
	}
	if strings.Contains(err.Error(), "Error migrating database") {
		return "migerr"
	}
	var nf *channels.ErrNotFound
	if errors.As(err, &nf) || errors.Is(err, datatransfer.ErrChannelNotFound) {
		return "notfound"
	}
	return "other"
}

// Under returns the entries of img whose key starts with prefix.
func Under(img map[string][]byte, prefix string) map[string][]byte {
	out := map[string][]byte{}
	for k, v := range img {
		if strings.HasPrefix(k, prefix) {
			out[k] = v
		}
	}
	return out
}

// DiffKeys lists the keys whose bytes differ between two images (added, removed or changed), sorted.
func DiffKeys(a, b map[string][]byte) []string {
	out := []string{}
	for k, v := range a {
		if w, ok := b[k]; !ok || !bytes.Equal(v, w) {
			out = append(out, k)
		}
	}
	for k := range b {
		if _, ok := a[k]; !ok {
			out = append(out, k)
		}
	}
	migSortStrings(out)
	return out
}

func migSortStrings(s []string) {
	for i := 1; i < len(s); i++ {
		for j := i; j > 0 && s[j] < s[j-1]; j-- {
			s[j], s[j-1] = s[j-1], s[j]
		}
	}
}

// PublishedStatusCode: the numbers under which the statuses are STORED by released builds (the order of the constants in statuses.go at the
// pinned commit). A version-2 datastore was written by such a build, so its records are seeded with these numbers - not with whatever the
// library under test currently calls datatransfer.<Status> (a renumbering must not go unnoticed).
var PublishedStatusCode = map[string]int64{
	"Requested": 0, "Ongoing": 1, "TransferFinished": 2, "ResponderCompleted": 3, "Finalizing": 4, "Completing": 5, "Completed": 6,
	"Failing": 7, "Failed": 8, "Cancelling": 9, "Cancelled": 10, "InitiatorPaused": 11, "ResponderPaused": 12, "BothPaused": 13,
	"ResponderFinalizing": 14, "ResponderFinalizingTransferFinished": 15, "ChannelNotFoundError": 16, "Queued": 17, "AwaitingAcceptance": 18,
}

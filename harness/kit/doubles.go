package kit

import (
	"context"
	"sync"

	datatransfer "github.com/filecoin-project/go-data-transfer/v2"
	"github.com/ipfs/go-datastore"
	"github.com/ipfs/go-datastore/query"
	peer "github.com/libp2p/go-libp2p/core/peer"
)

// ---- Tracer: one sequence-numbered log shared by the doubles of a node ----------------------------

type Line map[string]interface{}

type Tracer struct {
	mu    sync.Mutex
	seq   int
	Lines []Line
}

func (t *Tracer) Emit(l Line) {
	if t == nil {
		return
	}
	t.mu.Lock()
	t.seq++
	l["seq"] = t.seq
	t.Lines = append(t.Lines, l)
	t.mu.Unlock()
}

func (t *Tracer) Len() int {
	t.mu.Lock()
	defer t.mu.Unlock()
	return len(t.Lines)
}

func (t *Tracer) Since(n int) []Line {
	t.mu.Lock()
	defer t.mu.Unlock()
	out := make([]Line, len(t.Lines)-n)
	copy(out, t.Lines[n:])
	return out
}

// ---- Env: channels.ChannelEnvironment double -------------------------------------------------------

type EnvCall struct {
	Call string `json:"call"` // cleanup | protect | unprotect
	Chid string `json:"chid"`
	Peer string `json:"peer"`
}

type Env struct {
	Self  peer.ID
	mu    sync.Mutex
	Calls []EnvCall
	// Gate, if set, is called (outside the mutex) before a call is recorded; a blocking gate parks the
	// FSM handler goroutine at that point.
	Gate func(call string, chid string)
}

func (e *Env) rec(call, chid, p string) {
	if g := e.Gate; g != nil {
		g(call, chid)
	}
	e.mu.Lock()
	e.Calls = append(e.Calls, EnvCall{call, chid, p})
	e.mu.Unlock()
}
func (e *Env) Protect(id peer.ID, tag string) { e.rec("protect", tag, PeerName(id)) }
func (e *Env) Unprotect(id peer.ID, tag string) bool {
	e.rec("unprotect", tag, PeerName(id))
	return false
}
func (e *Env) ID() peer.ID { return e.Self }
func (e *Env) CleanupChannel(chid datatransfer.ChannelID) {
	e.rec("cleanup", chid.String(), "")
}
func (e *Env) Count(call, chid string) int {
	e.mu.Lock()
	defer e.mu.Unlock()
	n := 0
	for _, c := range e.Calls {
		if c.Call == call && c.Chid == chid {
			n++
		}
	}
	return n
}
func (e *Env) Total() int {
	e.mu.Lock()
	defer e.mu.Unlock()
	return len(e.Calls)
}
func (e *Env) CallsSince(n int) []EnvCall {
	e.mu.Lock()
	defer e.mu.Unlock()
	out := make([]EnvCall, len(e.Calls)-n)
	copy(out, e.Calls[n:])
	return out
}

// ---- RecDS: recording datastore --------------------------------------------------------------------

type DSWrite struct {
	Seq   int
	Key   string
	Value []byte // nil for delete
}

// RecDS is a datastore.Batching that logs every write with a sequence number taken under its mutex
// and can hand out a copy of its content as of any write boundary (a crash image).
type RecDS struct {
	mu     sync.Mutex
	m      map[string][]byte
	Writes []DSWrite
	// OnPut, if set, is called under the mutex after the write was applied.
	OnPut func(w DSWrite)
}

func NewRecDS() *RecDS { return &RecDS{m: map[string][]byte{}} }

// NewRecDSFrom creates a store holding a copy of img.
func NewRecDSFrom(img map[string][]byte) *RecDS {
	d := NewRecDS()
	for k, v := range img {
		d.m[k] = append([]byte(nil), v...)
	}
	return d
}

func (d *RecDS) Get(ctx context.Context, key datastore.Key) ([]byte, error) {
	d.mu.Lock()
	defer d.mu.Unlock()
	v, ok := d.m[key.String()]
	if !ok {
		return nil, datastore.ErrNotFound
	}
	return append([]byte(nil), v...), nil
}
func (d *RecDS) Has(ctx context.Context, key datastore.Key) (bool, error) {
	d.mu.Lock()
	defer d.mu.Unlock()
	_, ok := d.m[key.String()]
	return ok, nil
}
func (d *RecDS) GetSize(ctx context.Context, key datastore.Key) (int, error) {
	d.mu.Lock()
	defer d.mu.Unlock()
	v, ok := d.m[key.String()]
	if !ok {
		return -1, datastore.ErrNotFound
	}
	return len(v), nil
}
func (d *RecDS) Query(ctx context.Context, q query.Query) (query.Results, error) {
	d.mu.Lock()
	es := make([]query.Entry, 0, len(d.m))
	for k, v := range d.m {
		es = append(es, query.Entry{Key: k, Value: append([]byte(nil), v...), Size: len(v)})
	}
	d.mu.Unlock()
	r := query.ResultsWithEntries(q, es)
	r = query.NaiveQueryApply(q, r)
	return r, nil
}
func (d *RecDS) Put(ctx context.Context, key datastore.Key, value []byte) error {
	d.mu.Lock()
	defer d.mu.Unlock()
	v := append([]byte(nil), value...)
	d.m[key.String()] = v
	w := DSWrite{Seq: len(d.Writes) + 1, Key: key.String(), Value: v}
	d.Writes = append(d.Writes, w)
	if d.OnPut != nil {
		d.OnPut(w)
	}
	return nil
}
func (d *RecDS) Delete(ctx context.Context, key datastore.Key) error {
	d.mu.Lock()
	defer d.mu.Unlock()
	delete(d.m, key.String())
	d.Writes = append(d.Writes, DSWrite{Seq: len(d.Writes) + 1, Key: key.String()})
	return nil
}
func (d *RecDS) Sync(ctx context.Context, prefix datastore.Key) error { return nil }
func (d *RecDS) Close() error                                         { return nil }
func (d *RecDS) Batch(ctx context.Context) (datastore.Batch, error) {
	return datastore.NewBasicBatch(d), nil
}

// Raw returns the stored bytes under key (nil if absent).
func (d *RecDS) Raw(key string) []byte {
	d.mu.Lock()
	defer d.mu.Unlock()
	v, ok := d.m[key]
	if !ok {
		return nil
	}
	return append([]byte(nil), v...)
}

// Poke overwrites a value without logging it (used for seeding).
func (d *RecDS) Poke(key string, v []byte) {
	d.mu.Lock()
	d.m[key] = append([]byte(nil), v...)
	d.mu.Unlock()
}

// Snapshot copies the current content.
func (d *RecDS) Snapshot() map[string][]byte {
	d.mu.Lock()
	defer d.mu.Unlock()
	out := make(map[string][]byte, len(d.m))
	for k, v := range d.m {
		out[k] = append([]byte(nil), v...)
	}
	return out
}

// ImageAt rebuilds the content as of write number n (0 = base image given).
func (d *RecDS) ImageAt(base map[string][]byte, n int) map[string][]byte {
	d.mu.Lock()
	defer d.mu.Unlock()
	out := make(map[string][]byte, len(base))
	for k, v := range base {
		out[k] = v
	}
	for _, w := range d.Writes {
		if w.Seq > n {
			break
		}
		if w.Value == nil {
			delete(out, w.Key)
		} else {
			out[w.Key] = w.Value
		}
	}
	return out
}

func (d *RecDS) NWrites() int {
	d.mu.Lock()
	defer d.mu.Unlock()
	return len(d.Writes)
}

func (d *RecDS) WritesSince(n int) []DSWrite {
	d.mu.Lock()
	defer d.mu.Unlock()
	out := make([]DSWrite, len(d.Writes)-n)
	copy(out, d.Writes[n:])
	return out
}

var _ datastore.Batching = (*RecDS)(nil)

package kit

// Doubles for driving the REAL transport/graphsync.Transport (property C16 and the GsT parts of C09/C10):
//   GstFakeGS  - thread-safe graphsync.GraphExchange: call log, hook registry, scripted results, gates
//   GstEvents  - thread-safe recording datatransfer.EventsHandler with scripted return values
//   GstAttrib  - attribution of calls to the driver's invocation (by goroutine id) + one global sequence
// All identifiers carry the prefix Gst.

import (
	"context"
	"errors"
	"fmt"
	"runtime"
	"strconv"
	"strings"
	"sync"
	"sync/atomic"
	"time"

	"github.com/ipfs/go-cid"
	"github.com/ipfs/go-graphsync"
	"github.com/ipld/go-ipld-prime"
	"github.com/ipld/go-ipld-prime/datamodel"
	cidlink "github.com/ipld/go-ipld-prime/linking/cid"
	"github.com/ipld/go-ipld-prime/node/basicnode"
	"github.com/ipld/go-ipld-prime/traversal"
	"github.com/libp2p/go-libp2p/core/peer"

	datatransfer "github.com/filecoin-project/go-data-transfer/v2"
	"github.com/filecoin-project/go-data-transfer/v2/message"
	"github.com/filecoin-project/go-data-transfer/v2/transport/graphsync/extension"
)

// ---- abstract values ---------------------------------------------------------------------------------

// GstChid is the abstract channel id (peer names S, P, Q, ...).
type GstChid struct {
	Init string `json:"init"`
	Resp string `json:"resp"`
	Tid  int64  `json:"tid"`
}

func GstChidOf(c datatransfer.ChannelID) GstChid {
	return GstChid{Init: PeerName(c.Initiator), Resp: PeerName(c.Responder), Tid: int64(c.ID)}
}
func (c GstChid) Real() datatransfer.ChannelID {
	return datatransfer.ChannelID{Initiator: Peer(c.Init), Responder: Peer(c.Resp), ID: datatransfer.TransferID(c.Tid)}
}
func (c GstChid) IsZero() bool { return c.Init == "" && c.Resp == "" && c.Tid == 0 }

// GstOptName is the persistence option name the adapter must use for a channel.
func GstOptName(c GstChid) string { return "data-transfer-" + c.Real().String() }

var GstHandlerErr = errors.New("gst: scripted handler error")
var GstGsErr = errors.New("gst: scripted graphsync error")

// GstErrClass maps errors to the classes used by GsT.tla.
func GstErrClass(err error) string {
	switch {
	case err == nil:
		return "nil"
	case errors.Is(err, datatransfer.ErrPause):
		return "pause"
	case errors.Is(err, GstHandlerErr):
		return "handler"
	case errors.Is(err, GstGsErr):
		return "gs"
	case errors.Is(err, datatransfer.ErrChannelNotFound):
		return "notfound"
	case errors.Is(err, context.Canceled), errors.Is(err, context.DeadlineExceeded):
		return "ctx"
	}
	s := err.Error()
	switch {
	case strings.Contains(s, "received request on response channel"), strings.Contains(s, "received response on request channel"):
		return "role"
	case strings.Contains(s, "already registered"):
		return "dupopt"
	}
	return "other"
}

func gstExtShort(n graphsync.ExtensionName) string {
	switch n {
	case extension.ExtensionDataTransfer1_1:
		return "dt"
	case extension.ExtensionIncomingRequest1_1:
		return "inreq"
	case extension.ExtensionOutgoingBlock1_1:
		return "outblk"
	case graphsync.ExtensionsDoNotSendFirstBlocks:
		return "dnsfb"
	}
	return string(n)
}

// GstExtName is the inverse of the short names used in scripts.
func GstExtName(short string) graphsync.ExtensionName {
	switch short {
	case "dt":
		return extension.ExtensionDataTransfer1_1
	case "inreq":
		return extension.ExtensionIncomingRequest1_1
	case "outblk":
		return extension.ExtensionOutgoingBlock1_1
	case "dnsfb":
		return graphsync.ExtensionsDoNotSendFirstBlocks
	}
	return graphsync.ExtensionName(short)
}

// gstExtN: the number identifying the payload of an extension: transfer id of the data-transfer
// message, the count of do-not-send-first-blocks, -1 when it does not decode.
func gstExtN(e graphsync.ExtensionData) int64 {
	if e.Name == graphsync.ExtensionsDoNotSendFirstBlocks {
		if v, err := e.Data.AsInt(); err == nil {
			return v
		}
		return -1
	}
	m, err := message.FromIPLD(e.Data)
	if err != nil || m == nil {
		return -1
	}
	return int64(m.TransferID())
}

// ---- attribution ---------------------------------------------------------------------------------------

// GstInv is one invocation issued by a driver (a script step or a storm call).
type GstInv struct {
	ID   int
	HRet string // scripted handler result: "nil" | "pause" | "err"
	HMsg string // scripted handler message: "none" | "resp"
}

type GstAttrib struct {
	seq    atomic.Int64
	mu     sync.RWMutex
	byGid  map[int64]*GstInv
	global *GstInv
	hmu    sync.Mutex
	hooks  []GstHookAct
}

func (a *GstAttrib) addHook(inv *GstInv, act GstHookAct) {
	act.Inv = -1
	if inv != nil {
		act.Inv = inv.ID
	}
	a.hmu.Lock()
	act.Seq = a.Next()
	a.hooks = append(a.hooks, act)
	a.hmu.Unlock()
}

func (a *GstAttrib) HookLen() int { a.hmu.Lock(); defer a.hmu.Unlock(); return len(a.hooks) }
func (a *GstAttrib) HooksSince(n int) []GstHookAct {
	a.hmu.Lock()
	defer a.hmu.Unlock()
	out := make([]GstHookAct, len(a.hooks)-n)
	copy(out, a.hooks[n:])
	return out
}

func NewGstAttrib() *GstAttrib { return &GstAttrib{byGid: map[int64]*GstInv{}} }

func gstGid() int64 {
	var buf [64]byte
	n := runtime.Stack(buf[:], false)
	s := strings.TrimPrefix(string(buf[:n]), "goroutine ")
	if i := strings.IndexByte(s, ' '); i > 0 {
		v, _ := strconv.ParseInt(s[:i], 10, 64)
		return v
	}
	return -1
}

// Enter binds the calling goroutine to inv until the returned func is called.
func (a *GstAttrib) Enter(inv *GstInv) func() {
	g := gstGid()
	a.mu.Lock()
	a.byGid[g] = inv
	a.mu.Unlock()
	return func() {
		a.mu.Lock()
		delete(a.byGid, g)
		a.mu.Unlock()
	}
}

// SetGlobal sets the invocation that calls from unbound goroutines are attributed to (sequential replays).
func (a *GstAttrib) SetGlobal(inv *GstInv) { a.mu.Lock(); a.global = inv; a.mu.Unlock() }

// Cur returns the invocation of the calling goroutine and the source class: "cb" when the call happens on the
// goroutine of the driver's invocation, "bg" when on a goroutine the library spawned itself.
func (a *GstAttrib) Cur() (*GstInv, string) {
	g := gstGid()
	a.mu.RLock()
	defer a.mu.RUnlock()
	if inv, ok := a.byGid[g]; ok {
		return inv, "cb"
	}
	return a.global, "bg"
}

func (a *GstAttrib) Next() int64 { return a.seq.Add(1) }

// ---- log records -----------------------------------------------------------------------------------

type GstHCall struct {
	Seq  int64   `json:"seq"`
	T    int64   `json:"t"` // time.Now().UnixMilli() (virtual inside a synctest bubble)
	Inv  int     `json:"inv"`
	Src  string  `json:"src"`
	Call string  `json:"call"`
	C    GstChid `json:"c"`
	X    string  `json:"x"`
	N    int64   `json:"n"`
}

type GstGSCall struct {
	Seq  int64   `json:"seq"`
	T    int64   `json:"t"`
	Inv  int     `json:"inv"`
	Src  string  `json:"src"`
	Call string  `json:"call"`
	R    string  `json:"r"`
	C    GstChid `json:"c"`
	X    string  `json:"x"`
	N    int64   `json:"n"`
	Ret  string  `json:"ret"`
}

type GstHookAct struct {
	Seq int64   `json:"seq"`
	Inv int     `json:"inv"`
	A   string  `json:"a"`
	C   GstChid `json:"c"`
	X   string  `json:"x"`
	N   int64   `json:"n"`
}

// ---- recording EventsHandler ---------------------------------------------------------------------------

type GstEvents struct {
	A      *GstAttrib
	mu     sync.Mutex
	calls  []GstHCall
	closed bool
	// Resp builds the response message returned by OnRequestReceived / the message returned by OnDataQueued
	// when the invocation's HMsg is "resp".
	RespTid int64
	// Gate, when set, is called (outside the log mutex) after a handler call was recorded and before it returns:
	// a test may park the calling goroutine there (the adapter's hook is then "in the handler").
	Gate func(call string, c GstChid, inv *GstInv)
	// RefuseOpened: OnChannelOpened returns an error
	RefuseOpened bool
}

func NewGstEvents(a *GstAttrib) *GstEvents { return &GstEvents{A: a, RespTid: 2000} }

func (e *GstEvents) rec(call string, chid datatransfer.ChannelID, x string, n int64) *GstInv {
	inv, src := e.A.Cur()
	id := -1
	if inv != nil {
		id = inv.ID
	}
	e.mu.Lock()
	if !e.closed {
		e.calls = append(e.calls, GstHCall{Seq: e.A.Next(), T: time.Now().UnixMilli(), Inv: id, Src: src, Call: call, C: GstChidOf(chid), X: x, N: n})
	}
	g := e.Gate
	e.mu.Unlock()
	if g != nil {
		g(call, GstChidOf(chid), inv)
	}
	return inv
}

// Close makes the handler ignore further calls (end of a case).
func (e *GstEvents) Close() { e.mu.Lock(); e.closed = true; e.mu.Unlock() }

func (e *GstEvents) Len() int { e.mu.Lock(); defer e.mu.Unlock(); return len(e.calls) }
func (e *GstEvents) Since(n int) []GstHCall {
	e.mu.Lock()
	defer e.mu.Unlock()
	out := make([]GstHCall, len(e.calls)-n)
	copy(out, e.calls[n:])
	return out
}

func gstRet(inv *GstInv) error {
	if inv == nil {
		return nil
	}
	switch inv.HRet {
	case "pause":
		return datatransfer.ErrPause
	case "err":
		return GstHandlerErr
	}
	return nil
}

func gstBool(b bool) string {
	if b {
		return "t"
	}
	return "f"
}

func gstMsgKind(m datatransfer.Message) string {
	if m.IsRequest() {
		return "req"
	}
	return "resp"
}

func (e *GstEvents) OnChannelOpened(chid datatransfer.ChannelID) error {
	e.rec("OnChannelOpened", chid, "", 0)
	e.mu.Lock()
	refuse := e.RefuseOpened
	e.mu.Unlock()
	if refuse {
		return datatransfer.ErrChannelNotFound // what the manager answers for a channel it does not (or no longer) track
	}
	return nil
}

// SetRefuseOpened makes OnChannelOpened fail from now on (the manager does so when the channel is unknown or has terminated).
func (e *GstEvents) SetRefuseOpened(b bool) { e.mu.Lock(); e.RefuseOpened = b; e.mu.Unlock() }
func (e *GstEvents) OnResponseReceived(chid datatransfer.ChannelID, msg datatransfer.Response) error {
	return gstRet(e.rec("OnResponseReceived", chid, gstMsgKind(msg), int64(msg.TransferID())))
}
func (e *GstEvents) OnDataReceived(chid datatransfer.ChannelID, link ipld.Link, size uint64, index int64, unique bool) error {
	return gstRet(e.rec("OnDataReceived", chid, gstBool(unique), index))
}
func (e *GstEvents) OnDataQueued(chid datatransfer.ChannelID, link ipld.Link, size uint64, index int64, unique bool) (datatransfer.Message, error) {
	inv := e.rec("OnDataQueued", chid, gstBool(unique), index)
	var m datatransfer.Message
	if inv != nil && inv.HMsg == "resp" {
		m = message.UpdateResponse(datatransfer.TransferID(e.RespTid), false)
	}
	return m, gstRet(inv)
}
func (e *GstEvents) OnDataSent(chid datatransfer.ChannelID, link ipld.Link, size uint64, index int64, unique bool) error {
	return gstRet(e.rec("OnDataSent", chid, gstBool(unique), index))
}
func (e *GstEvents) OnTransferInitiated(chid datatransfer.ChannelID) {
	e.rec("OnTransferInitiated", chid, "", 0)
}
func (e *GstEvents) OnRequestReceived(chid datatransfer.ChannelID, msg datatransfer.Request) (datatransfer.Response, error) {
	inv := e.rec("OnRequestReceived", chid, gstMsgKind(msg), int64(msg.TransferID()))
	var m datatransfer.Response
	if inv != nil && inv.HMsg == "resp" {
		m = message.UpdateResponse(datatransfer.TransferID(e.RespTid), false)
	}
	return m, gstRet(inv)
}
func (e *GstEvents) OnChannelCompleted(chid datatransfer.ChannelID, err error) error {
	x := "ok"
	if err != nil {
		x = "err"
	}
	e.rec("OnChannelCompleted", chid, x, 0)
	return nil
}
func (e *GstEvents) OnRequestCancelled(chid datatransfer.ChannelID, err error) error {
	e.rec("OnRequestCancelled", chid, "", 0)
	return nil
}
func (e *GstEvents) OnRequestDisconnected(chid datatransfer.ChannelID, err error) error {
	e.rec("OnRequestDisconnected", chid, "", 0)
	return nil
}
func (e *GstEvents) OnSendDataError(chid datatransfer.ChannelID, err error) error {
	e.rec("OnSendDataError", chid, "", 0)
	return nil
}
func (e *GstEvents) OnReceiveDataError(chid datatransfer.ChannelID, err error) error {
	e.rec("OnReceiveDataError", chid, "", 0)
	return nil
}
func (e *GstEvents) OnContextAugment(chid datatransfer.ChannelID) func(context.Context) context.Context {
	return func(c context.Context) context.Context { return c }
}

var _ datatransfer.EventsHandler = (*GstEvents)(nil)

// ---- fake graphsync ----------------------------------------------------------------------------------------

type gstOutReq struct {
	name   string
	peer   peer.ID
	resp   chan graphsync.ResponseProgress
	errs   chan error
	closed bool
}

// GstCancelPlan says what gs.Cancel does for a request: Mode "ok" | "notfound" | "err" return at once,
// "gate" parks until Release(r, mode), "slow" sleeps Latency (virtual time) and returns nil.
type GstCancelPlan struct {
	Mode    string
	Latency time.Duration
}

type GstFakeGS struct {
	A  *GstAttrib
	mu sync.Mutex

	hIncomingRequest      graphsync.OnIncomingRequestHook
	hIncomingResponse     graphsync.OnIncomingResponseHook
	hIncomingBlock        graphsync.OnIncomingBlockHook
	hOutgoingRequest      graphsync.OnOutgoingRequestHook
	hOutgoingBlock        graphsync.OnOutgoingBlockHook
	hRequestUpdated       graphsync.OnRequestUpdatedHook
	hOutgoingProcessing   graphsync.OnRequestProcessingListener
	hIncomingProcessing   graphsync.OnRequestProcessingListener
	hCompletedResponse    graphsync.OnResponseCompletedListener
	hRequestorCancelled   graphsync.OnRequestorCancelledListener
	hBlockSent            graphsync.OnBlockSentListener
	hNetworkError         graphsync.OnNetworkErrorListener
	hReceiverNetworkError graphsync.OnReceiverNetworkErrorListener

	ids   map[string]graphsync.RequestID
	names map[graphsync.RequestID]string
	// NextName allocates the model name of the next outgoing request (called under no lock).
	NextName func() string

	calls []GstGSCall
	opts  map[string]bool
	reqs  map[string]*gstOutReq
	gates map[string]chan string

	// Plan is consulted by Cancel (nil: "ok"). AutoFinish: Cancel of a live outgoing request ends it with
	// RequestClientCancelledErr, as the real requestmanager does (storm mode).
	Plan       func(r string) GstCancelPlan
	AutoFinish bool
	// PauseRet / UnpauseRet: scripted result class of Pause / Unpause ("nil" | "err").
	PauseRet, UnpauseRet string
}

func NewGstFakeGS(a *GstAttrib) *GstFakeGS {
	g := &GstFakeGS{A: a, ids: map[string]graphsync.RequestID{}, names: map[graphsync.RequestID]string{},
		opts: map[string]bool{}, reqs: map[string]*gstOutReq{}, gates: map[string]chan string{}}
	n := 0
	g.NextName = func() string { n++; return fmt.Sprintf("g%d", n) }
	return g
}

// ID returns the graphsync request id standing for the model name (stable within one fake).
func (g *GstFakeGS) ID(name string) graphsync.RequestID {
	g.mu.Lock()
	defer g.mu.Unlock()
	return g.idLocked(name)
}
func (g *GstFakeGS) idLocked(name string) graphsync.RequestID {
	id, ok := g.ids[name]
	if !ok {
		id = graphsync.NewRequestID()
		g.ids[name] = id
		g.names[id] = name
	}
	return id
}
func (g *GstFakeGS) Name(id graphsync.RequestID) string {
	g.mu.Lock()
	defer g.mu.Unlock()
	if n, ok := g.names[id]; ok {
		return n
	}
	return "?" + id.String()
}

func (g *GstFakeGS) log(call, r string, c GstChid, x string, n int64, ret string) {
	inv, src := g.A.Cur()
	id := -1
	if inv != nil {
		id = inv.ID
	}
	g.mu.Lock()
	g.calls = append(g.calls, GstGSCall{Seq: g.A.Next(), T: time.Now().UnixMilli(), Inv: id, Src: src, Call: call, R: r, C: c, X: x, N: n, Ret: ret})
	g.mu.Unlock()
}

func (g *GstFakeGS) Len() int { g.mu.Lock(); defer g.mu.Unlock(); return len(g.calls) }
func (g *GstFakeGS) Since(n int) []GstGSCall {
	g.mu.Lock()
	defer g.mu.Unlock()
	out := make([]GstGSCall, len(g.calls)-n)
	copy(out, g.calls[n:])
	return out
}

// Options returns the registered persistence option names, sorted.
func (g *GstFakeGS) Options() []string {
	g.mu.Lock()
	defer g.mu.Unlock()
	out := []string{}
	for k := range g.opts {
		out = append(out, k)
	}
	sortStrings(out)
	return out
}

func sortStrings(s []string) {
	for i := 1; i < len(s); i++ {
		for j := i; j > 0 && s[j] < s[j-1]; j-- {
			s[j], s[j-1] = s[j-1], s[j]
		}
	}
}

// Parked returns the requests whose Cancel call is waiting at a gate, sorted.
func (g *GstFakeGS) Parked() []string {
	g.mu.Lock()
	defer g.mu.Unlock()
	out := []string{}
	for k := range g.gates {
		out = append(out, k)
	}
	sortStrings(out)
	return out
}

// Release lets a gated Cancel(r) return with the given mode; false if none is parked.
func (g *GstFakeGS) Release(r, mode string) bool {
	g.mu.Lock()
	ch, ok := g.gates[r]
	if ok {
		delete(g.gates, r)
	}
	g.mu.Unlock()
	if ok {
		ch <- mode
	}
	return ok
}

// Live returns the names of outgoing requests whose channels are still open, sorted.
func (g *GstFakeGS) Live() []string {
	g.mu.Lock()
	defer g.mu.Unlock()
	out := []string{}
	for k, r := range g.reqs {
		if !r.closed {
			out = append(out, k)
		}
	}
	sortStrings(out)
	return out
}

// Finish ends the outgoing request r the way graphsync does: closes the response channel, delivers the last
// error (kind: "none" | "clientCancelled" | "respCancelled" | "other") and closes the error channel.
func (g *GstFakeGS) Finish(r, kind string) bool {
	g.mu.Lock()
	q, ok := g.reqs[r]
	if !ok || q.closed {
		g.mu.Unlock()
		return false
	}
	q.closed = true
	g.mu.Unlock()
	switch kind {
	case "clientCancelled":
		q.errs <- graphsync.RequestClientCancelledErr{}
	case "respCancelled":
		q.errs <- graphsync.RequestCancelledErr{}
	case "other":
		q.errs <- graphsync.RequestFailedUnknownErr{}
	}
	close(q.resp)
	close(q.errs)
	return true
}

func gstCancelErr(mode string) error {
	switch mode {
	case "notfound":
		return graphsync.RequestNotFoundErr{}
	case "err":
		return GstGsErr
	}
	return nil
}

// ---- graphsync.GraphExchange -----------------------------------------------------------------------------

func (g *GstFakeGS) Request(ctx context.Context, p peer.ID, root ipld.Link, selector ipld.Node, exts ...graphsync.ExtensionData) (<-chan graphsync.ResponseProgress, <-chan error) {
	name := g.NextName()
	q := &gstOutReq{name: name, peer: p, resp: make(chan graphsync.ResponseProgress), errs: make(chan error, 1)}
	m := map[graphsync.ExtensionName]datamodel.Node{}
	names := []string{}
	dn := int64(-1)
	for _, e := range exts {
		m[e.Name] = e.Data
		names = append(names, gstExtShort(e.Name))
		if e.Name == graphsync.ExtensionsDoNotSendFirstBlocks {
			dn = gstExtN(e)
		}
	}
	g.mu.Lock()
	id := g.idLocked(name)
	g.reqs[name] = q
	hook := g.hOutgoingRequest
	g.mu.Unlock()
	g.log("Request", name, GstChid{}, strings.Join(names, "+"), dn, PeerName(p))
	// graphsync runs the outgoing request hooks before Request returns
	if hook != nil {
		inv, _ := g.A.Cur()
		hook(p, &GstRequest{Id: id, Exts: m, Typ: graphsync.RequestTypeNew}, &GstActions{at: g.A, inv: inv})
	}
	return q.resp, q.errs
}

func (g *GstFakeGS) RegisterPersistenceOption(name string, lsys ipld.LinkSystem) error {
	g.mu.Lock()
	_, dup := g.opts[name]
	if !dup {
		g.opts[name] = true
	}
	g.mu.Unlock()
	if dup {
		g.log("RegisterPersistenceOption", "", GstChid{}, name, 0, "dupopt")
		return errors.New("persistence option already registered")
	}
	g.log("RegisterPersistenceOption", "", GstChid{}, name, 0, "nil")
	return nil
}

func (g *GstFakeGS) UnregisterPersistenceOption(name string) error {
	g.mu.Lock()
	_, ok := g.opts[name]
	delete(g.opts, name)
	g.mu.Unlock()
	if !ok {
		g.log("UnregisterPersistenceOption", "", GstChid{}, name, 0, "other")
		return errors.New("persistence option is not registered")
	}
	g.log("UnregisterPersistenceOption", "", GstChid{}, name, 0, "nil")
	return nil
}

func (g *GstFakeGS) Pause(ctx context.Context, id graphsync.RequestID) error {
	g.log("Pause", g.Name(id), GstChid{}, "", 0, g.retOr(g.PauseRet))
	return gstCancelErr(g.PauseRet)
}

func (g *GstFakeGS) retOr(s string) string {
	if s == "err" {
		return "gs"
	}
	return "nil"
}

func (g *GstFakeGS) Unpause(ctx context.Context, id graphsync.RequestID, exts ...graphsync.ExtensionData) error {
	names := []string{}
	n := int64(0)
	for _, e := range exts {
		names = append(names, gstExtShort(e.Name))
		n = gstExtN(e)
	}
	g.log("Unpause", g.Name(id), GstChid{}, strings.Join(names, "+"), n, g.retOr(g.UnpauseRet))
	return gstCancelErr(g.UnpauseRet)
}

func (g *GstFakeGS) SendUpdate(ctx context.Context, id graphsync.RequestID, exts ...graphsync.ExtensionData) error {
	names := []string{}
	n := int64(0)
	for _, e := range exts {
		names = append(names, gstExtShort(e.Name))
		n = gstExtN(e)
	}
	g.log("SendUpdate", g.Name(id), GstChid{}, strings.Join(names, "+"), n, "nil")
	return nil
}

func (g *GstFakeGS) Cancel(ctx context.Context, id graphsync.RequestID) error {
	r := g.Name(id)
	plan := GstCancelPlan{Mode: "ok"}
	if g.Plan != nil {
		plan = g.Plan(r)
	}
	g.log("Cancel", r, GstChid{}, plan.Mode, 0, "")
	mode := plan.Mode
	switch plan.Mode {
	case "gate":
		ch := make(chan string, 1)
		g.mu.Lock()
		g.gates[r] = ch
		g.mu.Unlock()
		select {
		case mode = <-ch:
		case <-ctx.Done():
			g.mu.Lock()
			delete(g.gates, r)
			g.mu.Unlock()
			return ctx.Err()
		}
	case "slow":
		t := time.NewTimer(plan.Latency)
		select {
		case <-t.C:
		case <-ctx.Done():
			t.Stop()
			return ctx.Err()
		}
		mode = "ok"
	}
	if g.AutoFinish && mode == "ok" {
		g.Finish(r, "clientCancelled")
	}
	return gstCancelErr(mode)
}

func (g *GstFakeGS) Stats() graphsync.Stats { return graphsync.Stats{} }

func (g *GstFakeGS) RegisterIncomingRequestHook(h graphsync.OnIncomingRequestHook) graphsync.UnregisterHookFunc {
	g.mu.Lock()
	g.hIncomingRequest = h
	g.mu.Unlock()
	return func() { g.mu.Lock(); g.hIncomingRequest = nil; g.mu.Unlock() }
}
func (g *GstFakeGS) RegisterIncomingResponseHook(h graphsync.OnIncomingResponseHook) graphsync.UnregisterHookFunc {
	g.mu.Lock()
	g.hIncomingResponse = h
	g.mu.Unlock()
	return func() { g.mu.Lock(); g.hIncomingResponse = nil; g.mu.Unlock() }
}
func (g *GstFakeGS) RegisterIncomingBlockHook(h graphsync.OnIncomingBlockHook) graphsync.UnregisterHookFunc {
	g.mu.Lock()
	g.hIncomingBlock = h
	g.mu.Unlock()
	return func() { g.mu.Lock(); g.hIncomingBlock = nil; g.mu.Unlock() }
}
func (g *GstFakeGS) RegisterOutgoingRequestHook(h graphsync.OnOutgoingRequestHook) graphsync.UnregisterHookFunc {
	g.mu.Lock()
	g.hOutgoingRequest = h
	g.mu.Unlock()
	return func() { g.mu.Lock(); g.hOutgoingRequest = nil; g.mu.Unlock() }
}
func (g *GstFakeGS) RegisterOutgoingBlockHook(h graphsync.OnOutgoingBlockHook) graphsync.UnregisterHookFunc {
	g.mu.Lock()
	g.hOutgoingBlock = h
	g.mu.Unlock()
	return func() { g.mu.Lock(); g.hOutgoingBlock = nil; g.mu.Unlock() }
}
func (g *GstFakeGS) RegisterRequestUpdatedHook(h graphsync.OnRequestUpdatedHook) graphsync.UnregisterHookFunc {
	g.mu.Lock()
	g.hRequestUpdated = h
	g.mu.Unlock()
	return func() { g.mu.Lock(); g.hRequestUpdated = nil; g.mu.Unlock() }
}
func (g *GstFakeGS) RegisterOutgoingRequestProcessingListener(h graphsync.OnRequestProcessingListener) graphsync.UnregisterHookFunc {
	g.mu.Lock()
	g.hOutgoingProcessing = h
	g.mu.Unlock()
	return func() { g.mu.Lock(); g.hOutgoingProcessing = nil; g.mu.Unlock() }
}
func (g *GstFakeGS) RegisterIncomingRequestProcessingListener(h graphsync.OnRequestProcessingListener) graphsync.UnregisterHookFunc {
	g.mu.Lock()
	g.hIncomingProcessing = h
	g.mu.Unlock()
	return func() { g.mu.Lock(); g.hIncomingProcessing = nil; g.mu.Unlock() }
}
func (g *GstFakeGS) RegisterCompletedResponseListener(h graphsync.OnResponseCompletedListener) graphsync.UnregisterHookFunc {
	g.mu.Lock()
	g.hCompletedResponse = h
	g.mu.Unlock()
	return func() { g.mu.Lock(); g.hCompletedResponse = nil; g.mu.Unlock() }
}
func (g *GstFakeGS) RegisterRequestorCancelledListener(h graphsync.OnRequestorCancelledListener) graphsync.UnregisterHookFunc {
	g.mu.Lock()
	g.hRequestorCancelled = h
	g.mu.Unlock()
	return func() { g.mu.Lock(); g.hRequestorCancelled = nil; g.mu.Unlock() }
}
func (g *GstFakeGS) RegisterBlockSentListener(h graphsync.OnBlockSentListener) graphsync.UnregisterHookFunc {
	g.mu.Lock()
	g.hBlockSent = h
	g.mu.Unlock()
	return func() { g.mu.Lock(); g.hBlockSent = nil; g.mu.Unlock() }
}
func (g *GstFakeGS) RegisterNetworkErrorListener(h graphsync.OnNetworkErrorListener) graphsync.UnregisterHookFunc {
	g.mu.Lock()
	g.hNetworkError = h
	g.mu.Unlock()
	return func() { g.mu.Lock(); g.hNetworkError = nil; g.mu.Unlock() }
}
func (g *GstFakeGS) RegisterReceiverNetworkErrorListener(h graphsync.OnReceiverNetworkErrorListener) graphsync.UnregisterHookFunc {
	g.mu.Lock()
	g.hReceiverNetworkError = h
	g.mu.Unlock()
	return func() { g.mu.Lock(); g.hReceiverNetworkError = nil; g.mu.Unlock() }
}

var _ graphsync.GraphExchange = (*GstFakeGS)(nil)

// ---- firing the registered hooks / listeners (what graphsync would do) ---------------------------------------
// Every Fire* returns false when the hook is not registered (after Shutdown). Hook actions are appended to
// the invocation bound to the calling goroutine.

func (g *GstFakeGS) actions() *GstActions {
	inv, _ := g.A.Cur()
	return &GstActions{at: g.A, inv: inv}
}

func (g *GstFakeGS) FireIncomingRequest(p peer.ID, r string, exts map[graphsync.ExtensionName]datamodel.Node) bool {
	g.mu.Lock()
	h, id := g.hIncomingRequest, g.idLocked(r)
	g.mu.Unlock()
	if h == nil {
		return false
	}
	h(p, &GstRequest{Id: id, Exts: exts, Typ: graphsync.RequestTypeNew}, g.actions())
	return true
}

// FireOutgoingRequest fires the outgoing request hook for a request this adapter did not make.
func (g *GstFakeGS) FireOutgoingRequest(p peer.ID, r string, exts map[graphsync.ExtensionName]datamodel.Node) bool {
	g.mu.Lock()
	h, id := g.hOutgoingRequest, g.idLocked(r)
	g.mu.Unlock()
	if h == nil {
		return false
	}
	h(p, &GstRequest{Id: id, Exts: exts, Typ: graphsync.RequestTypeNew}, g.actions())
	return true
}

func (g *GstFakeGS) FireProcessing(incoming bool, p peer.ID, r string) bool {
	g.mu.Lock()
	h, id := g.hOutgoingProcessing, g.idLocked(r)
	if incoming {
		h = g.hIncomingProcessing
	}
	g.mu.Unlock()
	if h == nil {
		return false
	}
	h(p, &GstRequest{Id: id, Typ: graphsync.RequestTypeNew}, 1)
	return true
}

func (g *GstFakeGS) FireIncomingBlock(p peer.ID, r string, blk graphsync.BlockData) bool {
	g.mu.Lock()
	h, id := g.hIncomingBlock, g.idLocked(r)
	g.mu.Unlock()
	if h == nil {
		return false
	}
	h(p, &GstResponse{Id: id, Code: graphsync.PartialResponse}, blk, g.actions())
	return true
}

func (g *GstFakeGS) FireOutgoingBlock(p peer.ID, r string, blk graphsync.BlockData) bool {
	g.mu.Lock()
	h, id := g.hOutgoingBlock, g.idLocked(r)
	g.mu.Unlock()
	if h == nil {
		return false
	}
	h(p, &GstRequest{Id: id, Typ: graphsync.RequestTypeNew}, blk, g.actions())
	return true
}

func (g *GstFakeGS) FireBlockSent(p peer.ID, r string, blk graphsync.BlockData) bool {
	g.mu.Lock()
	h, id := g.hBlockSent, g.idLocked(r)
	g.mu.Unlock()
	if h == nil {
		return false
	}
	h(p, &GstRequest{Id: id, Typ: graphsync.RequestTypeNew}, blk)
	return true
}

func (g *GstFakeGS) FireCompletedResponse(p peer.ID, r string, st graphsync.ResponseStatusCode) bool {
	g.mu.Lock()
	h, id := g.hCompletedResponse, g.idLocked(r)
	g.mu.Unlock()
	if h == nil {
		return false
	}
	h(p, &GstRequest{Id: id, Typ: graphsync.RequestTypeNew}, st)
	return true
}

func (g *GstFakeGS) FireRequestUpdated(p peer.ID, r string, exts map[graphsync.ExtensionName]datamodel.Node) bool {
	g.mu.Lock()
	h, id := g.hRequestUpdated, g.idLocked(r)
	g.mu.Unlock()
	if h == nil {
		return false
	}
	h(p, &GstRequest{Id: id, Typ: graphsync.RequestTypeNew}, &GstRequest{Id: id, Exts: exts, Typ: graphsync.RequestTypeUpdate}, g.actions())
	return true
}

func (g *GstFakeGS) FireIncomingResponse(p peer.ID, r string, exts map[graphsync.ExtensionName]datamodel.Node) bool {
	g.mu.Lock()
	h, id := g.hIncomingResponse, g.idLocked(r)
	g.mu.Unlock()
	if h == nil {
		return false
	}
	h(p, &GstResponse{Id: id, Code: graphsync.PartialResponse, Exts: exts}, g.actions())
	return true
}

func (g *GstFakeGS) FireRequestorCancelled(p peer.ID, r string) bool {
	g.mu.Lock()
	h, id := g.hRequestorCancelled, g.idLocked(r)
	g.mu.Unlock()
	if h == nil {
		return false
	}
	h(p, &GstRequest{Id: id, Typ: graphsync.RequestTypeCancel})
	return true
}

func (g *GstFakeGS) FireNetworkError(p peer.ID, r string) bool {
	g.mu.Lock()
	h, id := g.hNetworkError, g.idLocked(r)
	g.mu.Unlock()
	if h == nil {
		return false
	}
	h(p, &GstRequest{Id: id, Typ: graphsync.RequestTypeNew}, errors.New("gst: network send error"))
	return true
}

func (g *GstFakeGS) FireReceiverNetworkError(p peer.ID) bool {
	g.mu.Lock()
	h := g.hReceiverNetworkError
	g.mu.Unlock()
	if h == nil {
		return false
	}
	h(p, errors.New("gst: network receive error"))
	return true
}

// ---- request / response / block data -----------------------------------------------------------------------

type GstRequest struct {
	Id   graphsync.RequestID
	Exts map[graphsync.ExtensionName]datamodel.Node
	Typ  graphsync.RequestType
}

func (r *GstRequest) ID() graphsync.RequestID      { return r.Id }
func (r *GstRequest) Root() cid.Cid                { return Cid("base") }
func (r *GstRequest) Selector() ipld.Node          { return Selector("s") }
func (r *GstRequest) Priority() graphsync.Priority { return 0 }
func (r *GstRequest) Type() graphsync.RequestType  { return r.Typ }
func (r *GstRequest) Extension(n graphsync.ExtensionName) (datamodel.Node, bool) {
	d, ok := r.Exts[n]
	return d, ok
}

type GstResponse struct {
	Id   graphsync.RequestID
	Code graphsync.ResponseStatusCode
	Exts map[graphsync.ExtensionName]datamodel.Node
}

func (r *GstResponse) RequestID() graphsync.RequestID       { return r.Id }
func (r *GstResponse) Status() graphsync.ResponseStatusCode { return r.Code }
func (r *GstResponse) Metadata() graphsync.LinkMetadata     { return nil }
func (r *GstResponse) Extension(n graphsync.ExtensionName) (datamodel.Node, bool) {
	d, ok := r.Exts[n]
	return d, ok
}

type GstBlock struct {
	Size, Wire uint64
	Idx        int64
}

func (b *GstBlock) Link() ipld.Link         { return cidlink.Link{Cid: Cid("base")} }
func (b *GstBlock) BlockSize() uint64       { return b.Size }
func (b *GstBlock) BlockSizeOnWire() uint64 { return b.Wire }
func (b *GstBlock) Index() int64            { return b.Idx }

// GstMalformed is an extension payload that does not decode as a data-transfer message.
func GstMalformed() datamodel.Node { return basicnode.NewInt(10) }

// ---- hook actions recorder (implements every graphsync *HookActions interface) --------------------------------

type GstActions struct {
	at  *GstAttrib
	inv *GstInv
}

func (a *GstActions) add(act, x string, n int64) { a.at.addHook(a.inv, GstHookAct{A: act, X: x, N: n}) }

func (a *GstActions) AugmentContext(func(context.Context) context.Context) {
	a.add("AugmentContext", "", 0)
}
func (a *GstActions) SendExtensionData(e graphsync.ExtensionData) {
	a.add("SendExtensionData", gstExtShort(e.Name), gstExtN(e))
}
func (a *GstActions) UpdateRequestWithExtensions(es ...graphsync.ExtensionData) {
	for _, e := range es {
		a.add("UpdateRequestWithExtensions", gstExtShort(e.Name), gstExtN(e))
	}
}
func (a *GstActions) UsePersistenceOption(name string) { a.add("UsePersistenceOption", name, 0) }
func (a *GstActions) UseLinkTargetNodePrototypeChooser(traversal.LinkTargetNodePrototypeChooser) {
}
func (a *GstActions) TerminateWithError(err error) { a.add("TerminateWithError", GstErrClass(err), 0) }
func (a *GstActions) ValidateRequest()             { a.add("ValidateRequest", "", 0) }
func (a *GstActions) PauseResponse()               { a.add("PauseResponse", "", 0) }
func (a *GstActions) PauseRequest()                { a.add("PauseRequest", "", 0) }
func (a *GstActions) UnpauseResponse()             { a.add("UnpauseResponse", "", 0) }
func (a *GstActions) MaxLinks(n uint64)            { a.add("MaxLinks", "", int64(n)) }

var _ graphsync.IncomingRequestHookActions = (*GstActions)(nil)
var _ graphsync.OutgoingRequestHookActions = (*GstActions)(nil)
var _ graphsync.OutgoingBlockHookActions = (*GstActions)(nil)
var _ graphsync.IncomingBlockHookActions = (*GstActions)(nil)
var _ graphsync.IncomingResponseHookActions = (*GstActions)(nil)
var _ graphsync.RequestUpdatedHookActions = (*GstActions)(nil)

// GstState is the stub ChannelState handed to OpenChannel on a restart (only ReceivedCidsTotal is consulted).
type GstState struct {
	datatransfer.ChannelState
	K int64
}

func (s *GstState) ReceivedCidsTotal() int64 { return s.K }

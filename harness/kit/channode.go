package kit

import (
	"context"
	"errors"
	"fmt"
	"strings"
	"sync"
	"time"

	datatransfer "github.com/filecoin-project/go-data-transfer/v2"
	"github.com/filecoin-project/go-data-transfer/v2/channels"
	"github.com/filecoin-project/go-statemachine"
)

// Ann is one subscriber notification.
type Ann struct {
	Chid string `json:"chid"`
	Ev   string `json:"ev"`
	View View   `json:"view"`
}

// ChanNode is one real channels.Channels over a RecDS with an Env double and a recording notifier.
type ChanNode struct {
	Self string
	DS   *RecDS
	Env  *Env
	Ch   *channels.Channels
	mu   sync.Mutex
	Anns []Ann
	// OnAnn, if set, is called for each notification (outside mu).
	OnAnn func(datatransfer.Event, datatransfer.ChannelState)
}

func NewChanNode(self string, ds *RecDS) (*ChanNode, error) {
	n := &ChanNode{Self: self, DS: ds, Env: &Env{Self: Peer(self)}}
	ch, err := channels.New(ds, n.notify, n.Env, Peer(self))
	if err != nil {
		return nil, err
	}
	n.Ch = ch
	if err := ch.Start(context.Background()); err != nil {
		return nil, err
	}
	return n, nil
}

func (n *ChanNode) Stop() {
	ctx, cancel := context.WithTimeout(context.Background(), 2*time.Second)
	defer cancel()
	_ = n.Ch.Stop(ctx)
}

func (n *ChanNode) notify(evt datatransfer.Event, st datatransfer.ChannelState) {
	a := Ann{Chid: st.ChannelID().String(), Ev: EventName(evt.Code), View: Project(st)}
	n.mu.Lock()
	n.Anns = append(n.Anns, a)
	n.mu.Unlock()
	if n.OnAnn != nil {
		n.OnAnn(evt, st)
	}
}

func (n *ChanNode) NAnns() int {
	n.mu.Lock()
	defer n.mu.Unlock()
	return len(n.Anns)
}
func (n *ChanNode) AnnsSince(k int) []Ann {
	n.mu.Lock()
	defer n.mu.Unlock()
	out := make([]Ann, len(n.Anns)-k)
	copy(out, n.Anns[k:])
	return out
}

func Chid(id Ident) datatransfer.ChannelID {
	return datatransfer.ChannelID{Initiator: Peer(id.Initiator), Responder: Peer(id.Responder), ID: datatransfer.TransferID(id.Tid)}
}

func DSKey(chid datatransfer.ChannelID) string { return "/3/" + chid.String() }

// Create calls the real CreateNew.
func (n *ChanNode) Create(id Ident, voucher string) (datatransfer.ChannelID, error) {
	return n.Ch.CreateNew(Peer(n.Self), datatransfer.TransferID(id.Tid), Cid(orDefault(id.Base, "base")), Selector(orDefault(id.Sel, "s")),
		Voucher(voucher), Peer(id.Initiator), Peer(id.Sender), Peer(id.Recipient))
}

func orDefault(s, d string) string {
	if s == "" {
		return d
	}
	return s
}

// Seed creates the channel through the real CreateNew and then overwrites the mutable part of its
// persisted record with rec (the state lives only in the datastore, so this is a valid start state).
func (n *ChanNode) Seed(id Ident, rec Rec) (datatransfer.ChannelID, error) {
	v0 := "v0"
	if len(rec.Vouchers) > 0 {
		v0 = rec.Vouchers[0]
	}
	chid, err := n.Create(id, v0)
	if err != nil {
		return chid, err
	}
	return chid, n.Overwrite(chid, rec)
}

func (n *ChanNode) Overwrite(chid datatransfer.ChannelID, rec Rec) error {
	b := n.DS.Raw(DSKey(chid))
	if b == nil {
		return fmt.Errorf("no record under %s", DSKey(chid))
	}
	nb, err := EditRecord(b, rec, nil)
	if err != nil {
		return err
	}
	n.DS.Poke(DSKey(chid), nb)
	return nil
}

func (n *ChanNode) Raw(chid datatransfer.ChannelID) (Rec, Ident, error) {
	b := n.DS.Raw(DSKey(chid))
	if b == nil {
		return Rec{}, Ident{}, fmt.Errorf("no record")
	}
	r, id, _, err := RawFromBytes(b)
	return r, id, err
}

// Args of a channel-level operation.
type OpArgs struct {
	Delta  uint64 `json:"delta"`
	Index  int64  `json:"index"`
	Unique bool   `json:"unique"`
	Limit  uint64 `json:"limit"`
	Flag   bool   `json:"flag"`
	Err    string `json:"err"`
	V      string `json:"v"`
}

// ErrClass maps an error to the classes used by the specs.
func ErrClass(err error) string {
	switch {
	case err == nil:
		return "nil"
	case errors.Is(err, datatransfer.ErrPause):
		return "pause"
	case errors.Is(err, statemachine.ErrTerminated):
		return "terminated"
	case errors.Is(err, datatransfer.ErrRejected):
		return "rejected"
	case errors.Is(err, datatransfer.ErrChannelNotFound):
		return "notfound"
	case errors.Is(err, datatransfer.ErrUnsupported):
		return "unsupported"
	}
	var nf *channels.ErrNotFound
	if errors.As(err, &nf) {
		return "notfound"
	}
	s := err.Error()
	switch {
	case strings.Contains(s, "normal shutdown of state machine"):
		return "terminated"
	case strings.Contains(s, "No channel for channel ID"):
		return "notfound"
	}
	return "other"
}

// Do performs one operation of the public channels.Channels API.
func (n *ChanNode) Do(chid datatransfer.ChannelID, op string, a OpArgs) error {
	c := n.Ch
	switch op {
	case "Open":
		return c.Open(chid)
	case "Accept":
		return c.Accept(chid)
	case "ChannelOpened":
		return c.ChannelOpened(chid)
	case "TransferInitiated":
		return c.TransferInitiated(chid)
	case "Restart":
		return c.Restart(chid)
	case "CompleteCleanupOnRestart":
		return c.CompleteCleanupOnRestart(chid)
	case "DataSent":
		return c.DataSent(chid, Cid("blk"), a.Delta, a.Index, a.Unique)
	case "DataQueued":
		return c.DataQueued(chid, Cid("blk"), a.Delta, a.Index, a.Unique)
	case "DataReceived":
		return c.DataReceived(chid, Cid("blk"), a.Delta, a.Index, a.Unique)
	case "PauseInitiator":
		return c.PauseInitiator(chid)
	case "PauseResponder":
		return c.PauseResponder(chid)
	case "ResumeInitiator":
		return c.ResumeInitiator(chid)
	case "ResumeResponder":
		return c.ResumeResponder(chid)
	case "NewVoucher":
		return c.NewVoucher(chid, Voucher(a.V))
	case "NewVoucherResult":
		return c.NewVoucherResult(chid, Voucher(a.V))
	case "Complete":
		return c.Complete(chid)
	case "FinishTransfer":
		return c.FinishTransfer(chid)
	case "ResponderCompletes":
		return c.ResponderCompletes(chid)
	case "ResponderBeginsFinalization":
		return c.ResponderBeginsFinalization(chid)
	case "BeginFinalizing":
		return c.BeginFinalizing(chid)
	case "Cancel":
		return c.Cancel(chid)
	case "Error":
		return c.Error(chid, errors.New(ExpandText(a.Err)))
	case "Disconnected":
		return c.Disconnected(chid, errors.New(ExpandText(a.Err)))
	case "RequestCancelled":
		return c.RequestCancelled(chid, errors.New(ExpandText(a.Err)))
	case "SendDataError":
		return c.SendDataError(chid, errors.New(ExpandText(a.Err)))
	case "ReceiveDataError":
		return c.ReceiveDataError(chid, errors.New(ExpandText(a.Err)))
	case "SetDataLimit":
		return c.SetDataLimit(chid, a.Limit)
	case "SetRequiresFinalization":
		return c.SetRequiresFinalization(chid, a.Flag)
	}
	return fmt.Errorf("unknown op %s", op)
}

// Quiesce flushes the channel's queue (GetByID is the code's own flush) until three consecutive
// flushes see the same persisted bytes and the same number of environment calls. One flush is not
// quiescence: (a) the cleanup handler's CleanupComplete may be queued behind the first flush, and
// (b) a flush whose nilEvent is cleared by the terminal transition (ClearEvents inside Plan) returns
// before that transition's Put, i.e. with the previous (cleanup) state; the flush after that one
// waits for the machine to close and sees the final record.
func (n *ChanNode) Quiesce(chid datatransfer.ChannelID) (datatransfer.ChannelState, error) {
	var st datatransfer.ChannelState
	var err error
	type obs struct {
		b string
		e int
	}
	var hist []obs
	fails := 0
	for i := 0; i < 14; i++ {
		ctx, cancel := context.WithTimeout(context.Background(), 5*time.Second)
		st, err = n.Ch.GetByID(ctx, chid)
		cancel()
		if err != nil {
			// a flush queued behind an event that brings the channel's state machine down (e.g. a record that cannot be encoded) is never
			// answered: it runs into its deadline; the next one finds the machine gone and reads the store directly
			if fails++; fails >= 3 {
				return nil, err
			}
			hist = nil
			continue
		}
		hist = append(hist, obs{string(n.DS.Raw(DSKey(chid))), n.Env.Total()})
		k := len(hist)
		if k >= 3 && hist[k-1] == hist[k-2] && hist[k-2] == hist[k-3] {
			return st, nil
		}
	}
	return st, nil
}

// StepObs is the observation of one operation on the real code.
type StepObs struct {
	Case    string    `json:"case"`
	I       int       `json:"i"`
	C       string    `json:"c"`
	Self    string    `json:"self"`
	Ident   Ident     `json:"ident"`
	Op      string    `json:"op"`
	Args    OpArgs    `json:"args"`
	Ret     string    `json:"ret"`
	Pre     Rec       `json:"pre"`
	Puts    []Rec     `json:"puts"`
	Ann     []AnnObs  `json:"ann"`
	Post    Rec       `json:"post"`
	PostV   View      `json:"postView"`
	Env     []EnvCall `json:"env"`
	Fresh   bool      `json:"fresh"` // caches for this channel are fresh (lazily seeded from the record)
	Listed  bool      `json:"listed"`
	Err     string    `json:"err"`
	IdentOK bool      `json:"identOK"`
}

type AnnObs struct {
	Ev   string `json:"ev"`
	View View   `json:"view"`
}

func EmptyRec() Rec { return Rec{Vouchers: []string{}, Results: []string{}} }
func EmptyView() View {
	return View{Rec: EmptyRec(), Panics: []string{}}
}

// EmptyStepObs has no nil slices (the TLC JSON reader rejects null).
func EmptyStepObs() StepObs {
	return StepObs{Puts: []Rec{}, Ann: []AnnObs{}, Env: []EnvCall{}, Pre: EmptyRec(), Post: EmptyRec(), PostV: EmptyView()}
}

// Step runs op on chid and observes everything the specs talk about.
func (n *ChanNode) Step(chid datatransfer.ChannelID, op string, a OpArgs) StepObs {
	o := EmptyStepObs()
	o.C, o.Self, o.Op, o.Args = chid.String(), n.Self, op, a
	pre, id, err := n.Raw(chid)
	if err != nil {
		o.Err = "pre: " + err.Error()
		return o
	}
	o.Pre, o.Ident = pre, id
	w0, a0, e0 := n.DS.NWrites(), n.NAnns(), n.Env.Total()
	ret := n.Do(chid, op, a)
	o.Ret = ErrClass(ret)
	st, err := n.Quiesce(chid)
	if err != nil {
		o.Err = "quiesce: " + err.Error()
		return o
	}
	// notifications are delivered by a separate goroutine; wait until as many arrived as writes were made
	key := DSKey(chid)
	for _, w := range n.DS.WritesSince(w0) {
		if w.Key != key || w.Value == nil {
			continue
		}
		r, _, _, err := RawFromBytes(w.Value)
		if err != nil {
			o.Err = "put decode: " + err.Error()
			return o
		}
		o.Puts = append(o.Puts, r)
	}
	deadline := time.Now().Add(2 * time.Second)
	for {
		k := 0
		for _, an := range n.AnnsSince(a0) {
			if an.Chid == o.C {
				k++
			}
		}
		if k >= len(o.Puts) || time.Now().After(deadline) {
			break
		}
		time.Sleep(200 * time.Microsecond)
	}
	for _, an := range n.AnnsSince(a0) {
		if an.Chid == o.C {
			o.Ann = append(o.Ann, AnnObs{an.Ev, an.View})
		}
	}
	o.Env = n.Env.CallsSince(e0)
	post, id2, err := n.Raw(chid)
	if err != nil {
		o.Err = "post: " + err.Error()
		return o
	}
	o.Post = post
	o.IdentOK = id2 == id
	o.PostV = Project(st)
	return o
}

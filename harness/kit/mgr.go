package kit

import (
	"bytes"
	"context"
	"errors"
	"fmt"
	"sync"
	"time"

	datatransfer "github.com/filecoin-project/go-data-transfer/v2"
	"github.com/filecoin-project/go-data-transfer/v2/impl"
	"github.com/filecoin-project/go-data-transfer/v2/message"
	"github.com/filecoin-project/go-data-transfer/v2/network"
	"github.com/ipfs/go-cid"
	ipld "github.com/ipld/go-ipld-prime"
	"github.com/ipld/go-ipld-prime/datamodel"
	cidlink "github.com/ipld/go-ipld-prime/linking/cid"
	peer "github.com/libp2p/go-libp2p/core/peer"
	"github.com/libp2p/go-libp2p/core/protocol"
)

// Msg is the abstract form of a data-transfer message used by spec/Mgr.tla.
type Msg struct {
	IsReq    bool   `json:"isReq"`
	Kind     string `json:"kind"` // New Restart Update Cancel Voucher VoucherResult Complete RestartExisting
	Tid      uint64 `json:"tid"`
	Pull     bool   `json:"pull"`
	Paused   bool   `json:"paused"`
	Accepted bool   `json:"accepted"`
	V        string `json:"v"` // voucher / voucher result name ("" = none)
	Base     string `json:"base"`
	Sel      string `json:"sel"`
	RI       string `json:"ri"` // restart-existing channel id
	RR       string `json:"rr"`
	RT       uint64 `json:"rt"`
}

func NoMsg() Msg { return Msg{Kind: "none"} }

// BuildMsg constructs the real message with the library's constructors and passes it through the wire form
// (ToNet -> FromNet), so that what a handler receives is what a real peer would deliver: vouchers decoded from
// DAG-CBOR (canonical map-key order), not the sender's in-memory nodes.
func BuildMsg(m Msg) (datatransfer.Message, error) {
	x, err := buildMsg0(m)
	if err != nil || x == nil {
		return x, err
	}
	var buf bytes.Buffer
	if e := x.ToNet(&buf); e != nil {
		return x, nil // not encodable: deliver the in-memory form (transport path of a local message)
	}
	y, e := message.FromNet(&buf)
	if e != nil {
		return x, nil
	}
	return y, nil
}

func buildMsg0(m Msg) (datatransfer.Message, error) {
	tid := datatransfer.TransferID(m.Tid)
	var vp *datatransfer.TypedVoucher
	if m.V != "" {
		v := Voucher(m.V)
		vp = &v
	}
	if m.IsReq {
		switch m.Kind {
		case "New", "Restart":
			var sel datamodel.Node
			if m.Sel != "" {
				sel = Selector(m.Sel)
			}
			base := cid.Undef
			if m.Base != "" {
				base = Cid(m.Base)
			}
			if vp == nil {
				vp = &datatransfer.TypedVoucher{}
			}
			return message.NewRequest(tid, m.Kind == "Restart", m.Pull, vp, base, sel)
		case "Update":
			return message.UpdateRequest(tid, m.Paused), nil
		case "Cancel":
			return message.CancelRequest(tid), nil
		case "Voucher":
			return message.VoucherRequest(tid, vp)
		case "RestartExisting":
			return message.RestartExistingChannelRequest(datatransfer.ChannelID{Initiator: Peer(m.RI), Responder: Peer(m.RR), ID: datatransfer.TransferID(m.RT)}), nil
		}
	} else {
		switch m.Kind {
		case "New":
			return message.NewResponse(tid, m.Accepted, m.Paused, vp)
		case "Restart":
			return message.RestartResponse(tid, m.Accepted, m.Paused, vp)
		case "VoucherResult":
			return message.VoucherResultResponse(tid, m.Accepted, m.Paused, vp)
		case "Complete":
			return message.CompleteResponse(tid, m.Accepted, m.Paused, vp)
		case "Update":
			return message.UpdateResponse(tid, m.Paused), nil
		case "Cancel":
			return message.CancelResponse(tid), nil
		}
	}
	return nil, fmt.Errorf("cannot build message %+v", m)
}

// DescribeMsg projects a real message to its abstract form.
func DescribeMsg(x datatransfer.Message) Msg {
	if x == nil {
		return NoMsg()
	}
	m := Msg{IsReq: x.IsRequest(), Tid: uint64(x.TransferID()), Paused: x.IsPaused()}
	if rq, ok := x.(datatransfer.Request); ok && x.IsRequest() {
		m.Pull = rq.IsPull()
		switch {
		case rq.IsRestartExistingChannelRequest():
			m.Kind = "RestartExisting"
			if c, err := rq.RestartChannelId(); err == nil {
				m.RI, m.RR, m.RT = PeerName(c.Initiator), PeerName(c.Responder), uint64(c.ID)
			}
		case rq.IsNew():
			m.Kind = "New"
		case rq.IsRestart():
			m.Kind = "Restart"
		case rq.IsCancel():
			m.Kind = "Cancel"
		case rq.IsVoucher():
			m.Kind = "Voucher"
		case rq.IsUpdate():
			m.Kind = "Update"
		default:
			m.Kind = "?"
		}
		if m.Kind == "New" || m.Kind == "Restart" || m.Kind == "Voucher" {
			if tv, err := rq.TypedVoucher(); err == nil {
				m.V = VoucherName(tv)
			}
		}
		if m.Kind == "New" || m.Kind == "Restart" {
			m.Base = CidName(rq.BaseCid())
			if s, err := rq.Selector(); err == nil {
				m.Sel = SelectorName(s)
			}
		}
		return m
	}
	rs := x.(datatransfer.Response)
	m.Accepted = rs.Accepted()
	switch {
	case rs.IsNew():
		m.Kind = "New"
	case rs.IsRestart():
		m.Kind = "Restart"
	case rs.IsComplete():
		m.Kind = "Complete"
	case rs.IsCancel():
		m.Kind = "Cancel"
	case rs.IsUpdate():
		m.Kind = "Update"
	case rs.IsValidationResult():
		m.Kind = "VoucherResult"
	default:
		m.Kind = "?"
	}
	if !rs.EmptyVoucherResult() {
		if n, err := rs.VoucherResult(); err == nil {
			m.V = VoucherName(datatransfer.TypedVoucher{Type: rs.VoucherResultType(), Voucher: n})
		}
	}
	return m
}

// ---- SimNet: network.DataTransferNetwork double -------------------------------------------------------

type NetCall struct {
	What string `json:"what"` // send | protect | unprotect | connect
	To   string `json:"to"`
	Msg  Msg    `json:"msg"`
	Tag  string `json:"tag"`
	OK   bool   `json:"ok"`
}

type SimNet struct {
	Self       peer.ID
	mu         sync.Mutex
	Calls      []NetCall
	Raw        []datatransfer.Message // parallel to the "send" calls
	SendFail   []bool                 // script: outcome of the next SendMessage calls (true = fail); default ok
	Recv       network.Receiver
	OnSend     func(to peer.ID, m datatransfer.Message) // optional delivery hook (called outside mu, only for successful sends)
	OnSendGate func()                                   // optional: called (outside mu) before SendMessage returns; a blocking gate holds the sender there
	OnSendCall func(c NetCall)                          // optional: like OnSendGate, with the call (kind of message, outcome)
}

func (n *SimNet) add(c NetCall) {
	n.mu.Lock()
	n.Calls = append(n.Calls, c)
	n.mu.Unlock()
}
func (n *SimNet) Protect(id peer.ID, tag string) {
	n.add(NetCall{What: "protect", To: PeerName(id), Tag: tag, Msg: NoMsg(), OK: true})
}
func (n *SimNet) Unprotect(id peer.ID, tag string) bool {
	n.add(NetCall{What: "unprotect", To: PeerName(id), Tag: tag, Msg: NoMsg(), OK: true})
	return false
}
func (n *SimNet) SendMessage(ctx context.Context, to peer.ID, m datatransfer.Message) error {
	n.mu.Lock()
	fail := false
	if len(n.SendFail) > 0 {
		fail, n.SendFail = n.SendFail[0], n.SendFail[1:]
	}
	if ctx.Err() != nil { // a real network refuses to send on a finished context
		fail = true
	}
	nc := NetCall{What: "send", To: PeerName(to), Msg: DescribeMsg(m), OK: !fail}
	n.Calls = append(n.Calls, nc)
	n.Raw = append(n.Raw, m)
	cb := n.OnSend
	gate := n.OnSendGate
	gate2 := n.OnSendCall
	n.mu.Unlock()
	if gate != nil {
		gate()
	}
	if gate2 != nil {
		gate2(nc)
	}
	if fail {
		return errors.New("simnet: send failed")
	}
	if cb != nil {
		cb(to, m)
	}
	return nil
}
func (n *SimNet) SetDelegate(r network.Receiver) { n.Recv = r }
func (n *SimNet) ConnectTo(ctx context.Context, p peer.ID) error {
	n.add(NetCall{What: "connect", To: PeerName(p), Msg: NoMsg(), OK: true})
	return nil
}
func (n *SimNet) ConnectWithRetry(ctx context.Context, p peer.ID) error { return n.ConnectTo(ctx, p) }
func (n *SimNet) ID() peer.ID                                           { return n.Self }
func (n *SimNet) Protocol(context.Context, peer.ID) (protocol.ID, error) {
	return datatransfer.ProtocolDataTransfer1_2, nil
}
func (n *SimNet) N() int {
	n.mu.Lock()
	defer n.mu.Unlock()
	return len(n.Calls)
}
func (n *SimNet) Since(k int) []NetCall {
	n.mu.Lock()
	defer n.mu.Unlock()
	out := make([]NetCall, len(n.Calls)-k)
	copy(out, n.Calls[k:])
	return out
}

// ---- SimTransport: datatransfer.PauseableTransport double -------------------------------------------------

type TCall struct {
	Call    string `json:"call"` // open close pause resume cleanup shutdown
	Chid    string `json:"chid"`
	Msg     Msg    `json:"msg"`
	Sender  string `json:"sender"`
	HasChan bool   `json:"hasChan"` // OpenChannel was given the channel state (restart)
	Skip    int64  `json:"skip"`    // ReceivedCidsTotal of that state (what the adapter turns into do-not-send-first-blocks)
	Base    string `json:"base"`
	Sel     string `json:"sel"`
	OK      bool   `json:"ok"`
}

type SimTransport struct {
	mu     sync.Mutex
	Calls  []TCall
	Fail   map[string][]bool // script per call kind
	Events datatransfer.EventsHandler
	OnCall func(c TCall, m datatransfer.Message) // optional (outside mu)
	Gate   func(c TCall)                         // optional: called (outside mu) before any call returns, failed ones included; may block
}

func (t *SimTransport) rec(c TCall, m datatransfer.Message) error {
	t.mu.Lock()
	fail := false
	if f := t.Fail[c.Call]; len(f) > 0 {
		fail, t.Fail[c.Call] = f[0], f[1:]
	}
	c.OK = !fail
	t.Calls = append(t.Calls, c)
	cb := t.OnCall
	gt := t.Gate
	t.mu.Unlock()
	if gt != nil {
		gt(c)
	}
	if fail {
		if c.Call == "close" {
			// what the real adapter answers for a channel it does not track (request never started, or cleaned up already)
			return fmt.Errorf("simtransport: close failed: %w", datatransfer.ErrChannelNotFound)
		}
		return errors.New("simtransport: " + c.Call + " failed")
	}
	if cb != nil {
		cb(c, m)
	}
	return nil
}
func (t *SimTransport) OpenChannel(ctx context.Context, dataSender peer.ID, chid datatransfer.ChannelID, root ipld.Link, stor datamodel.Node, channel datatransfer.ChannelState, msg datatransfer.Message) error {
	c := TCall{Call: "open", Chid: chid.String(), Msg: DescribeMsg(msg), Sender: PeerName(dataSender), Sel: SelectorName(stor)}
	if l, ok := root.(cidlink.Link); ok {
		c.Base = CidName(l.Cid)
	}
	if channel != nil {
		c.HasChan, c.Skip = true, channel.ReceivedCidsTotal()
	}
	return t.rec(c, msg)
}
func (t *SimTransport) CloseChannel(ctx context.Context, chid datatransfer.ChannelID) error {
	return t.rec(TCall{Call: "close", Chid: chid.String(), Msg: NoMsg()}, nil)
}
func (t *SimTransport) SetEventHandler(e datatransfer.EventsHandler) error { t.Events = e; return nil }
func (t *SimTransport) CleanupChannel(chid datatransfer.ChannelID) {
	_ = t.rec(TCall{Call: "cleanup", Chid: chid.String(), Msg: NoMsg()}, nil)
}
func (t *SimTransport) Shutdown(ctx context.Context) error {
	return t.rec(TCall{Call: "shutdown", Msg: NoMsg()}, nil)
}
func (t *SimTransport) PauseChannel(ctx context.Context, chid datatransfer.ChannelID) error {
	return t.rec(TCall{Call: "pause", Chid: chid.String(), Msg: NoMsg()}, nil)
}
func (t *SimTransport) ResumeChannel(ctx context.Context, msg datatransfer.Message, chid datatransfer.ChannelID) error {
	return t.rec(TCall{Call: "resume", Chid: chid.String(), Msg: DescribeMsg(msg)}, msg)
}
func (t *SimTransport) N() int {
	t.mu.Lock()
	defer t.mu.Unlock()
	return len(t.Calls)
}
func (t *SimTransport) Since(k int) []TCall {
	t.mu.Lock()
	defer t.mu.Unlock()
	out := make([]TCall, len(t.Calls)-k)
	copy(out, t.Calls[k:])
	return out
}

// ---- scripted validator ---------------------------------------------------------------------------------

// VRes is the abstract validation outcome.
type VRes struct {
	Err      bool   `json:"err"`
	Accepted bool   `json:"accepted"`
	VRes     string `json:"vres"` // voucher result name or ""
	Force    bool   `json:"force"`
	Limit    uint64 `json:"limit"`
	ReqFin   bool   `json:"reqFin"`
}

func (v VRes) Result() datatransfer.ValidationResult {
	r := datatransfer.ValidationResult{Accepted: v.Accepted, ForcePause: v.Force, DataLimit: v.Limit, RequiresFinalization: v.ReqFin}
	if v.VRes != "" {
		tv := Voucher(v.VRes)
		r.VoucherResult = &tv
	}
	return r
}

type VCall struct {
	VType  string `json:"vtype"`  // the voucher type this validator is registered for
	Method string `json:"method"` // push pull restart
	Chid   string `json:"chid"`
	From   string `json:"from"`
	V      string `json:"v"`
	Base   string `json:"base"`
	Sel    string `json:"sel"`
}

type ScriptValidator struct {
	Type  string
	mu    sync.Mutex
	Next  VRes
	Calls []VCall
	// During, if set, is called (outside mu) while the validator is being consulted: what happens to the channel DURING a (re)validation
	During func(method string)
}

func (s *ScriptValidator) out(c VCall) (datatransfer.ValidationResult, error) {
	s.mu.Lock()
	during := s.During
	s.mu.Unlock()
	if during != nil {
		during(c.Method)
	}
	s.mu.Lock()
	defer s.mu.Unlock()
	c.VType = s.Type
	s.Calls = append(s.Calls, c)
	if s.Next.Err {
		return s.Next.Result(), errors.New("validator error")
	}
	return s.Next.Result(), nil
}
func (s *ScriptValidator) ValidatePush(chid datatransfer.ChannelID, sender peer.ID, voucher datamodel.Node, baseCid cid.Cid, selector datamodel.Node) (datatransfer.ValidationResult, error) {
	return s.out(VCall{"", "push", chid.String(), PeerName(sender), VoucherName(datatransfer.TypedVoucher{Type: datatransfer.TypeIdentifier(s.Type), Voucher: voucher}), CidName(baseCid), SelectorName(selector)})
}
func (s *ScriptValidator) ValidatePull(chid datatransfer.ChannelID, receiver peer.ID, voucher datamodel.Node, baseCid cid.Cid, selector datamodel.Node) (datatransfer.ValidationResult, error) {
	return s.out(VCall{"", "pull", chid.String(), PeerName(receiver), VoucherName(datatransfer.TypedVoucher{Type: datatransfer.TypeIdentifier(s.Type), Voucher: voucher}), CidName(baseCid), SelectorName(selector)})
}
func (s *ScriptValidator) ValidateRestart(chid datatransfer.ChannelID, channel datatransfer.ChannelState) (datatransfer.ValidationResult, error) {
	return s.out(VCall{"", "restart", chid.String(), "", VoucherName(channel.Voucher()), CidName(channel.BaseCID()), SelectorName(channel.Selector())})
}
func (s *ScriptValidator) N() int {
	s.mu.Lock()
	defer s.mu.Unlock()
	return len(s.Calls)
}
func (s *ScriptValidator) Since(k int) []VCall {
	s.mu.Lock()
	defer s.mu.Unlock()
	out := make([]VCall, len(s.Calls)-k)
	copy(out, s.Calls[k:])
	return out
}

// ---- MgrNode: one real manager over the doubles -------------------------------------------------------------

type MgrNode struct {
	Self  string
	DS    *RecDS
	Net   *SimNet
	Tr    *SimTransport
	Val   map[string]*ScriptValidator // by voucher type
	M     datatransfer.Manager
	mu    sync.Mutex
	Anns  []Ann
	unsub datatransfer.Unsubscribe
}

// NewMgrNode creates and starts a manager; types = voucher types to register validators for.
func NewMgrNode(self string, ds *RecDS, types []string, opts ...impl.DataTransferOption) (*MgrNode, error) {
	n := &MgrNode{Self: self, DS: ds, Net: &SimNet{Self: Peer(self)}, Tr: &SimTransport{Fail: map[string][]bool{}}, Val: map[string]*ScriptValidator{}}
	m, err := impl.NewDataTransfer(ds, n.Net, n.Tr, opts...)
	if err != nil {
		return nil, err
	}
	n.M = m
	for _, ty := range types {
		v := &ScriptValidator{Type: ty, Next: VRes{Accepted: true}}
		n.Val[ty] = v
		if err := m.RegisterVoucherType(datatransfer.TypeIdentifier(ty), v); err != nil {
			return nil, err
		}
	}
	ready := make(chan error, 1)
	m.OnReady(func(err error) { ready <- err })
	if err := m.Start(context.Background()); err != nil {
		return nil, err
	}
	select {
	case err := <-ready:
		if err != nil {
			return nil, err
		}
	case <-time.After(10 * time.Second):
		return nil, errors.New("manager did not become ready")
	}
	n.unsub = m.SubscribeToEvents(func(evt datatransfer.Event, st datatransfer.ChannelState) {
		a := Ann{Chid: st.ChannelID().String(), Ev: EventName(evt.Code), View: Project(st)}
		n.mu.Lock()
		n.Anns = append(n.Anns, a)
		n.mu.Unlock()
	})
	return n, nil
}

func (n *MgrNode) Stop() {
	ctx, cancel := context.WithTimeout(context.Background(), 3*time.Second)
	defer cancel()
	_ = n.M.Stop(ctx)
}

func (n *MgrNode) NAnns() int {
	n.mu.Lock()
	defer n.mu.Unlock()
	return len(n.Anns)
}
func (n *MgrNode) AnnsSince(k int) []Ann {
	n.mu.Lock()
	defer n.mu.Unlock()
	out := make([]Ann, len(n.Anns)-k)
	copy(out, n.Anns[k:])
	return out
}

func (n *MgrNode) SetVal(v VRes) {
	for _, sv := range n.Val {
		sv.mu.Lock()
		sv.Next = v
		sv.mu.Unlock()
	}
}

// Quiesce flushes a channel through the manager's own query (see ChanNode.Quiesce for why three).
func (n *MgrNode) Quiesce(chid datatransfer.ChannelID) {
	type obs struct {
		b string
		e int
	}
	var hist []obs
	for i := 0; i < 12; i++ {
		ctx, cancel := context.WithTimeout(context.Background(), 5*time.Second)
		_, err := n.M.ChannelState(ctx, chid)
		cancel()
		if err != nil {
			return
		}
		hist = append(hist, obs{string(n.DS.Raw(DSKey(chid))), n.Tr.N()})
		k := len(hist)
		if k >= 3 && hist[k-1] == hist[k-2] && hist[k-2] == hist[k-3] {
			return
		}
	}
}

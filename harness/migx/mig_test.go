// Package migx replays the migration cases tabulated by spec/Mig.tla on the real code (C13):
// version-2 stores are written by kit.BuildV2Record (independent of the library's encoders), opened
// (a) by the real channels.New + Start and (b) by a real manager (impl.NewDataTransfer) with doubles
// for network and transport, and everything the property talks about is recorded for spec/MigJudge.tla.
package migx

import (
	"bufio"
	"context"
	"encoding/json"
	"errors"
	"fmt"
	"os"
	"sort"
	"sync"
	"testing"
	"testing/synctest"
	"time"

	datatransfer "github.com/filecoin-project/go-data-transfer/v2"
	"github.com/filecoin-project/go-data-transfer/v2/impl"
	"github.com/filecoin-project/go-data-transfer/v2/network"
	"github.com/ipld/go-ipld-prime"
	"github.com/ipld/go-ipld-prime/datamodel"
	cidlink "github.com/ipld/go-ipld-prime/linking/cid"
	peer "github.com/libp2p/go-libp2p/core/peer"
	"github.com/libp2p/go-libp2p/core/protocol"

	"verifharness/kit"
)

// ---- case format (lib/props/c13.py builds it from the rows tabulated by TLC) -----------------------

type chanDef struct {
	Name     string         `json:"name"`
	ID       int            `json:"id"`
	Ident    kit.Ident      `json:"ident"`
	R2       kit.V2Rec      `json:"r2"`
	StageLog []kit.MigStage `json:"stageLog"`
}
type lifeDef struct {
	Listeners int    `json:"listeners"`
	Late      int    `json:"late"`
	Hold      bool   `json:"hold"`
	Fault     string `json:"fault"` // none | queryErr | badRecord
}
type liveDef struct {
	C    string     `json:"c"`
	Op   string     `json:"op"` // a channels operation, or "reopen"
	Args kit.OpArgs `json:"args"`
}
type caseDef struct {
	Case     string    `json:"case"`
	Self     string    `json:"self"`
	Version  string    `json:"version"` // "2" or "" (no version key; only with an empty store)
	Restarts int       `json:"restarts"`
	Chans    []chanDef `json:"chans"`
	Life     lifeDef   `json:"life"`
	Live     []liveDef `json:"live"`
	PreChan  []string  `json:"preChan"`
	PreMgr   []string  `json:"preMgr"`
}

// ---- observation format ------------------------------------------------------------------------

type preObs struct {
	Attempt   int    `json:"attempt"`
	Phase     string `json:"phase"` // new | starting | failed
	Op        string `json:"op"`
	Ret       string `json:"ret"`
	Writes    int    `json:"writes"`
	Presented bool   `json:"presented"`
}
type listenerObs struct {
	ID     int      `json:"id"`
	Before bool     `json:"before"`
	Calls  int      `json:"calls"`
	Errs   []string `json:"errs"` // "nil" | "err"
}
type startObs struct {
	Attempt   int           `json:"attempt"` // 1.. ; attempts after the first run without fault
	Kind      string        `json:"kind"`    // open | reopen
	Fault     string        `json:"fault"`
	Held      bool          `json:"held"`
	Ret       string        `json:"ret"` // nil | err  (channels.Start result; for the manager: the outcome seen by listeners, or "none")
	Probe     string        `json:"probe"` // nil | err: can the store be used right after this start (ground truth for the announced outcome)
	Listeners []listenerObs `json:"listeners"`
}
type chanObs struct {
	Name       string         `json:"name"`
	Ident      kit.Ident      `json:"ident"`
	R2         kit.V2Rec      `json:"r2"`
	Found      bool           `json:"found"`
	Listed     bool           `json:"listed"`
	View       kit.View       `json:"view"`
	ViewStages []kit.MigStage `json:"viewStages"`
	ViewTotal  uint64         `json:"viewTotal"`
	StagePanic string         `json:"stagePanic"`
	HasRaw     bool           `json:"hasRaw"`
	Raw        kit.Rec        `json:"raw"`
	RawIdent   kit.Ident      `json:"rawIdent"`
	RawExtra   kit.RawExtra   `json:"rawExtra"`
}
type twinObs struct {
	Ret  string    `json:"ret"`
	Puts []kit.Rec `json:"puts"`
	Post kit.Rec   `json:"post"`
	Anns []string  `json:"anns"`
	NEnv int       `json:"nenv"`
}
type liveObs struct {
	kit.StepObs
	Name string  `json:"name"`
	Twin twinObs `json:"twin"`
}
type persistObs struct {
	Restart int      `json:"restart"`
	Diff    []string `json:"diff"` // channels whose accessor view / stage log changed across stop + reopen
}
type idemObs struct {
	Kind    string   `json:"kind"` // again (second Start on the same object) | reopen (fresh object on the migrated store)
	Restart int      `json:"restart"`
	Ret     string   `json:"ret"`
	Changed []string `json:"changed"` // keys whose bytes differ after Start
	Writes3 int      `json:"writes3"` // writes under /3/ during Start
}
type pathObs struct {
	API     string       `json:"api"` // chan | mgr
	Pre     []preObs     `json:"pre"`
	Starts  []startObs   `json:"starts"`
	Chans   []chanObs    `json:"chans"`
	NListed int          `json:"nListed"`
	Left2   int          `json:"left2"`
	Ver     string       `json:"ver"`
	Live    []liveObs    `json:"live"`
	Persist []persistObs `json:"persist"`
	Idem    []idemObs    `json:"idem"`
	Err     string       `json:"err"`
}
type caseObs struct {
	Case     string  `json:"case"`
	Size     int     `json:"size"`
	Restarts int     `json:"restarts"`
	Version  string  `json:"version"`
	Life     lifeDef `json:"life"`
	Chan     pathObs `json:"chan"`
	Mgr      pathObs `json:"mgr"`
}

func emptyPath(api string) pathObs {
	return pathObs{API: api, Pre: []preObs{}, Starts: []startObs{}, Chans: []chanObs{}, Live: []liveObs{}, Persist: []persistObs{}, Idem: []idemObs{}}
}

// ---- seeding -----------------------------------------------------------------------------------

const badKey = "/2/zzz-undecodable"

func seedImage(c caseDef, withBad bool) (map[string][]byte, error) {
	img := map[string][]byte{}
	if c.Version != "" {
		img[kit.VersionKey] = []byte(c.Version)
	}
	for _, cd := range c.Chans {
		b, err := kit.BuildV2Record(cd.Ident, cd.R2, cd.StageLog)
		if err != nil {
			return nil, fmt.Errorf("build v2 record %s: %w", cd.Name, err)
		}
		img[kit.V2Key(kit.MigChid(cd.Ident))] = b
	}
	if withBad {
		img[badKey] = []byte{0x82, 0x01, 0x02} // a CBOR array where ChannelStateV2 expects a map
	}
	return img, nil
}

func bg() (context.Context, context.CancelFunc) {
	return context.WithTimeout(context.Background(), 20*time.Second)
}

func errNE(err error) string {
	if err == nil {
		return "nil"
	}
	return "err"
}

// target of the refused operations: the first stored channel, or a phantom id on an empty store
func firstChid(c caseDef) (datatransfer.ChannelID, kit.Ident) {
	if len(c.Chans) > 0 {
		return kit.MigChid(c.Chans[0].Ident), c.Chans[0].Ident
	}
	id := kit.Ident{Self: c.Self, Initiator: c.Self, Responder: "B", Sender: c.Self, Recipient: "B", Tid: 777, Base: "base", Sel: "s"}
	return kit.MigChid(id), id
}

func writes3(ws []kit.DSWrite) int {
	n := 0
	for _, w := range ws {
		if len(w.Key) >= 3 && w.Key[:3] == "/3/" {
			n++
		}
	}
	return n
}

// ---- (a) channels.New + Start ------------------------------------------------------------------------

var argsFor = map[string]kit.OpArgs{
	"DataReceived": {Delta: 2, Index: 99, Unique: true}, "DataQueued": {Delta: 2, Index: 99, Unique: true}, "DataSent": {Delta: 2, Index: 99, Unique: true},
	"NewVoucher": {V: "v4"}, "NewVoucherResult": {V: "r4"}, "SetDataLimit": {Limit: 11}, "SetRequiresFinalization": {Flag: true},
	"Error": {Err: "e1"}, "Disconnected": {Err: "e1"},
}

func chanPreOps(n *kit.ChanNode, rec *kit.RecDS, c caseDef, attempt int, phase string, out *[]preObs) {
	chid, _ := firstChid(c)
	for i, op := range c.PreChan {
		w0 := rec.NWrites()
		o := preObs{Attempt: attempt, Phase: phase, Op: op}
		switch op {
		case "GetByID":
			ctx, cancel := bg()
			st, err := n.Ch.GetByID(ctx, chid)
			cancel()
			o.Ret, o.Presented = kit.MigErrClass(err), err == nil && st != nil
		case "HasChannel":
			has, err := n.Ch.HasChannel(chid)
			o.Ret, o.Presented = kit.MigErrClass(err), has
		case "InProgress":
			m, err := n.Ch.InProgress()
			o.Ret, o.Presented = kit.MigErrClass(err), len(m) > 0
		case "CreateNew":
			id := kit.Ident{Self: c.Self, Initiator: c.Self, Responder: "B", Sender: c.Self, Recipient: "B", Tid: uint64(900000 + attempt*1000 + i), Base: "base", Sel: "s"}
			if phase == "starting" {
				id.Tid += 500
			}
			_, err := n.Create(id, "v0")
			o.Ret = kit.MigErrClass(err)
		default:
			o.Ret = kit.MigErrClass(n.Do(chid, op, argsFor[op]))
		}
		o.Writes = rec.NWrites() - w0
		*out = append(*out, o)
	}
}

func projectChan(cd chanDef, st datatransfer.ChannelState, found bool, listed bool, raw []byte) (chanObs, error) {
	co := chanObs{Name: cd.Name, Ident: cd.Ident, R2: cd.R2, Found: found, Listed: listed, View: kit.EmptyView(), ViewStages: []kit.MigStage{},
		Raw: kit.EmptyRec(), RawExtra: kit.RawExtra{Stages: []kit.MigStage{}, Fields: []string{}}}
	if found {
		co.View = kit.Project(st)
		co.View.Sel = kit.MigSelName(co.View.Sel)
		co.ViewStages, co.StagePanic = kit.StagesOfState(st)
		func() {
			defer func() { _ = recover() }()
			co.ViewTotal = st.TotalSize()
		}()
	}
	if raw != nil {
		r, id, _, err := kit.RawFromBytes(raw)
		if err != nil {
			return co, err
		}
		id.Sel = kit.MigSelName(id.Sel)
		x, err := kit.RawExtraFromBytes(raw)
		if err != nil {
			return co, err
		}
		co.HasRaw, co.Raw, co.RawIdent, co.RawExtra = true, r, id, x
	}
	return co, nil
}

func viewKey(st datatransfer.ChannelState) string {
	v := kit.Project(st)
	sg, p := kit.StagesOfState(st)
	b, _ := json.Marshal([]interface{}{v, sg, p})
	return string(b)
}

func runChanPath(c caseDef) (po pathObs) {
	po = emptyPath("chan")
	defer func() {
		if r := recover(); r != nil {
			po.Err = fmt.Sprintf("panic: %v", r)
		}
	}()
	fault := c.Life.Fault
	img, err := seedImage(c, fault == "badRecord")
	if err != nil {
		po.Err = err.Error()
		return
	}
	var n *kit.ChanNode
	var rec *kit.RecDS
	ok := false
	for attempt := 1; attempt <= 2 && !ok; attempt++ {
		rec = kit.NewRecDSFrom(img)
		g := kit.NewGateDS(rec)
		so := startObs{Attempt: attempt, Kind: "open", Fault: "none", Listeners: []listenerObs{}}
		hold := false
		if attempt == 1 {
			so.Fault, hold = fault, c.Life.Hold
			if fault == "queryErr" {
				g.FailQuery = errors.New("injected query failure")
			}
		}
		n, err = kit.NewChanNodeOn(c.Self, rec, g)
		if err != nil {
			po.Err = "channels.New: " + err.Error()
			return
		}
		chanPreOps(n, rec, c, attempt, "new", &po.Pre)
		g.Arm(hold)
		var serr error
		sctx, scancel := context.WithCancel(context.Background())
		if hold {
			done := make(chan error, 1)
			go func() { done <- n.Ch.Start(sctx) }()
			select {
			case <-g.Arrived:
				so.Held = true
				chanPreOps(n, rec, c, attempt, "starting", &po.Pre)
				if so.Fault == "ctxCancel" { // the start context ends while the migration is in flight
					scancel()
				}
				g.Release()
				serr = <-done
			case serr = <-done:
			}
		} else {
			serr = n.Ch.Start(sctx)
		}
		so.Ret = errNE(serr)
		_, perr := n.Ch.InProgress()
		so.Probe = errNE(perr)
		_ = scancel
		po.Starts = append(po.Starts, so)
		if serr != nil {
			chanPreOps(n, rec, c, attempt, "failed", &po.Pre)
			img = rec.Snapshot()
			delete(img, badKey)
			continue
		}
		if perr != nil { // Start reported success, yet the store cannot be used (recorded: the judge compares ret with probe); open it again
			img = rec.Snapshot()
			n.Stop()
			continue
		}
		ok = true
	}
	if !ok {
		po.Err = "store could not be opened in two attempts"
		return
	}
	defer func() { n.Stop() }()

	// what is presented
	ids := map[string]datatransfer.ChannelID{}
	present := func() error {
		inprog, err := n.Ch.InProgress()
		if err != nil {
			return fmt.Errorf("InProgress: %w", err)
		}
		po.NListed = len(inprog)
		po.Chans = po.Chans[:0]
		for _, cd := range c.Chans {
			chid := kit.MigChid(cd.Ident)
			ids[cd.Name] = chid
			ctx, cancel := bg()
			st, gerr := n.Ch.GetByID(ctx, chid)
			cancel()
			_, listed := inprog[chid]
			co, err := projectChan(cd, st, gerr == nil, listed, rec.Raw(kit.DSKey(chid)))
			if err != nil {
				return err
			}
			po.Chans = append(po.Chans, co)
		}
		snap := rec.Snapshot()
		po.Left2 = len(kit.Under(snap, "/2/"))
		po.Ver = string(snap[kit.VersionKey])
		return nil
	}
	if err := present(); err != nil {
		po.Err = err.Error()
		return
	}
	// Start again on the same object
	{
		before, w0 := rec.Snapshot(), rec.NWrites()
		ctx, cancel := bg()
		err := n.Ch.Start(ctx)
		cancel()
		po.Idem = append(po.Idem, idemObs{Kind: "again", Ret: errNE(err), Changed: kit.DiffKeys(before, rec.Snapshot()), Writes3: writes3(rec.WritesSince(w0))})
	}
	// migrated channels accept events like native ones (twin = natively created channel holding the same record)
	twin, err := kit.NewChanNode(c.Self, kit.NewRecDS())
	if err != nil {
		po.Err = "twin: " + err.Error()
		return
	}
	defer func() { twin.Stop() }()
	twinIDs := map[string]datatransfer.ChannelID{}
	restart := 0
	for i, lv := range c.Live {
		if lv.Op == "reopen" {
			restart++
			before := map[string]string{}
			for name, chid := range ids {
				st, err := n.Quiesce(chid)
				if err != nil {
					po.Err = "quiesce before reopen: " + err.Error()
					return
				}
				before[name] = viewKey(st)
			}
			n.Stop()
			img := rec.Snapshot()
			rec = kit.NewRecDSFrom(img)
			g := kit.NewGateDS(rec)
			n, err = kit.NewChanNodeOn(c.Self, rec, g)
			if err != nil {
				po.Err = "reopen: " + err.Error()
				return
			}
			g.Arm(false)
			w0 := rec.NWrites()
			ctx, cancel := bg()
			serr := n.Ch.Start(ctx)
			cancel()
			po.Starts = append(po.Starts, startObs{Attempt: len(po.Starts) + 1, Kind: "reopen", Fault: "none", Ret: errNE(serr), Listeners: []listenerObs{}})
			po.Idem = append(po.Idem, idemObs{Kind: "reopen", Restart: restart, Ret: errNE(serr), Changed: kit.DiffKeys(img, rec.Snapshot()), Writes3: writes3(rec.WritesSince(w0))})
			pe := persistObs{Restart: restart, Diff: []string{}}
			for name, chid := range ids {
				ctx, cancel := bg()
				st, err := n.Ch.GetByID(ctx, chid)
				cancel()
				if err != nil || viewKey(st) != before[name] {
					pe.Diff = append(pe.Diff, name)
				}
			}
			sort.Strings(pe.Diff)
			po.Persist = append(po.Persist, pe)
			// the twin is reopened too so that both sides start from fresh caches
			twin.Stop()
			twin, err = kit.NewChanNode(c.Self, kit.NewRecDSFrom(twin.DS.Snapshot()))
			if err != nil {
				po.Err = "twin reopen: " + err.Error()
				return
			}
			ro := liveObs{StepObs: kit.EmptyStepObs(), Twin: twinObs{Puts: []kit.Rec{}, Post: kit.EmptyRec(), Anns: []string{}}}
			ro.Case, ro.I, ro.Op = c.Case, i+1, "reopen"
			po.Live = append(po.Live, ro)
			continue
		}
		chid, okc := ids[lv.C]
		if !okc {
			po.Err = "live step on unknown channel " + lv.C
			return
		}
		tid, have := twinIDs[lv.C]
		if !have {
			r, id, err := n.Raw(chid)
			if err != nil {
				po.Err = "live pre: " + err.Error()
				return
			}
			tid, err = twin.Seed(id, r)
			if err != nil {
				po.Err = "twin seed: " + err.Error()
				return
			}
			twinIDs[lv.C] = tid
		}
		o := n.Step(chid, lv.Op, lv.Args)
		o.Case, o.I = c.Case, i+1
		t := twin.Step(tid, lv.Op, lv.Args)
		if t.Err != "" && o.Err == "" {
			o.Err = "twin: " + t.Err
		}
		tw := twinObs{Ret: t.Ret, Puts: t.Puts, Post: t.Post, Anns: []string{}, NEnv: len(t.Env)}
		for _, a := range t.Ann {
			tw.Anns = append(tw.Anns, a.Ev)
		}
		po.Live = append(po.Live, liveObs{StepObs: o, Name: lv.C, Twin: tw})
	}
	return
}

// ---- (b) real manager -------------------------------------------------------------------------------

type simNet struct {
	id   peer.ID
	mu   sync.Mutex
	sent int
	recv network.Receiver
}

func (s *simNet) Protect(id peer.ID, tag string)        {}
func (s *simNet) Unprotect(id peer.ID, tag string) bool { return false }
func (s *simNet) SendMessage(ctx context.Context, p peer.ID, m datatransfer.Message) error {
	s.mu.Lock()
	s.sent++
	s.mu.Unlock()
	return nil
}
func (s *simNet) SetDelegate(r network.Receiver)                          { s.mu.Lock(); s.recv = r; s.mu.Unlock() }
func (s *simNet) ConnectTo(context.Context, peer.ID) error                { return nil }
func (s *simNet) ConnectWithRetry(ctx context.Context, p peer.ID) error   { return nil }
func (s *simNet) ID() peer.ID                                             { return s.id }
func (s *simNet) Protocol(context.Context, peer.ID) (protocol.ID, error) { return "/fil/datatransfer/1.2.0", nil }

type simTransport struct {
	mu      sync.Mutex
	calls   []string
	handler datatransfer.EventsHandler
}

func (t *simTransport) log(s string) { t.mu.Lock(); t.calls = append(t.calls, s); t.mu.Unlock() }
func (t *simTransport) OpenChannel(ctx context.Context, dataSender peer.ID, channelID datatransfer.ChannelID, root ipld.Link, stor datamodel.Node, channel datatransfer.ChannelState, msg datatransfer.Message) error {
	t.log("open")
	return nil
}
func (t *simTransport) CloseChannel(ctx context.Context, chid datatransfer.ChannelID) error {
	t.log("close")
	return nil
}
func (t *simTransport) SetEventHandler(events datatransfer.EventsHandler) error {
	t.mu.Lock()
	t.handler = events
	t.mu.Unlock()
	return nil
}
func (t *simTransport) CleanupChannel(chid datatransfer.ChannelID) { t.log("cleanup") }
func (t *simTransport) Shutdown(ctx context.Context) error            { return nil }
func (t *simTransport) PauseChannel(ctx context.Context, chid datatransfer.ChannelID) error {
	t.log("pause")
	return nil
}
func (t *simTransport) ResumeChannel(ctx context.Context, msg datatransfer.Message, chid datatransfer.ChannelID) error {
	t.log("resume")
	return nil
}

type listeners struct {
	mu    sync.Mutex
	calls map[int][]string
}

func (l *listeners) fn(i int) datatransfer.ReadyFunc {
	return func(err error) {
		l.mu.Lock()
		l.calls[i] = append(l.calls[i], errNE(err))
		l.mu.Unlock()
	}
}
func (l *listeners) obs(nBefore, nLate int) []listenerObs {
	l.mu.Lock()
	defer l.mu.Unlock()
	out := []listenerObs{}
	for i := 0; i < nBefore+nLate; i++ {
		e := l.calls[i]
		if e == nil {
			e = []string{}
		}
		out = append(out, listenerObs{ID: i, Before: i < nBefore, Calls: len(e), Errs: append([]string{}, e...)})
	}
	return out
}

func mgrPreOps(m datatransfer.Manager, rec *kit.RecDS, c caseDef, attempt int, phase string, out *[]preObs) {
	chid, id := firstChid(c)
	eh, _ := m.(datatransfer.EventsHandler)
	for _, op := range c.PreMgr {
		ctx, cancel := bg()
		w0 := rec.NWrites()
		o := preObs{Attempt: attempt, Phase: phase, Op: op}
		var err error
		skip := false
		switch op {
		case "ChannelState":
			var st datatransfer.ChannelState
			st, err = m.ChannelState(ctx, chid)
			o.Presented = err == nil && st != nil
		case "TransferChannelStatus":
			s := m.TransferChannelStatus(ctx, chid)
			if s == datatransfer.ChannelNotFoundError {
				err = datatransfer.ErrChannelNotFound
			} else {
				o.Presented = true
			}
		case "InProgressChannels":
			var mp map[datatransfer.ChannelID]datatransfer.ChannelState
			mp, err = m.InProgressChannels(ctx)
			o.Presented = len(mp) > 0
		case "OpenPushDataChannel":
			_, err = m.OpenPushDataChannel(ctx, kit.Peer("B"), kit.Voucher("v0"), kit.Cid("base"), kit.Selector("s"))
		case "OpenPullDataChannel":
			_, err = m.OpenPullDataChannel(ctx, kit.Peer("B"), kit.Voucher("v0"), kit.Cid("base"), kit.Selector("s"))
		case "SendVoucher":
			err = m.SendVoucher(ctx, chid, kit.Voucher("v4"))
		case "SendVoucherResult":
			err = m.SendVoucherResult(ctx, chid, kit.Voucher("r4"))
		case "CloseDataTransferChannel":
			err = m.CloseDataTransferChannel(ctx, chid)
		case "PauseDataTransferChannel":
			err = m.PauseDataTransferChannel(ctx, chid)
		case "ResumeDataTransferChannel":
			err = m.ResumeDataTransferChannel(ctx, chid)
		case "RestartDataTransferChannel":
			err = m.RestartDataTransferChannel(ctx, chid)
		case "UpdateValidationStatus":
			if id.Initiator == c.Self {
				skip = true // refused for an unrelated reason (we are the initiator)
			} else {
				err = m.UpdateValidationStatus(ctx, chid, datatransfer.ValidationResult{Accepted: true})
			}
		case "OnChannelOpened":
			err = eh.OnChannelOpened(chid)
		case "OnDataReceived":
			err = eh.OnDataReceived(chid, cidlink.Link{Cid: kit.Cid("blk")}, 2, 99, true)
		case "OnRequestCancelled":
			err = eh.OnRequestCancelled(chid, errors.New("e1"))
		case "OnChannelCompleted":
			err = eh.OnChannelCompleted(chid, nil)
		default:
			err = fmt.Errorf("unknown manager op %s", op)
		}
		cancel()
		if skip {
			continue
		}
		o.Ret = kit.MigErrClass(err)
		o.Writes = rec.NWrites() - w0
		*out = append(*out, o)
	}
}

// runMgrPath must be called inside a synctest bubble: synctest.Wait() is the quiescence point after
// which the migration goroutine has either parked at the gate or published the ready event.
func runMgrPath(c caseDef) (po pathObs) {
	po = emptyPath("mgr")
	defer func() {
		if r := recover(); r != nil {
			po.Err = fmt.Sprintf("panic: %v", r)
		}
	}()
	fault := c.Life.Fault
	img, err := seedImage(c, fault == "badRecord")
	if err != nil {
		po.Err = err.Error()
		return
	}
	var m datatransfer.Manager
	var rec *kit.RecDS
	stop := func() {
		if m != nil {
			ctx, cancel := bg()
			_ = m.Stop(ctx)
			cancel()
			synctest.Wait()
		}
	}
	open := func(img map[string][]byte, attempt int, kind, fault string, hold bool) (bool, error) {
		rec = kit.NewRecDSFrom(img)
		g := kit.NewGateDS(rec)
		if fault == "queryErr" {
			g.FailQuery = errors.New("injected query failure")
		}
		var err error
		m, err = impl.NewDataTransfer(g, &simNet{id: kit.Peer(c.Self)}, &simTransport{})
		if err != nil {
			return false, fmt.Errorf("NewDataTransfer: %w", err)
		}
		ls := &listeners{calls: map[int][]string{}}
		for i := 0; i < c.Life.Listeners; i++ {
			m.OnReady(ls.fn(i))
		}
		so := startObs{Attempt: attempt, Kind: kind, Fault: fault}
		if kind == "open" {
			mgrPreOps(m, rec, c, attempt, "new", &po.Pre)
		}
		g.Arm(hold)
		sctx, scancel := context.WithCancel(context.Background())
		_ = scancel
		if err := m.Start(sctx); err != nil {
			return false, fmt.Errorf("manager Start: %w", err)
		}
		synctest.Wait()
		if hold {
			select {
			case <-g.Arrived:
				so.Held = true
				mgrPreOps(m, rec, c, attempt, "starting", &po.Pre)
				if fault == "ctxCancel" { // the start context ends while the migration is in flight
					scancel()
				}
				g.Release()
				synctest.Wait()
			default:
			}
		}
		for i := 0; i < c.Life.Late; i++ {
			m.OnReady(ls.fn(c.Life.Listeners + i))
		}
		synctest.Wait()
		so.Listeners = ls.obs(c.Life.Listeners, c.Life.Late)
		// outcome as the module itself reports it afterwards
		ctx, cancel := bg()
		_, ierr := m.InProgressChannels(ctx)
		cancel()
		so.Ret = errNE(ierr)
		so.Probe = so.Ret
		po.Starts = append(po.Starts, so)
		return ierr == nil, nil
	}
	ok := false
	for attempt := 1; attempt <= 2 && !ok; attempt++ {
		f, hold := "none", false
		if attempt == 1 {
			f, hold = fault, c.Life.Hold
		}
		ok, err = open(img, attempt, "open", f, hold)
		if err != nil {
			po.Err = err.Error()
			stop()
			return
		}
		if !ok {
			mgrPreOps(m, rec, c, attempt, "failed", &po.Pre)
			img = rec.Snapshot()
			delete(img, badKey)
			stop()
		}
	}
	if !ok {
		po.Err = "store could not be opened in two attempts"
		return
	}
	defer stop()
	ctx, cancel := bg()
	inprog, err := m.InProgressChannels(ctx)
	cancel()
	if err != nil {
		po.Err = "InProgressChannels: " + err.Error()
		return
	}
	po.NListed = len(inprog)
	before := map[string]string{}
	for _, cd := range c.Chans {
		chid := kit.MigChid(cd.Ident)
		ctx, cancel := bg()
		st, gerr := m.ChannelState(ctx, chid)
		cancel()
		_, listed := inprog[chid]
		co, err := projectChan(cd, st, gerr == nil, listed, rec.Raw(kit.DSKey(chid)))
		if err != nil {
			po.Err = err.Error()
			return
		}
		if gerr == nil {
			before[cd.Name] = viewKey(st)
		}
		po.Chans = append(po.Chans, co)
	}
	snap := rec.Snapshot()
	po.Left2 = len(kit.Under(snap, "/2/"))
	po.Ver = string(snap[kit.VersionKey])
	if c.Restarts >= 1 {
		stop()
		img := rec.Snapshot()
		if _, err := open(img, len(po.Starts)+1, "reopen", "none", false); err != nil {
			po.Err = err.Error()
			return
		}
		ws := rec.WritesSince(0)
		po.Idem = append(po.Idem, idemObs{Kind: "reopen", Restart: 1, Ret: po.Starts[len(po.Starts)-1].Ret, Changed: kit.DiffKeys(img, rec.Snapshot()), Writes3: writes3(ws)})
		pe := persistObs{Restart: 1, Diff: []string{}}
		for _, cd := range c.Chans {
			ctx, cancel := bg()
			st, err := m.ChannelState(ctx, kit.MigChid(cd.Ident))
			cancel()
			if err != nil || viewKey(st) != before[cd.Name] {
				pe.Diff = append(pe.Diff, cd.Name)
			}
		}
		po.Persist = append(po.Persist, pe)
	}
	return
}

// ---- driver -----------------------------------------------------------------------------------------

func readCases(t *testing.T, path string) []caseDef {
	f, err := os.Open(path)
	if err != nil {
		t.Fatal(err)
	}
	defer f.Close()
	var out []caseDef
	sc := bufio.NewScanner(f)
	sc.Buffer(make([]byte, 1<<20), 1<<26)
	for sc.Scan() {
		if len(sc.Bytes()) == 0 {
			continue
		}
		var c caseDef
		if err := json.Unmarshal(sc.Bytes(), &c); err != nil {
			t.Fatal(err)
		}
		out = append(out, c)
	}
	return out
}

// TestMig: VERIF_CASES (ndjson of caseDef) -> VERIF_OUT (ndjson of caseObs).
func TestMig(t *testing.T) {
	in, out := os.Getenv("VERIF_CASES"), os.Getenv("VERIF_OUT")
	if in == "" || out == "" {
		t.Skip("VERIF_CASES / VERIF_OUT not set")
	}
	cases := readCases(t, in)
	of, err := os.Create(out)
	if err != nil {
		t.Fatal(err)
	}
	defer of.Close()
	w := bufio.NewWriterSize(of, 1<<20)
	defer w.Flush()
	enc := json.NewEncoder(w)
	for _, c := range cases {
		co := caseObs{Case: c.Case, Size: len(c.Chans), Restarts: c.Restarts, Version: c.Version, Life: c.Life}
		co.Chan = runChanPath(c)
		synctest.Test(t, func(t *testing.T) { co.Mgr = runMgrPath(c) })
		if err := enc.Encode(co); err != nil {
			t.Fatal(err)
		}
	}
}

package lockx

import (
	"context"
	"encoding/json"
	"errors"
	"os"
	"sync"
	"testing"
	"time"

	datatransfer "github.com/filecoin-project/go-data-transfer/v2"
	"github.com/filecoin-project/go-data-transfer/v2/channels"
	dtimpl "github.com/filecoin-project/go-data-transfer/v2/impl"
	"github.com/filecoin-project/go-data-transfer/v2/message"
	gst "github.com/filecoin-project/go-data-transfer/v2/transport/graphsync"
	"github.com/filecoin-project/go-data-transfer/v2/transport/graphsync/testharness"
	"github.com/ipfs/go-graphsync"
	"verifharness/kit"
)

// TestCallbackDuringCleanup: real manager + real graphsync adapter (fake GraphExchange). A responder channel with a tracked graphsync request is
// cancelled; its cleanup handler is held (tag-guarded gate in channels.cleanupConnection) BEFORE it releases the transport channel. While it is held,
// graphsync calls back into the adapter - a network error on the receiving / sending side, a block - for that channel's request: the adapter holds
// its own locks (request map read lock, channel lock) across the call into the manager. Then the handler is let go. Every callback has returned by
// then or returns now, and the channel settles in Cancelled: nothing the manager does in a callback may wait for the handler that needs those locks.
func TestCallbackDuringCleanup(t *testing.T) {
	out := os.Getenv("VERIF_OUT")
	if out == "" {
		t.Skip("VERIF_OUT not set")
	}
	of, err := os.Create(out)
	if err != nil {
		t.Fatal(err)
	}
	defer of.Close()
	enc := json.NewEncoder(of)
	for _, cb := range []string{"receiverNetworkError", "networkError", "incomingBlock"} {
		o := monOverlapObs{Case: "cbcleanup-" + cb, Scenario: "cleanupHandler||" + cb, Frames: []string{}}
		fgs := testharness.NewFakeGraphSync()
		self, other := kit.Peer("A"), kit.Peer("B")
		tr := gst.NewTransport(self, fgs)
		net := &kit.SimNet{Self: self}
		m, err := dtimpl.NewDataTransfer(kit.NewRecDS(), net, tr)
		if err != nil {
			t.Fatal(err)
		}
		val := &kit.ScriptValidator{Type: "vt", Next: kit.VRes{Accepted: true}}
		_ = m.RegisterVoucherType("vt", val)
		ready := make(chan error, 1)
		m.OnReady(func(e error) { ready <- e })
		if err := m.Start(context.Background()); err != nil {
			t.Fatal(err)
		}
		<-ready
		// a pull request arrives on graphsync: we respond (send data); the request is tracked by the adapter
		v := kit.Voucher("v0")
		req, _ := message.NewRequest(7, false, true, &v, kit.Cid("base"), kit.Selector("s"))
		rid := graphsync.NewRequestID()
		fgs.IncomingRequestHook(other, testharness.NewFakeRequest(rid, extFor(t, req), graphsync.RequestTypeNew), &testharness.FakeIncomingRequestHookActions{})
		chid := datatransfer.ChannelID{Initiator: other, Responder: self, ID: 7}
		held := make(chan struct{}, 1)
		release := make(chan struct{})
		var once sync.Once
		channels.VerifGate = func(point string, s string, c datatransfer.ChannelID) {
			if point == "cleanup.before" && c == chid {
				once.Do(func() {
					held <- struct{}{}
					<-release
				})
			}
		}
		closed := make(chan struct{})
		go func() { _ = m.CloseDataTransferChannel(context.Background(), chid); close(closed) }()
		select {
		case <-held:
		case <-time.After(3 * time.Second):
			o.Err = "the cleanup handler did not start"
			close(release)
			channels.VerifGate = nil
			_ = enc.Encode(o)
			continue
		}
		cbDone := make(chan struct{})
		go func() {
			defer close(cbDone)
			switch cb {
			case "receiverNetworkError":
				if fgs.ReceiverNetworkErrorListener != nil {
					fgs.ReceiverNetworkErrorListener(other, errors.New("link down"))
				}
			case "networkError":
				if fgs.NetworkErrorListener != nil {
					fgs.NetworkErrorListener(other, testharness.NewFakeRequest(rid, nil, graphsync.RequestTypeNew), errors.New("link down"))
				}
			case "incomingBlock":
				if fgs.OutgoingBlockHook != nil {
					fgs.OutgoingBlockHook(other, testharness.NewFakeRequest(rid, nil, graphsync.RequestTypeNew), testharness.NewFakeBlockData(100, 1, true), &testharness.FakeOutgoingBlockHookActions{})
				}
			}
		}()
		time.Sleep(200 * time.Millisecond) // the callback is inside the adapter / manager now (or has returned already)
		close(release)
		ok := true
		select {
		case <-cbDone:
		case <-time.After(3 * time.Second):
			ok = false
		}
		deadline := time.Now().Add(3 * time.Second)
		for ok && time.Now().Before(deadline) {
			sctx, cancel := context.WithTimeout(context.Background(), time.Second)
			st, err := m.ChannelState(sctx, chid)
			cancel()
			if err == nil && st.Status() == datatransfer.Cancelled {
				o.Final = "Cancelled"
				break
			}
			time.Sleep(5 * time.Millisecond)
		}
		if ok && o.Final == "Cancelled" {
			select {
			case <-closed:
				o.Returned = true
			case <-time.After(2 * time.Second):
			}
		}
		if !o.Returned {
			o.Frames = libFrames()
		}
		channels.VerifGate = nil
		if o.Returned {
			sctx, cancel := context.WithTimeout(context.Background(), 2*time.Second)
			_ = m.Stop(sctx)
			cancel()
		}
		_ = enc.Encode(o)
	}
}

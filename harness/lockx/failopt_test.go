package lockx

import (
	"context"
	"encoding/json"
	"errors"
	"os"
	"testing"
	"time"

	datatransfer "github.com/filecoin-project/go-data-transfer/v2"
	"verifharness/kit"
)

// TestFailingOption: a transfer is opened with a per-transfer transport option that returns an error (the open fails, as it should).
// Whatever the manager does afterwards with its tables of per-channel options - another open with options, closing the failed channel
// (its cleanup clears the options), a query of that channel, Stop - has to return: a fault path must not leave a library lock held.
func TestFailingOption(t *testing.T) {
	out := os.Getenv("VERIF_OUT")
	if out == "" {
		t.Skip("VERIF_OUT not set")
	}
	of, err := os.Create(out)
	if err != nil {
		t.Fatal(err)
	}
	defer of.Close()
	enc := json.NewEncoder(of)
	bad := datatransfer.WithTransportOptions(func(datatransfer.ChannelID, datatransfer.Transport) error { return errors.New("option refused") })
	good := datatransfer.WithTransportOptions(func(datatransfer.ChannelID, datatransfer.Transport) error { return nil })
	for _, dir := range []string{"push", "pull"} {
		for _, via := range []string{"perTransfer", "configurer"} {
			for _, then := range []string{"openAgain", "closeAndQuery", "stop"} {
				o := monOverlapObs{Case: "failopt-" + dir + "-" + via + "-" + then, Scenario: "failingOption:" + via + ";" + then, Frames: []string{}}
				n, err := kit.NewMgrNode("A", kit.NewRecDS(), []string{"vt"})
				if err != nil {
					o.Err = "node: " + err.Error()
					_ = enc.Encode(o)
					continue
				}
				ctx := context.Background()
				other := kit.Peer("B")
				open := func(opts ...datatransfer.TransferOption) (datatransfer.ChannelID, error) {
					if dir == "pull" {
						return n.M.OpenPullDataChannel(ctx, other, kit.Voucher("v0"), kit.Cid("base"), kit.Selector("s"), opts...)
					}
					return n.M.OpenPushDataChannel(ctx, other, kit.Voucher("v0"), kit.Cid("base"), kit.Selector("s"), opts...)
				}
				calls := 0
				if via == "configurer" {
					// the voucher type's transport configurer returns a failing option for the first channel only
					_ = n.M.RegisterTransportConfigurer(datatransfer.TypeIdentifier("vt"), func(datatransfer.ChannelID, datatransfer.TypedVoucher) []datatransfer.TransportOption {
						calls++
						if calls == 1 {
							return []datatransfer.TransportOption{func(datatransfer.ChannelID, datatransfer.Transport) error { return errors.New("option refused") }}
						}
						return []datatransfer.TransportOption{func(datatransfer.ChannelID, datatransfer.Transport) error { return nil }}
					})
				}
				done := make(chan string, 1)
				go func() {
					var chid datatransfer.ChannelID
					var err error
					if via == "perTransfer" {
						chid, err = open(bad)
					} else {
						chid, err = open()
					}
					_ = err // the open may fail or not (a configurer's failing option is only logged); what matters is what comes after
					switch then {
					case "openAgain":
						_, _ = open(good)
					case "closeAndQuery":
						_ = n.M.CloseDataTransferChannel(ctx, chid)
						qctx, cancel := context.WithTimeout(ctx, 2*time.Second)
						_, _ = n.M.ChannelState(qctx, chid)
						cancel()
						_, _ = open(good)
					}
					sctx, cancel := context.WithTimeout(context.Background(), 10*time.Second)
					_ = n.M.Stop(sctx)
					cancel()
					done <- "ok"
				}()
				select {
				case <-done:
					o.Returned = true
				case <-time.After(6 * time.Second):
					o.Frames = libFrames()
				}
				_ = enc.Encode(o)
			}
		}
	}
}

package lockx

import (
	"context"
	"encoding/json"
	"errors"
	"os"
	"sync"
	"testing"
	"time"

	datatransfer "github.com/filecoin-project/go-data-transfer/v2"
	"github.com/filecoin-project/go-data-transfer/v2/channelmonitor"
	"github.com/filecoin-project/go-data-transfer/v2/impl"
	cidlink "github.com/ipld/go-ipld-prime/linking/cid"
	"verifharness/kit"
)

// TestMonitorOverlap: a real manager with its real channel monitor. While the monitor's restart attempt is inside the manager
// (held at the hand-over of the restart request), another event of the monitored channel is PUBLISHED: the notifier holds the
// subscriber table's read lock and is held up by an earlier subscriber, i.e. it has not yet reached the monitor's own callback.
// Then the attempt is let go - it fails for good (the monitor gives up: shuts down, unsubscribes, closes the channel with an error)
// or succeeds - and only then is the notifier let go. Every goroutine has to come to rest: the channel fails (give-up) or stays
// alive (success), the event is delivered, Stop returns.
// Real time: library mutexes are involved, and a goroutine parked on a sync.Mutex is not durably blocked for testing/synctest.
type monOverlapObs struct {
	Case     string   `json:"case"`
	Scenario string   `json:"scenario"`
	Returned bool     `json:"returned"` // everything came to rest within the watchdog
	Final    string   `json:"final"`
	Frames   []string `json:"frames"`
	Err      string   `json:"err"`
}

func TestMonitorOverlap(t *testing.T) {
	out := os.Getenv("VERIF_OUT")
	if out == "" {
		t.Skip("VERIF_OUT not set")
	}
	of, err := os.Create(out)
	if err != nil {
		t.Fatal(err)
	}
	defer of.Close()
	enc := json.NewEncoder(of)
	for _, end := range []string{"giveUp", "success"} {
		for _, evk := range []string{"data", "error", "cancel"} {
			for _, dir := range []string{"push", "pull"} {
				_ = enc.Encode(runMonOverlap(end, evk, dir))
			}
		}
	}
}

func runMonOverlap(end, evk, dir string) monOverlapObs {
	o := monOverlapObs{Case: "monoverlap-" + end + "-" + evk + "-" + dir, Scenario: "monitor:" + end + "||" + evk, Frames: []string{}}
	cfg := channelmonitor.Config{MaxConsecutiveRestarts: 1, RestartDebounce: 5 * time.Millisecond, RestartBackoff: 5 * time.Millisecond}
	n, err := kit.NewMgrNode("A", kit.NewRecDS(), []string{"vt"}, impl.ChannelRestartConfig(cfg))
	if err != nil {
		o.Err = "node: " + err.Error()
		return o
	}
	ctx := context.Background()
	other := kit.Peer("B")
	pull := dir == "pull"
	// a subscriber registered BEFORE the channel is opened runs before the monitor's own callback: it holds the notifier up
	var mu sync.Mutex
	holdEv := ""
	held := make(chan struct{}, 1)
	release := make(chan struct{})
	var once sync.Once
	n.M.SubscribeToEvents(func(evt datatransfer.Event, st datatransfer.ChannelState) {
		mu.Lock()
		want := holdEv
		mu.Unlock()
		if want != "" && kit.EventName(evt.Code) == want {
			once.Do(func() {
				held <- struct{}{}
				<-release
			})
		}
	})
	var chid datatransfer.ChannelID
	if pull {
		chid, err = n.M.OpenPullDataChannel(ctx, other, kit.Voucher("v0"), kit.Cid("base"), kit.Selector("s"))
	} else {
		chid, err = n.M.OpenPushDataChannel(ctx, other, kit.Voucher("v0"), kit.Cid("base"), kit.Selector("s"))
	}
	if err != nil {
		o.Err = "open: " + err.Error()
		return o
	}
	acc, _ := kit.BuildMsg(kit.Msg{Kind: "New", Tid: uint64(chid.ID), Accepted: true})
	if pull {
		_ = n.Tr.Events.OnResponseReceived(chid, acc.(datatransfer.Response))
	} else {
		n.Net.Recv.ReceiveResponse(ctx, other, acc.(datatransfer.Response))
	}
	n.Tr.Events.OnTransferInitiated(chid)
	n.Quiesce(chid)
	// the hand-over of the restart request is held (and fails, for "giveUp")
	atSend := make(chan struct{}, 4)
	sendGo := make(chan struct{})
	if pull {
		if end == "giveUp" {
			n.Tr.Fail["open"] = []bool{true, true, true, true}
		}
		n.Tr.Gate = func(c kit.TCall) {
			if c.Call == "open" && c.HasChan {
				atSend <- struct{}{}
				<-sendGo
			}
		}
	} else {
		if end == "giveUp" {
			n.Net.SendFail = []bool{true, true, true, true}
		}
		n.Net.OnSendCall = func(c kit.NetCall) {
			if c.Msg.Kind == "Restart" && c.Msg.IsReq {
				atSend <- struct{}{}
				<-sendGo
			}
		}
	}
	link := cidlink.Link{Cid: kit.Cid("blk")}
	errEv := "SendDataError"
	fireErr := func() { _ = n.Tr.Events.OnSendDataError(chid, errors.New("link down")) }
	if pull {
		errEv = "ReceiveDataError"
		fireErr = func() { _ = n.Tr.Events.OnReceiveDataError(chid, errors.New("link down")) }
	}
	fire := func() {
		switch evk {
		case "data":
			if pull {
				_ = n.Tr.Events.OnDataReceived(chid, link, 10, 1, true)
			} else {
				_ = n.Tr.Events.OnDataSent(chid, link, 10, 1, true)
			}
		case "error":
			fireErr()
		case "cancel":
			c, _ := kit.BuildMsg(kit.Msg{Kind: "Cancel", Tid: uint64(chid.ID)})
			if pull {
				_ = n.Tr.Events.OnResponseReceived(chid, c.(datatransfer.Response))
			} else {
				n.Net.Recv.ReceiveResponse(ctx, other, c.(datatransfer.Response))
			}
		}
	}
	done := make(chan string, 1)
	go func() {
		// 1. the error that starts the restart cycle; wait until the attempt is inside the manager, at the hand-over
		fireErr()
		select {
		case <-atSend:
		case <-time.After(3 * time.Second):
			close(sendGo)
			close(release)
			done <- "the monitor did not attempt a restart"
			return
		}
		// 2. another event of the channel: its publication is held up before it reaches the monitor's callback
		mu.Lock()
		holdEv = map[string]string{"data": map[bool]string{true: "DataReceived", false: "DataSent"}[pull], "error": errEv, "cancel": "Cancel"}[evk]
		mu.Unlock()
		go fire()
		select {
		case <-held:
		case <-time.After(3 * time.Second):
			close(sendGo)
			close(release)
			done <- "the second event was not announced"
			return
		}
		// 3. let the attempt go (it fails for good / succeeds), give the restart loop time to reach its end, then let the notifier go
		close(sendGo)
		time.Sleep(150 * time.Millisecond)
		close(release)
		// 4. everything comes to rest
		deadline := time.Now().Add(4 * time.Second)
		want := map[string]bool{"Failed": end == "giveUp" && evk != "cancel", "Cancelled": evk == "cancel", "Ongoing": end == "success" && evk != "cancel"}
		for time.Now().Before(deadline) {
			sctx, cancel := context.WithTimeout(context.Background(), time.Second)
			st, err := n.M.ChannelState(sctx, chid)
			cancel()
			if err == nil && (want[kit.StatusName(st.Status())] || (evk == "cancel" && kit.StatusName(st.Status()) == "Failed")) {
				time.Sleep(50 * time.Millisecond) // a queued second restart (evk = error) may still be running
				done <- ""
				return
			}
			time.Sleep(5 * time.Millisecond)
		}
		done <- "not settled"
	}()
	select {
	case e := <-done:
		if e == "" {
			sctx, cancel := context.WithTimeout(context.Background(), time.Second)
			if st, err := n.M.ChannelState(sctx, chid); err == nil {
				o.Final = kit.StatusName(st.Status())
			}
			cancel()
			stopped := make(chan struct{})
			go func() { _ = n.M.CloseDataTransferChannel(context.Background(), chid); n.Stop(); close(stopped) }()
			select {
			case <-stopped:
				o.Returned = true
			case <-time.After(4 * time.Second):
				o.Frames = libFrames()
			}
		} else if e == "not settled" {
			o.Frames = libFrames()
			sctx, cancel := context.WithTimeout(context.Background(), time.Second)
			if st, err := n.M.ChannelState(sctx, chid); err == nil {
				o.Final = kit.StatusName(st.Status())
			}
			cancel()
		} else {
			o.Err = e
		}
	case <-time.After(12 * time.Second):
		o.Frames = libFrames()
	}
	return o
}

// TestStopOverlap: Manager.Stop issued while a subscriber callback (global or per-transfer, on an ordinary or on the terminal event of its channel)
// is still running. Stop may wait for the callback; once the callback returns, Stop - and the notifier - have to come to rest.
func TestStopOverlap(t *testing.T) {
	out := os.Getenv("VERIF_OUT")
	if out == "" {
		t.Skip("VERIF_OUT not set")
	}
	of, err := os.Create(out)
	if err != nil {
		t.Fatal(err)
	}
	defer of.Close()
	enc := json.NewEncoder(of)
	for _, kind := range []string{"perTransfer", "global"} {
		for _, ev := range []string{"Cancel", "CleanupComplete", "Accept"} {
			for _, dir := range []string{"push", "pull"} {
				o := monOverlapObs{Case: "stopoverlap-" + kind + "-" + ev + "-" + dir, Scenario: "stop||" + kind + "Subscriber:" + ev, Frames: []string{}}
				n, err := kit.NewMgrNode("A", kit.NewRecDS(), []string{"vt"})
				if err != nil {
					o.Err = "node: " + err.Error()
					_ = enc.Encode(o)
					continue
				}
				held := make(chan struct{}, 1)
				release := make(chan struct{})
				var once sync.Once
				cb := func(evt datatransfer.Event, st datatransfer.ChannelState) {
					if kit.EventName(evt.Code) == ev {
						once.Do(func() {
							held <- struct{}{}
							<-release
						})
					}
				}
				ctx := context.Background()
				other := kit.Peer("B")
				var opts []datatransfer.TransferOption
				if kind == "perTransfer" {
					opts = append(opts, datatransfer.WithSubscriber(cb))
				} else {
					n.M.SubscribeToEvents(cb)
				}
				var chid datatransfer.ChannelID
				if dir == "pull" {
					chid, err = n.M.OpenPullDataChannel(ctx, other, kit.Voucher("v0"), kit.Cid("base"), kit.Selector("s"), opts...)
				} else {
					chid, err = n.M.OpenPushDataChannel(ctx, other, kit.Voucher("v0"), kit.Cid("base"), kit.Selector("s"), opts...)
				}
				if err != nil {
					o.Err = "open: " + err.Error()
					_ = enc.Encode(o)
					continue
				}
				go func() {
					if ev == "Accept" {
						acc, _ := kit.BuildMsg(kit.Msg{Kind: "New", Tid: uint64(chid.ID), Accepted: true})
						if dir == "pull" {
							_ = n.Tr.Events.OnResponseReceived(chid, acc.(datatransfer.Response))
						} else {
							n.Net.Recv.ReceiveResponse(ctx, other, acc.(datatransfer.Response))
						}
					} else {
						_ = n.M.CloseDataTransferChannel(ctx, chid)
					}
				}()
				select {
				case <-held:
				case <-time.After(3 * time.Second):
					o.Err = "the event " + ev + " was not announced"
					close(release)
					_ = enc.Encode(o)
					continue
				}
				stopped := make(chan struct{})
				go func() {
					sctx, cancel := context.WithTimeout(context.Background(), 10*time.Second)
					_ = n.M.Stop(sctx)
					cancel()
					close(stopped)
				}()
				time.Sleep(150 * time.Millisecond) // Stop is now inside the manager (it may legitimately wait for the callback)
				close(release)
				select {
				case <-stopped:
					o.Returned = true
				case <-time.After(4 * time.Second):
					o.Frames = libFrames()
				}
				_ = enc.Encode(o)
			}
		}
	}
}

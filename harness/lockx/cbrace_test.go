package lockx

import (
	"context"
	"encoding/json"
	"os"
	"sync"
	"testing"
	"time"

	"github.com/ipfs/go-graphsync"
	"github.com/ipld/go-ipld-prime/datamodel"

	datatransfer "github.com/filecoin-project/go-data-transfer/v2"
	dtimpl "github.com/filecoin-project/go-data-transfer/v2/impl"
	"github.com/filecoin-project/go-data-transfer/v2/message"
	gst "github.com/filecoin-project/go-data-transfer/v2/transport/graphsync"
	"github.com/filecoin-project/go-data-transfer/v2/transport/graphsync/testharness"
	"verifharness/kit"
)

type cbRaceObs struct {
	Case            string   `json:"case"`
	Mode            string   `json:"mode"`            // inCallback: the subscriber re-validates from inside the DataLimitExceeded callback; afterReturn: after the block hook has returned
	Order           []string `json:"order"`           // transport-level instructions in the order they were given: "unpause", "pauseRequest"
	RpView          bool     `json:"rpView"`          // what the channel state says afterwards
	TransportPaused bool     `json:"transportPaused"` // last transport-level instruction was a pause
	Limit           uint64   `json:"limit"`
	Err             string   `json:"err"`
}

// TestCallbackRace (O1): a push responder hits its data limit on an incoming block. The library announces
// DataLimitExceeded while the block hook that produced it is still running; an application that re-validates
// from inside the callback (C20 allows validation updates from inside callbacks) resumes the transport BEFORE
// the hook's own pause is applied. Real manager + real graphsync adapter over the repository's fake
// GraphExchange; the order is forced deterministically by holding the responder's "paused" message until the
// callback has finished.
func TestCallbackRace(t *testing.T) {
	out := os.Getenv("VERIF_OUT")
	if out == "" {
		t.Skip("VERIF_OUT not set")
	}
	of, err := os.Create(out)
	if err != nil {
		t.Fatal(err)
	}
	defer of.Close()
	enc := json.NewEncoder(of)
	for _, mode := range []string{"afterReturn", "inCallback"} {
		o := cbRaceObs{Case: "cbrace-" + mode, Mode: mode, Order: []string{}}
		ctx, cancel := context.WithTimeout(context.Background(), 20*time.Second)
		fgs := testharness.NewFakeGraphSync()
		fgs.LeaveRequestsOpen()
		self, other := kit.Peer("A"), kit.Peer("B")
		var mu sync.Mutex
		note := func(s string) { mu.Lock(); o.Order = append(o.Order, s); mu.Unlock() }
		tr := gst.NewTransport(self, &noteGS{FakeGraphSync: fgs, note: note})
		net := &kit.SimNet{Self: self}
		m, err := dtimpl.NewDataTransfer(kit.NewRecDS(), net, tr)
		if err != nil {
			t.Fatal(err)
		}
		val := &kit.ScriptValidator{Type: "vt", Next: kit.VRes{Accepted: true, Limit: 5}}
		_ = m.RegisterVoucherType("vt", val)
		ready := make(chan error, 1)
		m.OnReady(func(e error) { ready <- e })
		if err := m.Start(ctx); err != nil {
			t.Fatal(err)
		}
		<-ready
		chid := datatransfer.ChannelID{Initiator: other, Responder: self, ID: 9}
		cbDone := make(chan struct{})
		var once sync.Once
		m.SubscribeToEvents(func(evt datatransfer.Event, st datatransfer.ChannelState) {
			if evt.Code == datatransfer.DataLimitExceeded && mode == "inCallback" {
				once.Do(func() {
					_ = m.UpdateValidationStatus(ctx, st.ChannelID(), datatransfer.ValidationResult{Accepted: true, DataLimit: 0})
					close(cbDone)
				})
			}
		})
		gate := func() {
			if mode == "inCallback" {
				select {
				case <-cbDone:
				case <-time.After(5 * time.Second):
				}
			}
		}
		net.OnSendGate = gate
		v := kit.Voucher("v0")
		req, _ := message.NewRequest(9, false, false, &v, kit.Cid("base"), kit.Selector("s"))
		go net.Recv.ReceiveRequest(ctx, other, req)
		rr := fgs.AssertRequestReceived(ctx, t)
		exts := map[graphsync.ExtensionName]datamodel.Node{}
		for _, e := range rr.Extensions {
			exts[e.Name] = e.Data
		}
		request := testharness.NewFakeRequest(graphsync.NewRequestID(), exts, graphsync.RequestTypeNew)
		fgs.OutgoingRequestHook(other, request, &testharness.FakeOutgoingRequestHookActions{})
		fgs.OutgoingRequestProcessingListener(other, request, 0)
		acts := &recBlockActions{note: note}
		resumed := make(chan struct{})
		go func() { // record the Unpause the re-validation issues
			defer close(resumed)
			defer func() { recover() }()
			_ = fgs.AssertResumeReceived(ctx, t)
		}()
		fgs.IncomingBlockHook(other, testharness.NewFakeResponse(request.ID(), nil, graphsync.PartialResponse), testharness.NewFakeBlockData(6, 1, true), acts)
		if mode == "afterReturn" {
			_ = m.UpdateValidationStatus(ctx, chid, datatransfer.ValidationResult{Accepted: true, DataLimit: 0})
		}
		select {
		case <-resumed:
		case <-time.After(5 * time.Second):
			o.Err = "no unpause observed"
		}
		st, err := m.ChannelState(ctx, chid)
		if err != nil {
			o.Err = err.Error()
		} else {
			o.RpView, o.Limit = st.ResponderPaused(), st.DataLimit()
		}
		mu.Lock()
		if n := len(o.Order); n > 0 {
			o.TransportPaused = o.Order[n-1] == "pauseRequest"
		}
		mu.Unlock()
		_ = enc.Encode(o)
		cancel()
		sctx, sc := context.WithTimeout(context.Background(), 2*time.Second)
		_ = m.Stop(sctx)
		sc()
	}
}

// noteGS records Unpause at call time (the fake only hands it to a channel)
type noteGS struct {
	*testharness.FakeGraphSync
	note func(string)
}

func (g *noteGS) Unpause(ctx context.Context, id graphsync.RequestID, exts ...graphsync.ExtensionData) error {
	g.note("unpause")
	return g.FakeGraphSync.Unpause(ctx, id, exts...)
}

type recBlockActions struct{ note func(string) }

func (a *recBlockActions) TerminateWithError(err error)                               { a.note("terminate") }
func (a *recBlockActions) UpdateRequestWithExtensions(ext ...graphsync.ExtensionData) {}
func (a *recBlockActions) PauseRequest()                                              { a.note("pauseRequest") }

// Package lockx: (1) replays the deadlock traces TLC finds in spec/Lock.tla on the REAL manager wired to the
// REAL graphsync transport adapter over the repository's fake GraphExchange, outside synctest, with a
// real-time watchdog and a goroutine dump (a goroutine blocked on a sync.Mutex is not durably blocked for
// synctest); (2) runs model-driven concurrent stress on a real manager (API calls, transport callbacks,
// message deliveries, subscribers calling back into the API from inside the callback, Stop) and requires
// every call to return and no goroutine to stay parked on a library lock.
package lockx

import (
	"context"
	"encoding/json"
	"fmt"
	"math/rand"
	"os"
	"runtime"
	"strconv"
	"strings"
	"sync"
	"sync/atomic"
	"testing"
	"time"

	"github.com/ipfs/go-graphsync"
	"github.com/ipld/go-ipld-prime/datamodel"
	cidlink "github.com/ipld/go-ipld-prime/linking/cid"
	peer "github.com/libp2p/go-libp2p/core/peer"

	datatransfer "github.com/filecoin-project/go-data-transfer/v2"
	dtimpl "github.com/filecoin-project/go-data-transfer/v2/impl"
	"github.com/filecoin-project/go-data-transfer/v2/message"
	gst "github.com/filecoin-project/go-data-transfer/v2/transport/graphsync"
	"github.com/filecoin-project/go-data-transfer/v2/transport/graphsync/extension"
	"github.com/filecoin-project/go-data-transfer/v2/transport/graphsync/testharness"
	"verifharness/kit"
)

type replayObs struct {
	Case     string   `json:"case"`
	Scenario string   `json:"scenario"`
	Returned bool     `json:"returned"`
	Frames   []string `json:"frames"` // library frames of goroutines parked on a lock / wait when the watchdog fired
	Err      string   `json:"err"`
}

func libFrames() []string {
	buf := make([]byte, 1<<22)
	n := runtime.Stack(buf, true)
	var out []string
	for _, g := range strings.Split(string(buf[:n]), "\n\n") {
		if !(strings.Contains(g, "sync.(*Mutex).Lock") || strings.Contains(g, "sync.(*RWMutex).Lock") || strings.Contains(g, "sync.(*RWMutex).RLock") || strings.Contains(g, "SendSync")) {
			continue
		}
		var fr []string
		for _, l := range strings.Split(g, "\n") {
			if strings.HasPrefix(l, "github.com/filecoin-project/go-data-transfer/v2/") {
				f := strings.TrimPrefix(l, "github.com/filecoin-project/go-data-transfer/v2/")
				if i := strings.Index(f, "("); i > 0 && strings.HasSuffix(f, ")") {
					// keep "pkg.(*T).method"
					if j := strings.LastIndex(f, "("); j > 0 && !strings.Contains(f[j:], "*") {
						f = f[:j]
					}
				}
				fr = append(fr, f)
			}
		}
		if len(fr) > 0 {
			out = append(out, strings.Join(fr, " < "))
		}
	}
	return out
}

func extFor(t *testing.T, m datatransfer.Message) map[graphsync.ExtensionName]datamodel.Node {
	exts, err := extension.ToExtensionData(m, []graphsync.ExtensionName{extension.ExtensionDataTransfer1_1})
	if err != nil {
		t.Fatal(err)
	}
	out := map[graphsync.ExtensionName]datamodel.Node{}
	for _, e := range exts {
		out[e.Name] = e.Data
	}
	return out
}

// TestReplay: scenario "hookCancel" = Lock.tla trace <HookStart("cancel")>: a graphsync request whose
// data-transfer extension carries a Cancel request for an existing channel.
func TestReplay(t *testing.T) {
	out := os.Getenv("VERIF_OUT")
	if out == "" {
		t.Skip("VERIF_OUT not set")
	}
	of, err := os.Create(out)
	if err != nil {
		t.Fatal(err)
	}
	defer of.Close()
	enc := json.NewEncoder(of)
	for _, scn := range []string{"hookUpdate", "hookCancel"} {
		o := replayObs{Case: "replay-" + scn, Scenario: scn, Frames: []string{}}
		fgs := testharness.NewFakeGraphSync()
		self, other := kit.Peer("A"), kit.Peer("B")
		tr := gst.NewTransport(self, fgs)
		net := &kit.SimNet{Self: self}
		m, err := dtimpl.NewDataTransfer(kit.NewRecDS(), net, tr)
		if err != nil {
			t.Fatal(err)
		}
		val := &kit.ScriptValidator{Type: "vt", Next: kit.VRes{Accepted: true}}
		_ = m.RegisterVoucherType("vt", val)
		ready := make(chan error, 1)
		m.OnReady(func(e error) { ready <- e })
		if err := m.Start(context.Background()); err != nil {
			t.Fatal(err)
		}
		<-ready
		v := kit.Voucher("v0")
		req, _ := message.NewRequest(7, false, true, &v, kit.Cid("base"), kit.Selector("s"))
		rid := graphsync.NewRequestID()
		acts := &testharness.FakeIncomingRequestHookActions{}
		fgs.IncomingRequestHook(other, testharness.NewFakeRequest(rid, extFor(t, req), graphsync.RequestTypeNew), acts)
		var second datatransfer.Message
		if scn == "hookCancel" {
			second = message.CancelRequest(7)
		} else {
			second = message.UpdateRequest(7, true)
		}
		done := make(chan struct{})
		go func() {
			defer close(done)
			fgs.IncomingRequestHook(other, testharness.NewFakeRequest(graphsync.NewRequestID(), extFor(t, second), graphsync.RequestTypeNew), &testharness.FakeIncomingRequestHookActions{})
		}()
		select {
		case <-done:
			o.Returned = true
		case <-time.After(2 * time.Second):
			o.Frames = libFrames()
		}
		if o.Returned {
			ctx, cancel := context.WithTimeout(context.Background(), 2*time.Second)
			_ = m.Stop(ctx)
			cancel()
		}
		_ = enc.Encode(o)
	}
}

type stressObs struct {
	Case        string   `json:"case"`
	Calls       int      `json:"calls"`
	InCallback  int      `json:"inCallback"`
	NotReturned []string `json:"notReturned"`
	StopReturned bool    `json:"stopReturned"`
	Parked      []string `json:"parked"`
	Panics      []string `json:"panics"`
}

func atoi(s string, d int) int {
	if v, err := strconv.Atoi(s); err == nil {
		return v
	}
	return d
}

// TestStress: concurrent use of one real manager (doubles at the network/transport boundary).
func TestStress(t *testing.T) {
	out := os.Getenv("VERIF_OUT")
	if out == "" {
		t.Skip("VERIF_OUT not set")
	}
	rounds, seed := atoi(os.Getenv("VERIF_ROUNDS"), 10), int64(atoi(os.Getenv("VERIF_SEED"), 1))
	of, err := os.Create(out)
	if err != nil {
		t.Fatal(err)
	}
	defer of.Close()
	enc := json.NewEncoder(of)
	for r := 0; r < rounds; r++ {
		o := stressObs{Case: fmt.Sprintf("stress%d", r), NotReturned: []string{}, Parked: []string{}, Panics: []string{}}
		n, err := kit.NewMgrNode("A", kit.NewRecDS(), []string{"vt"})
		if err != nil {
			t.Fatal(err)
		}
		rng := rand.New(rand.NewSource(seed*1000 + int64(r)))
		// channels: two opened locally, two requested by B
		var chids []datatransfer.ChannelID
		ctx := context.Background()
		for i := 0; i < 2; i++ {
			c, err := n.M.OpenPushDataChannel(ctx, kit.Peer("B"), kit.Voucher("v0"), kit.Cid("base"), kit.Selector("s"))
			if err == nil {
				chids = append(chids, c)
			}
		}
		for i := 0; i < 2; i++ {
			v := kit.Voucher("v0")
			req, _ := message.NewRequest(datatransfer.TransferID(100+i), false, i == 0, &v, kit.Cid("base"), kit.Selector("s"))
			n.Net.Recv.ReceiveRequest(ctx, kit.Peer("B"), req)
			chids = append(chids, datatransfer.ChannelID{Initiator: kit.Peer("B"), Responder: kit.Peer("A"), ID: datatransfer.TransferID(100 + i)})
		}
		var mu sync.Mutex
		inflight := map[string]time.Time{}
		var calls, inCb int64
		track := func(name string, f func()) {
			id := fmt.Sprintf("%s#%d", name, atomic.AddInt64(&calls, 1))
			mu.Lock()
			inflight[id] = time.Now()
			mu.Unlock()
			defer func() {
				if p := recover(); p != nil {
					mu.Lock()
					o.Panics = append(o.Panics, fmt.Sprintf("%s: %v", name, p))
					mu.Unlock()
				}
				mu.Lock()
				delete(inflight, id)
				mu.Unlock()
			}()
			f()
		}
		link := cidlink.Link{Cid: kit.Cid("blk")}
		doOne := func(rng *rand.Rand, fromCb bool) {
			c := chids[rng.Intn(len(chids))]
			amInit := c.Initiator == kit.Peer("A")
			switch k := rng.Intn(16); k {
			case 0:
				track("ChannelState", func() { _, _ = n.M.ChannelState(ctx, c) })
			case 1:
				track("Pause", func() { _ = n.M.PauseDataTransferChannel(ctx, c) })
			case 2:
				track("Resume", func() { _ = n.M.ResumeDataTransferChannel(ctx, c) })
			case 3:
				if amInit {
					track("SendVoucher", func() { _ = n.M.SendVoucher(ctx, c, kit.Voucher("v4")) })
				} else {
					track("SendVoucherResult", func() { _ = n.M.SendVoucherResult(ctx, c, kit.Voucher("r4")) })
				}
			case 4:
				if !amInit {
					track("UpdateValidation", func() { _ = n.M.UpdateValidationStatus(ctx, c, datatransfer.ValidationResult{Accepted: true, DataLimit: uint64(rng.Intn(3) * 5)}) })
				}
			case 5:
				if rng.Intn(6) == 0 {
					track("Close", func() { _ = n.M.CloseDataTransferChannel(ctx, c) })
				}
			case 6:
				track("Restart", func() { _ = n.M.RestartDataTransferChannel(ctx, c) })
			case 7:
				track("InProgress", func() { _, _ = n.M.InProgressChannels(ctx) })
			default:
				if fromCb {
					return
				}
				ev := n.Tr.Events
				idx := int64(rng.Intn(6) + 1)
				switch k {
				case 8:
					track("OnDataQueued", func() { _, _ = ev.OnDataQueued(c, link, 2, idx, true) })
				case 9:
					track("OnDataReceived", func() { _ = ev.OnDataReceived(c, link, 2, idx, true) })
				case 10:
					track("OnDataSent", func() { _ = ev.OnDataSent(c, link, 2, idx, true) })
				case 11:
					track("OnChannelOpened", func() { _ = ev.OnChannelOpened(c) })
				case 12:
					track("OnRequestDisconnected", func() { _ = ev.OnRequestDisconnected(c, fmt.Errorf("e1")) })
				case 13:
					if amInit {
						resp, _ := message.NewResponse(c.ID, true, false, nil)
						track("RecvResponse", func() { n.Net.Recv.ReceiveResponse(ctx, peer.ID(c.Responder), resp) })
					} else {
						track("RecvUpdate", func() { n.Net.Recv.ReceiveRequest(ctx, peer.ID(c.Initiator), message.UpdateRequest(c.ID, rng.Intn(2) == 0)) })
					}
				case 14:
					track("OnTransferInitiated", func() { ev.OnTransferInitiated(c) })
				case 15:
					if rng.Intn(8) == 0 {
						track("OnChannelCompleted", func() { _ = ev.OnChannelCompleted(c, nil) })
					}
				}
			}
		}
		// a subscriber that calls back into the API from inside the callback
		var cbMu sync.Mutex
		cbRng := rand.New(rand.NewSource(seed*7777 + int64(r)))
		unsub := n.M.SubscribeToEvents(func(evt datatransfer.Event, st datatransfer.ChannelState) {
			cbMu.Lock()
			x := cbRng.Intn(5)
			sub := rand.New(rand.NewSource(cbRng.Int63()))
			cbMu.Unlock()
			if x == 0 {
				atomic.AddInt64(&inCb, 1)
				doOne(sub, true)
			}
		})
		var wg sync.WaitGroup
		for g := 0; g < 8; g++ {
			wg.Add(1)
			gr := rand.New(rand.NewSource(rng.Int63()))
			go func() {
				defer wg.Done()
				for k := 0; k < 60; k++ {
					doOne(gr, false)
				}
			}()
		}
		// (un)subscription churn from another goroutine
		wg.Add(1)
		go func() {
			defer wg.Done()
			for k := 0; k < 30; k++ {
				u := n.M.SubscribeToEvents(func(datatransfer.Event, datatransfer.ChannelState) {})
				u()
			}
		}()
		fin := make(chan struct{})
		go func() { wg.Wait(); close(fin) }()
		select {
		case <-fin:
		case <-time.After(20 * time.Second):
			mu.Lock()
			for id := range inflight {
				o.NotReturned = append(o.NotReturned, id)
			}
			mu.Unlock()
			o.Parked = libFrames()
		}
		stopDone := make(chan struct{})
		go func() {
			sctx, cancel := context.WithTimeout(context.Background(), 5*time.Second)
			defer cancel()
			_ = n.M.Stop(sctx)
			close(stopDone)
		}()
		select {
		case <-stopDone:
			o.StopReturned = true
		case <-time.After(8 * time.Second):
		}
		unsub()
		time.Sleep(20 * time.Millisecond)
		if len(o.Parked) == 0 {
			o.Parked = append(o.Parked, libFrames()...)
		}
		o.Calls, o.InCallback = int(atomic.LoadInt64(&calls)), int(atomic.LoadInt64(&inCb))
		_ = enc.Encode(o)
	}
}

package lockx

import (
	"context"
	"encoding/json"
	"os"
	"sync"
	"testing"
	"time"

	datatransfer "github.com/filecoin-project/go-data-transfer/v2"
	dtimpl "github.com/filecoin-project/go-data-transfer/v2/impl"
	"github.com/filecoin-project/go-data-transfer/v2/message"
	gst "github.com/filecoin-project/go-data-transfer/v2/transport/graphsync"
	"github.com/filecoin-project/go-data-transfer/v2/transport/graphsync/testharness"
	"github.com/ipfs/go-graphsync"
	"verifharness/kit"
)

// TestDuplicateOnAdapter: real manager + real graphsync adapter. A pull request is accepted (channel c exists, its graphsync request r1 is tracked).
// The initiator's new-request arrives AGAIN on a second graphsync request r2 (same initiator, same transfer id): it is refused. graphsync then reports
// r2 as finished (rejected / failed), as it does for every request. None of that may touch c: no event, no change of status or message.
type dupObs struct {
	Case     string `json:"case"`
	Rule     string `json:"rule"`
	Scenario string `json:"scenario"`
	Left     int64  `json:"left"`  // events announced for c after the duplicate arrived (+100 if its status or message changed)
	Right    int64  `json:"right"` // 0
	Err      string `json:"err"`
}

func TestDuplicateOnAdapter(t *testing.T) {
	out := os.Getenv("VERIF_OUT")
	if out == "" {
		t.Skip("VERIF_OUT not set")
	}
	of, err := os.Create(out)
	if err != nil {
		t.Fatal(err)
	}
	defer of.Close()
	enc := json.NewEncoder(of)
	for _, fin := range []graphsync.ResponseStatusCode{graphsync.RequestRejected, graphsync.RequestFailedUnknown, graphsync.RequestCompletedFull} {
		o := dupObs{Case: "dupadapter-" + fin.String(), Rule: "C18.dupLeavesBehaviour", Scenario: "duplicateOnTransport"}
		fgs := testharness.NewFakeGraphSync()
		self, other := kit.Peer("A"), kit.Peer("B")
		tr := gst.NewTransport(self, fgs)
		net := &kit.SimNet{Self: self}
		m, err := dtimpl.NewDataTransfer(kit.NewRecDS(), net, tr)
		if err != nil {
			t.Fatal(err)
		}
		val := &kit.ScriptValidator{Type: "vt", Next: kit.VRes{Accepted: true, Force: true}} // accepted and left paused: the channel stays put
		_ = m.RegisterVoucherType("vt", val)
		ready := make(chan error, 1)
		m.OnReady(func(e error) { ready <- e })
		if err := m.Start(context.Background()); err != nil {
			t.Fatal(err)
		}
		<-ready
		var mu sync.Mutex
		var evs []string
		chid := datatransfer.ChannelID{Initiator: other, Responder: self, ID: 7}
		m.SubscribeToEvents(func(evt datatransfer.Event, st datatransfer.ChannelState) {
			if st.ChannelID() == chid {
				mu.Lock()
				evs = append(evs, kit.EventName(evt.Code))
				mu.Unlock()
			}
		})
		v := kit.Voucher("v0")
		req, _ := message.NewRequest(7, false, true, &v, kit.Cid("base"), kit.Selector("s"))
		r1 := graphsync.NewRequestID()
		fgs.IncomingRequestHook(other, testharness.NewFakeRequest(r1, extFor(t, req), graphsync.RequestTypeNew), &testharness.FakeIncomingRequestHookActions{})
		state := func() (string, string, error) {
			sctx, cancel := context.WithTimeout(context.Background(), 2*time.Second)
			defer cancel()
			st, err := m.ChannelState(sctx, chid)
			if err != nil {
				return "", "", err
			}
			return kit.StatusName(st.Status()), st.Message(), nil
		}
		s0, m0, err := state()
		if err != nil {
			o.Err = "state: " + err.Error()
			_ = enc.Encode(o)
			continue
		}
		time.Sleep(20 * time.Millisecond)
		mu.Lock()
		n0 := len(evs)
		mu.Unlock()
		// the duplicate, on a second graphsync request
		r2 := graphsync.NewRequestID()
		fgs.IncomingRequestHook(other, testharness.NewFakeRequest(r2, extFor(t, req), graphsync.RequestTypeNew), &testharness.FakeIncomingRequestHookActions{})
		// graphsync reports the refused request as finished
		if fgs.CompletedResponseListener != nil {
			fgs.CompletedResponseListener(other, testharness.NewFakeRequest(r2, extFor(t, req), graphsync.RequestTypeNew), fin)
		}
		time.Sleep(100 * time.Millisecond)
		s1, m1, err := state()
		if err != nil {
			o.Err = "state after: " + err.Error()
			_ = enc.Encode(o)
			continue
		}
		time.Sleep(20 * time.Millisecond)
		mu.Lock()
		o.Left = int64(len(evs) - n0)
		mu.Unlock()
		if s1 != s0 || m1 != m0 {
			o.Left += 100
		}
		sctx, cancel := context.WithTimeout(context.Background(), 2*time.Second)
		_ = m.Stop(sctx)
		cancel()
		_ = enc.Encode(o)
	}
}

// Package gsx runs REAL two-node transfers (two real managers, real graphsync transport, real libp2p
// network adapter over mocknet, real channel engines) under scenarios that draw direction, payload,
// store configuration, validator behaviour (limits, finalization, forced pause), pause/resume points
// and process bounces + restarts from VERIF_CASES, and records both sides' event streams, the final
// channel states and a DAG walk of the receiver's actual block store for the TLC judge (C01Judge).
package gsx

import (
	"bufio"
	"bytes"
	"context"
	"encoding/json"
	"fmt"
	"io"
	"math/rand"
	"os"
	"sync"
	"testing"
	"time"

	"github.com/ipfs/boxo/blockservice"
	bstore "github.com/ipfs/boxo/blockstore"
	chunker "github.com/ipfs/boxo/chunker"
	offline "github.com/ipfs/boxo/exchange/offline"
	files "github.com/ipfs/boxo/files"
	"github.com/ipfs/boxo/ipld/merkledag"
	unixfile "github.com/ipfs/boxo/ipld/unixfs/file"
	"github.com/ipfs/boxo/ipld/unixfs/importer/balanced"
	ihelper "github.com/ipfs/boxo/ipld/unixfs/importer/helpers"
	"github.com/ipfs/go-cid"
	"github.com/ipfs/go-datastore"
	"github.com/ipfs/go-datastore/namespace"
	dss "github.com/ipfs/go-datastore/sync"
	"github.com/ipfs/go-graphsync/storeutil"
	ipldformat "github.com/ipfs/go-ipld-format"
	"github.com/ipld/go-ipld-prime"
	"github.com/ipld/go-ipld-prime/datamodel"
	cidlink "github.com/ipld/go-ipld-prime/linking/cid"
	"github.com/ipld/go-ipld-prime/node/basicnode"
	selectorparse "github.com/ipld/go-ipld-prime/traversal/selector/parse"
	peer "github.com/libp2p/go-libp2p/core/peer"

	datatransfer "github.com/filecoin-project/go-data-transfer/v2"
	dtimpl "github.com/filecoin-project/go-data-transfer/v2/impl"
	"github.com/filecoin-project/go-data-transfer/v2/itest"
	tp "github.com/filecoin-project/go-data-transfer/v2/transport/graphsync"
	"verifharness/kit"
)

type Scenario struct {
	Case        string   `json:"case"`
	Pull        bool     `json:"pull"`
	Chunks      int      `json:"chunks"`     // payload size in 1 KiB chunks
	DupEvery    int      `json:"dupEvery"`   // every n-th chunk repeats chunk 0 (duplicate blocks); 0 = none
	SrcStore    bool     `json:"srcStore"`   // per-channel store on the data sender
	DstStore    bool     `json:"dstStore"`   // per-channel store on the data receiver
	Limits      []uint64 `json:"limits"`     // successive data limits granted by the responder's validator (0 = unlimited)
	ReqFin      bool     `json:"reqFin"`     // responder requires finalization
	ForcePause  bool     `json:"forcePause"` // validator force-pauses the new request; the app then re-validates
	PauseSide   string   `json:"pauseSide"`  // "", "I", "R": that side pauses after PauseAt progress events and resumes right after
	PauseAt     int      `json:"pauseAt"`
	BounceSide  string   `json:"bounceSide"` // "", "I", "R": that side's manager is stopped after BounceAt progress events, re-created on the same datastore, and restarts the channel
	BounceAt    int      `json:"bounceAt"`
	RestartSide string   `json:"restartSide"` // "", "I", "R": that side calls RestartDataTransferChannel (same process, no bounce) after RestartAt progress events
	RestartAt   int      `json:"restartAt"`
	Seed        int64    `json:"seed"`
}

type EvLite struct {
	Seq      int    `json:"seq"`
	Ev       string `json:"ev"`
	Status   string `json:"status"`
	Queued   uint64 `json:"queued"`
	Sent     uint64 `json:"sent"`
	Received uint64 `json:"received"`
	RIdx     int64  `json:"rIdx"`
	QIdx     int64  `json:"qIdx"`
	Rp       bool   `json:"rp"`
	Ip       bool   `json:"ip"`
	Msg      string `json:"msg"`
	// receiver's block store examined at this instant (only on the line where the initiator turns Completed)
	Checked bool `json:"checked"`
	HasAll  bool `json:"hasAll"`
}

type Obs struct {
	Case        string   `json:"case"`
	Scn         Scenario `json:"scn"`
	I           []EvLite `json:"i"`
	R           []EvLite `json:"r"`
	FinalI      kit.View `json:"finalI"`
	FinalR      kit.View `json:"finalR"`
	HasR        bool     `json:"hasR"` // responder has a channel with that id
	HasAll      bool     `json:"hasAll"`
	BytesEqual  bool     `json:"bytesEqual"`
	UniqueBytes uint64   `json:"uniqueBytes"`
	Blocks      int      `json:"blocks"`
	Quiesced    bool     `json:"quiesced"`
	ValCalls    []string `json:"valCalls"`
	Err         string   `json:"err"`
}

type store struct {
	bs   bstore.Blockstore
	dag  ipldformat.DAGService
	lsys ipld.LinkSystem
}

func newStore() store {
	ds := dss.MutexWrap(datastore.NewMapDatastore())
	bs := bstore.NewBlockstore(namespace.Wrap(ds, datastore.NewKey("blockstore")))
	return store{bs, merkledag.NewDAGService(blockservice.New(bs, offline.Exchange(bs))), storeutil.LinkSystemForBlockstore(bs)}
}

func loadBytes(ctx context.Context, dag ipldformat.DAGService, data []byte) (cid.Cid, error) {
	file := files.NewReaderFile(bytes.NewReader(data))
	buffered := ipldformat.NewBufferedDAG(ctx, dag)
	params := ihelper.DagBuilderParams{Maxlinks: 1024, RawLeaves: true, Dagserv: buffered}
	db, err := params.New(chunker.NewSizeSplitter(file, 1<<10))
	if err != nil {
		return cid.Undef, err
	}
	nd, err := balanced.Layout(db)
	if err != nil {
		return cid.Undef, err
	}
	if err := buffered.Commit(); err != nil {
		return cid.Undef, err
	}
	return nd.Cid(), nil
}

// walk visits the DAG under root in dag and returns the set of distinct block cids with sizes, or an error if a block is missing.
func walk(ctx context.Context, dag ipldformat.DAGService, root cid.Cid, seen map[cid.Cid]int) error {
	if _, ok := seen[root]; ok {
		return nil
	}
	nd, err := dag.Get(ctx, root)
	if err != nil {
		return err
	}
	seen[root] = len(nd.RawData())
	for _, l := range nd.Links() {
		if err := walk(ctx, dag, l.Cid, seen); err != nil {
			return err
		}
	}
	return nil
}

func readAll(ctx context.Context, dag ipldformat.DAGService, root cid.Cid) ([]byte, error) {
	nd, err := dag.Get(ctx, root)
	if err != nil {
		return nil, err
	}
	n, err := unixfile.NewUnixfsFile(ctx, dag, nd)
	if err != nil {
		return nil, err
	}
	f, ok := n.(files.File)
	if !ok {
		return nil, fmt.Errorf("not a file")
	}
	return io.ReadAll(f)
}

const vtype = datatransfer.TypeIdentifier("gsxVoucher")

var appDelay = 40 * time.Millisecond

// scripted validator of the responder
type validator struct {
	mu     sync.Mutex
	scn    Scenario
	calls  []string
	limIdx int
}

func (v *validator) first() datatransfer.ValidationResult {
	r := datatransfer.ValidationResult{Accepted: true, RequiresFinalization: v.scn.ReqFin, ForcePause: v.scn.ForcePause}
	if len(v.scn.Limits) > 0 {
		r.DataLimit = v.scn.Limits[0]
	}
	return r
}
func (v *validator) current() datatransfer.ValidationResult {
	v.mu.Lock()
	defer v.mu.Unlock()
	r := datatransfer.ValidationResult{Accepted: true, RequiresFinalization: v.scn.ReqFin}
	if v.limIdx < len(v.scn.Limits) {
		r.DataLimit = v.scn.Limits[v.limIdx]
	}
	return r
}
func (v *validator) ValidatePush(chid datatransfer.ChannelID, sender peer.ID, voucher datamodel.Node, baseCid cid.Cid, selector datamodel.Node) (datatransfer.ValidationResult, error) {
	v.mu.Lock()
	v.calls = append(v.calls, "push")
	v.mu.Unlock()
	return v.first(), nil
}
func (v *validator) ValidatePull(chid datatransfer.ChannelID, receiver peer.ID, voucher datamodel.Node, baseCid cid.Cid, selector datamodel.Node) (datatransfer.ValidationResult, error) {
	v.mu.Lock()
	v.calls = append(v.calls, "pull")
	v.mu.Unlock()
	return v.first(), nil
}
func (v *validator) ValidateRestart(chid datatransfer.ChannelID, channel datatransfer.ChannelState) (datatransfer.ValidationResult, error) {
	v.mu.Lock()
	v.calls = append(v.calls, "restart")
	v.mu.Unlock()
	return v.current(), nil
}

type side struct {
	mu   sync.Mutex
	log  []EvLite
	prog int
}

func lite(seq int, evt datatransfer.Event, st datatransfer.ChannelState) EvLite {
	return EvLite{Seq: seq, Ev: kit.EventName(evt.Code), Status: kit.StatusName(st.Status()), Queued: st.Queued(), Sent: st.Sent(), Received: st.Received(),
		RIdx: st.ReceivedCidsTotal(), QIdx: st.QueuedCidsTotal(), Rp: st.ResponderPaused(), Ip: st.InitiatorPaused(), Msg: st.Message()}
}

func TestScenarios(t *testing.T) {
	in, out := os.Getenv("VERIF_CASES"), os.Getenv("VERIF_OUT")
	if in == "" || out == "" {
		t.Skip("VERIF_CASES / VERIF_OUT not set")
	}
	f, err := os.Open(in)
	if err != nil {
		t.Fatal(err)
	}
	var scns []Scenario
	sc := bufio.NewScanner(f)
	sc.Buffer(make([]byte, 1<<20), 1<<26)
	for sc.Scan() {
		if len(sc.Bytes()) == 0 {
			continue
		}
		var s Scenario
		if err := json.Unmarshal(sc.Bytes(), &s); err != nil {
			t.Fatal(err)
		}
		scns = append(scns, s)
	}
	f.Close()
	of, err := os.Create(out)
	if err != nil {
		t.Fatal(err)
	}
	defer of.Close()
	bw := bufio.NewWriter(of)
	defer bw.Flush()
	enc := json.NewEncoder(bw)
	for _, s := range scns {
		o := safeScenario(t, s)
		if err := enc.Encode(o); err != nil {
			t.Fatal(err)
		}
	}
}

// safeScenario converts a panic on the scenario's own goroutine into an observation with Err set
func safeScenario(t *testing.T, s Scenario) (o Obs) {
	defer func() {
		if r := recover(); r != nil {
			o = Obs{Case: s.Case, Scn: s, I: []EvLite{}, R: []EvLite{}, FinalI: kit.EmptyView(), FinalR: kit.EmptyView(), ValCalls: []string{}, Err: fmt.Sprintf("panic: %v", r)}
			if o.Scn.Limits == nil {
				o.Scn.Limits = []uint64{}
			}
		}
	}()
	return runScenario(t, s)
}

func stopQuietly(m datatransfer.Manager) {
	defer func() { _ = recover() }() // Manager.Stop on an already stopped manager panics (close of closed channel)
	ctx, cancel := context.WithTimeout(context.Background(), 3*time.Second)
	defer cancel()
	_ = m.Stop(ctx)
}

func runScenario(t *testing.T, s Scenario) Obs {
	o := Obs{Case: s.Case, Scn: s, I: []EvLite{}, R: []EvLite{}, FinalI: kit.EmptyView(), FinalR: kit.EmptyView(), ValCalls: []string{}}
	if s.Limits == nil {
		o.Scn.Limits = []uint64{}
	}
	ctx, cancel := context.WithTimeout(context.Background(), 40*time.Second)
	defer cancel()
	gs := itest.NewGraphsyncTestingData(ctx, t, nil, nil)
	defer os.RemoveAll(gs.TempDir1)
	defer os.RemoveAll(gs.TempDir2)
	kit.RegisterPeer(gs.Host1.ID(), "A")
	kit.RegisterPeer(gs.Host2.ID(), "B")
	val := &validator{scn: s}
	var seqMu sync.Mutex
	seq := 0
	tick := func() int { seqMu.Lock(); seq++; x := seq; seqMu.Unlock(); return x }

	// stores: the sender's blocks live either in its default store or in a per-channel store
	srcDefault := store{gs.Bs1, gs.DagService1, gs.LinkSystem1}
	dstDefault := store{gs.Bs2, gs.DagService2, gs.LinkSystem2}
	if s.Pull {
		srcDefault, dstDefault = dstDefault, srcDefault
	}
	src, dst := srcDefault, dstDefault
	if s.SrcStore {
		src = newStore()
	}
	if s.DstStore {
		dst = newStore()
	}
	rng := rand.New(rand.NewSource(s.Seed))
	data := make([]byte, 0, s.Chunks<<10)
	chunk0 := make([]byte, 1<<10)
	rng.Read(chunk0)
	for i := 0; i < s.Chunks; i++ {
		if s.DupEvery > 0 && i%s.DupEvery == 0 {
			data = append(data, chunk0...)
		} else {
			c := make([]byte, 1<<10)
			rng.Read(c)
			data = append(data, c...)
		}
	}
	root, err := loadBytes(ctx, src.dag, data)
	if err != nil {
		o.Err = "load: " + err.Error()
		return o
	}
	uniq := map[cid.Cid]int{}
	if err := walk(ctx, src.dag, root, uniq); err != nil {
		o.Err = "walk source: " + err.Error()
		return o
	}
	o.Blocks = len(uniq)
	for _, sz := range uniq {
		o.UniqueBytes += uint64(sz)
	}
	receiverHasAll := func() bool {
		seen := map[cid.Cid]int{}
		c2, cc := context.WithTimeout(context.Background(), 2*time.Second)
		defer cc()
		return walk(c2, dst.dag, root, seen) == nil && len(seen) == len(uniq)
	}

	var sI, sR side
	var dt1, dt2 datatransfer.Manager
	var dtMu sync.Mutex
	var chid datatransfer.ChannelID
	bounced := false
	restarted := false
	paused := false
	forced := false
	var wg sync.WaitGroup
	var mkDT func(which int) (datatransfer.Manager, error)
	var subI, subR datatransfer.Subscriber

	configure := func(m datatransfer.Manager, which int) error {
		// which: 1 = initiator node (host1), 2 = responder node (host2)
		if which == 2 {
			if err := m.RegisterVoucherType(vtype, val); err != nil {
				return err
			}
		}
		senderNode := 1
		if s.Pull {
			senderNode = 2
		}
		useSrc := s.SrcStore && which == senderNode
		useDst := s.DstStore && which != senderNode
		if useSrc || useDst {
			lsys := src.lsys
			if useDst {
				lsys = dst.lsys
			}
			return m.RegisterTransportConfigurer(vtype, func(channelID datatransfer.ChannelID, v datatransfer.TypedVoucher) []datatransfer.TransportOption {
				return []datatransfer.TransportOption{tp.UseStore(lsys)}
			})
		}
		return nil
	}
	mkDT = func(which int) (datatransfer.Manager, error) {
		var m datatransfer.Manager
		var err error
		// a fresh transport adapter over the node's (same) graphsync instance, as after a process restart
		if which == 1 {
			m, err = dtimpl.NewDataTransfer(gs.DtDs1, gs.DtNet1, gs.SetupGSTransportHost1())
		} else {
			m, err = dtimpl.NewDataTransfer(gs.DtDs2, gs.DtNet2, gs.SetupGSTransportHost2())
		}
		if err != nil {
			return nil, err
		}
		if err := configure(m, which); err != nil {
			return nil, err
		}
		ready := make(chan error, 1)
		m.OnReady(func(e error) { ready <- e })
		if err := m.Start(ctx); err != nil {
			return nil, err
		}
		select {
		case e := <-ready:
			if e != nil {
				return nil, e
			}
		case <-time.After(5 * time.Second):
			return nil, fmt.Errorf("not ready")
		}
		if which == 1 {
			m.SubscribeToEvents(subI)
		} else {
			m.SubscribeToEvents(subR)
		}
		return m, nil
	}
	// the application reacts a little later than the notification: the library announces an event before the
	// handler that produced it has finished its transport calls (e.g. the pause that follows DataLimitExceeded),
	// and a re-validation arriving inside that window is overtaken by the handler's own pause (DESIGN.md, O1)
	app := func(f func()) { wg.Add(1); go func() { defer wg.Done(); time.Sleep(appDelay); f() }() }
	progress := func(evt datatransfer.Event) bool {
		return evt.Code == datatransfer.DataReceivedProgress || evt.Code == datatransfer.DataQueuedProgress
	}
	maybeScripted := func(me string, sd *side, evt datatransfer.Event) {
		if !progress(evt) {
			return
		}
		sd.mu.Lock()
		sd.prog++
		p := sd.prog
		sd.mu.Unlock()
		dtMu.Lock()
		defer dtMu.Unlock()
		if s.PauseSide == me && !paused && p >= s.PauseAt {
			paused = true
			app(func() {
				dtMu.Lock()
				m := dt1
				if me == "R" {
					m = dt2
				}
				dtMu.Unlock()
				_ = m.PauseDataTransferChannel(ctx, chid)
				_ = m.ResumeDataTransferChannel(ctx, chid)
			})
		}
		if s.RestartSide == me && !restarted && p >= s.RestartAt {
			restarted = true
			app(func() {
				dtMu.Lock()
				m := dt1
				if me == "R" {
					m = dt2
				}
				dtMu.Unlock()
				_ = m.RestartDataTransferChannel(ctx, chid)
			})
		}
		if s.BounceSide == me && !bounced && p >= s.BounceAt {
			bounced = true
			app(func() {
				which := 1
				if me == "R" {
					which = 2
				}
				dtMu.Lock()
				old := dt1
				if which == 2 {
					old = dt2
				}
				dtMu.Unlock()
				stopQuietly(old)
				m, err := mkDT(which)
				if err != nil {
					return
				}
				dtMu.Lock()
				if which == 1 {
					dt1 = m
				} else {
					dt2 = m
				}
				dtMu.Unlock()
				_ = m.RestartDataTransferChannel(ctx, chid)
			})
		}
	}
	subI = func(evt datatransfer.Event, st datatransfer.ChannelState) {
		e := lite(tick(), evt, st)
		if st.Status() == datatransfer.Completed {
			e.Checked, e.HasAll = true, receiverHasAll()
		}
		sI.mu.Lock()
		sI.log = append(sI.log, e)
		sI.mu.Unlock()
		maybeScripted("I", &sI, evt)
	}
	subR = func(evt datatransfer.Event, st datatransfer.ChannelState) {
		e := lite(tick(), evt, st)
		sR.mu.Lock()
		sR.log = append(sR.log, e)
		sR.mu.Unlock()
		// the responder's application: re-validate when the limit is hit, release finalization, lift a forced pause
		switch {
		case evt.Code == datatransfer.DataLimitExceeded:
			app(func() {
				val.mu.Lock()
				val.limIdx++
				val.mu.Unlock()
				dtMu.Lock()
				m := dt2
				dtMu.Unlock()
				_ = m.UpdateValidationStatus(ctx, st.ChannelID(), val.current())
			})
		case evt.Code == datatransfer.BeginFinalizing:
			app(func() {
				dtMu.Lock()
				m := dt2
				dtMu.Unlock()
				_ = m.UpdateValidationStatus(ctx, st.ChannelID(), datatransfer.ValidationResult{Accepted: true, DataLimit: st.DataLimit(), RequiresFinalization: false})
			})
		case evt.Code == datatransfer.PauseResponder && s.ForcePause && !forced:
			forced = true
			app(func() {
				dtMu.Lock()
				m := dt2
				dtMu.Unlock()
				_ = m.UpdateValidationStatus(ctx, st.ChannelID(), val.current())
			})
		}
		maybeScripted("R", &sR, evt)
	}
	if dt1, err = mkDT(1); err != nil {
		o.Err = "dt1: " + err.Error()
		return o
	}
	if dt2, err = mkDT(2); err != nil {
		o.Err = "dt2: " + err.Error()
		return o
	}
	voucher := datatransfer.TypedVoucher{Type: vtype, Voucher: basicnode.NewString("gsx")}
	sel := selectorparse.CommonSelector_ExploreAllRecursively
	if s.Pull {
		chid, err = dt1.OpenPullDataChannel(ctx, gs.Host2.ID(), voucher, root, sel)
	} else {
		chid, err = dt1.OpenPushDataChannel(ctx, gs.Host2.ID(), voucher, root, sel)
	}
	if err != nil {
		o.Err = "open: " + err.Error()
		return o
	}
	terminal := func(st datatransfer.Status) bool {
		return st == datatransfer.Completed || st == datatransfer.Failed || st == datatransfer.Cancelled
	}
	state := func(which int) (datatransfer.ChannelState, error) {
		dtMu.Lock()
		m := dt1
		if which == 2 {
			m = dt2
		}
		dtMu.Unlock()
		c2, cc := context.WithTimeout(context.Background(), 2*time.Second)
		defer cc()
		return m.ChannelState(c2, chid)
	}
	deadline := time.Now().Add(12 * time.Second)
	for time.Now().Before(deadline) {
		a, e1 := state(1)
		b, e2 := state(2)
		if e1 == nil && e2 == nil && terminal(a.Status()) && terminal(b.Status()) {
			o.Quiesced = true
			break
		}
		time.Sleep(5 * time.Millisecond)
	}
	done := make(chan struct{})
	go func() { wg.Wait(); close(done) }()
	select {
	case <-done:
	case <-time.After(5 * time.Second):
	}
	finalState := func(which int) (datatransfer.ChannelState, error) {
		var st datatransfer.ChannelState
		var err error
		for try := 0; try < 5; try++ {
			if st, err = state(which); err == nil {
				return st, nil
			}
			time.Sleep(50 * time.Millisecond)
		}
		return nil, err
	}
	if a, err := finalState(1); err == nil {
		o.FinalI = kit.Project(a)
	} else {
		o.Err = "final state of the initiator unavailable: " + err.Error()
	}
	if b, err := finalState(2); err == nil {
		o.FinalR = kit.Project(b)
		o.HasR = true
	} else if len(sR.log) > 0 {
		o.Err = "final state of the responder unavailable although it announced events: " + err.Error()
	}
	o.HasAll = receiverHasAll()
	if got, err := readAll(context.Background(), dst.dag, root); err == nil {
		o.BytesEqual = bytes.Equal(got, data)
	}
	sI.mu.Lock()
	o.I = append(o.I, sI.log...)
	sI.mu.Unlock()
	sR.mu.Lock()
	o.R = append(o.R, sR.log...)
	sR.mu.Unlock()
	val.mu.Lock()
	o.ValCalls = append(o.ValCalls, val.calls...)
	val.mu.Unlock()
	dtMu.Lock()
	stopQuietly(dt1)
	stopQuietly(dt2)
	dtMu.Unlock()
	_ = gs.Mn.Close()
	_ = cidlink.Link{}
	return o
}

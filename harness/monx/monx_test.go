// Package monx runs the REAL channelmonitor.Monitor inside testing/synctest bubbles against a recording
// double of the monitor API (SubscribeToEvents, RestartDataTransferChannel, CloseDataTransferChannelWithError,
// ConnectTo, PeerID) and replays schedules produced from the TLA+ specification Mon.tla (TLC -simulate
// behaviours, TLC counterexamples) and seeded random / boundary schedules.  One JSON observation per case.
//
// Time: one model tick = Case.Unit nanoseconds of synctest virtual time.  The driver delivers the scripted
// events at their virtual instants and calls synctest.Wait() after each one, i.e. the monitor's goroutines run
// to quiescence before the next environment step (the model's maximal-progress assumption).  What cannot be
// forced from outside is the order of goroutines that become runnable at the same virtual instant (a timer
// and the driver, the `go mc.Shutdown()` goroutine and a timer goroutine); the only lever used is the
// in-call injection: an event delivered from inside a ConnectTo/Restart call of the double, just before it
// returns (so "the subscriber saw X" happens-before "the call returned an error").
package monx

import (
	"bufio"
	"context"
	"encoding/json"
	"errors"
	"fmt"
	"os"
	"strings"
	"sync"
	"testing"
	"testing/synctest"
	"time"

	"github.com/libp2p/go-libp2p/core/peer"

	datatransfer "github.com/filecoin-project/go-data-transfer/v2"
	"github.com/filecoin-project/go-data-transfer/v2/channelmonitor"
	"github.com/filecoin-project/go-data-transfer/v2/testutil"
)

// ---- case / observation formats -------------------------------------------------------------------------

type Cfg struct {
	En  bool `json:"en"`
	Max int  `json:"max"`
	Acc int  `json:"acc"`
	Cmp int  `json:"cmp"`
	Deb int  `json:"deb"`
	Bof int  `json:"bof"`
	Hz  int  `json:"hz"`
}

type Ev struct {
	T       int    `json:"t"`
	Code    string `json:"code"`
	St      string `json:"st"`
	Foreign bool   `json:"foreign,omitempty"` // the event belongs to ANOTHER channel (recorded as code/status "Foreign")
}

type Out struct {
	Res    string `json:"res"` // ok | fail
	Lat    int    `json:"lat"`
	Inject *Ev    `json:"inject,omitempty"` // delivered from inside the call, after the latency, before it returns
}

type Case struct {
	Case   string `json:"case"`
	Cfg    Cfg    `json:"cfg"`
	Unit   int64  `json:"unit"` // ns per tick
	Pull   bool   `json:"pull"`
	Events []Ev   `json:"events"`
	Script []Out  `json:"script"`
	Reps   int    `json:"reps"`
}

type ObsEv struct {
	T         int    `json:"t"`
	Code      string `json:"code"`
	St        string `json:"st"`
	Fin       bool   `json:"fin"`
	Delivered bool   `json:"delivered"`
	Inj       bool   `json:"inj"`
	S0        int    `json:"s0"`
	S1        int    `json:"s1"`
}

type ObsCall struct {
	Call string `json:"call"` // subscribe | unsub | connect | restart | close | rcomplete
	T    int    `json:"t"`
	T1   int    `json:"t1"`
	Res  string `json:"res"` // connect/restart: scripted outcome consumed (ok|fail) or "ctx" (context dead at entry); close: reason class
	Out  string `json:"out"` // what the call returned: ok | fail | ctx
	Lat  int    `json:"lat"`
	S0   int    `json:"s0"`
	S1   int    `json:"s1"`
	Ov   int    `json:"ov"` // connect/restart calls in flight at entry
	Text string `json:"text"`
}

// MEntry is one entry of the merged history in the format of Mon.tla's h.log
type MEntry struct {
	Call string `json:"call"`
	T    int    `json:"t"`
	Res  string `json:"res"`
	Lat  int    `json:"lat"`
	Code string `json:"code"`
	St   string `json:"st"`
}

type End struct {
	Unsub  bool `json:"unsub"`  // the subscriber registered by the monitor has been unsubscribed
	Listed bool `json:"listed"` // the monitor still lists the channel (AddPushChannel for the same id is refused)
	AddNil bool `json:"addNil"` // AddPush/PullChannel returned nil
	Subs   int  `json:"subs"`
	Unsubs int  `json:"unsubs"`
	Now    int  `json:"now"`
}

type Obs struct {
	Case    string    `json:"case"`
	Cfg     Cfg       `json:"cfg"`
	Events  []ObsEv   `json:"events"`
	Log     []ObsCall `json:"log"`
	Mlog    []MEntry  `json:"mlog"`
	End     End       `json:"end"`
	Runaway bool      `json:"runaway"`
	Panic   string    `json:"panic"`
	Err     string    `json:"err"`
}

// ---- channel state double ---------------------------------------------------------------------------------

type chState struct {
	*testutil.MockChannelState
	st datatransfer.Status
}

func (c *chState) Status() datatransfer.Status { return c.st }

var (
	evCodes = map[string]datatransfer.EventCode{}
	stCodes = map[string]datatransfer.Status{}
	finSt   = map[string]bool{"Completing": true, "Failing": true, "Cancelling": true, "Completed": true, "Failed": true, "Cancelled": true}
)

func init() {
	for c, n := range datatransfer.Events {
		evCodes[n] = c
	}
	for s, n := range datatransfer.Statuses {
		stCodes[n] = s
	}
}

// ---- the monitor API double -------------------------------------------------------------------------------

type api struct {
	c     Case
	chid  datatransfer.ChannelID
	start time.Time
	unit  time.Duration
	self  peer.ID

	mu       sync.Mutex
	seq      int
	subs     map[int]datatransfer.Subscriber
	nsub     int
	nunsub   int
	probe    bool
	inflight int
	ncalls   int
	scriptAt int
	log      []ObsCall
	events   []ObsEv
	mlog     []MEntry
	runaway  bool
	errs     []string

	dmu  sync.Mutex // serializes deliveries (driver vs in-call injection)
	stop chan struct{}
}

func (a *api) now() int {
	d := time.Since(a.start)
	if d%a.unit != 0 {
		a.mu.Lock()
		a.errs = append(a.errs, fmt.Sprintf("off-grid instant %s", d))
		a.mu.Unlock()
	}
	return int(d / a.unit)
}

func (a *api) nowLocked() int { return int(time.Since(a.start) / a.unit) }

func (a *api) SubscribeToEvents(sub datatransfer.Subscriber) datatransfer.Unsubscribe {
	a.mu.Lock()
	defer a.mu.Unlock()
	if a.probe {
		return func() {}
	}
	idx := a.nsub
	a.nsub++
	a.subs[idx] = sub
	t := a.nowLocked()
	a.seq++
	a.log = append(a.log, ObsCall{Call: "subscribe", T: t, T1: t, S0: a.seq, S1: a.seq})
	a.mlog = append(a.mlog, MEntry{Call: "subscribe", T: t})
	return func() {
		a.mu.Lock()
		defer a.mu.Unlock()
		if a.probe {
			return
		}
		a.nunsub++
		delete(a.subs, idx)
		t := a.nowLocked()
		a.seq++
		a.log = append(a.log, ObsCall{Call: "unsub", T: t, T1: t, S0: a.seq, S1: a.seq})
		a.mlog = append(a.mlog, MEntry{Call: "unsub", T: t})
	}
}

func (a *api) PeerID() peer.ID { return a.self }

func (a *api) onRestartComplete(id datatransfer.ChannelID) {
	a.mu.Lock()
	defer a.mu.Unlock()
	if a.probe {
		return
	}
	t := a.nowLocked()
	a.seq++
	a.log = append(a.log, ObsCall{Call: "rcomplete", T: t, T1: t, S0: a.seq, S1: a.seq})
	a.mlog = append(a.mlog, MEntry{Call: "rcomplete", T: t})
}

// deliver runs the subscriber callbacks on the calling goroutine
func (a *api) deliver(e Ev, inj bool) {
	a.dmu.Lock()
	defer a.dmu.Unlock()
	code, ok1 := evCodes[e.Code]
	st, ok2 := stCodes[e.St]
	a.mu.Lock()
	if !ok1 || !ok2 {
		a.errs = append(a.errs, "unknown event "+e.Code+"/"+e.St)
		a.mu.Unlock()
		return
	}
	subs := make([]datatransfer.Subscriber, 0, len(a.subs))
	for i := 0; i < a.nsub; i++ {
		if s, ok := a.subs[i]; ok {
			subs = append(subs, s)
		}
	}
	a.seq++
	t := a.nowLocked()
	idx := len(a.events)
	chid := a.chid
	rc, rs, fin := e.Code, e.St, finSt[e.St]
	if e.Foreign {
		chid.ID++
		rc, rs, fin = "Foreign", "Foreign", false
	}
	a.events = append(a.events, ObsEv{T: t, Code: rc, St: rs, Fin: fin, Delivered: len(subs) > 0, Inj: inj, S0: a.seq})
	d := "n"
	if len(subs) > 0 {
		d = "d"
	}
	a.mlog = append(a.mlog, MEntry{Call: "ev", T: t, Res: d, Code: rc, St: rs})
	a.mu.Unlock()

	state := &chState{MockChannelState: testutil.NewMockChannelState(testutil.MockChannelStateParams{ChannelID: chid}), st: st}
	for _, s := range subs {
		s(datatransfer.Event{Code: code, Timestamp: time.Now()}, state)
	}
	a.mu.Lock()
	a.seq++
	a.events[idx].S1 = a.seq
	a.mu.Unlock()
}

// noteShut records the external mc.Shutdown() as an environment step
func (a *api) noteShut(before bool) int {
	a.mu.Lock()
	defer a.mu.Unlock()
	a.seq++
	if before {
		t := a.nowLocked()
		a.events = append(a.events, ObsEv{T: t, Code: "Shut", St: "", Delivered: true, S0: a.seq})
		a.mlog = append(a.mlog, MEntry{Call: "ev", T: t, Res: "d", Code: "Shut"})
		return len(a.events) - 1
	}
	return a.seq
}

var errScripted = errors.New("scripted failure")

func (a *api) call(ctx context.Context, name string) error {
	a.mu.Lock()
	if a.probe {
		// teardown: succeed, so that whatever loop is still running can come to an end
		a.mu.Unlock()
		return nil
	}
	a.ncalls++
	t := a.nowLocked()
	a.seq++
	e := ObsCall{Call: name, T: t, S0: a.seq, Ov: a.inflight}
	var out Out
	dead := ctx.Err() != nil
	if dead {
		e.Res = "ctx"
	} else {
		out = Out{Res: "ok"}
		if a.scriptAt < len(a.c.Script) {
			out = a.c.Script[a.scriptAt]
		}
		a.scriptAt++
		e.Res, e.Lat = out.Res, out.Lat
	}
	idx := len(a.log)
	a.log = append(a.log, e)
	a.mlog = append(a.mlog, MEntry{Call: name, T: t, Res: e.Res, Lat: e.Lat})
	a.inflight++
	runaway := a.ncalls > 400
	if runaway {
		a.runaway = true
	}
	a.mu.Unlock()

	var err error
	res := e.Res
	switch {
	case runaway:
		// a loop that does not end at this virtual instant: park it until teardown (the case is marked), then succeed
		<-a.stop
		res = "ctx"
	case dead:
		err = ctx.Err()
	default:
		if out.Lat > 0 {
			tm := time.NewTimer(time.Duration(out.Lat) * a.unit)
			select {
			case <-ctx.Done():
				err, res = ctx.Err(), "ctx"
			case <-tm.C:
			}
			tm.Stop()
		}
		if err == nil {
			if out.Inject != nil {
				a.deliver(*out.Inject, true)
			}
			if out.Res == "fail" {
				err = errScripted
			}
		}
	}
	a.mu.Lock()
	a.inflight--
	a.seq++
	a.log[idx].T1 = a.nowLocked()
	a.log[idx].S1 = a.seq
	a.log[idx].Out = res
	a.mu.Unlock()
	return err
}

func (a *api) ConnectTo(ctx context.Context, p peer.ID) error {
	if p != a.chid.OtherParty(a.self) {
		a.mu.Lock()
		a.errs = append(a.errs, "ConnectTo wrong peer "+p.String())
		a.mu.Unlock()
	}
	return a.call(ctx, "connect")
}

func (a *api) RestartDataTransferChannel(ctx context.Context, chid datatransfer.ChannelID) error {
	if chid != a.chid {
		a.mu.Lock()
		a.errs = append(a.errs, "Restart wrong channel")
		a.mu.Unlock()
	}
	return a.call(ctx, "restart")
}

func reasonOf(err error) string {
	if err == nil {
		return "nil"
	}
	s := err.Error()
	switch {
	case strings.Contains(s, "for Accept message"):
		return "accept"
	case strings.Contains(s, "for Complete message"):
		return "complete"
	case strings.Contains(s, "consecutive restarts"):
		return "restarts"
	}
	return "other"
}

func (a *api) CloseDataTransferChannelWithError(ctx context.Context, chid datatransfer.ChannelID, cherr error) error {
	a.mu.Lock()
	defer a.mu.Unlock()
	if a.probe {
		return nil
	}
	t := a.nowLocked()
	a.seq++
	txt := ""
	if cherr != nil {
		txt = cherr.Error()
	}
	if chid != a.chid {
		a.errs = append(a.errs, "Close wrong channel")
	}
	r := reasonOf(cherr)
	a.log = append(a.log, ObsCall{Call: "close", T: t, T1: t, Res: r, Out: "ok", S0: a.seq, S1: a.seq, Text: txt})
	a.mlog = append(a.mlog, MEntry{Call: "close", T: t, Res: r})
	return nil
}

// ---- driver -------------------------------------------------------------------------------------------

func runCase(t *testing.T, c Case) (o Obs) {
	o = Obs{Case: c.Case, Cfg: c.Cfg, Events: []ObsEv{}, Log: []ObsCall{}, Mlog: []MEntry{}}
	if c.Unit <= 0 {
		c.Unit = int64(time.Millisecond)
	}
	synctest.Test(t, func(t *testing.T) {
		self, other := peer.ID("initiator-peer"), peer.ID("responder-peer")
		a := &api{c: c, start: time.Now(), unit: time.Duration(c.Unit), self: self, subs: map[int]datatransfer.Subscriber{}, stop: make(chan struct{}),
			chid: datatransfer.ChannelID{Initiator: self, Responder: other, ID: datatransfer.TransferID(7)}}
		finish := func() {
			a.mu.Lock()
			o.Events = append(o.Events, a.events...)
			o.Log = append(o.Log, a.log...)
			o.Mlog = append(o.Mlog, a.mlog...)
			o.Runaway = a.runaway
			o.End.Subs, o.End.Unsubs = a.nsub, a.nunsub
			if len(a.errs) > 0 {
				o.Err = strings.Join(a.errs, "; ")
			}
			a.mu.Unlock()
		}
		defer func() {
			if r := recover(); r != nil {
				o.Panic = fmt.Sprint(r)
				finish()
				select {
				case <-a.stop:
				default:
					close(a.stop)
				}
			}
		}()
		var cfg *channelmonitor.Config
		if c.Cfg.En {
			cfg = &channelmonitor.Config{
				AcceptTimeout:          time.Duration(c.Cfg.Acc) * a.unit,
				RestartDebounce:        time.Duration(c.Cfg.Deb) * a.unit,
				RestartBackoff:         time.Duration(c.Cfg.Bof) * a.unit,
				MaxConsecutiveRestarts: uint32(c.Cfg.Max),
				CompleteTimeout:        time.Duration(c.Cfg.Cmp) * a.unit,
				OnRestartComplete:      a.onRestartComplete,
			}
		}
		m := channelmonitor.NewMonitor(a, cfg)
		add := m.AddPushChannel
		if c.Pull {
			add = m.AddPullChannel
		}
		mc := add(a.chid)
		o.End.AddNil = mc == nil
		synctest.Wait()
		for _, e := range c.Events {
			if d := time.Duration(e.T)*a.unit - time.Since(a.start); d > 0 {
				time.Sleep(d)
			}
			if e.Code == "Shut" {
				if mc != nil {
					i := a.noteShut(true)
					mc.Shutdown()
					s := a.noteShut(false)
					a.mu.Lock()
					a.events[i].S1 = s
					a.mu.Unlock()
				}
			} else {
				a.deliver(e, false)
			}
			synctest.Wait()
		}
		if d := time.Duration(c.Cfg.Hz)*a.unit - time.Since(a.start); d > 0 {
			time.Sleep(d)
		}
		synctest.Wait()
		o.End.Now = a.now()
		// observe through the public API only, then tear down
		a.mu.Lock()
		o.End.Unsub = a.nsub > 0 && len(a.subs) == 0
		a.probe = true
		a.mu.Unlock()
		if c.Cfg.En {
			mc2 := m.AddPushChannel(a.chid)
			o.End.Listed = mc2 == nil
			if mc2 != nil {
				mc2.Shutdown()
			}
		}
		if mc != nil {
			mc.Shutdown()
		}
		m.Shutdown()
		close(a.stop)
		synctest.Wait()
		finish()
	})
	return o
}

func readCases(t *testing.T, path string) []Case {
	f, err := os.Open(path)
	if err != nil {
		t.Fatal(err)
	}
	defer f.Close()
	var out []Case
	sc := bufio.NewScanner(f)
	sc.Buffer(make([]byte, 1<<20), 1<<26)
	for sc.Scan() {
		if len(sc.Bytes()) == 0 {
			continue
		}
		var c Case
		if err := json.Unmarshal(sc.Bytes(), &c); err != nil {
			t.Fatal(err)
		}
		out = append(out, c)
	}
	return out
}

// TestReplay: VERIF_CASES (ndjson of Case) -> VERIF_OUT (ndjson of Obs).
func TestReplay(t *testing.T) {
	in, out := os.Getenv("VERIF_CASES"), os.Getenv("VERIF_OUT")
	if in == "" || out == "" {
		t.Skip("VERIF_CASES / VERIF_OUT not set")
	}
	cases := readCases(t, in)
	of, err := os.Create(out)
	if err != nil {
		t.Fatal(err)
	}
	defer of.Close()
	w := bufio.NewWriterSize(of, 1<<20)
	defer w.Flush()
	enc := json.NewEncoder(w)
	for _, c := range cases {
		reps := c.Reps
		if reps < 1 {
			reps = 1
		}
		for r := 0; r < reps; r++ {
			cc := c
			if reps > 1 {
				cc.Case = fmt.Sprintf("%s#%d", c.Case, r)
			}
			o := runCase(t, cc)
			if err := enc.Encode(o); err != nil {
				t.Fatal(err)
			}
		}
	}
}

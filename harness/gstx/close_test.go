package gstx

import (
	"context"
	"fmt"
	"os"
	"testing"
	"testing/synctest"
	"time"

	"verifharness/kit"
)

// closeObs: did Transport.CloseChannel return, at which virtual time, with which error class (C09 / suspect F2).
type closeObs struct {
	Case      string   `json:"case"`
	Dir       string   `json:"dir"`    // "out": we request data on the channel, "in": we serve it
	State     string   `json:"state"`  // untracked | trackedNoReq | open | cancelledByUs | requesterCancelled
	Cancel    string   `json:"cancel"` // ok | notfound | err | slow
	LatencyMs int64    `json:"latency_ms"`
	Returned  bool     `json:"returned"`
	AtMs      int64    `json:"at_ms"` // virtual ms between the call and its return (-1: not within 24 h)
	Err       string   `json:"err"`
	Cancels   []string `json:"cancels"`   // requests gs.Cancel was called for during the call
	AfterCtx  string   `json:"after_ctx"` // error class once the context was cancelled (only when it did not return)
	Setup     string   `json:"setup"`
}

const closeLatency = 250 * time.Millisecond

func runClose(dir, state, cancelMode string) closeObs {
	o := closeObs{Case: fmt.Sprintf("close-%s-%s-%s", dir, state, cancelMode), Dir: dir, State: state, Cancel: cancelMode, Cancels: []string{}, AtMs: -1}
	if cancelMode == "slow" {
		o.LatencyMs = closeLatency.Milliseconds()
	}
	w := newWorld()
	c := kit.GstChid{Init: "S", Resp: "P", Tid: 1} // out: a pull we initiated; in: a push we initiated
	setup := func(a action) {
		inv := &kit.GstInv{ID: 0, HRet: a.HRet, HMsg: a.HMsg}
		w.at.SetGlobal(inv)
		done := make(chan string, 1)
		go func() { leave := w.at.Enter(inv); defer leave(); done <- w.exec(w.ctx(), a) }()
		synctest.Wait()
		select {
		case r := <-done:
			o.Setup += a.Op + ":" + r + " "
		default:
			o.Setup += a.Op + ":blocked "
		}
	}
	w.cret = "ok"
	mk := func(op string) action {
		a := action{Op: op, C: c, HRet: "nil", HMsg: "none", K: -1, CRet: "ok"}
		if op == "InReq" || op == "ReqCancelled" {
			a.C, a.P, a.R, a.Ext, a.Tid = kit.GstChid{}, "P", "r1", "resp", 1
		}
		return a
	}
	switch state {
	case "untracked":
	case "trackedNoReq":
		setup(mk("UseStore"))
	case "open", "cancelledByUs", "requesterCancelled":
		if dir == "out" {
			setup(mk("Open"))
		} else {
			setup(mk("InReq"))
		}
		if state == "cancelledByUs" {
			// first close through a context that ends, so that the setup itself cannot hang
			ctx, cancel := context.WithCancel(context.Background())
			done := make(chan error, 1)
			go func() { done <- w.tr.CloseChannel(ctx, c.Real()) }()
			synctest.Wait()
			select {
			case err := <-done:
				o.Setup += "Close:" + kit.GstErrClass(err) + " "
			default:
				cancel()
				synctest.Wait()
				o.Setup += "Close:hang "
			}
			cancel()
		}
		if state == "requesterCancelled" {
			setup(mk("ReqCancelled"))
		}
	}
	// the call under observation
	w.gs.Plan = func(string) kit.GstCancelPlan { return kit.GstCancelPlan{Mode: cancelMode, Latency: closeLatency} }
	g0 := w.gs.Len()
	ctx, cancel := context.WithCancel(context.Background())
	defer cancel()
	t0 := time.Now()
	type res struct {
		err error
		at  time.Duration
	}
	done := make(chan res, 1)
	go func() {
		err := w.tr.CloseChannel(ctx, c.Real())
		done <- res{err, time.Since(t0)}
	}()
	synctest.Wait()
	got := false
	var r res
	select {
	case r = <-done:
		got = true
	default:
		time.Sleep(24 * time.Hour)
		synctest.Wait()
		select {
		case r = <-done:
			got = true
		default:
		}
	}
	if got {
		o.Returned, o.AtMs, o.Err = true, r.at.Milliseconds(), kit.GstErrClass(r.err)
	} else {
		cancel()
		synctest.Wait()
		select {
		case r = <-done:
			o.AfterCtx = kit.GstErrClass(r.err)
		default:
			o.AfterCtx = "stuck"
		}
	}
	for _, g := range w.gs.Since(g0) {
		if g.Call == "Cancel" {
			o.Cancels = append(o.Cancels, g.R)
		}
	}
	w.teardown()
	synctest.Wait()
	return o
}

// TestClose: every transport request state x gs.Cancel outcome -> VERIF_OUT (ndjson of closeObs).
func TestClose(t *testing.T) {
	out := os.Getenv("VERIF_OUT")
	if out == "" {
		t.Skip("VERIF_OUT not set")
	}
	of := createOut(t, out)
	defer of.close()
	for _, dir := range []string{"out", "in"} {
		for _, state := range []string{"untracked", "trackedNoReq", "open", "cancelledByUs", "requesterCancelled"} {
			if dir == "out" && state == "requesterCancelled" {
				continue // the requester is us
			}
			for _, cm := range []string{"ok", "notfound", "err", "slow"} {
				var o closeObs
				synctest.Test(t, func(t *testing.T) { o = runClose(dir, state, cm) })
				of.put(t, o)
			}
		}
	}
}

package gstx

import (
	"context"
	"fmt"
	"math/rand"
	"os"
	"runtime"
	"sort"
	"strconv"
	"strings"
	"sync"
	"testing"
	"time"

	"verifharness/kit"
)

// A storm: several channels, each with its own goroutine that issues, sequentially, every call that changes that
// channel's adapter state (Transport methods, incoming requests, requester-cancelled notices, request ends), and
// several noise goroutines that fire every other callback for request ids of ALL channels (known, not yet
// created, never created, cleaned up), with any authenticated peer and any extension.  The interleaving is left to
// the Go scheduler (the package is also built with -race); the judge applies the per-channel sequential rules to
// each channel's own steps and rules that hold for every interleaving to the noise.

type invObs struct {
	ID    int              `json:"id"`
	A     action           `json:"a"`
	T0    int64            `json:"t0"`
	T1    int64            `json:"t1"`
	Ret   string           `json:"ret"`
	OpRet string           `json:"opret"`
	Owner kit.GstChid      `json:"owner"`
	Born  int64            `json:"born"`
	Out   []kit.GstHCall   `json:"out"`
	Gsc   []kit.GstGSCall  `json:"gsc"`
	Hook  []kit.GstHookAct `json:"hook"`
	Opts  []kit.GstChid    `json:"opts"`
	Err   string           `json:"err"`
}

type chanObs struct {
	C     kit.GstChid `json:"c"`
	Steps []invObs    `json:"steps"`
}

type stormObs struct {
	Case  string         `json:"case"`
	Err   string         `json:"err"`
	Chans []chanObs      `json:"chans"`
	Noise []invObs       `json:"noise"`
	Bg    []kit.GstHCall `json:"bg"`
	Opts  []kit.GstChid  `json:"opts"`
	Races int            `json:"races"`
}

type stormChan struct {
	idx   int
	c     kit.GstChid
	out   bool // we request data on it (OpenChannel); else we serve it (incoming requests)
	steps []action
}

// the channels of a storm (all within GsTOps!AllChids); even index: we request data, odd: we serve it
var stormChids = []kit.GstChid{
	{Init: "S", Resp: "P", Tid: 1}, // pull we initiated: we request
	{Init: "P", Resp: "S", Tid: 1}, // pull the remote initiated: we serve
	{Init: "P", Resp: "S", Tid: 2}, // push the remote initiated: we request
	{Init: "S", Resp: "P", Tid: 2}, // push we initiated: we serve
	{Init: "S", Resp: "Q", Tid: 1},
	{Init: "Q", Resp: "S", Tid: 1},
}

func gname(j int, local string) string { return fmt.Sprintf("c%d.%s", j, local) }
func lname(g string) string {
	if i := strings.IndexByte(g, '.'); i >= 0 {
		return g[i+1:]
	}
	return g
}
func gchan(g string) int {
	if strings.HasPrefix(g, "c") {
		if i := strings.IndexByte(g, '.'); i > 1 {
			n, err := strconv.Atoi(g[1:i])
			if err == nil {
				return n
			}
		}
	}
	return -1
}

func pick(r *rand.Rand, xs ...string) string { return xs[r.Intn(len(xs))] }

// genChan draws the own script of a channel.
func genChan(r *rand.Rand, sc *stormChan, n int) {
	nreq := 0
	live := false // a request was created since the last Close / Cleanup (CloseChannel without one waits for its context: F2)
	own := func() string {
		if nreq == 0 || r.Intn(6) == 0 {
			return fmt.Sprintf("r%d", 1+r.Intn(4))
		}
		return fmt.Sprintf("r%d", 1+r.Intn(nreq))
	}
	for len(sc.steps) < n {
		a := action{HRet: "nil", HMsg: "none", K: -1}
		switch x := r.Intn(20); {
		case x < 5:
			if nreq >= 4 {
				continue
			}
			nreq++
			live = true
			if sc.out {
				a.Op, a.C, a.CRet = "Open", sc.c, "gate"
				if r.Intn(2) == 0 {
					a.K = int64(r.Intn(3))
				}
			} else {
				a.Op, a.P, a.R, a.Tid = "InReq", other(sc.c), fmt.Sprintf("r%d", nreq), sc.c.Tid
				a.Ext = "req"
				if sc.c.Init == "S" {
					a.Ext = "resp"
				}
				a.HRet, a.HMsg = pick(r, "nil", "nil", "pause", "err"), pick(r, "none", "resp")
				live = a.HRet != "err"
			}
		case x < 7:
			a.Op, a.C = "Pause", sc.c
		case x < 10:
			a.Op, a.C = "Resume", sc.c
			a.M = int64([]int{0, 1001, 1002, 1003}[r.Intn(4)])
		case x < 12:
			if !live {
				continue
			}
			live = false
			a.Op, a.C, a.CRet = "Close", sc.c, "ok"
		case x < 14:
			live = false
			a.Op, a.C = "Cleanup", sc.c
		case x < 16:
			a.Op, a.C = "UseStore", sc.c
		case x < 18:
			if sc.out {
				continue // the requester is us
			}
			a.Op, a.P, a.R = "ReqCancelled", other(sc.c), own()
		default:
			if !sc.out {
				continue
			}
			a.Op, a.R, a.St = "Consume", own(), pick(r, "none", "clientCancelled", "respCancelled", "other")
		}
		sc.steps = append(sc.steps, a)
	}
}

func genNoise(r *rand.Rand, nch int) action {
	a := action{HRet: pick(r, "nil", "nil", "pause", "err"), HMsg: pick(r, "none", "resp"), K: -1}
	a.P = pick(r, "P", "P", "Q")
	a.R = gname(r.Intn(nch), fmt.Sprintf("r%d", 1+r.Intn(4)))
	if r.Intn(8) == 0 {
		a.R = "rX"
	}
	a.Ext, a.Tid = pick(r, "none", "malformed", "req", "resp", "req", "resp"), int64(1+r.Intn(2))
	a.Wire = int64(5 * r.Intn(2))
	switch r.Intn(13) {
	case 0:
		a.Op, a.Slot = "Processing", pick(r, "in", "out")
	case 1:
		a.Op = "InBlock"
	case 2:
		a.Op = "OutBlock"
	case 3:
		a.Op = "BlockSent"
	case 4, 5:
		a.Op, a.St = "Completed", pick(r, "full", "partial", "cancelled", "rejected")
	case 6:
		a.Op = "ReqUpdated"
	case 7:
		a.Op, a.Slot = "InResp", pick(r, "dt", "inreq", "outblk", "both")
	case 8:
		a.Op = "SendErr"
	case 9:
		a.Op = "RecvErr"
	case 10:
		a.Op, a.R, a.Ext = "OutReqHook", "rX", pick(r, "none", "malformed")
	case 11:
		a.Op, a.R, a.Ext = "InReq", "rX", pick(r, "none", "malformed")
	default:
		a.Op = "ChannelsForPeer"
	}
	return a
}

func runStorm(name string, seed int64, nch, nown, nnoise, noiseLen int) stormObs {
	r := rand.New(rand.NewSource(seed))
	w := newWorld()
	w.gs.AutoFinish = true
	w.gs.Plan = func(string) kit.GstCancelPlan { return kit.GstCancelPlan{Mode: "ok"} }
	// request names: the k-th request of channel j is "cj.rk"; gs.Request is told the name through the goroutine's channel
	var nameMu sync.Mutex
	chans := make([]*stormChan, nch)
	for j := 0; j < nch; j++ {
		sc := &stormChan{idx: j, out: j%2 == 0, c: stormChids[j]}
		genChan(r, sc, nown)
		chans[j] = sc
	}
	noise := make([][]action, nnoise)
	for k := range noise {
		for i := 0; i < noiseLen; i++ {
			noise[k] = append(noise[k], genNoise(r, nch))
		}
	}
	// outgoing request names are allocated per channel by the owner goroutine just before OpenChannel
	pendingName := make([]string, nch)
	w.gs.NextName = func() string {
		// called on the owner goroutine inside OpenChannel -> gs.Request
		inv, _ := w.at.Cur()
		nameMu.Lock()
		defer nameMu.Unlock()
		if inv != nil && inv.ID/100000 < nch {
			return pendingName[inv.ID/100000]
		}
		return "g?"
	}

	type rec struct {
		inv *kit.GstInv
		o   invObs
	}
	var wg sync.WaitGroup
	ownRecs := make([][]*rec, nch)
	noiseRecs := make([][]*rec, nnoise)
	start := make(chan struct{})
	for j, sc := range chans {
		wg.Add(1)
		go func(j int, sc *stormChan) {
			defer wg.Done()
			<-start
			nreq := 0
			for i, a := range sc.steps {
				id := j*100000 + i + 1
				inv := &kit.GstInv{ID: id, HRet: a.HRet, HMsg: a.HMsg}
				rc := &rec{inv: inv, o: invObs{ID: id, A: a}}
				ga := a // the action with global request names
				if a.R != "" && a.R != "rX" {
					ga.R = gname(j, a.R)
				}
				if a.Op == "Open" {
					nreq++
					nameMu.Lock()
					pendingName[j] = gname(j, fmt.Sprintf("r%d", nreq))
					nameMu.Unlock()
				}
				leave := w.at.Enter(inv)
				rc.o.T0 = w.at.Next()
				switch a.Op {
				case "InReq":
					nreq++
					rc.o.Ret = hookRet(w.gs.FireIncomingRequest(kit.Peer(a.P), ga.R, exts(a.Ext, a.Tid, true, "dt")))
				case "Close":
					ctx, cancel := context.WithTimeout(context.Background(), 300*time.Millisecond)
					rc.o.Ret = kit.GstErrClass(w.tr.CloseChannel(ctx, a.C.Real()))
					cancel()
					if rc.o.Ret == "ctx" {
						rc.o.Ret = "hang"
					}
				default:
					rc.o.Ret = w.exec(context.Background(), ga)
				}
				rc.o.T1 = w.at.Next()
				leave()
				rc.o.Opts = []kit.GstChid{}
				for _, n := range w.gs.Options() {
					if n == kit.GstOptName(sc.c) {
						rc.o.Opts = append(rc.o.Opts, sc.c)
					}
				}
				ownRecs[j] = append(ownRecs[j], rc)
			}
		}(j, sc)
	}
	for k := range noise {
		wg.Add(1)
		go func(k int) {
			defer wg.Done()
			<-start
			for i, a := range noise[k] {
				id := (nch+k)*100000 + i + 1
				inv := &kit.GstInv{ID: id, HRet: a.HRet, HMsg: a.HMsg}
				rc := &rec{inv: inv, o: invObs{ID: id, A: a}}
				leave := w.at.Enter(inv)
				rc.o.T0 = w.at.Next()
				if a.Op == "ChannelsForPeer" {
					w.tr.ChannelsForPeer(kit.Peer(a.P))
					rc.o.Ret = "nil"
				} else {
					rc.o.Ret = w.exec(context.Background(), a)
				}
				rc.o.T1 = w.at.Next()
				leave()
				noiseRecs[k] = append(noiseRecs[k], rc)
			}
		}(k)
	}
	base := runtime.NumGoroutine()
	close(start)
	wg.Wait()
	// end every request that is still running and wait (bounded) for the adapter's own goroutines to finish reporting
	for _, r := range w.gs.Live() {
		w.gs.Finish(r, "none")
	}
	for t0 := time.Now(); runtime.NumGoroutine() > base-nch-nnoise && time.Since(t0) < 3*time.Second; {
		time.Sleep(time.Millisecond)
	}

	so := stormObs{Case: name, Chans: []chanObs{}, Noise: []invObs{}, Bg: []kit.GstHCall{}}
	hc, gc, kc := w.ev.Since(0), normGsc(w.gs.Since(0)), normHook(w.at.HooksSince(0))
	so.Opts = w.opts()
	outBy, hookBy, gscBy := map[int][]kit.GstHCall{}, map[int][]kit.GstHookAct{}, map[int][]kit.GstGSCall{}
	for _, h := range hc {
		if h.Src == "cb" {
			outBy[h.Inv] = append(outBy[h.Inv], h)
		} else {
			so.Bg = append(so.Bg, h)
		}
	}
	for _, h := range kc {
		hookBy[h.Inv] = append(hookBy[h.Inv], h)
	}
	// creation of requests: born = end of the owner step that created it (successfully)
	born := map[string]int64{}
	for j := range chans {
		for _, rc := range ownRecs[j] {
			a := rc.o.A
			if a.Op == "InReq" && a.HRet != "err" && rc.o.Ret == "nil" {
				born[gname(j, a.R)] = rc.o.T1
			}
			if a.Op == "Open" && rc.o.Ret == "nil" {
				for _, g := range gc {
					if g.Call == "Request" && g.Inv == rc.o.ID {
						born[g.R] = rc.o.T1
					}
				}
			}
		}
	}
	// graphsync calls: by invocation when made on the owner goroutine, else (Cancel, made on a goroutine the adapter
	// spawned) by the request's channel and the owner step during which it happened
	for _, g := range gc {
		if g.Src == "cb" {
			gscBy[g.Inv] = append(gscBy[g.Inv], g)
			continue
		}
		j := gchan(g.R)
		placed := false
		if j >= 0 && j < nch {
			for _, rc := range ownRecs[j] {
				if rc.o.T0 < g.Seq && g.Seq < rc.o.T1 {
					gscBy[rc.o.ID] = append(gscBy[rc.o.ID], g)
					placed = true
				}
			}
		}
		if !placed {
			so.Err = "graphsync call outside any step: " + g.Call + " " + g.R
		}
	}
	fill := func(o *invObs) {
		o.Out, o.Hook, o.Gsc = outBy[o.ID], hookBy[o.ID], gscBy[o.ID]
		if o.Out == nil {
			o.Out = []kit.GstHCall{}
		}
		if o.Hook == nil {
			o.Hook = []kit.GstHookAct{}
		}
		if o.Gsc == nil {
			o.Gsc = []kit.GstGSCall{}
		}
		if o.Opts == nil {
			o.Opts = []kit.GstChid{}
		}
	}
	for j, sc := range chans {
		co := chanObs{C: sc.c, Steps: []invObs{}}
		for _, rc := range ownRecs[j] {
			fill(&rc.o)
			for i := range rc.o.Gsc { // local request names for the per-channel fold
				if gchan(rc.o.Gsc[i].R) == j {
					rc.o.Gsc[i].R = lname(rc.o.Gsc[i].R)
				}
			}
			rc.o.Born = -1
			co.Steps = append(co.Steps, rc.o)
		}
		so.Chans = append(so.Chans, co)
	}
	for k := range noise {
		for _, rc := range noiseRecs[k] {
			fill(&rc.o)
			rc.o.Born = -1
			if b, ok := born[rc.o.A.R]; ok {
				rc.o.Born = b
				rc.o.Owner = chans[gchan(rc.o.A.R)].c
			}
			so.Noise = append(so.Noise, rc.o)
		}
	}
	sort.Slice(so.Noise, func(a, b int) bool { return so.Noise[a].T0 < so.Noise[b].T0 })
	w.teardown()
	return so
}

// TestStorm: VERIF_SEED-derived storms -> VERIF_OUT (ndjson of stormObs). VERIF_STORMS = number of storms.
func TestStorm(t *testing.T) {
	out := os.Getenv("VERIF_OUT")
	if out == "" {
		t.Skip("VERIF_OUT not set")
	}
	seed, _ := strconv.ParseInt(os.Getenv("VERIF_SEED"), 10, 64)
	n, _ := strconv.Atoi(os.Getenv("VERIF_STORMS"))
	if n == 0 {
		n = 10
	}
	of := createOut(t, out)
	defer of.close()
	for i := 0; i < n; i++ {
		// real goroutines, real time (no synctest bubble: a goroutine waiting for a library mutex would stall virtual time)
		of.put(t, runStorm(fmt.Sprintf("storm-%d", i), seed*1000003+int64(i), 4+i%3, 14, 3, 40))
	}
}

package gstx

import (
	"fmt"
	"os"
	"testing"
	"testing/synctest"

	"verifharness/kit"
)

// TestReopen (C10, GsT part): enumerated scripts over the alphabet of GsTOps.tla, run like TestReplay; the
// observations carry virtual timestamps (t) on every graphsync / handler call.
//
//	reopen-<how>-<cancel>-k<k>: OpenChannel, then OpenChannel with channel state ReceivedCidsTotal = k while the first
//	    request is live; the old request ends before gs.Cancel returns ("endFirst"), after it ("cancelFirst") or never
//	    ("never": 1 s cap); gs.Cancel returns ok / notfound / err.
//	pending-*: incoming request, requester cancels, ResumeChannel(m1), ResumeChannel(m2), [ResumeChannel(nil)], next
//	    incoming request (queued messages expected once, in order), requester cancels again, third incoming request
//	    (nothing queued any more).
func reopenCases() []caseDef {
	out := []caseDef{}
	c1 := kit.GstChid{Init: "S", Resp: "P", Tid: 1}
	c2 := kit.GstChid{Init: "P", Resp: "S", Tid: 1}
	base := func(op string) action { return action{Op: op, HRet: "nil", HMsg: "none", K: -1} }
	for _, ch := range []kit.GstChid{c1, {Init: "P", Resp: "S", Tid: 2}} {
		for _, how := range []string{"endFirst", "cancelFirst", "never"} {
			for _, cr := range []string{"ok", "notfound", "err"} {
				for _, k := range []int64{0, 3, 7} {
					o1, o2 := base("Open"), base("Open")
					o1.C, o1.CRet, o2.C, o2.CRet, o2.K = ch, "gate", ch, "gate", k
					cons, cret, tick := base("Consume"), base("CancelRet"), base("Tick")
					cons.R, cons.St, cret.R, cret.CRet = "r1", "clientCancelled", "r1", cr
					blk := base("InBlock")
					blk.P, blk.R, blk.Wire = "P", "r1", 5
					steps := []action{o1, blk, o2}
					switch how {
					case "endFirst":
						steps = append(steps, cons, cret)
					case "cancelFirst":
						steps = append(steps, cret, cons)
					case "never":
						steps = append(steps, cret, tick)
					}
					blk2 := blk
					blk2.R = "r2"
					steps = append(steps, blk, blk2)
					out = append(out, caseDef{Case: fmt.Sprintf("reopen-%s%d-%s-%s-k%d", ch.Init, ch.Tid, how, cr, k), C1: c1, C2: c2, Steps: steps})
				}
			}
		}
	}
	for _, ch := range []kit.GstChid{c2, {Init: "S", Resp: "P", Tid: 2}} {
		for _, withNil := range []bool{false, true} {
			ext := "req"
			if ch.Init == "S" {
				ext = "resp"
			}
			in := func(r string) action {
				a := base("InReq")
				a.P, a.R, a.Ext, a.Tid = "P", r, ext, ch.Tid
				return a
			}
			rc := func(r string) action { a := base("ReqCancelled"); a.P, a.R = "P", r; return a }
			res := func(m int64) action { a := base("Resume"); a.C, a.M = ch, m; return a }
			steps := []action{in("r1"), res(1000), rc("r1"), res(1001), res(1002)}
			if withNil {
				steps = append(steps, res(0))
			}
			steps = append(steps, in("r2"), res(1003), rc("r2"), in("r3"))
			out = append(out, caseDef{Case: fmt.Sprintf("pending-%s%d-nil%v", ch.Init, ch.Tid, withNil), C1: c1, C2: c2, Steps: steps})
		}
	}
	return out
}

func TestReopen(t *testing.T) {
	out := os.Getenv("VERIF_OUT")
	if out == "" {
		t.Skip("VERIF_OUT not set")
	}
	of := createOut(t, out)
	defer of.close()
	for _, c := range reopenCases() {
		var co caseObs
		synctest.Test(t, func(t *testing.T) { co = runCase(c) })
		of.put(t, co)
	}
}

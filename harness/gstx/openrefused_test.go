package gstx

import (
	"bufio"
	"context"
	"encoding/json"
	"os"
	"runtime"
	"strings"
	"testing"
	"time"

	"verifharness/kit"
)

// TestOpenRefused: Transport.OpenChannel for a channel whose OnChannelOpened the events handler refuses (the manager does so for a
// channel it does not track or that has terminated meanwhile). The outgoing-request hook then releases the channel (CleanupChannel)
// while OpenChannel is still inside gs.Request holding the channel's lock. Every call has to return.
type openRefusedObs struct {
	Case     string   `json:"case"`
	Rule     string   `json:"rule"`
	Scenario string   `json:"scenario"`
	Dir      string   `json:"dir"`     // pull (we initiate) | push (we respond)
	Restart  bool     `json:"restart"` // the channel already had a request
	Returned bool     `json:"returned"`
	Ret      string   `json:"ret"`
	AtMs     int64    `json:"at_ms"`
	Stuck    []string `json:"stuck"` // library frames of goroutines still parked in the adapter
	Err      string   `json:"err"`
}

func TestOpenRefused(t *testing.T) {
	out := os.Getenv("VERIF_OUT")
	if out == "" {
		t.Skip("VERIF_OUT not set")
	}
	of, err := os.Create(out)
	if err != nil {
		t.Fatal(err)
	}
	defer of.Close()
	w := bufio.NewWriter(of)
	defer w.Flush()
	enc := json.NewEncoder(w)
	i := 0
	for _, dir := range []string{"pull", "push"} {
		for _, restart := range []bool{false, true} {
			i++
			o := openRefusedObs{Case: "openrefused" + string(rune('0'+i)), Rule: "C20.everyCallReturns", Scenario: "openRefused", Dir: dir, Restart: restart, Stuck: []string{}}
			wd := newWorld()
			c := kit.GstChid{Init: "S", Resp: "P", Tid: 1}
			if dir == "push" {
				c = kit.GstChid{Init: "P", Resp: "S", Tid: 1}
			}
			if restart {
				if err := wd.open(wd.ctx(), c, -1); err != nil {
					o.Err = "first open: " + err.Error()
					_ = enc.Encode(o)
					continue
				}
			}
			wd.ev.SetRefuseOpened(true)
			done := make(chan error, 1)
			t0 := time.Now()
			go func() {
				k := int64(-1)
				if restart {
					k = 0
				}
				done <- wd.open(context.Background(), c, k)
			}()
			select {
			case e := <-done:
				o.Returned, o.Ret, o.AtMs = true, kit.ErrClass(e), time.Since(t0).Milliseconds()
			case <-time.After(4 * time.Second):
				o.AtMs = time.Since(t0).Milliseconds()
				buf := make([]byte, 1<<20)
				for _, g := range strings.Split(string(buf[:runtime.Stack(buf, true)]), "\n\n") {
					if strings.Contains(g, "transport/graphsync.") && (strings.Contains(g, "Lock") || strings.Contains(g, "select") || strings.Contains(g, "chan receive")) {
						var fr []string
						for _, l := range strings.Split(g, "\n") {
							if strings.Contains(l, "transport/graphsync.") {
								fr = append(fr, strings.TrimSpace(l[strings.Index(l, "transport/graphsync.")+len("transport/graphsync."):]))
							}
						}
						o.Stuck = append(o.Stuck, strings.Join(fr, " <- "))
					}
				}
			}
			wd.teardown()
			_ = enc.Encode(o)
		}
	}
}

package gstx

import (
	"context"
	"encoding/json"
	"fmt"
	"os"
	"runtime"
	"strings"
	"testing"
	"time"

	cidlink "github.com/ipld/go-ipld-prime/linking/cid"

	"verifharness/kit"
)

// Overlap scenarios of spec/GsTPair.tla on the REAL adapter (real time, no synctest: a goroutine blocked on a
// library mutex is not durably blocked for a bubble).
//
//	pre ; ( H || X ) ; post
//
// H is an incoming-request hook whose events handler is parked at a gate (the hook is then inside the handler,
// holding whatever locks the adapter holds there); X is a Transport method on H's channel, started while H is
// parked; after a short real-time wait the gate opens, both calls must return (watchdog) and the probing
// callbacks `post` are fired one by one.  The waits only decide whether the overlap is achieved (recorded as
// Overlap); they never decide a verdict.

// reenter: "none" | "UseStoreEarly" (the handler calls Transport.UseStore before X starts) | "UseStore" (after X started)
type pairDef struct {
	Case    string      `json:"case"`
	C       kit.GstChid `json:"c"`
	Pre     []action    `json:"pre"`
	H       action      `json:"h"`
	Reenter string      `json:"reenter"`
	X       action      `json:"x"`
	Post    []action    `json:"post"`
}

type pairObs struct {
	Case    string        `json:"case"`
	C       kit.GstChid   `json:"c"`
	Pre     []stepObs     `json:"pre"`
	H       stepObs       `json:"h"`
	X       stepObs       `json:"x"`
	Post    []stepObs     `json:"post"`
	Reenter string        `json:"reenter"`
	Overlap bool          `json:"overlap"`
	Stuck   string        `json:"stuck"`
	Stacks  string        `json:"stacks"`
	Opts    []kit.GstChid `json:"opts"`
	Err     string        `json:"err"`
}

const pairWatchdog = 4 * time.Second

func splitByInv(w *world, h0, g0, k0 int, id int) ([]kit.GstHCall, []kit.GstGSCall, []kit.GstHookAct) {
	out, gsc, hk := []kit.GstHCall{}, []kit.GstGSCall{}, []kit.GstHookAct{}
	for _, o := range w.ev.Since(h0) {
		if o.Inv == id {
			out = append(out, o)
		}
	}
	for _, g := range normGsc(w.gs.Since(g0)) {
		// graphsync calls made on goroutines the adapter spawned itself (dtChannel.cancel) carry no invocation:
		// in a pair window they can only stem from the Transport method X (bgTo), in sequential steps from the step
		if g.Inv == id || (g.Inv < 0 && id == w.bgTo) {
			gsc = append(gsc, g)
		}
	}
	for _, h := range normHook(w.at.HooksSince(k0)) {
		if h.Inv == id {
			hk = append(hk, h)
		}
	}
	return out, gsc, hk
}

// seqStep runs one action to completion on its own goroutine (bound to inv for attribution).
func seqStep(w *world, id int, a action) stepObs {
	inv := &kit.GstInv{ID: id, HRet: a.HRet, HMsg: a.HMsg}
	w.cret = a.CRet
	w.bgTo = id
	h0, g0, k0 := w.ev.Len(), w.gs.Len(), w.at.HookLen()
	o := stepObs{I: id, A: a}
	done := make(chan string, 1)
	ctx := w.ctx()
	go func() {
		leave := w.at.Enter(inv)
		defer leave()
		done <- w.exec(ctx, a)
	}()
	select {
	case o.Ret = <-done:
	case <-time.After(pairWatchdog):
		o.Ret, o.Err = "stuck", "sequential step did not return"
	}
	o.Out, o.Gsc, o.Hook = splitByInv(w, h0, g0, k0, id)
	o.Opts = w.opts()
	return o
}

func libStacks() string {
	buf := make([]byte, 1<<20)
	n := runtime.Stack(buf, true)
	keep := []string{}
	for _, g := range strings.Split(string(buf[:n]), "\n\n") {
		if strings.Contains(g, "go-data-transfer/v2/transport/graphsync.") && (strings.Contains(g, "sync.(*RWMutex)") || strings.Contains(g, "sync.(*Mutex)")) {
			lines := strings.Split(g, "\n")
			if len(lines) > 14 {
				lines = lines[:14]
			}
			keep = append(keep, strings.Join(lines, "\n"))
		}
	}
	s := strings.Join(keep, "\n--\n")
	if len(s) > 6000 {
		s = s[:6000]
	}
	return s
}

func runPair(d pairDef) pairObs {
	w := newWorld()
	po := pairObs{Case: d.Case, C: d.C, Pre: []stepObs{}, Post: []stepObs{}, Reenter: d.Reenter, Opts: []kit.GstChid{}}
	id := 0
	for _, a := range d.Pre {
		id++
		o := seqStep(w, id, a)
		po.Pre = append(po.Pre, o)
		if o.Err != "" {
			po.Err = "pre: " + o.Err
			w.teardown()
			return po
		}
	}
	// H with its handler parked
	id++
	hid := id
	inHandler := make(chan struct{}, 1)
	release := make(chan struct{})
	w.ev.Gate = func(call string, c kit.GstChid, inv *kit.GstInv) {
		if inv == nil || inv.ID != hid || (call != "OnRequestReceived" && call != "OnResponseReceived") {
			return
		}
		if d.Reenter == "UseStoreEarly" {
			_ = w.tr.UseStore(c.Real(), cidlink.DefaultLinkSystem())
		}
		select {
		case inHandler <- struct{}{}:
		default:
		}
		<-release
		if d.Reenter == "UseStore" {
			// what the manager's transport configurers do from inside the handler (ApplyOptions -> UseStore), here
			// at the moment X is already under way
			_ = w.tr.UseStore(c.Real(), cidlink.DefaultLinkSystem())
		}
	}
	hinv := &kit.GstInv{ID: hid, HRet: d.H.HRet, HMsg: d.H.HMsg}
	h0, g0, k0 := w.ev.Len(), w.gs.Len(), w.at.HookLen()
	hdone := make(chan string, 1)
	go func() {
		leave := w.at.Enter(hinv)
		defer leave()
		hdone <- w.exec(context.Background(), d.H)
	}()
	po.H = stepObs{I: hid, A: d.H}
	po.X = stepObs{I: hid + 1, A: d.X}
	hReturnedEarly := false
	select {
	case <-inHandler:
	case r := <-hdone:
		hReturnedEarly = true
		po.H.Ret = r
	case <-time.After(pairWatchdog):
		po.Stuck, po.Stacks = "H", libStacks()
		close(release)
		return po
	}
	// X while H is inside the handler
	id++
	xid := id
	xinv := &kit.GstInv{ID: xid, HRet: d.X.HRet, HMsg: d.X.HMsg}
	w.cret = d.X.CRet
	w.bgTo = xid
	xdone := make(chan string, 1)
	xctx := w.ctx()
	go func() {
		leave := w.at.Enter(xinv)
		defer leave()
		xdone <- w.exec(xctx, d.X)
	}()
	xEarly := false
	select {
	case r := <-xdone: // X did not need anything H holds
		xEarly = true
		po.X.Ret = r
	case <-time.After(60 * time.Millisecond):
	}
	po.Overlap = !hReturnedEarly
	close(release)
	deadline := time.Now().Add(pairWatchdog)
	if !hReturnedEarly {
		select {
		case po.H.Ret = <-hdone:
		case <-time.After(time.Until(deadline)):
			po.Stuck = "H"
		}
	}
	if !xEarly {
		select {
		case po.X.Ret = <-xdone:
		case <-time.After(time.Until(deadline) + 50*time.Millisecond):
			if po.Stuck == "" {
				po.Stuck = "X"
			} else {
				po.Stuck = "HX"
			}
		}
	}
	po.H.Out, po.H.Gsc, po.H.Hook = splitByInv(w, h0, g0, k0, hid)
	po.X.Out, po.X.Gsc, po.X.Hook = splitByInv(w, h0, g0, k0, xid)
	po.H.Opts, po.X.Opts = []kit.GstChid{}, []kit.GstChid{}
	if po.Stuck != "" {
		po.Stacks = libStacks()
		return po // goroutines are stuck on library locks: nothing more can be asked of this adapter
	}
	po.Opts = w.opts()
	w.ev.Gate = nil
	for _, a := range d.Post {
		id++
		o := seqStep(w, id, a)
		po.Post = append(po.Post, o)
		if o.Err != "" {
			po.Stuck, po.Stacks = fmt.Sprintf("post%d", len(po.Post)), libStacks()
			return po
		}
	}
	w.teardown()
	return po
}

// TestPairs: VERIF_CASES (ndjson of pairDef, tabulated by TLC from GsTPair.tla) -> VERIF_OUT (ndjson of pairObs).
func TestPairs(t *testing.T) {
	in, out := os.Getenv("VERIF_CASES"), os.Getenv("VERIF_OUT")
	if in == "" || out == "" {
		t.Skip("VERIF_CASES / VERIF_OUT not set")
	}
	of := createOut(t, out)
	defer of.close()
	var defs []pairDef
	readLines(t, in, func(b []byte) {
		var c pairDef
		if err := json.Unmarshal(b, &c); err != nil {
			t.Fatal(err)
		}
		defs = append(defs, c)
	})
	// scenarios are independent worlds: run them on a few goroutines
	const par = 8
	res := make([]pairObs, len(defs))
	sem := make(chan struct{}, par)
	donec := make(chan int, len(defs))
	for i := range defs {
		sem <- struct{}{}
		go func(i int) {
			defer func() { <-sem; donec <- i }()
			res[i] = runPair(defs[i])
		}(i)
	}
	for range defs {
		<-donec
	}
	for _, r := range res {
		of.put(t, r)
	}
}

package mgrx

import (
	"bufio"
	"context"
	"encoding/json"
	"os"
	"sync"
	"testing"
	"testing/synctest"
	"time"

	datatransfer "github.com/filecoin-project/go-data-transfer/v2"
	"verifharness/kit"
)

// TestSlowSubscriber: a subscriber that stays inside one callback for a long (virtual) time while further events are applied. Every subscriber -
// also one registered after the slow one - must still be called for the events in the order in which they were applied (the order the first,
// prompt subscriber sees), once each. testing/synctest: the slow callback sleeps on the fake clock.
func TestSlowSubscriber(t *testing.T) {
	out := os.Getenv("VERIF_OUT")
	if out == "" {
		t.Skip("VERIF_OUT not set")
	}
	of, err := os.Create(out)
	if err != nil {
		t.Fatal(err)
	}
	defer of.Close()
	w := bufio.NewWriter(of)
	defer w.Flush()
	enc := json.NewEncoder(w)
	for _, dir := range []string{"push", "pull"} {
		for _, hold := range []int{2, 30, 600} { // seconds the slow subscriber stays in its first callback
			o := eqObs{Case: "slowsub-" + dir + "-" + time.Duration(hold*int(time.Second)).String(), Rule: "C17.orderWithSlowSubscriber", Scenario: "slowSubscriber:" + dir}
			done := make(chan struct{})
			go func() {
				defer close(done)
				defer func() {
					if r := recover(); r != nil {
						o.Err = "panic in bubble"
					}
				}()
				synctest.Test(t, func(t *testing.T) {
					n, err := kit.NewMgrNode("A", kit.NewRecDS(), []string{"vt"})
					if err != nil {
						o.Err = "node: " + err.Error()
						return
					}
					var mu sync.Mutex
					var ref, rec []string
					n.M.SubscribeToEvents(func(evt datatransfer.Event, st datatransfer.ChannelState) {
						mu.Lock()
						ref = append(ref, kit.EventName(evt.Code))
						mu.Unlock()
					})
					first := true
					n.M.SubscribeToEvents(func(evt datatransfer.Event, st datatransfer.ChannelState) {
						mu.Lock()
						f := first
						first = false
						mu.Unlock()
						if f {
							time.Sleep(time.Duration(hold) * time.Second)
						}
					})
					n.M.SubscribeToEvents(func(evt datatransfer.Event, st datatransfer.ChannelState) {
						mu.Lock()
						rec = append(rec, kit.EventName(evt.Code))
						mu.Unlock()
					})
					ctx := context.Background()
					var chid datatransfer.ChannelID
					if dir == "pull" {
						chid, err = n.M.OpenPullDataChannel(ctx, kit.Peer("B"), kit.Voucher("v0"), kit.Cid("base"), kit.Selector("s"))
					} else {
						chid, err = n.M.OpenPushDataChannel(ctx, kit.Peer("B"), kit.Voucher("v0"), kit.Cid("base"), kit.Selector("s"))
					}
					if err != nil {
						o.Err = "open: " + err.Error()
						return
					}
					_ = n.Tr.Events.OnChannelOpened(chid)
					_ = n.M.PauseDataTransferChannel(ctx, chid)
					_ = n.M.ResumeDataTransferChannel(ctx, chid)
					time.Sleep(time.Duration(hold+60) * time.Second)
					synctest.Wait()
					mu.Lock()
					inv := 0
					pos := map[string]int{}
					for i, e := range ref {
						if _, ok := pos[e]; !ok {
							pos[e] = i
						}
					}
					if len(rec) != len(ref) {
						inv = 1000 + len(rec)
					} else {
						for i := range rec {
							if rec[i] != ref[i] {
								inv++
							}
						}
					}
					o.Left, o.Right = int64(inv), 0
					mu.Unlock()
					_ = n.M.CloseDataTransferChannel(ctx, chid)
					time.Sleep(time.Minute)
					synctest.Wait()
					n.Stop()
					time.Sleep(time.Hour)
					synctest.Wait()
				})
			}()
			select {
			case <-done:
			case <-time.After(60 * time.Second):
				o.Err = "scenario did not finish (bubble hung)"
			}
			_ = enc.Encode(o)
		}
	}
}

package mgrx

import (
	"bufio"
	"encoding/json"
	"os"
	"testing"

	datatransfer "github.com/filecoin-project/go-data-transfer/v2"
	"verifharness/kit"
)

type sysStep struct {
	Node string `json:"node"`
	Stim Stim   `json:"stim"`
}
type sysCase struct {
	Case        string    `json:"case"`
	Dir         string    `json:"dir"`
	NBlocks     int       `json:"nblocks"`
	UniqueBytes uint64    `json:"uniqueBytes"`
	Steps       []sysStep `json:"steps"`
	ExpA        kit.Rec   `json:"expA"`
	ExpB        kit.Rec   `json:"expB"`
	HasB        bool      `json:"hasB"`
}
type sysStepObs struct {
	Node string  `json:"node"`
	Obs  StepObs `json:"obs"`
}
type sysObs struct {
	Case        string       `json:"case"`
	Dir         string       `json:"dir"`
	NBlocks     int          `json:"nblocks"`
	UniqueBytes uint64       `json:"uniqueBytes"`
	Steps       []sysStepObs `json:"steps"`
	ExpA        kit.Rec      `json:"expA"`
	ExpB        kit.Rec      `json:"expB"`
	ExpHasB     bool         `json:"expHasB"`
	FinalA      kit.Rec      `json:"finalA"`
	FinalB      kit.Rec      `json:"finalB"`
	HasB        bool         `json:"hasB"`
	Err         string       `json:"err"`
}

// TestSys replays behaviours of spec/Sys.tla on TWO real managers: every step is one stimulus on one node.
func TestSys(t *testing.T) {
	in, out := os.Getenv("VERIF_CASES"), os.Getenv("VERIF_OUT")
	if in == "" || out == "" {
		t.Skip("VERIF_CASES / VERIF_OUT not set")
	}
	f, err := os.Open(in)
	if err != nil {
		t.Fatal(err)
	}
	var cases []sysCase
	sc := bufio.NewScanner(f)
	sc.Buffer(make([]byte, 1<<20), 1<<26)
	for sc.Scan() {
		if len(sc.Bytes()) == 0 {
			continue
		}
		var c sysCase
		if err := json.Unmarshal(sc.Bytes(), &c); err != nil {
			t.Fatal(err)
		}
		cases = append(cases, c)
	}
	f.Close()
	of, err := os.Create(out)
	if err != nil {
		t.Fatal(err)
	}
	defer of.Close()
	bw := bufio.NewWriterSize(of, 1<<20)
	defer bw.Flush()
	enc := json.NewEncoder(bw)
	for _, c := range cases {
		o := sysObs{Case: c.Case, Dir: c.Dir, NBlocks: c.NBlocks, UniqueBytes: c.UniqueBytes, Steps: []sysStepObs{}, ExpA: c.ExpA, ExpB: c.ExpB, ExpHasB: c.HasB,
			FinalA: kit.EmptyRec(), FinalB: kit.EmptyRec()}
		pull := c.Dir == "pull"
		identA := kit.Ident{Self: "A", Initiator: "A", Responder: "B", Sender: "A", Recipient: "B", Tid: 1, Base: "base", Sel: "s"}
		if pull {
			identA.Sender, identA.Recipient = "B", "A"
		}
		chid := datatransfer.ChannelID{Initiator: kit.Peer("A"), Responder: kit.Peer("B"), ID: 1}
		worlds := map[string]*world{}
		for _, self := range []string{"A", "B"} {
			ds := kit.NewRecDS()
			w := &world{c: caseDef{Case: c.Case, Self: self, Types: []string{"vt"}}, ids: map[string]datatransfer.ChannelID{"c1": chid}, names: map[string]string{chid.String(): "c1"}}
			if self == "A" {
				cn, err := kit.NewChanNode("A", ds)
				if err != nil {
					t.Fatal(err)
				}
				rec := kit.EmptyRec()
				rec.Status = "Requested"
				rec.Vouchers = []string{"v0"}
				if _, err := cn.Seed(identA, rec); err != nil {
					t.Fatal(err)
				}
				cn.Stop()
			}
			n, err := kit.NewMgrNode(self, ds, []string{"vt"})
			if err != nil {
				t.Fatal(err)
			}
			w.n = n
			worlds[self] = w
		}
		for i, s := range c.Steps {
			w := worlds[s.Node]
			if s.Stim.Kind == "reopen" { // the node's process stops and starts again over the same datastore (validators registered again)
				w.n.Stop()
				n2, err := kit.NewMgrNode(s.Node, kit.NewRecDSFrom(w.n.DS.Snapshot()), []string{"vt"})
				if err != nil {
					o.Err = "reopen: " + err.Error()
					break
				}
				w.n = n2
				o.Steps = append(o.Steps, sysStepObs{Node: s.Node, Obs: StepObs{I: i + 1, Stim: normStim(s.Stim), Reply: kit.NoMsg(), T: emptyChanObs(), Others: []ChanObs{}, Net: []kit.NetCall{}, Tr: []kit.TCall{}, Val: []kit.VCall{}}})
				continue
			}
			so := w.step(i+1, s.Stim)
			o.Steps = append(o.Steps, sysStepObs{Node: s.Node, Obs: so})
		}
		if r, _, err := worlds["A"].n.DS.Raw(kit.DSKey(chid)), 0, error(nil); r != nil && err == nil {
			if rec, _, _, e := kit.RawFromBytes(r); e == nil {
				o.FinalA = normRec(rec)
			}
		}
		if r := worlds["B"].n.DS.Raw(kit.DSKey(chid)); r != nil {
			if rec, _, _, e := kit.RawFromBytes(r); e == nil {
				o.FinalB, o.HasB = normRec(rec), true
			}
		}
		worlds["A"].n.Stop()
		worlds["B"].n.Stop()
		if err := enc.Encode(o); err != nil {
			t.Fatal(err)
		}
	}
}

package mgrx

import (
	"bufio"
	"context"
	"encoding/json"
	"os"
	"testing"
	"time"

	datatransfer "github.com/filecoin-project/go-data-transfer/v2"
	cidlink "github.com/ipld/go-ipld-prime/linking/cid"
	"verifharness/kit"
)

// TestRestartDuringProgress: a responder that RECEIVES data (push) handles a restart request while blocks of the previous transport request are
// still being recorded - here exactly during the re-validation callback. The transport request it then opens must tell the sender to skip the
// blocks recorded as received WHEN IT IS OPENED (C10: "exactly the number of blocks it has already recorded as received").
type eqObs struct {
	Case     string `json:"case"`
	Rule     string `json:"rule"`
	Scenario string `json:"scenario"`
	Left     int64  `json:"left"`  // blocks the sender is told to skip
	Right    int64  `json:"right"` // blocks recorded as received at that moment
	Err      string `json:"err"`
}

func TestRestartDuringProgress(t *testing.T) {
	out := os.Getenv("VERIF_OUT")
	if out == "" {
		t.Skip("VERIF_OUT not set")
	}
	of, err := os.Create(out)
	if err != nil {
		t.Fatal(err)
	}
	defer of.Close()
	w := bufio.NewWriter(of)
	defer w.Flush()
	enc := json.NewEncoder(w)
	for _, path := range []string{"network", "transport"} {
		for _, during := range []int{0, 1, 3} {
			o := eqObs{Case: "restartrace-" + path + "-" + string(rune('0'+during)), Rule: "C10.skipWhatIsRecorded", Scenario: "restart||blocks:" + path}
			n, err := kit.NewMgrNode("A", kit.NewRecDS(), []string{"vt"})
			if err != nil {
				o.Err = "node: " + err.Error()
				_ = enc.Encode(o)
				continue
			}
			ctx := context.Background()
			other := kit.Peer("B")
			chid := datatransfer.ChannelID{Initiator: other, Responder: kit.Peer("A"), ID: 1}
			newReq, _ := kit.BuildMsg(kit.Msg{IsReq: true, Kind: "New", Tid: 1, Pull: false, V: "v0", Base: "base", Sel: "s"})
			n.Net.Recv.ReceiveRequest(ctx, other, newReq.(datatransfer.Request))
			n.Tr.Events.OnTransferInitiated(chid)
			link := cidlink.Link{Cid: kit.Cid("blk")}
			for i := int64(1); i <= 2; i++ {
				_ = n.Tr.Events.OnDataReceived(chid, link, 10, i, true)
			}
			n.Quiesce(chid)
			next := int64(3)
			for _, v := range n.Val {
				v.During = func(method string) {
					if method != "restart" {
						return
					}
					for k := 0; k < during; k++ { // blocks of the previous request still arriving while the restart is re-validated
						_ = n.Tr.Events.OnDataReceived(chid, link, 10, next, true)
						next++
					}
				}
			}
			restart, _ := kit.BuildMsg(kit.Msg{IsReq: true, Kind: "Restart", Tid: 1, Pull: false, V: "v0", Base: "base", Sel: "s"})
			t0 := n.Tr.N()
			if path == "network" {
				n.Net.Recv.ReceiveRequest(ctx, other, restart.(datatransfer.Request))
			} else {
				_, _ = n.Tr.Events.OnRequestReceived(chid, restart.(datatransfer.Request))
			}
			n.Quiesce(chid)
			sctx, cancel := context.WithTimeout(ctx, 3*time.Second)
			st, err := n.M.ChannelState(sctx, chid)
			cancel()
			if err != nil {
				o.Err = "state: " + err.Error()
				_ = enc.Encode(o)
				n.Stop()
				continue
			}
			o.Right = st.ReceivedCidsTotal()
			o.Left = -1
			for _, tc := range n.Tr.Since(t0) {
				if tc.Call == "open" && tc.HasChan {
					o.Left = tc.Skip
				}
			}
			if path == "transport" { // on the transport path the adapter itself re-issues the request: nothing is opened by the manager, nothing to compare
				o.Left = o.Right
			} else if o.Left < 0 {
				o.Err = "no transport request was opened for the accepted restart"
			}
			_ = enc.Encode(o)
			n.Stop()
		}
	}
}

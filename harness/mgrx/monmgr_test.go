package mgrx

import (
	"bufio"
	"context"
	"encoding/json"
	"errors"
	"fmt"
	"os"
	"testing"
	"runtime"
	"sync"
	"testing/synctest"
	"time"

	datatransfer "github.com/filecoin-project/go-data-transfer/v2"
	"github.com/filecoin-project/go-data-transfer/v2/channelmonitor"
	"github.com/filecoin-project/go-data-transfer/v2/impl"
	cidlink "github.com/ipld/go-ipld-prime/linking/cid"
	peer "github.com/libp2p/go-libp2p/core/peer"
	"verifharness/kit"
)

// TestMonMgr runs the scenarios of spec/MonMgr.tla on a REAL manager with its REAL channel monitor enabled (doubles only for the
// network and the transport), in a testing/synctest bubble: virtual time runs to quiescence between stimuli.

type mmScn struct {
	Kind    string   `json:"kind"` // restart | accept | complete
	Dir     string   `json:"dir"`
	Max     int      `json:"max"`
	Stims   []string `json:"stims"`
	Script  []bool   `json:"script"`
	Timeout int      `json:"timeout"`
	At      int      `json:"at"`
}
type mmCase struct {
	Case string `json:"case"`
	Scn  mmScn  `json:"scn"`
}
type mmObs struct {
	Case            string `json:"case"`
	Scn             mmScn  `json:"scn"`
	Restarts        []bool `json:"restarts"` // outcome of every restart request handed to the network (push) / transport (pull)
	PerErr          []int  `json:"perErr"`   // restart requests made per "err" stimulus
	Closed          bool   `json:"closed"`
	Final           string `json:"final"`
	Monitored       bool   `json:"monitored"` // probe at the end: a fresh error still produces a restart request
	ErrorEvents     int    `json:"errorEvents"`
	CancelMsgs      int    `json:"cancelMsgs"`
	TransportCloses int    `json:"transportCloses"`
	Err             string `json:"err"`
}

func TestMonMgr(t *testing.T) {
	in, out := os.Getenv("VERIF_CASES"), os.Getenv("VERIF_OUT")
	if in == "" || out == "" {
		t.Skip("VERIF_CASES / VERIF_OUT not set")
	}
	f, err := os.Open(in)
	if err != nil {
		t.Fatal(err)
	}
	defer f.Close()
	var cases []mmCase
	sc := bufio.NewScanner(f)
	sc.Buffer(make([]byte, 1<<20), 1<<26)
	for sc.Scan() {
		if len(sc.Bytes()) == 0 {
			continue
		}
		var c mmCase
		if err := json.Unmarshal(sc.Bytes(), &c); err != nil {
			t.Fatal(err)
		}
		cases = append(cases, c)
	}
	of, err := os.Create(out)
	if err != nil {
		t.Fatal(err)
	}
	defer of.Close()
	w := bufio.NewWriterSize(of, 1<<20)
	defer w.Flush()
	enc := json.NewEncoder(w)
	for _, c := range cases {
		var o mmObs
		done := make(chan struct{})
		go func() {
			defer close(done)
			defer func() {
				if r := recover(); r != nil {
					o = mmObs{Case: c.Case, Scn: c.Scn, Restarts: []bool{}, PerErr: []int{}, Err: fmt.Sprint("panic: ", r)}; if os.Getenv("VERIF_DEBUG") != "" { buf := make([]byte, 1<<20); fmt.Fprintf(os.Stderr, "%s\n", buf[:runtime.Stack(buf, true)]) }
				}
			}()
			synctest.Test(t, func(t *testing.T) { o = runMonMgr(c) })
		}()
		select {
		case <-done:
		case <-time.After(60 * time.Second): // a hung bubble (lock deadlock) is a harness-level failure of this case
			o = mmObs{Case: c.Case, Scn: c.Scn, Restarts: []bool{}, PerErr: []int{}, Err: "scenario did not finish (bubble hung)"}
		}
		if err := enc.Encode(o); err != nil {
			t.Fatal(err)
		}
	}
}

func runMonMgr(c mmCase) mmObs {
	o := mmObs{Case: c.Case, Scn: c.Scn, Restarts: []bool{}, PerErr: []int{}}
	s := c.Scn
	cfg := &channelmonitor.Config{MaxConsecutiveRestarts: uint32(s.Max), RestartDebounce: time.Second, RestartBackoff: time.Second}
	if s.Kind == "accept" {
		cfg.AcceptTimeout = time.Duration(s.Timeout) * time.Second
	}
	if s.Kind == "complete" {
		cfg.CompleteTimeout = time.Duration(s.Timeout) * time.Second
	}
	n, err := kit.NewMgrNode("A", kit.NewRecDS(), []string{"vt"}, impl.ChannelRestartConfig(*cfg))
	if err != nil {
		o.Err = "node: " + err.Error()
		return o
	}
	var chid datatransfer.ChannelID
	defer func() {
		// Manager.Stop does not end the monitors of live channels (their contexts hang off context.Background()): end the channel first
		_ = n.M.CloseDataTransferChannel(context.Background(), chid)
		time.Sleep(time.Minute)
		synctest.Wait()
		n.Stop()
		time.Sleep(time.Hour) // let every timer goroutine of the monitor run out inside the bubble
		synctest.Wait()
	}()
	ctx := context.Background()
	other := kit.Peer("B")
	pull := s.Dir == "pull"
	if s.Kind == "accept" && s.At == 99 {
		// the responder answers at once: its accept is handled before the call that carries the request out has returned
		var once sync.Once
		if pull {
			n.Tr.OnCall = func(c kit.TCall, m datatransfer.Message) {
				if c.Call == "open" {
					once.Do(func() {
						acc, _ := kit.BuildMsg(kit.Msg{Kind: "New", Tid: c.Msg.Tid, Accepted: true})
						_ = n.Tr.Events.OnResponseReceived(datatransfer.ChannelID{Initiator: kit.Peer("A"), Responder: other, ID: datatransfer.TransferID(c.Msg.Tid)}, acc.(datatransfer.Response))
					})
				}
			}
		} else {
			n.Net.OnSend = func(to peer.ID, m datatransfer.Message) {
				if m.IsRequest() && m.(datatransfer.Request).IsNew() {
					once.Do(func() {
						acc, _ := kit.BuildMsg(kit.Msg{Kind: "New", Tid: uint64(m.TransferID()), Accepted: true})
						n.Net.Recv.ReceiveResponse(ctx, other, acc.(datatransfer.Response))
					})
				}
			}
		}
	}
	if pull {
		chid, err = n.M.OpenPullDataChannel(ctx, other, kit.Voucher("v0"), kit.Cid("base"), kit.Selector("s"))
	} else {
		chid, err = n.M.OpenPushDataChannel(ctx, other, kit.Voucher("v0"), kit.Cid("base"), kit.Selector("s"))
	}
	if err != nil {
		o.Err = "open: " + err.Error()
		return o
	}
	settle := func(d time.Duration) {
		time.Sleep(d)
		synctest.Wait()
		n.Quiesce(chid)
		synctest.Wait()
	}
	deliverResp := func(m kit.Msg) error {
		msg, err := kit.BuildMsg(m)
		if err != nil {
			return err
		}
		if pull {
			_ = n.Tr.Events.OnResponseReceived(chid, msg.(datatransfer.Response))
		} else {
			n.Net.Recv.ReceiveResponse(ctx, other, msg.(datatransfer.Response))
		}
		return nil
	}
	tid := uint64(chid.ID)
	accept := kit.Msg{Kind: "New", Tid: tid, Accepted: true}
	complete := kit.Msg{Kind: "Complete", Tid: tid, Accepted: true}
	restartReqs := func() []bool {
		var out []bool
		if pull {
			for _, tc := range n.Tr.Since(0) {
				if tc.Call == "open" && tc.HasChan {
					out = append(out, tc.OK)
				}
			}
		} else {
			for _, nc := range n.Net.Since(0) {
				if nc.What == "send" && nc.Msg.Kind == "Restart" && nc.Msg.IsReq {
					out = append(out, nc.OK)
				}
			}
		}
		return out
	}
	setScript := func(sc []bool) {
		if pull {
			n.Tr.Fail["open"] = append([]bool{}, sc...)
		} else {
			n.Net.SendFail = append([]bool{}, sc...)
		}
	}
	fireErr := func() {
		if pull {
			_ = n.Tr.Events.OnReceiveDataError(chid, errors.New("link down"))
		} else {
			_ = n.Tr.Events.OnSendDataError(chid, errors.New("link down"))
		}
	}
	blk := int64(0)
	fireData := func() {
		blk++
		if pull {
			_ = n.Tr.Events.OnDataReceived(chid, cidlink.Link{Cid: kit.Cid("blk")}, 10, blk, true)
		} else {
			_ = n.Tr.Events.OnDataSent(chid, cidlink.Link{Cid: kit.Cid("blk")}, 10, blk, true)
		}
	}
	switch s.Kind {
	case "restart":
		if err := deliverResp(accept); err != nil {
			o.Err = "accept: " + err.Error()
			return o
		}
		n.Tr.Events.OnTransferInitiated(chid)
		settle(time.Second)
		setScript(s.Script)
		for _, st := range s.Stims {
			before := len(restartReqs())
			if st == "err" {
				fireErr()
			} else {
				fireData()
			}
			settle(time.Minute)
			if st == "err" {
				o.PerErr = append(o.PerErr, len(restartReqs())-before)
			}
		}
	case "accept":
		if s.At > 0 && s.At != 99 {
			time.Sleep(time.Duration(s.At) * time.Second)
			synctest.Wait()
			if err := deliverResp(accept); err != nil {
				o.Err = "accept: " + err.Error()
				return o
			}
		}
		settle(time.Minute)
	case "complete":
		if err := deliverResp(accept); err != nil {
			o.Err = "accept: " + err.Error()
			return o
		}
		settle(time.Second)
		_ = n.Tr.Events.OnChannelCompleted(chid, nil) // FinishTransfer
		if s.At > 0 {
			time.Sleep(time.Duration(s.At) * time.Second)
			synctest.Wait()
			if err := deliverResp(complete); err != nil {
				o.Err = "complete: " + err.Error()
				return o
			}
		}
		settle(time.Minute)
	}
	o.Restarts = append(o.Restarts, restartReqs()...)
	st, err := n.M.ChannelState(ctx, chid)
	if err != nil {
		o.Err = "state: " + err.Error()
		return o
	}
	o.Final = kit.StatusName(st.Status())
	for _, a := range n.AnnsSince(0) {
		if a.Chid == chid.String() && a.Ev == "Error" {
			o.ErrorEvents++
		}
	}
	for _, nc := range n.Net.Since(0) {
		if nc.What == "send" && nc.Msg.Kind == "Cancel" {
			o.CancelMsgs++
		}
	}
	for _, tc := range n.Tr.Since(0) {
		if tc.Call == "close" {
			o.TransportCloses++
		}
	}
	o.Closed = o.ErrorEvents > 0
	// probe: is the channel still monitored? progress first (so that the bound is not what stops it), then a fresh error
	setScript(nil)
	fireData()
	settle(time.Minute)
	before := len(restartReqs())
	fireErr()
	settle(time.Minute)
	o.Monitored = len(restartReqs()) > before
	return o
}

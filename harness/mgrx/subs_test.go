package mgrx

import (
	"hash/fnv"
	"bufio"
	"context"
	"encoding/json"
	"os"
	"strings"
	"sync"
	"testing"
	"time"

	datatransfer "github.com/filecoin-project/go-data-transfer/v2"
	"verifharness/kit"
)

type subDef struct {
	Name  string `json:"name"`
	From  int    `json:"from"`  // subscribe just before step From (1-based); 0 = before everything
	Until int    `json:"until"` // unsubscribe just after step Until; 0 = never
}
type subCase struct {
	Case  string    `json:"case"`
	Self  string    `json:"self"`
	Types []string  `json:"types"`
	Chans []chanDef `json:"chans"`
	Subs  []subDef  `json:"subs"`
	Steps []Stim    `json:"steps"` // kind "OpenPushSub"/"OpenPullSub" opens a channel with a per-transfer subscriber; C names the new channel
}
type entry struct {
	Chid string   `json:"chid"`
	Ev   string   `json:"ev"`
	View kit.View `json:"view"`
}
type subLog struct {
	Name    string  `json:"name"`
	Kind    string  `json:"kind"` // global | transfer
	Chid    string  `json:"chid"` // for transfer subscribers
	A       int     `json:"a"`    // length of the reference log when the subscription became active
	B       int     `json:"b"`    // length of the reference log when unsubscribe returned (-1 = never)
	Entries []entry `json:"entries"`
}
type chanPuts struct {
	Chid string    `json:"chid"`
	Puts []kit.Rec `json:"puts"`
}
type subObs struct {
	Case string     `json:"case"`
	Ref  []entry    `json:"ref"`
	Subs []subLog   `json:"subs"`
	Puts []chanPuts `json:"puts"`
	Err  string     `json:"err"`
}

type recSub struct {
	mu  sync.Mutex
	log []entry
}

func (r *recSub) cb(evt datatransfer.Event, st datatransfer.ChannelState) {
	e := entry{Chid: st.ChannelID().String(), Ev: kit.EventName(evt.Code), View: kit.Project(st)}
	r.mu.Lock()
	r.log = append(r.log, e)
	r.mu.Unlock()
}
func (r *recSub) snapshot() []entry {
	r.mu.Lock()
	defer r.mu.Unlock()
	out := make([]entry, len(r.log))
	copy(out, r.log)
	return out
}

func TestSubs(t *testing.T) {
	in, out := os.Getenv("VERIF_CASES"), os.Getenv("VERIF_OUT")
	if in == "" || out == "" {
		t.Skip("VERIF_CASES / VERIF_OUT not set")
	}
	f, err := os.Open(in)
	if err != nil {
		t.Fatal(err)
	}
	var cases []subCase
	sc := bufio.NewScanner(f)
	sc.Buffer(make([]byte, 1<<20), 1<<26)
	for sc.Scan() {
		if len(sc.Bytes()) == 0 {
			continue
		}
		var c subCase
		if err := json.Unmarshal(sc.Bytes(), &c); err != nil {
			t.Fatal(err)
		}
		cases = append(cases, c)
	}
	f.Close()
	of, err := os.Create(out)
	if err != nil {
		t.Fatal(err)
	}
	defer of.Close()
	bw := bufio.NewWriterSize(of, 1<<20)
	defer bw.Flush()
	enc := json.NewEncoder(bw)
	for _, c := range cases {
		o, err := runSubCase(c)
		if err != nil {
			t.Fatalf("case %s: %v", c.Case, err)
		}
		if err := enc.Encode(o); err != nil {
			t.Fatal(err)
		}
	}
}

func runSubCase(c subCase) (subObs, error) {
	o := subObs{Case: c.Case, Ref: []entry{}, Subs: []subLog{}, Puts: []chanPuts{}}
	ds := kit.NewRecDS()
	w := &world{c: caseDef{Case: c.Case, Self: c.Self, Types: c.Types}, ids: map[string]datatransfer.ChannelID{}, names: map[string]string{}}
	if len(c.Chans) > 0 {
		cn, err := kit.NewChanNode(c.Self, ds)
		if err != nil {
			return o, err
		}
		for _, cd := range c.Chans {
			chid, err := cn.Seed(cd.Ident, cd.Rec)
			if err != nil {
				return o, err
			}
			w.ids[cd.Name] = chid
		}
		cn.Stop()
	}
	n, err := kit.NewMgrNode(c.Self, ds, c.Types)
	if err != nil {
		return o, err
	}
	w.n = n
	defer n.Stop()
	// in half of the cases the voucher type also has a transport configurer that returns an option: per-transfer subscribers are then
	// registered on a path that also stores configurer options - still exactly once
	if h := fnv.New32a(); true {
		h.Write([]byte(c.Case))
		if h.Sum32()%2 == 0 {
			_ = n.M.RegisterTransportConfigurer(datatransfer.TypeIdentifier("vt"), func(datatransfer.ChannelID, datatransfer.TypedVoucher) []datatransfer.TransportOption {
				return []datatransfer.TransportOption{func(datatransfer.ChannelID, datatransfer.Transport) error { return nil }}
			})
		}
	}
	ref := &recSub{}
	n.M.SubscribeToEvents(ref.cb) // reference subscriber, active for the whole run
	w0 := ds.NWrites()
	type live struct {
		def   subDef
		rs    *recSub
		unsub datatransfer.Unsubscribe
		a, b  int
	}
	lives := map[string]*live{}
	var transfer []*subLog
	trs := map[string]*recSub{}
	quiesceAll := func() {
		for k := range w.chanKeys() {
			if chid, ok := parseKey(k); ok {
				n.Quiesce(chid)
			}
		}
		// wait for the notification goroutine: as many reference entries as applied-event writes
		deadline := time.Now().Add(3 * time.Second)
		for time.Now().Before(deadline) {
			puts, created := 0, map[string]bool{}
			for _, wr := range ds.WritesSince(w0) {
				if strings.HasPrefix(wr.Key, "/3/") && wr.Value != nil {
					if !created[wr.Key] && !w.seeded(wr.Key) {
						created[wr.Key] = true
						continue
					}
					puts++
				}
			}
			if len(ref.snapshot()) >= puts {
				// the reference subscriber has been told; the other subscribers are called after it within the SAME Publish, which holds
				// the subscriber table's read lock until all callbacks returned: (un)subscribing takes the write lock, i.e. waits for it
				fence := n.M.SubscribeToEvents(func(datatransfer.Event, datatransfer.ChannelState) {})
				fence()
				return
			}
			time.Sleep(200 * time.Microsecond)
		}
	}
	w.seededKeys = map[string]bool{}
	for _, chid := range w.ids {
		w.seededKeys[kit.DSKey(chid)] = true
	}
	subscribe := func(d subDef) {
		l := &live{def: d, rs: &recSub{}, b: -1}
		l.a = len(ref.snapshot())
		l.unsub = n.M.SubscribeToEvents(l.rs.cb)
		lives[d.Name] = l
	}
	for _, d := range c.Subs {
		if d.From == 0 {
			subscribe(d)
		}
	}
	for i, s := range c.Steps {
		step := i + 1
		for _, d := range c.Subs {
			if d.From == step {
				subscribe(d)
			}
		}
		s = normStim(s)
		n.SetVal(s.Val)
		n.Net.SendFail = append([]bool{}, s.SendFail...)
		if s.Kind == "OpenPushSub" || s.Kind == "OpenPullSub" {
			rs := &recSub{}
			ctx, cancel := context.WithTimeout(context.Background(), 5*time.Second)
			var chid datatransfer.ChannelID
			var err error
			// per-transfer subscriber, in half of the cases together with (no-op) per-transfer transport options, in either order
			noop := datatransfer.WithTransportOptions(func(datatransfer.ChannelID, datatransfer.Transport) error { return nil })
			opts := []datatransfer.TransferOption{datatransfer.WithSubscriber(rs.cb)}
			if i%2 == 0 {
				opts = append(opts, noop)
			} else if i%3 == 0 {
				opts = append([]datatransfer.TransferOption{noop}, opts...)
			}
			if s.Kind == "OpenPushSub" {
				chid, err = n.M.OpenPushDataChannel(ctx, kit.Peer("B"), kit.Voucher("v0"), kit.Cid("base"), kit.Selector("s"), opts...)
			} else {
				chid, err = n.M.OpenPullDataChannel(ctx, kit.Peer("B"), kit.Voucher("v0"), kit.Cid("base"), kit.Selector("s"), opts...)
			}
			cancel()
			if err != nil {
				o.Err = "open: " + err.Error()
				return o, nil
			}
			w.ids[s.C] = chid
			trs[s.C] = rs
			transfer = append(transfer, &subLog{Name: "pt-" + s.C, Kind: "transfer", Chid: chid.String(), A: 0, B: -1})
		} else {
			if s.TidOf != "" {
				if c0, ok := w.ids[s.TidOf]; ok {
					s.Msg.Tid = uint64(c0.ID)
				}
			}
			if _, known := w.ids[s.C]; !known && s.C != "" && s.Msg.IsReq && s.Msg.Kind == "New" && (s.Kind == "RecvRequest" || s.Kind == "OnRequestReceived") {
				w.ids[s.C] = w.implied(s) // later API calls and transport callbacks address the received channel by name
			}
			if _, _, pan := w.do(s); pan != "" {
				o.Err = "panic: " + pan
				return o, nil
			}
		}
		quiesceAll()
		for _, d := range c.Subs {
			if d.Until == step {
				if l := lives[d.Name]; l != nil && l.unsub != nil {
					l.unsub()
					l.b = len(ref.snapshot())
				}
			}
		}
	}
	quiesceAll()
	o.Ref = ref.snapshot()
	for _, d := range c.Subs {
		if l := lives[d.Name]; l != nil {
			o.Subs = append(o.Subs, subLog{Name: d.Name, Kind: "global", A: l.a, B: l.b, Entries: l.rs.snapshot()})
		}
	}
	for _, tl := range transfer {
		tl.Entries = trs[strings.TrimPrefix(tl.Name, "pt-")].snapshot()
		o.Subs = append(o.Subs, *tl)
	}
	perKey := map[string][]kit.Rec{}
	first := map[string]bool{}
	for _, wr := range ds.WritesSince(w0) {
		if strings.HasPrefix(wr.Key, "/3/") && wr.Value != nil {
			if !first[wr.Key] && !w.seededKeys[wr.Key] {
				first[wr.Key] = true
				continue // creation write
			}
			r, _, _, err := kit.RawFromBytes(wr.Value)
			if err == nil {
				perKey[wr.Key] = append(perKey[wr.Key], r)
			}
		}
	}
	for k, ps := range perKey {
		o.Puts = append(o.Puts, chanPuts{Chid: strings.TrimPrefix(k, "/3/"), Puts: ps})
	}
	for i := range o.Subs {
		if o.Subs[i].Entries == nil {
			o.Subs[i].Entries = []entry{}
		}
	}
	return o, nil
}

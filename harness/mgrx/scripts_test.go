// Package mgrx drives a REAL manager (impl.NewDataTransfer: API, network receiver, transport event
// handler, real channels.Channels on a recording datastore) with network / transport / validator doubles
// through cases produced by the TLA+ specifications, and records observations for the TLC judge.
package mgrx

import (
	"bufio"
	"context"
	"encoding/json"
	"errors"
	"fmt"
	"os"
	"sort"
	"strings"
	"testing"
	"time"

	datatransfer "github.com/filecoin-project/go-data-transfer/v2"
	cidlink "github.com/ipld/go-ipld-prime/linking/cid"
	"verifharness/kit"
)

type chanDef struct {
	Name  string    `json:"name"`
	Ident kit.Ident `json:"ident"`
	Rec   kit.Rec   `json:"rec"`
}

// Stim is one stimulus of the manager.
type Stim struct {
	Kind     string     `json:"kind"`
	C        string     `json:"c"`    // channel name, for API calls and transport callbacks
	From     string     `json:"from"` // authenticated sender, for Recv* and for transport-path requests/responses
	To       string     `json:"to"`
	Msg      kit.Msg    `json:"msg"`
	Val      kit.VRes   `json:"val"`
	SendFail []bool     `json:"sendFail"`
	OpenFail bool       `json:"openFail"`
	Args     kit.OpArgs `json:"args"`
	Rereg    bool       `json:"rereg"` // for "reopen": re-register the validators afterwards
	TidOf    string     `json:"tidOf"` // the message's transfer id is that of the named (locally opened) channel: a counterparty re-using our transfer id
}

type caseDef struct {
	Case  string    `json:"case"`
	Self  string    `json:"self"`
	Types []string  `json:"types"`
	Chans []chanDef `json:"chans"`
	Steps []Stim    `json:"steps"`
}

type ChanObs struct {
	Chid   string    `json:"chid"`
	Name   string    `json:"name"`
	Ident  kit.Ident `json:"ident"`
	HasPre bool      `json:"hasPre"`
	HasPost bool     `json:"hasPost"`
	Pre    kit.Rec   `json:"pre"`
	Post   kit.Rec   `json:"post"`
	PostV  kit.View  `json:"postView"`
	Puts   []kit.Rec `json:"puts"`
	Ann    []string  `json:"ann"`
	Same   bool      `json:"same"` // persisted bytes identical before and after
}

type StepObs struct {
	I      int           `json:"i"`
	Stim   Stim          `json:"stim"`
	Target string        `json:"target"` // chid string the stimulus addresses ("" if none)
	Ret    string        `json:"ret"`
	Panic  string        `json:"panic"`
	Reply  kit.Msg       `json:"reply"`
	T      ChanObs       `json:"t"`      // the addressed channel
	Others []ChanObs     `json:"others"` // every other channel present before or after
	Net    []kit.NetCall `json:"net"`
	Tr     []kit.TCall   `json:"tr"`
	Val    []kit.VCall   `json:"val"`
	Err    string        `json:"err"`
}

type caseObs struct {
	Case  string    `json:"case"`
	Self  string    `json:"self"`
	Types []string  `json:"types"`
	Steps []StepObs `json:"steps"`
}

func emptyChanObs() ChanObs {
	return ChanObs{Pre: kit.EmptyRec(), Post: kit.EmptyRec(), PostV: kit.EmptyView(), Puts: []kit.Rec{}, Ann: []string{}}
}

func readCases(t *testing.T, path string) []caseDef {
	f, err := os.Open(path)
	if err != nil {
		t.Fatal(err)
	}
	defer f.Close()
	var out []caseDef
	sc := bufio.NewScanner(f)
	sc.Buffer(make([]byte, 1<<20), 1<<26)
	for sc.Scan() {
		if len(sc.Bytes()) == 0 {
			continue
		}
		var c caseDef
		if err := json.Unmarshal(sc.Bytes(), &c); err != nil {
			t.Fatal(err)
		}
		out = append(out, c)
	}
	return out
}

type world struct {
	n          *kit.MgrNode
	c          caseDef
	ids        map[string]datatransfer.ChannelID
	names      map[string]string
	seededKeys map[string]bool
}

func (w *world) seeded(key string) bool { return w.seededKeys[key] }

func (w *world) chanKeys() map[string][]byte {
	out := map[string][]byte{}
	for k, v := range w.n.DS.Snapshot() {
		if strings.HasPrefix(k, "/3/") {
			out[k] = v
		}
	}
	return out
}

func (w *world) seedAll() error {
	// channels are seeded directly in the datastore: create through a throw-away channel node on the same
	// store BEFORE the manager is created would need two engines; instead use the record template of the
	// engine itself: open the store with a ChanNode, seed, stop, then start the manager on it.
	return nil
}

func classify(err error) string { return kit.ErrClass(err) }

func (w *world) do(s Stim) (ret string, reply kit.Msg, pan string) {
	reply = kit.NoMsg()
	defer func() {
		if r := recover(); r != nil {
			pan = fmt.Sprint(r)
			ret = "panic"
		}
	}()
	ctx, cancel := context.WithTimeout(context.Background(), 5*time.Second)
	defer cancel()
	m := w.n.M
	chid := w.ids[s.C]
	link := cidlink.Link{Cid: kit.Cid("blk")}
	var err error
	switch s.Kind {
	case "OpenPush":
		var c datatransfer.ChannelID
		c, err = m.OpenPushDataChannel(ctx, kit.Peer(s.To), kit.Voucher(s.Msg.V), kit.Cid("base"), kit.Selector("s"))
		w.ids["new"] = c
	case "OpenPull":
		var c datatransfer.ChannelID
		c, err = m.OpenPullDataChannel(ctx, kit.Peer(s.To), kit.Voucher(s.Msg.V), kit.Cid("base"), kit.Selector("s"))
		w.ids["new"] = c
	case "SendVoucher":
		err = m.SendVoucher(ctx, chid, kit.Voucher(s.Msg.V))
	case "SendVoucherResult":
		err = m.SendVoucherResult(ctx, chid, kit.Voucher(s.Msg.V))
	case "UpdateValidation":
		err = m.UpdateValidationStatus(ctx, chid, s.Val.Result())
	case "Close":
		cancels := func() int {
			k := 0
			for _, c := range w.n.Net.Since(0) {
				if c.What == "send" && c.Msg.Kind == "Cancel" && c.Msg.Tid == uint64(chid.ID) {
					k++
				}
			}
			return k
		}
		k0 := cancels()
		cctx, ccancel := context.WithCancel(ctx)
		err = m.CloseDataTransferChannel(cctx, chid)
		ccancel() // the usual `defer cancel()` of a caller: the cancel message must still reach the counterparty
		// the cancel message is sent from a goroutine: wait for THIS call's message (an earlier close of the same channel has sent one already),
		// otherwise it lands in the observation window of the next step
		deadline := time.Now().Add(2 * time.Second)
		for time.Now().Before(deadline) {
			if cancels() > k0 || err != nil {
				break
			}
			time.Sleep(100 * time.Microsecond)
		}
	case "CloseErr":
		err = m.(interface {
			CloseDataTransferChannelWithError(context.Context, datatransfer.ChannelID, error) error
		}).CloseDataTransferChannelWithError(ctx, chid, errors.New(s.Args.Err))
	case "Pause":
		err = m.PauseDataTransferChannel(ctx, chid)
	case "Resume":
		err = m.ResumeDataTransferChannel(ctx, chid)
	case "Restart":
		err = m.RestartDataTransferChannel(ctx, chid)
	case "RecvRequest":
		msg, e := kit.BuildMsg(s.Msg)
		if e != nil {
			return "harness:" + e.Error(), reply, ""
		}
		w.n.Net.Recv.ReceiveRequest(ctx, kit.Peer(s.From), msg.(datatransfer.Request))
	case "RecvResponse":
		msg, e := kit.BuildMsg(s.Msg)
		if e != nil {
			return "harness:" + e.Error(), reply, ""
		}
		w.n.Net.Recv.ReceiveResponse(ctx, kit.Peer(s.From), msg.(datatransfer.Response))
	case "RecvRestartExisting":
		msg, e := kit.BuildMsg(s.Msg)
		if e != nil {
			return "harness:" + e.Error(), reply, ""
		}
		w.n.Net.Recv.ReceiveRestartExistingChannelRequest(ctx, kit.Peer(s.From), msg.(datatransfer.Request))
	case "OnRequestReceived":
		msg, e := kit.BuildMsg(s.Msg)
		if e != nil {
			return "harness:" + e.Error(), reply, ""
		}
		var resp datatransfer.Response
		resp, err = w.n.Tr.Events.OnRequestReceived(w.implied(s), msg.(datatransfer.Request))
		if resp != nil {
			reply = kit.DescribeMsg(resp)
		}
	case "OnResponseReceived":
		msg, e := kit.BuildMsg(s.Msg)
		if e != nil {
			return "harness:" + e.Error(), reply, ""
		}
		err = w.n.Tr.Events.OnResponseReceived(w.implied(s), msg.(datatransfer.Response))
	case "OnChannelOpened":
		err = w.n.Tr.Events.OnChannelOpened(chid)
	case "OnTransferInitiated":
		w.n.Tr.Events.OnTransferInitiated(chid)
	case "OnDataQueued":
		var rm datatransfer.Message
		rm, err = w.n.Tr.Events.OnDataQueued(chid, link, s.Args.Delta, s.Args.Index, s.Args.Unique)
		if rm != nil {
			reply = kit.DescribeMsg(rm)
		}
	case "OnDataSent":
		err = w.n.Tr.Events.OnDataSent(chid, link, s.Args.Delta, s.Args.Index, s.Args.Unique)
	case "OnDataReceived":
		err = w.n.Tr.Events.OnDataReceived(chid, link, s.Args.Delta, s.Args.Index, s.Args.Unique)
	case "OnChannelCompleted":
		var ce error
		if s.Args.Err != "" {
			ce = errors.New(s.Args.Err)
		}
		err = w.n.Tr.Events.OnChannelCompleted(chid, ce)
	case "OnRequestCancelled":
		err = w.n.Tr.Events.OnRequestCancelled(chid, errors.New(s.Args.Err))
	case "OnRequestDisconnected":
		err = w.n.Tr.Events.OnRequestDisconnected(chid, errors.New(s.Args.Err))
	case "OnSendDataError":
		err = w.n.Tr.Events.OnSendDataError(chid, errors.New(s.Args.Err))
	case "OnReceiveDataError":
		err = w.n.Tr.Events.OnReceiveDataError(chid, errors.New(s.Args.Err))
	default:
		return "harness:unknown stimulus " + s.Kind, reply, ""
	}
	return classify(err), reply, ""
}

// implied: the channel id a message from s.From implies (built from the authenticated sender, as the
// receiver and the transport adapter do).
func (w *world) implied(s Stim) datatransfer.ChannelID {
	if c, ok := w.ids[s.C]; ok && s.Msg.Tid == 0 && s.C != "" {
		return c // histories address locally opened channels (time-based transfer ids) by name
	}
	if s.Msg.IsReq {
		return datatransfer.ChannelID{Initiator: kit.Peer(s.From), Responder: kit.Peer(w.c.Self), ID: datatransfer.TransferID(s.Msg.Tid)}
	}
	return datatransfer.ChannelID{Initiator: kit.Peer(w.c.Self), Responder: kit.Peer(s.From), ID: datatransfer.TransferID(s.Msg.Tid)}
}

func (w *world) target(s Stim) (string, bool) {
	switch s.Kind {
	case "OpenPush", "OpenPull":
		return "", false
	case "RecvRequest", "RecvResponse", "OnRequestReceived", "OnResponseReceived":
		return w.implied(s).String(), true
	case "RecvRestartExisting":
		return datatransfer.ChannelID{Initiator: kit.Peer(s.Msg.RI), Responder: kit.Peer(s.Msg.RR), ID: datatransfer.TransferID(s.Msg.RT)}.String(), true
	}
	if c, ok := w.ids[s.C]; ok {
		return c.String(), true
	}
	return "", false
}

func TestScripts(t *testing.T) {
	in, out := os.Getenv("VERIF_CASES"), os.Getenv("VERIF_OUT")
	if in == "" || out == "" {
		t.Skip("VERIF_CASES / VERIF_OUT not set")
	}
	cases := readCases(t, in)
	of, err := os.Create(out)
	if err != nil {
		t.Fatal(err)
	}
	defer of.Close()
	bw := bufio.NewWriterSize(of, 1<<20)
	defer bw.Flush()
	enc := json.NewEncoder(bw)
	for _, c := range cases {
		co, err := runCase(c)
		if err != nil {
			t.Fatalf("case %s: %v", c.Case, err)
		}
		if err := enc.Encode(co); err != nil {
			t.Fatal(err)
		}
	}
}

func runCase(c caseDef) (caseObs, error) {
	co := caseObs{Case: c.Case, Self: c.Self, Types: append([]string{}, c.Types...), Steps: []StepObs{}}
	ds := kit.NewRecDS()
	w := &world{c: c, ids: map[string]datatransfer.ChannelID{}, names: map[string]string{}}
	// seed the channels with a channel engine on the same store, then start the manager on it
	if len(c.Chans) > 0 {
		cn, err := kit.NewChanNode(c.Self, ds)
		if err != nil {
			return co, err
		}
		for _, cd := range c.Chans {
			chid, err := cn.Seed(cd.Ident, cd.Rec)
			if err != nil {
				return co, fmt.Errorf("seed %s: %w", cd.Name, err)
			}
			w.ids[cd.Name] = chid
			w.names[chid.String()] = cd.Name
		}
		cn.Stop()
	}
	if _, ok := w.ids["c1"]; !ok {
		// responder-side histories create c1 through an incoming New request from B with transfer id 1
		chid := datatransfer.ChannelID{Initiator: kit.Peer("B"), Responder: kit.Peer(c.Self), ID: 1}
		w.ids["c1"] = chid
		w.names[chid.String()] = "c1"
	}
	n, err := kit.NewMgrNode(c.Self, ds, c.Types)
	if err != nil {
		return co, err
	}
	w.n = n
	defer func() { w.n.Stop() }()
	for i, s := range c.Steps {
		if s.Kind == "reopen" {
			w.n.Stop()
			types := c.Types
			if !s.Rereg {
				types = nil
			}
			n2, err := kit.NewMgrNode(c.Self, kit.NewRecDSFrom(w.n.DS.Snapshot()), types)
			if err != nil {
				return co, fmt.Errorf("reopen: %w", err)
			}
			w.n = n2
			o := StepObs{I: i + 1, Stim: normStim(s), Reply: kit.NoMsg(), T: emptyChanObs(), Others: []ChanObs{}, Net: []kit.NetCall{}, Tr: []kit.TCall{}, Val: []kit.VCall{}}
			co.Steps = append(co.Steps, o)
			continue
		}
		co.Steps = append(co.Steps, w.step(i+1, s))
	}
	return co, nil
}

func normStim(s Stim) Stim {
	if s.SendFail == nil {
		s.SendFail = []bool{}
	}
	if s.Msg.Kind == "" {
		s.Msg = kit.NoMsg()
	}
	return s
}

func (w *world) step(i int, s Stim) StepObs {
	s = normStim(s)
	o := StepObs{I: i, Stim: s, Reply: kit.NoMsg(), T: emptyChanObs(), Others: []ChanObs{}, Net: []kit.NetCall{}, Tr: []kit.TCall{}, Val: []kit.VCall{}}
	n := w.n
	before := w.chanKeys()
	w0, a0, n0, t0 := n.DS.NWrites(), n.NAnns(), n.Net.N(), n.Tr.N()
	v0 := map[string]int{}
	for ty, v := range n.Val {
		v0[ty] = v.N()
	}
	n.SetVal(s.Val)
	n.Net.SendFail = append([]bool{}, s.SendFail...)
	n.Tr.Fail = map[string][]bool{}
	if s.OpenFail {
		n.Tr.Fail["open"] = []bool{true}
		if s.Kind == "Close" || s.Kind == "CloseErr" { // for a close: the transport does not know the channel (CloseChannel answers channel-not-found)
			n.Tr.Fail["close"] = []bool{true}
		}
	}
	tgt, hasT := w.target(s)
	o.Target = tgt
	o.Ret, o.Reply, o.Panic = w.do(s)
	if strings.HasPrefix(o.Ret, "harness:") {
		o.Err = o.Ret
		return o
	}
	if s.Kind == "OpenPush" || s.Kind == "OpenPull" {
		if c, ok := w.ids["new"]; ok {
			tgt, hasT = c.String(), true
			o.Target = tgt
			w.names[tgt] = "new"
		}
	}
	// quiesce every channel now in the store
	after0 := w.chanKeys()
	for k := range after0 {
		if chid, ok := parseKey(k); ok {
			n.Quiesce(chid)
		}
	}
	after := w.chanKeys()
	writes := n.DS.WritesSince(w0)
	deadline := time.Now().Add(2 * time.Second)
	countPuts := func() int {
		k := 0
		for _, wr := range writes {
			if strings.HasPrefix(wr.Key, "/3/") && wr.Value != nil {
				k++
			}
		}
		return k
	}
	created := 0
	for k := range after {
		if _, ok := before[k]; !ok {
			created++
		}
	}
	for n.NAnns()-a0 < countPuts()-created && time.Now().Before(deadline) {
		time.Sleep(200 * time.Microsecond)
	}
	anns := n.AnnsSince(a0)
	keys := map[string]bool{}
	for k := range before {
		keys[k] = true
	}
	for k := range after {
		keys[k] = true
	}
	var sorted []string
	for k := range keys {
		sorted = append(sorted, k)
	}
	sort.Strings(sorted)
	for _, k := range sorted {
		co := emptyChanObs()
		co.Chid = strings.TrimPrefix(k, "/3/")
		co.Name = w.names[co.Chid]
		if b, ok := before[k]; ok {
			co.HasPre = true
			co.Pre, co.Ident, _, _ = kit.RawFromBytes(b)
			co.Pre = normRec(co.Pre)
		}
		if b, ok := after[k]; ok {
			co.HasPost = true
			co.Post, co.Ident, _, _ = kit.RawFromBytes(b)
			co.Post = normRec(co.Post)
			if chid, ok := parseKey(k); ok {
				ctx, cancel := context.WithTimeout(context.Background(), 2*time.Second)
				st, err := n.M.ChannelState(ctx, chid)
				cancel()
				if err == nil {
					co.PostV = kit.Project(st)
				}
			}
		}
		co.Same = co.HasPre && co.HasPost && string(before[k]) == string(after[k])
		for _, wr := range writes {
			if wr.Key == k && wr.Value != nil {
				r, _, _, err := kit.RawFromBytes(wr.Value)
				if err == nil {
					co.Puts = append(co.Puts, normRec(r))
				}
			}
		}
		if !co.HasPre && len(co.Puts) > 0 {
			co.Puts = co.Puts[1:] // the creation write is not an applied event
		}
		for _, a := range anns {
			if a.Chid == co.Chid {
				co.Ann = append(co.Ann, a.Ev)
			}
		}
		if hasT && co.Chid == tgt {
			o.T = co
		} else {
			o.Others = append(o.Others, co)
		}
	}
	o.Net = n.Net.Since(n0)
	o.Tr = n.Tr.Since(t0)
	for ty, v := range n.Val {
		o.Val = append(o.Val, v.Since(v0[ty])...)
	}
	return o
}

// normMsg maps free-text channel messages to the classes the specs use.
func normMsg(m string) string {
	switch {
	case m == "" || len(m) <= 3:
		return m
	case strings.Contains(m, datatransfer.ErrRejected.Error()):
		return "rejected"
	}
	return "err"
}
func normRec(r kit.Rec) kit.Rec { r.Msg = normMsg(r.Msg); return r }

func parseKey(k string) (datatransfer.ChannelID, bool) {
	// "/3/<initiator b58>-<responder b58>-<id>"
	s := strings.TrimPrefix(k, "/3/")
	parts := strings.Split(s, "-")
	if len(parts) != 3 {
		return datatransfer.ChannelID{}, false
	}
	var id uint64
	if _, err := fmt.Sscanf(parts[2], "%d", &id); err != nil {
		return datatransfer.ChannelID{}, false
	}
	for _, nm := range []string{"A", "B", "X", "C"} {
		_ = kit.Peer(nm)
	}
	var ini, res string
	for _, nm := range []string{"A", "B", "X", "C"} {
		if kit.Peer(nm).String() == parts[0] {
			ini = nm
		}
		if kit.Peer(nm).String() == parts[1] {
			res = nm
		}
	}
	if ini == "" || res == "" {
		return datatransfer.ChannelID{}, false
	}
	return datatransfer.ChannelID{Initiator: kit.Peer(ini), Responder: kit.Peer(res), ID: datatransfer.TransferID(id)}, true
}

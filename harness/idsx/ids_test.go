// Package idsx: concurrent opens on a real manager; the issued transfer ids form a history for IdsJudge.
package idsx

import (
	"context"
	"encoding/json"
	"os"
	"sort"
	"strconv"
	"sync"
	"testing"
	"time"

	datatransfer "github.com/filecoin-project/go-data-transfer/v2"
	"verifharness/kit"
)

type call struct {
	G     int    `json:"g"`
	K     int    `json:"k"`
	Rank  int    `json:"rank"`
	Start int    `json:"start"`
	End   int    `json:"end"`
	Life  int    `json:"life"`
	Err   string `json:"err"`
	id    uint64
}
type obs struct {
	Case             string  `json:"case"`
	Calls            []call  `json:"calls"` // a sample (all calls if few) for the pairwise real-time rule
	N                int     `json:"n"`     // number of calls
	DistinctIds      int     `json:"distinctIds"`
	PerCaller        [][]int `json:"perCaller"` // ranks in call order per (goroutine, lifetime)
	MaxLife1         int     `json:"maxLife1"`  // highest rank issued by the first manager lifetime
	MinLife2         int     `json:"minLife2"`  // lowest rank issued by the second
	Errors           int     `json:"errors"`
	AboveSeed        bool    `json:"aboveSeed"`
	DistinctChannels int     `json:"distinctChannels"`
}

func atoi(s string, d int) int {
	if v, err := strconv.Atoi(s); err == nil {
		return v
	}
	return d
}

func TestIds(t *testing.T) {
	out := os.Getenv("VERIF_OUT")
	if out == "" {
		t.Skip("VERIF_OUT not set")
	}
	G, K, rounds := atoi(os.Getenv("VERIF_G"), 8), atoi(os.Getenv("VERIF_K"), 40), atoi(os.Getenv("VERIF_ROUNDS"), 3)
	of, err := os.Create(out)
	if err != nil {
		t.Fatal(err)
	}
	defer of.Close()
	enc := json.NewEncoder(of)
	for r := 0; r < rounds; r++ {
		o := obs{Case: "ids" + strconv.Itoa(r), Calls: []call{}, AboveSeed: true}
		var mu sync.Mutex
		seq := 0
		tick := func() int { mu.Lock(); seq++; s := seq; mu.Unlock(); return s }
		chans := map[string]bool{}
		ds := kit.NewRecDS()
		for life := 1; life <= 2; life++ {
			before := uint64(time.Now().UnixNano())
			n, err := kit.NewMgrNode("A", ds, []string{"vt"})
			if err != nil {
				t.Fatal(err)
			}
			var wg sync.WaitGroup
			start := make(chan struct{})
			for g := 0; g < G; g++ {
				wg.Add(1)
				go func(g int) {
					defer wg.Done()
					<-start
					for k := 0; k < K; k++ {
						c := call{G: g, K: k + (life-1)*K, Life: life}
						c.Start = tick()
						var chid datatransfer.ChannelID
						var err error
						ctx := context.Background()
						if (g+k)%2 == 0 {
							chid, err = n.M.OpenPushDataChannel(ctx, kit.Peer("B"), kit.Voucher("v0"), kit.Cid("base"), kit.Selector("s"))
						} else {
							chid, err = n.M.OpenPullDataChannel(ctx, kit.Peer("B"), kit.Voucher("v0"), kit.Cid("base"), kit.Selector("s"))
						}
						c.End = tick()
						if err != nil {
							c.Err = err.Error()
						}
						c.id = uint64(chid.ID)
						mu.Lock()
						o.Calls = append(o.Calls, c)
						chans[chid.String()] = true
						if c.id <= before {
							o.AboveSeed = false
						}
						mu.Unlock()
					}
				}(g)
			}
			close(start)
			wg.Wait()
			n.Stop()
			ds = kit.NewRecDSFrom(ds.Snapshot())
		}
		ids := make([]uint64, 0, len(o.Calls))
		for _, c := range o.Calls {
			ids = append(ids, c.id)
		}
		sort.Slice(ids, func(i, j int) bool { return ids[i] < ids[j] })
		rank := map[uint64]int{}
		for i, id := range ids {
			if _, ok := rank[id]; !ok {
				rank[id] = i + 1
			}
		}
		for i := range o.Calls {
			o.Calls[i].Rank = rank[o.Calls[i].id]
		}
		o.N, o.DistinctIds, o.DistinctChannels = len(o.Calls), len(rank), len(chans)
		o.MinLife2 = len(o.Calls) + 1
		seqs := map[[2]int][]call{}
		for _, c := range o.Calls {
			seqs[[2]int{c.G, c.Life}] = append(seqs[[2]int{c.G, c.Life}], c)
			if c.Err != "" {
				o.Errors++
			}
			if c.Life == 1 && c.Rank > o.MaxLife1 {
				o.MaxLife1 = c.Rank
			}
			if c.Life == 2 && c.Rank < o.MinLife2 {
				o.MinLife2 = c.Rank
			}
		}
		o.PerCaller = [][]int{}
		for _, cs := range seqs {
			sort.Slice(cs, func(i, j int) bool { return cs[i].K < cs[j].K })
			rs := []int{}
			for _, c := range cs {
				rs = append(rs, c.Rank)
			}
			o.PerCaller = append(o.PerCaller, rs)
		}
		if len(o.Calls) > 400 { // keep a sample for the pairwise rule: the calls around collisions first, then a stride
			byRank := map[int][]call{}
			for _, c := range o.Calls {
				byRank[c.Rank] = append(byRank[c.Rank], c)
			}
			var keep []call
			for _, cs := range byRank {
				if len(cs) > 1 {
					keep = append(keep, cs...)
				}
			}
			stride := len(o.Calls)/300 + 1
			for i := 0; i < len(o.Calls) && len(keep) < 400; i += stride {
				keep = append(keep, o.Calls[i])
			}
			o.Calls = keep
		}
		if err := enc.Encode(o); err != nil {
			t.Fatal(err)
		}
	}
}

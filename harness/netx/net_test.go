package netx

import (
	"bufio"
	"bytes"
	"context"
	"encoding/json"
	"errors"
	"fmt"
	"os"
	"reflect"
	"runtime/debug"
	"strings"
	"testing"
	"testing/synctest"
	"time"

	"github.com/libp2p/go-libp2p/core/peer"

	datatransfer "github.com/filecoin-project/go-data-transfer/v2"
	"github.com/filecoin-project/go-data-transfer/v2/message"
	dtnet "github.com/filecoin-project/go-data-transfer/v2/network"
)

// ---------------------------------------------------------------------------------------------
// message shapes of the model

func isNilMsg(m datatransfer.Message) bool {
	v := reflect.ValueOf(m)
	return v.Kind() == reflect.Ptr && v.IsNil()
}

// peers named inside a restart-existing-channel request: never the authenticated peer
var msgInitiator, msgResponder = peerOf("M1"), peerOf("M2")

func build(shape string, tid int64) (datatransfer.Message, error) {
	id := datatransfer.TransferID(tid)
	v := voucherOf("v3")
	vr := voucherOf("r4")
	switch shape {
	case "reqNew":
		return message.NewRequest(id, false, tid%2 == 0, &v, cidOf("base"), selectorOf("s"))
	case "reqRestart":
		return message.NewRequest(id, true, tid%2 == 1, &v, cidOf("base"), selectorOf("s"))
	case "reqUpdate":
		return message.UpdateRequest(id, false), nil
	case "reqPause":
		return message.UpdateRequest(id, true), nil
	case "reqCancel":
		return message.CancelRequest(id), nil
	case "reqVoucher":
		return message.VoucherRequest(id, &v)
	case "rx":
		return message.RestartExistingChannelRequest(datatransfer.ChannelID{Initiator: msgInitiator, Responder: msgResponder, ID: id}), nil
	case "respNew":
		return message.NewResponse(id, true, false, &vr)
	case "respRestart":
		return message.RestartResponse(id, true, false, &vr)
	case "respUpdate":
		return message.UpdateResponse(id, true), nil
	case "respCancel":
		return message.CancelResponse(id), nil
	case "respComplete":
		return message.CompleteResponse(id, true, false, &vr)
	case "respVoucherResult":
		return message.VoucherResultResponse(id, false, true, &vr)
	}
	return nil, fmt.Errorf("unknown shape %q", shape)
}

func encode(m datatransfer.Message) []byte {
	var b bytes.Buffer
	if err := m.ToNet(&b); err != nil {
		panic(err)
	}
	return b.Bytes()
}

// shapeOf classifies a received message through its public accessors only.
func shapeOf(m datatransfer.Message) (string, int64) {
	tid := int64(m.TransferID())
	if m.IsRequest() {
		rq, ok := m.(datatransfer.Request)
		if !ok {
			return "req?", tid
		}
		switch {
		case rq.IsRestartExistingChannelRequest():
			if chid, err := rq.RestartChannelId(); err == nil {
				tid = int64(chid.ID)
			}
			return "rx", tid
		case rq.IsNew():
			return "reqNew", tid
		case rq.IsRestart():
			return "reqRestart", tid
		case rq.IsUpdate() && rq.IsPaused():
			return "reqPause", tid
		case rq.IsUpdate():
			return "reqUpdate", tid
		case rq.IsCancel():
			return "reqCancel", tid
		case rq.IsVoucher():
			return "reqVoucher", tid
		}
		return "req?", tid
	}
	rs, ok := m.(datatransfer.Response)
	if !ok {
		return "resp?", tid
	}
	switch {
	case rs.IsNew():
		return "respNew", tid
	case rs.IsRestart():
		return "respRestart", tid
	case rs.IsUpdate():
		return "respUpdate", tid
	case rs.IsCancel():
		return "respCancel", tid
	case rs.IsComplete():
		return "respComplete", tid
	case rs.IsValidationResult():
		return "respVoucherResult", tid
	}
	return "resp?", tid
}

// termBytes: the bytes that end an inbound stream after its messages.
func termBytes(term string, nextTid int64) ([]byte, error) {
	switch term {
	case "eof":
		return nil, nil
	case "ueofHalf":
		m, err := build("reqNew", nextTid)
		if err != nil {
			return nil, err
		}
		e := encode(m)
		return e[:len(e)/2], nil
	case "ueof1":
		return []byte{0xa3}, nil
	case "garbageFF":
		return []byte{0xff}, nil
	case "garbage1c":
		return []byte{0x1c}, nil
	case "shapeInt":
		return []byte{0x01}, nil
	case "shapeList":
		return []byte{0x80}, nil
	case "shapeEmptyMap":
		return []byte{0xa0}, nil
	case "shapeBadKey":
		return []byte{0xa1, 0x63, 'f', 'o', 'o', 0x01}, nil
	case "noBodyReq", "noBodyResp":
		b := []byte{0xa3, 0x64, 'I', 's', 'R', 'q', 0xf5, 0x67, 'R', 'e', 'q', 'u', 'e', 's', 't', 0xf6, 0x68, 'R', 'e', 's', 'p', 'o', 'n', 's', 'e', 0xf6}
		if term == "noBodyResp" {
			b[6] = 0xf4
		}
		return b, nil
	case "crossReq", "crossResp":
		// crossReq announces a request but carries only a response body; crossResp the converse.
		// Built by flipping the IsRq value of a well-formed envelope {IsRq, Request, Response}
		// (byte 6: a3 64 "IsRq" f4|f5 ...).
		shape, want := "respNew", byte(0xf4)
		if term == "crossResp" {
			shape, want = "reqNew", byte(0xf5)
		}
		m, err := build(shape, nextTid)
		if err != nil {
			return nil, err
		}
		e := append([]byte{}, encode(m)...)
		if len(e) < 7 || e[0] != 0xa3 || string(e[2:6]) != "IsRq" || e[6] != want {
			return nil, fmt.Errorf("unexpected envelope layout %x", e[:7])
		}
		e[6] ^= 0x01
		return e, nil
	}
	return nil, fmt.Errorf("unknown terminator %q", term)
}

var quietTerms = map[string]bool{"eof": true, "ueofHalf": true, "ueof1": true}

// ---------------------------------------------------------------------------------------------
// cases and observations

type caseDef struct {
	Case string   `json:"case"`
	Kind string   `json:"kind"` // out | in
	Ev   []string `json:"ev"`
	// out
	Max      int      `json:"max"`
	Msg      string   `json:"msg"`
	Dl       bool     `json:"dl"`
	Outs     []string `json:"outs"`
	CancelAt string   `json:"cancelAt"`
	CancelK  int      `json:"cancelK"`
	Conv     string   `json:"conv"`
	Write    string   `json:"write"`
	Reset    string   `json:"reset"`
	Close    string   `json:"close"`
	// in
	Peer    string   `json:"peer"`
	Chunk   int      `json:"chunk"`
	NilRecv bool     `json:"nilrecv"`
	Items   []string `json:"items"`
	Term    string   `json:"term"`
}

type wrote struct {
	Bytes    int  `json:"bytes"`
	Msgs     int  `json:"msgs"`     // complete messages decodable from the bytes written
	Same     bool `json:"same"`     // the bytes written are exactly one encoding of the message sent
	Trailing int  `json:"trailing"` // bytes after the last complete message
}

type obs struct {
	Case string   `json:"case"`
	Kind string   `json:"kind"`
	Ev   []string `json:"ev"`
	Err  string   `json:"err"` // harness error (inconclusive), "" otherwise
	// out: echo of the script parameters + what the real code did
	Max       int        `json:"max"`
	Msg       string     `json:"msg"`
	Dl        bool       `json:"dl"`
	News      []newCall  `json:"news"`
	TCancel   int64      `json:"tCancel"` // virtual ms, -1 = never cancelled
	TRet      int64      `json:"tRet"`
	Ret       string     `json:"ret"`
	RetText   string     `json:"retText"`
	Ops       []streamOp `json:"ops"`
	Streams   int        `json:"streams"`
	Wrote     wrote      `json:"wrote"`
	Delivered []hcall    `json:"delivered"` // what the peer's real adapter dispatched from the bytes written
	DelivErrs int        `json:"delivErrs"`
	// in
	Peer       string   `json:"peer"`
	Chunk      int      `json:"chunk"`
	NilRecv    bool     `json:"nilrecv"`
	Items      []string `json:"items"`
	Term       string   `json:"term"`
	HandlerSet bool     `json:"handlerSet"`
	Calls      []hcall  `json:"calls"`
	Errs       []string `json:"errs"`
	Reads      int      `json:"reads"`
	Unread     int      `json:"unread"`
	// both
	Resets int      `json:"resets"`
	Closes int      `json:"closes"`
	Panics []string `json:"panics"`
}

func newObs(c caseDef) obs {
	o := obs{Case: c.Case, Kind: c.Kind, Ev: c.Ev, Max: c.Max, Msg: c.Msg, Dl: c.Dl, News: []newCall{}, TCancel: -1, TRet: -1,
		Ops: []streamOp{}, Delivered: []hcall{}, Peer: c.Peer, Chunk: c.Chunk, NilRecv: c.NilRecv, Items: c.Items, Term: c.Term,
		Calls: []hcall{}, Errs: []string{}, Panics: []string{}}
	if o.Ev == nil {
		o.Ev = []string{}
	}
	if o.Items == nil {
		o.Items = []string{}
	}
	return o
}

func classify(err error) string {
	switch {
	case err == nil:
		return "nil"
	case err == context.Canceled || err == context.DeadlineExceeded:
		return "ctx"
	case strings.HasPrefix(err.Error(), "exhausted"):
		return "exhausted"
	case errors.Is(err, errWrite):
		return "write"
	case errors.Is(err, errReset):
		return "reset"
	case errors.Is(err, errClose):
		return "close"
	case strings.Contains(err.Error(), "failed to convert message for protocol"):
		return "conv"
	}
	return "other"
}

func countOps(ops []streamOp, op string) int {
	n := 0
	for _, o := range ops {
		if o.Op == op {
			n++
		}
	}
	return n
}

func catch(panics *[]string, f func()) {
	defer func() {
		if r := recover(); r != nil {
			st := string(debug.Stack())
			if len(st) > 1500 {
				st = st[:1500]
			}
			*panics = append(*panics, fmt.Sprintf("%v\n%s", r, st))
		}
	}()
	f()
}

// deliver feeds raw stream bytes, as sent by `from`, to the inbound side of a fresh REAL adapter
// and returns what it dispatched.
func deliver(t0 time.Time, from peer.ID, to peer.ID, raw []byte, chunk int, expect map[int64][]byte, nilrecv bool, panics *[]string) (calls []hcall, errs []string, s *memStream, handlerSet bool) {
	h := &scriptHost{self: to, t0: t0}
	n := dtnet.NewFromLibp2pHost(h, dtnet.SendMessageParameters(openTO, sendTO))
	rec := &recorder{expect: expect}
	if nilrecv {
		n.SetDelegate(nil)
	} else {
		n.SetDelegate(rec)
	}
	s = &memStream{t0: t0, proto: datatransfer.ProtocolDataTransfer1_2, conn: &memConn{remote: from, local: to}, in: raw, chunk: chunk}
	hd := h.handler(datatransfer.ProtocolDataTransfer1_2)
	if hd == nil {
		return []hcall{}, []string{}, s, false
	}
	catch(panics, func() { hd(s) })
	synctest.Wait() // ReceiveError is reported from a goroutine
	calls, errs = rec.snapshot()
	return calls, errs, s, true
}

// ---------------------------------------------------------------------------------------------
// outbound replay: one SendMessage call of the real adapter under virtual time

func runOut(t *testing.T, c caseDef) obs {
	o := newObs(c)
	synctest.Test(t, func(t *testing.T) {
		t0 := time.Now()
		self, target := peerOf("A"), peerOf("B")
		msg, err := build(c.Msg, 7)
		if err != nil {
			o.Err = err.Error()
			return
		}
		enc := encode(msg)

		var streams []*memStream
		h := &scriptHost{self: self, t0: t0, outs: c.Outs, cancelAt: c.CancelAt, cancelK: c.CancelK}
		base, cancel := context.WithCancel(context.Background())
		ctx := base
		if c.Dl {
			var cancelDl context.CancelFunc
			ctx, cancelDl = context.WithDeadline(base, t0.Add(ctxDL))
			defer cancelDl()
		}
		defer cancel()
		h.cancel = func() {
			h.mu.Lock()
			if o.TCancel < 0 {
				o.TCancel = h.ms()
			}
			h.mu.Unlock()
			cancel()
		}
		hook := func(point string) {
			if c.CancelAt == point {
				h.cancel()
			}
		}
		h.mkStream = func() *memStream {
			proto := datatransfer.ProtocolDataTransfer1_2
			if c.Conv == "bad" {
				proto = "/fil/datatransfer/9.9.9"
			}
			s := &memStream{t0: t0, proto: proto, conn: &memConn{remote: target, local: self},
				writeMode: c.Write, resetMode: c.Reset, closeMode: c.Close, hook: hook}
			streams = append(streams, s)
			return s
		}
		n := dtnet.NewFromLibp2pHost(h,
			dtnet.RetryParameters(minD, maxD, float64(c.Max), factor),
			dtnet.SendMessageParameters(openTO, sendTO))

		if c.CancelAt == "init" {
			h.cancel()
		}
		done := make(chan struct{})
		go func() {
			defer close(done)
			catch(&o.Panics, func() {
				err := n.SendMessage(ctx, target, msg)
				o.TRet = h.ms()
				o.Ret = classify(err)
				if err != nil {
					o.RetText = err.Error()
				}
			})
		}()
		<-done
		synctest.Wait()
		h.stopTimers()

		h.mu.Lock()
		o.News = append([]newCall{}, h.calls...)
		h.mu.Unlock()
		o.Streams = len(streams)
		var written []byte
		wasReset, wasClosed := false, false
		for _, s := range streams {
			ops, w, r, cl, _ := s.snapshot()
			o.Ops = append(o.Ops, ops...)
			written = append(written, w...)
			wasReset = wasReset || r
			wasClosed = wasClosed || cl
		}
		o.Resets, o.Closes = countOps(o.Ops, "reset"), countOps(o.Ops, "close")
		// what is on the wire
		o.Wrote.Bytes = len(written)
		o.Wrote.Same = bytes.Equal(written, enc)
		rd := bytes.NewReader(written)
		for rd.Len() > 0 {
			before := rd.Len()
			if _, err := message.FromNet(rd); err != nil {
				o.Wrote.Trailing = before
				break
			}
			o.Wrote.Msgs++
		}
		// what the peer's adapter makes of it (only a stream closed successfully and never reset is taken as delivered)
		if wasClosed && !wasReset && len(written) > 0 {
			calls, errs, _, _ := deliver(t0, self, target, written, 0, map[int64][]byte{7: enc}, false, &o.Panics)
			o.Delivered = calls
			o.DelivErrs = len(errs)
		}
	})
	return o
}

// ---------------------------------------------------------------------------------------------
// inbound replay: one stream handed to the handler the real adapter registered

func runIn(t *testing.T, c caseDef) obs {
	o := newObs(c)
	synctest.Test(t, func(t *testing.T) {
		t0 := time.Now()
		self, from := peerOf("A"), peerOf(c.Peer)
		var raw []byte
		expect := map[int64][]byte{}
		for i, shape := range c.Items {
			m, err := build(shape, int64(i+1))
			if err != nil {
				o.Err = err.Error()
				return
			}
			e := encode(m)
			expect[int64(i+1)] = e
			raw = append(raw, e...)
		}
		if c.Term != "" && c.Term != "none" {
			tb, err := termBytes(c.Term, int64(len(c.Items)+1))
			if err != nil {
				o.Err = err.Error()
				return
			}
			raw = append(raw, tb...)
			if !quietTerms[c.Term] {
				// a well-formed message after the malformed one: must never reach a handler
				m, _ := build("reqCancel", 99)
				raw = append(raw, encode(m)...)
			}
		}
		calls, errs, s, set := deliver(t0, from, self, raw, c.Chunk, expect, c.NilRecv, &o.Panics)
		o.Calls, o.Errs, o.HandlerSet = calls, errs, set
		ops, _, _, _, reads := s.snapshot()
		o.Ops = ops
		o.Reads = reads
		o.Unread = len(raw) - s.pos
		o.Resets, o.Closes = countOps(ops, "reset"), countOps(ops, "close")
	})
	return o
}

// TestReplay: VERIF_CASES (ndjson of cases exported by TLC from spec/Net.tla) -> VERIF_OUT (ndjson of observations).
func TestReplay(t *testing.T) {
	in, out := os.Getenv("VERIF_CASES"), os.Getenv("VERIF_OUT")
	if in == "" || out == "" {
		t.Skip("VERIF_CASES / VERIF_OUT not set")
	}
	f, err := os.Open(in)
	if err != nil {
		t.Fatal(err)
	}
	defer f.Close()
	of, err := os.Create(out)
	if err != nil {
		t.Fatal(err)
	}
	defer of.Close()
	w := bufio.NewWriterSize(of, 1<<20)
	defer w.Flush()
	enc := json.NewEncoder(w)
	sc := bufio.NewScanner(f)
	sc.Buffer(make([]byte, 1<<20), 1<<26)
	for sc.Scan() {
		if len(sc.Bytes()) == 0 {
			continue
		}
		var c caseDef
		if err := json.Unmarshal(sc.Bytes(), &c); err != nil {
			t.Fatal(err)
		}
		var o obs
		switch c.Kind {
		case "out":
			o = runOut(t, c)
		case "in":
			o = runIn(t, c)
		default:
			t.Fatalf("case %s: unknown kind %q", c.Case, c.Kind)
		}
		if err := enc.Encode(o); err != nil {
			t.Fatal(err)
		}
	}
}

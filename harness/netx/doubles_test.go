// Package netx drives the REAL libp2p network adapter of go-data-transfer
// (network.NewFromLibp2pHost) over a scripted host.Host double and in-memory network.Stream
// doubles, inside testing/synctest bubbles (virtual time), through the cases produced by
// spec/Net.tla, and records one observation per case for the TLC judge spec/NetJudge.tla.
package netx

import (
	"bytes"
	"context"
	"encoding/hex"
	"errors"
	"fmt"
	"io"
	"strings"
	"sync"
	"time"

	"github.com/ipfs/go-cid"
	"github.com/ipld/go-ipld-prime/datamodel"
	"github.com/ipld/go-ipld-prime/fluent/qp"
	basicnode "github.com/ipld/go-ipld-prime/node/basic"
	"github.com/libp2p/go-libp2p/core/connmgr"
	"github.com/libp2p/go-libp2p/core/host"
	"github.com/libp2p/go-libp2p/core/network"
	"github.com/libp2p/go-libp2p/core/peer"
	"github.com/libp2p/go-libp2p/core/protocol"

	datatransfer "github.com/filecoin-project/go-data-transfer/v2"
)

// Virtual-time parameters of every case (milliseconds in the observations).
const (
	minD   = 1000 * time.Millisecond // RetryParameters minDuration
	maxD   = 8000 * time.Millisecond // RetryParameters maxDuration
	factor = 2.0                     // RetryParameters backoffFactor
	openTO = 3000 * time.Millisecond // SendMessageParameters openStreamTimeout
	sendTO = 7000 * time.Millisecond // SendMessageParameters sendMessageTimeout
	lat    = 200 * time.Millisecond  // latency of a scripted NewStream call
	ctxDL  = time.Hour               // deadline of the caller's context when the case asks for one
)

var (
	errOpen  = errors.New("scripted: cannot open stream")
	errWrite = errors.New("scripted: write failed")
	errReset = errors.New("scripted: reset failed")
	errClose = errors.New("scripted: close failed")
)

// ---------------------------------------------------------------------------------------------
// host double

type newCall struct {
	T0      int64    `json:"t0"`
	T1      int64    `json:"t1"`
	Peer    string   `json:"peer"`
	Protos  []string `json:"protos"`
	Res     string   `json:"res"` // ok | err
	CtxDone bool     `json:"ctxDone"`
	Script  string   `json:"script"` // scripted outcome, "unscripted" beyond the script
}

type scriptHost struct {
	host.Host // nil: any method the adapter calls that is not overridden panics (and is recorded)
	self      peer.ID
	t0        time.Time

	mu       sync.Mutex
	outs     []string
	cancelAt string
	cancelK  int
	cancel   func()
	calls    []newCall
	mkStream func() *memStream
	handlers map[protocol.ID]network.StreamHandler
	timers   []*time.Timer
	cm       connmgr.NullConnMgr
}

func (h *scriptHost) ms() int64 { return int64(time.Since(h.t0) / time.Millisecond) }

func (h *scriptHost) ID() peer.ID                     { return h.self }
func (h *scriptHost) ConnManager() connmgr.ConnManager { return h.cm }
func (h *scriptHost) Connect(ctx context.Context, pi peer.AddrInfo) error {
	return nil
}
func (h *scriptHost) SetStreamHandler(pid protocol.ID, handler network.StreamHandler) {
	h.mu.Lock()
	defer h.mu.Unlock()
	if h.handlers == nil {
		h.handlers = map[protocol.ID]network.StreamHandler{}
	}
	h.handlers[pid] = handler
}
func (h *scriptHost) RemoveStreamHandler(pid protocol.ID) {
	h.mu.Lock()
	defer h.mu.Unlock()
	delete(h.handlers, pid)
}
func (h *scriptHost) handler(pid protocol.ID) network.StreamHandler {
	h.mu.Lock()
	defer h.mu.Unlock()
	return h.handlers[pid]
}

func (h *scriptHost) after(d time.Duration, f func()) {
	t := time.AfterFunc(d, f)
	h.mu.Lock()
	h.timers = append(h.timers, t)
	h.mu.Unlock()
}
func (h *scriptHost) stopTimers() {
	h.mu.Lock()
	defer h.mu.Unlock()
	for _, t := range h.timers {
		t.Stop()
	}
}

// NewStream follows the script: outcome k of the case for the k-th call.
//   ok / fail : takes lat, does not look at the context while in flight
//   hang      : blocks until the call's context ends (openStreamTimeout or cancellation)
//   a call made with a context that is already done fails at once (libp2p's contract)
//   calls beyond the script fail at once
// Cancellation points "attempt" (lat/2 into call cancelK) and "wait" (minD/2 after the failed
// call cancelK returned; every backoff wait lasts >= minD) are armed here.
func (h *scriptHost) NewStream(ctx context.Context, p peer.ID, pids ...protocol.ID) (network.Stream, error) {
	h.mu.Lock()
	k := len(h.calls) + 1
	out := "unscripted"
	if k <= len(h.outs) {
		out = h.outs[k-1]
	}
	c := newCall{T0: h.ms(), Peer: peerName(p), Protos: []string{}, CtxDone: ctx.Err() != nil, Script: out}
	for _, id := range pids {
		c.Protos = append(c.Protos, string(id))
	}
	h.calls = append(h.calls, c)
	h.mu.Unlock()

	var s network.Stream
	var err error
	if ctx.Err() != nil {
		err = ctx.Err()
	} else {
		switch out {
		case "ok", "fail":
			if h.cancelAt == "attempt" && h.cancelK == k {
				h.after(lat/2, h.cancel)
			}
			time.Sleep(lat)
			if out == "ok" {
				s = h.mkStream()
			} else {
				err = errOpen
			}
		case "hang":
			if h.cancelAt == "attempt" && h.cancelK == k {
				h.after(lat/2, h.cancel)
			}
			<-ctx.Done()
			err = ctx.Err()
		default:
			err = errOpen
		}
	}
	h.mu.Lock()
	h.calls[k-1].T1 = h.ms()
	if err == nil {
		h.calls[k-1].Res = "ok"
	} else {
		h.calls[k-1].Res = "err"
	}
	h.mu.Unlock()
	if err != nil && h.cancelAt == "wait" && h.cancelK == k {
		h.after(minD/2, h.cancel)
	}
	if err != nil {
		return nil, err
	}
	return s, nil
}

// ---------------------------------------------------------------------------------------------
// stream double

type streamOp struct {
	Op string `json:"op"` // wdl rdl w reset close
	Ok bool   `json:"ok"`
	T  int64  `json:"t"` // deadline in virtual ms (-1 = cleared) / bytes accepted by a write
}

type memConn struct {
	network.Conn
	remote, local peer.ID
}

func (c *memConn) RemotePeer() peer.ID { return c.remote }
func (c *memConn) LocalPeer() peer.ID  { return c.local }
func (c *memConn) ID() string          { return "memconn" }

type memStream struct {
	network.Stream // nil
	t0             time.Time
	proto          protocol.ID
	conn           *memConn

	mu        sync.Mutex
	in        []byte
	pos       int
	chunk     int
	reads     int
	writeMode string // ok | fail0 | failMid
	resetMode string // ok | fail
	closeMode string // ok | fail
	written   bytes.Buffer
	ops       []streamOp
	wasReset  bool
	wasClosed bool
	closedOk  bool
	hook      func(point string) // called at "conv" (first Protocol()), "write", "reset", "close"
	hooked    map[string]bool
}

func (s *memStream) fire(point string) {
	if s.hook == nil {
		return
	}
	s.mu.Lock()
	if s.hooked == nil {
		s.hooked = map[string]bool{}
	}
	first := !s.hooked[point]
	s.hooked[point] = true
	s.mu.Unlock()
	if first {
		s.hook(point)
	}
}
func (s *memStream) rel(t time.Time) int64 {
	if t.IsZero() {
		return -1
	}
	return int64(t.Sub(s.t0) / time.Millisecond)
}
func (s *memStream) log(op string, ok bool, t int64) {
	s.mu.Lock()
	s.ops = append(s.ops, streamOp{Op: op, Ok: ok, T: t})
	s.mu.Unlock()
}

func (s *memStream) ID() string                        { return "memstream" }
func (s *memStream) Conn() network.Conn                { return s.conn }
func (s *memStream) SetProtocol(id protocol.ID) error  { s.proto = id; return nil }
func (s *memStream) Protocol() protocol.ID             { s.fire("conv"); return s.proto }
func (s *memStream) SetDeadline(t time.Time) error     { s.log("dl", true, s.rel(t)); return nil }
func (s *memStream) SetReadDeadline(t time.Time) error { s.log("rdl", true, s.rel(t)); return nil }
func (s *memStream) SetWriteDeadline(t time.Time) error {
	s.log("wdl", true, s.rel(t))
	return nil
}
func (s *memStream) CloseRead() error  { s.log("closeRead", true, 0); return nil }
func (s *memStream) CloseWrite() error { s.log("closeWrite", true, 0); return nil }

func (s *memStream) Write(p []byte) (int, error) {
	s.fire("write")
	s.mu.Lock()
	defer s.mu.Unlock()
	if s.wasReset || s.wasClosed {
		s.ops = append(s.ops, streamOp{Op: "w", Ok: false, T: 0})
		return 0, network.ErrReset
	}
	switch s.writeMode {
	case "fail0":
		s.ops = append(s.ops, streamOp{Op: "w", Ok: false, T: 0})
		return 0, errWrite
	case "failMid":
		const room = 5
		if s.written.Len()+len(p) > room {
			n := room - s.written.Len()
			if n < 0 {
				n = 0
			}
			s.written.Write(p[:n])
			s.ops = append(s.ops, streamOp{Op: "w", Ok: false, T: int64(n)})
			return n, errWrite
		}
	}
	s.written.Write(p)
	s.ops = append(s.ops, streamOp{Op: "w", Ok: true, T: int64(len(p))})
	return len(p), nil
}

func (s *memStream) Read(p []byte) (int, error) {
	s.mu.Lock()
	defer s.mu.Unlock()
	s.reads++
	if s.wasReset {
		return 0, network.ErrReset
	}
	if s.pos >= len(s.in) {
		return 0, io.EOF
	}
	n := len(s.in) - s.pos
	if n > len(p) {
		n = len(p)
	}
	if s.chunk > 0 && n > s.chunk {
		n = s.chunk
	}
	copy(p, s.in[s.pos:s.pos+n])
	s.pos += n
	return n, nil
}

func (s *memStream) Reset() error {
	s.fire("reset")
	s.mu.Lock()
	defer s.mu.Unlock()
	s.wasReset = true
	if s.resetMode == "fail" {
		s.ops = append(s.ops, streamOp{Op: "reset", Ok: false})
		return errReset
	}
	s.ops = append(s.ops, streamOp{Op: "reset", Ok: true})
	return nil
}
func (s *memStream) ResetWithError(code network.StreamErrorCode) error { return s.Reset() }

func (s *memStream) Close() error {
	s.fire("close")
	s.mu.Lock()
	defer s.mu.Unlock()
	s.wasClosed = true
	if s.closeMode == "fail" {
		s.ops = append(s.ops, streamOp{Op: "close", Ok: false})
		return errClose
	}
	s.closedOk = true
	s.ops = append(s.ops, streamOp{Op: "close", Ok: true})
	return nil
}

func (s *memStream) snapshot() (ops []streamOp, written []byte, reset, closed bool, reads int) {
	s.mu.Lock()
	defer s.mu.Unlock()
	ops = append([]streamOp{}, s.ops...)
	written = append([]byte{}, s.written.Bytes()...)
	return ops, written, s.wasReset, s.closedOk, s.reads
}

// ---------------------------------------------------------------------------------------------
// recording Receiver

type hcall struct {
	H     string `json:"h"` // request | response | restart
	Peer  string `json:"peer"`
	Shape string `json:"shape"`
	Tid   int64  `json:"tid"`
	Same  bool   `json:"same"` // re-encoding of the received message == the bytes that were put on the stream for this tid
}

type recorder struct {
	mu     sync.Mutex
	calls  []hcall
	errs   []string
	expect map[int64][]byte
}

func (r *recorder) add(h string, p peer.ID, m datatransfer.Message) {
	c := hcall{H: h, Peer: peerName(p), Shape: "nil", Tid: -1}
	if m != nil && !isNilMsg(m) {
		c.Shape, c.Tid = shapeOf(m)
		var b bytes.Buffer
		if err := m.ToNet(&b); err == nil {
			r.mu.Lock()
			want, ok := r.expect[c.Tid]
			r.mu.Unlock()
			c.Same = ok && bytes.Equal(want, b.Bytes())
		}
	}
	r.mu.Lock()
	r.calls = append(r.calls, c)
	r.mu.Unlock()
}
func (r *recorder) ReceiveRequest(ctx context.Context, sender peer.ID, incoming datatransfer.Request) {
	r.add("request", sender, incoming)
}
func (r *recorder) ReceiveResponse(ctx context.Context, sender peer.ID, incoming datatransfer.Response) {
	r.add("response", sender, incoming)
}
func (r *recorder) ReceiveRestartExistingChannelRequest(ctx context.Context, sender peer.ID, incoming datatransfer.Request) {
	r.add("restart", sender, incoming)
}
func (r *recorder) ReceiveError(err error) {
	r.mu.Lock()
	r.errs = append(r.errs, fmt.Sprintf("%T: %v", err, err))
	r.mu.Unlock()
}
func (r *recorder) snapshot() ([]hcall, []string) {
	r.mu.Lock()
	defer r.mu.Unlock()
	return append([]hcall{}, r.calls...), append([]string{}, r.errs...)
}

// ---------------------------------------------------------------------------------------------
// model values (local copies of the kit helpers, so that this package builds on its own)

func peerOf(name string) peer.ID { return peer.ID("peer" + name) }
func peerName(p peer.ID) string {
	s := string(p)
	if strings.HasPrefix(s, "peer") {
		return s[4:]
	}
	return "?" + hex.EncodeToString([]byte(s))
}

func cidOf(name string) cid.Cid {
	c, err := cid.V1Builder{Codec: cid.Raw, MhType: 0x00}.Sum([]byte("cid-" + name))
	if err != nil {
		panic(err)
	}
	return c
}

func selectorOf(name string) datamodel.Node { return basicnode.NewString("sel-" + name) }

// voucherOf: a map with non-canonical key order / a list, so that the codec has something to do
func voucherOf(name string) datatransfer.TypedVoucher {
	var n datamodel.Node
	if strings.HasPrefix(name, "r") {
		n, _ = qp.BuildList(basicnode.Prototype.Any, 2, func(la datamodel.ListAssembler) {
			qp.ListEntry(la, qp.String(name))
			qp.ListEntry(la, qp.Int(-7))
		})
		return datatransfer.TypedVoucher{Type: "rt", Voucher: n}
	}
	n, _ = qp.BuildMap(basicnode.Prototype.Any, 3, func(ma datamodel.MapAssembler) {
		qp.MapEntry(ma, "zz", qp.String(name))
		qp.MapEntry(ma, "b", qp.Int(1))
		qp.MapEntry(ma, "aaa", qp.Bool(true))
	})
	return datatransfer.TypedVoucher{Type: "vt", Voucher: n}
}

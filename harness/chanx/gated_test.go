package chanx

import (
	"bufio"
	"encoding/json"
	"fmt"
	"os"
	"reflect"
	"sync"
	"testing"
	"time"

	datatransfer "github.com/filecoin-project/go-data-transfer/v2"
	"github.com/filecoin-project/go-data-transfer/v2/channels"
	"verifharness/kit"
)

// Gated replay of ChanGate.tla schedules: operations issued WHILE the asynchronous cleanup handler of the real
// channel engine is held at one of its three gates (g1 before CleanupChannel, g2 before Unprotect, g3 before the
// handler queues CleanupComplete).  Each step of a schedule is executed at the point the model names; the
// persisted record before every step, the environment calls, the announcements and the final state are recorded
// for the TLC judge (GateJudge), and the hook lines of the same run are validated against Chan.tla (ChanTrace).

type gStep struct {
	K    string     `json:"k"` // "op" | "rel"
	Op   string     `json:"op"`
	Args kit.OpArgs `json:"args"`
	At   string     `json:"at"` // "quiet" | "g1" | "g2" | "g3": where the handler stands when the step is taken
	Gate string     `json:"gate"`
}
type gCase struct {
	Case  string    `json:"case"`
	Role  string    `json:"role"`
	Ident kit.Ident `json:"ident"`
	Steps []gStep   `json:"steps"`
}
type gAnn struct {
	Ev     string `json:"ev"`
	Status string `json:"status"`
}
type gObs struct {
	Case       string    `json:"case"`
	Chid       string    `json:"chid"`
	Got        []kit.Rec `json:"got"`  // persisted record immediately before each step
	Rets       []string  `json:"rets"` // return class of each op step ("" for releases)
	Final      kit.Rec   `json:"final"`
	FinalView  kit.View  `json:"finalView"`
	Cleanups   int       `json:"cleanups"`
	Unprotects int       `json:"unprotects"`
	Anns       []gAnn    `json:"anns"`
	Parked     string    `json:"parked"` // gate at which a handler is still parked at the end ("" = none)
	Err        string    `json:"err"`   // the schedule could not be followed (first deviation); the rest of the run was left ungated
	Fatal      bool      `json:"fatal"` // the harness itself failed: nothing to judge
}

// gateCtl parks handler goroutines: every arrival is announced on arrived and blocks until released.
type gateCtl struct {
	mu      sync.Mutex
	cur     string // gate at which a goroutine is parked now ("" = none)
	release chan struct{}
	arrived chan string
	open    bool // after a failure: let everything through
}

func newGateCtl() *gateCtl { return &gateCtl{arrived: make(chan string, 64)} }

func (g *gateCtl) arrive(gate string) {
	g.mu.Lock()
	if g.open {
		g.mu.Unlock()
		return
	}
	ch := make(chan struct{})
	g.cur, g.release = gate, ch
	g.mu.Unlock()
	g.arrived <- gate
	<-ch
}

// waitAt waits until a goroutine is parked at gate.
func (g *gateCtl) waitAt(gate string, d time.Duration) error {
	deadline := time.After(d)
	for {
		g.mu.Lock()
		cur := g.cur
		g.mu.Unlock()
		if cur == gate {
			return nil
		}
		if cur != "" {
			return fmt.Errorf("handler parked at %s, schedule expects %s", cur, gate)
		}
		select {
		case <-g.arrived:
		case <-deadline:
			return fmt.Errorf("no handler arrived at %s", gate)
		}
	}
}

func (g *gateCtl) releaseCur() {
	g.mu.Lock()
	if g.release != nil {
		close(g.release)
		g.release, g.cur = nil, ""
	}
	g.mu.Unlock()
}
func (g *gateCtl) openAll() {
	g.mu.Lock()
	g.open = true
	if g.release != nil {
		close(g.release)
		g.release, g.cur = nil, ""
	}
	g.mu.Unlock()
}
func (g *gateCtl) parkedAt() string {
	g.mu.Lock()
	defer g.mu.Unlock()
	return g.cur
}

var (
	gateMu  sync.Mutex
	gateFor = map[string]*gateCtl{} // channel id -> controller of the running case
)

func gateLookup(chid string) *gateCtl {
	gateMu.Lock()
	defer gateMu.Unlock()
	return gateFor[chid]
}

func TestGated(t *testing.T) {
	in, out := os.Getenv("VERIF_CASES"), os.Getenv("VERIF_OUT")
	if in == "" || out == "" {
		t.Skip("VERIF_CASES / VERIF_OUT not set")
	}
	f, err := os.Open(in)
	if err != nil {
		t.Fatal(err)
	}
	defer f.Close()
	var cases []gCase
	sc := bufio.NewScanner(f)
	sc.Buffer(make([]byte, 1<<20), 1<<26)
	for sc.Scan() {
		if len(sc.Bytes()) == 0 {
			continue
		}
		var c gCase
		if err := json.Unmarshal(sc.Bytes(), &c); err != nil {
			t.Fatal(err)
		}
		cases = append(cases, c)
	}
	of, err := os.Create(out)
	if err != nil {
		t.Fatal(err)
	}
	defer of.Close()
	w := bufio.NewWriterSize(of, 1<<20)
	defer w.Flush()
	enc := json.NewEncoder(w)

	// g3: the tag-guarded gate inside channels.cleanupConnection (before the handler queues CleanupComplete)
	channels.VerifGate = func(point string, self string, chid datatransfer.ChannelID) {
		if point != "cleanup.trigger" {
			return
		}
		if g := gateLookup(chid.String()); g != nil {
			g.arrive("g3")
		}
	}
	defer func() { channels.VerifGate = nil }()

	for i, c := range cases {
		o := runGated(c, i)
		if err := enc.Encode(o); err != nil {
			t.Fatal(err)
		}
	}
}

func runGated(c gCase, idx int) gObs {
	o := gObs{Case: c.Case, Got: []kit.Rec{}, Rets: []string{}, Anns: []gAnn{}, Final: kit.EmptyRec(), FinalView: kit.EmptyView()}
	n, err := kit.NewChanNode(c.Ident.Self, kit.NewRecDS())
	if err != nil {
		o.Err, o.Fatal = "node: "+err.Error(), true
		return o
	}
	defer n.Stop()
	id := c.Ident
	id.Tid = uint64(700000 + idx)
	g := newGateCtl()
	chidStr := kit.Chid(id).String()
	gateMu.Lock()
	gateFor[chidStr] = g
	gateMu.Unlock()
	defer func() {
		g.openAll()
		gateMu.Lock()
		delete(gateFor, chidStr)
		gateMu.Unlock()
	}()
	// g1 / g2: the blocking environment double (called by the handler before CleanupChannel / Unprotect are recorded)
	n.Env.Gate = func(call string, tag string) {
		switch call {
		case "cleanup":
			g.arrive("g1")
		case "unprotect":
			g.arrive("g2")
		}
	}
	chid, err := n.Create(id, "v0")
	if err != nil {
		o.Err, o.Fatal = "create: "+err.Error(), true
		return o
	}
	o.Chid = chid.String()
	fail := func(i int, format string, a ...interface{}) {
		o.Err = fmt.Sprintf("step %d: ", i+1) + fmt.Sprintf(format, a...)
		g.openAll()
	}
	for i, s := range c.Steps {
		if o.Err != "" {
			break
		}
		// reach the point the model names
		if s.At == "quiet" {
			if p := g.parkedAt(); p != "" {
				fail(i, "handler parked at %s, schedule expects no running handler", p)
				continue
			}
			if _, err := n.Quiesce(chid); err != nil {
				fail(i, "quiesce: %v", err)
				continue
			}
			if p := g.parkedAt(); p != "" {
				fail(i, "handler parked at %s, schedule expects no running handler", p)
				continue
			}
		} else if err := g.waitAt(s.At, 3*time.Second); err != nil {
			fail(i, "%v", err)
			continue
		}
		r, _, err := n.Raw(chid)
		if err != nil {
			fail(i, "raw: %v", err)
			continue
		}
		o.Got = append(o.Got, r)
		switch s.K {
		case "op":
			done := make(chan error, 1)
			go func() { done <- n.Do(chid, s.Op, s.Args) }()
			select {
			case e := <-done:
				o.Rets = append(o.Rets, kit.ErrClass(e))
			case <-time.After(3 * time.Second):
				fail(i, "operation %s did not return while the handler is parked at %s", s.Op, s.At)
			}
		case "rel":
			o.Rets = append(o.Rets, "")
			g.releaseCur()
		}
	}
	// the schedule ends settled: nothing parked, machine idle or shut down
	deadline := time.Now().Add(3 * time.Second)
	for time.Now().Before(deadline) {
		if _, err := n.Quiesce(chid); err != nil {
			break
		}
		if g.parkedAt() == "" {
			break
		}
	}
	o.Parked = g.parkedAt()
	if o.Parked != "" {
		g.openAll()
	}
	st, err := n.Quiesce(chid)
	if err != nil {
		o.Err, o.Fatal = "final quiesce: "+err.Error(), true
		return o
	}
	fr, _, err := n.Raw(chid)
	if err != nil {
		o.Err, o.Fatal = "final raw: "+err.Error(), true
		return o
	}
	o.Final = fr
	// the notifier goroutine delivers asynchronously and in order: the last applied event is announced with the final
	// record, so wait until the latest announcement for this channel carries it (no applied event at all: a short wait)
	t0 := time.Now()
	for time.Since(t0) < 2*time.Second {
		as := n.AnnsSince(0)
		k := len(as) - 1
		for k >= 0 && as[k].Chid != o.Chid {
			k--
		}
		if k >= 0 && reflect.DeepEqual(as[k].View.Rec, fr) {
			break
		}
		if k < 0 && time.Since(t0) > 20*time.Millisecond {
			break
		}
		time.Sleep(200 * time.Microsecond)
	}
	o.FinalView = kit.Project(st)
	o.Cleanups = n.Env.Count("cleanup", o.Chid)
	for _, ec := range n.Env.CallsSince(0) {
		if ec.Call == "unprotect" {
			o.Unprotects++
		}
	}
	for _, a := range n.AnnsSince(0) {
		if a.Chid == o.Chid {
			o.Anns = append(o.Anns, gAnn{a.Ev, a.View.Status})
		}
	}
	return o
}

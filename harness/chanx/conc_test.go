package chanx

import (
	"bufio"
	"encoding/json"
	"os"
	"sync"
	"testing"
	"time"

	"verifharness/kit"
)

type report struct {
	Op     string `json:"op"`
	Index  int64  `json:"index"`
	Delta  uint64 `json:"delta"`
	Unique bool   `json:"unique"`
}
type concCase struct {
	Case      string     `json:"case"`
	Ident     kit.Ident  `json:"ident"`
	Rec       kit.Rec    `json:"rec"`
	Reporters [][]report `json:"reporters"`
}
type callObs struct {
	G      int    `json:"g"`
	K      int    `json:"k"`
	Op     string `json:"op"`
	Index  int64  `json:"index"`
	Delta  uint64 `json:"delta"`
	Unique bool   `json:"unique"`
	Start  int    `json:"start"`
	End    int    `json:"end"`
	Ret    string `json:"ret"`
}
type annLite struct {
	Ev       string `json:"ev"`
	Queued   uint64 `json:"queued"`
	Sent     uint64 `json:"sent"`
	Received uint64 `json:"received"`
	QIdx     int64  `json:"qIdx"`
	SIdx     int64  `json:"sIdx"`
	RIdx     int64  `json:"rIdx"`
	Rp       bool   `json:"rp"`
}
type concObs struct {
	Case  string    `json:"case"`
	Pre   kit.Rec   `json:"pre"`
	Post  kit.Rec   `json:"post"`
	Calls []callObs `json:"calls"`
	Anns  []annLite `json:"anns"`
	Err   string    `json:"err"`
}

// TestConcurrent: free-running concurrent block reports on one channel of the real engine. Lock-free code
// => call start/end sequence numbers are logged and the judge reasons about what any linearisation allows.
func TestConcurrent(t *testing.T) {
	in, out := os.Getenv("VERIF_CASES"), os.Getenv("VERIF_OUT")
	if in == "" || out == "" {
		t.Skip("VERIF_CASES / VERIF_OUT not set")
	}
	f, err := os.Open(in)
	if err != nil {
		t.Fatal(err)
	}
	var cases []concCase
	sc := bufio.NewScanner(f)
	sc.Buffer(make([]byte, 1<<20), 1<<26)
	for sc.Scan() {
		if len(sc.Bytes()) == 0 {
			continue
		}
		var c concCase
		if err := json.Unmarshal(sc.Bytes(), &c); err != nil {
			t.Fatal(err)
		}
		cases = append(cases, c)
	}
	f.Close()
	of, err := os.Create(out)
	if err != nil {
		t.Fatal(err)
	}
	defer of.Close()
	w := bufio.NewWriter(of)
	defer w.Flush()
	enc := json.NewEncoder(w)
	n, err := kit.NewChanNode("A", kit.NewRecDS())
	if err != nil {
		t.Fatal(err)
	}
	defer n.Stop()
	for _, c := range cases {
		o := concObs{Case: c.Case, Calls: []callObs{}, Anns: []annLite{}, Pre: c.Rec, Post: kit.EmptyRec()}
		chid, err := n.Seed(c.Ident, c.Rec)
		if err != nil {
			t.Fatal(err)
		}
		a0 := n.NAnns()
		w0 := n.DS.NWrites()
		var mu sync.Mutex
		seq := 0
		tick := func() int { mu.Lock(); seq++; s := seq; mu.Unlock(); return s }
		var wg sync.WaitGroup
		start := make(chan struct{})
		for g, reps := range c.Reporters {
			wg.Add(1)
			go func(g int, reps []report) {
				defer wg.Done()
				<-start
				for k, r := range reps {
					co := callObs{G: g, K: k, Op: r.Op, Index: r.Index, Delta: r.Delta, Unique: r.Unique}
					co.Start = tick()
					err := n.Do(chid, r.Op, kit.OpArgs{Delta: r.Delta, Index: r.Index, Unique: r.Unique})
					co.End = tick()
					co.Ret = kit.ErrClass(err)
					mu.Lock()
					o.Calls = append(o.Calls, co)
					mu.Unlock()
				}
			}(g, reps)
		}
		close(start)
		wg.Wait()
		if _, err := n.Quiesce(chid); err != nil {
			o.Err = err.Error()
		}
		post, _, err := n.Raw(chid)
		if err != nil {
			o.Err = err.Error()
		} else {
			o.Post = post
		}
		puts := 0
		for _, wr := range n.DS.WritesSince(w0) {
			if wr.Key == kit.DSKey(chid) && wr.Value != nil {
				puts++
			}
		}
		deadline := time.Now().Add(3 * time.Second)
		for time.Now().Before(deadline) {
			k := 0
			for _, a := range n.AnnsSince(a0) {
				if a.Chid == chid.String() {
					k++
				}
			}
			if k >= puts {
				break
			}
			time.Sleep(200 * time.Microsecond)
		}
		for _, a := range n.AnnsSince(a0) {
			if a.Chid == chid.String() {
				o.Anns = append(o.Anns, annLite{a.Ev, a.View.Queued, a.View.Sent, a.View.Received, a.View.QIdx, a.View.SIdx, a.View.RIdx, a.View.RpView})
			}
		}
		if err := enc.Encode(o); err != nil {
			t.Fatal(err)
		}
	}
}

package chanx

import (
	"bufio"
	"context"
	"encoding/json"
	"fmt"
	"os"
	"sort"
	"strings"
	"testing"
	"time"

	datatransfer "github.com/filecoin-project/go-data-transfer/v2"
	"verifharness/kit"
)

type imgChan struct {
	Chid string   `json:"chid"`
	J    int      `json:"j"` // number of applied-event writes to this channel contained in the image
	View kit.View `json:"view"`
	Raw  kit.Rec  `json:"raw"`
	// after CompleteCleanupOnRestart on a reopened image whose status is a cleanup status
	Resumed      bool   `json:"resumed"`
	ResumeStatus string `json:"resumeStatus"`
	ResumeClean  int    `json:"resumeClean"`
	ResumeUnprot int    `json:"resumeUnprot"`
}
type image struct {
	K      int       `json:"k"`
	Listed []string  `json:"listed"`
	Chans  []imgChan `json:"chans"`
	Err    string    `json:"err"`
}
type chanHist struct {
	Chid string     `json:"chid"`
	Seed kit.Rec    `json:"seed"`
	Anns []kit.View `json:"anns"` // subscriber snapshot after each applied event, in order
	Evs  []string   `json:"evs"`
}
type crashObs struct {
	Case    string        `json:"case"`
	Steps   []kit.StepObs `json:"steps"`
	Created []string      `json:"created"`
	Hist    []chanHist    `json:"hist"`
	Images  []image       `json:"images"`
	// for every step: the write count after it (the image a query at that point must equal)
	StepW []int `json:"stepW"`
	// CreateNew returned but the datastore has no record of the channel
	CreateErr string `json:"createErr"`
}

// TestCrash: run each history on a real channel engine over a recording datastore, then reopen the
// store as of EVERY write boundary and record what a fresh engine presents.
func TestCrash(t *testing.T) {
	in, out := os.Getenv("VERIF_CASES"), os.Getenv("VERIF_OUT")
	if in == "" || out == "" {
		t.Skip("VERIF_CASES / VERIF_OUT not set")
	}
	cases := readCases(t, in)
	of, err := os.Create(out)
	if err != nil {
		t.Fatal(err)
	}
	defer of.Close()
	w := bufio.NewWriterSize(of, 1<<20)
	defer w.Flush()
	enc := json.NewEncoder(w)
	for _, c := range cases {
		ds := kit.NewRecDS()
		n, err := kit.NewChanNode(c.Chans[0].Ident.Self, ds)
		if err != nil {
			t.Fatal(err)
		}
		co := crashObs{Case: c.Case, Steps: []kit.StepObs{}, Created: []string{}, Hist: []chanHist{}, Images: []image{}, StepW: []int{}}
		ids := map[string]datatransfer.ChannelID{}
		for _, cd := range c.Chans {
			chid, err := n.Seed(cd.Ident, cd.Rec)
			if err != nil {
				// CreateNew returned, yet the datastore holds no record of the channel: not a harness problem but what C06 is about
				co.CreateErr = fmt.Sprintf("channel %s was created (CreateNew returned) but is not in the datastore: %v", cd.Name, err)
				break
			}
			ids[cd.Name] = chid
			co.Created = append(co.Created, chid.String())
			co.Hist = append(co.Hist, chanHist{Chid: chid.String(), Seed: cd.Rec, Anns: []kit.View{}, Evs: []string{}})
		}
		if co.CreateErr != "" {
			n.Stop()
			if err := enc.Encode(co); err != nil {
				t.Fatal(err)
			}
			continue
		}
		sort.Strings(co.Created)
		base := ds.Snapshot()
		w0 := ds.NWrites()
		for i, s := range c.Steps {
			if s.Op == "reopen" {
				continue // crash points are explored exhaustively below
			}
			o := n.Step(ids[s.C], s.Op, s.Args)
			o.Case, o.I = c.Case, i+1
			co.Steps = append(co.Steps, o)
			co.StepW = append(co.StepW, ds.NWrites()-w0)
		}
		for _, a := range n.AnnsSince(0) {
			for hi := range co.Hist {
				if co.Hist[hi].Chid == a.Chid {
					co.Hist[hi].Anns = append(co.Hist[hi].Anns, a.View)
					co.Hist[hi].Evs = append(co.Hist[hi].Evs, a.Ev)
				}
			}
		}
		n.Stop()
		writes := ds.WritesSince(w0)
		for k := 0; k <= len(writes); k++ {
			img := ds.ImageAt(base, w0+k)
			im := image{K: k, Listed: []string{}, Chans: []imgChan{}}
			n2, err := kit.NewChanNode(c.Chans[0].Ident.Self, kit.NewRecDSFrom(img))
			if err != nil {
				im.Err = err.Error()
				co.Images = append(co.Images, im)
				continue
			}
			inprog, err := n2.Ch.InProgress()
			if err != nil {
				im.Err = err.Error()
			}
			for chid := range inprog {
				im.Listed = append(im.Listed, chid.String())
			}
			sort.Strings(im.Listed)
			for _, cs := range co.Created {
				var chid datatransfer.ChannelID
				for _, id := range ids {
					if id.String() == cs {
						chid = id
					}
				}
				ic := imgChan{Chid: cs, View: kit.EmptyView(), Raw: kit.EmptyRec()}
				for _, wr := range writes[:k] {
					if wr.Key == kit.DSKey(chid) && wr.Value != nil {
						ic.J++
					}
				}
				gctx, gcancel := context.WithTimeout(context.Background(), 3*time.Second) // a record that cannot be read back must not hang the harness
				st, err := n2.Ch.GetByID(gctx, chid)
				gcancel()
				if err != nil {
					im.Err = "GetByID: " + err.Error()
				} else {
					ic.View = kit.Project(st)
				}
				if r, _, e := n2.Raw(chid); e == nil {
					ic.Raw = r
				}
				if strings.HasSuffix(ic.Raw.Status, "ing") && (ic.Raw.Status == "Cancelling" || ic.Raw.Status == "Failing" || ic.Raw.Status == "Completing") {
					_ = n2.Ch.CompleteCleanupOnRestart(chid)
					if st2, err := n2.Quiesce(chid); err == nil {
						ic.Resumed = true
						ic.ResumeStatus = kit.StatusName(st2.Status())
						ic.ResumeClean = n2.Env.Count("cleanup", cs)
						ic.ResumeUnprot = n2.Env.Count("unprotect", cs)
					}
				}
				im.Chans = append(im.Chans, ic)
			}
			n2.Stop()
			co.Images = append(co.Images, im)
		}
		if err := enc.Encode(co); err != nil {
			t.Fatal(err)
		}
	}
}

// Package chanx drives the real channels.Channels (channel engine + go-statemachine + datastore)
// through cases produced by the TLA+ specifications and records observations for the TLC judge.
package chanx

import (
	"bufio"
	"encoding/json"
	"os"
	"testing"

	datatransfer "github.com/filecoin-project/go-data-transfer/v2"
	"verifharness/kit"
)

type chanDef struct {
	Name  string    `json:"name"`
	Ident kit.Ident `json:"ident"`
	Rec   kit.Rec   `json:"rec"`
}
type stepDef struct {
	C    string     `json:"c"`
	Op   string     `json:"op"`
	Args kit.OpArgs `json:"args"`
}
type caseDef struct {
	Case  string    `json:"case"`
	Chans []chanDef `json:"chans"`
	Steps []stepDef `json:"steps"`
}
type caseObs struct {
	Case  string        `json:"case"`
	Steps []kit.StepObs `json:"steps"`
}

func readCases(t *testing.T, path string) []caseDef {
	f, err := os.Open(path)
	if err != nil {
		t.Fatal(err)
	}
	defer f.Close()
	var out []caseDef
	sc := bufio.NewScanner(f)
	sc.Buffer(make([]byte, 1<<20), 1<<26)
	for sc.Scan() {
		if len(sc.Bytes()) == 0 {
			continue
		}
		var c caseDef
		if err := json.Unmarshal(sc.Bytes(), &c); err != nil {
			t.Fatal(err)
		}
		out = append(out, c)
	}
	return out
}

// TestScripts: VERIF_CASES (ndjson of caseDef) -> VERIF_OUT (ndjson of caseObs).
// Cases without a "reopen" step share a node (channel ids are distinct per case); a case with
// "reopen" gets its own datastore.
func TestScripts(t *testing.T) {
	in, out := os.Getenv("VERIF_CASES"), os.Getenv("VERIF_OUT")
	if in == "" || out == "" {
		t.Skip("VERIF_CASES / VERIF_OUT not set")
	}
	cases := readCases(t, in)
	of, err := os.Create(out)
	if err != nil {
		t.Fatal(err)
	}
	defer of.Close()
	w := bufio.NewWriterSize(of, 1<<20)
	defer w.Flush()
	enc := json.NewEncoder(w)

	var shared *kit.ChanNode
	sharedN := 0
	getShared := func() *kit.ChanNode {
		if shared == nil || sharedN >= 400 {
			if shared != nil {
				shared.Stop()
			}
			n, err := kit.NewChanNode("A", kit.NewRecDS())
			if err != nil {
				t.Fatal(err)
			}
			shared, sharedN = n, 0
		}
		sharedN++
		return shared
	}
	for _, c := range cases {
		needsOwn := false
		for _, s := range c.Steps {
			if s.Op == "reopen" {
				needsOwn = true
			}
		}
		var n *kit.ChanNode
		if needsOwn {
			n, err = kit.NewChanNode(c.Chans[0].Ident.Self, kit.NewRecDS())
			if err != nil {
				t.Fatal(err)
			}
		} else {
			n = getShared()
		}
		ids := map[string]datatransfer.ChannelID{}
		co := caseObs{Case: c.Case, Steps: []kit.StepObs{}}
		for _, cd := range c.Chans {
			chid, err := n.Seed(cd.Ident, cd.Rec)
			if err != nil {
				t.Fatalf("case %s: seed: %v", c.Case, err)
			}
			ids[cd.Name] = chid
		}
		for i, s := range c.Steps {
			if s.Op == "reopen" {
				n.Stop()
				n2, err := kit.NewChanNode(n.Self, kit.NewRecDSFrom(n.DS.Snapshot()))
				if err != nil {
					t.Fatalf("case %s: reopen: %v", c.Case, err)
				}
				n = n2
				ro := kit.EmptyStepObs()
				ro.Case, ro.I, ro.Op = c.Case, i+1, "reopen"
				co.Steps = append(co.Steps, ro)
				continue
			}
			o := n.Step(ids[s.C], s.Op, s.Args)
			o.Case, o.I = c.Case, i+1
			co.Steps = append(co.Steps, o)
		}
		if needsOwn {
			n.Stop()
		}
		if err := enc.Encode(co); err != nil {
			t.Fatal(err)
		}
	}
	if shared != nil {
		shared.Stop()
	}
}

// Package wirex replays the message table of spec/Wire.tla on the real message package (constructors,
// ToNet/FromNet, ToIPLD/FromIPLD, graphsync extension ToExtensionData/GetTransferData) and records what
// the real code did, for the TLC judge spec/WireJudge.tla (property C12).
//
// Expected bytes are rendered from the specification's abstract layout with kit.WireRender (an independent
// CBOR writer); neither the library under test nor go-ipld-prime's encoder is used for that.  go-ipld-prime's
// DECODER (dagcbor.Decode into basicnode) is used only as the boundary double for graphsync, which hands
// extension data to the library as a decoded node.
package wirex

import (
	"bufio"
	"bytes"
	"encoding/hex"
	"encoding/json"
	"fmt"
	"math"
	"math/rand"
	"os"
	"reflect"
	"runtime"
	"sort"
	"strconv"
	"sync"
	"testing"

	datatransfer "github.com/filecoin-project/go-data-transfer/v2"
	"github.com/filecoin-project/go-data-transfer/v2/message"
	"github.com/filecoin-project/go-data-transfer/v2/message/types"
	"github.com/filecoin-project/go-data-transfer/v2/transport/graphsync/extension"
	"github.com/ipfs/go-cid"
	"github.com/ipfs/go-graphsync"
	"github.com/ipld/go-ipld-prime/codec/dagcbor"
	"github.com/ipld/go-ipld-prime/datamodel"
	cidlink "github.com/ipld/go-ipld-prime/linking/cid"
	"github.com/ipld/go-ipld-prime/node/basicnode"
	peer "github.com/libp2p/go-libp2p/core/peer"

	"verifharness/kit"
)

// ---- inputs (tabulated by TLC) -----------------------------------------------------------------------

type callArgs struct {
	Id       string `json:"id"`
	Restart  bool   `json:"restart"`
	Pull     bool   `json:"pull"`
	Paused   bool   `json:"paused"`
	Accepted bool   `json:"accepted"`
	Err      bool   `json:"err"`
	Mt       string `json:"mt"`
	V        string `json:"v"`
	Vt       string `json:"vt"`
	Base     string `json:"base"`
	Sel      string `json:"sel"`
	Ri       string `json:"ri"`
	Rr       string `json:"rr"`
}

type rowDef struct {
	Case   string    `json:"case"`
	Ctor   string    `json:"ctor"`
	A      callArgs  `json:"a"`
	Fails  bool      `json:"fails"`
	Layout kit.WNode `json:"layout"`
}

type envShape struct {
	IsRq  string `json:"isRq"`
	Rq    string `json:"rq"`
	Rs    string `json:"rs"`
	Extra bool   `json:"extra"`
}

type envDef struct {
	Case    string    `json:"case"`
	Shape   envShape  `json:"shape"`
	Verdict string    `json:"verdict"`
	Missing bool      `json:"missing"`
	Layout  kit.WNode `json:"layout"`
}

type dictDef struct {
	Vals   map[string]kit.WNode `json:"vals"`
	Text   map[string]string    `json:"text"`
	Peers  map[string]string    `json:"peers"`
	Cids   map[string]string    `json:"cids"`
	Kb     map[string][]int     `json:"kb"`
	TypeNo map[string]string    `json:"typeNo"`
}

// ---- observations ----------------------------------------------------------------------------------------

type chanObs struct {
	I  string `json:"i"`
	R  string `json:"r"`
	Id string `json:"id"`
}

// Obs is the observable projection of a message, read through the public interfaces only.
type Obs struct {
	IsRq  bool     `json:"isRq"`
	Preds []string `json:"preds"` // names of the Is* predicates that returned true
	Id    string   `json:"id"`
	Pull  bool     `json:"pull"`
	Part  bool     `json:"part"`
	Paus  bool     `json:"paus"`
	Acpt  bool     `json:"acpt"`
	Base  string   `json:"base"`
	Sel   string   `json:"sel"`  // "none" (accessor error) | "null" | value class | "?hex"
	V     string   `json:"v"`    // voucher / voucher result, same coding
	Vt    string   `json:"vt"`   // type identifier name | "?hex"
	RcOk  bool     `json:"rcOk"` // RestartChannelId() returned no error
	Rc    chanObs  `json:"rc"`
}

type pathObs struct {
	Err string `json:"err"`
	O   int    `json:"o"` // 1-based index into Os, 0 = no message
}

type permObs struct {
	N    int      `json:"n"`
	Errs []string `json:"errs"`
	O    []int    `json:"o"` // distinct observations seen (indices into Os)
}

type hostileObs struct {
	N       int      `json:"n"`
	Err     int      `json:"err"`
	Msg     int      `json:"msg"`
	Panic   int      `json:"panic"`
	Missing int      `json:"missing"`
	Bad     []string `json:"bad"` // first offending inputs: "<decoder>:<class>:<hex>"
}

type rowObs struct {
	Case         string     `json:"case"`
	Ctor         string     `json:"ctor"`
	A            callArgs   `json:"a"`
	CtorErr      bool       `json:"ctorErr"`
	Os           []Obs      `json:"os"`
	O0           int        `json:"o0"`
	Net          pathObs    `json:"net"`
	Ipld         pathObs    `json:"ipld"`
	Ext          pathObs    `json:"ext"`
	Hex          string     `json:"hex"`
	LayoutEq     bool       `json:"layoutEq"`     // ToNet bytes == independent rendering of Layout(m)
	IpldLayoutEq bool       `json:"ipldLayoutEq"` // ToIPLD node, walked and rendered canonically, == same bytes
	ExtLayoutEq  bool       `json:"extLayoutEq"`  // extension data node, likewise
	Perm         permObs    `json:"perm"`
	Hostile      hostileObs `json:"hostile"`
	Panics       []string   `json:"panics"`
}

type envObs struct {
	Case    string     `json:"case"`
	Shape   envShape   `json:"shape"`
	Hex     string     `json:"hex"`
	Net     string     `json:"net"`  // error | request | response | missing | panic
	Ipld    string     `json:"ipld"` // same, "undecodable" when the bytes are not DAG-CBOR at all
	Hostile hostileObs `json:"hostile"`
}

// ---- dictionary ------------------------------------------------------------------------------------------

type world struct {
	d        dictDef
	valBytes map[string]string // canonical bytes (hex) -> value class
	valNode  map[string]datamodel.Node
	textName map[string]string // hex -> name
	peerName map[string]string
	cidName  map[string]string
	cids     map[string]cid.Cid
}

func canonLess(a, b string) bool {
	if len(a) != len(b) {
		return len(a) < len(b)
	}
	return a < b
}

// canonTree sorts every map of the tree into DAG-CBOR order (harness-side, for value classes only).
func canonTree(n kit.WNode) kit.WNode {
	out := kit.WNode{T: n.T, S: n.S}
	for _, it := range n.Items {
		out.Items = append(out.Items, canonTree(it))
	}
	for _, e := range n.KV {
		out.KV = append(out.KV, kit.WKV{K: e.K, V: canonTree(e.V)})
	}
	sort.SliceStable(out.KV, func(i, j int) bool { return canonLess(out.KV[i].K, out.KV[j].K) })
	return out
}

// buildNode materialises a tree as a basicnode, map entries in the listed (insertion) order.
func (w *world) buildNode(n kit.WNode) (datamodel.Node, error) {
	switch n.T {
	case "null":
		return datamodel.Null, nil
	case "true":
		return basicnode.NewBool(true), nil
	case "false":
		return basicnode.NewBool(false), nil
	case "uint":
		u, err := kit.WireUint(n.S)
		if err != nil {
			return nil, err
		}
		if u > math.MaxInt64 {
			return basicnode.NewUint(u), nil
		}
		return basicnode.NewInt(int64(u)), nil
	case "nint":
		u, err := kit.WireUint(n.S)
		if err != nil || u == 0 || u > 1<<63 {
			return nil, fmt.Errorf("nint %q out of range", n.S)
		}
		return basicnode.NewInt(-int64(u-1) - 1), nil
	case "float":
		b, err := hex.DecodeString(n.S)
		if err != nil || len(b) != 8 {
			return nil, fmt.Errorf("bad float %q", n.S)
		}
		var u uint64
		for _, x := range b {
			u = u<<8 | uint64(x)
		}
		return basicnode.NewFloat(math.Float64frombits(u)), nil
	case "text", "bytes", "link":
		b, err := hex.DecodeString(n.S)
		if err != nil {
			return nil, err
		}
		switch n.T {
		case "text":
			return basicnode.NewString(string(b)), nil
		case "bytes":
			return basicnode.NewBytes(b), nil
		}
		c, err := cid.Cast(b)
		if err != nil {
			return nil, err
		}
		return basicnode.NewLink(cidlink.Link{Cid: c}), nil
	case "list":
		nb := basicnode.Prototype.List.NewBuilder()
		la, err := nb.BeginList(int64(len(n.Items)))
		if err != nil {
			return nil, err
		}
		for _, it := range n.Items {
			c, err := w.buildNode(it)
			if err != nil {
				return nil, err
			}
			if err := la.AssembleValue().AssignNode(c); err != nil {
				return nil, err
			}
		}
		if err := la.Finish(); err != nil {
			return nil, err
		}
		return nb.Build(), nil
	case "map":
		nb := basicnode.Prototype.Map.NewBuilder()
		ma, err := nb.BeginMap(int64(len(n.KV)))
		if err != nil {
			return nil, err
		}
		for _, e := range n.KV {
			c, err := w.buildNode(e.V)
			if err != nil {
				return nil, err
			}
			va, err := ma.AssembleEntry(e.K)
			if err != nil {
				return nil, err
			}
			if err := va.AssignNode(c); err != nil {
				return nil, err
			}
		}
		if err := ma.Finish(); err != nil {
			return nil, err
		}
		return nb.Build(), nil
	}
	return nil, fmt.Errorf("unknown node type %q", n.T)
}

// walk reads any datamodel.Node through the Node interface into a canonical tree.
func walk(n datamodel.Node) (kit.WNode, error) {
	switch n.Kind() {
	case datamodel.Kind_Null:
		return kit.WNode{T: "null"}, nil
	case datamodel.Kind_Bool:
		b, err := n.AsBool()
		if b {
			return kit.WNode{T: "true"}, err
		}
		return kit.WNode{T: "false"}, err
	case datamodel.Kind_Int:
		if un, ok := n.(datamodel.UintNode); ok {
			u, err := un.AsUint()
			return kit.WNode{T: "uint", S: strconv.FormatUint(u, 10)}, err
		}
		i, err := n.AsInt()
		if i >= 0 {
			return kit.WNode{T: "uint", S: strconv.FormatUint(uint64(i), 10)}, err
		}
		return kit.WNode{T: "nint", S: strconv.FormatUint(uint64(-(i+1))+1, 10)}, err
	case datamodel.Kind_Float:
		f, err := n.AsFloat()
		return kit.WNode{T: "float", S: fmt.Sprintf("%016x", math.Float64bits(f))}, err
	case datamodel.Kind_String:
		s, err := n.AsString()
		return kit.WNode{T: "text", S: hex.EncodeToString([]byte(s))}, err
	case datamodel.Kind_Bytes:
		b, err := n.AsBytes()
		return kit.WNode{T: "bytes", S: hex.EncodeToString(b)}, err
	case datamodel.Kind_Link:
		l, err := n.AsLink()
		if err != nil {
			return kit.WNode{}, err
		}
		cl, ok := l.(cidlink.Link)
		if !ok {
			return kit.WNode{}, fmt.Errorf("link is %T", l)
		}
		return kit.WNode{T: "link", S: hex.EncodeToString(cl.Cid.Bytes())}, nil
	case datamodel.Kind_List:
		out := kit.WNode{T: "list"}
		it := n.ListIterator()
		for !it.Done() {
			_, v, err := it.Next()
			if err != nil {
				return out, err
			}
			c, err := walk(v)
			if err != nil {
				return out, err
			}
			out.Items = append(out.Items, c)
		}
		return out, nil
	case datamodel.Kind_Map:
		out := kit.WNode{T: "map"}
		it := n.MapIterator()
		for !it.Done() {
			k, v, err := it.Next()
			if err != nil {
				return out, err
			}
			ks, err := k.AsString()
			if err != nil {
				return out, err
			}
			c, err := walk(v)
			if err != nil {
				return out, err
			}
			out.KV = append(out.KV, kit.WKV{K: ks, V: c})
		}
		sort.SliceStable(out.KV, func(i, j int) bool { return canonLess(out.KV[i].K, out.KV[j].K) })
		return out, nil
	}
	return kit.WNode{}, fmt.Errorf("unexpected kind %v", n.Kind())
}

func walkBytes(n datamodel.Node) ([]byte, error) {
	t, err := walk(n)
	if err != nil {
		return nil, err
	}
	return kit.WireRender(t)
}

func newWorld(d dictDef) (*world, error) {
	w := &world{d: d, valBytes: map[string]string{}, valNode: map[string]datamodel.Node{}, textName: map[string]string{},
		peerName: map[string]string{}, cidName: map[string]string{}, cids: map[string]cid.Cid{}}
	for k, codes := range d.Kb {
		if len(codes) != len(k) {
			return nil, fmt.Errorf("spec key table: %q has %d codes", k, len(codes))
		}
		for i, c := range codes {
			if int(k[i]) != c {
				return nil, fmt.Errorf("spec key table: %q byte %d is %d, table says %d", k, i, k[i], c)
			}
		}
	}
	for name, tree := range d.Vals {
		b, err := kit.WireRender(canonTree(tree))
		if err != nil {
			return nil, err
		}
		w.valBytes[hex.EncodeToString(b)] = name
		n, err := w.buildNode(tree)
		if err != nil {
			return nil, fmt.Errorf("value class %s: %v", name, err)
		}
		w.valNode[name] = n
	}
	for n, h := range d.Text {
		w.textName[h] = n
	}
	for n, h := range d.Peers {
		w.peerName[h] = n
	}
	for n, h := range d.Cids {
		b, err := hex.DecodeString(h)
		if err != nil {
			return nil, err
		}
		c, err := cid.Cast(b)
		if err != nil {
			return nil, fmt.Errorf("cid %s: %v", n, err)
		}
		w.cids[n] = c
		w.cidName[h] = n
	}
	return w, nil
}

func lookup(m map[string]string, raw []byte) string {
	h := hex.EncodeToString(raw)
	if n, ok := m[h]; ok {
		return n
	}
	return "?" + h
}

func idName(u uint64) string {
	if u >= 1<<31 {
		for k := uint(31); k <= 64; k++ {
			if k < 64 && u == uint64(1)<<k {
				return fmt.Sprintf("2^%d", k)
			}
			if (k < 64 && u == uint64(1)<<k-1) || (k == 64 && u == ^uint64(0)) {
				return fmt.Sprintf("2^%d-1", k)
			}
		}
	}
	return strconv.FormatUint(u, 10)
}

func (w *world) valName(n datamodel.Node, err error) string {
	if err != nil {
		return "none"
	}
	if n == nil {
		return "?gonil"
	}
	if n.IsNull() {
		return "null"
	}
	b, werr := walkBytes(n)
	if werr != nil {
		return "?walk:" + werr.Error()
	}
	return lookup(w.valBytes, b)
}

// observe reads every observable of a message through the public interfaces.
func (w *world) observe(m datatransfer.Message) Obs {
	o := Obs{Preds: []string{}, Base: "none", Sel: "none", V: "none", Vt: "tEmpty", Rc: chanObs{I: "pEmpty", R: "pEmpty", Id: "0"}}
	add := func(b bool, n string) {
		if b {
			o.Preds = append(o.Preds, n)
		}
	}
	o.IsRq = m.IsRequest()
	add(m.IsNew(), "New")
	add(m.IsRestart(), "Restart")
	add(m.IsUpdate(), "Update")
	add(m.IsCancel(), "Cancel")
	o.Paus = m.IsPaused()
	o.Id = idName(uint64(m.TransferID()))
	if rq, ok := m.(datatransfer.Request); ok {
		add(rq.IsVoucher(), "Voucher")
		add(rq.IsRestartExistingChannelRequest(), "RestartExisting")
		o.Pull = rq.IsPull()
		if p, ok := m.(interface{ IsPartial() bool }); ok {
			o.Part = p.IsPartial()
		}
		if c := rq.BaseCid(); c != cid.Undef {
			o.Base = lookup(w.cidName, c.Bytes())
		}
		o.Sel = w.valName(rq.Selector())
		o.V = w.valName(rq.Voucher())
		o.Vt = lookup(w.textName, []byte(rq.VoucherType()))
		tv, terr := rq.TypedVoucher()
		if v2 := w.valName(tv.Voucher, terr); v2 != o.V || (terr == nil && tv.Type != rq.VoucherType()) {
			o.V = "?typedVoucher-disagrees:" + v2
		}
		ch, err := rq.RestartChannelId()
		o.RcOk = err == nil
		o.Rc = chanObs{I: lookup(w.peerName, []byte(ch.Initiator)), R: lookup(w.peerName, []byte(ch.Responder)), Id: idName(uint64(ch.ID))}
	}
	if rs, ok := m.(datatransfer.Response); ok {
		add(rs.IsComplete(), "Complete")
		add(rs.IsValidationResult(), "ValidationResult")
		o.Acpt = rs.Accepted()
		o.V = w.valName(rs.VoucherResult())
		o.Vt = lookup(w.textName, []byte(rs.VoucherResultType()))
		if rs.EmptyVoucherResult() != (rs.VoucherResultType() == datatransfer.EmptyTypeIdentifier) {
			o.Vt = "?emptyVoucherResult-disagrees"
		}
	}
	sort.Strings(o.Preds)
	return o
}

// ---- calling the real constructors ----------------------------------------------------------------------

var typeByName = map[string]types.MessageType{
	"New": types.NewMessage, "Update": types.UpdateMessage, "Cancel": types.CancelMessage, "Complete": types.CompleteMessage,
	"Voucher": types.VoucherMessage, "VoucherResult": types.VoucherResultMessage, "Restart": types.RestartMessage,
	"RestartExisting": types.RestartExistingChannelRequestMessage,
}

func (w *world) valArg(class string) (datamodel.Node, error) {
	switch class {
	case "absent":
		return nil, nil
	case "null":
		return datamodel.Null, nil
	}
	n, ok := w.valNode[class]
	if !ok {
		return nil, fmt.Errorf("unknown value class %q", class)
	}
	return n, nil
}

func (w *world) textArg(m map[string]string, name string) (string, error) {
	h, ok := m[name]
	if !ok {
		return "", fmt.Errorf("unknown name %q", name)
	}
	b, err := hex.DecodeString(h)
	return string(b), err
}

// construct calls the real constructor for the row. harnessErr reports a broken case (not a verdict).
func (w *world) construct(r rowDef) (msg datatransfer.Message, ctorErr error, harnessErr error) {
	a := r.A
	idu, err := kit.WireUint(a.Id)
	if err != nil {
		return nil, nil, err
	}
	id := datatransfer.TransferID(idu)
	vn, err := w.valArg(a.V)
	if err != nil {
		return nil, nil, err
	}
	vt, err := w.textArg(w.d.Text, a.Vt)
	if err != nil {
		return nil, nil, err
	}
	var tv *datatransfer.TypedVoucher
	if !(a.V == "absent" && a.Vt == "tEmpty") {
		tv = &datatransfer.TypedVoucher{Voucher: vn, Type: datatransfer.TypeIdentifier(vt)}
	}
	switch r.Ctor {
	case "NewRequest":
		sel, err := w.valArg(a.Sel)
		if err != nil {
			return nil, nil, err
		}
		base := cid.Undef
		if a.Base != "undef" {
			c, ok := w.cids[a.Base]
			if !ok {
				return nil, nil, fmt.Errorf("unknown cid %q", a.Base)
			}
			base = c
		}
		m, cerr := message.NewRequest(id, a.Restart, a.Pull, tv, base, sel)
		if cerr != nil {
			return nil, cerr, nil
		}
		return m, nil, nil
	case "UpdateRequest":
		return message.UpdateRequest(id, a.Paused), nil, nil
	case "CancelRequest":
		return message.CancelRequest(id), nil, nil
	case "VoucherRequest":
		m, cerr := message.VoucherRequest(id, tv)
		if cerr != nil {
			return nil, cerr, nil
		}
		return m, nil, nil
	case "RestartExistingChannelRequest":
		ri, err := w.textArg(w.d.Peers, a.Ri)
		if err != nil {
			return nil, nil, err
		}
		rr, err := w.textArg(w.d.Peers, a.Rr)
		if err != nil {
			return nil, nil, err
		}
		return message.RestartExistingChannelRequest(datatransfer.ChannelID{Initiator: peer.ID(ri), Responder: peer.ID(rr), ID: id}), nil, nil
	case "NewResponse", "RestartResponse", "VoucherResultResponse", "CompleteResponse":
		f := map[string]func(datatransfer.TransferID, bool, bool, *datatransfer.TypedVoucher) (datatransfer.Response, error){
			"NewResponse": message.NewResponse, "RestartResponse": message.RestartResponse,
			"VoucherResultResponse": message.VoucherResultResponse, "CompleteResponse": message.CompleteResponse}[r.Ctor]
		m, cerr := f(id, a.Accepted, a.Paused, tv)
		if cerr != nil {
			return nil, cerr, nil
		}
		return m, nil, nil
	case "ValidationResultResponse":
		mt, ok := typeByName[a.Mt]
		if !ok {
			return nil, nil, fmt.Errorf("unknown message type %q", a.Mt)
		}
		var verr error
		if a.Err {
			verr = fmt.Errorf("validation failed")
		}
		m, cerr := message.ValidationResultResponse(mt, id, datatransfer.ValidationResult{Accepted: a.Accepted, VoucherResult: tv}, verr, a.Paused)
		if cerr != nil {
			return nil, cerr, nil
		}
		return m, nil, nil
	case "UpdateResponse":
		return message.UpdateResponse(id, a.Paused), nil, nil
	case "CancelResponse":
		return message.CancelResponse(id), nil, nil
	}
	return nil, nil, fmt.Errorf("unknown constructor %q", r.Ctor)
}

// ---- decoders under recover() ---------------------------------------------------------------------------

func guard(stage string, panics *[]string, f func()) {
	defer func() {
		if r := recover(); r != nil {
			s := fmt.Sprint(r)
			if len(s) > 120 {
				s = s[:120]
			}
			*panics = append(*panics, stage+": "+s)
		}
	}()
	f()
}

func decodeAny(b []byte) (datamodel.Node, error) {
	nb := basicnode.Prototype.Any.NewBuilder()
	if err := dagcbor.Decode(nb, bytes.NewReader(b)); err != nil {
		return nil, err
	}
	return nb.Build(), nil
}

func bodyMissing(m datatransfer.Message) bool {
	if m == nil {
		return true
	}
	v := reflect.ValueOf(m)
	return (v.Kind() == reflect.Ptr || v.Kind() == reflect.Interface) && v.IsNil()
}

// touch calls every accessor of a decoded message (cheap version of observe).
func touch(m datatransfer.Message) {
	m.IsRequest()
	m.IsNew()
	m.IsRestart()
	m.IsUpdate()
	m.IsCancel()
	m.IsPaused()
	m.TransferID()
	if rq, ok := m.(datatransfer.Request); ok {
		rq.IsVoucher()
		rq.IsRestartExistingChannelRequest()
		rq.IsPull()
		rq.BaseCid()
		rq.Selector()
		rq.Voucher()
		rq.VoucherType()
		rq.TypedVoucher()
		rq.RestartChannelId()
	}
	if rs, ok := m.(datatransfer.Response); ok {
		rs.IsComplete()
		rs.IsValidationResult()
		rs.Accepted()
		rs.VoucherResult()
		rs.VoucherResultType()
		rs.EmptyVoucherResult()
	}
}

// classify feeds bytes to one decoder under recover(): error | request | response | missing | panic | undecodable.
func classify(dec string, b []byte) (class string) {
	defer func() {
		if r := recover(); r != nil {
			class = "panic"
		}
	}()
	var m datatransfer.Message
	var err error
	if dec == "net" {
		m, err = message.FromNet(bytes.NewReader(b))
	} else {
		n, derr := decodeAny(b)
		if derr != nil {
			return "undecodable"
		}
		m, err = message.FromIPLD(n)
	}
	if err != nil {
		return "error"
	}
	if bodyMissing(m) {
		return "missing"
	}
	touch(m)
	if m.IsRequest() {
		return "request"
	}
	return "response"
}

var substitutes = []byte{0x00, 0x1f, 0x7f, 0xa0, 0xf6, 0xff}

// hostile feeds the structured neighbourhood of a valid encoding to both decoders: every strict prefix and
// every single-byte substitution (all offsets when stride = 1, else offsets o with o % stride == phase).
func hostile(enc []byte, stride, phase int, h *hostileObs) {
	try := func(in []byte) {
		for _, dec := range []string{"net", "ipld"} {
			c := classify(dec, in)
			h.N++
			switch c {
			case "error", "undecodable":
				h.Err++
			case "request", "response":
				h.Msg++
			case "panic":
				h.Panic++
			case "missing":
				h.Missing++
			}
			if (c == "panic" || c == "missing") && len(h.Bad) < 3 {
				h.Bad = append(h.Bad, dec+":"+c+":"+hex.EncodeToString(in))
			}
		}
	}
	for l := 0; l < len(enc); l++ {
		if stride == 1 || l%stride == phase {
			try(enc[:l])
		}
	}
	buf := make([]byte, len(enc))
	for off := 0; off < len(enc); off++ {
		if stride != 1 && off%stride != phase {
			continue
		}
		for _, s := range substitutes {
			if enc[off] == s {
				continue
			}
			copy(buf, enc)
			buf[off] = s
			try(buf)
		}
	}
}

// permute re-orders the entries of every map of the tree.
func permute(n kit.WNode, mode string, rng *rand.Rand) kit.WNode {
	out := kit.WNode{T: n.T, S: n.S}
	for _, it := range n.Items {
		out.Items = append(out.Items, permute(it, mode, rng))
	}
	for _, e := range n.KV {
		out.KV = append(out.KV, kit.WKV{K: e.K, V: permute(e.V, mode, rng)})
	}
	k := len(out.KV)
	switch {
	case k < 2:
	case mode == "rev":
		for i, j := 0, k-1; i < j; i, j = i+1, j-1 {
			out.KV[i], out.KV[j] = out.KV[j], out.KV[i]
		}
	case mode == "rot":
		out.KV = append(out.KV[1:], out.KV[0])
	default:
		rng.Shuffle(k, func(i, j int) { out.KV[i], out.KV[j] = out.KV[j], out.KV[i] })
	}
	return out
}

type fakeExt struct {
	name graphsync.ExtensionName
	data datamodel.Node
}

func (f fakeExt) Extension(name graphsync.ExtensionName) (datamodel.Node, bool) {
	if name == f.name {
		return f.data, true
	}
	return nil, false
}

// ---- one row ---------------------------------------------------------------------------------------------

type runCfg struct {
	seed          int64
	hostileStride int // 1 = every offset
	hostileEvery  int // rows with idx % hostileEvery == 0 get the neighbourhood
}

func (w *world) runRow(idx int, r rowDef, cfg runCfg) (ro rowObs, harnessErr error) {
	ro = rowObs{Case: r.Case, Ctor: r.Ctor, A: r.A, Os: []Obs{}, Panics: []string{}, Perm: permObs{Errs: []string{}, O: []int{}}, Hostile: hostileObs{Bad: []string{}}}
	intern := func(o Obs) int {
		for i := range ro.Os {
			if reflect.DeepEqual(ro.Os[i], o) {
				return i + 1
			}
		}
		ro.Os = append(ro.Os, o)
		return len(ro.Os)
	}
	decoded := func(stage string, p *pathObs, f func() (datatransfer.Message, error)) {
		guard(stage, &ro.Panics, func() {
			m, err := f()
			if err != nil {
				p.Err = "error: " + err.Error()
				return
			}
			if bodyMissing(m) {
				p.Err = "missing body"
				return
			}
			p.O = intern(w.observe(m))
		})
	}
	var msg datatransfer.Message
	var cerr error
	guard("construct", &ro.Panics, func() { msg, cerr, harnessErr = w.construct(r) })
	if harnessErr != nil {
		return ro, harnessErr
	}
	if cerr != nil || msg == nil {
		ro.CtorErr = true
		return ro, nil
	}
	guard("observe", &ro.Panics, func() { ro.O0 = intern(w.observe(msg)) })

	want, err := kit.WireRender(r.Layout)
	if err != nil {
		return ro, fmt.Errorf("case %s: rendering the layout: %v", r.Case, err)
	}
	// network form
	var enc []byte
	guard("ToNet", &ro.Panics, func() {
		var buf bytes.Buffer
		if err := msg.ToNet(&buf); err != nil {
			ro.Net.Err = "ToNet: " + err.Error()
			return
		}
		enc = buf.Bytes()
	})
	ro.Hex = hex.EncodeToString(enc)
	ro.LayoutEq = enc != nil && bytes.Equal(enc, want)
	if enc != nil {
		decoded("FromNet", &ro.Net, func() (datatransfer.Message, error) { return message.FromNet(bytes.NewReader(enc)) })
	}
	// IPLD form, in memory
	var nd datamodel.Node
	guard("ToIPLD", &ro.Panics, func() { nd = msg.ToIPLD() })
	if nd != nil {
		guard("walk ToIPLD", &ro.Panics, func() {
			b, err := walkBytes(nd)
			ro.IpldLayoutEq = err == nil && bytes.Equal(b, want)
		})
		decoded("FromIPLD", &ro.Ipld, func() (datatransfer.Message, error) { return message.FromIPLD(nd) })
	} else {
		ro.Ipld.Err = "ToIPLD returned nil"
	}
	// graphsync extension: ToExtensionData -> (graphsync carries the node as DAG-CBOR) -> GetTransferData
	names := []graphsync.ExtensionName{extension.ExtensionDataTransfer1_1}
	guard("extension", &ro.Panics, func() {
		exts, err := extension.ToExtensionData(msg, names)
		if err != nil || len(exts) != 1 || exts[0].Name != names[0] {
			ro.Ext.Err = fmt.Sprintf("ToExtensionData: %v (%d)", err, len(exts))
			return
		}
		b, err := walkBytes(exts[0].Data)
		if err != nil {
			ro.Ext.Err = "walk: " + err.Error()
			return
		}
		ro.ExtLayoutEq = bytes.Equal(b, want)
		carried, err := decodeAny(b)
		if err != nil {
			ro.Ext.Err = "carrier: " + err.Error()
			return
		}
		decoded("GetTransferData", &ro.Ext, func() (datatransfer.Message, error) {
			return extension.GetTransferData(fakeExt{names[0], carried}, names)
		})
	})
	// any key order decodes to the same message
	rng := rand.New(rand.NewSource(cfg.seed*1000003 + int64(idx)))
	seenO := map[int]bool{}
	for _, mode := range []string{"rev", "rot", "rnd", "rnd"} {
		pb, err := kit.WireRender(permute(r.Layout, mode, rng))
		if err != nil {
			return ro, err
		}
		for _, dec := range []string{"net", "ipld"} {
			var p pathObs
			decoded("perm/"+mode+"/"+dec, &p, func() (datatransfer.Message, error) {
				if dec == "net" {
					return message.FromNet(bytes.NewReader(pb))
				}
				n, err := decodeAny(pb)
				if err != nil {
					return nil, fmt.Errorf("carrier: %v", err)
				}
				return message.FromIPLD(n)
			})
			ro.Perm.N++
			if p.O == 0 {
				ro.Perm.Errs = append(ro.Perm.Errs, mode+"/"+dec+": "+p.Err+" input "+hex.EncodeToString(pb))
			} else if !seenO[p.O] {
				seenO[p.O] = true
				ro.Perm.O = append(ro.Perm.O, p.O)
			}
		}
	}
	// hostile neighbourhood of the valid encoding (rendered from the specification, not from the library)
	if cfg.hostileEvery > 0 && idx%cfg.hostileEvery == 0 {
		hostile(want, cfg.hostileStride, idx%cfg.hostileStride, &ro.Hostile)
	}
	return ro, nil
}

func (w *world) runEnv(e envDef) (envObs, error) {
	b, err := kit.WireRender(e.Layout)
	if err != nil {
		return envObs{}, err
	}
	eo := envObs{Case: e.Case, Shape: e.Shape, Hex: hex.EncodeToString(b), Hostile: hostileObs{Bad: []string{}}}
	eo.Net = classify("net", b)
	eo.Ipld = classify("ipld", b)
	hostile(b, 1, 0, &eo.Hostile)
	return eo, nil
}

// ---- driver ----------------------------------------------------------------------------------------------

func readLines(t *testing.T, path string, each func([]byte) error) {
	f, err := os.Open(path)
	if err != nil {
		t.Fatal(err)
	}
	defer f.Close()
	sc := bufio.NewScanner(f)
	sc.Buffer(make([]byte, 1<<20), 1<<26)
	for sc.Scan() {
		if len(bytes.TrimSpace(sc.Bytes())) == 0 {
			continue
		}
		if err := each(sc.Bytes()); err != nil {
			t.Fatal(err)
		}
	}
	if err := sc.Err(); err != nil {
		t.Fatal(err)
	}
}

func envInt(name string, def int) int {
	if s := os.Getenv(name); s != "" {
		if v, err := strconv.Atoi(s); err == nil {
			return v
		}
	}
	return def
}

// TestWire: VERIF_CASES (rows), VERIF_WIRE_ENVS (envelope shapes), VERIF_WIRE_DICT -> VERIF_OUT (ndjson of
// rowObs) and VERIF_WIRE_ENVOUT (ndjson of envObs).
func TestWire(t *testing.T) {
	in, out := os.Getenv("VERIF_CASES"), os.Getenv("VERIF_OUT")
	if in == "" || out == "" {
		t.Skip("VERIF_CASES / VERIF_OUT not set")
	}
	var d dictDef
	readLines(t, os.Getenv("VERIF_WIRE_DICT"), func(b []byte) error { return json.Unmarshal(b, &d) })
	w, err := newWorld(d)
	if err != nil {
		t.Fatal(err)
	}
	cfg := runCfg{seed: int64(envInt("VERIF_SEED", 1)), hostileStride: envInt("VERIF_WIRE_HSTRIDE", 1), hostileEvery: envInt("VERIF_WIRE_HEVERY", 1)}
	if cfg.hostileStride < 1 {
		cfg.hostileStride = 1
	}
	var rows []rowDef
	readLines(t, in, func(b []byte) error {
		var r rowDef
		if err := json.Unmarshal(b, &r); err != nil {
			return err
		}
		rows = append(rows, r)
		return nil
	})
	res := make([]rowObs, len(rows))
	errs := make([]error, len(rows))
	var wg sync.WaitGroup
	next := make(chan int, 64)
	nw := runtime.GOMAXPROCS(0)
	if nw > 12 {
		nw = 12
	}
	for k := 0; k < nw; k++ {
		wg.Add(1)
		go func() {
			defer wg.Done()
			for i := range next {
				res[i], errs[i] = w.runRow(i, rows[i], cfg)
			}
		}()
	}
	for i := range rows {
		next <- i
	}
	close(next)
	wg.Wait()
	of, err := os.Create(out)
	if err != nil {
		t.Fatal(err)
	}
	defer of.Close()
	bw := bufio.NewWriterSize(of, 1<<20)
	defer bw.Flush()
	enc := json.NewEncoder(bw)
	for i := range res {
		if errs[i] != nil {
			t.Fatalf("case %s: %v", rows[i].Case, errs[i])
		}
		if err := enc.Encode(res[i]); err != nil {
			t.Fatal(err)
		}
	}
	if ep, eout := os.Getenv("VERIF_WIRE_ENVS"), os.Getenv("VERIF_WIRE_ENVOUT"); ep != "" && eout != "" {
		ef, err := os.Create(eout)
		if err != nil {
			t.Fatal(err)
		}
		defer ef.Close()
		ew := bufio.NewWriter(ef)
		defer ew.Flush()
		eenc := json.NewEncoder(ew)
		readLines(t, ep, func(b []byte) error {
			var e envDef
			if err := json.Unmarshal(b, &e); err != nil {
				return err
			}
			eo, err := w.runEnv(e)
			if err != nil {
				return err
			}
			return eenc.Encode(eo)
		})
	}
}

"""Stages shared by several property checks (channel-engine family: FSM / ChanOps / Chan / ChanSeq / ChanJudge)."""
import os, json, re, shutil
import vlib
from vlib import Inconclusive

ALL_ROLES = ["initPush", "initPull", "respPush", "respPull"]
ALL_OPS = ["Open", "Accept", "ChannelOpened", "TransferInitiated", "Restart", "PauseInitiator", "PauseResponder",
           "ResumeInitiator", "ResumeResponder", "Complete", "FinishTransfer", "ResponderCompletes",
           "ResponderBeginsFinalization", "BeginFinalizing", "Cancel", "Error", "Disconnected", "RequestCancelled",
           "SendDataError", "ReceiveDataError", "DataSent", "DataQueued", "DataReceived", "NewVoucher", "NewVoucherResult",
           "SetDataLimit", "SetRequiresFinalization", "CompleteCleanupOnRestart"]
ENDING_OPS = ["Cancel", "Error", "Complete"]


def tla_set(xs):
    return "{" + ",".join('"%s"' % x for x in xs) + "}"


def write_cfg(ctx, name, text):
    p = ctx.path(name)
    with open(p, "w") as f:
        f.write(text)
    return p


def parse_cases(out, tag="@@case"):
    """PrintT(<<"@@case", "<json>">>) lines -> list of dicts."""
    cases = []
    pre = '<<"%s", "' % tag
    for line in out.splitlines():
        if line.startswith(pre) and line.endswith('">>'):
            s = line[len(pre):-3]
            s = s.replace('\\"', '"').replace("\\\\", "\\")
            try:
                cases.append(json.loads(s))
            except Exception:
                pass
    return cases


def gen_cells(ctx, cfg):
    res = ctx.tlc("FSMTab", cfg, workers=1, timeout=300)
    vlib.tlc_must_pass(res, "FSMTab tabulation")
    p = os.path.join(res.dir, "cases.ndjson")
    if not os.path.exists(p):
        raise Inconclusive("FSMTab produced no cases")
    return p


def gen_seqs(ctx, n_per, length, roles=ALL_ROLES, variants=None, reopen=True, tag="seq"):
    """TLC -simulate over ChanSeq: n_per behaviours per (role, op-set variant). Returns list of case dicts."""
    if variants is None:
        variants = {"all": ALL_OPS, "noend": [o for o in ALL_OPS if o not in ENDING_OPS]}
    cases = []
    k = 0
    for role in roles:
        for vname, ops in variants.items():
            cfg = write_cfg(ctx, "chanseq-%s-%s.cfg" % (role, vname),
                            "SPECIFICATION Spec\nCONSTANTS\n Role = \"%s\"\n Len0 = %d\n OpsAllowed = %s\n Reopen = %s\n"
                            % (role, length, tla_set(ops), "TRUE" if reopen else "FALSE"))
            res = ctx.tlc("ChanSeq", cfg, workers=1, simulate="num=%d" % n_per, depth=length + 2,
                          seed=ctx.seed * 7919 + k, timeout=300)
            k += 1
            if res.timeout or "Error:" in res.out:
                raise Inconclusive("ChanSeq simulation failed:\n" + res.out[-2000:])
            got = parse_cases(res.out)
            ctx.transitions += sum(len(c["steps"]) for c in got)
            ctx.states += sum(len(c["steps"]) for c in got)
            for i, c in enumerate(got):
                c["case"] = "%s-%s-%s-%d" % (tag, role, vname, i)
                for ch in c["chans"]:
                    ch["ident"]["tid"] = 100000 + len(cases)
                cases.append(c)
    return cases


def run_scripts(ctx, cases_path, race=False):
    b = ctx.go_bin("chanx", race=race)
    out = ctx.path("obs-%d.ndjson" % len(ctx.stages))
    ctx.must_run_go(b, "TestScripts", env={"VERIF_CASES": cases_path, "VERIF_OUT": out})
    if not os.path.exists(out) or os.path.getsize(out) == 0:
        raise Inconclusive("chanx produced no observations")
    return out


def judge(ctx, obs_path, module="ChanJudge"):
    d_obs = ctx.path("obs.ndjson")
    if os.path.abspath(obs_path) != os.path.abspath(d_obs):
        shutil.copy(obs_path, d_obs)
    res = ctx.tlc(module, "judge.cfg", workers=1, timeout=900, extra_files=[d_obs], heap="8g")
    vlib.tlc_must_pass(res, module)
    p = os.path.join(res.dir, "verdicts.ndjson")
    m = re.search(r'<<"@@judged", (\d+)>>', res.out)
    if not m:
        raise Inconclusive("judge did not report the number of cases")
    verdicts = vlib.read_ndjson(p) if os.path.exists(p) else []
    return int(m.group(1)), verdicts


def index_obs(obs_path):
    idx = {}
    for c in vlib.read_ndjson(obs_path):
        idx[c["case"]] = c
    return idx


def classify(ctx, verdicts, prefixes, obs_idx, what_prefix=""):
    """Verdict rows whose rule belongs to this property are violations (keyed by rule/status/op);
    'conf' rows are drift; rows of other properties are ignored here (their own checks report them)."""
    for v in verdicts:
        rule = v["rule"]
        case = obs_idx.get(v["case"], {})
        step = None
        if case:
            st = [s for s in case["steps"] if s.get("i") == v["i"]]
            step = st[0] if st else None
        if rule == "harness":
            raise Inconclusive("harness error in case %s step %s: %s" % (v["case"], v["i"], step.get("err") if step else "?"))
        if rule == "conf":
            ctx.drift.append({"case": v["case"], "i": v["i"], "status": v["status"], "op": v["op"],
                              "note": "observation is not a trajectory of ChanOps!Traj"})
            continue
        if not any(rule.startswith(p) for p in prefixes):
            continue
        key = {"rule": rule, "status": v["status"], "op": v["op"]}
        if rule == "C19.total" and step:
            pan = sorted(set([p.split(":")[0] for p in step["postView"]["panics"]] +
                             [p.split(":")[0] for a in step["ann"] for p in a["view"]["panics"]]))
            key = {"rule": rule, "accessors": pan, "vouchers": min(len(step["post"]["vouchers"]), 1), "results": min(len(step["post"]["results"]), 1)}
        ctx.violation(key, "%s%s violated at status=%s op=%s (case %s step %s)" % (what_prefix, rule, v["status"], v["op"], v["case"], v["i"]),
                      detail={"verdict": v, "step": step})


def count_cases(ctx, obs_idx, nontrivial):
    """evaluations = steps executed on real code; distinct_nontrivial = distinct (status, op, applied?) keys that satisfy nontrivial(step)."""
    for c in obs_idx.values():
        for s in c["steps"]:
            if s.get("op") == "reopen":
                continue
            ctx.evaluations += 1
            if nontrivial(s):
                ctx.distinct.add((s["pre"]["status"], s["op"], len(s["puts"]), s["ret"], s["pre"]["ip"], s["pre"]["rp"]))


def chan_family(ctx, prefixes, nontrivial, cells_cfg_quick="fsmtab-quick.cfg", cells_cfg_thorough="fsmtab-full.cfg",
                seqs_quick=(12, 14), seqs_thorough=(120, 20), seq_variants=None, seq_roles=ALL_ROLES):
    """cells + simulated histories on real channels.Channels, judged by TLC."""
    # 1. cells
    cells = gen_cells(ctx, cells_cfg_quick if ctx.quick() else cells_cfg_thorough)
    obs = run_scripts(ctx, cells)
    n, verdicts = judge(ctx, obs)
    idx = index_obs(obs)
    if n != len(idx):
        raise Inconclusive("judge saw %d cases, harness wrote %d" % (n, len(idx)))
    classify(ctx, verdicts, prefixes, idx, "cell: ")
    count_cases(ctx, idx, nontrivial)
    ctx.states += n
    ctx.transitions += n
    for c in list(idx.values())[:2]:
        s = c["steps"][0]
        ctx.sample({"kind": "cell", "pre": s["pre"]["status"], "op": s["op"], "args": s["args"], "ret": s["ret"],
                    "puts": [p["status"] for p in s["puts"]], "ann": [a["ev"] for a in s["ann"]], "env": s["env"]})
    ctx.extra["cells"] = n
    # 2. histories
    npr, ln = seqs_quick if ctx.quick() else seqs_thorough
    cases = gen_seqs(ctx, npr, ln, roles=seq_roles, variants=seq_variants)
    if not cases:
        raise Inconclusive("no histories generated")
    cp = ctx.path("seqcases.ndjson")
    vlib.write_ndjson(cp, cases)
    obs2 = run_scripts(ctx, cp)
    n2, verdicts2 = judge(ctx, obs2)
    idx2 = index_obs(obs2)
    classify(ctx, verdicts2, prefixes, idx2, "history: ")
    count_cases(ctx, idx2, nontrivial)
    ctx.traces += n2
    ctx.extra["histories"] = n2
    for c in list(idx2.values())[:2]:
        ctx.sample({"kind": "history", "case": c["case"], "ops": [(s["op"], s.get("ret"), (s.get("post") or {}).get("status")) for s in c["steps"]]})
    return idx, idx2


def model_chan(ctx, cfg_text, name, timeout=1500):
    cfg = write_cfg(ctx, name + ".cfg", cfg_text)
    res = ctx.tlc("Chan", cfg, timeout=timeout, heap="12g")
    if res.timeout:
        raise Inconclusive("TLC timeout on Chan/%s" % name)
    return res


# ---------------------------------------------------------------------------------------------------------
# manager family: Mgr / MgrTab / MgrSeq / MgrJudge + harness mgrx
# ---------------------------------------------------------------------------------------------------------
MGR_STATUSES = ["Requested", "Queued", "Ongoing", "AwaitingAcceptance", "TransferFinished", "ResponderCompleted", "ResponderFinalizing",
                "ResponderFinalizingTransferFinished", "Finalizing", "Completing", "Cancelling", "Failing", "Completed", "Failed", "Cancelled"]


def mgr_tab(ctx, family, roles=ALL_ROLES, statuses=MGR_STATUSES):
    cfg = write_cfg(ctx, "mgrtab-%s.cfg" % family,
                    "CONSTANTS\n OutFile = \"cases.ndjson\"\n Family = \"%s\"\n Roles = %s\n Statuses = %s\n" % (family, tla_set(roles), tla_set(statuses)))
    res = ctx.tlc("MgrTabOut", cfg, workers=1, timeout=600, heap="8g")
    vlib.tlc_must_pass(res, "MgrTab tabulation")
    return os.path.join(res.dir, "cases.ndjson")


def mgr_model(ctx, role, max_steps, invariants):
    cfg = write_cfg(ctx, "mgrseq-mc-%s.cfg" % role,
                    "SPECIFICATION Spec\nCONSTANTS\n OutFile = \"unused.ndjson\"\n Family = \"all\"\n Roles = {\"initPush\"}\n Statuses = {\"Requested\"}\n"
                    " Role = \"%s\"\n MaxSteps = %d\n DumpLen = 0\nINVARIANTS %s\nVIEW View\n" % (role, max_steps, " ".join(invariants)))
    res = ctx.tlc("MgrSeq", cfg, timeout=1500, heap="12g")
    if res.violated:
        raise Inconclusive("MgrSeq model violates %s (model-level counterexample is not a verdict; compare model and code)\n%s" % (res.violated, res.out[-1500:]))
    vlib.tlc_must_pass(res, "MgrSeq model check (%s)" % role)
    ctx.add_model(res)
    return res


def mgr_sim(ctx, n_per, length, roles=ALL_ROLES):
    cases = []
    for k, role in enumerate(roles):
        cfg = write_cfg(ctx, "mgrseq-sim-%s.cfg" % role,
                        "SPECIFICATION Spec\nCONSTANTS\n OutFile = \"unused.ndjson\"\n Family = \"all\"\n Roles = {\"initPush\"}\n Statuses = {\"Requested\"}\n"
                        " Role = \"%s\"\n MaxSteps = %d\n DumpLen = %d\n" % (role, length, length))
        res = ctx.tlc("MgrSeq", cfg, workers=1, simulate="num=%d" % n_per, depth=length + 2, seed=ctx.seed * 104729 + k, timeout=600, heap="6g")
        if res.timeout or "Error:" in res.out:
            raise Inconclusive("MgrSeq simulation failed:\n" + res.out[-2000:])
        got = parse_cases(res.out)
        for i, c in enumerate(got):
            c["case"] = "msim-%s-%d" % (role, i)
            cases.append(c)
        ctx.transitions += sum(len(c["steps"]) for c in got)
        ctx.states += sum(len(c["steps"]) for c in got)
    return cases


def run_mgr_scripts(ctx, cases_path):
    b = ctx.go_bin("mgrx")
    out = ctx.path("mobs-%d.ndjson" % len(ctx.stages))
    ctx.must_run_go(b, "TestScripts", env={"VERIF_CASES": cases_path, "VERIF_OUT": out}, timeout=1200)
    if not os.path.exists(out) or os.path.getsize(out) == 0:
        raise Inconclusive("mgrx produced no observations")
    return out


def sample_lines(ctx, path, n, keep=None):
    """seeded sample of n cases; cases for which keep(case_text) holds are always included (the property's own stimuli)"""
    lines = open(path).read().splitlines()
    if n and len(lines) > n:
        must = [l for l in lines if keep and keep(l)]
        rest = [l for l in lines if not (keep and keep(l))]
        ctx.rng.shuffle(rest)
        if len(must) > 3 * n:
            ctx.rng.shuffle(must)
            must = must[:3 * n]
        lines = must + rest[:max(n // 4, n - len(must))]          # always a random part too, however many cases the property keeps
    p = path + ".sample"
    open(p, "w").write("\n".join(lines) + "\n")
    return p, len(lines)


def classify_mgr(ctx, verdicts, prefixes, obs_idx, tag):
    for v in verdicts:
        rule = v["rule"]
        case = obs_idx.get(v["case"], {})
        step = None
        if case:
            st = [s for s in case["steps"] if s.get("i") == v["i"]]
            step = st[0] if st else None
        if rule == "harness":
            raise Inconclusive("harness error in case %s step %s: %s" % (v["case"], v["i"], step.get("err") if step else "?"))
        if rule == "conf":
            ctx.drift.append({"case": v["case"], "i": v["i"], "status": v["status"], "op": v["op"], "mkind": v["mkind"], "note": "observation differs from Mgr!Handle"})
            continue
        if not any(rule.startswith(p) for p in prefixes):
            continue
        key = {"rule": rule, "status": v["status"], "op": v["op"], "mkind": v["mkind"]}
        ctx.violation(key, "%s: %s violated at status=%s stimulus=%s/%s (case %s step %s)" % (tag, rule, v["status"], v["op"], v["mkind"], v["case"], v["i"]),
                      detail={"verdict": v, "step": step})


def mgr_family(ctx, prefixes, families, nontrivial, quick_n=3000, model_roles=("respPush",), invariants=(), sim_quick=(30, 10), sim_thorough=(200, 14), sim_roles_quick=("respPull", "initPush"), model=True, sims=True, keep=None):
    # 1. design level
    for role in ((model_roles if ctx.quick() else ALL_ROLES) if model else ()):
        mgr_model(ctx, role, 2 if ctx.quick() else 3, invariants)
    # 2. tabulated cases on the real manager
    total = 0
    for fam in families:
        cases = mgr_tab(ctx, fam)
        if ctx.quick():
            cases, n = sample_lines(ctx, cases, quick_n, keep=keep)
        obs = run_mgr_scripts(ctx, cases)
        n, verdicts = judge(ctx, obs, module="MgrJudge")
        idx = index_obs(obs)
        classify_mgr(ctx, verdicts, prefixes, idx, "case[%s]" % fam)
        total += n
        for c in idx.values():
            for s in c["steps"]:
                ctx.evaluations += 1
                if nontrivial(s):
                    ctx.distinct.add((s["t"]["pre"]["status"] if s["t"]["hasPre"] else "none", s["stim"]["kind"], s["stim"]["msg"]["kind"], s["ret"], s["stim"]["from"],
                                      len(s["net"]), len(s["tr"])))
        for c in list(idx.values())[:2]:
            s = c["steps"][0]
            ctx.sample({"kind": "mgr-case", "family": fam, "pre": s["t"]["pre"]["status"] if s["t"]["hasPre"] else None, "stim": s["stim"]["kind"], "msg": s["stim"]["msg"]["kind"],
                        "from": s["stim"]["from"], "val": s["stim"]["val"], "ret": s["ret"], "post": s["t"]["post"]["status"] if s["t"]["hasPost"] else None,
                        "net": [(x["what"], x["to"], x["msg"]["kind"]) for x in s["net"]], "tr": [x["call"] for x in s["tr"]]})
    ctx.states += total
    ctx.transitions += total
    ctx.extra["mgr_cases"] = total
    # 3. simulated stimulus histories
    npr, ln = sim_quick if ctx.quick() else sim_thorough
    sims = mgr_sim(ctx, npr, ln, roles=sim_roles_quick if ctx.quick() else ALL_ROLES) if (sims or not ctx.quick()) else []
    if sims:
        cp = ctx.path("msim.ndjson")
        vlib.write_ndjson(cp, sims)
        obs = run_mgr_scripts(ctx, cp)
        n, verdicts = judge(ctx, obs, module="MgrJudge")
        idx = index_obs(obs)
        classify_mgr(ctx, verdicts, prefixes, idx, "history")
        ctx.traces += n
        ctx.extra["mgr_histories"] = n
        for c in idx.values():
            for s in c["steps"]:
                ctx.evaluations += 1
                if nontrivial(s):
                    ctx.distinct.add((s["t"]["pre"]["status"] if s["t"]["hasPre"] else "none", s["stim"]["kind"], s["stim"]["msg"]["kind"], s["ret"], s["stim"]["from"],
                                      len(s["net"]), len(s["tr"])))
        for c in list(idx.values())[:1]:
            ctx.sample({"kind": "mgr-history", "case": c["case"], "steps": [(s["stim"]["kind"], s["stim"]["msg"]["kind"], s["ret"], s["t"]["post"]["status"]) for s in c["steps"]]})


# ---------------------------------------------------------------------------------------------------------
# trace validation of the repository's own test suite (hook in channels.dispatch, build tag verif)
# ---------------------------------------------------------------------------------------------------------
def run_repo_suite(ctx, packages):
    """runs the repository's own tests (packages) built with -tags verif, VERIF_TRACE -> directory of hook lines"""
    import subprocess
    tdir = ctx.path("suite-traces-%d" % len(ctx.stages))
    os.makedirs(tdir, exist_ok=True)
    env = vlib.go_env({"VERIF_TRACE": tdir, "TMPDIR": ctx.scratch, "GOLOG_LOG_LEVEL": "fatal"})
    cmd = [vlib.GO, "test", "-tags", "verif", "-count=1", "-vet=off", "-timeout", "20m"] + list(packages)
    try:
        r = subprocess.run(cmd, cwd=vlib.REPO, env=env, stdout=subprocess.PIPE, stderr=subprocess.STDOUT, text=True, timeout=1500)
    except subprocess.TimeoutExpired:
        raise Inconclusive("repository suite (with -tags verif) timed out")
    if "[build failed]" in r.stdout or "cannot find package" in r.stdout:
        raise Inconclusive("repository suite does not build with -tags verif:\n" + r.stdout[-2000:])
    ctx.stages.append({"go": "repository tests -tags verif", "packages": list(packages), "rc": r.returncode})
    return tdir, r


def repo_suite_chantrace(ctx, prefixes, packages=("./channels/...", "./impl/...")):
    """the repository's own tests as behaviours of Chan.tla only (quick tier: the two fast packages)"""
    import glob
    tdir, r = run_repo_suite(ctx, packages)
    lines = []
    for f in sorted(glob.glob(os.path.join(tdir, "trace-*.ndjson"))):
        lines += vlib.read_ndjson(f)
    if not lines:
        raise Inconclusive("the hook recorded nothing (is the verif hook still in the channels package?)")
    ctx.assumptions.append("repository-suite traces: test failures of the (timing-sensitive) suite itself are not verdicts")
    return chan_trace(ctx, lines, prefixes, "repo-suite")


def repo_suite_traces(ctx, prefixes, packages=("./channels/...", "./impl/...", "./itest/...", "./channelmonitor/...")):
    import glob, collections
    tdir, r = run_repo_suite(ctx, packages)
    groups = collections.OrderedDict()
    nlines = 0
    all_lines = []
    for f in sorted(glob.glob(os.path.join(tdir, "trace-*.ndjson"))):
        for l in vlib.read_ndjson(f):
            all_lines.append(l)
            if l.get("kind", "notify") not in ("notify", ""):
                continue
            nlines += 1
            groups.setdefault("%s:%s:%s:%s" % (l["pid"], l.get("inst", ""), l["self"][-6:], l["chid"]), []).append(l)
    if nlines == 0:
        raise Inconclusive("the hook recorded nothing (is the verif hook still in channels.dispatch?)")
    cases = []
    for k, ls in groups.items():
        ls.sort(key=lambda x: x["seq"])
        if len(ls) >= 2:
            cases.append({"case": k, "lines": ls})
    cp = ctx.path("suite-cases.ndjson")
    vlib.write_ndjson(cp, cases)
    n, verdicts = judge(ctx, cp, module="TraceJudge")
    byc = {c["case"]: c for c in cases}
    for v in verdicts:
        if v["rule"] == "conf":
            ctx.drift.append({"case": v["case"], "i": v["i"], "status": v["status"], "op": v["op"], "note": "announced transition differs from FSM.tla (repository-suite trace)"})
            continue
        if not any(v["rule"].startswith(p) for p in prefixes):
            continue
        c = byc[v["case"]]
        ctx.violation({"rule": v["rule"], "status": v["status"], "op": v["op"], "src": "repo-suite-trace"},
                      "%s violated by a transition the repository's own tests executed: %s --%s--> %s" % (v["rule"], v["status"], v["op"], c["lines"][v["i"] - 1]["status"]),
                      detail={"verdict": v, "prev": c["lines"][v["i"] - 2], "next": c["lines"][v["i"] - 1]})
    pairs = sum(len(c["lines"]) - 1 for c in cases)
    ctx.traces += len(cases)
    ctx.evaluations += pairs
    for c in cases:
        for i in range(1, len(c["lines"])):
            ctx.distinct.add(("suite", c["lines"][i - 1]["status"], c["lines"][i]["ev"]))
    ctx.extra["repo_suite_trace"] = {"channels": len(cases), "transitions": pairs, "suite_exit": r.returncode}
    ctx.assumptions.append("repository-suite traces: the hook in channels.dispatch records announced events; test failures of the (timing-sensitive) suite itself are not verdicts")
    # the same recorded executions as behaviours of Chan.tla (trace specification ChanTrace.tla)
    chan_trace(ctx, all_lines, prefixes, "repo-suite")
    return len(cases), pairs


# ---------------------------------------------------------------------------------------------------------
# trace validation against Chan.tla (spec/ChanTrace.tla): send / sent / notify / hcleanup / hunprotect lines
# ---------------------------------------------------------------------------------------------------------
CHANTRACE_CFG = '''SPECIFICATION TraceSpec
CONSTANTS
 Chans = {"c"}
 InitChans = {}
 EnvOps = {}
 MaxOps = 0
 MaxQ = 0
 DataArgs = {}
 Crashes = 0
 EnvGuard = "any"
 TraceFile = "trace.ndjson"
 NotifyFile = "notify.ndjson"
CONSTRAINT Mark
INVARIANTS C09_ExactlyOnce C09_NeverWithout
PROPERTIES T_C02_Final T_C07_Monotone T_C19_AppendOnly
POSTCONDITION Post
CHECK_DEADLOCK FALSE
'''
CHANTRACE_RULES = {"T_C02_Final": "C02.final", "T_C07_Monotone": "C07.monotone", "T_C19_AppendOnly": "C19.appendOnly",
                   "C09_ExactlyOnce": "C09.exactlyOnce", "C09_NeverWithout": "C09.neverWithout"}


def chantrace_cases(lines):
    """hook lines -> one case per (process, Channels instance, channel) that starts with its create line."""
    import collections
    lines = sorted(lines, key=lambda x: (x["pid"], x["seq"]))
    groups, last_inst = collections.OrderedDict(), {}
    for ln in lines:
        ln.setdefault("kind", "notify")
        if ln["kind"] == "":
            ln["kind"] = "notify"
        if ln["inst"] == "":
            # a cleanup-handler line whose environment serves several instances (test fakes): the instance that last touched the channel
            ln["inst"] = last_inst.get((ln["pid"], ln["chid"]), "")
        else:
            last_inst[(ln["pid"], ln["chid"])] = ln["inst"]
        groups.setdefault((ln["pid"], ln["inst"], ln["chid"]), []).append(ln)
    cases, skipped = [], collections.Counter()
    for k, ls in groups.items():
        if ls[0]["kind"] != "create":
            skipped["adopted (instance opened over an existing record)"] += 1
            continue
        if any(abs(x.get(f, 0)) > 2 ** 30 for x in ls for f in ("n", "queued", "sent", "received", "limit")):
            skipped["numbers beyond TLC's 32-bit integers"] += 1
            continue
        body = [x for x in ls[1:] if x["kind"] != "htrigger"]
        cases.append({"key": "%s:%s:%s" % k, "reset": dict(ls[0], kind="reset"), "body": body})
    return cases, skipped


def chantrace_concat(cases):
    out, nnot, spans = [], 0, []
    for c in cases:
        r = dict(c["reset"])
        r["nb"], r["nn"] = nnot, sum(1 for x in c["body"] if x["kind"] == "notify")
        nnot += r["nn"]
        start = len(out) + 1
        out.append(r)
        out += c["body"]
        spans.append((start, len(out)))
    for x in out:
        x.setdefault("nb", 0); x.setdefault("nn", 0); x.setdefault("gid", 0)
    return out, spans


def chantrace_run(ctx, cases, tag):
    """one TLC run over the concatenated cases -> ("accepted", None) | ("rejected", line) | ("violated", (prop, line)) """
    out, spans = chantrace_concat(cases)
    d = ctx.path("chantrace-%s-%d" % (tag, len(ctx.stages)))
    os.makedirs(d, exist_ok=True)
    tp, npth = os.path.join(d, "trace.ndjson"), os.path.join(d, "notify.ndjson")
    vlib.write_ndjson(tp, out)
    vlib.write_ndjson(npth, [x for x in out if x["kind"] == "notify"])
    cfg = write_cfg(ctx, "chantrace.cfg", CHANTRACE_CFG)
    res = ctx.tlc("ChanTrace", cfg, workers=1, timeout=1500, extra_files=[tp, npth], deadlock=True, dfs=True, heap="8g")
    if res.timeout:
        raise Inconclusive("ChanTrace validation timed out (%s, %d lines)" % (tag, len(out)))
    m = re.search(r'<<"@@reached", (\d+), (\d+)>>', res.out)
    if res.violated and res.violated in CHANTRACE_RULES:
        ls = re.findall(r"/\\ l = (\d+)", res.out)
        return res, out, spans, ("violated", (res.violated, int(ls[-1]) if ls else 0))
    if "Model checking completed. No error has been found" in res.out and m and int(m.group(1)) == len(out) + 1:
        return res, out, spans, ("accepted", None)
    if m and "Postcondition" in res.out:
        return res, out, spans, ("rejected", int(m.group(1)))
    raise Inconclusive("ChanTrace validation failed (%s):\n%s" % (tag, res.out[-2500:]))


def chan_trace(ctx, lines, prefixes, label, control=True):
    """Validate hook lines against Chan.tla.  Property formulas that fail on an observed behaviour are violations (if they
    belong to this check); a case the spec cannot explain is drift; both are set aside and the rest is validated again."""
    cases, skipped = chantrace_cases(lines)
    if not cases:
        raise Inconclusive("no channel trace starts with a create line (%s): is the verif hook still in place?" % label)
    total = len(cases)
    accepted_lines, rounds = 0, 0
    rejected, violated = [], []
    live = list(cases)
    while live:
        rounds += 1
        if rounds > 12:
            raise Inconclusive("ChanTrace (%s): more than 12 cases rejected or violating; first: %s" % (label, (rejected + violated)[:2]))
        res, out, spans, (what, info) = chantrace_run(ctx, live, label)
        if what == "accepted":
            accepted_lines = len(out)
            ctx.add_model(res)
            break
        line = info if what == "rejected" else info[1]
        ci = next((i for i, (a, b) in enumerate(spans) if a <= line <= b), None)
        if ci is None:
            raise Inconclusive("ChanTrace (%s): cannot locate line %s" % (label, line))
        c = live.pop(ci)
        ln = out[line - 1] if 1 <= line <= len(out) else {}
        if what == "rejected":
            rejected.append({"case": c["key"][-60:], "at": line - spans[ci][0], "kind": ln.get("kind"), "ev": ln.get("ev"), "status": ln.get("status")})
        else:
            violated.append({"case": c["key"][-60:], "prop": info[0], "at": line - spans[ci][0], "kind": ln.get("kind"), "ev": ln.get("ev"), "status": ln.get("status"),
                             "lines": [(x["kind"], x.get("ev"), x.get("status")) for x in c["body"][max(0, line - spans[ci][0] - 12):line - spans[ci][0] + 1]]})
    for r in rejected:
        ctx.drift.append(dict(r, note="recorded execution is not a behaviour of Chan.tla (ChanTrace, %s)" % label))
    for v in violated:
        rule = CHANTRACE_RULES[v["prop"]]
        if any(rule.startswith(p) for p in prefixes):
            ctx.violation({"rule": rule, "src": "chan-trace:" + label, "ev": v["ev"], "status": v["status"]},
                          "%s (%s of Chan.tla) violated on a recorded execution (%s): case %s, %s %s at line %d" % (rule, v["prop"], label, v["case"], v["kind"], v["ev"], v["at"]), detail=v)
    n_ok = len(live)
    ctx.traces += n_ok
    ctx.evaluations += accepted_lines
    ctx.extra.setdefault("chan_trace", {})[label] = {"cases": total, "accepted": n_ok, "lines_accepted": accepted_lines, "rejected": len(rejected), "violating": len(violated),
                                                    "skipped": dict(skipped), "tlc_rounds": rounds}
    # binding control: one recorded field flipped must make TLC reject exactly there
    if control and live:
        import copy
        cc = copy.deepcopy(live)
        cand = [(i, j) for i, c in enumerate(cc) for j, x in enumerate(c["body"]) if x["kind"] == "notify" and x["status"] not in ("Completed", "Failed", "Cancelled")]
        if cand:
            i, j = cand[ctx.rng.randrange(len(cand))]
            x = cc[i]["body"][j]
            x["status"] = "Finalizing" if x["status"] != "Finalizing" else "Ongoing"
            res, out, spans, (what, info) = chantrace_run(ctx, cc, label + "-control")
            if what == "accepted":
                raise Inconclusive("ChanTrace accepted a trace with a flipped status (%s): the trace spec does not bind" % label)
            ctx.extra["chan_trace"][label]["control"] = {"flipped_status_at": spans[i][0] + j + 1, "tlc": what, "at": info if what == "rejected" else info[1]}
    return n_ok, accepted_lines


# ---------------------------------------------------------------------------------------------------------
# gated replay: ChanGate.tla schedules (operations racing with the asynchronous cleanup handler) on the real engine
# ---------------------------------------------------------------------------------------------------------
GATE_STATUSES = {"init": ["Requested", "Queued", "AwaitingAcceptance", "Ongoing", "TransferFinished", "ResponderCompleted", "ResponderFinalizing", "ResponderFinalizingTransferFinished"],
                 "resp": ["Requested", "Queued", "AwaitingAcceptance", "Ongoing", "Finalizing"]}
GATE_OPS = {"init": ["Accept", "TransferInitiated", "FinishTransfer", "ResponderCompletes", "ResponderBeginsFinalization", "Cancel", "Error", "PauseInitiator", "ResumeInitiator",
                     "PauseResponder", "ResumeResponder", "Disconnected", "RequestCancelled", "SendDataError", "DataReceived", "DataQueued", "DataSent", "NewVoucher", "NewVoucherResult",
                     "Restart", "Open", "CompleteCleanupOnRestart", "ChannelOpened"],
            "resp": ["Accept", "TransferInitiated", "Complete", "BeginFinalizing", "Cancel", "Error", "PauseInitiator", "ResumeInitiator", "PauseResponder", "ResumeResponder",
                     "Disconnected", "RequestCancelled", "ReceiveDataError", "DataReceived", "DataQueued", "DataSent", "NewVoucher", "NewVoucherResult", "SetDataLimit",
                     "SetRequiresFinalization", "Restart", "Open", "CompleteCleanupOnRestart", "ChannelOpened"]}
GATE_CFG = """SPECIFICATION GSpec
CONSTANTS
 Chans = {"c1"}
 InitChans = %s
 EnvOps = %s
 MaxOps = 1000
 MaxQ = 40
 DataArgs = {"b1","b2","d2"}
 Crashes = 0
 EnvGuard = "any"
 GRole = "%s"
 GLen = %d
 PreStatus = "%s"
"""


def gated_family(ctx, prefixes, quick=(4, 14, 9), thorough=(None, 60, 12)):
    """TLC -simulate over ChanGate.tla -> schedules in which operations are issued while the cleanup handler is held at a gate;
    executed on the real engine (chanx/TestGated), judged by GateJudge; the hook lines of the same runs validated by ChanTrace."""
    import glob
    n_combos, n_per, glen = quick if ctx.quick() else thorough
    combos = [(role, st) for role in ALL_ROLES for st in GATE_STATUSES["init" if role.startswith("init") else "resp"]]
    if n_combos:
        ctx.rng.shuffle(combos)
        fixed = [("initPull", "ResponderCompleted"), ("respPush", "Finalizing")]
        combos = fixed + [c for c in combos if c not in fixed][:n_combos]
    cases = []
    for k, (role, st) in enumerate(combos):
        kind = "init" if role.startswith("init") else "resp"
        cfg = write_cfg(ctx, "changate-%s-%s.cfg" % (role, st), GATE_CFG % ('{"c1"}' if kind == "init" else "{}", tla_set(GATE_OPS[kind]), role, glen, st))
        res = ctx.tlc("ChanGate", cfg, workers=1, simulate="num=%d" % n_per, depth=glen * 8 + 40, seed=ctx.seed * 104729 + k, timeout=300)
        if res.timeout or "Error:" in res.out:
            raise Inconclusive("ChanGate simulation failed:\n" + res.out[-2000:])
        got = parse_cases(res.out)
        seen = set()
        for c in got:
            sig = json.dumps(c["steps"], sort_keys=True)
            if sig in seen:
                continue
            seen.add(sig)
            c["case"] = "gate-%s-%s-%d" % (role, st, len(cases))
            cases.append(c)
        ctx.states += sum(len(c["steps"]) for c in got)
        ctx.transitions += sum(len(c["steps"]) for c in got)
    racing = [c for c in cases if any(s["k"] == "op" and s["at"] != "quiet" for s in c["steps"])]
    if len(racing) < max(5, len(cases) // 10):
        raise Inconclusive("ChanGate produced only %d schedules with an operation racing the handler (of %d)" % (len(racing), len(cases)))
    cp = ctx.path("gatecases.ndjson")
    vlib.write_ndjson(cp, cases)
    b = ctx.go_bin("chanx")
    out = ctx.path("gateobs.ndjson")
    tdir = ctx.path("gate-traces")
    os.makedirs(tdir, exist_ok=True)
    ctx.must_run_go(b, "TestGated", env={"VERIF_CASES": cp, "VERIF_OUT": out, "VERIF_TRACE": tdir}, timeout=1500)
    obs = {o["case"]: o for o in vlib.read_ndjson(out)}
    if len(obs) != len(cases):
        raise Inconclusive("TestGated wrote %d observations for %d schedules" % (len(obs), len(cases)))
    merged = ctx.path("gatemerged.ndjson")
    vlib.write_ndjson(merged, [{"case": c["case"], "exp": c, "obs": obs[c["case"]]} for c in cases])
    n, verdicts = judge(ctx, merged, module="GateJudge")
    byc = {c["case"]: c for c in cases}
    harness_errs = 0
    for v in verdicts:
        c, o = byc[v["case"]], obs[v["case"]]
        sched = [(s["k"], s["op"] or s["gate"], s["at"]) for s in c["steps"]]
        if v["rule"] == "harness":
            harness_errs += 1
            continue
        if v["rule"] == "conf":
            ctx.drift.append({"case": v["case"], "note": "gated replay deviates from ChanGate.tla", "err": o["err"], "expFinal": c["final"]["status"], "gotFinal": o["final"]["status"],
                              "expCleanups": c["cleanups"], "gotCleanups": o["cleanups"], "schedule": sched})
            continue
        if not any(v["rule"].startswith(p) for p in prefixes):
            continue
        racing_ops = sorted(set(s["op"] for s in c["steps"] if s["k"] == "op" and s["at"] != "quiet"))
        ending = next((a["status"] for a in o["anns"] if a["status"] in ("Cancelling", "Failing", "Completing")), "")
        ctx.violation({"rule": v["rule"], "src": "gated", "ending": ending, "racing": racing_ops[:3]},
                      "%s violated in a gated replay (operations issued while the cleanup handler is held): case %s, final %s, cleanups %d, unprotects %d; schedule %s" % (
                          v["rule"], v["case"], o["final"]["status"], o["cleanups"], o["unprotects"], sched),
                      detail={"schedule": c["steps"], "obs": o, "expected": {k: c[k] for k in ("final", "endings", "cleanups", "unprotects", "applied")}})
    if harness_errs > max(2, len(cases) // 20):
        raise Inconclusive("gated replay: %d harness failures" % harness_errs)
    for c in cases:
        o = obs[c["case"]]
        ctx.traces += 1
        ctx.evaluations += len(c["steps"])
        for s in c["steps"]:
            if s["k"] == "op" and s["at"] != "quiet":
                ctx.distinct.add(("gated", c["role"], s["op"], s["at"], o["final"]["status"]))
    ctx.extra["gated"] = {"schedules": len(cases), "with_racing_ops": len(racing), "ops_at_gates": sum(1 for c in cases for s in c["steps"] if s["k"] == "op" and s["at"] != "quiet"),
                          "followed_exactly": sum(1 for c in cases if obs[c["case"]]["err"] == "")}
    for c in racing[:1]:
        ctx.sample({"kind": "gated replay", "case": c["case"], "schedule": [(s["k"], s["op"] or s["gate"], s["at"]) for s in c["steps"]], "final": obs[c["case"]]["final"]["status"],
                    "cleanups": obs[c["case"]]["cleanups"]})
    lines = []
    for f in sorted(glob.glob(os.path.join(tdir, "trace-*.ndjson"))):
        lines += vlib.read_ndjson(f)
    if not lines:
        raise Inconclusive("the verif hook recorded nothing during the gated replays")
    chan_trace(ctx, lines, prefixes, "gated")
    return len(cases)


# ---------------------------------------------------------------------------------------------------------
# spec-level obligations discharged by the proof system (TLAPS): facts about FSM.tla for ALL records / events / arguments.
# They are about the SPECIFICATION only (independent of /repo), so their outcome is recorded in the evidence and never
# changes a check's exit code; a refuted variant of FSM.tla (Open moving a cleaning-up channel back to Requested) must fail.
# ---------------------------------------------------------------------------------------------------------
def tlaps_fsm(ctx):
    proved, failed, tail = vlib.run_tlapm(ctx.scratch, "FSMProofs")
    rec = {"module": "FSMProofs", "proved": proved, "failed": failed}
    if failed != 0:
        proved, failed, tail = vlib.run_tlapm(ctx.scratch, "FSMProofs", stretch=6)       # once more with longer prover timeouts (machine under load)
        rec.update({"proved": proved, "failed": failed, "retried": True})
    def mut(d):
        p = os.path.join(d, "FSM.tla")
        t = open(p).read()
        t2 = t.replace('CASE e = "Open"   -> IF s \\in Cleanup THEN "REC" ELSE "Requested"', 'CASE e = "Open"   -> "Requested"')
        assert t2 != t
        open(p, "w").write(t2)
    np, nf, _ = vlib.run_tlapm(ctx.scratch, "FSMProofs", mutate=mut, stretch=1)
    rec["refuted_variant_fails"] = nf > 0
    if failed != 0:
        rec["note"] = "not all obligations were established in this run: " + tail[-300:]
    ctx.extra["tlaps"] = rec
    ctx.stages.append({"tlapm": "FSMProofs", "proved": rec["proved"], "failed": rec["failed"], "refuted_variant_fails": rec["refuted_variant_fails"]})
    return rec

"""C11 Pause state is tracked per party (channel-engine part; manager part in mgrx)."""
import stages, chancfg, vlib

PAUSE_OPS = ("PauseInitiator", "ResumeInitiator", "PauseResponder", "ResumeResponder", "DataQueued", "DataReceived")

def run(ctx):
    ctx.rule = ("cells: every status x 4 flag values x the pause/resume operations (and all others) on real channels.Channels; histories with pause/resume "
                "interleavings; judged by C11.ownFlagOnly / follows / ignoredWhereMeaningless and the view identities; non-trivial = pause/resume/limit step")
    ctx.assumptions += ["transport/message side of pause and resume is checked by the Mgr family"]
    res = stages.model_chan(ctx, chancfg.chan_cfg(ops=chancfg.INIT_LIFE, max_ops=3 if ctx.quick() else 5, guard="any",
                                                  invariants=["TypeOK"], properties=["C11_OwnFlagOnly"]), "chan-c11")
    if res.violated:
        raise vlib.Inconclusive("Chan model violates %s\n%s" % (res.violated, res.out[-1500:]))
    vlib.tlc_must_pass(res, "Chan C11")
    ctx.add_model(res)
    variants = {"pause": ["Accept", "TransferInitiated", "PauseInitiator", "ResumeInitiator", "PauseResponder", "ResumeResponder", "DataQueued", "DataReceived",
                          "SetDataLimit", "BeginFinalizing", "FinishTransfer", "ResponderCompletes", "ResponderBeginsFinalization", "NewVoucher", "Disconnected"],
                "all": stages.ALL_OPS}
    stages.chan_family(ctx, ["C11.", "C19.views"], lambda s: s["op"] in PAUSE_OPS, seq_variants=variants)
    # manager level: the same property on a real manager (messages, API calls, transport callbacks)
    stages.mgr_family(ctx, ["C11."], ["all", "c04"], lambda s: s["stim"]["kind"] in ("Pause", "Resume") or s["stim"]["msg"]["kind"] == "Update", quick_n=3000, model=not ctx.quick(), sims=False, invariants=["M_C11_Own"], keep=lambda l: any(k in l for k in ('"kind":"Pause"', '"kind":"Resume"', '"kind":"Update"', '"kind":"UpdateValidation"')) or
                      # restart requests: their answer announces the responder's pause state
                      ('"kind":"Restart"' in l and '"isReq":true' in l and '"accepted":true' in l) or
                      # every inbound response / request that meets a channel whose local side is paused (the counterparty's "not paused" must not lift the local pause)
                      (('"ip":true' in l or '"rp":true' in l) and any(k in l for k in ('"kind":"RecvResponse"', '"kind":"OnResponseReceived"', '"kind":"RecvRequest"', '"kind":"OnRequestReceived"'))))
    # two-node replays of Sys.tla behaviours on two real managers: C11 rules of SysJudge and of the manager judge on every step of either node
    from props import c01 as _c01
    _c01.sys_replay(ctx, prefixes=["C11."], n_quick=10, n_thorough=60)
    if not ctx.quick():
        # the repository's own 275 tests, run with the trace hook: every transition they execute is judged
        stages.repo_suite_traces(ctx, ["C11."])

"""C15 Network sends retry boundedly, deliver once; inbound dispatch is faithful (libp2p adapter, network/libp2p_impl.go).

Net.tla (process model over the pure transition functions of NetOps.tla) is model-checked exhaustively for every attempt
cap; the same TLC runs print every complete behaviour as a replay case.  harness/netx replays each case on the REAL
network.NewFromLibp2pHost over a scripted host / in-memory streams under testing/synctest virtual time and records one
observation per case; NetJudge.tla evaluates conformance (drift) and the C15 formulas on the observed values."""
import os, json, copy, collections, concurrent.futures
import vlib, stages
from vlib import Inconclusive

ALL_SHAPES = ["reqNew", "reqRestart", "reqUpdate", "reqPause", "reqCancel", "reqVoucher", "rx",
              "respNew", "respRestart", "respUpdate", "respCancel", "respComplete", "respVoucherResult"]
ALL_TERMS = ["eof", "ueofHalf", "ueof1", "garbageFF", "garbage1c", "shapeInt", "shapeList", "shapeEmptyMap", "shapeBadKey",
             "noBodyReq", "noBodyResp", "crossReq", "crossResp"]
QUIET = {"eof", "ueofHalf", "ueof1", "none"}
OUT_INV = "Inv_OutType Inv_Cap Inv_SuccessIff Inv_Once Inv_Prompt Inv_WriteFail"
OUT_PROPS = "Act_NoRetryAfterOpen Act_CancelInWait Live_Returns"
IN_INV = "Inv_InType Inv_Dispatch Inv_Malformed"
IN_PROPS = "Act_OncePerMessage Live_Handled"
TRAILING = "unexpected content after end of cbor object"


def sset(xs):
    return "{" + ",".join('"%s"' % x for x in xs) + "}"


def bset(xs):
    return "{" + ",".join("TRUE" if x else "FALSE" for x in xs) + "}"


def nset(xs):
    return "{" + ",".join(str(x) for x in xs) + "}"


def cfg_text(mode, max_attempts=1, bug="none", msgs=(), deadlines=(), shapes=(), terms=(), max_msgs=0, peers=(), chunks=(),
             nilrecv=(), dump=True, live=True):
    out = mode == "out"
    t = "SPECIFICATION %s\nCONSTANTS\n" % ("OutSpec" if out else "InSpec")
    t += " MaxAttempts = %d\n Bug = \"%s\"\n OutMsgs = %s\n Deadlines = %s\n" % (max_attempts, bug, sset(msgs), bset(deadlines))
    t += " Shapes = %s\n Terms = %s\n MaxMsgs = %d\n Peers = %s\n Chunks = %s\n NilRecv = %s\n" % (
        sset(shapes), sset(terms), max_msgs, sset(peers), nset(chunks), bset(nilrecv))
    t += " DumpCases = %s\n" % ("TRUE" if dump else "FALSE")
    t += "INVARIANTS %s\n" % (OUT_INV if out else IN_INV)
    if live:
        t += "PROPERTIES %s\n" % (OUT_PROPS if out else IN_PROPS)
    return t


def plan(ctx):
    """(name, cfg text, simulate spec or None) for every TLC run that produces cases."""
    runs = []
    caps = [0, 1, 2, 3, 5] if ctx.quick() else [0, 1, 2, 3, 4, 5, 6]
    for m in caps:
        runs.append(("out-m%d" % m, cfg_text("out", m, msgs=["reqNew"], deadlines=[True, False]), None))
    runs.append(("out-msgs", cfg_text("out", 2, msgs=ALL_SHAPES, deadlines=[False]), None))
    runs.append(("in-k3", cfg_text("in", shapes=["reqNew", "reqCancel", "respNew", "rx"], terms=ALL_TERMS, max_msgs=3,
                                   peers=["P"], chunks=[0, 1], nilrecv=[False]), None))
    runs.append(("in-nil", cfg_text("in", shapes=["reqNew", "respNew", "rx"], terms=["eof", "garbageFF"], max_msgs=1,
                                    peers=["P", "Q"], chunks=[0], nilrecv=[True, False]), None))
    if not ctx.quick():
        runs.append(("in-all-k2", cfg_text("in", shapes=ALL_SHAPES, terms=ALL_TERMS, max_msgs=2, peers=["Q"], chunks=[0, 3],
                                           nilrecv=[False]), None))
        for m, num in ((8, 2500), (13, 2500)):     # larger attempt caps: seeded random behaviours
            runs.append(("out-sim-m%d" % m, cfg_text("out", m, msgs=ALL_SHAPES, deadlines=[True, False], live=False), (num, 4 * m + 12)))
        runs.append(("in-sim", cfg_text("in", shapes=ALL_SHAPES, terms=ALL_TERMS, max_msgs=8, peers=["P", "Q"],
                                        chunks=[0, 1, 2, 3, 7, 64], nilrecv=[False], live=False), (4000, 14)))
    return runs


MODEL_MUTANTS = [  # (bug, mode, invariant or property expected to fail)
    ("ignoreCtx", "out", "Inv_Prompt"), ("offByOne", "out", "Inv_Cap"), ("noReset", "out", "Inv_WriteFail"),
    ("retryAfterOk", "out", "Inv_Once"), ("wrongHandler", "in", "Inv_Dispatch"), ("peerFromMsg", "in", "Inv_Dispatch"),
    ("handlerOnBad", "in", "Inv_Dispatch")]


def run_models(ctx):
    """All TLC model runs in parallel (each single-worker, so every done-state is expanded - and printed - exactly once)."""
    runs = plan(ctx)
    jobs = {}
    with concurrent.futures.ThreadPoolExecutor(max_workers=min(6, vlib.NCPU)) as ex:
        for k, (name, text, sim) in enumerate(runs):
            cfg = stages.write_cfg(ctx, "net-%s.cfg" % name, text)
            kw = dict(workers=1, heap="2g", timeout=600 if ctx.quick() else 1500)
            if sim:
                kw.update(simulate="num=%d" % sim[0], depth=sim[1], seed=ctx.seed * 7919 + k)
            jobs[name] = ex.submit(ctx.tlc, "Net", cfg, **kw)
        for bug, mode, _ in MODEL_MUTANTS:
            text = (cfg_text("out", 3, bug=bug, msgs=["reqNew"], deadlines=[False], dump=False) if mode == "out" else
                    cfg_text("in", bug=bug, shapes=["reqNew", "respNew", "rx"], terms=["eof", "garbageFF"], max_msgs=2, peers=["P"],
                             chunks=[0], nilrecv=[False], dump=False))
            cfg = stages.write_cfg(ctx, "net-bug-%s.cfg" % bug, text)
            jobs["bug-" + bug] = ex.submit(ctx.tlc, "Net", cfg, workers=1, heap="1g", timeout=300)
    cases, per_run = [], {}
    for name, text, sim in runs:
        res = jobs[name].result()
        if res.violated:
            # a counterexample on the model only is not a verdict (DESIGN section 5): the reference semantics is wrong
            raise Inconclusive("Net model (%s) violates its own property %s:\n%s" % (name, res.violated, res.out[-2500:]))
        if sim:
            if res.timeout or "Error:" in res.out:
                raise Inconclusive("Net simulation %s failed:\n%s" % (name, res.out[-2000:]))
        else:
            vlib.tlc_must_pass(res, "Net " + name)
            ctx.add_model(res)
        got, seen = [], set()
        for c in stages.parse_cases(res.out):
            k = vlib.canon(c)
            if k in seen:
                continue
            seen.add(k)
            c["case"] = "%s-%d" % (name, len(got))
            got.append(c)
        if not got:
            raise Inconclusive("Net run %s exported no behaviour" % name)
        if sim:
            ctx.states += sum(len(c["ev"]) for c in got)
            ctx.transitions += sum(len(c["ev"]) for c in got)
        per_run[name] = len(got)
        cases += got
    for bug, mode, want in MODEL_MUTANTS:
        res = jobs["bug-" + bug].result()
        if res.timeout or not res.violated:
            raise Inconclusive("vacuity control: model mutant %s is not rejected by the invariants of Net.tla\n%s" % (bug, res.out[-1500:]))
    ctx.extra["cases_per_run"] = per_run
    ctx.extra["model_mutants_rejected"] = [b for b, _, _ in MODEL_MUTANTS]
    return cases


# ---- judge self-test: corrupted copies of genuine observations must be flagged -------------------------------
def controls(obs):
    out = []

    def first(pred):
        for o in obs:
            try:
                if pred(o):
                    return copy.deepcopy(o)
            except Exception:
                pass
        return None
    o = first(lambda o: o["kind"] == "out" and o["ret"] == "nil" and len(o["news"]) >= 2)
    if o:
        o["case"] = "ctl-cap"; o["news"] = o["news"] + [dict(o["news"][-1])] * (o["max"] + 1); out.append((o, "C15.cap"))
    o = first(lambda o: o["kind"] == "out" and o["ret"] == "nil")
    if o:
        o["case"] = "ctl-successIff"; o["ret"] = "write"; out.append((o, "C15.successIff"))
    o = first(lambda o: o["kind"] == "out" and o["ret"] == "nil")
    if o:
        o["case"] = "ctl-once"; o["wrote"]["msgs"] = 2; out.append((o, "C15.once"))
    o = first(lambda o: o["kind"] == "out" and o["ret"] == "ctx" and o["tCancel"] > 0 and o["tCancel"] == o["tRet"])
    if o:
        o["case"] = "ctl-prompt"; o["tRet"] += 500; out.append((o, "C15.prompt"))
    o = first(lambda o: o["kind"] == "out" and o["ret"] == "write")
    if o:
        o["case"] = "ctl-writeFail"; o["ops"] = [p for p in o["ops"] if p["op"] != "reset"]; out.append((o, "C15.writeFail"))
    o = first(lambda o: o["kind"] == "in" and o["items"] == ["rx"] and o["term"] == "eof" and len(o["calls"]) == 1)
    if o:
        o["case"] = "ctl-dispatch"; o["calls"][0]["h"] = "request"; out.append((o, "C15.dispatch"))
    o = first(lambda o: o["kind"] == "in" and o["items"] == ["rx"] and o["term"] == "eof" and len(o["calls"]) == 1)
    if o:
        o["case"] = "ctl-peer"; o["calls"][0]["peer"] = "M1"; out.append((o, "C15.dispatch"))
    o = first(lambda o: o["kind"] == "in" and o["term"] not in QUIET and not o["nilrecv"] and len(o["errs"]) == 1)
    if o:
        o["case"] = "ctl-malformed"; o["errs"] = []; out.append((o, "C15.malformed"))
    return out


def replay_and_judge(ctx, cases):
    cp = ctx.path("netcases.ndjson")
    vlib.write_ndjson(cp, cases)
    b = ctx.go_bin("netx")
    op = ctx.path("netobs.ndjson")
    ctx.must_run_go(b, "TestReplay", env={"VERIF_CASES": cp, "VERIF_OUT": op})
    obs = vlib.read_ndjson(op) if os.path.exists(op) else []
    if len(obs) != len(cases):
        raise Inconclusive("netx wrote %d observations for %d cases" % (len(obs), len(cases)))
    ctl = controls(obs)
    jp = ctx.path("obs.ndjson")
    vlib.write_ndjson(jp, obs + [o for o, _ in ctl])
    n, verdicts = stages.judge(ctx, jp, module="NetJudge")
    if n != len(obs) + len(ctl):
        raise Inconclusive("judge saw %d observations, expected %d" % (n, len(obs) + len(ctl)))
    flagged = {(v["case"], v["rule"]) for v in verdicts}
    if not ctx.replay:
        if len(ctl) < 2:    # (a mutated tree may not produce the observations some controls are derived from)
            raise Inconclusive("judge self-test: only %d of 8 control observations could be built" % len(ctl))
        ctx.extra["judge_controls_flagged"] = [o["case"] for o, _ in ctl]
        for o, rule in ctl:
            if (o["case"], rule) not in flagged:
                raise Inconclusive("judge self-test: corrupted observation %s was not flagged by %s" % (o["case"], rule))
    verdicts = [v for v in verdicts if not v["case"].startswith("ctl-")]
    return obs, verdicts


def kinds(items):
    return ["restart" if s == "rx" else ("request" if s.startswith("req") else "response") for s in items]


def key_of(rule, c, o):
    if c["kind"] == "out":
        return {"rule": rule, "cancelAt": c["cancelAt"], "write": c["write"], "opened": "ok" in c["outs"],
                "lastAttempt": len(c["outs"]) >= max(1, c["max"])}
    items, term = c["items"], c["term"]
    if (rule in ("C15.dispatch", "conf") and not c["nilrecv"] and (len(items) >= 2 or (len(items) >= 1 and term != "eof"))
            and o["calls"] == [] and o["resets"] >= 1 and len(o["errs"]) == 1 and TRAILING in o["errs"][0]):
        return {"rule": rule, "class": "multiMessageStream", "observed": "noneDispatched+reset+trailingBytesError"}
    return {"rule": rule, "kinds": kinds(items) if len(items) <= 1 else "%d messages" % len(items),
            "term": term if term in QUIET else "malformed", "nilrecv": c["nilrecv"], "handlerCalls": len(o["calls"])}


def brief(c, o):
    if c["kind"] == "out":
        return {"case": c["case"], "max": c["max"], "msg": c["msg"], "script": c["ev"],
                "observed": {"newStream": [[n["t0"], n["t1"], n["res"]] for n in o["news"]], "tCancel": o["tCancel"], "tRet": o["tRet"],
                             "ret": o["ret"], "resets": o["resets"], "closes": o["closes"], "wrote": o["wrote"], "delivered": o["delivered"]}}
    return {"case": c["case"], "peer": c["peer"], "chunk": c["chunk"], "nilrecv": c["nilrecv"], "stream": c["items"] + [c["term"]],
            "observed": {"calls": o["calls"], "errs": o["errs"], "resets": o["resets"], "closes": o["closes"], "panics": o["panics"]}}


def run(ctx):
    ctx.rule = ("every complete behaviour of Net.tla (outbound: attempt outcomes ok/fail/hang x cancellation at every step x conversion x "
                "write ok/fail-at-once/fail-midway x reset x close, for every attempt cap; inbound: message sequences x terminators x read "
                "chunking x receiver present/absent) is replayed on the real network.NewFromLibp2pHost under synctest virtual time; "
                "C15.cap/successIff/once/prompt/writeFail/dispatch/malformed are evaluated by TLC on the observed NewStream log, virtual "
                "timestamps, stream operations, bytes on the wire and handler calls; non-trivial = behaviour with a failed/hung attempt, a "
                "cancellation, a write/reset/close failure, or an inbound stream with >= 1 message or a malformed terminator")
    ctx.assumptions += [
        "host.NewStream called with an already-done context fails at once (libp2p contract); a reset stream delivers nothing to the peer",
        "cancellation never coincides with the expiry of a backoff timer (cancel at Min/2 into a wait of >= Min); the jitter itself is not scripted: "
        "waits are only checked to lie in [Min, min(Max, Min*factor^k)]",
        "non-default protocol lists are outside the quantifier (suspect F9: unknown protocol id leaves `received` nil in handleNewStream); the "
        "model's conv:bad branch (stream with an unknown protocol) is replayed for conformance only - the stream is neither reset nor closed there",
        "decode safety for arbitrary bytes is C12's; here malformed = the 10 structured terminators of NetOps!BadTerms",
        "real libp2p streams are replaced by doubles at the host.Host / network.Stream boundary"]
    if ctx.replay:
        d = json.load(open(ctx.replay))
        cases = [d["detail"]["case"]]
    else:
        cases = run_models(ctx)
        ctx.exhaustive = True
    obs, verdicts = replay_and_judge(ctx, cases)
    cidx = {c["case"]: c for c in cases}
    oidx = {o["case"]: o for o in obs}
    drift = collections.OrderedDict()
    per_rule = collections.Counter()
    # shortest scripts first (well-formed endings before malformed ones): the replay file of a class is its simplest instance
    verdicts.sort(key=lambda v: (cidx[v["case"]].get("term", "eof") not in ("eof", "none"), len(cidx[v["case"]]["ev"]), v["case"], v["rule"]))
    for v in verdicts:
        c, o = cidx[v["case"]], oidx[v["case"]]
        if v["rule"] == "harness":
            raise Inconclusive("harness error in case %s: %s" % (v["case"], o.get("err")))
        if v["rule"] == "conf":
            k = vlib.canon(key_of("conf", c, o))
            if k not in drift:
                drift[k] = {"class": json.loads(k), "count": 0, "example": brief(c, o), "note": "observation differs from NetOps!OutRun/InRun on the script"}
            drift[k]["count"] += 1
            continue
        key = key_of(v["rule"], c, o)
        per_rule[v["rule"]] += 1
        if len({vlib.canon(x[0]) for x in ctx.viol if x[0].get("rule") == v["rule"]}) >= 12:
            continue    # enough distinct replays for this rule
        ctx.violation(key, "%s violated: %s" % (v["rule"], json.dumps(brief(c, o), sort_keys=True)[:900]),
                      detail={"case": c, "obs": o, "verdict": v, "harness": "netx TestReplay"})
    ctx.drift += list(drift.values())
    ctx.extra["failed_rule_instances"] = dict(per_rule)
    ctx.traces = len(obs)
    ctx.evaluations = len(obs)
    for c in cases:
        o = oidx[c["case"]]
        if c["kind"] == "out":
            if c["cancelAt"] != "none" or any(x != "ok" for x in c["outs"]) or c["write"] not in ("ok", "none") or "fail" in (c["reset"], c["close"]) or c["conv"] == "bad":
                ctx.distinct.add(("out", c["max"], tuple(c["outs"]), c["cancelAt"], c["cancelK"], c["conv"], c["write"], c["reset"], c["close"], o["ret"]))
        elif c["items"] or c["term"] not in QUIET or c["nilrecv"]:
            ctx.distinct.add(("in", tuple(c["items"]), c["term"], c["nilrecv"], c["chunk"] > 0, len(o["calls"]), o["resets"]))
    want = [lambda c: c["kind"] == "out" and c["cancelAt"] == "wait" and c["cancelK"] >= 2,
            lambda c: c["kind"] == "out" and c["write"] == "failMid",
            lambda c: c["kind"] == "out" and c["exp"]["ret"] == "nil" and len(c["outs"]) >= 3,
            lambda c: c["kind"] == "in" and c["items"] == ["rx"] and c["term"] == "eof",
            lambda c: c["kind"] == "in" and len(c["items"]) == 0 and c["term"] == "crossReq",
            lambda c: c["kind"] == "in" and c["nilrecv"]]
    for w in want:
        for c in cases:
            if "exp" in c and w(c):
                ctx.sample(brief(c, oidx[c["case"]]))
                break

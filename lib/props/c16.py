"""C16 Transport routes each graphsync event to its channel; none after cleanup.

spec/GsTOps.tla (step function of the adapter) + spec/GsT.tla (state machine, C16 formulas as action properties,
model-checked exhaustively) -> TLC-simulated behaviours + the model-level counterexample of the consumer-after-cleanup
suspect (F11) are replayed callback by callback on the REAL transport/graphsync.Transport over a fake GraphExchange
(harness gstx, synctest), seeded multi-goroutine callback storms are run on it (also under -race in the thorough tier),
and spec/GsTJudge.tla evaluates conformance and the C16 rules on what the real adapter did.
"""
import os, re, json, threading
from concurrent.futures import ThreadPoolExecutor
import vlib, stages
from vlib import Inconclusive

ALL_OPS = ["Open", "Close", "Pause", "Resume", "Cleanup", "UseStore", "Shutdown", "CancelRet", "Tick", "Consume", "OutReqHook", "InReq",
           "Processing", "InBlock", "OutBlock", "BlockSent", "Completed", "ReqUpdated", "InResp", "ReqCancelled", "SendErr", "RecvErr"]
NOSHUT = [o for o in ALL_OPS if o != "Shutdown"]
# operation mixes for the simulated behaviours (TLC picks the operation uniformly among the enabled ones of the mix)
MIXES = {
    "all": ALL_OPS,
    "noshut": NOSHUT,
    "restart": ["Open", "Close", "Resume", "Cleanup", "CancelRet", "Tick", "Consume", "InReq", "InBlock", "Completed", "ReqCancelled", "Pause", "UseStore"],
    "serve": ["InReq", "InReq", "Pause", "Resume", "Close", "Cleanup", "UseStore", "ReqCancelled", "OutBlock", "BlockSent", "Completed", "ReqUpdated", "Processing", "SendErr", "RecvErr"],
    "request": ["Open", "Consume", "CancelRet", "Tick", "Cleanup", "UseStore", "InBlock", "InResp", "Processing", "RecvErr", "Close", "OutReqHook"],
    "routing": ["Open", "InReq", "Cleanup", "Processing", "InBlock", "OutBlock", "BlockSent", "Completed", "ReqUpdated", "InResp", "SendErr", "RecvErr", "Consume"],
}
KINDS = [("pull", 1, "pull", 1), ("push", 1, "pull", 2), ("pull", 1, "push", 2), ("push", 2, "push", 1)]
RULES = ["C16.routed", "C16.silent", "C16.afterCleanup", "C16.wireOnly", "C16.currentReq", "C16.completedOnce", "C16.roleCheck", "C16.storeLifetime"]
CONSUMER_RULE = "C16.afterCleanup.consumer"
PROPS = ("C16_Routed C16_Silent C16_AfterCleanup C16_WireOnly C16_CurrentReq C16_CompletedOnce C16_RoleCheck C16_StoreLifetime "
         "C16_MapCleared C10_CancelFirst C10_PendingOnce")


def cfg_text(kind=KINDS[0], ops=ALL_OPS, max_req=3, max_pend=1, exhaustive=True, length=0, props=PROPS, record=False, req_peers=("P",)):
    ok, ot, ik, it = kind
    sset = stages.tla_set
    if exhaustive:
        body = dict(InPeers=sset(["P", "Q"]), ReqPeers=sset(req_peers), ReqTids="{1}" if ot == it else "{1,2}", UpdTids="{1}", AllH="FALSE",
                    Exts=sset(["none", "malformed", "req", "resp"]), Slots=sset(["both"]), HRets=sset(["nil", "pause", "err"]),
                    HMsgs=sset(["none", "resp"]), Ks="{2}", KNil="FALSE", Ms="{0,1001}", CRets=sset(["ok", "err"]),
                    LastErrs=sset(["none", "clientCancelled", "respCancelled", "other"]), Stats=sset(["full", "partial", "cancelled"]), Pick="FALSE")
    else:
        body = dict(InPeers=sset(["P", "Q"]), ReqPeers=sset(["P", "Q"]), ReqTids="{1,2}", UpdTids="{1,2}", AllH="TRUE",
                    Exts=sset(["none", "malformed", "req", "resp"]), Slots=sset(["dt", "inreq", "outblk", "both"]), HRets=sset(["nil", "pause", "err"]),
                    HMsgs=sset(["none", "resp"]), Ks="{0,2}", KNil="TRUE", Ms="{0,1001,1002}", CRets=sset(["ok", "notfound", "err"]),
                    LastErrs=sset(["none", "clientCancelled", "respCancelled", "other"]), Stats=sset(["full", "partial", "cancelled", "rejected"]), Pick="TRUE")
    lines = ["SPECIFICATION Spec"]
    if exhaustive:
        lines.append("VIEW View")
    lines += ["CONSTANTS", ' OutKind = "%s"' % ok, " OutTid = %d" % ot, ' InKind = "%s"' % ik, " InTid = %d" % it,
              " MaxReq = %d" % max_req, " MaxPend = %d" % max_pend, " Ops = %s" % sset(sorted(set(ops)))]
    lines += [" %s = %s" % kv for kv in body.items()]
    lines += [" Record = %s" % ("TRUE" if record else "FALSE"), " Len0 = %d" % length]
    if exhaustive:
        lines.append("INVARIANTS TypeOK")
        lines.append("PROPERTIES " + props)
    return "\n".join(lines) + "\n"


def model_check(ctx, name, **kw):
    cfg = stages.write_cfg(ctx, name + ".cfg", cfg_text(**kw))
    res = ctx.tlc("GsT", cfg, timeout=1500, heap="10g", workers=10 if ctx.quick() else (8 if kw.get("max_req", 3) >= 3 else 3))
    if res.timeout:
        raise Inconclusive("TLC timeout on GsT/%s" % name)
    if res.violated:
        raise Inconclusive("GsT model (%s) violates %s - the model misrepresents the adapter or a model-level counterexample "
                           "needs a replay case:\n%s" % (name, res.violated, res.out[-2500:]))
    vlib.tlc_must_pass(res, "GsT " + name)
    return res


def consumer_cex(ctx):
    """Model-level search for F11: the shortest behaviour in which the consumer of an outgoing request reports for a channel
    whose mapping is gone. A model counterexample is not a verdict: it becomes a replay case."""
    cfg = stages.write_cfg(ctx, "gst-cex.cfg", cfg_text(max_req=2, props="CexConsumer", record=True,
                                                       ops=["Open", "Close", "Cleanup", "Consume", "CancelRet", "Tick", "InReq", "UseStore"]))
    res = ctx.tlc("GsT", cfg, timeout=600, heap="6g", workers=1)
    if res.timeout:
        raise Inconclusive("TLC timeout on the consumer counterexample search")
    cases = stages.parse_cases(res.out, tag="@@cex")
    return res, cases


def simulate(ctx, mix, kind, n, length, seed):
    cfg = stages.write_cfg(ctx, "gst-sim-%s-%s%d%s%d.cfg" % (mix, kind[0], kind[1], kind[2], kind[3]),
                           cfg_text(kind=kind, ops=MIXES[mix], max_req=4, max_pend=2, exhaustive=False, length=length, record=True))
    res = ctx.tlc("GsT", cfg, workers=1, simulate="num=%d" % n, depth=length + 2, seed=seed, timeout=600, heap="3g")
    if res.timeout or "Error:" in res.out:
        raise Inconclusive("GsT simulation (%s) failed:\n%s" % (mix, res.out[-2000:]))
    return stages.parse_cases(res.out)


def pairs_stage(ctx, binpath):
    """spec/GsTPair.tla: overlap scenarios pre;(H||X);post tabulated by TLC, run on the real adapter (TestPairs), judged by TLC
    against the two sequential orders of GsTOps!Step. Returns (#scenarios, #overlapped, verdict rows, observations by case)."""
    gen = stages.write_cfg(ctx, "pair-gen.cfg", 'CONSTANTS\n Mode = "gen"\n ObsFile = "none.ndjson"\n OutFile = "paircases.ndjson"\n')
    res = ctx.tlc("GsTPair", gen, workers=1, timeout=300)
    vlib.tlc_must_pass(res, "GsTPair tabulation")
    cases = os.path.join(res.dir, "paircases.ndjson")
    if not os.path.exists(cases):
        raise Inconclusive("GsTPair produced no scenarios")
    obs = ctx.path("pairobs.ndjson")
    ctx.must_run_go(binpath, "TestPairs", env={"VERIF_CASES": cases, "VERIF_OUT": obs}, timeout=600)
    rows = vlib.read_ndjson(obs)
    if not rows:
        raise Inconclusive("gstx TestPairs wrote no observations")
    jc = stages.write_cfg(ctx, "pair-judge.cfg", 'CONSTANTS\n Mode = "judge"\n ObsFile = "pairobs.ndjson"\n OutFile = "pairverdicts.ndjson"\n')
    res2 = ctx.tlc("GsTPair", jc, workers=1, timeout=900, extra_files=[obs], heap="6g")
    vlib.tlc_must_pass(res2, "GsTPair judge")
    m = re.search(r'<<"@@judged", (\d+)>>', res2.out)
    if not m or int(m.group(1)) != len(rows):
        raise Inconclusive("GsTPair judge saw %s of %d pair observations" % (m.group(1) if m else "?", len(rows)))
    vp = os.path.join(res2.dir, "pairverdicts.ndjson")
    verdicts = vlib.read_ndjson(vp) if os.path.exists(vp) else []
    for v in verdicts:
        if v["rule"] == "harness":
            raise Inconclusive("pair harness error in %s" % v["case"])
    nover = len([r for r in rows if r["overlap"]])
    if nover * 2 < len(rows):
        raise Inconclusive("the handler gate achieved an overlap in only %d of %d pair scenarios" % (nover, len(rows)))
    return len(rows), nover, verdicts, {r["case"]: r for r in rows}


def pair_key(v):
    return {"rule": v["rule"], "pair": "InReq||" + v["op"], "reenter": v["reenter"]}


def pair_detail(v, o):
    def brief(s):
        return {"op": s["a"]["op"], "r": s["a"]["r"], "ret": s["ret"], "out": [(x["call"], "%s>%s#%d" % (x["c"]["init"], x["c"]["resp"], x["c"]["tid"])) for x in s["out"]],
                "gsc": [(g["call"], g["r"], g["ret"]) for g in s["gsc"]], "hook": [(h["a"], h["x"]) for h in s["hook"]]}
    return {"verdict": v, "pre": [brief(s) for s in o["pre"]], "h": brief(o["h"]), "x": brief(o["x"]), "post": [brief(s) for s in o["post"]],
            "reenter": o["reenter"], "overlap": o["overlap"], "stuck": o["stuck"], "stacks": o.get("stacks", ""), "opts_after": o["opts"]}


def race_reports(out):
    """(reports attributed to /repo packages, reports in harness code only) from a -race run's output."""
    reps = re.split(r"={10,}\n", out)
    repo, own = [], []
    for r in reps:
        if "DATA RACE" not in r:
            continue
        frames = re.findall(r"\n\s+(\S+\(.*?\))\n\s+(\S+\.go):(\d+)", r)
        lib = [f for f in frames if "go-data-transfer" in f[0] and "/harness/" not in f[1]]
        if lib:
            repo.append({"frames": ["%s %s:%s" % (f[0].split("(")[0], os.path.basename(f[1]), f[2]) for f in lib][:6]})
        else:
            own.append(r[:1500])
    return repo, own


def replay_only(ctx):
    """bin/check C16 --replay evidence/replays/C16-n.json : re-run exactly that script on the real adapter and judge it."""
    rp = json.load(open(ctx.replay))
    cd = (rp.get("detail") or {}).get("case_def")
    if not cd:
        raise Inconclusive("replay file has no script (storm findings are re-run by seed: VERIF_SEED=%s)" % rp.get("seed"))
    cp, obs, empty = ctx.path("case.ndjson"), ctx.path("obs.ndjson"), ctx.path("storm.ndjson")
    vlib.write_ndjson(cp, [cd])
    open(empty, "w").close()
    ctx.must_run_go(ctx.go_bin("gstx"), "TestReplay", env={"VERIF_CASES": cp, "VERIF_OUT": obs}, timeout=150, hang_rule="C16.callReturns")
    res = ctx.tlc("GsTJudge", "gst-judge.cfg", workers=1, timeout=300, extra_files=[obs, empty])
    vlib.tlc_must_pass(res, "GsTJudge")
    p = os.path.join(res.dir, "verdicts.ndjson")
    ctx.traces = 1
    for v in (vlib.read_ndjson(p) if os.path.exists(p) else []):
        if v["rule"] == "conf":
            ctx.drift.append(v)
        elif v["rule"] in ("harness", "script"):
            raise Inconclusive("replay: %s" % v)
        else:
            ctx.violation(key_of(v), "%s violated by %s (replayed case %s step %s)" % (v["rule"], v["op"], v["case"], v["i"]), detail={"verdict": v, "case_def": cd})


def key_of(v):
    if v["rule"] == CONSUMER_RULE:
        return {"rule": CONSUMER_RULE, "source": "executeGsRequest"}
    return {"rule": v["rule"], "op": v["op"]}


def run(ctx):
    q = ctx.quick()
    ctx.rule = ("replay: TLC-simulated behaviours of GsT.tla (every Transport method, every graphsync callback for known/unknown/"
                "foreign request ids, gs.Cancel returns, 1 s cap, request ends) executed step by step on the real Transport over a fake "
                "GraphExchange; storms: per-channel scripts + noise callbacks on several goroutines; every step / invocation is judged by "
                "GsTJudge (conformance + 8 C16 rules + the consumer rule); non-trivial = step that produced a handler call, a graphsync "
                "call or a hook action; distinct by (op, extension, result, #handler calls, #graphsync calls)")
    ctx.assumptions += [
        "graphsync contract: request ids are unique; the outgoing-request hook runs inside gs.Request; the incoming-request hook fires once per new request",
        "OnChannelOpened returns nil (its error path calls CleanupChannel under the channel lock held by OpenChannel: C20)",
        "Transport methods and callbacks are atomic in the replays except OpenChannel's cancel-and-wait; steps that would block on ch.lk are not scripted; "
        "CleanupChannel racing a parked OpenChannel is outside (C20)",
        "storm rules for noise callbacks are the interleaving-independent weakenings stated in GsTJudge.tla",
    ]
    seed = ctx.seed
    if ctx.replay:
        return replay_only(ctx)
    pool = ThreadPoolExecutor(max_workers=8)
    spool = ThreadPoolExecutor(max_workers=6)
    # 0. harness build (in the background while TLC works)
    fb = pool.submit(ctx.go_bin, "gstx")
    # 1. exhaustive model checking
    if q:
        exh = [("gst-exh-q", dict(kind=KINDS[0], max_req=2, ops=NOSHUT))]
    else:
        exh = [("gst-exh-3", dict(kind=KINDS[0], max_req=3, ops=NOSHUT)), ("gst-exh-q1", dict(kind=KINDS[0], max_req=2, req_peers=("P", "Q"))), ("gst-exh-q2", dict(kind=KINDS[3], max_req=2))]
    fe = [pool.submit(model_check, ctx, n, **kw) for n, kw in exh]
    fc = pool.submit(consumer_cex, ctx)
    # 2. behaviours
    n_per, length = (50, 16) if q else (80, 22)
    jobs = []
    k = 0
    for mi, mix in enumerate(MIXES):
        for ki, kind in enumerate(KINDS):
            if q and ki != (mi + seed) % len(KINDS):
                continue
            jobs.append((mix, kind, spool.submit(simulate, ctx, mix, kind, n_per if mix != "all" else n_per // 2, length, seed * 7919 + k)))
            k += 1
    cases = []
    for mix, kind, f in jobs:
        got = f.result()
        for i, c in enumerate(got):
            c["case"] = "sim-%s-%s%d%s%d-%d" % (mix, kind[0], kind[1], kind[2], kind[3], i)
            cases.append(c)
    if not cases:
        raise Inconclusive("no behaviours generated")
    cres, cex = fc.result()
    ctx.extra["model_consumer_cex"] = bool(cex)
    for i, c in enumerate(cex[:1]):
        c["case"] = "cex-consumer-%d" % i
        cases.append(c)
    for f in fe:
        res = f.result()
        ctx.add_model(res)
    ctx.exhaustive = True
    ctx.states += sum(len(c["steps"]) for c in cases)
    ctx.transitions += sum(len(c["steps"]) for c in cases)
    cp = ctx.path("gst-cases.ndjson")
    vlib.write_ndjson(cp, cases)
    # 3. replay on the real adapter
    b = fb.result()
    obs = ctx.path("gst-obs.ndjson")
    ctx.must_run_go(b, "TestReplay", env={"VERIF_CASES": cp, "VERIF_OUT": obs}, timeout=240, hang_rule="C16.callReturns")
    # 4. storms (and, thorough tier, the same storms under the race detector)
    storm = ctx.path("gst-storm.ndjson")
    nst = 8 if q else 40
    ctx.must_run_go(b, "TestStorm", env={"VERIF_OUT": storm, "VERIF_STORMS": nst}, timeout=300)
    storm_files = [storm]
    if not q or os.environ.get("VERIF_RACE") == "1":
        br = ctx.go_bin("gstx", race=True)
        storm_r = ctx.path("gst-storm-race.ndjson")
        r = ctx.run_go(br, "TestStorm", env={"VERIF_OUT": storm_r, "VERIF_STORMS": nst, "VERIF_RACE": "1", "GORACE": "halt_on_error=0"}, timeout=1200)
        repo_r, own_r = race_reports(r.stdout)
        ctx.extra["race"] = {"build": "-race", "storms": nst, "reports_in_repo_packages": len(repo_r), "sample": repo_r[:3],
                             "note": "a race attributed to /repo packages is a C20 matter, not a C16 verdict"}
        if own_r:
            raise Inconclusive("data race inside the harness itself:\n" + own_r[0])
        if r.returncode != 0 and not repo_r:
            raise Inconclusive("gstx TestStorm (-race) failed (rc=%d):\n%s" % (r.returncode, r.stdout[-4000:]))
        if os.path.exists(storm_r) and os.path.getsize(storm_r) > 0:
            rows = vlib.read_ndjson(storm_r)
            for s in rows:
                s["case"] = "race-" + s["case"]
            vlib.write_ndjson(storm_r, rows)
            storm_files.append(storm_r)
    allstorm = ctx.path("storm.ndjson")
    with open(allstorm, "w") as f:
        for p in storm_files:
            f.write(open(p).read())
    # 4b. overlap scenarios (atomicity assumption of GsT.tla): hook in its handler || Transport method on the same channel
    npair, nover, pverd, pobs = pairs_stage(ctx, b)
    ctx.extra["pair_scenarios"] = {"run": npair, "overlapped": nover}
    ctx.traces += npair
    ctx.evaluations += sum(2 + len(o["pre"]) + len(o["post"]) for o in pobs.values())
    for o in pobs.values():
        ctx.distinct.add(("pair", o["x"]["a"]["op"], o["h"]["a"]["ext"], o["reenter"], len(o["pre"]), o["x"]["ret"]))
    for v in pverd:
        if v["rule"] == "conf":
            ctx.drift.append({"case": v["case"], "op": "InReq||" + v["op"], "note": "pair outcome equals neither sequential order of GsTOps!Step"})
        elif v["rule"] == "nooverlap":
            continue
        elif v["rule"] == "C20.everyCallReturns":
            raise Inconclusive("the adapter did not return from %s concurrent with an incoming-request hook (case %s): a C20 matter, nothing more can be "
                               "asked of this adapter\n%s" % (v["op"], v["case"], pobs[v["case"]].get("stacks", "")[:1500]))
        else:
            ctx.violation(pair_key(v), "%s violated by an incoming-request hook overlapping %s (handler re-entry: %s; case %s)" % (v["rule"], v["op"], v["reenter"], v["case"]),
                          detail=pair_detail(v, pobs[v["case"]]))
    # 5. judge (two TLC processes: replays, storms)
    empty = ctx.path("empty.ndjson")
    open(empty, "w").close()

    def judge(obs_p, storm_p, tag):
        d = ctx.path("judge-" + tag)
        os.makedirs(d, exist_ok=True)
        import shutil
        shutil.copy(obs_p, os.path.join(d, "obs.ndjson"))
        shutil.copy(storm_p, os.path.join(d, "storm.ndjson"))
        res = ctx.tlc("GsTJudge", "gst-judge.cfg", workers=1, timeout=1500, heap="8g",
                      extra_files=[os.path.join(d, "obs.ndjson"), os.path.join(d, "storm.ndjson")])
        vlib.tlc_must_pass(res, "GsTJudge " + tag)
        m = re.search(r'<<"@@judged", (\d+), (\d+)>>', res.out)
        if not m:
            raise Inconclusive("judge did not report the number of cases")
        p = os.path.join(res.dir, "verdicts.ndjson")
        return int(m.group(1)), int(m.group(2)), (vlib.read_ndjson(p) if os.path.exists(p) else [])

    j1 = pool.submit(judge, obs, empty, "replay")
    j2 = pool.submit(judge, empty, allstorm, "storm")
    n1, _, v1 = j1.result()
    _, n2, v2 = j2.result()
    pool.shutdown()
    spool.shutdown()
    obs_idx = stages.index_obs(obs)
    storm_rows = vlib.read_ndjson(allstorm)
    if n1 != len(obs_idx) or n1 != len(cases):
        raise Inconclusive("judge saw %d replay cases, harness wrote %d, generated %d" % (n1, len(obs_idx), len(cases)))
    if n2 != len(storm_rows):
        raise Inconclusive("judge saw %d storms, harness wrote %d" % (n2, len(storm_rows)))
    ctx.traces += n1 + n2
    # 6. verdicts
    storm_idx = {s["case"]: s for s in storm_rows}
    # per case and rule only the first failing step (later ones are usually consequences of the first)
    first = {}
    for v in v1 + v2:
        k = (v["case"], v["rule"])
        if k not in first or (v["case"] not in storm_idx and v["i"] < first[k]["i"]):
            first[k] = v
    for v in sorted(first.values(), key=lambda v: (v["case"], v["i"], v["rule"])):
        rule = v["rule"]
        is_storm = v["case"] in storm_idx
        detail = {"verdict": v}
        if not is_storm:
            c = obs_idx.get(v["case"], {"steps": []})
            upto = [s for s in c["steps"] if s["i"] <= v["i"]]
            detail["case_def"] = {"case": v["case"], "c1": c.get("c1", {}), "c2": c.get("c2", {}), "steps": [s["a"] for s in upto]}
            detail["script"] = [dict((k, x) for k, x in s["a"].items() if x not in ("", 0, -1, "nil", "none") and x != {"init": "", "resp": "", "tid": 0}) for s in upto]
            detail["observed"] = dict((k, upto[-1][k]) for k in ("ret", "opret", "out", "gsc", "hook", "opts")) if upto else None
        if rule == "harness":
            raise Inconclusive("harness error in %s step %s: %s" % (v["case"], v["i"], v.get("ret")))
        if rule == "script":
            raise Inconclusive("script step not enabled in the model: %s step %s (%s)" % (v["case"], v["i"], v["op"]))
        if rule == "conf":
            ctx.drift.append({"case": v["case"], "i": v["i"], "op": v["op"], "ext": v["ext"], "ret": v["ret"],
                              "note": "real adapter's outputs differ from GsTOps!Step"})
            continue
        if rule == CONSUMER_RULE:
            what = ("%s: executeGsRequest reported %s for a channel after CleanupChannel (case %s step %s)"
                    % (rule, "OnRequestCancelled" if v["st"] in ("clientCancelled", "OnRequestCancelled") else "OnChannelCompleted", v["case"], v["i"]))
        else:
            what = "%s violated by %s (case %s step %s)" % (rule, v["op"], v["case"], v["i"])
        ctx.violation(key_of(v), what, detail=detail)
    # 7. evidence
    for c in obs_idx.values():
        for s in c["steps"]:
            ctx.evaluations += 1
            if s["out"] or s["gsc"] or s["hook"]:
                ctx.distinct.add((s["a"]["op"], s["a"]["ext"], s["ret"], len(s["out"]), len(s["gsc"]), s["a"]["hret"]))
    for s in storm_rows:
        for ch in s["chans"]:
            ctx.evaluations += len(ch["steps"])
        ctx.evaluations += len(s["noise"])
    ctx.extra.update({"replay_cases": n1, "storms": n2, "consumer_rule_hits": len([v for v in v1 + v2 if v["rule"] == CONSUMER_RULE]),
                      "rules": RULES + [CONSUMER_RULE]})
    for c in list(obs_idx.values())[:2]:
        ctx.sample({"kind": "replay", "case": c["case"],
                    "steps": [(s["a"]["op"], s["a"]["r"], s["ret"], [(o["call"], "%s>%s#%d" % (o["c"]["init"], o["c"]["resp"], o["c"]["tid"])) for o in s["out"]],
                               [(g["call"], g["r"]) for g in s["gsc"]]) for s in c["steps"]]})
    for c in cex[:1]:
        ctx.sample({"kind": "model counterexample (CexConsumer) replayed", "steps": [(a["op"], a.get("r"), a.get("st")) for a in c["steps"]]})

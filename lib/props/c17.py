"""C17 Subscribers see every applied event once, in order, with resulting state."""
import stages, chancfg, vlib

Z = {"delta": 0, "index": 0, "unique": False, "limit": 0, "flag": False, "err": "", "v": ""}
NOMSG = {"isReq": False, "kind": "none", "tid": 0, "pull": False, "paused": False, "accepted": False, "v": "", "base": "", "sel": "", "ri": "", "rr": "", "rt": 0}
VAL = {"err": False, "accepted": True, "vres": "", "force": False, "limit": 0, "reqFin": False}


def stim(kind, c, **kw):
    s = {"kind": kind, "c": c, "from": "B", "to": "B", "msg": dict(NOMSG), "val": dict(VAL), "sendFail": [], "openFail": False, "args": dict(Z), "rereg": True, "tidOf": ""}
    for k, v in kw.items():
        if k == "msg":
            s["msg"].update(v)
        elif k == "args":
            s["args"].update(v)
        else:
            s[k] = v
    return s


def resp(kind, **kw):
    m = {"isReq": False, "kind": kind}
    m.update(kw)
    return m


def gen(ctx, n):
    cases = []
    for i in range(n):
        rng = ctx.rng
        steps = [stim("OpenPushSub" if rng.random() < 0.5 else "OpenPullSub", "c1"),
                 stim("RecvRequest", "c2", msg={"isReq": True, "kind": "New", "tid": 7, "pull": rng.random() < 0.5, "v": "v0", "base": "base", "sel": "s"},
                      val={"err": False, "accepted": True, "vres": rng.choice(["", "r1"]), "force": False, "limit": rng.choice([0, 5]), "reqFin": rng.random() < 0.3})]
        if rng.random() < 0.5:
            steps.append(stim("OpenPullSub", "c4"))
        # in half of the cases the counterparty opens a channel towards us that RE-USES the transfer id of the transfer we opened (c1): a different
        # channel (other initiator), whose events are not c1's and whose end must not end c1's per-transfer subscription
        twin = rng.random() < 0.5
        if twin:
            steps.append(stim("RecvRequest", "c5", tidOf="c1", msg={"isReq": True, "kind": "New", "tid": 0, "pull": rng.random() < 0.5, "v": "v0", "base": "base", "sel": "s"}))
        L = rng.randint(8, 22)
        idx = {"c1": 0, "c2": 0, "c3": 0, "c4": 0, "c5": 0}
        for _ in range(L):
            c = rng.choice(["c1", "c1", "c2", "c2", "c3"] + (["c4"] if any(s["c"] == "c4" for s in steps) else []) + (["c5", "c5"] if twin else []))
            init = c in ("c1", "c3", "c4")
            pool = ["OnChannelOpened", "OnTransferInitiated", "OnRequestDisconnected", "OnSendDataError", "Pause", "Resume", "data", "data", "data", "OnChannelCompleted", "invalid"]
            if init:
                pool += ["accept", "accept", "SendVoucher", "respComplete", "respVR", "respPause", "Close"]
            else:
                pool += ["SendVoucherResult", "UpdateValidation", "reqVoucher", "reqPause", "CloseErr", "reqCancel"]
            k = rng.choice(pool)
            if k == "data":
                idx[c] += 1
                op = rng.choice(["OnDataQueued", "OnDataSent", "OnDataReceived"])
                steps.append(stim(op, c, args={"delta": rng.randint(1, 3), "index": max(1, idx[c] - rng.choice([0, 0, 1])), "unique": rng.random() < 0.85}))
            elif k == "accept":
                steps.append(stim("OnResponseReceived", c, msg=resp("New", accepted=True, v=rng.choice(["", "r1"]))))
            elif k == "respComplete":
                steps.append(stim("OnResponseReceived", c, msg=resp("Complete", accepted=True, paused=rng.random() < 0.3)))
            elif k == "respVR":
                steps.append(stim("OnResponseReceived", c, msg=resp("VoucherResult", accepted=True, v="r3")))
            elif k == "respPause":
                steps.append(stim("OnResponseReceived", c, msg=resp("Update", paused=rng.random() < 0.5)))
            elif k == "reqVoucher":
                steps.append(stim("RecvRequest", c, tidOf="c1" if c == "c5" else "", msg={"isReq": True, "kind": "Voucher", "tid": 0 if c == "c5" else 7, "v": "v4"}))
            elif k == "reqPause":
                steps.append(stim("RecvRequest", c, tidOf="c1" if c == "c5" else "", msg={"isReq": True, "kind": "Update", "tid": 0 if c == "c5" else 7, "paused": rng.random() < 0.5}))
            elif k == "reqCancel":
                steps.append(stim("RecvRequest", c, tidOf="c1" if c == "c5" else "", msg={"isReq": True, "kind": "Cancel", "tid": 0 if c == "c5" else 7}))
            elif k == "invalid":   # an event that is invalid in most statuses: must not be announced
                steps.append(stim("OnResponseReceived" if init else "RecvRequest", c, tidOf="c1" if c == "c5" else "",
                                  msg=resp("Update", paused=True) if init else {"isReq": True, "kind": "Update", "tid": 0 if c == "c5" else 7, "paused": True}))
            elif k in ("SendVoucher",):
                steps.append(stim(k, c, msg={"v": "v4"}, sendFail=[True] if rng.random() < 0.2 else []))
            elif k in ("SendVoucherResult",):
                steps.append(stim(k, c, msg={"v": "r4"}))
            elif k == "UpdateValidation":
                steps.append(stim(k, c, val={"err": False, "accepted": rng.random() < 0.8, "vres": rng.choice(["", "r1"]), "force": False, "limit": rng.choice([0, 9]), "reqFin": False}))
            elif k in ("OnRequestDisconnected", "OnSendDataError", "CloseErr"):
                steps.append(stim(k, c, args={"err": "e1"}))
            else:
                steps.append(stim(k, c))
        nst = len(steps)
        subs = [{"name": "g1", "from": 0, "until": 0}]
        a = rng.randint(1, nst)
        subs.append({"name": "g2", "from": a, "until": rng.choice([0, rng.randint(a, nst)])})
        b = rng.randint(0, nst // 2)
        subs.append({"name": "g3", "from": b, "until": rng.randint(max(b, 1), nst)})
        ident3 = {"self": "A", "initiator": "A", "responder": "B", "sender": "B", "recipient": "A", "tid": 3, "base": "base", "sel": "s"}
        rec3 = {"status": "Ongoing", "ip": False, "rp": False, "queued": 0, "sent": 0, "received": 0, "qIdx": 0, "sIdx": 0, "rIdx": 0, "limit": 0, "reqFin": False, "msg": "", "vouchers": ["v0"], "results": []}
        cases.append({"case": "subs%d" % i, "self": "A", "types": ["vt"], "chans": [{"name": "c3", "ident": ident3, "rec": rec3}], "subs": subs, "steps": steps})
    return cases


def run(ctx):
    ctx.rule = ("Chan.tla (2 channels, FIFO notification queue): C17_InOrder, C17_Snapshots, C17_Complete; channel-engine cells/histories judged for one-notification-per-applied-event, snapshot = persisted "
                "record, no invalid event announced; real manager with 3-4 channels, a reference subscriber, global subscribers with random subscribe/unsubscribe points and per-transfer subscribers: every "
                "subscriber's log must equal the reference log restricted to its window/channel and the reference log must match the datastore write log per channel (C17Judge); "
                "non-trivial = case (distinct by #events, #subscribers, windows) and applied-event step")
    ctx.assumptions += ["release of the per-transfer subscription table entry at termination is not observable through the API (only 'no callback after terminal' is checked)"]
    res = stages.model_chan(ctx, chancfg.chan_cfg(chans=("c1", "c2"), init=("c1",), ops=["Accept", "Cancel", "Disconnected", "PauseInitiator", "NewVoucherResult", "FinishTransfer", "Complete"],
                                                  max_ops=3 if ctx.quick() else 4, guard="any", invariants=["TypeOK", "C17_InOrder", "C17_Snapshots"],
                                                  properties=[] if ctx.quick() else ["C17_Complete"]), "chan-c17")
    if res.violated:
        raise vlib.Inconclusive("Chan model violates %s\n%s" % (res.violated, res.out[-1500:]))
    vlib.tlc_must_pass(res, "Chan C17")
    ctx.add_model(res)
    stages.chan_family(ctx, ["C17."], lambda s: len(s["puts"]) > 0)
    cases = gen(ctx, 40 if ctx.quick() else 500)
    cp = ctx.path("subs.ndjson")
    vlib.write_ndjson(cp, cases)
    b = ctx.go_bin("mgrx")
    out = ctx.path("subsobs.ndjson")
    ctx.must_run_go(b, "TestSubs", env={"VERIF_CASES": cp, "VERIF_OUT": out}, timeout=1200)
    n, verdicts = stages.judge(ctx, out, module="C17Judge")
    idx = stages.index_obs(out)
    for v in verdicts:
        c = idx[v["case"]]
        if v["rule"] == "harness":
            raise vlib.Inconclusive("harness error in %s: %s" % (v["case"], c.get("err")))
        ctx.violation({"rule": v["rule"], "mode": "manager-subscribers"}, "%s violated (case %s)" % (v["rule"], v["case"]),
                      detail={"verdict": v, "ref": [(e["chid"], e["ev"]) for e in c["ref"]], "subs": [(s["name"], s["kind"], s["a"], s["b"], [(e["chid"][-3:], e["ev"]) for e in s["entries"]]) for s in c["subs"]]})
    for c in idx.values():
        ctx.traces += 1
        ctx.evaluations += len(c["ref"])
        ctx.distinct.add((len(c["ref"]), len(c["subs"]), tuple((s["a"], s["b"]) for s in c["subs"])))
    ctx.extra["subscriber_cases"] = n
    for c in list(idx.values())[:1]:
        ctx.sample({"kind": "subscribers", "case": c["case"], "ref": [(e["chid"][-2:], e["ev"]) for e in c["ref"]][:25], "windows": [(s["name"], s["kind"], s["a"], s["b"], len(s["entries"])) for s in c["subs"]]})
    # a subscriber that stays in one callback for a long (virtual) time while further events are applied: the others still get every event, in order
    ss = ctx.path("slowsub.ndjson")
    ctx.must_run_go(b, "TestSlowSubscriber", env={"VERIF_OUT": ss}, timeout=600)
    nss, ssv = stages.judge(ctx, ss, module="EqualsJudge")
    sidx = stages.index_obs(ss)
    for v in ssv:
        c = sidx[v["case"]]
        if v["rule"] == "harness":
            raise vlib.Inconclusive("TestSlowSubscriber: " + c["err"])
        ctx.violation({"rule": v["rule"], "scenario": v["op"]}, "%s violated (%s): a subscriber registered after a slow one saw the events in another order than they were applied (%d positions differ)" % (
            v["rule"], v["case"], c["left"]), detail=c)
    for c in sidx.values():
        ctx.traces += 1
        ctx.evaluations += 1
        ctx.distinct.add(("slowsub", c["case"]))
    if not ctx.quick():
        # the repository's own 275 tests, run with the trace hook: every transition they execute is judged
        stages.repo_suite_traces(ctx, ["C17."])

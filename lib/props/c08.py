"""C08 Data limits stop the transfer at the limit until it is re-validated."""
import stages, chancfg, vlib

def run(ctx):
    ctx.rule = ("Acct.tla (limit crossing under all reporter interleavings: PauseIff/PauseFx/NoEarlyPause); channel cells + TLC-simulated histories with limit schedules, SetDataLimit and reopen "
                "(C08.pauseAt/pauseFx/setLimit in ChanJudge); manager cases: OnDataQueued/OnDataReceived at exact-hit/overshoot/below boundaries, UpdateValidationStatus with every outcome on every "
                "status (C08.tellInitiator/pauseAt/resumeRule, C04.rejectedUpdateFails in MgrJudge); non-trivial = data report or validation update step")
    ctx.assumptions += ["'no further payload progresses while paused' relies on the transport honouring Pause (checked on the real adapter/graphsync in the C01 runs)"]
    res = ctx.tlc("Acct", "acct-quick.cfg" if ctx.quick() else "acct-full.cfg", timeout=1500, heap="8g")
    if res.violated:
        raise vlib.Inconclusive("Acct model violates %s\n%s" % (res.violated, res.out[-1500:]))
    vlib.tlc_must_pass(res, "Acct")
    ctx.add_model(res)
    variants = {"limit": ["Accept", "TransferInitiated", "DataQueued", "DataReceived", "SetDataLimit", "PauseResponder", "ResumeResponder", "SetRequiresFinalization", "Restart"]}
    stages.chan_family(ctx, ["C08."], lambda s: s["op"] in ("DataQueued", "DataReceived", "SetDataLimit"), seq_variants=variants, seq_roles=["respPush", "respPull"],
                       seqs_quick=(12, 16), seqs_thorough=(150, 26))
    stages.mgr_family(ctx, ["C08.", "C04.rejectedUpdateFails"], ["all"], lambda s: s["stim"]["kind"] in ("OnDataQueued", "OnDataReceived", "UpdateValidation"),
                      quick_n=3000, model=not ctx.quick(), sims=False, invariants=["M_C04_Faithful"], keep=lambda l: any(k in l for k in ('"kind":"UpdateValidation"', '"kind":"OnDataQueued"', '"kind":"OnDataReceived"')))
    # transport level, real manager + real graphsync adapter: the re-validation's resume must be the last word the request hears
    b = ctx.go_bin("lockx")
    out = ctx.path("cbrace.ndjson")
    ctx.must_run_go(b, "TestCallbackRace", env={"VERIF_OUT": out}, timeout=300)
    n, verdicts = stages.judge(ctx, out, module="CbRaceJudge")
    idx = stages.index_obs(out)
    for v in verdicts:
        c = idx[v["case"]]
        if v["rule"] == "harness":
            raise vlib.Inconclusive("TestCallbackRace: " + c["err"])
        ctx.violation({"rule": v["rule"], "mode": v["op"]}, "%s violated (%s): transport instructions %s, channel says responder paused=%s" % (v["rule"], v["op"], c["order"], c["rpView"]), detail=c)
    for c in idx.values():
        ctx.traces += 1
        ctx.evaluations += 1
        ctx.distinct.add(("cbrace", c["mode"], tuple(c["order"])))

"""C08 Data limits stop the transfer at the limit until it is re-validated."""
import stages, chancfg, vlib

def run(ctx):
    ctx.rule = ("Acct.tla (limit crossing under all reporter interleavings: PauseIff/PauseFx/NoEarlyPause); channel cells + TLC-simulated histories with limit schedules, SetDataLimit and reopen "
                "(C08.pauseAt/pauseFx/setLimit in ChanJudge); manager cases: OnDataQueued/OnDataReceived at exact-hit/overshoot/below boundaries, UpdateValidationStatus with every outcome on every "
                "status (C08.tellInitiator/pauseAt/resumeRule, C04.rejectedUpdateFails in MgrJudge); non-trivial = data report or validation update step")
    ctx.assumptions += ["'no further payload progresses while paused' relies on the transport honouring Pause (checked on the real adapter/graphsync in the C01 runs)"]
    res = ctx.tlc("Acct", "acct-quick.cfg" if ctx.quick() else "acct-full.cfg", timeout=1500, heap="8g")
    if res.violated:
        raise vlib.Inconclusive("Acct model violates %s\n%s" % (res.violated, res.out[-1500:]))
    vlib.tlc_must_pass(res, "Acct")
    ctx.add_model(res)
    variants = {"limit": ["Accept", "TransferInitiated", "DataQueued", "DataReceived", "SetDataLimit", "PauseResponder", "ResumeResponder", "SetRequiresFinalization", "Restart"]}
    stages.chan_family(ctx, ["C08."], lambda s: s["op"] in ("DataQueued", "DataReceived", "SetDataLimit"), seq_variants=variants, seq_roles=["respPush", "respPull"],
                       seqs_quick=(12, 16), seqs_thorough=(150, 26))
    # limit schedules across an engine restart: the limit is (re)set BEFORE the first block report after the reopen, so the
    # progress the limit is measured against has to come from the durable record, not from a fresh cache entry
    sched = []
    ZA = {"delta": 0, "index": 0, "unique": False, "limit": 0, "flag": False, "err": "", "v": ""}
    for role, op in (("respPull", "DataQueued"), ("respPush", "DataReceived")):
        ident = {"self": "A", "initiator": "B", "responder": "A", "sender": "A" if role == "respPull" else "B", "recipient": "B" if role == "respPull" else "A", "tid": 0, "base": "base", "sel": "s"}
        for l0 in (0, 4):
            for l1 in (3, 4, 6, 0):
                for d1 in (1, 3):
                    for d2 in (1, 2, 3):
                        for reopen in (True, False):
                            for setfirst in (True, False):
                                st = [("Accept", {}), ("TransferInitiated", {})]
                                if l0:
                                    st.append(("SetDataLimit", {"limit": l0}))
                                st.append((op, {"delta": d1, "index": 1, "unique": True}))
                                if reopen:
                                    st.append(("reopen", {}))
                                nxt = [("SetDataLimit", {"limit": l1}), (op, {"delta": d2, "index": 2, "unique": True})]
                                st += nxt if setfirst else nxt[::-1]
                                st.append((op, {"delta": 2, "index": 3, "unique": True}))
                                sched.append({"case": "limsched-%d" % len(sched), "chans": [{"name": "c1", "ident": dict(ident, tid=300000 + len(sched)), "rec": None}],
                                              "steps": [{"c": "c1", "op": o, "args": dict(ZA, **a)} for o, a in st]})
    if ctx.quick():
        ctx.rng.shuffle(sched)
        sched = sched[:120]
    zr = {"status": "Requested", "ip": False, "rp": False, "queued": 0, "sent": 0, "received": 0, "qIdx": 0, "sIdx": 0, "rIdx": 0, "limit": 0, "reqFin": False, "msg": "",
          "vouchers": ["v0"], "results": []}
    for c in sched:
        c["chans"][0]["rec"] = zr
    cp = ctx.path("limsched.ndjson")
    vlib.write_ndjson(cp, sched)
    obs = stages.run_scripts(ctx, cp)
    n3, v3 = stages.judge(ctx, obs)
    idx3 = stages.index_obs(obs)
    stages.classify(ctx, v3, ["C08."], idx3, "limit schedule: ")
    stages.count_cases(ctx, idx3, lambda s: s["op"] in ("DataQueued", "DataReceived", "SetDataLimit"))
    ctx.traces += n3
    ctx.extra["limit_schedules"] = n3
    stages.mgr_family(ctx, ["C08.", "C04.rejectedUpdateFails"], ["all"], lambda s: s["stim"]["kind"] in ("OnDataQueued", "OnDataReceived", "UpdateValidation"),
                      quick_n=3000, model=not ctx.quick(), sims=False, invariants=["M_C04_Faithful"], keep=lambda l: any(k in l for k in ('"kind":"UpdateValidation"', '"kind":"OnDataQueued"', '"kind":"OnDataReceived"')))
    if not ctx.quick():
        # two-node replays of Sys.tla behaviours (limit schedules) on two real managers, every step judged by the manager judge
        from props import c01 as _c01
        _c01.sys_replay(ctx, prefixes=["C08."], n_thorough=60)
    # transport level, real manager + real graphsync adapter: the re-validation's resume must be the last word the request hears
    b = ctx.go_bin("lockx")
    out = ctx.path("cbrace.ndjson")
    ctx.must_run_go(b, "TestCallbackRace", env={"VERIF_OUT": out}, timeout=300)
    n, verdicts = stages.judge(ctx, out, module="CbRaceJudge")
    idx = stages.index_obs(out)
    for v in verdicts:
        c = idx[v["case"]]
        if v["rule"] == "harness":
            raise vlib.Inconclusive("TestCallbackRace: " + c["err"])
        ctx.violation({"rule": v["rule"], "mode": v["op"]}, "%s violated (%s): transport instructions %s, channel says responder paused=%s" % (v["rule"], v["op"], c["order"], c["rpView"]), detail=c)
    for c in idx.values():
        ctx.traces += 1
        ctx.evaluations += 1
        ctx.distinct.add(("cbrace", c["mode"], tuple(c["order"])))

"""C13 Stored channels survive schema migration unchanged (datastore v2 -> v3)."""
import os, json, shutil, re
import vlib
from vlib import Inconclusive

LIVE_MENU = [
    ("DataReceived", {"delta": 2, "index": 9, "unique": True}), ("DataReceived", {"delta": 2, "index": 1, "unique": True}),
    ("DataReceived", {"delta": 5, "index": 9, "unique": True}),
    ("DataQueued", {"delta": 2, "index": 9, "unique": True}), ("DataQueued", {"delta": 3, "index": 9, "unique": False}),
    ("DataSent", {"delta": 2, "index": 9, "unique": True}),
    ("Open", {}), ("Accept", {}), ("ChannelOpened", {}), ("TransferInitiated", {}), ("Restart", {}), ("CompleteCleanupOnRestart", {}),
    ("PauseInitiator", {}), ("PauseResponder", {}), ("ResumeInitiator", {}), ("ResumeResponder", {}), ("Complete", {}), ("FinishTransfer", {}),
    ("ResponderCompletes", {}), ("ResponderBeginsFinalization", {}), ("BeginFinalizing", {}), ("Cancel", {}),
    ("Error", {"err": "e1"}), ("Disconnected", {"err": "e1"}), ("RequestCancelled", {"err": "e1"}), ("SendDataError", {"err": "e1"}),
    ("ReceiveDataError", {"err": "e1"}),
    ("NewVoucher", {"v": "v4"}), ("NewVoucherResult", {"v": "r4"}), ("SetDataLimit", {"limit": 9}), ("SetDataLimit", {"limit": 0}),
    ("SetRequiresFinalization", {"flag": True}), ("SetRequiresFinalization", {"flag": False}),
]
# ops that resume a migrated paused channel come first in the draw for the deprecated statuses
ZERO_ARGS = {"delta": 0, "index": 0, "unique": False, "limit": 0, "flag": False, "err": "", "v": ""}
PRE_CHAN = ["GetByID", "HasChannel", "InProgress", "CreateNew", "Open", "Accept", "Restart", "DataReceived", "DataQueued", "DataSent",
            "PauseInitiator", "ResumeResponder", "NewVoucher", "NewVoucherResult", "SetDataLimit", "SetRequiresFinalization",
            "Complete", "FinishTransfer", "Cancel", "Error", "Disconnected", "CompleteCleanupOnRestart"]
PRE_MGR = ["ChannelState", "TransferChannelStatus", "InProgressChannels", "OpenPushDataChannel", "OpenPullDataChannel", "SendVoucher",
           "SendVoucherResult", "CloseDataTransferChannel", "PauseDataTransferChannel", "ResumeDataTransferChannel",
           "RestartDataTransferChannel", "UpdateValidationStatus", "OnChannelOpened", "OnDataReceived", "OnRequestCancelled",
           "OnChannelCompleted"]
ALL_STATUSES = 19


def args(a):
    d = dict(ZERO_ARGS)
    d.update(a)
    return d


def rot(lst, start, k):
    return [lst[(start + i) % len(lst)] for i in range(k)]


def build_cases(ctx, rows, life):
    """Group the tabulated v2 records into stores of 0..3 channels with 0..2 restarts and attach a lifecycle
    schedule, refused-operation subsets and live steps. Every random choice comes from ctx.rng (VERIF_SEED)."""
    rng = ctx.rng
    rows = sorted(rows, key=lambda r: r["id"])
    if ctx.quick():
        by_status = {}
        for r in rows:
            by_status.setdefault(r["r2"]["status"], []).append(r)
        if len(by_status) != ALL_STATUSES:
            raise Inconclusive("table has %d statuses, expected %d" % (len(by_status), ALL_STATUSES))
        picked = {}
        for s in sorted(by_status):                       # every status at least 3 times
            for r in rng.sample(by_status[s], 3):
                picked[r["id"]] = r
        for r in rng.sample(rows, 600):
            picked[r["id"]] = r
        rows = [picked[k] for k in sorted(picked)]
    rng.shuffle(rows)
    good = sorted([l for l in life if l["fault"] == "none"], key=lambda l: json.dumps(l, sort_keys=True))
    bad = sorted([l for l in life if l["fault"] != "none"], key=lambda l: json.dumps(l, sort_keys=True))
    rng.shuffle(good)
    rng.shuffle(bad)
    cases = []

    def add(chans, restarts, version, lf):
        k = len(cases)
        live = []
        names = [c["name"] for c in chans]
        if names:
            steps = [rng.choice(LIVE_MENU) for _ in range(2 + restarts)]
            seq = [steps[0], steps[1]]
            for r in range(restarts):
                seq += ["reopen", steps[2 + r]]
            j = 0
            for s in seq:
                if s == "reopen":
                    live.append({"c": "", "op": "reopen", "args": args({})})
                else:
                    live.append({"c": names[j % len(names)], "op": s[0], "args": args(s[1])})
                    j += 1
        else:
            live = [{"c": "", "op": "reopen", "args": args({})} for _ in range(restarts)]
        cases.append({"case": "s%d" % k, "self": "A", "version": version, "restarts": restarts, "chans": chans, "life": lf, "live": live,
                      "preChan": rot(PRE_CHAN, 5 * k, 6), "preMgr": rot(PRE_MGR, 3 * k, 5)})

    def life_for(k):
        if k % 8 == 7:
            return bad[(k // 8) % len(bad)]
        return good[k % len(good)]

    # empty stores: with and without a version key
    for restarts in (0, 1, 2):
        for version, faults in (("2", ("none", "queryErr", "badRecord")), ("", ("none", "queryErr"))):
            for f in faults:
                cand = [l for l in (good if f == "none" else bad) if l["fault"] == f]
                add([], restarts, version, cand[len(cases) % len(cand)])
    i, size = 0, 1 + rng.randrange(3)
    while i < len(rows):
        chunk = rows[i:i + size]
        i += size
        chans = [{"name": "c%d" % (j + 1), "id": r["id"], "ident": r["ident"], "r2": r["r2"], "stageLog": r["stageLog"]} for j, r in enumerate(chunk)]
        k = len(cases)
        add(chans, k % 3, "2", life_for(k))
        size = size % 3 + 1
    return cases


def judge(ctx, obs_path):
    d_obs = ctx.path("obs.ndjson")
    if os.path.abspath(obs_path) != os.path.abspath(d_obs):
        shutil.copy(obs_path, d_obs)
    res = ctx.tlc("MigJudge", "mig-judge.cfg", workers=1, timeout=1500, extra_files=[d_obs], heap="8g")
    vlib.tlc_must_pass(res, "MigJudge")
    m = re.search(r'<<"@@judged", (\d+)>>', res.out)
    if not m:
        raise Inconclusive("MigJudge did not report the number of cases")
    p = os.path.join(res.dir, "verdicts.ndjson")
    return int(m.group(1)), (vlib.read_ndjson(p) if os.path.exists(p) else [])


def run(ctx):
    ctx.rule = ("rows: every (v2 status x counters x limit x finalization flag x 0-2 vouchers x 0-2 results x stage log x message x peer class) "
                "record of Mig.tla's table, written as an independently encoded /2/ record, grouped into stores of 0-3 channels with 0-2 restarts, "
                "opened by the real channels.New+Start and by a real manager; evaluations = channel presentations + refused operations + live steps "
                "+ further Starts + ready announcements judged; non-trivial = distinct (v2 status, field classes, role, store size) of presented "
                "channels plus distinct (api, phase, operation) of refused operations and (status, op) of live steps")
    ctx.assumptions += [
        "version-2 records are well-formed (every field of ChannelStateV2 present, canonical DAG-CBOR); counters and timestamps are small integers",
        "one injected failure per store at most (Query error, or one undecodable record); the recovery open runs without fault",
        "migration is held at the first datastore Query after Start (the scan of /2/); operations are issued single-threaded while it is held",
        "manager path: network and transport are recording doubles; quiescence is synctest.Wait() in a bubble",
    ]
    # 1. model-check the lifecycle, tabulate the migration cases
    res = ctx.tlc("Mig", "mig-quick.cfg" if ctx.quick() else "mig-full.cfg", timeout=1200, heap="8g")
    if res.violated:
        raise Inconclusive("Mig model violates %s (a model-level counterexample is not a verdict)\n%s" % (res.violated, res.out[-2500:]))
    vlib.tlc_must_pass(res, "Mig lifecycle")
    ctx.add_model(res)
    ctx.exhaustive = not ctx.quick()
    rows_p, life_p = os.path.join(res.dir, "rows.ndjson"), os.path.join(res.dir, "life.ndjson")
    if not (os.path.exists(rows_p) and os.path.exists(life_p)):
        raise Inconclusive("Mig produced no tables")
    rows, life = vlib.read_ndjson(rows_p), vlib.read_ndjson(life_p)
    ctx.extra["table_rows"] = len(rows)
    cases = build_cases(ctx, rows, life)
    if ctx.replay:                                      # bin/check C13 --replay evidence/replays/C13-n.json : only that store
        with open(ctx.replay) as f:
            cases = [json.load(f)["detail"]["case"]]
    cp = ctx.path("migcases.ndjson")
    vlib.write_ndjson(cp, cases)
    # 2. replay on the real code
    b = ctx.go_bin("migx")
    obs_p = ctx.path("migobs.ndjson")
    ctx.must_run_go(b, "TestMig", env={"VERIF_CASES": cp, "VERIF_OUT": obs_p}, timeout=1500)
    if not os.path.exists(obs_p) or os.path.getsize(obs_p) == 0:
        raise Inconclusive("migx produced no observations")
    obs = vlib.read_ndjson(obs_p)
    if len(obs) != len(cases):
        raise Inconclusive("migx wrote %d observations for %d cases" % (len(obs), len(cases)))
    # 3. judge (in chunks: keeps TLC's memory flat)
    idx = {o["case"]: o for o in obs}
    cidx = {c["case"]: c for c in cases}
    verdicts, judged = [], 0
    CH = 1500
    for k in range(0, len(obs), CH):
        part = ctx.path("obs-part-%d.ndjson" % (k // CH))
        vlib.write_ndjson(part, obs[k:k + CH])
        n, vs = judge(ctx, part)
        judged += n
        verdicts += vs
    if judged != len(obs):
        raise Inconclusive("judge saw %d cases, harness wrote %d" % (judged, len(obs)))
    ctx.traces += judged
    for v in verdicts:
        o, c = idx.get(v["case"], {}), cidx.get(v["case"], {})
        path = o.get(v["api"], {})
        if v["rule"] == "harness":
            raise Inconclusive("harness error in case %s (%s): %s" % (v["case"], v["api"], path.get("err") or [s.get("err") for s in path.get("live", []) if s.get("err")]))
        if v["rule"] == "conf":
            ctx.drift.append({"case": v["case"], "api": v["api"], "status": v["status"], "op": v["op"], "phase": v["phase"],
                              "note": "observation deviates from Mig.tla outside the C13 formulas (refusal class, /2/ leftovers, version key, ChanOps!Traj)"})
            continue
        key = {"rule": v["rule"], "api": v["api"], "status": v["status"], "op": v["op"], "phase": v["phase"]}
        ctx.violation(key, "%s violated (api=%s v2status=%s op=%s phase=%s; case %s)" % (v["rule"], v["api"], v["status"], v["op"], v["phase"], v["case"]),
                      detail={"verdict": v, "case": c, "observation": path})
    # 4. accounting
    statuses = set()
    for o in obs:
        for api in ("chan", "mgr"):
            p = o[api]
            for ch in p["chans"]:
                ctx.evaluations += 1
                r2 = ch["r2"]
                statuses.add(r2["status"])
                ctx.distinct.add(("row", r2["status"], r2["queued"] > 0, r2["limit"], r2["reqFin"], len(r2["vouchers"]), len(r2["results"]), r2["stages"],
                                  r2["msg"] != "", ch["ident"]["initiator"], ch["ident"]["responder"], o["size"]))
            for pr in p["pre"]:
                ctx.evaluations += 1
                ctx.distinct.add(("refused", api, pr["phase"], pr["op"]))
            for st in p["live"]:
                if st["op"] != "reopen":
                    ctx.evaluations += 1
                    if st["puts"]:
                        ctx.distinct.add(("live", st["pre"]["status"], st["op"]))
            ctx.evaluations += len(p["idem"]) + len(p["starts"])
            for s in p["starts"]:
                ctx.distinct.add(("start", api, s["kind"], s["fault"], s["held"], len([l for l in s["listeners"] if l["before"]])))
    if len(statuses) != ALL_STATUSES and not ctx.replay:
        raise Inconclusive("only %d of %d v2 statuses were replayed" % (len(statuses), ALL_STATUSES))
    ctx.extra.update({"stores": len(cases), "records": sum(len(c["chans"]) for c in cases), "statuses": len(statuses),
                      "refused_ops": sum(len(o[a]["pre"]) for o in obs for a in ("chan", "mgr")),
                      "live_steps": sum(1 for o in obs for s in o["chan"]["live"] if s["op"] != "reopen"),
                      "starts": sum(len(o[a]["starts"]) for o in obs for a in ("chan", "mgr"))})
    for o in obs:
        if o["chan"]["chans"] and o["chan"]["chans"][0]["r2"]["status"] in ("BothPaused", "InitiatorPaused", "ResponderPaused"):
            ch = o["chan"]["chans"][0]
            ctx.sample({"kind": "migrated", "case": o["case"], "v2": ch["r2"], "v3raw": ch["raw"], "stagesRaw": ch["rawExtra"]["stages"][:1],
                        "mgrView": {k: o["mgr"]["chans"][0]["view"][k] for k in ("status", "ip", "rpView", "queued", "vouchers")}}, cap=2)
            break
    for o in obs:
        if o["mgr"]["pre"] and o["life"]["hold"]:
            ctx.sample({"kind": "lifecycle", "case": o["case"], "life": o["life"], "refused": [(p["phase"], p["op"], p["ret"], p["writes"]) for p in o["mgr"]["pre"]][:8],
                        "starts": o["mgr"]["starts"]}, cap=4)
            break

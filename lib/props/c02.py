"""C02 Terminal statuses are final."""
import stages, chancfg, vlib

def run(ctx):
    ctx.rule = ("cells: every terminal status x every public channel operation (4 roles x flags x record variants) on real channels.Channels; "
                "histories: TLC-simulated operation sequences (incl. reopen of the datastore) continued after the terminal status; "
                "non-trivial = step whose pre-state is terminal; distinct by (status, op, result, flags)")
    ctx.assumptions += ["datastore Put is atomic", "manager-level stimuli (messages, API calls, restart) are covered by the Mgr family checks (C02 part of mgrx)"]
    # design level: exhaustive Chan model with one crash/reopen, unrestricted environment
    res = stages.model_chan(ctx, chancfg.chan_cfg(ops=chancfg.INIT_LIFE, max_ops=3 if ctx.quick() else 4, crashes=1, guard="any",
                                                  invariants=["TypeOK"], properties=["C02_Final", "C02_Silent"]), "chan-c02")
    if res.violated:
        raise vlib.Inconclusive("Chan model violates %s: the model and the code must be compared (model-level counterexample is not a verdict)\n%s" % (res.violated, res.out[-1500:]))
    vlib.tlc_must_pass(res, "Chan C02")
    ctx.add_model(res)
    stages.chan_family(ctx, ["C02."], lambda s: s["pre"]["status"] in ("Completed", "Failed", "Cancelled"))
    ctx.exhaustive = False
    # manager level: the same property on a real manager (messages, API calls, transport callbacks)
    stages.mgr_family(ctx, ["C02."], ["all"], lambda s: s["t"]["hasPre"] and s["t"]["pre"]["status"] in ("Completed", "Failed", "Cancelled"), quick_n=3000, model=not ctx.quick(), sims=False, invariants=["M_C02_Final"], keep=lambda l: any(k in l for k in ('"status":"Completed"', '"status":"Failed"', '"status":"Cancelled"')))
    if not ctx.quick():
        # the repository's own 275 tests, run with the trace hook: every transition they execute is judged
        stages.repo_suite_traces(ctx, ["C02."])
    if not ctx.quick():
        # unbounded facts about the transition relation (TLAPS): terminal absorbing, cleanup never leaves, bookkeeping keeps the status, own flag only, ...
        stages.tlaps_fsm(ctx)

"""C19 Channel state views are total and self-consistent (channel-engine part)."""
import stages, chancfg, vlib

def run(ctx):
    ctx.rule = ("every accessor of every ChannelState handed out (post-state of each step and every subscriber snapshot) is called under recover(); "
                "view identities and append-only voucher logs judged by TLC (C19.*); cells include records with no vouchers results yet for every status; "
                "non-trivial = step with a voucher op or a state without results; distinct by (status, op, #events, result, flags)")
    ctx.assumptions += ["record-after-send rules of the manager are checked by the Mgr family"]
    res = stages.model_chan(ctx, chancfg.chan_cfg(ops=["Accept", "NewVoucher", "NewVoucherResult", "Cancel", "Error", "Restart", "FinishTransfer", "ResponderCompletes"],
                                                  max_ops=3 if ctx.quick() else 5, guard="any", invariants=["TypeOK"], properties=["C19_AppendOnly"]), "chan-c19")
    if res.violated:
        raise vlib.Inconclusive("Chan model violates %s\n%s" % (res.violated, res.out[-1500:]))
    vlib.tlc_must_pass(res, "Chan C19")
    ctx.add_model(res)
    stages.chan_family(ctx, ["C19."], lambda s: s["op"] in ("NewVoucher", "NewVoucherResult") or len(s["pre"]["results"]) == 0,
                       cells_cfg_quick="fsmtab-c19.cfg")
    # manager level: the same property on a real manager (messages, API calls, transport callbacks)
    stages.mgr_family(ctx, ["C19."], ["all"], lambda s: s["stim"]["kind"] in ("SendVoucher", "SendVoucherResult", "UpdateValidation") or s["stim"]["msg"]["v"] != "", quick_n=3000, model=not ctx.quick(), sims=False, invariants=["M_C19_Append"], keep=lambda l: any(k in l for k in ('"kind":"SendVoucher"', '"kind":"SendVoucherResult"', '"kind":"Voucher"', '"kind":"VoucherResult"', '"kind":"UpdateValidation"')))
    # two-node replays of Sys.tla behaviours on two real managers: C19 rules of SysJudge and of the manager judge on every step of either node
    from props import c01 as _c01
    _c01.sys_replay(ctx, prefixes=["C19."], n_quick=10, n_thorough=60)
    if not ctx.quick():
        # the repository's own 275 tests, run with the trace hook: every transition they execute is judged
        stages.repo_suite_traces(ctx, ["C19."])

"""C12 Wire format is lossless, stable and safe to decode.

Wire.tla (constant-level message algebra) is checked by TLC over the table of constructor calls and tabulated
(call, Obs, Layout); harness/wirex replays every tabulated row on the real message package and both decoders,
comparing bytes with an independent rendering of Layout; WireJudge.tla evaluates the C12 rules on the observations.
"""
import os, re, json, copy
from concurrent.futures import ThreadPoolExecutor
import vlib
from vlib import Inconclusive

LEVEL = "model_checking"
QUICK_STRIDE = 9          # quick tier: rows n with n % 9 == seed % 9 (about 3000 of 27228)
QUICK_HEVERY = 5          # quick tier: hostile-bytes neighbourhood for every 5th sampled row (+ all envelope shapes)
CHUNK = 2500              # observations judged per TLC run
RULES = ["C12.lossless", "C12.layout", "C12.keyOrder", "C12.oneKind", "C12.accepted", "C12.noPanic", "C12.noMissingBody"]


def _tabulate(ctx):
    if ctx.quick():
        txt = open(os.path.join(vlib.SPEC, "cfg", "wire-quick.cfg")).read()
        txt = re.sub(r"Stride = \d+", "Stride = %d" % QUICK_STRIDE, txt)
        txt = re.sub(r"Offset = \d+", "Offset = %d" % (ctx.seed % QUICK_STRIDE), txt)
        cfg = ctx.path("wire-quick-seeded.cfg")
        with open(cfg, "w") as f:
            f.write(txt)
    else:
        cfg = "wire-full.cfg"
    res = ctx.tlc("Wire", cfg, workers=4, timeout=900, heap="8g")
    if res.violated:
        raise Inconclusive("Wire.tla: the message algebra itself violates %s (a fact about the model, not a verdict)\n%s" % (res.violated, res.out[-1500:]))
    vlib.tlc_must_pass(res, "Wire tabulation")
    m = re.search(r'<<"@@rows", (\d+), "@@of", (\d+), "@@envs", (\d+)>>', res.out)
    if not m:
        raise Inconclusive("Wire.tla did not report its table size")
    files = [os.path.join(res.dir, f) for f in ("wire-rows.ndjson", "wire-envs.ndjson", "wire-dict.ndjson")]
    for p in files:
        if not os.path.exists(p):
            raise Inconclusive("Wire.tla did not write %s" % os.path.basename(p))
    ctx.add_model(res)
    return files, int(m.group(1)), int(m.group(2)), int(m.group(3))


def _replay(ctx, rows_p, envs_p, dict_p, tag=""):
    b = ctx.go_bin("wirex")
    out, eout = ctx.path("wire-obs%s.ndjson" % tag), ctx.path("wire-envobs%s.ndjson" % tag)
    env = {"VERIF_CASES": rows_p, "VERIF_WIRE_ENVS": envs_p, "VERIF_WIRE_DICT": dict_p, "VERIF_OUT": out, "VERIF_WIRE_ENVOUT": eout,
           "VERIF_WIRE_HEVERY": QUICK_HEVERY if ctx.quick() else 1, "VERIF_WIRE_HSTRIDE": 1}
    ctx.must_run_go(b, "TestWire", env=env, timeout=1500)
    if not os.path.exists(out) or not os.path.exists(eout):
        raise Inconclusive("wirex produced no observations")
    return vlib.read_ndjson(out), vlib.read_ndjson(eout)


def _control_rows(obs):
    """Corrupted copies of a real observation: the judge must flag each (else the judge is blind -> inconclusive)."""
    good = [r for r in obs if not r["ctorErr"] and r["o0"] > 0 and r["net"]["o"] > 0]
    if not good:
        return []
    out = []
    r = copy.deepcopy(good[0]); r["case"] = "ctl-layout"; r["layoutEq"] = False; out.append((r, "C12.layout"))
    r = copy.deepcopy(good[0]); r["case"] = "ctl-lossless"
    r["os"] = copy.deepcopy(r["os"]); r["os"][r["net"]["o"] - 1]["id"] = "12345"; out.append((r, "C12.lossless"))
    r = copy.deepcopy(good[0]); r["case"] = "ctl-missing"; r["hostile"] = dict(r["hostile"], missing=1); out.append((r, "C12.noMissingBody"))
    return out


def _judge(ctx, obs, envobs):
    """Judge observations in chunks (parallel TLC runs). Returns (n_rows_judged, n_envs_judged, verdict rows)."""
    chunks = [obs[k:k + CHUNK] for k in range(0, len(obs), CHUNK)] or [[]]
    ctl = _control_rows(obs)
    jobs = []
    for k, ch in enumerate(chunks):
        d = ctx.path("judge-%d" % k)
        os.makedirs(d, exist_ok=True)
        rows = list(ch) + ([c for c, _ in ctl] if k == 0 else [])
        vlib.write_ndjson(os.path.join(d, "obs.ndjson"), rows)
        vlib.write_ndjson(os.path.join(d, "envobs.ndjson"), envobs if k == 0 else [])
        jobs.append((d, len(rows), len(envobs) if k == 0 else 0))

    def one(job):
        d, nr, ne = job
        res = ctx.tlc("WireJudge", "wirejudge.cfg", workers=1, timeout=1200, heap="4g",
                      extra_files=[os.path.join(d, "obs.ndjson"), os.path.join(d, "envobs.ndjson")])
        vlib.tlc_must_pass(res, "WireJudge")
        m = re.search(r'<<"@@judged", (\d+), (\d+)>>', res.out)
        if not m or int(m.group(1)) != nr or int(m.group(2)) != ne:
            raise Inconclusive("WireJudge judged %s, expected %d rows / %d envelopes" % (m.groups() if m else None, nr, ne))
        p = os.path.join(res.dir, "verdicts.ndjson")
        return vlib.read_ndjson(p) if os.path.exists(p) else []

    with ThreadPoolExecutor(max_workers=3 if ctx.quick() else 6) as ex:
        parts = list(ex.map(one, jobs))
    verdicts = [v for p in parts for v in p]
    for c, rule in ctl:
        if not any(v["case"] == c["case"] and v["rule"] == rule for v in verdicts):
            raise Inconclusive("control: WireJudge accepted a corrupted observation (%s)" % c["case"])
    verdicts = [v for v in verdicts if not v["case"].startswith("ctl-")]
    return len(obs), len(envobs), verdicts


def _classify(ctx, verdicts, obs_idx, env_idx, row_idx):
    for v in sorted(verdicts, key=lambda x: (x["rule"], x["ctor"], x["what"], x["case"])):
        o = obs_idx.get(v["case"]) or env_idx.get(v["case"])
        if v["rule"] == "conf":
            ctx.drift.append({"case": v["case"], "ctor": v["ctor"], "what": v["what"],
                              "note": "observation differs from Wire.tla on something no C12 formula names (auxiliary predicate, constructor error, decoder verdict on a malformed envelope)",
                              "observed": {k: o.get(k) for k in ("net", "ipld", "os", "ctorErr", "hex") if o and k in o}})
            continue
        if v["rule"] not in RULES:
            continue
        key = {"rule": v["rule"], "ctor": v["ctor"], "what": v["what"]}
        if v["rule"] in ("C12.noPanic", "C12.noMissingBody"):
            # decoder-safety rules: the failing class is (rule, which decoder / stage), not the particular input
            cls = "panic" if v["rule"] == "C12.noPanic" else "missing"
            where = set(b.split(":")[0] for b in ((o or {}).get("hostile") or {}).get("bad", []) if b.split(":")[1] == cls)
            where |= set(d for d in ("net", "ipld") if (o or {}).get(d) == cls)                       # envelope rows
            where |= set(x.split(":")[0].split("/")[-1] for x in (o or {}).get("panics", []) if cls == "panic")
            where |= set(d for d in ("net", "ipld", "ext") if isinstance((o or {}).get(d), dict) and (o or {})[d].get("err") == "missing body" and cls == "missing")
            key = {"rule": v["rule"], "where": sorted(where)}
        detail = {"verdict": v, "observed": o, "row": row_idx.get(v["case"])}
        if o and "a" in o:
            txt = "%s violated for %s(%s)" % (v["rule"], v["ctor"], json.dumps(o["a"], sort_keys=True))
            if o.get("hostile", {}).get("bad"):
                txt += " hostile input " + o["hostile"]["bad"][0]
            elif o.get("hex"):
                txt += " bytes " + o["hex"]
        else:
            txt = "%s violated for envelope %s bytes %s net=%s ipld=%s %s" % (v["rule"], v["what"], (o or {}).get("hex"), (o or {}).get("net"),
                                                                           (o or {}).get("ipld"), ((o or {}).get("hostile") or {}).get("bad"))
        ctx.violation(key, txt, detail=detail)


def run(ctx):
    ctx.rule = ("rows = constructor calls tabulated by TLC from Wire.tla (every public constructor x argument classes); each row is built with the real "
                "constructor, sent through ToNet/FromNet, ToIPLD/FromIPLD and ToExtensionData/GetTransferData, its bytes compared with an independent "
                "rendering of Layout(m), re-encoded with reversed/rotated/random key orders, and its prefixes and byte substitutions fed to both decoders; "
                "non-trivial = row whose message was constructed and decoded at least once; distinct by (constructor, id class, flags, voucher class, "
                "type id, base, selector class, peers) plus envelope shapes")
    ctx.assumptions += [
        "'decoding arbitrary bytes' is covered only by the structured neighbourhood of the model-generated encodings (every envelope shape incl. absent / "
        "wrong-kind / extra keys, every strict prefix, single-byte substitutions {00,1f,7f,a0,f6,ff} at every offset): the TLA+ technique enumerates structured "
        "inputs and does not sample the space of byte strings the way a fuzzer would (DESIGN section 8)",
        "value space by classes: ids {0,1,2^31,2^63-1,2^63,2^64-1}; selector/voucher {absent, null, string, max int, min int, float, bytes, list, 2-key map in "
        "non-canonical order, nested map, link}; type ids {empty, ascii, multibyte}; peers {empty, ascii, non-UTF-8}; CIDv1 and CIDv0 base",
        "ValidationResultResponse is called with the message types the library itself passes (New, Restart, VoucherResult, Complete)",
        "FromIPLD / GetTransferData receive what graphsync would hand over: the bytes decoded by go-ipld-prime's dag-cbor decoder into basicnode (trusted boundary double); "
        "expected bytes come from harness/kit/wire_cborw.go, not from the library or go-ipld-prime's encoder",
    ]
    if ctx.quick():
        ctx.assumptions.append("quick tier: every %dth row of the table (offset = seed mod %d), hostile neighbourhood for every %dth of those and for all envelope shapes"
                               % (QUICK_STRIDE, QUICK_STRIDE, QUICK_HEVERY))

    if ctx.replay:
        rp = json.load(open(ctx.replay))
        row = (rp.get("detail") or {}).get("row")
        files, _, _, _ = _tabulate(ctx)
        rows_p = ctx.path("replay-rows.ndjson")
        vlib.write_ndjson(rows_p, [row] if row else [])
        obs, envobs = _replay(ctx, rows_p, files[1], files[2], tag="-replay")
        rows = [row] if row else []
    else:
        files, nrows, ntotal, nenvs = _tabulate(ctx)
        obs, envobs = _replay(ctx, files[0], files[1], files[2])
        rows = vlib.read_ndjson(files[0])
        if len(obs) != nrows or len(envobs) != nenvs:
            raise Inconclusive("wirex replayed %d rows / %d envelopes, TLC tabulated %d / %d" % (len(obs), len(envobs), nrows, nenvs))
        ctx.extra["table_rows"] = ntotal
        ctx.exhaustive = not ctx.quick()

    nr, ne, verdicts = _judge(ctx, obs, envobs)
    obs_idx = {o["case"]: o for o in obs}
    env_idx = {e["case"]: e for e in envobs}
    row_idx = {r["case"]: {k: r[k] for k in ("case", "ctor", "a", "fails", "layout")} for r in rows if r}
    _classify(ctx, verdicts, obs_idx, env_idx, row_idx)

    ctx.traces += nr + ne
    hostile = 0
    for o in obs:
        hostile += o["hostile"]["n"]
        if o["ctorErr"]:
            ctx.evaluations += 1
            continue
        ctx.evaluations += 4 + o["perm"]["n"]          # constructor + 3 round trips + re-ordered decodes
        a = o["a"]
        if o["o0"] > 0 and (o["net"]["o"] or o["ipld"]["o"] or o["ext"]["o"]):
            ctx.distinct.add((o["ctor"], a["id"], a["restart"], a["pull"], a["paused"], a["accepted"], a["err"], a["mt"], a["v"], a["vt"], a["base"], a["sel"], a["ri"], a["rr"]))
    for e in envobs:
        hostile += e["hostile"]["n"]
        ctx.evaluations += 2
        s = e["shape"]
        ctx.distinct.add(("envelope", s["isRq"], s["rq"], s["rs"], s["extra"]))
    ctx.evaluations += hostile
    ctx.extra.update({"rows_replayed": nr, "envelope_shapes": ne, "hostile_inputs": hostile,
                      "hostile_decoded_to_message": sum(o["hostile"]["msg"] for o in obs) + sum(e["hostile"]["msg"] for e in envobs)})
    want = [("NewRequest", "nested"), ("RestartExistingChannelRequest", None), ("ValidationResultResponse", "map2")]
    for ctor, v in want:
        for o in obs:
            if o["ctor"] == ctor and not o["ctorErr"] and (v is None or o["a"]["v"] == v) and o["a"]["id"] not in ("0", "1"):
                ctx.sample({"kind": "row", "ctor": o["ctor"], "args": o["a"], "bytes": o["hex"], "layoutEq": o["layoutEq"],
                            "decoded": o["os"][o["net"]["o"] - 1] if o["net"]["o"] else None, "perm": o["perm"], "hostile": o["hostile"]})
                break
    for e in envobs:
        s = e["shape"]
        if s["isRq"] == "true" and s["rq"] == "null" and s["rs"] == "map" and not s["extra"]:
            ctx.sample({"kind": "envelope", "shape": s, "bytes": e["hex"], "FromNet": e["net"], "FromIPLD": e["ipld"], "hostile": e["hostile"]})
            break

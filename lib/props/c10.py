"""C10 Restart resumes the same transfer (manager part; adapter part in gstx)."""
import stages

def run(ctx):
    ctx.rule = ("Restart API, restart requests/responses and restart-existing requests on every status x 4 roles x progress variants of a REAL manager; identity, re-issued request "
                "fields, skip count, revalidation, rejection and cleanup-only behaviour judged by TLC (C10.*); non-trivial = restart-related step")
    ctx.assumptions += ["transport adapter behaviour on reopen (cancel-before-request, pending extensions) is checked on the real adapter by the gstx harness"]
    stages.mgr_family(ctx, ["C10."], ["all"], lambda s: s["stim"]["kind"] in ("Restart", "RecvRestartExisting") or s["stim"]["msg"]["kind"] in ("Restart", "RestartExisting"),
                      quick_n=5000, invariants=["M_C10_Identity", "M_C10_Skip"])

"""C10 Restart resumes the same transfer (manager part; adapter part in gstx)."""
import stages

def run(ctx):
    ctx.rule = ("Restart API, restart requests/responses and restart-existing requests on every status x 4 roles x progress variants of a REAL manager; identity, re-issued request "
                "fields, skip count, revalidation, rejection and cleanup-only behaviour judged by TLC (C10.*); non-trivial = restart-related step")
    ctx.assumptions += ["transport adapter behaviour on reopen (cancel-before-request, pending extensions) is checked on the real adapter by the gstx harness"]
    stages.mgr_family(ctx, ["C10."], ["all"], lambda s: s["stim"]["kind"] in ("Restart", "RecvRestartExisting") or s["stim"]["msg"]["kind"] in ("Restart", "RestartExisting"),
                      quick_n=5000, invariants=["M_C10_Identity", "M_C10_Skip"], keep=lambda l: any(k in l for k in ('"kind":"Restart"', '"kind":"RecvRestartExisting"', '"kind":"RestartExisting"')))
    # two-node replays of Sys.tla behaviours on two real managers: C10 rules of SysJudge and of the manager judge on every step of either node
    from props import c01 as _c01
    _c01.sys_replay(ctx, prefixes=["C10."], n_quick=10, n_thorough=60)
    # transport-adapter part on the REAL graphsync adapter (virtual time): cancel-before-request, skip count, pending messages once
    b = ctx.go_bin("gstx")
    out = ctx.path("reopenobs.ndjson")
    ctx.must_run_go(b, "TestReopen", env={"VERIF_OUT": out}, timeout=600)
    n, verdicts = stages.judge(ctx, out, module="ReopenJudge")
    idx = stages.index_obs(out)
    for v in verdicts:
        c = idx[v["case"]]
        ctx.violation({"rule": v["rule"], "kind": v["op"]}, "%s violated on the real graphsync adapter (case %s)" % (v["rule"], v["case"]),
                      detail={"steps": [(s["a"]["op"], s["a"].get("m"), [(g["call"], g["r"], g["x"], g["n"]) for g in s.get("gsc", [])], [(h["a"], h["n"]) for h in s.get("hook", []) if h["a"] == "SendExtensionData"]) for s in c["steps"]]})
    for c in idx.values():
        ctx.traces += 1
        ctx.evaluations += len(c["steps"])
        ctx.distinct.add(("reopen", c["case"]))
    ctx.extra["adapter_reopen_cases"] = n
    # a restart handled while blocks of the previous request are still being recorded (during the re-validation callback): the new request tells the
    # sender to skip what is recorded as received when it is opened
    bm = ctx.go_bin("mgrx")
    rr = ctx.path("restartrace.ndjson")
    ctx.must_run_go(bm, "TestRestartDuringProgress", env={"VERIF_OUT": rr}, timeout=300)
    nrr, rrv = stages.judge(ctx, rr, module="EqualsJudge")
    ridx = stages.index_obs(rr)
    for v in rrv:
        c = ridx[v["case"]]
        if v["rule"] == "harness":
            raise vlib.Inconclusive("TestRestartDuringProgress: " + c["err"])
        ctx.violation({"rule": v["rule"], "scenario": v["op"]}, "%s violated (%s): the restarted transport request tells the sender to skip %d blocks, %d are recorded as received" % (
            v["rule"], v["case"], c["left"], c["right"]), detail=c)
    for c in ridx.values():
        ctx.traces += 1
        ctx.evaluations += 1
        ctx.distinct.add(("restartrace", c["case"], c["left"]))

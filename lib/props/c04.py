"""C04 Only validated requests move data."""
import stages

INV = ["M_C04_Validated", "M_C04_Refused", "M_C04_Faithful"]

def run(ctx):
    ctx.rule = ("TLC tabulates incoming new/restart requests (push/pull x network/transport path x registry contents x missing voucher/selector x every validator outcome "
                "accept/reject/error x voucher result x ForcePause x DataLimit x RequiresFinalization) and UpdateValidationStatus calls on every status; each case runs on a REAL manager "
                "with recording validator/network/transport doubles; C04.validated/refused/faithful/noPanic judged by TLC on the observations; non-trivial = request or revalidation step")
    ctx.assumptions += ["synchronous engine abstraction (handlers flush the queue first)", "doubles at the network/transport/validator boundary"]
    stages.mgr_family(ctx, ["C04."], ["c04"], lambda s: s["stim"]["kind"] in ("RecvRequest", "OnRequestReceived", "UpdateValidation"), quick_n=4000, invariants=INV)
    # two-node replays of Sys.tla behaviours on two real managers: C04 rules of SysJudge and of the manager judge on every step of either node
    from props import c01 as _c01
    _c01.sys_replay(ctx, prefixes=["C04."], n_quick=10, n_thorough=60)

"""C18 Channel identities never collide (duplicate-create part; id generation part in idsx)."""
import stages

def run(ctx):
    ctx.rule = ("duplicate incoming New requests (network and transport path) at every status of the original channel on a REAL manager: existing channel bytes unchanged, reply not accepted "
                "(C18.dupCreate judged by TLC); non-trivial = New request addressed to an existing channel")
    stages.mgr_family(ctx, ["C18."], ["all"], lambda s: s["stim"]["msg"]["kind"] == "New" and s["t"]["hasPre"], quick_n=5000, invariants=["M_C18_Dup"])

"""C18 Channel identities never collide."""
import stages, vlib


def run(ctx):
    ctx.rule = ("Ids.tla: N concurrent callers of the atomic next() and two manager lifetimes, all interleavings: Unique/IncreasingPerCaller/AboveSeed/LaterLifeAbove (the read-then-write variant is "
                "refuted by TLC as a non-vacuity control); concurrent Open calls (8-16 goroutines) on a REAL manager over two successive lifetimes on one store form a history judged by IdsJudge "
                "(unique, per-caller increasing, increasing in real-time order, later lifetime above, one distinct channel per call; race detector in thorough); duplicate incoming New requests at every "
                "status of the original on a real manager (C18.dupCreate); non-trivial = issued id / duplicate-request step")
    ctx.assumptions += ["non-decreasing wall clock between manager lifetimes (as in the statement)"]
    res = ctx.tlc("Ids", "ids.cfg", timeout=600)
    if res.violated:
        raise vlib.Inconclusive("Ids model violates %s\n%s" % (res.violated, res.out[-1500:]))
    vlib.tlc_must_pass(res, "Ids")
    ctx.add_model(res)
    neg = ctx.tlc("Ids", "ids-neg.cfg", timeout=600)
    if neg.violated != "Unique":
        raise vlib.Inconclusive("non-vacuity control failed: the non-atomic counter variant was not refuted by TLC")
    ctx.extra["nonatomic_variant_refuted"] = True
    b = ctx.go_bin("idsx", race=not ctx.quick())
    out = ctx.path("idsobs.ndjson")
    env = {"VERIF_OUT": out, "VERIF_G": 16, "VERIF_K": 800 if ctx.quick() else 1500, "VERIF_ROUNDS": 3 if ctx.quick() else 6}
    r = ctx.run_go(b, "TestIds", env=env, timeout=900 if ctx.quick() else 3000)
    if "DATA RACE" in r.stdout:
        ctx.violation({"rule": "C18.race"}, "data race reported by the race detector during concurrent opens", detail=r.stdout[-4000:])
    elif r.returncode != 0:
        raise vlib.Inconclusive("TestIds failed:\n" + r.stdout[-3000:])
    else:
        n, verdicts = stages.judge(ctx, out, module="IdsJudge")
        idx = stages.index_obs(out)
        for v in verdicts:
            c = idx[v["case"]]
            ctx.violation({"rule": v["rule"]}, "%s violated by concurrent opens (case %s)" % (v["rule"], v["case"]),
                          detail={"n": c["n"], "distinctIds": c["distinctIds"], "distinctChannels": c["distinctChannels"], "calls": sorted([(x["rank"], x["g"], x["k"], x["life"], x["start"], x["end"], x["err"]) for x in c["calls"]])[:200]})
        for c in idx.values():
            ctx.traces += 1
            ctx.evaluations += c["n"]
            for x in c["calls"]:
                ctx.distinct.add(("id", c["case"], x["rank"]))
        for c in list(idx.values())[:1]:
            ctx.sample({"kind": "ids", "case": c["case"], "first_calls": sorted([(x["rank"], x["g"], x["k"], x["life"]) for x in c["calls"]])[:12]})
    stages.mgr_family(ctx, ["C18."], ["all"], lambda s: s["stim"]["msg"]["kind"] == "New" and s["t"]["hasPre"], quick_n=3000, invariants=["M_C18_Dup"], sims=False, keep=lambda l: any(k in l for k in ('"kind":"New"',)))
    # a refused duplicate leaves the existing channel exactly as it was - also in what it does NEXT: the limit its validator set still stops it, positions it
    # already counted are not counted again (deterministic histories on the real manager: create with a limit, progress, DUPLICATE new request, more reports)
    Z = {"delta": 0, "index": 0, "unique": False, "limit": 0, "flag": False, "err": "", "v": ""}
    NOMSG = {"isReq": False, "kind": "none", "tid": 0, "pull": False, "paused": False, "accepted": False, "v": "", "base": "", "sel": "", "ri": "", "rr": "", "rt": 0}
    def stim(kind, **kw):
        x = {"kind": kind, "c": "c1", "from": "B", "to": "B", "msg": dict(NOMSG), "val": {"err": False, "accepted": True, "vres": "", "force": False, "limit": 0, "reqFin": False},
             "sendFail": [], "openFail": False, "args": dict(Z), "rereg": True, "tidOf": ""}
        for k, v in kw.items():
            if k in ("msg", "args", "val"):
                x[k].update(v)
            else:
                x[k] = v
        return x
    hist = []
    for pull in (True, False):
        op = "OnDataQueued" if pull else "OnDataReceived"
        for path in ("RecvRequest", "OnRequestReceived"):
            for lim in (5, 0):
                for duplim in (0, 9):
                    new = {"isReq": True, "kind": "New", "tid": 1, "pull": pull, "v": "v0", "base": "base", "sel": "s"}
                    steps = [stim(path, msg=new, val={"limit": lim}), stim("OnTransferInitiated"),
                             stim(op, args={"delta": 2, "index": 1, "unique": True}), stim(op, args={"delta": 2, "index": 2, "unique": True}),
                             stim(path, msg=new, val={"limit": duplim}),                                   # the duplicate (same initiator, same transfer id)
                             stim(op, args={"delta": 2, "index": 2, "unique": True}),                     # a position counted before
                             stim(op, args={"delta": 2, "index": 3, "unique": True}),                     # crosses the limit of 5 (4 + 2)
                             stim(op, args={"delta": 1, "index": 4, "unique": True})]
                    hist.append({"case": "dup-%d" % len(hist), "self": "A", "types": ["vt"], "chans": [], "steps": steps, "dupAt": 5})
    hp = ctx.path("duphist.ndjson")
    vlib.write_ndjson(hp, hist)
    hobs = stages.run_mgr_scripts(ctx, hp)
    hn, hverd = stages.judge(ctx, hobs, module="MgrJudge")
    hidx = stages.index_obs(hobs)
    for v in hverd:
        if v["rule"] == "harness":
            raise vlib.Inconclusive("duplicate-create histories: harness error in %s step %s" % (v["case"], v["i"]))
        if v["i"] >= 5 and (v["rule"].startswith("C07.") or v["rule"].startswith("C08.") or v["rule"].startswith("C18.")):
            st = [x for x in hidx[v["case"]]["steps"] if x.get("i") == v["i"]]
            ctx.violation({"rule": "C18.dupLeavesBehaviour", "via": v["rule"], "op": v["op"]},
                          "C18.dupLeavesBehaviour violated: after a refused duplicate new-request the existing channel no longer behaves as before (%s at step %d, %s; case %s)" % (v["rule"], v["i"], v["op"], v["case"]),
                          detail={"verdict": v, "step": st[:1]})
    for c in hidx.values():
        ctx.traces += 1
        ctx.evaluations += len(c["steps"])
        ctx.distinct.add(("duphist", c["case"]))
    ctx.extra["duplicate_then_continue_histories"] = hn
    # the same on the transport path, with the REAL graphsync adapter: the duplicate arrives on a second graphsync request, is refused, and graphsync
    # reports that request as finished - the existing channel hears nothing of it
    bl = ctx.go_bin("lockx")
    da = ctx.path("dupadapter.ndjson")
    ctx.must_run_go(bl, "TestDuplicateOnAdapter", env={"VERIF_OUT": da}, timeout=300)
    nda, dav = stages.judge(ctx, da, module="EqualsJudge")
    didx = stages.index_obs(da)
    for v in dav:
        c = didx[v["case"]]
        if v["rule"] == "harness":
            raise vlib.Inconclusive("TestDuplicateOnAdapter: " + c["err"])
        ctx.violation({"rule": "C18.dupLeavesBehaviour", "via": "adapter", "op": v["op"]}, "C18.dupLeavesBehaviour violated (%s): a refused duplicate new-request on a second graphsync request (and "
                      "graphsync's completion notice for it) changed the existing channel: %d events / status-or-message change" % (v["case"], c["left"]), detail=c)
    for c in didx.values():
        ctx.traces += 1
        ctx.evaluations += 1
        ctx.distinct.add(("dupadapter", c["case"]))

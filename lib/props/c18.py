"""C18 Channel identities never collide."""
import stages, vlib


def run(ctx):
    ctx.rule = ("Ids.tla: N concurrent callers of the atomic next() and two manager lifetimes, all interleavings: Unique/IncreasingPerCaller/AboveSeed/LaterLifeAbove (the read-then-write variant is "
                "refuted by TLC as a non-vacuity control); concurrent Open calls (8-16 goroutines) on a REAL manager over two successive lifetimes on one store form a history judged by IdsJudge "
                "(unique, per-caller increasing, increasing in real-time order, later lifetime above, one distinct channel per call; race detector in thorough); duplicate incoming New requests at every "
                "status of the original on a real manager (C18.dupCreate); non-trivial = issued id / duplicate-request step")
    ctx.assumptions += ["non-decreasing wall clock between manager lifetimes (as in the statement)"]
    res = ctx.tlc("Ids", "ids.cfg", timeout=600)
    if res.violated:
        raise vlib.Inconclusive("Ids model violates %s\n%s" % (res.violated, res.out[-1500:]))
    vlib.tlc_must_pass(res, "Ids")
    ctx.add_model(res)
    neg = ctx.tlc("Ids", "ids-neg.cfg", timeout=600)
    if neg.violated != "Unique":
        raise vlib.Inconclusive("non-vacuity control failed: the non-atomic counter variant was not refuted by TLC")
    ctx.extra["nonatomic_variant_refuted"] = True
    b = ctx.go_bin("idsx", race=not ctx.quick())
    out = ctx.path("idsobs.ndjson")
    env = {"VERIF_OUT": out, "VERIF_G": 16, "VERIF_K": 800 if ctx.quick() else 2500, "VERIF_ROUNDS": 3 if ctx.quick() else 10}
    r = ctx.run_go(b, "TestIds", env=env, timeout=900)
    if "DATA RACE" in r.stdout:
        ctx.violation({"rule": "C18.race"}, "data race reported by the race detector during concurrent opens", detail=r.stdout[-4000:])
    elif r.returncode != 0:
        raise vlib.Inconclusive("TestIds failed:\n" + r.stdout[-3000:])
    else:
        n, verdicts = stages.judge(ctx, out, module="IdsJudge")
        idx = stages.index_obs(out)
        for v in verdicts:
            c = idx[v["case"]]
            ctx.violation({"rule": v["rule"]}, "%s violated by concurrent opens (case %s)" % (v["rule"], v["case"]),
                          detail={"n": c["n"], "distinctIds": c["distinctIds"], "distinctChannels": c["distinctChannels"], "calls": sorted([(x["rank"], x["g"], x["k"], x["life"], x["start"], x["end"], x["err"]) for x in c["calls"]])[:200]})
        for c in idx.values():
            ctx.traces += 1
            ctx.evaluations += c["n"]
            for x in c["calls"]:
                ctx.distinct.add(("id", c["case"], x["rank"]))
        for c in list(idx.values())[:1]:
            ctx.sample({"kind": "ids", "case": c["case"], "first_calls": sorted([(x["rank"], x["g"], x["k"], x["life"]) for x in c["calls"]])[:12]})
    stages.mgr_family(ctx, ["C18."], ["all"], lambda s: s["stim"]["msg"]["kind"] == "New" and s["t"]["hasPre"], quick_n=3000, invariants=["M_C18_Dup"], sims=False, keep=lambda l: any(k in l for k in ('"kind":"New"',)))

"""C03 No success without both parties."""
import stages, chancfg, vlib

def run(ctx):
    ctx.rule = ("cells: whole (status x operation) table replayed on real channels.Channels for 4 roles; histories: TLC-simulated role-consistent "
                "operation sequences; every applied event's (pre, event, post) triple is judged by the C03 formulas in ChanJudge; "
                "non-trivial = step that applied at least one event; distinct by (status, op, #events, result, flags)")
    ctx.assumptions += ["synchronous abstraction for histories (each operation followed by quiescence); queue races are explored in the Chan model",
                        "message-level causes (which message produces which event) are checked by the Mgr family"]
    for role, ops in (("init", chancfg.INIT_LIFE), ("resp", chancfg.RESP_LIFE)):
        res = stages.model_chan(ctx, chancfg.chan_cfg(init=("c1",) if role == "init" else (), ops=ops, max_ops=3 if ctx.quick() else 5, guard="quietEnding",
                                                      invariants=["TypeOK", "C03_OnlyBoth", "C03_Finalizing"], properties=["C03_Bookkeeping"]), "chan-c03-" + role)
        if res.violated:
            raise vlib.Inconclusive("Chan model violates %s\n%s" % (res.violated, res.out[-1500:]))
        vlib.tlc_must_pass(res, "Chan C03")
        ctx.add_model(res)
    stages.chan_family(ctx, ["C03."], lambda s: len(s["puts"]) > 0)
    # manager level: which message / callback produces which completion signal; finalization hold and release
    stages.mgr_family(ctx, ["C03."], ["all"], lambda s: s["stim"]["kind"] in ("UpdateValidation", "OnChannelCompleted") or s["stim"]["msg"]["kind"] == "Complete", quick_n=4000, model=not ctx.quick(), sims=True, invariants=["M_C02_Final"], keep=lambda l: any(k in l for k in ('"kind":"UpdateValidation"', '"kind":"OnChannelCompleted"', '"kind":"Complete"')))
    # two-node replays of Sys.tla behaviours on two real managers: C03 rules of SysJudge and of the manager judge on every step of either node
    from props import c01 as _c01
    _c01.sys_replay(ctx, prefixes=["C03."], n_quick=10, n_thorough=60)
    if not ctx.quick():
        # the repository's own 275 tests, run with the trace hook: every transition they execute is judged
        stages.repo_suite_traces(ctx, ["C03."])
    if not ctx.quick():
        # unbounded facts about the transition relation (TLAPS): terminal absorbing, cleanup never leaves, bookkeeping keeps the status, own flag only, ...
        stages.tlaps_fsm(ctx)

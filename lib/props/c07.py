"""C07 Transfer accounting counts every block position once."""
import stages, chancfg, vlib


def gen_conc(ctx, n):
    cases = []
    for i in range(n):
        rng = ctx.rng
        op = rng.choice(["DataQueued", "DataSent", "DataReceived"])
        sends = op != "DataReceived"
        ident = {"self": "A", "initiator": "A", "responder": "B", "sender": "A" if sends else "B", "recipient": "B" if sends else "A", "tid": 500000 + i, "base": "base", "sel": "s"}
        if rng.random() < 0.5:  # responder side (limits apply there)
            ident.update({"initiator": "B", "responder": "A"})
        P = rng.randint(3, 12)
        nonuniq = set(p for p in range(1, P + 1) if rng.random() < 0.2)
        hw0 = rng.choice([0, 0, 2])
        size = lambda p: 100 + 7 * p
        pre_tot = sum(size(p) for p in range(1, hw0 + 1) if p not in nonuniq)
        limit = rng.choice([0, 0, pre_tot + size(min(P, hw0 + 2)), 100000])
        rec = {"status": rng.choice(["Ongoing", "Ongoing", "ResponderCompleted", "AwaitingAcceptance"]), "ip": False, "rp": False,
               "queued": pre_tot if op == "DataQueued" else 0, "sent": pre_tot if op == "DataSent" else 0, "received": pre_tot if op == "DataReceived" else 0,
               "qIdx": hw0 if op == "DataQueued" else 0, "sIdx": hw0 if op == "DataSent" else 0, "rIdx": hw0 if op == "DataReceived" else 0,
               "limit": limit, "reqFin": False, "msg": "", "vouchers": ["v0"], "results": []}
        G = rng.randint(2, 8)
        reporters = []
        for g in range(G):
            lo = rng.randint(1, P)
            hi = rng.randint(lo, P)
            seq = list(range(lo, hi + 1))
            if rng.random() < 0.3:
                seq = seq + seq[-2:]  # replayed suffix
            if rng.random() < 0.2:
                rng.shuffle(seq)
            reporters.append([{"op": op, "index": p, "delta": size(p), "unique": p not in nonuniq} for p in seq])
        cases.append({"case": "conc%d" % i, "ident": ident, "rec": rec, "reporters": reporters})
    return cases


def run(ctx):
    ctx.rule = ("(1) Acct.tla: reporter processes (cas/add/sendProgress/sendIndex/sendLimit) x run loop, all interleavings model-checked for Once/Bytes/Index/NoGain/CacheAgrees/Monotone/PauseIff; "
                "(2) every (status x data operation) cell and TLC-simulated sequential histories with replays and reopen on real channels.Channels judged by C07.* in ChanJudge; "
                "(3) free-running concurrent reporters (2-8 goroutines, overlapping and replayed index ranges, seeded marks, limits) on the real engine, start/end-logged, judged by C07Judge "
                "(position sizes are distinct so announced progress deltas identify counted positions); non-trivial = data report step / concurrent case; distinct by (status, op, #events, result)")
    # manager level: every transport block report (unique or not, any status) reaches the channel engine
    stages.mgr_family(ctx, ["C07."], ["all"], lambda s: s["stim"]["kind"] in ("OnDataQueued", "OnDataSent", "OnDataReceived"), quick_n=1500, model=False, sims=True,
                      keep=lambda l: any(k in l for k in ('"kind":"OnDataQueued"', '"kind":"OnDataSent"', '"kind":"OnDataReceived"')))
    ctx.assumptions += ["atomic CAS/add primitives of sync/atomic", "quiescent process restarts only (a crash between the progress event and the index event is outside the stated quantifier, DESIGN F8)"]
    if not ctx.quick():
        # unbounded arithmetic: AcctInd.tla (positions and sizes are arbitrary integers, 4 concurrent reports) - Apalache discharges
        # Init => IndInv, IndInv /\ Next => IndInv', IndInv => Once /\ Bytes; the refuted variant (>= instead of > in the CAS) must fail
        import os, re
        mod = os.path.join(vlib.SPEC, "AcctInd.tla")
        obligations = [("initiation", ["--cinit=CInit", "--init=Init", "--inv=IndInv", "--length=0"]),
                       ("consecution", ["--cinit=CInit", "--init=IndInit", "--inv=IndInv", "--length=1"]),
                       ("implication", ["--cinit=CInit", "--init=IndInit", "--inv=Props", "--length=0"])]
        apal = {}
        for name, args in obligations:
            res, tail = vlib.run_apalache(ctx.scratch, mod, args)
            apal[name] = res
            if res != "ok":        # spec-level obligation (independent of /repo): recorded, never a verdict
                apal[name + "_note"] = tail[-300:]
        neg = ctx.path("AcctIndNeg.tla")
        src = open(mod).read().replace("MODULE AcctInd ", "MODULE AcctIndNeg ").replace("uniq[r] /\\ pos[r] > hw", "uniq[r] /\\ pos[r] >= hw")
        open(neg, "w").write(src)
        res, tail = vlib.run_apalache(ctx.scratch, neg, obligations[1][1])
        apal["refuted_variant(>=)"] = res
        if res != "violation":
            apal["refuted_variant_note"] = tail[-300:]
        ctx.extra["apalache_inductive_invariant"] = apal
        ctx.stages.append({"apalache": "AcctInd", "obligations": apal})
    res = ctx.tlc("Acct", "acct-quick.cfg" if ctx.quick() else "acct-full.cfg", timeout=1500, heap="8g")
    if res.violated:
        raise vlib.Inconclusive("Acct model violates %s\n%s" % (res.violated, res.out[-1500:]))
    vlib.tlc_must_pass(res, "Acct")
    ctx.add_model(res)
    data_variants = {"data": ["Accept", "TransferInitiated", "DataQueued", "DataSent", "DataReceived", "SetDataLimit", "PauseResponder", "ResumeResponder", "FinishTransfer", "ResponderCompletes", "Restart", "Disconnected"]}
    stages.chan_family(ctx, ["C07."], lambda s: s["op"] in ("DataQueued", "DataSent", "DataReceived"), seq_variants=data_variants,
                       seqs_quick=(10, 16), seqs_thorough=(100, 26))
    # concurrent reporters
    cases = gen_conc(ctx, 60 if ctx.quick() else 600)
    cp = ctx.path("conc.ndjson")
    vlib.write_ndjson(cp, cases)
    b = ctx.go_bin("chanx", race=not ctx.quick())
    out = ctx.path("concobs.ndjson")
    r = ctx.run_go(b, "TestConcurrent", env={"VERIF_CASES": cp, "VERIF_OUT": out}, timeout=900)
    if "DATA RACE" in r.stdout:
        ctx.violation({"rule": "C07.race"}, "data race reported by the race detector during concurrent block reports", detail=r.stdout[-4000:])
    elif r.returncode != 0:
        raise vlib.Inconclusive("TestConcurrent failed:\n" + r.stdout[-3000:])
    n, verdicts = stages.judge(ctx, out, module="C07Judge")
    idx = stages.index_obs(out)
    for v in verdicts:
        if v["rule"] == "harness":
            raise vlib.Inconclusive("harness error in %s" % v["case"])
        if not v["rule"].startswith("C07."):
            continue
        c = idx[v["case"]]
        ctx.violation({"rule": v["rule"], "op": v["op"], "mode": "concurrent"}, "%s violated under concurrent reporters (case %s)" % (v["rule"], v["case"]), detail={"verdict": v, "obs": c})
    for c in idx.values():
        ctx.traces += 1
        ctx.evaluations += len(c["calls"])
        ctx.distinct.add(("conc", c["calls"][0]["op"], len(c["anns"]), c["post"]["rp"], len(set(x["g"] for x in c["calls"]))))
    ctx.extra["concurrent_cases"] = n
    for c in list(idx.values())[:1]:
        ctx.sample({"kind": "concurrent", "case": c["case"], "calls": [(x["g"], x["index"], x["unique"], x["ret"]) for x in c["calls"]][:20],
                    "post": {k: c["post"][k] for k in ("queued", "sent", "received", "qIdx", "sIdx", "rIdx", "rp")}})
    if not ctx.quick():
        # the repository's own 275 tests, run with the trace hook: every transition they execute is judged
        stages.repo_suite_traces(ctx, ["C07."])

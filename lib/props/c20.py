"""C20 Concurrent use is free of data races and deadlocks."""
LEVEL = "exploration"
import os
import stages, vlib


def race_reports(out):
    """-race output -> (reports with frames in /repo library packages, reports in harness code only); function names kept."""
    import re
    repo, own = [], []
    for blk in re.split(r"={10,}\n", out):
        if "DATA RACE" not in blk:
            continue
        lines = blk.splitlines()
        frames = []
        for i, l in enumerate(lines):
            m = re.match(r"^\s+(/\S+\.go):(\d+)", l)
            if m and i > 0:
                fn = lines[i - 1].strip()
                fn = re.sub(r"\([^()]*\)$", "", fn)          # drop the argument list
                frames.append((fn, m.group(1), m.group(2)))
        lib = [f for f in frames if "go-data-transfer/v2/" in f[0] and "/harness/" not in f[1]]
        if lib:
            repo.append({"funcs": [f[0].split("go-data-transfer/v2/")[-1] for f in lib][:8], "frames": ["%s %s:%s" % (f[0].split("/")[-1], os.path.basename(f[1]), f[2]) for f in lib][:8]})
        else:
            own.append(blk[:1500])
    return repo, own


def run(ctx):
    ctx.rule = ("Lock.tla: the library's lock/wait structure for one channel (adapter channel lock held across the call into the manager, GetByID waiting for queue + cleanup handler, handler taking the "
                "channel lock, notifier with a subscriber calling back into the API): TLC deadlock search with all paths (finds the hook paths) and with the hook paths off (must be deadlock-free, "
                "EveryCallReturns under fairness); each deadlock trace class is replayed on the REAL manager + REAL graphsync adapter with a real-time watchdog and a goroutine dump; model-driven "
                "concurrent stress rounds on a real manager (8 goroutines x 60 calls: API, transport callbacks, message deliveries, (un)subscription churn, a subscriber calling back into the API "
                "from inside the callback, Stop) under the Go race detector; non-trivial = call issued; distinct by call kind")
    ctx.assumptions += ["data-race freedom is decided by the Go race detector on the schedules explored (a TLA+ model at this granularity cannot express memory accesses)",
                        "the lock model is hand-transcribed; its conformance is shown only by replaying its deadlock traces and by the absence of hangs in stress"]
    full = ctx.tlc("Lock", "lock-all.cfg", timeout=600)
    if full.timeout:
        raise vlib.Inconclusive("Lock model timeout")
    ctx.add_model(full)
    ctx.extra["lock_model_all_paths_stuck_state_found"] = full.violated == "NoStuckCall"
    safe = ctx.tlc("Lock", "lock-nohook.cfg", timeout=900)
    if safe.violated:
        raise vlib.Inconclusive("Lock model without the hook paths has a stuck state / non-returning call: %s\n%s" % (safe.violated, safe.out[-1500:]))
    vlib.tlc_must_pass(safe, "Lock (hook paths off)")
    ctx.add_model(safe)
    # the adapter's map lock: the code's order (CleanupChannel drops dtChannelsLk before dtChannel.lk) has no cycle with the hook's
    # chLk -> mapLk; the refuted variant (map lock held across cleanup) must be caught by the model
    mp = ctx.tlc("Lock", "lock-map.cfg", timeout=600)
    if mp.violated:
        raise vlib.Inconclusive("Lock model: NoMapCycle fails for the code's lock order\n" + mp.out[-1500:])
    vlib.tlc_must_pass(mp, "Lock (map lock)")
    ctx.add_model(mp)
    neg = ctx.tlc("Lock", "lock-map-neg.cfg", timeout=300)
    if neg.violated != "NoMapCycle":
        raise vlib.Inconclusive("Lock model: the refuted variant (map lock held across cleanup) is not refuted")
    ctx.extra["lock_model_map_variant_refuted"] = True
    # OpenChannel holds the channel lock across gs.Request while the outgoing-request hook runs: when the events handler refuses the request the
    # hook tells the opener and releases the channel from another goroutine (F17 fix); the refuted variant (cleanup from the hook itself) must be caught
    op = ctx.tlc("Lock", "lock-open.cfg", timeout=600)
    if op.violated:
        raise vlib.Inconclusive("Lock model: the OpenChannel / outgoing-hook path has a stuck state: %s\n%s" % (op.violated, op.out[-1500:]))
    vlib.tlc_must_pass(op, "Lock (open path)")
    ctx.add_model(op)
    opneg = ctx.tlc("Lock", "lock-open-neg.cfg", timeout=300)
    if opneg.violated != "NoStuckCall":
        raise vlib.Inconclusive("Lock model: the refuted variant (CleanupChannel called from the outgoing-request hook) is not refuted")
    ctx.extra["lock_model_open_variant_refuted"] = True
    # event delivery: pubsub lock (read-held by Publish across all callbacks) x per-transfer subscription table lock x the monitor's restart lock:
    # the code's order has no cycle; the two refuted variants (table lock held across unsubscribe in Stop; restart lock held across the monitor's shutdown) must be caught
    ls = ctx.tlc("LockSub", "locksub.cfg", timeout=300)
    if ls.violated:
        raise vlib.Inconclusive("LockSub model: the code's lock order around event delivery has a stuck state: %s\n%s" % (ls.violated, ls.out[-1500:]))
    vlib.tlc_must_pass(ls, "LockSub")
    ctx.add_model(ls)
    for cfgname in ("locksub-neg-stop.cfg", "locksub-neg-giveup.cfg"):
        neg2 = ctx.tlc("LockSub", cfgname, timeout=300)
        if neg2.violated != "NoStuck":
            raise vlib.Inconclusive("LockSub model: refuted variant %s is not refuted" % cfgname)
    ctx.extra["locksub_variants_refuted"] = True
    b = ctx.go_bin("lockx", race=True)
    out1 = ctx.path("lock-replay.ndjson")
    r = ctx.run_go(b, "TestReplay", env={"VERIF_OUT": out1}, timeout=300)
    if "DATA RACE" in r.stdout:
        ctx.violation({"rule": "C20.noRace", "where": "replay"}, "data race reported by the race detector", detail=r.stdout[-4000:])
    elif r.returncode != 0:
        raise vlib.Inconclusive("lockx TestReplay failed:\n" + r.stdout[-3000:])
    out2 = ctx.path("lock-stress.ndjson")
    r = ctx.run_go(b, "TestStress", env={"VERIF_OUT": out2, "VERIF_ROUNDS": 6 if ctx.quick() else 60}, timeout=2400)
    if "DATA RACE" in r.stdout:
        ctx.violation({"rule": "C20.noRace", "where": "stress"}, "data race reported by the race detector during concurrent stress", detail=r.stdout[-6000:])
    elif r.returncode != 0:
        raise vlib.Inconclusive("lockx TestStress failed:\n" + r.stdout[-3000:])
    # callback storms on the REAL graphsync adapter (harness gstx) under the race detector
    import importlib
    c16 = importlib.import_module("props.c16")
    bg = ctx.go_bin("gstx", race=True)
    storm_r = ctx.path("c20-gst-storm-race.ndjson")
    nst = 6 if ctx.quick() else 40
    r = ctx.run_go(bg, "TestStorm", env={"VERIF_OUT": storm_r, "VERIF_STORMS": nst, "VERIF_RACE": "1", "GORACE": "halt_on_error=0"}, timeout=1500)
    repo_r, own_r = race_reports(r.stdout)
    if own_r:
        raise vlib.Inconclusive("data race inside the harness itself:\n" + own_r[0])
    if r.returncode != 0 and not repo_r:
        raise vlib.Inconclusive("gstx TestStorm (-race) failed (rc=%d):\n%s" % (r.returncode, r.stdout[-3000:]))
    seen = set()
    for rep in repo_r:
        funcs = sorted(set(rep["funcs"]))
        key = {"rule": "C20.noRace", "where": "transport/graphsync", "funcs": [f for f in funcs if "ChannelsForPeer" in f][:1] or funcs[:3]}
        if vlib.canon(key) in seen:
            continue
        seen.add(vlib.canon(key))
        ctx.violation(key, "data race reported by the race detector in the graphsync adapter: %s" % rep["frames"][:4], detail=rep)
    ctx.extra["adapter_storms_under_race"] = nst
    ctx.extra["adapter_race_reports"] = len(repo_r)
    ctx.evaluations += nst
    # overlap scenarios of GsTPair.tla on the real adapter: an incoming-request hook parked in its handler (optionally re-entering
    # the transport as the manager's transport configurers do) || every Transport method on the same channel: every call returns
    bp = ctx.go_bin("gstx")
    npair, nover, pverd, pobs = c16.pairs_stage(ctx, bp)
    ctx.extra["pair_scenarios"] = {"run": npair, "overlapped": nover}
    ctx.traces += npair
    ctx.evaluations += 2 * npair
    for o in pobs.values():
        ctx.distinct.add(("pair", o["x"]["a"]["op"], o["reenter"], o["stuck"]))
    for v in pverd:
        if v["rule"] == "C20.everyCallReturns":
            o = pobs[v["case"]]
            ctx.violation({"rule": "C20.everyCallReturns", "scenario": "pair:InReq||" + v["op"], "reenter": v["reenter"]},
                          "C20.everyCallReturns violated: %s issued while an incoming-request hook is in its handler (re-entry %s) - not returned: %s (case %s)"
                          % (v["op"], v["reenter"], o["stuck"], v["case"]), detail=c16.pair_detail(v, o))
    # OpenChannel for a channel whose OnChannelOpened the manager refuses (unknown / terminated meanwhile): the outgoing-request hook
    # releases the channel while OpenChannel still holds its lock inside gs.Request - every call has to return
    oro = ctx.path("openrefused.ndjson")
    ctx.must_run_go(bp, "TestOpenRefused", env={"VERIF_OUT": oro}, timeout=300)
    nor, orv = stages.judge(ctx, oro, module="ReturnsJudge")
    oidx = stages.index_obs(oro)
    for v in orv:
        c = oidx[v["case"]]
        if v["rule"] == "harness":
            raise vlib.Inconclusive("TestOpenRefused: " + c["err"])
        ctx.violation({"rule": v["rule"], "scenario": v["op"]}, "%s violated: Transport.OpenChannel (%s, restart=%s) did not return within %d ms after the events handler refused OnChannelOpened; parked: %s"
                      % (v["rule"], c["dir"], c["restart"], c["at_ms"], [x[:160] for x in c["stuck"][:1]]), detail=c)
    for c in oidx.values():
        ctx.traces += 1
        ctx.evaluations += 1
        ctx.distinct.add(("openRefused", c["dir"], c["restart"], c["returned"]))
    # the channel monitor inside a real manager: an event of the monitored channel is being published (notifier inside the subscriber table's read
    # lock, not yet at the monitor's callback) while the monitor's restart attempt ends (gives up -> Shutdown/unsubscribe/close, or succeeds)
    out3 = ctx.path("lock-monoverlap.ndjson")
    r = ctx.run_go(b, "TestMonitorOverlap", env={"VERIF_OUT": out3}, timeout=600)
    if "DATA RACE" in r.stdout:
        ctx.violation({"rule": "C20.noRace", "where": "monitorOverlap"}, "data race reported by the race detector in the monitor overlap scenarios", detail=r.stdout[-6000:])
    elif r.returncode != 0:
        raise vlib.Inconclusive("lockx TestMonitorOverlap failed:\n" + r.stdout[-3000:])
    # Manager.Stop issued while a subscriber callback (global / per-transfer, ordinary / terminal event) is still running
    out4 = ctx.path("lock-stopoverlap.ndjson")
    r = ctx.run_go(b, "TestStopOverlap", env={"VERIF_OUT": out4}, timeout=600)
    if "DATA RACE" in r.stdout:
        ctx.violation({"rule": "C20.noRace", "where": "stopOverlap"}, "data race reported by the race detector in the stop overlap scenarios", detail=r.stdout[-6000:])
    elif r.returncode != 0:
        raise vlib.Inconclusive("lockx TestStopOverlap failed:\n" + r.stdout[-3000:])
    # graphsync calling back into the adapter (which holds its request-map / channel lock across the call into the manager) while the channel's
    # cleanup handler - which needs those locks - is held at its gate: real manager + real adapter
    out5 = ctx.path("lock-cbcleanup.ndjson")
    r = ctx.run_go(b, "TestCallbackDuringCleanup", env={"VERIF_OUT": out5}, timeout=600)
    if "DATA RACE" in r.stdout:
        ctx.violation({"rule": "C20.noRace", "where": "callbackDuringCleanup"}, "data race reported by the race detector in the callback-during-cleanup scenarios", detail=r.stdout[-6000:])
    elif r.returncode != 0:
        raise vlib.Inconclusive("lockx TestCallbackDuringCleanup failed:\n" + r.stdout[-3000:])
    # a transport option that returns an error (per transfer / from a configurer), then whatever touches the option tables again: another open,
    # the failed channel's close + cleanup + query, Stop - a fault path must not leave a library lock held
    out6 = ctx.path("lock-failopt.ndjson")
    r = ctx.run_go(b, "TestFailingOption", env={"VERIF_OUT": out6}, timeout=600)
    if "DATA RACE" in r.stdout:
        ctx.violation({"rule": "C20.noRace", "where": "failingOption"}, "data race reported by the race detector in the failing-option scenarios", detail=r.stdout[-6000:])
    elif r.returncode != 0:
        raise vlib.Inconclusive("lockx TestFailingOption failed:\n" + r.stdout[-3000:])
    both = ctx.path("lock-obs.ndjson")
    with open(both, "w") as f:
        for p in (out1, out2, out3, out4, out5, out6):
            if os.path.exists(p):
                f.write(open(p).read())
    n, verdicts = stages.judge(ctx, both, module="LockJudge")
    idx = stages.index_obs(both)
    for v in verdicts:
        c = idx[v["case"]]
        key = {"rule": v["rule"], "scenario": v["op"]}
        if c.get("err"):
            raise vlib.Inconclusive("lockx scenario %s failed in the harness: %s" % (v["case"], c["err"]))
        ctx.violation(key, "%s violated (%s): %s" % (v["rule"], v["case"], (c.get("frames") or c.get("parked") or c.get("notReturned") or c.get("panics"))), detail=c)
    for c in idx.values():
        ctx.traces += 1
        if "scenario" in c:
            ctx.evaluations += 1
            ctx.distinct.add(("replay", c["scenario"], c["returned"]))
        else:
            ctx.evaluations += c["calls"]
            ctx.distinct.add(("stress", c["case"], c["calls"] // 50, c["inCallback"] > 0))
    for c in list(idx.values())[:3]:
        ctx.sample(c)

"""C20 Concurrent use is free of data races and deadlocks."""
LEVEL = "exploration"
import os
import stages, vlib


def run(ctx):
    ctx.rule = ("Lock.tla: the library's lock/wait structure for one channel (adapter channel lock held across the call into the manager, GetByID waiting for queue + cleanup handler, handler taking the "
                "channel lock, notifier with a subscriber calling back into the API): TLC deadlock search with all paths (finds the hook paths) and with the hook paths off (must be deadlock-free, "
                "EveryCallReturns under fairness); each deadlock trace class is replayed on the REAL manager + REAL graphsync adapter with a real-time watchdog and a goroutine dump; model-driven "
                "concurrent stress rounds on a real manager (8 goroutines x 60 calls: API, transport callbacks, message deliveries, (un)subscription churn, a subscriber calling back into the API "
                "from inside the callback, Stop) under the Go race detector; non-trivial = call issued; distinct by call kind")
    ctx.assumptions += ["data-race freedom is decided by the Go race detector on the schedules explored (a TLA+ model at this granularity cannot express memory accesses)",
                        "the lock model is hand-transcribed; its conformance is shown only by replaying its deadlock traces and by the absence of hangs in stress"]
    full = ctx.tlc("Lock", "lock-all.cfg", timeout=600)
    if full.timeout:
        raise vlib.Inconclusive("Lock model timeout")
    ctx.add_model(full)
    ctx.extra["lock_model_all_paths_stuck_state_found"] = full.violated == "NoStuckCall"
    safe = ctx.tlc("Lock", "lock-nohook.cfg", timeout=900)
    if safe.violated:
        raise vlib.Inconclusive("Lock model without the hook paths has a stuck state / non-returning call: %s\n%s" % (safe.violated, safe.out[-1500:]))
    vlib.tlc_must_pass(safe, "Lock (hook paths off)")
    ctx.add_model(safe)
    b = ctx.go_bin("lockx", race=True)
    out1 = ctx.path("lock-replay.ndjson")
    r = ctx.run_go(b, "TestReplay", env={"VERIF_OUT": out1}, timeout=300)
    if "DATA RACE" in r.stdout:
        ctx.violation({"rule": "C20.noRace", "where": "replay"}, "data race reported by the race detector", detail=r.stdout[-4000:])
    elif r.returncode != 0:
        raise vlib.Inconclusive("lockx TestReplay failed:\n" + r.stdout[-3000:])
    out2 = ctx.path("lock-stress.ndjson")
    r = ctx.run_go(b, "TestStress", env={"VERIF_OUT": out2, "VERIF_ROUNDS": 6 if ctx.quick() else 60}, timeout=2400)
    if "DATA RACE" in r.stdout:
        ctx.violation({"rule": "C20.noRace", "where": "stress"}, "data race reported by the race detector during concurrent stress", detail=r.stdout[-6000:])
    elif r.returncode != 0:
        raise vlib.Inconclusive("lockx TestStress failed:\n" + r.stdout[-3000:])
    both = ctx.path("lock-obs.ndjson")
    with open(both, "w") as f:
        for p in (out1, out2):
            if os.path.exists(p):
                f.write(open(p).read())
    n, verdicts = stages.judge(ctx, both, module="LockJudge")
    idx = stages.index_obs(both)
    for v in verdicts:
        c = idx[v["case"]]
        key = {"rule": v["rule"], "scenario": v["op"]}
        ctx.violation(key, "%s violated (%s): %s" % (v["rule"], v["case"], (c.get("frames") or c.get("parked") or c.get("notReturned") or c.get("panics"))), detail=c)
    for c in idx.values():
        ctx.traces += 1
        if "scenario" in c:
            ctx.evaluations += 1
            ctx.distinct.add(("replay", c["scenario"], c["returned"]))
        else:
            ctx.evaluations += c["calls"]
            ctx.distinct.add(("stress", c["case"], c["calls"] // 50, c["inCallback"] > 0))
    for c in list(idx.values())[:3]:
        ctx.sample(c)

"""C14 Channel monitor: restarts serialized and bounded; one verdict per channel.

Mon.tla (one monitored channel, discrete time, every goroutine a process) is model-checked exhaustively; TLC-simulated
behaviours, TLC counterexamples of the strict "forgets" reading (F6), an enumerated boundary table and seeded random
schedules are replayed on the REAL channelmonitor.Monitor in testing/synctest bubbles (harness monx); MonJudge.tla
evaluates the C14 formulas on the observed call log and validates every observed history as a behaviour of Mon."""
import os, json, re, threading, itertools
import vlib, stages
from vlib import Inconclusive

LIVE_ST = ["Requested", "Ongoing", "TransferFinished", "ResponderCompleted", "ResponderPaused", "Queued", "AwaitingAcceptance"]
FIN_ST = ["Completing", "Failing", "Cancelling", "Completed", "Failed", "Cancelled"]
CODES = ["Accept", "SendDataError", "ReceiveDataError", "FinishTransfer", "DataSent", "DataReceived", "DataQueued", "NewVoucherResult", "Shut"]
RULES = ["C14.oneAtATime", "C14.queuedOnce", "C14.bounded", "C14.closeOnce", "C14.acceptTO", "C14.completeTO", "C14.forgets", "C14.disabled", "C14.panic"]


def tset(xs):
    return "{" + ", ".join(('"%s"' % x) if isinstance(x, str) else ("TRUE" if x is True else "FALSE" if x is False else str(x)) for x in xs) + "}"


def mon_cfg(en=(True,), mx=(1, 2), acc=(0, 2), cmp_=(0, 1), deb=(1,), bof=(1,), hz=3, lats=(0, 1), events=3, fails=2,
            codes=("Accept", "SendDataError", "FinishTransfer", "DataSent", "Shut"), stats=("Ongoing", "Completing"),
            record=False, thin=1, bug="none", cexby="any", invariants=(), properties=(), spec="Spec", extra=""):
    t = "SPECIFICATION %s\nCONSTANTS\n" % spec
    t += " EnSet = %s\n MaxSet = %s\n AccSet = %s\n CmpSet = %s\n DebSet = %s\n BofSet = %s\n HzSet = %s\n Lats = %s\n" % (
        tset(en), tset(mx), tset(acc), tset(cmp_), tset(deb), tset(bof), tset([hz]), tset(lats))
    t += " MaxEvents = %d\n MaxFails = %d\n Codes = %s\n Stats = %s\n Record = %s\n Thin = %d\n Bug = \"%s\"\n CexBy = \"%s\"\n" % (
        events, fails, tset(codes), tset(stats), "TRUE" if record else "FALSE", thin, bug, cexby)
    t += extra
    if invariants:
        t += "INVARIANTS " + " ".join(invariants) + "\n"
    if properties:
        t += "PROPERTIES " + " ".join(properties) + "\n"
    return t


SAFETY = ["TypeOK", "OneAtATime", "QueuedOnce", "Bounded", "CloseOnce", "AcceptTO", "CompleteTO", "Forgets", "Disabled"]
STEPS = ["QueuedOnceStep", "BoundedStep", "ForgetsStep"]
LIVENESS = ["L_Forgets", "L_Queued", "L_GiveUp", "L_Request"]


# ---- TLC case (merged history) -> harness case ------------------------------------------------------------------
def conv_case(c, name, inject=False, reps=1, pull=False):
    """events = the environment entries of the behaviour; script = outcome/latency of every call that was really made.
    inject: an event that the behaviour places right after a call's start, at the instant the call returns, is delivered
    from inside that call (the only way to force 'seen before the call returned' without a hook)."""
    events, script = [], []
    last_call = None
    for e in c["log"]:
        if e["call"] == "ev":
            ev = {"t": e["t"], "code": e["code"], "st": e["st"] or "Ongoing"}
            if inject and last_call is not None and last_call["t"] + last_call["lat"] == e["t"] and "inject" not in script[-1]:
                script[-1]["inject"] = ev
            else:
                events.append(ev)
            last_call = None if inject else last_call
        elif e["call"] in ("connect", "restart"):
            if e["res"] != "ctx":
                script.append({"res": e["res"], "lat": e["lat"]})
                last_call = e
            else:
                last_call = None
        else:
            last_call = None
    return {"case": name, "cfg": c["cfg"], "unit": 1000000, "pull": pull, "events": events, "script": script, "reps": reps,
            "src": "tlc", "expect": c.get("expect", {})}


def mk(name, cfg, events, script=(), pull=False, reps=1, src="table"):
    d = {"en": True, "max": 2, "acc": 0, "cmp": 0, "deb": 0, "bof": 0, "hz": 12}
    d.update(cfg)
    evs = sorted([dict({"t": e[0], "code": e[1], "st": e[2]}, **({"foreign": True} if len(e) > 3 and e[3] else {})) for e in events], key=lambda e: e["t"])
    return {"case": name, "cfg": d, "unit": 1000000, "pull": pull, "events": evs,
            "script": [{"res": r, "lat": l} for (r, l) in script], "reps": reps, "src": src}


def boundary_cases(thorough):
    """Enumerated table: every timer / window boundary at t-1, t, t+1 ticks; all failure patterns of length <= 3."""
    cs = []
    n = [0]

    def add(tag, cfg, events, script=()):
        n[0] += 1
        cs.append(mk("tab-%s-%d" % (tag, n[0]), cfg, events, script, pull=(n[0] % 2 == 0)))
    ON = "Ongoing"
    # accept timeout: what arrives around the deadline
    for A in (3, 5):
        add("acc", {"acc": A}, [])
        for off in (-1, 0, 1):
            for code, st in (("Accept", ON), ("Accept", "Requested"), ("DataSent", ON), ("Accept", "Completing"), ("Complete", "Completed"),
                             ("Error", "Failing"), ("Cancel", "Cancelled"), ("Shut", ""), ("Restart", ON), ("NewVoucherResult", ON)):
                add("acc", {"acc": A}, [(A + off, code, st)])
        add("acc", {"acc": A}, [(1, "Accept", ON), (2, "Accept", ON)])
        add("acc", {"acc": A}, [(1, "Accept", ON, True)])                       # another channel's Accept does not stop the timer
        add("acc", {"acc": A, "cmp": 2}, [(1, "Complete", "Completed", True), (1, "FinishTransfer", "TransferFinished", True), (2, "SendDataError", ON, True)])
        add("acc", {"acc": A, "cmp": 2}, [(1, "Accept", ON), (2, "FinishTransfer", "TransferFinished")])
        add("acc", {"acc": A, "cmp": A - 1}, [(1, "FinishTransfer", "TransferFinished")])          # both deadlines at the same instant
    add("acc0", {"acc": 0}, [(4, "DataSent", ON)])
    # complete timeout
    for C in (2, 4):
        for f in (0, 1):
            add("cmp", {"cmp": C}, [(f, "FinishTransfer", "TransferFinished")])
            for off in (-1, 0, 1):
                for code, st in (("Complete", "Completing"), ("Complete", "Completed"), ("Error", "Failing"), ("Shut", ""), ("ResponderCompletes", "ResponderCompleted"),
                                 ("DataReceived", ON)):
                    add("cmp", {"cmp": C}, [(f, "FinishTransfer", "TransferFinished"), (f + C + off, code, st)])
            add("cmp", {"cmp": C}, [(f, "FinishTransfer", "TransferFinished"), (f + 1, "FinishTransfer", "TransferFinished")])
            add("cmp", {"cmp": C}, [(f, "FinishTransfer", "TransferFinished"), (f + 1, "FinishTransfer", "TransferFinished"), (f + C, "Complete", "Completing")])
            add("cmp", {"cmp": C}, [(f, "FinishTransfer", "Completing")])
    add("cmp0", {"cmp": 0}, [(1, "FinishTransfer", "TransferFinished")])
    add("cmp0", {"cmp": 0, "acc": 2}, [(1, "Accept", ON), (2, "FinishTransfer", "TransferFinished")])
    # debounce: bursts of errors with gaps around the debounce time
    for D in (0, 2, 3):
        for gap in sorted(set([max(0, D - 1), D, D + 1, 1])):
            for e2 in ("SendDataError", "ReceiveDataError"):
                add("deb", {"deb": D, "max": 3, "bof": 1}, [(1, "SendDataError", ON), (1 + gap, e2, ON)], [("ok", 0), ("ok", 0)])
        add("deb", {"deb": D, "max": 3}, [(1, "SendDataError", ON), (2, "ReceiveDataError", ON), (3, "SendDataError", ON), (4, "ReceiveDataError", ON)])
    # a restart requested during an attempt / during its backoff / right at its end
    for mx in (1, 2, 3):
        for (lc, lr, B) in ((1, 1, 2), (0, 2, 0), (2, 0, 1), (0, 0, 3)):
            F = lc + lr + B
            for t2 in sorted(set(range(0, F + 3))):
                add("queue", {"max": mx, "bof": B}, [(0, "SendDataError", ON), (t2, "ReceiveDataError", ON)], [("ok", lc), ("ok", lr), ("ok", 0), ("ok", 0)])
            add("queue", {"max": mx, "bof": B}, [(0, "SendDataError", ON), (1, "ReceiveDataError", ON), (F, "SendDataError", ON)], [("ok", lc), ("ok", lr), ("ok", lc), ("ok", lr)])
            add("queue", {"max": mx, "bof": B}, [(0, "SendDataError", ON), (1, "SendDataError", ON), (1, "DataSent", ON), (F + 1, "DataSent", ON), (F + 2, "SendDataError", ON)],
                [("ok", lc), ("ok", lr), ("ok", lc), ("ok", lr), ("ok", 0), ("ok", 0)])
    # bound: all failure patterns of length <= 3, with and without latency
    for mx in (1, 2, 3):
        for ln in (1, 2, 3):
            for pat in itertools.product(("ok", "fail"), repeat=ln):
                for lat in ((0, 1) if thorough else (0,)) if ln == 3 else (0, 1):
                    add("fail", {"max": mx, "bof": 1}, [(1, "SendDataError", ON)], [(r, lat) for r in pat])
        # data progress resets the count
        add("reset", {"max": mx}, [(0, "SendDataError", ON), (1, "DataSent", ON), (2, "SendDataError", ON), (3, "DataReceived", ON), (4, "ReceiveDataError", ON),
                                   (5, "DataSent", ON), (6, "SendDataError", ON)])
        add("reset", {"max": mx}, [(0, "SendDataError", ON), (2, "SendDataError", ON), (4, "ReceiveDataError", ON), (6, "SendDataError", ON)])
        add("reset", {"max": mx}, [(0, "SendDataError", ON), (1, "DataQueued", ON), (2, "SendDataError", ON), (3, "DataQueued", ON), (4, "ReceiveDataError", ON)])
        add("reset", {"max": mx}, [(0, "SendDataError", ON), (2, "DataSent", ON), (3, "SendDataError", ON)], [("fail", 1), ("fail", 1), ("fail", 1), ("ok", 1)])
        add("reset", {"max": mx}, [(0, "SendDataError", ON), (1, "DataSent", ON)], [("fail", 2), ("fail", 2), ("fail", 2)])
    # verdict while a restart is in flight (second closer), cleanup/terminal status while a restart is in flight
    for mx in (1, 2):
        for acc, lc in ((2, 5), (3, 4)):
            add("2nd", {"max": mx, "acc": acc}, [(0, "SendDataError", ON)], [("ok", lc), ("ok", 0)])
            add("2nd", {"max": mx, "acc": acc}, [(0, "SendDataError", ON)], [("ok", 0), ("ok", lc)])
            add("2nd", {"max": mx, "acc": acc}, [(0, "SendDataError", ON)], [("fail", lc), ("ok", 0)])
            add("2nd", {"max": mx, "acc": acc, "bof": 6}, [(0, "SendDataError", ON), (1, "SendDataError", ON)], [("ok", 0), ("ok", 0)])
            add("2nd", {"max": mx, "cmp": acc}, [(0, "FinishTransfer", "TransferFinished"), (0, "SendDataError", ON)], [("ok", lc), ("ok", 0)])
        for tf in (1, 2, 3, 4, 5):
            for st in ("Completing", "Failed"):
                add("finmid", {"max": mx, "bof": 2, "acc": 9}, [(0, "SendDataError", ON), (1, "ReceiveDataError", ON), (tf, "Complete", st)], [("ok", 2), ("ok", 1), ("ok", 1), ("ok", 1)])
                add("finmid", {"max": mx, "bof": 2, "cmp": 9}, [(0, "FinishTransfer", "TransferFinished"), (0, "SendDataError", ON), (tf, "Complete", st)], [("fail", 2), ("ok", 2), ("ok", 1)])
        add("shutmid", {"max": mx, "bof": 2, "acc": 6}, [(0, "SendDataError", ON), (1, "Shut", ""), (2, "SendDataError", ON)], [("ok", 2), ("ok", 1)])
    # disabled monitoring
    for evs in ([], [(0, "SendDataError", ON)], [(1, "FinishTransfer", "TransferFinished"), (2, "SendDataError", ON), (3, "Complete", "Completing")], [(1, "Shut", "")]):
        add("off", {"en": False, "max": 1, "acc": 2, "cmp": 1}, evs)
    return cs


def random_cases(rng, n):
    cs = []
    for i in range(n):
        cfg = {"en": rng.random() > 0.04, "max": rng.choice([1, 1, 2, 2, 3]), "acc": rng.choice([0, 0, rng.randint(3, 30)]),
               "cmp": rng.choice([0, rng.randint(2, 20), rng.randint(2, 20)]), "deb": rng.choice([0, 0, rng.randint(1, 6)]),
               "bof": rng.choice([0, rng.randint(1, 8)]), "hz": 80}
        evs = []
        ne = rng.randint(0, 10)
        times = sorted(rng.randint(0, 70) for _ in range(ne))
        fin = False
        for t in times:
            if fin or rng.random() < 0.07:
                fin = True
                evs.append((t, rng.choice(["Complete", "CleanupComplete", "Error", "Cancel", "SendDataError", "DataSent"]), rng.choice(FIN_ST)))
                continue
            code = rng.choice(["Accept", "SendDataError", "SendDataError", "ReceiveDataError", "ReceiveDataError", "FinishTransfer", "DataSent", "DataReceived",
                               "DataQueued", "NewVoucherResult", "Shut" if rng.random() < 0.15 else "DataSent", "Restart", "PauseResponder"])
            if rng.random() < 0.08:
                evs.append((t, rng.choice(["Accept", "SendDataError", "FinishTransfer", "Complete", "DataSent"]), rng.choice(LIVE_ST + FIN_ST), True))
                continue
            evs.append((t, code, "" if code == "Shut" else rng.choice(LIVE_ST)))
        script = [(rng.choice(["ok", "ok", "fail"]), rng.choice([0, 0, 1, 2, 3, 5, 8])) for _ in range(rng.randint(0, 7))]
        c = mk("rnd-%d" % i, cfg, evs, script, pull=rng.random() < 0.5, src="random")
        cs.append(c)
    return cs


# ---- stages -----------------------------------------------------------------------------------------------------
def tlc_model(ctx, name, text, out, workers, timeout=1500, expect_violation=False, **kw):
    cfg = stages.write_cfg(ctx, name + ".cfg", text)
    res = ctx.tlc("Mon", cfg, workers=workers, timeout=timeout, **kw)
    out[name] = res
    return res


def sim_cases(ctx, n, seed, text, name):
    cfg = stages.write_cfg(ctx, name + ".cfg", text)
    res = ctx.tlc("Mon", cfg, workers=1, simulate="num=%d" % n, depth=600, seed=seed, timeout=600)
    if res.timeout or "Error:" in res.out:
        raise Inconclusive("Mon simulation failed:\n" + res.out[-2000:])
    return stages.parse_cases(res.out)


def judge(ctx, obs_path, lats, codes, stats):
    d_obs = ctx.path("obs.ndjson")
    if os.path.abspath(obs_path) != os.path.abspath(d_obs):
        import shutil
        shutil.copy(obs_path, d_obs)
    text = ("SPECIFICATION JSpec\nCONSTANTS\n ObsFile = \"obs.ndjson\"\n OutFile = \"verdicts.ndjson\"\n EnSet = {TRUE}\n MaxSet = {1}\n AccSet = {0}\n CmpSet = {0}\n"
            " DebSet = {0}\n BofSet = {0}\n HzSet = {1}\n Lats = %s\n Codes = %s\n Stats = %s\n MaxEvents = 100000\n MaxFails = 100000\n"
            " Record = TRUE\n Thin = 1\n Bug = \"none\"\n CexBy = \"any\"\n" % (tset(sorted(lats)), tset(sorted(codes)), tset(sorted(stats))))
    cfg = stages.write_cfg(ctx, "mon-judge-run.cfg", text)
    res = ctx.tlc("MonJudge", cfg, workers=4 if ctx.quick() else 8, timeout=1500, extra_files=[d_obs], heap="8g")
    vlib.tlc_must_pass(res, "MonJudge")
    m = re.search(r'<<"@@judged", (\d+)>>', res.out)
    if not m:
        raise Inconclusive("judge did not report the number of cases")
    p = os.path.join(res.dir, "verdicts.ndjson")
    verdicts = vlib.read_ndjson(p) if os.path.exists(p) else []
    conf = set(re.findall(r'"@@conf", "([^"]+)"', res.out))
    return int(m.group(1)), verdicts, conf, res


def signature(o):
    """non-trivial behaviour class of an observation (for distinct_nontrivial)"""
    calls = [l["call"] for l in o["log"]]
    closes = [l["res"] for l in o["log"] if l["call"] == "close"]
    fails = sum(1 for l in o["log"] if l["call"] in ("connect", "restart") and l["out"] == "fail")
    ctxs = sum(1 for l in o["log"] if l["call"] in ("connect", "restart") and (l["out"] == "ctx" or l["res"] == "ctx"))
    fin = any(e["fin"] and e["delivered"] for e in o["events"])
    return (o["cfg"]["max"], min(calls.count("connect"), 4), min(calls.count("restart"), 3), min(fails, 3), min(ctxs, 2), tuple(closes), fin,
            calls.count("rcomplete") > 0, o["cfg"]["acc"] > 0, o["cfg"]["cmp"] > 0, o["cfg"]["bof"] > 0, o["cfg"]["en"])


def replay_and_judge(ctx, cases, tag):
    cp = ctx.path("cases-%s.ndjson" % tag)
    vlib.write_ndjson(cp, cases)
    b = ctx.go_bin("monx")
    out = ctx.path("obs-%s.ndjson" % tag)
    ctx.must_run_go(b, "TestReplay", env={"VERIF_CASES": cp, "VERIF_OUT": out}, timeout=600)
    if not os.path.exists(out) or os.path.getsize(out) == 0:
        raise Inconclusive("monx produced no observations")
    obs = vlib.read_ndjson(out)
    lats = {0} | {l["lat"] for o in obs for l in o["mlog"]}
    codes = {"Shut"} | {e["code"] for o in obs for e in o["mlog"] if e["call"] == "ev"}
    stats = {"Ongoing"} | {e["st"] for o in obs for e in o["mlog"] if e["call"] == "ev"}
    n, verdicts, conf, res = judge(ctx, out, lats, codes, stats)
    if n != len(obs):
        raise Inconclusive("judge saw %d cases, harness wrote %d" % (n, len(obs)))
    return obs, verdicts, conf


def classify(ctx, cases, obs, verdicts, conf):
    by_case = {c["case"]: c for c in cases}
    oidx = {o["case"]: o for o in obs}
    f6 = {}
    for v in verdicts:
        base = v["case"].split("#")[0]
        o = oidx.get(v["case"], {})
        if v["rule"] == "harness":
            raise Inconclusive("harness error in case %s: %s" % (v["case"], o.get("err")))
        if v["rule"] not in RULES:
            continue
        key = {"rule": v["rule"], "sub": v["sub"]}
        closers = sorted({l["res"] for l in o.get("log", []) if l["call"] == "close"})
        if v["sub"] == "closeAfterSeen.sameInstant":
            f6.setdefault(base, [0, closers])[0] += 1
        ctx.violation(key, "%s (%s) violated by the real monitor in case %s (cfg %s; closer %s)" % (v["rule"], v["sub"], v["case"], json.dumps(o.get("cfg")), ",".join(closers) or "-"),
                      detail={"verdict": v, "case": by_case.get(base), "observation": o})
    nd = 0
    for o in obs:
        if o["panic"] == "" and not o["runaway"] and o["err"] == "" and o["case"] not in conf:
            nd += 1
            if len(ctx.drift) < 50:
                ctx.drift.append({"case": o["case"], "cfg": o["cfg"], "mlog": o["mlog"], "end": o["end"], "note": "observed history is not a behaviour of Mon (trace validation)"})
    return f6, nd


def run(ctx):
    quick = ctx.quick()
    ctx.rule = ("every replayed schedule is run on the real channelmonitor.Monitor in a synctest bubble; MonJudge evaluates oneAtATime/queuedOnce/bounded/closeOnce/"
                "acceptTO/completeTO/forgets/disabled on the observed call log + event times (same-instant orders that are not observable never fire a rule) and validates "
                "the observed history as a behaviour of Mon; non-trivial = distinct (max, #connect, #restart, #failures, #ctx-errors, closers, saw-fin, restart-complete, "
                "which timeouts/backoff enabled) classes")
    # the monitor composed with the manager it supervises: real manager + real monitor, doubles only at network and transport (spec/MonMgr.tla)
    monmgr_stage(ctx)
    ctx.rule += ("; MonMgr.tla: the monitor composed with the REAL manager (whose restart re-enters the monitor and whose close-with-error fails the channel): restart cycles under every "
                 "pattern of failing restart requests x bound x data progress, accept/complete timeouts end to end (C14.givesUp/retried/bounded/closeOnce/noSpuriousClose/monitoredIffAlive)")
    ctx.assumptions += [
        "maximal progress: goroutines take no time compared with a tick (synctest semantics); races appear as same-instant interleavings, explored exhaustively in Mon",
        "the monitor-API double honours ctx (a call entered with a cancelled context fails at once); CloseDataTransferChannelWithError returns at once (F2 is C09's)",
        "after an event with a cleanup/terminal status only such events follow (C02)",
        "the order of goroutines woken at the same virtual instant (timer vs driver vs `go mc.Shutdown()`) cannot be forced without a hook: approximated by t-1, t, t+1 "
        "schedules, repetitions of the same-instant schedules, and in-call injection for the restart-error closer",
    ]
    if ctx.replay:
        rp = json.load(open(ctx.replay))
        case = (rp.get("detail") or {}).get("case")
        if not case:
            raise Inconclusive("replay file has no case")
        obs, verdicts, conf = replay_and_judge(ctx, [case], "replay")
        classify(ctx, [case], obs, verdicts, conf)
        ctx.evaluations = len(obs)
        ctx.sample({"kind": "replay", "case": case["case"], "mlog": obs[0]["mlog"], "verdicts": verdicts})
        return

    # ---- 1. models, in the background -------------------------------------------------------------------------
    models, errs = {}, []

    def bg(fn):
        def w():
            try:
                fn()
            except Exception as e:  # noqa
                errs.append(e)
        t = threading.Thread(target=w)
        t.start()
        return t

    def exhaustive():
        if quick:
            tlc_model(ctx, "mon-quick", open(os.path.join(vlib.SPEC, "cfg", "mon-quick.cfg")).read(), models, workers=6)
        else:
            for nm in ("mon-thorough-a", "mon-thorough-b", "mon-thorough-c"):
                tlc_model(ctx, nm, open(os.path.join(vlib.SPEC, "cfg", nm + ".cfg")).read(), models, workers=max(4, vlib.NCPU - 4), timeout=2400, heap="10g")

    def liveness():
        tlc_model(ctx, "mon-live", open(os.path.join(vlib.SPEC, "cfg", "mon-live.cfg")).read(), models, workers=2)

    threads = [bg(exhaustive), bg(liveness)]

    # ---- 2. cases ------------------------------------------------------------------------------------------------
    cases = []
    # 2a. counterexamples of the strict reading of "forgets" (suspect F6) found by TLC on the model -> replay cases
    # 2b. TLC-simulated behaviours                                  (all TLC runs and the go build run concurrently)
    cex, simres, binres = {}, {}, {}
    CEX = (("restarts", dict(mx=(1,), acc=(0,), cmp_=(0,), deb=(0,), bof=(0,), hz=1, lats=(0,), events=2, fails=1, codes=("SendDataError", "Complete"))),
           ("accept", dict(mx=(1,), acc=(1,), cmp_=(0,), deb=(0,), bof=(0,), hz=2, lats=(0,), events=1, fails=0, codes=("Complete",))),
           ("complete", dict(mx=(1,), acc=(0,), cmp_=(1,), deb=(0,), bof=(0,), hz=2, lats=(0,), events=2, fails=0, codes=("FinishTransfer", "Complete"))))

    def do_cex(by, kw):
        r = tlc_model(ctx, "mon-f6-" + by, mon_cfg(record=True, cexby=by, invariants=["ForgetsStrictDump"], **kw), models, workers=1, timeout=300)
        got = stages.parse_cases(r.out, tag="@@cex")
        if r.violated != "ForgetsStrictDump" or not got:
            raise Inconclusive("TLC did not produce the expected counterexample of ForgetsStrict (closer %s):\n%s" % (by, r.out[-1500:]))
        cex[by] = got[0]
    nsim = 160 if quick else 2500

    def do_sim(k, n):
        simres[k] = sim_cases(ctx, n, ctx.seed * 7919 + 11 + k, open(os.path.join(vlib.SPEC, "cfg", "mon-sim.cfg")).read(), "mon-sim-%d" % k)
    nshard = 1 if quick else 5
    fg = [bg(lambda by=by, kw=kw: do_cex(by, kw)) for by, kw in CEX]
    fg += [bg(lambda k=k: do_sim(k, nsim // nshard)) for k in range(nshard)]
    fg.append(bg(lambda: binres.setdefault("bin", ctx.go_bin("monx"))))
    for t in fg:
        t.join()
    if errs:
        raise errs[0]
    for by, _ in CEX:
        reps = (3 if by == "restarts" else 40) if quick else (10 if by == "restarts" else 400)
        cases.append(conv_case(cex[by], "cex-f6-" + by, inject=(by == "restarts"), reps=reps))
        cases[-1]["src"] = "cex"
    ctx.extra["model_counterexamples"] = {by: [(e["call"], e["t"], (e["code"] + "/" + e["st"]) if e["call"] == "ev" else e["res"]) for e in c["log"]] for by, c in cex.items()}
    sims = [c for k in range(nshard) for c in simres[k]]
    if len(sims) < nsim // 2:
        raise Inconclusive("simulation produced only %d behaviours" % len(sims))
    for i, c in enumerate(sims):
        cases.append(conv_case(c, "sim-%d" % i, pull=(i % 2 == 1)))
    # 2c. enumerated boundary table, 2d. seeded random schedules on a finer grid
    tab = boundary_cases(not quick)
    cases += tab
    rnd = random_cases(ctx.rng, 150 if quick else 3000)
    cases += rnd
    ctx.extra["cases"] = {"tlc_simulated": len(sims), "tlc_counterexamples": len(cex), "boundary_table": len(tab), "random": len(rnd)}

    # ---- 3. replay on the real monitor, 4. judge -------------------------------------------------------------------
    obs, verdicts, conf = replay_and_judge(ctx, cases, "all")
    f6, ndrift = classify(ctx, cases, obs, verdicts, conf)
    ctx.evaluations = len(obs)
    ctx.traces = len([o for o in obs if o["case"] in conf])
    for o in obs:
        ctx.distinct.add(signature(o))
    ctx.extra["observations"] = len(obs)
    ctx.extra["not_conforming"] = ndrift
    ctx.extra["f6_reproductions"] = {k: {"runs_with_close_after_seen": v[0], "closers": v[1]} for k, v in sorted(f6.items())}
    oidx = {o["case"]: o for o in obs}
    for nm in ("cex-f6-restarts#0", "sim-3", "tab-queue-%d" % (1 + [c["case"].startswith("tab-queue") for c in tab].index(True)), "rnd-1"):
        o = oidx.get(nm)
        if o:
            ctx.sample({"kind": nm.split("-")[0], "case": nm, "cfg": o["cfg"],
                        "history": [(e["call"], e["t"], (e["code"] + "/" + e["st"] + ":" + e["res"]) if e["call"] == "ev" else e["res"]) for e in o["mlog"]],
                        "end": o["end"], "conforms_to_Mon": nm in conf})

    # ---- 5. collect the models ---------------------------------------------------------------------------------------
    for t in threads:
        t.join()
    if errs:
        raise errs[0]
    for nm, res in models.items():
        if nm.startswith("mon-f6-"):
            continue
        if res.violated:
            raise Inconclusive("Mon model (%s) violates %s - the model misrepresents the code or the property; not a verdict\n%s" % (nm, res.violated, res.out[-2500:]))
        vlib.tlc_must_pass(res, nm)
        ctx.add_model(res)
    ctx.exhaustive = True


# ---- the monitor composed with the manager it supervises (spec/MonMgr.tla, harness mgrx/TestMonMgr) --------------------------
def monmgr_stage(ctx, prefixes=("C14.",)):
    gen = stages.write_cfg(ctx, "monmgr-gen.cfg", 'CONSTANTS\n Mode = "gen"\n ObsFile = "none.ndjson"\n OutFile = "monmgr-cases.ndjson"\n')
    res = ctx.tlc("MonMgr", gen, workers=1, timeout=300)
    vlib.tlc_must_pass(res, "MonMgr tabulation")
    rows = vlib.read_ndjson(os.path.join(res.dir, "monmgr-cases.ndjson"))
    if not rows:
        raise Inconclusive("MonMgr produced no scenarios")
    rows.sort(key=lambda r: json.dumps(r["scn"], sort_keys=True))
    if ctx.quick():
        timed = [r for r in rows if r["scn"]["kind"] != "restart"]
        rest = [r for r in rows if r["scn"]["kind"] == "restart"]
        ctx.rng.shuffle(rest)
        # always: persistent failure (gives up), transient failure (retried), success at once - both directions
        core = [r for r in rest if r["scn"]["stims"] == ["err"] and r["scn"]["script"] in ([True] * 4, [True, False, False, False], [False] * 4) and r["scn"]["max"] in (2, 3)]
        rows = timed + core + [r for r in rest if r not in core][:110]
    cases = [{"case": "mm%d" % i, "scn": r["scn"]} for i, r in enumerate(rows)]
    cp = ctx.path("monmgr-run.ndjson")
    vlib.write_ndjson(cp, cases)
    b = ctx.go_bin("mgrx")
    obs = ctx.path("monmgr-obs.ndjson")
    ctx.must_run_go(b, "TestMonMgr", env={"VERIF_CASES": cp, "VERIF_OUT": obs}, timeout=1500)
    orows = vlib.read_ndjson(obs)
    if len(orows) != len(cases):
        raise Inconclusive("TestMonMgr wrote %d observations for %d scenarios" % (len(orows), len(cases)))
    jc = stages.write_cfg(ctx, "monmgr-judge.cfg", 'CONSTANTS\n Mode = "judge"\n ObsFile = "monmgr-obs.ndjson"\n OutFile = "monmgr-verdicts.ndjson"\n')
    res2 = ctx.tlc("MonMgr", jc, workers=1, timeout=600, extra_files=[obs])
    vlib.tlc_must_pass(res2, "MonMgr judge")
    m = re.search(r'<<"@@judged", (\d+)>>', res2.out)
    if not m or int(m.group(1)) != len(orows):
        raise Inconclusive("MonMgr judge saw %s of %d observations" % (m.group(1) if m else "?", len(orows)))
    vp = os.path.join(res2.dir, "monmgr-verdicts.ndjson")
    verdicts = vlib.read_ndjson(vp) if os.path.exists(vp) else []
    byc = {o["case"]: o for o in orows}
    herr = 0
    for v in verdicts:
        o = byc[v["case"]]
        if v["rule"] == "harness":
            herr += 1
            continue
        if v["rule"] == "conf":
            ctx.drift.append({"case": v["case"], "note": "real manager + monitor deviate from MonMgr.tla", "scn": o["scn"], "got": {k: o[k] for k in ("restarts", "closed", "final", "monitored")}})
            continue
        if not any(v["rule"].startswith(p) for p in prefixes):
            continue
        s = o["scn"]
        ctx.violation({"rule": v["rule"], "src": "monitor+manager", "kind": s["kind"], "dir": s["dir"]},
                      "%s violated by the real manager with its real channel monitor (%s %s, max=%d, stimuli=%s, send outcomes(fail)=%s, timeout=%d, at=%d): restart requests %s, closed=%s, final=%s, error events=%d, cancel messages=%d, still monitored=%s"
                      % (v["rule"], s["dir"], s["kind"], s["max"], s["stims"], s["script"], s["timeout"], s["at"], o["restarts"], o["closed"], o["final"], o["errorEvents"], o["cancelMsgs"], o["monitored"]), detail=o)
    if herr > max(2, len(orows) // 20):
        raise Inconclusive("TestMonMgr: %d scenarios failed in the harness: %s" % (herr, [o["err"] for o in orows if o["err"]][:3]))
    for o in orows:
        ctx.traces += 1
        ctx.evaluations += 1 + len(o["scn"]["stims"])
        ctx.distinct.add(("monmgr", o["scn"]["kind"], o["scn"]["dir"], o["scn"]["max"], len(o["restarts"]), o["closed"], o["final"]))
    ctx.extra["monitor_with_manager"] = {"scenarios": len(orows), "harness_errors": herr, "gave_up": sum(1 for o in orows if o["closed"]), "retried": sum(1 for o in orows if len(o["restarts"]) > 1)}
    for o in orows[:1]:
        ctx.sample({"kind": "monitor+manager", "scn": o["scn"], "restarts": o["restarts"], "closed": o["closed"], "final": o["final"], "monitored": o["monitored"]})
    return len(orows)

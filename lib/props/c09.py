"""C09 Cleanup runs exactly once per ending, always settles; closing never hangs."""
import stages, chancfg, vlib

def run(ctx):
    ctx.rule = ("Chan.tla: every ending (Cancel/Error/Complete/ResumeResponder-from-Finalizing/FinishTransfer) with events arriving at every point of the asynchronous cleanup handler: "
                "C09_ExactlyOnce/NeverWithout invariants and C09_Settles liveness, environment unrestricted (EnvGuard = any: operations race with the handler); gated replay of ChanGate.tla schedules on the real engine (handler held before CleanupChannel / Unprotect / Trigger while operations are issued), judged by GateJudge and validated by ChanTrace; channel cells + histories on the real engine (C09.exactlyOnce/settles/neverWithout/unprotectPeer); manager cases: "
                "Close/CloseWithError on every status x role with and without a failing cancel send (C09.close/closeWithError/exactlyOnce/settles); non-trivial = step that enters a cleanup status")
    ctx.assumptions += ["transport-level close in every request state is checked on the real adapter by gstx/TestClose (C16 harness)"]
    for role, ops in (("init", chancfg.INIT_LIFE), ("resp", chancfg.RESP_LIFE)):
        res = stages.model_chan(ctx, chancfg.chan_cfg(init=("c1",) if role == "init" else (), ops=ops, max_ops=3 if ctx.quick() else 4, guard="any",
                                                      invariants=["TypeOK", "C09_ExactlyOnce", "C09_NeverWithout"],
                                                      properties=[] if ctx.quick() else ["C09_Settles"]), "chan-c09-" + role)
        if res.violated:
            raise vlib.Inconclusive("Chan model violates %s\n%s" % (res.violated, res.out[-1500:]))
        vlib.tlc_must_pass(res, "Chan C09")
        ctx.add_model(res)
    stages.chan_family(ctx, ["C09."], lambda s: any(e["call"] == "cleanup" for e in s["env"]))
    # gated replay: ChanGate.tla schedules in which operations are issued WHILE the real cleanup handler is held at one of its three gates
    stages.gated_family(ctx, ["C09."])
    stages.mgr_family(ctx, ["C09."], ["all"], lambda s: s["stim"]["kind"] in ("Close", "CloseErr") or any(t["call"] == "cleanup" for t in s["tr"]),
                      quick_n=3000, model=not ctx.quick(), sims=True, invariants=["M_C09_Close"], keep=lambda l: any(k in l for k in ('"kind":"Close"', '"kind":"CloseErr"', '"kind":"Cancel"')))
    # transport level: the REAL graphsync adapter's CloseChannel in every request state x gs.Cancel outcome, under virtual time
    b = ctx.go_bin("gstx")
    out = ctx.path("closeobs.ndjson")
    ctx.must_run_go(b, "TestClose", env={"VERIF_OUT": out}, timeout=600)
    n, verdicts = stages.judge(ctx, out, module="CloseJudge")
    idx = stages.index_obs(out)
    for v in verdicts:
        c = idx[v["case"]]
        ctx.violation({"rule": v["rule"], "reqState": v["status"]}, "%s violated: Transport.CloseChannel in request state %s (gs.Cancel outcome %s): returned=%s at %s ms" % (
            v["rule"], v["status"], v["op"], c["returned"], c["at_ms"]), detail=c)
    for c in idx.values():
        ctx.traces += 1
        ctx.evaluations += 1
        ctx.distinct.add(("close", c["state"], c["cancel"], c["dir"], c["returned"]))
    ctx.extra["transport_close_cases"] = n
    # overlap scenarios of GsTPair.tla on the REAL adapter: CleanupChannel / CloseChannel issued while an incoming-request hook of the same
    # channel is inside the manager's handler (which re-enters the transport as transport configurers do): releasing / closing must return
    import importlib
    c16 = importlib.import_module("props.c16")
    npair, nover, pverd, pobs = c16.pairs_stage(ctx, b)
    ctx.extra["pair_scenarios"] = {"run": npair, "overlapped": nover}
    for o in pobs.values():
        if o["x"]["a"]["op"] in ("Cleanup", "Close"):
            ctx.traces += 1
            ctx.evaluations += 1
            ctx.distinct.add(("pair", o["x"]["a"]["op"], o["reenter"], o["stuck"]))
    for v in pverd:
        if v["rule"] == "C16.storeLifetime":
            # "its transport resources are released": a per-channel store registered with graphsync must be gone once the channel was cleaned up
            o = pobs[v["case"]]
            ctx.violation({"rule": "C09.resourcesReleased", "pair": "InReq||" + v["op"], "reenter": v["reenter"]},
                          "C09.resourcesReleased violated: after the channel was released (%s overlapping an incoming-request hook, handler re-entry %s) its per-channel store is still "
                          "registered with graphsync (case %s)" % (v["op"], v["reenter"], v["case"]), detail=c16.pair_detail(v, o))
        if v["rule"] == "C20.everyCallReturns" and v["op"] in ("Cleanup", "Close"):
            o = pobs[v["case"]]
            ctx.violation({"rule": "C09.releaseReturns", "pair": "InReq||" + v["op"], "reenter": v["reenter"]},
                          "C09.releaseReturns violated: Transport.%sChannel issued while an incoming-request hook of the channel is in its handler (re-entry %s) never returned (%s): "
                          "the channel's resources are not released and it cannot settle (case %s)" % (v["op"], v["reenter"], o["stuck"], v["case"]), detail=c16.pair_detail(v, o))
    # recorded executions of the repository's own tests (hook lines: send / sent / notify / the cleanup handler's REAL CleanupChannel and
    # Unprotect calls) validated as behaviours of Chan.tla by the trace specification ChanTrace.tla, C09_ExactlyOnce / NeverWithout on every state
    if ctx.quick():
        stages.repo_suite_chantrace(ctx, ["C09."])
    else:
        stages.repo_suite_traces(ctx, ["C09."])
        import importlib
        importlib.import_module("props.c01").gsx_traces(ctx, ["C09."], 40)

"""C05 Only the counterparty, in its proper role, can act on a channel."""
import stages, vlib

def run(ctx):
    ctx.rule = ("every message kind from counterparty B / stranger X / self, with colliding and fresh transfer ids, network and transport path, restart-existing requests with every "
                "(sender, embedded channel id) combination, restart requests with each single-field mutation, and the three local role-restricted APIs, on every status x 4 roles of a "
                "REAL manager; datastore bytes of every existing channel compared before/after; C05.* judged by TLC; non-trivial = message or role-restricted API step")
    ctx.assumptions += ["the authenticated sender is what the network/transport adapters pass in (checked by C15/C16)"]
    stages.mgr_family(ctx, ["C05."], ["c05"], lambda s: s["stim"]["kind"].startswith("Recv") or s["stim"]["kind"].startswith("On") or s["stim"]["kind"] in ("SendVoucher", "SendVoucherResult", "UpdateValidation"),
                      quick_n=4000, invariants=["M_C05_Entitled", "M_C02_Final"],
                      keep=lambda l: '"kind":"Restart"' in l and '"from":"B"' in l and ('"v3"' in l or '"v0"' in l) and '"status":"Ongoing"' in l)
    adapter_strangers(ctx)


def adapter_strangers(ctx):
    """transport-adapter part: graphsync callbacks that name ANOTHER peer than a channel's counterparty (requests, blocks, responses, send / receive
    errors attributed to peer Q) on the real graphsync adapter - behaviours of GsT.tla with two remote peers, replayed by gstx/TestReplay and judged by
    GsTJudge; a callback of a stranger that produces an event on (or a graphsync action for) somebody else's channel is C16.routed there, reported here
    as C05.strangerOnTransport"""
    import os
    from props import c16
    cases = []
    n = 30 if ctx.quick() else 120
    for k, (mix, kind) in enumerate((("routing", c16.KINDS[1]), ("serve", c16.KINDS[2]), ("request", c16.KINDS[0]))):
        cfg = stages.write_cfg(ctx, "gst-c05-%s.cfg" % mix, c16.cfg_text(kind=kind, ops=c16.MIXES[mix], max_req=4, max_pend=2, exhaustive=False, length=16, record=True, req_peers=("P", "Q")))
        res = ctx.tlc("GsT", cfg, workers=1, simulate="num=%d" % n, depth=18, seed=ctx.seed * 6151 + k, timeout=600, heap="3g")
        if res.timeout or "Error:" in res.out:
            raise vlib.Inconclusive("GsT simulation (%s, two peers) failed:\n%s" % (mix, res.out[-2000:]))
        for i, c in enumerate(stages.parse_cases(res.out)):
            c["case"] = "c05-%s-%d" % (mix, i)
            cases.append(c)
    if not cases:
        raise vlib.Inconclusive("no two-peer behaviours generated")
    cp, obs, empty = ctx.path("c05-gst-cases.ndjson"), ctx.path("obs.ndjson"), ctx.path("storm.ndjson")
    vlib.write_ndjson(cp, cases)
    open(empty, "w").close()
    ctx.must_run_go(ctx.go_bin("gstx"), "TestReplay", env={"VERIF_CASES": cp, "VERIF_OUT": obs}, timeout=240)
    res = ctx.tlc("GsTJudge", "gst-judge.cfg", workers=1, timeout=600, extra_files=[obs, empty])
    vlib.tlc_must_pass(res, "GsTJudge")
    p = os.path.join(res.dir, "verdicts.ndjson")
    byc = {c["case"]: c for c in cases}
    for v in (vlib.read_ndjson(p) if os.path.exists(p) else []):
        if v["rule"] == "conf":
            ctx.drift.append(v)
        elif v["rule"] in ("harness", "script"):
            raise vlib.Inconclusive("two-peer adapter replay: %s" % v)
        elif v["rule"] == "C16.routed":
            ctx.violation({"rule": "C05.strangerOnTransport", "op": v["op"]},
                          "C05.strangerOnTransport: a graphsync callback (%s) acted on a channel its peer is no party of (real adapter, case %s step %s)" % (v["op"], v["case"], v["i"]),
                          detail={"verdict": v, "case_def": byc.get(v["case"])})
    ctx.traces += len(cases)
    ctx.evaluations += sum(len(c["steps"]) for c in cases)
    ctx.extra["adapter_two_peer_behaviours"] = len(cases)

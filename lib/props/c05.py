"""C05 Only the counterparty, in its proper role, can act on a channel."""
import stages

def run(ctx):
    ctx.rule = ("every message kind from counterparty B / stranger X / self, with colliding and fresh transfer ids, network and transport path, restart-existing requests with every "
                "(sender, embedded channel id) combination, restart requests with each single-field mutation, and the three local role-restricted APIs, on every status x 4 roles of a "
                "REAL manager; datastore bytes of every existing channel compared before/after; C05.* judged by TLC; non-trivial = message or role-restricted API step")
    ctx.assumptions += ["the authenticated sender is what the network/transport adapters pass in (checked by C15/C16)"]
    stages.mgr_family(ctx, ["C05."], ["c05"], lambda s: s["stim"]["kind"].startswith("Recv") or s["stim"]["kind"].startswith("On") or s["stim"]["kind"] in ("SendVoucher", "SendVoucherResult", "UpdateValidation"),
                      quick_n=4000, invariants=["M_C05_Entitled", "M_C02_Final"],
                      keep=lambda l: '"kind":"Restart"' in l and '"from":"B"' in l and ('"v3"' in l or '"v0"' in l) and '"status":"Ongoing"' in l)
